/-
Executable specification for C07 (what ISO 32000-1 9.7.5-9.7.6, 9.10.3 and the property demand),
written independently of the control flow of the model:

* a string shown in an identity-encoded font is the sequence of its complete big-endian
  `w`-byte codes (`specIdentity`);
* a string shown with a table CMap is split by the (prefix-free) code table; an incomplete code at
  the end yields nothing (`specSegment`);
* a ToUnicode CMap is the list of (code, text) pairs of its bfchar / bfrange entries in definition
  order, later definitions overriding earlier ones (`specPairs`, `specMap`);
* a `W` array is the list of (cid, width) pairs of its entries (`specWidthPairs`), default `DW`.

`render*` produce the token / element lists of these abstract objects in the one spelling the
harness also serialises; the property theorems are about `model (render x) = spec x`.
-/
import PdfVerif.Model.CIDFont

namespace PdfVerif.CIDFontSpec
open PdfVerif PdfVerif.CIDFont

/-! ## Segmentation -/

/-- Codes of width `w`: chunk `i` is bytes `[i*w, i*w + w)`, for `i < len / w`. -/
def specIdentity (w : Nat) (s : Bytes) : List Nat :=
  (List.range (s.length / w)).map (fun i => nunpack ((s.drop (i * w)).take w))

abbrev CodeTable := List (Bytes × Nat)

def matchCode (tab : CodeTable) (s : Bytes) : Option (Bytes × Nat) :=
  tab.find? (fun e => !e.1.isEmpty && e.1.isPrefixOf s)

def isPartialCode (tab : CodeTable) (s : Bytes) : Bool :=
  tab.any (fun e => s.isPrefixOf e.1 && s.length < e.1.length)

/-- `some cids` when `s` = codes* ++ (incomplete code)?; `none` outside that domain. -/
def specSegment (tab : CodeTable) : Nat → Bytes → Option (List Nat)
  | _, [] => some []
  | 0, _ => none
  | fuel + 1, s =>
    match matchCode tab s with
    | some (c, cid) => (specSegment tab fuel (s.drop c.length)).map (cid :: ·)
    | none => if isPartialCode tab s then some [] else none

/-! ## UTF-16BE -/

/-- Unicode scalar value. -/
def isScalar (c : Nat) : Bool := c < 0x110000 && !(0xD800 ≤ c && c < 0xE000)

def utf16EncodeChar (c : Nat) : Bytes :=
  if c < 0x10000 then [UInt8.ofNat (c / 256), UInt8.ofNat (c % 256)]
  else
    let v := c - 0x10000
    let hi := 0xD800 + v / 1024
    let lo := 0xDC00 + v % 1024
    [UInt8.ofNat (hi / 256), UInt8.ofNat (hi % 256), UInt8.ofNat (lo / 256), UInt8.ofNat (lo % 256)]

def utf16Encode (cs : List Nat) : Bytes := cs.flatMap utf16EncodeChar

/-! ## ToUnicode -/

inductive Dst where
  | inc (d : Bytes)
  | arr (ds : List Bytes)
deriving Repr

structure REntry where
  lo : Bytes
  hi : Bytes
  dst : Dst
deriving Repr

inductive Sec where
  | chars (es : List (Bytes × Bytes))
  | ranges (es : List REntry)
deriving Repr

/-- `n` bytes, big-endian, of `v mod 256^n`. -/
def natToBE : Nat → Nat → Bytes
  | 0, _ => []
  | n + 1, v => natToBE n (v / 256) ++ [UInt8.ofNat (v % 256)]

/-- ISO 32000-1 9.10.3: "the last byte of the string shall be incremented"; undefined on overflow. -/
def incLast (d : Bytes) (k : Nat) : Option Bytes :=
  match d.getLast? with
  | some b => if b.toNat + k < 256 then some (d.dropLast ++ [UInt8.ofNat (b.toNat + k)]) else none
  | none => none

/-- Carry form: the last `min 4 len` bytes are a big-endian number that is incremented. -/
def incBE (d : Bytes) (k : Nat) : Bytes :=
  dropLast4 d ++ natToBE (takeLast 4 d).length (nunpack (takeLast 4 d) + k)

def zipFrom : Nat → List Bytes → List (Int × List Nat)
  | _, [] => []
  | k, d :: ds => ((k : Int), utf16Ignore d) :: zipFrom (k + 1) ds

def rangePairs (e : REntry) : List (Int × List Nat) :=
  let a := nunpack e.lo
  let n := nunpack e.hi + 1 - a
  match e.dst with
  | .inc d => (List.range n).map (fun i => (((a + i : Nat) : Int), utf16Ignore (incBE d i)))
  | .arr ds => zipFrom a (ds.take n)

def secPairs : Sec → List (Int × List Nat)
  | .chars es => es.map (fun e => ((nunpack e.1 : Int), utf16Ignore e.2))
  | .ranges es => es.flatMap rangePairs

/-- (code, text) pairs in definition order. -/
def specPairs (secs : List Sec) : List (Int × List Nat) := secs.flatMap secPairs

/-- The map a ToUnicode CMap defines: latest definition first. -/
def specMap (secs : List Sec) : UMap := (specPairs secs).reverse

/-- No code is first given U+0020 and later U+00A0 (the one redefinition pdfminer deliberately ignores). -/
def quirkFree : List (Int × List Nat) → UMap → Bool
  | [], _ => true
  | (c, u) :: rest, acc =>
    !(u == [0xA0] && acc.lookup c == some [0x20]) && quirkFree rest ((c, u) :: acc)

def entryOk (e : REntry) : Bool :=
  e.lo.length == e.hi.length &&
  match e.dst with
  | .inc d => !d.isEmpty &&
      nunpack (takeLast 4 d) + (nunpack e.hi - nunpack e.lo) < 256 ^ (takeLast 4 d).length
  | .arr _ => true

def secOk : Sec → Bool
  | .chars _ => true
  | .ranges es => es.all entryOk

/-- Domain of the ToUnicode theorems. -/
def inDomain (secs : List Sec) : Bool := secs.all secOk && quirkFree (specPairs secs) []

def headerToks : List Tok :=
  [.name "CIDInit".toUTF8.toList, .name "ProcSet".toUTF8.toList, .kw "findresource", .kw "begin", .int 12,
   .kw "dict", .kw "begin", .kw "begincmap", .name "CMapName".toUTF8.toList,
   .name "Adobe-Identity-UCS".toUTF8.toList, .kw "def", .name "CMapType".toUTF8.toList, .int 2, .kw "def",
   .int 1, .kw "begincodespacerange", .str [0, 0], .str [255, 255], .kw "endcodespacerange"]

def trailerToks : List Tok :=
  [.kw "endcmap", .kw "CMapName", .kw "currentdict", .name "CMap".toUTF8.toList, .kw "defineresource", .kw "pop",
   .kw "end", .kw "end"]

def dstTok : Dst → Tok
  | .inc d => .str d
  | .arr ds => .arr (ds.map AElem.str)

def renderREntry (e : REntry) : List Tok := [.str e.lo, .str e.hi, dstTok e.dst]

def renderSec : Sec → List Tok
  | .chars es => [.int es.length, .kw "beginbfchar"] ++ es.flatMap (fun e => [Tok.str e.1, Tok.str e.2]) ++ [.kw "endbfchar"]
  | .ranges es => [.int es.length, .kw "beginbfrange"] ++ es.flatMap renderREntry ++ [.kw "endbfrange"]

/-- Token list of a ToUnicode CMap with these sections. -/
def render (secs : List Sec) : List Tok := headerToks ++ secs.flatMap renderSec ++ trailerToks

/-! ## Widths -/

inductive WEntry where
  | list (c : Nat) (ws : List (Rat × Bool))         -- `c [w1 w2 ...]`
  | range (c1 c2 : Int) (w : Rat × Bool)            -- `c1 c2 w`
deriving Repr

def listPairs (c : Nat) : Nat → List (Rat × Bool) → List (Int × Rat)
  | _, [] => []
  | i, w :: ws => (((c + i : Nat) : Int), w.1) :: listPairs c (i + 1) ws

def wentryPairs : WEntry → List (Int × Rat)
  | .list c ws => listPairs c 0 ws
  | .range c1 c2 w =>      -- CIDs are 0..65535 (ISO 32000-1 9.7.4): the part of the range outside is void
    (List.range (min c2 65535 + 1 - max c1 0).toNat).map (fun (i : Nat) => (max c1 0 + (i : Int), w.1))

/-- (cid, width) pairs in definition order. -/
def specWidthPairs (es : List WEntry) : List (Int × Rat) := es.flatMap wentryPairs

/-- Width of a cid: the latest entry that covers it, else `DW` (default 1000). -/
def specWidth (es : List WEntry) (dw : Option Rat) (cid : Nat) : Rat :=
  match (specWidthPairs es).reverse.lookup (cid : Int) with
  | some w => w
  | none => dw.getD 1000

def renderWEntry : WEntry → List WElem
  | .list c ws => [.num (c : Rat) true, .list (ws.map (fun w => WVal.num w.1))]
  | .range c1 c2 w => [.num (c1 : Rat) true, .num (c2 : Rat) true, .num w.1 w.2]

def renderW (es : List WEntry) : List WElem := es.flatMap renderWEntry

/-- Vertical metrics `W2`: (w1y, vx, vy). -/
inductive W2Entry where
  | list (c : Nat) (ws : List ((Rat × Bool) × (Rat × Bool) × (Rat × Bool)))
  | range (c1 c2 : Int) (w : (Rat × Bool) × (Rat × Bool) × (Rat × Bool))
deriving Repr

def list2Pairs (c : Nat) : Nat → List ((Rat × Bool) × (Rat × Bool) × (Rat × Bool)) → List (Int × (Rat × Rat × Rat))
  | _, [] => []
  | i, w :: ws => (((c + i : Nat) : Int), (w.1.1, w.2.1.1, w.2.2.1)) :: list2Pairs c (i + 1) ws

def w2entryPairs : W2Entry → List (Int × (Rat × Rat × Rat))
  | .list c ws => list2Pairs c 0 ws
  | .range c1 c2 w =>
    (List.range (min c2 65535 + 1 - max c1 0).toNat).map
      (fun (i : Nat) => (max c1 0 + (i : Int), (w.1.1, w.2.1.1, w.2.2.1)))

def specWidth2Pairs (es : List W2Entry) : List (Int × (Rat × Rat × Rat)) := es.flatMap w2entryPairs

/-- Vertical advance `w1y` of a cid: latest covering `W2` entry, else `DW2[1]` (default -1000). -/
def specWidthV (es : List W2Entry) (dw2 : Option (Rat × Rat)) (cid : Nat) : Rat :=
  match (specWidth2Pairs es).reverse.lookup (cid : Int) with
  | some w => w.1
  | none => (dw2.getD (880, -1000)).2

/-- Position vector of a cid in vertical writing: `(vx, vy)` of the latest covering `W2` entry of THIS font,
else the default `(w0/2, DW2[0])` — reported as `(none, DW2[0])`, default 880. -/
def specDispV (es : List W2Entry) (dw2 : Option (Rat × Rat)) (cid : Nat) : Option Rat × Rat :=
  match (specWidth2Pairs es).reverse.lookup (cid : Int) with
  | some w => (some w.2.1, w.2.2)
  | none => (none, (dw2.getD (880, -1000)).1)

def renderW2Entry : W2Entry → List WElem
  | .list c ws => [.num (c : Rat) true,
                   .list (ws.flatMap (fun w => [WVal.num w.1.1, WVal.num w.2.1.1, WVal.num w.2.2.1]))]
  | .range c1 c2 w => [.num (c1 : Rat) true, .num (c2 : Rat) true, .num w.1.1 w.1.2, .num w.2.1.1 w.2.1.2,
                       .num w.2.2.1 w.2.2.2]

def renderW2 (es : List W2Entry) : List WElem := es.flatMap renderW2Entry

end PdfVerif.CIDFontSpec
