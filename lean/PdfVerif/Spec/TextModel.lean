/-
C05 — executable specification: the text model of ISO 32000-1, written as literally as possible.

* 8.4   graphics state (CTM, colour spaces and colours, the text-state parameters of Table 104),
        `q`/`Q` (graphics-state stack), `cm` (CTM := M × CTM);
* 8.6.8 colour operators `g G rg RG k K cs CS sc scn SC SCN` (Table 74);
* 8.10  form XObjects: painted as `q  Matrix cm  <content>  Q` with the form's own resources;
* 9.3   text state operators `Tc Tw Tz TL Tf Tr Ts` (Table 105);
* 9.4.1 text objects `BT`/`ET`: Tm := Tlm := I;
* 9.4.2 text positioning `Td TD Tm T*` (Table 108);
* 9.4.3 text showing `Tj ' " TJ` (Table 109);
* 9.4.4 glyph displacement  tx = ((w0 − Tj/1000)·Tfs + Tc + Tw)·Th,  Tm := [1 0 0 1 tx 0] × Tm;
* Figure 9: which operator may occur at page-description level and which inside a text object.

`step` answers `none` where the standard gives the program no meaning (an operator outside its
place in Figure 9, more operands than the operator takes, `Q` without `q` in the same stream, a
resource that does not exist, a colour component outside [0,1], text shown without a font, …):
`none` = outside the domain of the property.  An operator with missing or ill-typed operands is
*defined* here to do nothing (that is what property C05 demands).  A form inherits the whole
graphics state of its caller (8.10.1).
-/
import PdfVerif.Model.Content

namespace PdfVerif.TextModel
open PdfVerif PdfVerif.Content PdfVerif.Gen.Utils

/-- Graphics state (device-independent part that matters for text). `Th` is kept as the operand of
`Tz` (a percentage); `fill = none` is the initial colour. -/
structure GS where
  ctm : Matrix
  fillN : Nat
  strokeN : Nat
  fill : Option Color
  stroke : Option Color
  Tc : Rat
  Tw : Rat
  Th : Rat
  Tl : Rat
  Tf : Option Nat
  Tfs : Rat
  Tmode : Int
  Trise : Rat
  deriving Repr, DecidableEq, Inhabited

/-- Initial graphics state of a page (8.4.1, Table 52; 9.3.1, Table 104). -/
def GS.init (ctm : Matrix) : GS :=
  ⟨ctm, 1, 1, none, none, 0, 0, 100, 0, none, 0, 0, 0⟩

/-- State while a content stream is interpreted: graphics state, graphics-state stack of this
stream, text object (`Tm`, `Tlm`) if one is open, current resource dictionary. -/
structure SState where
  gs : GS
  stack : List GS
  txt : Option (Matrix × Matrix)
  res : Res
  deriving Repr, Inhabited

inductive Ty where
  | num | str | name | arr | any
  deriving Repr, DecidableEq

def Ty.ok : Ty → Obj → Bool
  | .num, .num _ => true
  | .str, .str _ => true
  | .name, .name _ => true
  | .arr, .arr _ => true
  | .any, .null => false     -- `null` is not an object: the parser does not hand it over as an operand
  | .any, _ => true
  | _, _ => false

def _root_.PdfVerif.Content.Obj.isBool : Obj → Bool
  | .bool _ => true
  | _ => false

def wellTyped : List Ty → List Obj → Bool
  | [], [] => true
  | t :: ts, o :: os => t.ok o && wellTyped ts os
  | _, _ => false

/-- The operators of a content stream that are *not* in the property's list, by the suffix of
pdfminer's method name (`f*` → `f_a`), with their number of operands: general graphics state
(Table 57: `w J j M d ri i gs`), path construction (Table 59), path painting (Table 60), clipping
(Table 61), shading (Table 77), marked content (Table 320), compatibility (Table 32).  The text
model gives none of them an effect on the text state, the CTM, the colours or the glyphs shown. -/
def neutralTable : List (String × Nat) :=
  [("w", 1), ("J", 1), ("j", 1), ("M", 1), ("d", 2), ("ri", 1), ("i", 1), ("gs", 1),
   ("m", 2), ("l", 2), ("c", 6), ("v", 4), ("y", 4), ("h", 0), ("re", 4),
   ("S", 0), ("s", 0), ("f", 0), ("F", 0), ("f_a", 0), ("B", 0), ("B_a", 0), ("b", 0), ("b_a", 0), ("n", 0),
   ("W", 0), ("W_a", 0), ("sh", 1),
   ("MP", 1), ("DP", 2), ("BMC", 1), ("BDC", 2), ("EMC", 0), ("BX", 0), ("EX", 0)]

def neutralArity (name : String) : Option Nat := lookup name neutralTable

/-- Figure 9: general graphics state, marked content and compatibility operators may also appear
inside a text object; path construction / painting / clipping and `sh` only at page level. -/
def neutralInText (name : String) : Bool :=
  ["w", "J", "j", "M", "d", "ri", "i", "gs", "MP", "DP", "BMC", "BDC", "EMC", "BX", "EX"].contains name

/-- Operand types of each operator (Tables 57, 74, 105, 108, 109, 87); `none`: not an operator of a
content stream.  The operators outside the property's list take operands of any type. -/
def sig (gs : GS) : Op → Option (List Ty)
  | .q | .Q | .BT | .ET | .Tstar => some []
  | .cm | .Tm => some [.num, .num, .num, .num, .num, .num]
  | .Tc | .Tw | .Tz | .TL | .Ts | .Tr | .g | .G => some [.num]
  | .Td | .TD => some [.num, .num]
  | .rg | .RG => some [.num, .num, .num]
  | .k | .K => some [.num, .num, .num, .num]
  | .Tf => some [.name, .num]
  | .Tj | .quote => some [.str]
  | .dquote => some [.num, .num, .str]
  | .TJ => some [.arr]
  | .cs | .CS | .Do => some [.name]
  | .sc | .scn => some (List.replicate gs.fillN .num)
  | .SC | .SCN => some (List.replicate gs.strokeN .num)
  | .other n => (neutralArity n).map (fun k => List.replicate k Ty.any)

def isTextState : Op → Bool
  | .Tc | .Tw | .Tz | .TL | .Tf | .Tr | .Ts => true
  | _ => false

def isColour : Op → Bool
  | .g | .G | .rg | .RG | .k | .K | .cs | .CS | .sc | .scn | .SC | .SCN => true
  | _ => false

/-- Figure 9. -/
def allowed (inText : Bool) (o : Op) : Bool :=
  if inText then
    isTextState o || isColour o ||
      (match o with | .Td | .TD | .Tm | .Tstar | .Tj | .TJ | .quote | .dquote | .ET => true
                    | .other n => neutralInText n | _ => false)
  else
    isTextState o || isColour o ||
      (match o with | .q | .Q | .cm | .Do | .BT => true | .other n => (neutralArity n).isSome | _ => false)

def unitRange (c : Color) : Bool := c.all (fun x => decide (0 ≤ x) && decide (x ≤ 1))

/-- The numbers among the operands (for `sc`/`scn`, whose operands are all numbers when well typed). -/
def numsOf : List Obj → List Rat
  | [] => []
  | .num q :: rest => q :: numsOf rest
  | _ :: rest => numsOf rest

/-- Device colour spaces usable by name, with their number of components. -/
def deviceCS : String → Option Nat
  | "DeviceGray" => some 1
  | "DeviceRGB" => some 3
  | "DeviceCMYK" => some 4
  | _ => none

/-- Initial colour of a colour space (Table 74, `CS`): black — `0 0 0 1` in DeviceCMYK, all
components 0 in the other device, CIE-based and Indexed spaces — and tint 1.0 for every colorant
of a Separation / DeviceN space. -/
def initialColourOf (family : String) (n : Nat) : Color :=
  if family = "DeviceCMYK" then [0, 0, 0, 1]
  else if family = "Separation" ∨ family = "DeviceN" then List.replicate n 1
  else List.replicate n 0

def initialColour (n : Nat) : Color := if n = 4 then [0, 0, 0, 1] else List.replicate n 0

/-- Colour-space families a `ColorSpace` resource may select in this model (a Pattern space has no
colour components). -/
def knownFamily (family : String) : Bool :=
  family = "DeviceGray" || family = "DeviceRGB" || family = "DeviceCMYK" || family = "CalGray" || family = "CalRGB" ||
  family = "Lab" || family = "ICCBased" || family = "Indexed" || family = "Separation" || family = "DeviceN"

inductive CSRes where
  | defined (family : String) (n : Nat)
  | undefined      -- the name means nothing here: the operator is ignored
  | outside        -- outside the domain (Pattern, a family used without its parameters, no components)
  deriving Repr, DecidableEq

/-- What the operand of `cs`/`CS` names: an entry of the current `ColorSpace` resources, else one of
the device colour spaces; the names of the other families need parameters and cannot be used
directly (outside the domain); any other name is undefined. -/
def csResolve (res : Res) (name : String) : CSRes :=
  match lookupCS name res.cspaces with
  | some (family, n) => if knownFamily family && decide (0 < n) then .defined family n else .outside
  | none =>
    match deviceCS name with
    | some n => .defined name n
    | none =>
      if name = "CalRGB" ∨ name = "CalGray" ∨ name = "Lab" ∨ name = "Separation" ∨ name = "Indexed" ∨ name = "Pattern"
      then .outside else .undefined

/-- x component of the position vector of a vertical glyph in text space (default: half the em). -/
def posVx (f : Font) (tfs : Rat) (code : Nat) : Rat :=
  match (f.disp code).1 with
  | none => tfs / 2
  | some vx => vx / 1000 * tfs

/-- `LTChar.upright` — pdfminer's documented notion "the glyph is not rotated or mirrored", for a
glyph painted with text rendering matrix `[a b c d e f]` under horizontal scaling `Th`: the
diagonal keeps its orientation (`a·d·Th > 0`) and the off-diagonal terms do not have the same sign
(`b·c ≤ 0`, as in a rotation `[cos sin −sin cos]`). -/
def uprightOf (trm : Matrix) (th : Rat) : Bool :=
  decide (0 < trm.1 * trm.2.2.2.1 * (th / 100)) && decide (trm.2.1 * trm.2.2.1 ≤ 0)

/-- What `LTChar` reports for a glyph the text model paints with `Tm × CTM = trm`.
Horizontal writing: advance `w0·Tfs·Th`, box `[0, d+Trise, adv, d+Trise+Tfs]` (d = descent·Tfs).
Vertical writing: advance `w1·Tfs` (not scaled by Th), box placed by the position vector `(vx, vy)`
(default `vx` = half the em): `[−vx, vy'+Trise+adv, −vx+Tfs, vy'+Trise]`, `vy' = (1000−vy)/1000·Tfs`.
`w0`/`w1` = glyph-space width × the x-scale of the font matrix (1/1000 except for Type 3 fonts). -/
def observe (trm : Matrix) (f : Font) (gs : GS) (code : Nat) : Glyph :=
  let w := f.width code * f.hscale
  if f.vertical then
    let adv := w * gs.Tfs
    let vx := posVx f gs.Tfs code
    let vy := (1000 - (f.disp code).2) / 1000 * gs.Tfs
    let (x0, y0, x1, y1) := apply_matrix_rect trm (-vx, vy + gs.Trise + adv, -vx + gs.Tfs, vy + gs.Trise)
    { m := trm, adv := adv, bbox := (x0, y0, x1, y1), size := x1 - x0, upright := uprightOf trm gs.Th,
      font := f.name, col := gs.fill }
  else
    let adv := w * gs.Tfs * (gs.Th / 100)
    let d := f.descent * f.vscale * gs.Tfs
    let (x0, y0, x1, y1) := apply_matrix_rect trm (0, d + gs.Trise, adv, d + gs.Trise + gs.Tfs)
    { m := trm, adv := adv, bbox := (x0, y0, x1, y1), size := y1 - y0, upright := uprightOf trm gs.Th,
      font := f.name, col := gs.fill }

/-- 9.4.4 for one glyph: horizontal `tx = (w0·Tfs + Tc + Tw)·Th`, vertical `ty = w1·Tfs + Tc + Tw`;
word spacing only for the single-byte code 32. -/
def displacement (f : Font) (gs : GS) (c : Nat) : Rat × Rat :=
  let w := f.width c * f.hscale
  let tw := if c = 32 ∧ f.multibyte = false then gs.Tw else 0
  if f.vertical then (0, w * gs.Tfs + gs.Tc + tw) else ((w * gs.Tfs + gs.Tc + tw) * (gs.Th / 100), 0)

/-- 9.4.4: show the character codes of one string. -/
def showCodes (f : Font) (gs : GS) : Matrix → List Nat → Matrix × List Glyph
  | tm, [] => (tm, [])
  | tm, c :: rest =>
    let g := observe (mult_matrix tm gs.ctm) f gs c
    let (tx, ty) := displacement f gs c
    let (tm', gl) := showCodes f gs (mult_matrix (1, 0, 0, 1, tx, ty) tm) rest
    (tm', g :: gl)

/-- `TJ`: strings are shown; a number moves by `−n/1000·Tfs·Th` horizontally, resp. `−n/1000·Tfs`
vertically. `none` for any other element. -/
def showSeq (f : Font) (gs : GS) : Matrix → List Elem → Option (Matrix × List Glyph)
  | tm, [] => some (tm, [])
  | tm, .num n :: rest =>
    let t : Rat × Rat := if f.vertical then (0, -n / 1000 * gs.Tfs) else ((-n / 1000 * gs.Tfs) * (gs.Th / 100), 0)
    showSeq f gs (mult_matrix (1, 0, 0, 1, t.1, t.2) tm) rest
  | tm, .str bytes :: rest =>
    let (tm1, g1) := showCodes f gs tm (f.decode bytes)
    match showSeq f gs tm1 rest with
    | some (tm2, g2) => some (tm2, g1 ++ g2)
    | none => none
  | _, .other :: _ => none

/-- Table 108, `Td`: Tlm := [1 0 0 1 tx ty] × Tlm, Tm := Tlm. -/
def nextLine (txt : Matrix × Matrix) (tx ty : Rat) : Matrix × Matrix :=
  let tlm := mult_matrix (1, 0, 0, 1, tx, ty) txt.2
  (tlm, tlm)

def showIn (env : Env) (s : SState) (txt : Matrix × Matrix) (seq : List Elem) : Option (SState × List Glyph) :=
  match s.gs.Tf with
  | none => none
  | some i =>
    match env.fonts[i]? with
    | none => none
    | some f =>
      -- vertical writing exists for composite (multi-byte) fonts only: the WMode lives in the CMap
      if f.vertical && !f.multibyte then none else
      match showSeq f s.gs txt.1 seq with
      | none => none
      | some (tm, gl) => some ({ s with txt := some (tm, txt.2) }, gl)

/-- Effect of an operator whose operands are complete and well typed. -/
def apply (env : Env) (runForm : Form → GS → Res → Option (List Glyph)) (s : SState) :
    Op → List Obj → Option (SState × List Glyph)
  | .q, [] => some ({ s with stack := s.gs :: s.stack }, [])
  | .Q, [] =>
    match s.stack with
    | [] =>
      -- nothing saved in this content stream. On a page there is nothing below either: `Q` restores
      -- nothing. Inside a form it would reach into the caller's saved states: outside the domain.
      if s.res.active.isEmpty then some (s, []) else none
    | g :: rest => some ({ s with gs := g, stack := rest }, [])
  | .cm, [.num a, .num b, .num c, .num d, .num e, .num f] =>
    some ({ s with gs := { s.gs with ctm := mult_matrix (a, b, c, d, e, f) s.gs.ctm } }, [])
  | .BT, [] => some ({ s with txt := some (MATRIX_IDENTITY, MATRIX_IDENTITY) }, [])
  | .ET, [] => some ({ s with txt := none }, [])
  | .Tc, [.num v] => some ({ s with gs := { s.gs with Tc := v } }, [])
  | .Tw, [.num v] => some ({ s with gs := { s.gs with Tw := v } }, [])
  | .Tz, [.num v] => some ({ s with gs := { s.gs with Th := v } }, [])
  | .TL, [.num v] => some ({ s with gs := { s.gs with Tl := v } }, [])
  | .Ts, [.num v] => some ({ s with gs := { s.gs with Trise := v } }, [])
  | .Tr, [.num v] => if v.den = 1 then some ({ s with gs := { s.gs with Tmode := v.num } }, []) else none
  | .Tf, [.name n, .num sz] =>
    match lookup n s.res.fonts with
    | none => none
    | some i => if i < env.fonts.length then some ({ s with gs := { s.gs with Tf := some i, Tfs := sz } }, []) else none
  | .Td, [.num tx, .num ty] =>
    match s.txt with
    | none => none
    | some t => some ({ s with txt := some (nextLine t tx ty) }, [])
  | .TD, [.num tx, .num ty] =>
    match s.txt with
    | none => none
    | some t => some ({ s with gs := { s.gs with Tl := -ty }, txt := some (nextLine t tx ty) }, [])
  | .Tm, [.num a, .num b, .num c, .num d, .num e, .num f] =>
    match s.txt with
    | none => none
    | some _ => some ({ s with txt := some ((a, b, c, d, e, f), (a, b, c, d, e, f)) }, [])
  | .Tstar, [] =>
    match s.txt with
    | none => none
    | some t => some ({ s with txt := some (nextLine t 0 (-s.gs.Tl)) }, [])
  | .Tj, [.str codes] =>
    match s.txt with
    | none => none
    | some t => showIn env s t [.str codes]
  | .TJ, [.arr es] =>
    match s.txt with
    | none => none
    | some t => showIn env s t es
  | .quote, [.str codes] =>
    match s.txt with
    | none => none
    | some t => showIn env s (nextLine t 0 (-s.gs.Tl)) [.str codes]
  | .dquote, [.num aw, .num ac, .str codes] =>
    match s.txt with
    | none => none
    | some t =>
      let s := { s with gs := { s.gs with Tw := aw, Tc := ac } }
      showIn env s (nextLine t 0 (-s.gs.Tl)) [.str codes]
  | .g, [.num v] =>
    if unitRange [v] then some ({ s with gs := { s.gs with fillN := 1, fill := some [v] } }, []) else none
  | .G, [.num v] =>
    if unitRange [v] then some ({ s with gs := { s.gs with strokeN := 1, stroke := some [v] } }, []) else none
  | .rg, [.num r, .num g, .num b] =>
    if unitRange [r, g, b] then some ({ s with gs := { s.gs with fillN := 3, fill := some [r, g, b] } }, []) else none
  | .RG, [.num r, .num g, .num b] =>
    if unitRange [r, g, b] then some ({ s with gs := { s.gs with strokeN := 3, stroke := some [r, g, b] } }, []) else none
  | .k, [.num c, .num m, .num y, .num k] =>
    if unitRange [c, m, y, k] then some ({ s with gs := { s.gs with fillN := 4, fill := some [c, m, y, k] } }, []) else none
  | .K, [.num c, .num m, .num y, .num k] =>
    if unitRange [c, m, y, k] then some ({ s with gs := { s.gs with strokeN := 4, stroke := some [c, m, y, k] } }, []) else none
  | .cs, [.name n] =>
    match csResolve s.res n with
    | .defined fam k => some ({ s with gs := { s.gs with fillN := k, fill := some (initialColourOf fam k) } }, [])
    | .undefined => some (s, [])
    | .outside => none
  | .CS, [.name n] =>
    match csResolve s.res n with
    | .defined fam k => some ({ s with gs := { s.gs with strokeN := k, stroke := some (initialColourOf fam k) } }, [])
    | .undefined => some (s, [])
    | .outside => none
  | .sc, args | .scn, args =>
    let c := numsOf args
    if unitRange c then some ({ s with gs := { s.gs with fill := some c } }, []) else none
  | .SC, args | .SCN, args =>
    let c := numsOf args
    if unitRange c then some ({ s with gs := { s.gs with stroke := some c } }, []) else none
  | .Do, [.name n] =>
    match lookup n s.res.xobjs with
    | none => none
    | some i =>
      match env.forms[i]? with
      | none => none
      | some fm =>
        -- a form XObject must not (directly or indirectly) paint itself
        if s.res.active.contains i then none else
        -- q ; Matrix cm ; content with the form's resources ; Q
        let gs := { s.gs with ctm := mult_matrix (fm.matrix.getD MATRIX_IDENTITY) s.gs.ctm }
        match runForm fm gs { fm.res.getD s.res with active := i :: s.res.active } with
        | none => none
        | some gl => some (s, gl)
  -- an operator outside the property's list (only `sig` admits it): no effect on anything observed here
  | .other _, _ => some (s, [])
  | _, _ => none

/-- One instruction. -/
def step (env : Env) (runForm : Form → GS → Res → Option (List Glyph)) (s : SState) (i : Instr) :
    Option (SState × List Glyph) :=
  match sig s.gs i.op with
  | none => none
  | some tys =>
    if !(allowed s.txt.isSome i.op) then none
    else if i.args.any Obj.isBool then none          -- pdfminer's casts read `true` as 1.0: outside the domain
    else if tys.length < i.args.length then none
    else if !(wellTyped tys i.args) then some (s, [])
    else apply env runForm s i.op i.args

def runInstrs (env : Env) (runForm : Form → GS → Res → Option (List Glyph)) :
    SState → List Instr → Option (SState × List Glyph)
  | s, [] => some (s, [])
  | s, i :: rest =>
    match step env runForm s i with
    | none => none
    | some (s1, g1) =>
      match runInstrs env runForm s1 rest with
      | none => none
      | some (s2, g2) => some (s2, g1 ++ g2)

/-- A content stream (page contents or form body) from a given graphics state: its own
graphics-state stack; no text object left open at the end. A form must have restored everything it
saved (its `q`/`Q` are nested inside the caller's); what a page leaves saved at its end is dropped
with the page — the next page starts from the initial state with an empty stack. -/
def runStream (env : Env) (runForm : Form → GS → Res → Option (List Glyph)) (gs : GS) (res : Res)
    (is : List Instr) : Option (List Glyph) :=
  match runInstrs env runForm ⟨gs, [], none, res⟩ is with
  | none => none
  | some (s, gl) => if s.txt.isNone && (s.stack.isEmpty || res.active.isEmpty) then some gl else none

/-- A form XObject invoked with graphics state `gs` (CTM already multiplied by `Matrix`). -/
def runForm (env : Env) : Nat → Form → GS → Res → Option (List Glyph)
  | 0, _, _, _ => none
  | fuel + 1, fm, gs, res =>
    match parseInstrs fm.body [] with
    | (is, []) => runStream env (runForm env fuel) gs res is
    | (_, _ :: _) => none

/-- A page: initial graphics state with the page's CTM, the concatenated content streams. -/
def runPage (env : Env) (fuel : Nat) (ctm : Matrix) (res : Res) (is : List Instr) : Option (List Glyph) :=
  runStream env (runForm env fuel) (GS.init ctm) res is

end PdfVerif.TextModel
