/-
Executable specification for C06, written from the documents, not from the code:

* `aglSpec`    - Adobe Glyph List specification, section 2 "The mapping" (without the Zapf Dingbats
                 clause): drop everything from the first period; split at underscores; map each
                 component (list name | `uni` + groups of four UPPERCASE hex digits, none a surrogate |
                 `u` + four to six UPPERCASE hex digits, a scalar value | otherwise empty); concatenate.
* `assignments`/`lastAssigned` - ISO 32000-1 9.6.6.1: a Differences array is a list of code numbers each
                 followed by glyph names for consecutive codes; a later assignment to a code replaces an earlier one.
* `specText`   - the property: ToUnicode entry, else AGL value of the glyph name of the code, else `(cid:N)`.
* `specWidth`  - the property: Widths[code - FirstChar], else the standard-14 metric of the character,
                 else MissingWidth; times 1/1000, or times FontMatrix[0] for Type3.

Shares with the model only the data types (`FontDict`, `DiffTok`, `TuEntry`, tables) and the functions
that are pure parsing of the font dictionary's byte strings (`tuDefs`, `utf16beIgnore`, and
`resolveFontFile` = tokenising the clear-text header of an embedded Type 1 program into its `put` pairs).
-/
import PdfVerif.Model.Type1Header

namespace PdfVerif.SimpleFont.Spec
open PdfVerif PdfVerif.SimpleFont

/-! ### AGL section 2 -/

/-- `0`-`9`, `A`-`F` (by code point). -/
def upperHexVal (c : Char) : Option Nat :=
  let n := c.toNat
  if 48 ≤ n ∧ n ≤ 57 then some (n - 48)
  else if 65 ≤ n ∧ n ≤ 70 then some (n - 55)
  else none

def isUpperHex (c : Char) : Bool := (upperHexVal c).isSome

/-- Value of a string of uppercase hexadecimal digits, most significant first. -/
def upperHexNum (s : List Char) : Nat := s.foldl (fun acc c => acc * 16 + (upperHexVal c).getD 0) 0

/-- A Unicode scalar value: 0000-D7FF or E000-10FFFF. -/
def isScalar (v : Nat) : Bool := v ≤ 0xD7FF || (0xE000 ≤ v && v ≤ 0x10FFFF)

/-- Cut a string into groups of four (the caller checks that the length is a multiple of four). -/
def fours : List Char → List (List Char)
  | a :: b :: c :: d :: rest => [a, b, c, d] :: fours rest
  | _ => []

/-- "uni" followed by uppercase hex digits, length a multiple of four, each group 0000-D7FF or E000-FFFF. -/
def uniForm (c : Name) : Option Text :=
  if c.take 3 = ['u', 'n', 'i'] then
    let r := c.drop 3
    if r.all isUpperHex && r.length % 4 == 0 then
      let vs := (fours r).map upperHexNum
      if vs.all isScalar then some vs else none
    else none
  else none

/-- "u" followed by four to six uppercase hex digits denoting a scalar value. -/
def uForm (c : Name) : Option Text :=
  if c.take 1 = ['u'] then
    let r := c.drop 1
    if r.all isUpperHex && 4 ≤ r.length && r.length ≤ 6 && isScalar (upperHexNum r) then some [upperHexNum r]
    else none
  else none

/-- Step 3 for one component. -/
def aglComp (gl : GlyphList) (c : Name) : Text :=
  match glLookup gl c with
  | some t => t
  | none =>
    match uniForm c with
    | some t => t
    | none =>
      match uForm c with
      | some t => t
      | none => []

/-- Step 1: drop all characters from the first period on. -/
def dropSuffix : Name → Name
  | [] => []
  | c :: cs => if c == '.' then [] else c :: dropSuffix cs

/-- Step 2: split at underscores. -/
def components (n : Name) : List Name := splitOn '_' n

/-- AGL specification section 2: glyph name -> character string (possibly empty). -/
def aglSpec (gl : GlyphList) (n : Name) : Text :=
  ((components (dropSuffix n)).map (aglComp gl)).flatten

/-- The Unicode value of a glyph name, `none` when AGL gives the empty string (or the name is not text). -/
def aglText (gl : GlyphList) : Option Name → Option Text
  | none => none
  | some n => let t := aglSpec gl n; if t.isEmpty then none else some t

/-! ### pdfminer's glyph-name algorithm for EVERY name: AGL section 2 with its two deliberate deviations

(D1) the hexadecimal digits after `uni` / `u` may be of either case (pinned by pdfminer's unit tests; AGL:
upper case only); (D2) a component without a value makes the whole name undefined (AGL: it contributes the
empty string and the other components are kept). -/

/-- `0`-`9`, `A`-`F`, `a`-`f` (by code point). -/
def anyHexVal (c : Char) : Option Nat :=
  match upperHexVal c with
  | some v => some v
  | none => let n := c.toNat; if 97 ≤ n ∧ n ≤ 102 then some (n - 87) else none

def isAnyHex (c : Char) : Bool := (anyHexVal c).isSome

def anyHexNum (s : List Char) : Nat := s.foldl (fun acc c => acc * 16 + (anyHexVal c).getD 0) 0

/-- `uniForm` with digits of either case. -/
def uniFormL (c : Name) : Option Text :=
  if c.take 3 = ['u', 'n', 'i'] then
    let r := c.drop 3
    if r.all isAnyHex && r.length % 4 == 0 then
      let vs := (fours r).map anyHexNum
      if vs.all isScalar then some vs else none
    else none
  else none

/-- `uForm` with digits of either case. -/
def uFormL (c : Name) : Option Text :=
  if c.take 1 = ['u'] then
    let r := c.drop 1
    if r.all isAnyHex && 4 ≤ r.length && r.length ≤ 6 && isScalar (anyHexNum r) then some [anyHexNum r]
    else none
  else none

/-- Step 3 for one component, deviation (D1). -/
def aglCompL (gl : GlyphList) (c : Name) : Text :=
  match glLookup gl c with
  | some t => t
  | none =>
    match uniFormL c with
    | some t => t
    | none =>
      match uFormL c with
      | some t => t
      | none => []

/-- The exact algorithm: drop the suffix, split at underscores, map every component (D1); undefined when a
component has no value (D2), else the concatenation. -/
def pdfminerAgl (gl : GlyphList) : Option Name → Option Text
  | none => none
  | some n =>
    let vs := (components (dropSuffix n)).map (aglCompL gl)
    if vs.all (fun t => !t.isEmpty) then some vs.flatten else none

/-! ### The grammar of the property: well-formed glyph names -/

/-- A component of the grammar: a list name, `uni` + one or more groups of four uppercase hex digits
(no surrogate), or `u` + four to six uppercase hex digits denoting a scalar value. -/
def wellFormedComp (gl : GlyphList) (c : Name) : Bool :=
  (glLookup gl c).isSome ||
  (match uniForm c with
   | some t => !t.isEmpty
   | none => false) ||
  (uForm c).isSome

/-- A glyph name of the grammar: components of the grammar joined by underscores, optionally followed by
a suffix that starts with a period. -/
def wellFormedName (gl : GlyphList) (n : Name) : Bool :=
  (components (dropSuffix n)).all (wellFormedComp gl)

/-! ### Names outside the judged domain (see docs/C06.md) -/

def hasLowerHex (s : List Char) : Bool := s.any (fun c => 97 ≤ c.toNat && c.toNat ≤ 102)

/-- A component that pdfminer (pinned by its unit tests) accepts although AGL does not: `uni`/`u`
followed by hexadecimal digits of which at least one is lower case. -/
def lenientComp (gl : GlyphList) (c : Name) : Bool :=
  (glLookup gl c).isNone &&
  ((c.take 3 == ['u', 'n', 'i'] && allHex (c.drop 3) && hasLowerHex (c.drop 3)) ||
   (c.take 1 == ['u'] && allHex (c.drop 1) && hasLowerHex (c.drop 1)))

/-- The judged domain of glyph names: no lenient component, and not a multi-component name in which
some but not all components have a value. -/
def judgedName (gl : GlyphList) : Option Name → Bool
  | none => true
  | some n =>
    let cs := components (dropSuffix n)
    !(cs.any (lenientComp gl)) &&
    (cs.length ≤ 1 || cs.all (fun c => (aglComp gl c).isEmpty) || cs.all (fun c => !(aglComp gl c).isEmpty))

/-! ### Encoding: last Differences assignment, else the base table -/

/-- The (code, glyph name) assignments a Differences array makes, in order. `cur` is the running code. -/
def assignments : Int → List DiffTok → List (Int × Option Name)
  | _, [] => []
  | _, .num n :: rest => assignments n rest
  | cur, .other :: rest => assignments cur rest
  | cur, .name nm :: rest => (cur, nm) :: assignments (cur + 1) rest

/-- The last assignment to `code` in a list of assignments. -/
def lastAssigned (as : List (Int × Option Name)) (code : Int) : Option (Option Name) :=
  match as.reverse.find? (fun a => a.1 == code) with
  | some a => some a.2
  | none => none

/-- Glyph name of `code` in a base encoding: the last row of `ENCODING` that lists `code` in column `col`. -/
def baseName (rows : List EncRow) (col : Nat) (code : Int) : Option Name :=
  match rows.reverse.find? (fun r => match rowCode col r with
                                      | some c => c != 0 && Int.ofNat c == code
                                      | none => false) with
  | some r => some r.1
  | none => none

/-- Column of a base encoding name (unknown names: the default, StandardEncoding). -/
def encColumn (cols : List (String × Nat)) (dflt : Nat) (name : String) : Nat :=
  match cols.find? (fun e => e.1 == name) with
  | some e => e.2
  | none => dflt

/-! ### Differences arrays as runs (ISO 32000-1 9.6.6.1: "code1 name1,1 name1,2 … code2 name2,1 …") -/

/-- Consecutive numbering of the names of one run. -/
def numberFrom : Int → List (Option Name) → List (Int × Option Name)
  | _, [] => []
  | c, n :: ns => (c, n) :: numberFrom (c + 1) ns

/-- The Differences array of a list of runs `(first code, names)`. -/
def diffOfRuns (runs : List (Int × List (Option Name))) : List DiffTok :=
  runs.flatMap (fun r => DiffTok.num r.1 :: r.2.map DiffTok.name)

structure Tables where
  gl : GlyphList
  rows : List EncRow
  cols : List (String × Nat)
  dflt : Nat
  fm : Metrics

/-- Unicode value of `code` under base encoding `name` with Differences `diff`. -/
def encText (T : Tables) (name : String) (diff : List DiffTok) (code : Int) : Option Text :=
  match lastAssigned (assignments 0 diff) code with
  | some nm => aglText T.gl nm
  | none => aglText T.gl (baseName T.rows (encColumn T.cols T.dflt name) code)

/-! ### ToUnicode: the last definition of a code -/

def tuText (defs : List (Int × List UInt8)) (code : Int) : Option Text :=
  match defs.reverse.find? (fun d => d.1 == code) with
  | some d => some (utf16beIgnore d.2)
  | none => none

/-- pdfminer keeps a space when the same code is later defined as no-break space; such maps are not judged. -/
def nbspClash (defs : List (Int × List UInt8)) : Bool :=
  defs.any (fun d => utf16beIgnore d.2 == [0xA0] &&
    defs.any (fun e => e.1 == d.1 && utf16beIgnore e.2 == [0x20]))

/-! ### Fonts -/

/-- The built-in encoding of an embedded Type 1 program: the last `put` for the code. -/
def builtinName (ff : FontFile) (code : Int) : Option (Option Name) :=
  lastAssigned ff.puts code

def isStd14 (T : Tables) (fd : FontDict) : Bool :=
  !fd.isType3 && (getMetrics T.fm (fd.baseFont.getD "unknown")).isSome

/-- Does the built-in encoding of the font program apply?  (No Encoding entry, embedded Type 1 program,
not one of the standard 14 fonts, not Type3.) -/
def usesBuiltin (T : Tables) (fd : FontDict) : Option FontFile :=
  if fd.isType3 || isStd14 T fd then none else
  match fd.enc, fd.desc with
  | .absent, some d => d.fontFile
  | _, _ => none

/-- Unicode value that the font's encoding gives to `code`. -/
def encodingText (T : Tables) (fd : FontDict) (code : Int) : Option Text :=
  match usesBuiltin T fd with
  | some ff =>
    match builtinName ff code with
    | some nm => aglText T.gl nm
    | none => none
  | none =>
    match fd.enc with
    | .absent => encText T "StandardEncoding" [] code
    | .named n => encText T n [] code
    | .dict base diff => encText T (base.getD "StandardEncoding") diff code

/-- `some t`: the code has the Unicode value `t`; `none`: undefined. -/
def specUnicode (T : Tables) (fd : FontDict) (code : Int) : Option Text :=
  match fd.toUnicode with
  | some es =>
    match tuText (tuDefs es) code with
    | some t => some t
    | none => encodingText T fd code
  | none => encodingText T fd code

/-- The placeholder of the property: the characters `(cid:`, the code in decimal, `)`. -/
def specPlaceholder (code : Int) : Text :=
  [40, 99, 105, 100, 58] ++ (if code < 0 then [45] else []) ++ decDigits code.natAbs ++ [41]

/-- The text reported for a code. -/
def specText (T : Tables) (fd : FontDict) (code : Int) : Text :=
  match specUnicode T fd code with
  | some t => t
  | none => specPlaceholder code

/-- `Widths[code - FirstChar]` when that index exists. -/
def widthsEntry (fd : FontDict) (code : Int) : Option Rat :=
  match fd.widths with
  | some ws =>
    let i := code - fd.firstChar.getD 0
    if 0 ≤ i then ws[i.toNat]? else none
  | none => none

/-- The standard-14 metric of a character string `u` (fonts named like one of the standard 14 only). -/
def std14MetricOf (T : Tables) (fd : FontDict) (u : Option Text) : Option Rat :=
  if fd.isType3 then none else
  match getMetrics T.fm (fd.baseFont.getD "unknown"), u with
  | some m, some [c] =>
    match slookup m c with
    | some w => some (w : Rat)
    | none => none
  | _, _ => none

/-- The standard-14 metric of the character of `code` (fonts named like one of the standard 14 only). -/
def std14Metric (T : Tables) (fd : FontDict) (code : Int) : Option Rat :=
  std14MetricOf T fd (specUnicode T fd code)

def missingWidth (fd : FontDict) : Rat :=
  match fd.desc with
  | some d => d.missingWidth.getD 0
  | none => 0

/-- Glyph space -> text space: 1/1000, or the horizontal scale of the Type3 font matrix. -/
def widthScale (fd : FontDict) : Rat := if fd.isType3 then fd.fontMatrix.1 else (1 : Rat) / 1000

/-- The advance of a code whose Unicode value is `u`: Widths entry, else standard-14 metric of `u`, else
MissingWidth; times the scale. -/
def specWidthOf (T : Tables) (fd : FontDict) (code : Int) (u : Option Text) : Rat :=
  (match widthsEntry fd code with
   | some w => w
   | none =>
     match std14MetricOf T fd u with
     | some w => w
     | none => missingWidth fd) * widthScale fd

/-- The advance reported for a code (font size 1). -/
def specWidth (T : Tables) (fd : FontDict) (code : Int) : Rat :=
  specWidthOf T fd code (specUnicode T fd code)

/-- Is the glyph name that the font's encoding gives to `code` in the judged domain of names?
(Base-table names always are; only Differences / built-in names can fall outside.) -/
def judgedEncName (T : Tables) (fd : FontDict) (code : Int) : Bool :=
  match usesBuiltin T fd with
  | some ff =>
    match builtinName ff code with
    | some nm => judgedName T.gl nm
    | none => true
  | none =>
    match fd.enc with
    | .dict _ diff =>
      match lastAssigned (assignments 0 diff) code with
      | some nm => judgedName T.gl nm
      | none => true
    | _ => true

/-- Is the cell of `code` in the judged domain?  (Glyph name judged; ToUnicode map without the
space / no-break-space clash.) -/
def judgedCode (T : Tables) (fd : FontDict) (code : Int) : Bool :=
  match fd.toUnicode with
  | some es =>
    if nbspClash (tuDefs es) then false
    else match tuText (tuDefs es) code with
      | some _ => true
      | none => judgedEncName T fd code
  | none => judgedEncName T fd code

/-! ### ToUnicode, exactly: pdfminer's documented space / no-break-space rule

`FileUnicodeMap.add_cid2unichr`: "A0 = non-breaking space, some weird fonts can have a collision on a cid here":
a definition of a code as U+00A0 is ignored while the code's value is U+0020.  So "last definition wins"
(`tuText`) is exact only for maps without such a pair (`nbspClash`); the exact rule for EVERY map: -/

/-- The value in effect after the definitions of ONE code (most recent first): the most recent one, except
that a no-break space does not replace a space. -/
def effective : List Text → Option Text
  | [] => none
  | v :: older => if v == [0xA0] && effective older == some [0x20] then some [0x20] else some v

/-- The texts a ToUnicode map defines for `code`, most recent first. -/
def codeDefs (defs : List (Int × List UInt8)) (code : Int) : List Text :=
  ((defs.filter (fun d => d.1 == code)).map (fun d => utf16beIgnore d.2)).reverse

def tuTextExact (defs : List (Int × List UInt8)) (code : Int) : Option Text := effective (codeDefs defs code)

/-- `specUnicode` for every ToUnicode map (space / no-break-space rule included). -/
def specUnicodeX (T : Tables) (fd : FontDict) (code : Int) : Option Text :=
  match fd.toUnicode with
  | some es =>
    match tuTextExact (tuDefs es) code with
    | some t => some t
    | none => encodingText T fd code
  | none => encodingText T fd code

def specTextX (T : Tables) (fd : FontDict) (code : Int) : Text :=
  match specUnicodeX T fd code with
  | some t => t
  | none => specPlaceholder code

def specWidthX (T : Tables) (fd : FontDict) (code : Int) : Rat :=
  specWidthOf T fd code (specUnicodeX T fd code)

/-- The judged domain without the exclusion of space / no-break-space maps: only the glyph name matters. -/
def judgedCodeX (T : Tables) (fd : FontDict) (code : Int) : Bool :=
  match fd.toUnicode with
  | some es =>
    match tuTextExact (tuDefs es) code with
    | some _ => true
    | none => judgedEncName T fd code
  | none => judgedEncName T fd code

/-! ### The specification for EVERY font dictionary and EVERY code (no judged domain): glyph names valued by
`pdfminerAgl` (AGL + D1 + D2), ToUnicode by `tuTextExact` -/

def encTextP (T : Tables) (name : String) (diff : List DiffTok) (code : Int) : Option Text :=
  match lastAssigned (assignments 0 diff) code with
  | some nm => pdfminerAgl T.gl nm
  | none => pdfminerAgl T.gl (baseName T.rows (encColumn T.cols T.dflt name) code)

def encodingTextP (T : Tables) (fd : FontDict) (code : Int) : Option Text :=
  match usesBuiltin T fd with
  | some ff =>
    match builtinName ff code with
    | some nm => pdfminerAgl T.gl nm
    | none => none
  | none =>
    match fd.enc with
    | .absent => encTextP T "StandardEncoding" [] code
    | .named n => encTextP T n [] code
    | .dict base diff => encTextP T (base.getD "StandardEncoding") diff code

def specUnicodeP (T : Tables) (fd : FontDict) (code : Int) : Option Text :=
  match fd.toUnicode with
  | some es =>
    match tuTextExact (tuDefs es) code with
    | some t => some t
    | none => encodingTextP T fd code
  | none => encodingTextP T fd code

def specTextP (T : Tables) (fd : FontDict) (code : Int) : Text :=
  match specUnicodeP T fd code with
  | some t => t
  | none => specPlaceholder code

def specWidthP (T : Tables) (fd : FontDict) (code : Int) : Rat :=
  specWidthOf T fd code (specUnicodeP T fd code)

/-! ### Type3 FontMatrix -/

/-- A usable FontMatrix: an array of exactly six numbers (ISO 32000-1 Table 112). -/
def matUsable : MatSpec → Bool
  | .list xs => xs.length == 6 && xs.all Option.isSome
  | _ => false

/-! ### Font dictionaries with the raw FontFile stream -/

/-- The property on a font dictionary whose embedded Type 1 program is given as bytes: `none` when reading
the header fails (such programs are outside the property's domain). -/
def specRaw (T : Tables) (raw : RawFontDict) (code : Int) : Option (Text × Rat) :=
  match resolveFontFile T.fm raw with
  | .ok fd => some (specText T fd code, specWidth T fd code)
  | .error _ => none

def judgedRaw (T : Tables) (raw : RawFontDict) (code : Int) : Bool :=
  match resolveFontFile T.fm raw with
  | .ok fd => judgedCode T fd code
  | .error _ => false

end PdfVerif.SimpleFont.Spec
