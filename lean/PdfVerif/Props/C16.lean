/-
C16 - painted paths become shapes with the right points, class and graphics state.
Property theorems only (helper lemmas: PdfVerif/Lemmas/Paths.lean).

Model  = PdfVerif/Model/Paths.lean  (what pdfminer does: flat `curpath`, operator-letter string, regex split)
Spec   = PdfVerif/Spec/Paths.lean   (what the property demands: sub-path records, `shapeOf`)
-/
import PdfVerif.Lemmas.PathsProg
import PdfVerif.Lemmas.PathsRect

set_option linter.constructorNameAsVariable false

namespace PdfVerif.Props.C16
open PdfVerif PdfVerif.Paths PdfVerif.PathSpec PdfVerif.Gen.PathsGen PdfVerif.PathLemmas

/-! ## Shapes of a painted path -/

/-- FULL statement for one painting operator (proved since the fix of `LTRect.pts`): painting the
implementation's `curpath` of any well-formed list of sub-paths yields, after dropping the shapes of
zero-segment sub-paths, exactly the shapes the specification demands - one per sub-path with a segment,
in order, with points (rectangles included, in path order), class, bbox, transformed path, flags, width,
dash and colours. -/
theorem C16_paint_path (g : SGState) (st fi eo : Bool) (sps : List SubPath) (stp : Point)
    (hok : okFrom stp false sps) :
    (paintPath g.ctm (argsOf g st fi eo) (enc sps)).filter hasSeg = sps.filterMap (shapeOf g st fi eo) := by
  have h := paintPath_enc g st fi eo sps stp hok
  rwa [map_erase, map_erase] at h

/-- One sub-path with at least one segment gives exactly one shape: the specified one. -/
theorem C16_subpath_shape (g : SGState) (st fi eo : Bool) (sp : SubPath) (hne : sp.segs ≠ []) :
    ∃ sh, paintSingle g.ctm (argsOf g st fi eo) (flat1 sp) = [sh] ∧ shapeOf g st fi eo sp = some sh := by
  have h := paintSingle_flat1 g st fi eo sp hne
  rw [map_erase, map_erase, shapeOf_eq g st fi eo sp hne] at h
  rw [shapeOf_eq g st fi eo sp hne]
  exact ⟨_, h, rfl⟩

/-- The sub-path `0 0 m 0 1 l 2 1 l 2 0 l h` (first side vertical), identity CTM: the former
counter-example of the finding `ltrect-pts-canonical-order` (corpus/C16/fixed-ltrect-pts-order.json). -/
def cexRect : SubPath := { start := (0, 0), segs := [.l (0, 1), .l (2, 1), .l (2, 0)], closed := true }
def cexG : SGState :=
  { ctm := (1, 0, 0, 1, 0, 0), linewidth := 0, dash := none, scolor := none, ncolor := none,
    sspace := ⟨"DeviceGray", 1⟩, nspace := ⟨"DeviceGray", 1⟩ }

/-- Regression instance: the rectangle's points are now the corners in path order. -/
theorem C16_rect_pts_fixed :
    (paintPath cexG.ctm (argsOf cexG true false false) (enc [cexRect])).map (fun s => (s.kind, s.pts)) =
      [(.rect, [(0, 0), (0, 1), (2, 1), (2, 0)])] := by
  decide +kernel

/-! ## Whole programs -/

/-- FULL statement (DESIGN section 6, `C16_shapes`): for every page set-up and every well-formed program,
the interpreter model run on the program's content-stream tokens reports, after dropping the shapes of
zero-segment sub-paths, exactly the shapes the specification demands. -/
def C16_shapes_statement : Prop :=
  ∀ (rot : Int) (mb : Rect) (res : List (String × CsSpec)) (prog : List SOp),
    devOk (initSpaces res) → specWf rot mb res prog = true →
    ∃ shapes, runPage rot mb res (progTokens prog) = .ok shapes ∧
      shapes.filter hasSeg = specPage rot mb res prog

/-- Proved version, by induction over programs with the simulation invariant `Sim` (`curpath` = encoding
of the sub-paths since the last painting operator / `n`; graphics state, saved states and colour spaces
equal; operand stack arbitrary).  ALL attributes of all shapes are compared.  The only excluded region
(explicit decidable hypothesis `supported`): an `sc`-family operator while a Pattern colour space is
current (open finding `pattern-colour-not-recorded`).
Included: operators with the right NUMBER of operands of which some are not numbers (`SOp.bad`, and a
name given to `sc…` outside a Pattern space) - ignored by specification and model alike; colour spaces
with any number >= 1 of components. -/
theorem C16_shapes_partial (rot : Int) (mb : Rect) (res : List (String × CsSpec)) (prog : List SOp)
    (hdev : devOk (initSpaces res)) (hwf : specWf rot mb res prog = true)
    (hsup : supported (initSpaces res) prog (initS (pageCtm rot mb.1 mb.2.1 mb.2.2.1 mb.2.2.2)) = true) :
    ∃ shapes, runPage rot mb res (progTokens prog) = .ok shapes ∧
      shapes.filter hasSeg = specPage rot mb res prog := by
  obtain ⟨x0, y0, x1, y1⟩ := mb
  simp only [specWf] at hwf
  obtain ⟨st', he, hs'⟩ := sim_run (initSpaces res) hdev prog _ _
    (sim_init (pageCtm rot x0 y0 x1 y1) res hdev) hwf hsup
  refine ⟨st'.out, ?_, ?_⟩
  · simp only [runPage, he]
  · have := hs'.out
    rw [map_erase, map_erase] at this
    simpa [specPage] using this

/-- The hypotheses of `C16_shapes_partial` are satisfiable by a non-trivial program:
`2 0 0 2 10 20 cm q 0.5 w [3 2] 0 d 1 0 0 RG /DeviceCMYK cs 0 0 0 1 sc 1 2 m 3 4 l 5 6 7 8 9 10 c h
 1 1 5 5 re 7 7 l B* Q 0 0 m 1 1 l n 9 9 m 8 8 l s`. -/
def exampleProg : List SOp :=
  [.cm 2 0 0 2 10 20, .q, .w (1/2), .d [3, 2] 0, .rgb true 1 0 0, .cs false "DeviceCMYK",
   .sc .sc false [0, 0, 0, 1] none, .bad .rg [.num 0, .num 1, .name "X"], .sc .scn false [1, 1, 1] (some "Nm"),
   .bad .cm [.num 1, .arr [], .num 0, .num 1, .num 0, .num 0], .m (1, 2), .bad .l [.name "a", .num 2], .seg (.l (3, 4)), .seg (.c (5, 6) (7, 8) (9, 10)), .h,
   .re 1 1 5 5, .seg (.l (7, 7)), .paint .Bstar false true true true, .Q,
   .m (0, 0), .seg (.l (1, 1)), .n, .m (9, 9), .seg (.l (8, 8)), .paint .s true true false false]

example : devOk (initSpaces []) ∧ specWf 90 (0, 0, 612, 792) [] exampleProg = true ∧
    supported (initSpaces []) exampleProg (initS (pageCtm 90 0 0 612 792)) = true ∧ (specPage 90 (0, 0, 612, 792) [] exampleProg).length = 4 := by
  refine ⟨⟨by decide +kernel, by decide +kernel, by decide +kernel⟩, by decide +kernel, by decide +kernel,
    by decide +kernel⟩

/-- Counter-example to the full statement (pattern colour: the model keeps `None`, the initial colour of
the Pattern space). -/
def cexProg2 : List SOp :=
  [.gray false (1/2), .cs false "Pattern", .sc .scn false [] (some "P0"), .m (0, 0), .seg (.l (1, 1)),
   .paint .f false false true false]

theorem C16_shapes_statement_cex : ¬ C16_shapes_statement := by
  intro h
  obtain ⟨shapes, h1, h2⟩ := h 0 (0, 0, 612, 792) [] cexProg2
    ⟨by decide +kernel, by decide +kernel, by decide +kernel⟩ (by decide +kernel)
  have hr : (match runPage 0 (0, 0, 612, 792) [] (progTokens cexProg2) with | .ok s => s | .error _ => []) =
      shapes := by rw [h1]
  rw [← hr] at h2
  revert h2
  decide +kernel

/-- The pattern colour is lost: the model reports no colour, the specification the pattern. -/
theorem C16_pattern_cex :
    (match runPage 0 (0, 0, 612, 792) [] (progTokens cexProg2) with
      | .ok s => s.map (·.ncolor) | .error _ => []) = [none] ∧
    (specPage 0 (0, 0, 612, 792) [] cexProg2).map (·.ncolor) = [some (.pattern "P0" [])] ∧
    specWf 0 (0, 0, 612, 792) [] cexProg2 = true := by
  refine ⟨by decide +kernel, by decide +kernel, by decide +kernel⟩

/-- Regression instance of the fixed finding `colour-arity-unsupported`: `/D2 cs 0.25 0.75 sc` in a
2-component DeviceN space sets the colour `(0.25, 0.75)` (it was ignored, leaving the operands on the stack). -/
def cexProg3 : List SOp :=
  [.gray false (1/2), .cs false "D2", .sc .sc false [1/4, 3/4] none, .m (0, 0), .seg (.l (1, 1)),
   .paint .f false false true false]

theorem C16_arity_fixed :
    (match runPage 0 (0, 0, 612, 792) [("D2", .devn 2)] (progTokens cexProg3) with
      | .ok s => s.map (·.ncolor) | .error _ => []) = [some (.comps [1/4, 3/4])] ∧
    (specPage 0 (0, 0, 612, 792) [("D2", .devn 2)] cexProg3).map (·.ncolor) = [some (.comps [1/4, 3/4])] ∧
    specWf 0 (0, 0, 612, 792) [("D2", .devn 2)] cexProg3 = true := by
  refine ⟨by decide +kernel, by decide +kernel, by decide +kernel⟩

/-! ## Initial colour of a colour space -/

/-- `PDFPageInterpreter._initial_color` is ISO 32000-1 Table 74 for every colour space
(family name, number of components): 0 …, `0 0 0 1` for DeviceCMYK, 1 … for Separation/DeviceN,
no colour for Pattern. -/
theorem C16_initial_colour (sp : Space) : initialColour sp = isoInit sp := initialColour_eq_iso sp

/-- The bound of `_initial_color` (regenerated constant `initMaxComponents`): a "colour space" with more than
32 components (a damaged /N of an ICC profile) gets no initial colour - for every family; 32 components
(the ISO limit for DeviceN) still get theirs. -/
theorem C16_initial_colour_bound (sp : Space) (h : sp.n > 32) :
    initialColour sp = none ∧ initialColour ⟨"DeviceN", 32⟩ = some (.comps (List.replicate 32 1)) := by
  refine ⟨?_, by decide +kernel⟩
  rw [initialColour_eq_iso]
  unfold isoInit
  simp [h]

/-- `cs`/`CS` on a known colour space select the space and its ISO initial colour; nothing else changes. -/
theorem C16_cs_resets_colour (st : IState) (name : String) (sp : CSpace) (h : csLookup st.csmap name = some sp) :
    ∃ st', call .cs [.name name] st = .ok st' ∧ st'.gs.ncolor = isoInit sp ∧ st'.gs.ncs = sp.n ∧
      st'.gs.scolor = st.gs.scolor ∧ st'.gs.linewidth = st.gs.linewidth ∧ st'.gs.dash = st.gs.dash ∧
      st'.ctm = st.ctm ∧ st'.curpath = st.curpath ∧ st'.out = st.out := by
  refine ⟨doSelectSpace st false sp, by simp [call, h], ?_⟩
  simp [doSelectSpace, setColourOpt, setSpace, initialColour_eq_iso]

/-! ## Operands that are not numbers -/

/-- An operator that takes numbers and is given the right NUMBER of operands of which at least one is not
a number (any position; `m l c v y re w cm g G rg RG k K` and the `sc` family in a 1/3/4-component space)
is ignored: the model run on its tokens succeeds and stays in simulation with the UNCHANGED specification
state (colours, width, CTM, path, shapes all as before). -/
theorem C16_ill_typed_ignored (cs : SpaceMap) (st : IState) (ss : SState) (hs : Sim cs st ss) (k : OpK)
    (args : List Operand) (hok : opOk cs ss (.bad k args) = true) (hsup : supOk ss (.bad k args) = true) :
    ∃ st', execute (tokens (.bad k args)) st = .ok st' ∧ Sim cs st' ss :=
  sim_bad cs st ss hs k args hok hsup

/-! ## Tables regenerated from the Python source agree with ISO 32000-1 -/

/-- The painting-operator flags extracted from `do_S .. do_b_a` are those of ISO 32000-1 table 60
(`F` = `f`; `s b b*` close first).  An edit of a flag in pdfinterp.py breaks this proof. -/
theorem C16_paint_flags (k : OpK) (hk : k ∈ OpK.all) : paintOps.lookup k.name = paintFlags k := by
  simp only [OpK.all, List.mem_cons, List.mem_nil_iff, or_false] at hk
  rcases hk with rfl | rfl | rfl | rfl | rfl | rfl | rfl | rfl | rfl | rfl | rfl | rfl | rfl | rfl | rfl | rfl | rfl |
    rfl | rfl | rfl | rfl | rfl | rfl | rfl | rfl | rfl | rfl | rfl | rfl | rfl | rfl | rfl | rfl | rfl | rfl | rfl |
    rfl | rfl | rfl | rfl | rfl | rfl <;> decide

/-- `re` appends `m (x,y)  l (x+w,y)  l (x+w,y+h)  l (x,y+h)  h` (ISO 32000-1 table 59). -/
theorem C16_re_path (x y w h : Rat) :
    (rePath x y w h).filterMap segOfRaw =
      [PSeg.m (x, y), PSeg.l (x + w, y), PSeg.l (x + w, y + h), PSeg.l (x, y + h), PSeg.h] := by
  simp [rePath, segOfRaw]

/-- The initial CTM chosen by `process_page` maps one MediaBox corner to the origin for each /Rotate. -/
theorem C16_page_ctm (x0 y0 x1 y1 : Rat) :
    apply_matrix_pt (pageCtm 0 x0 y0 x1 y1) (x0, y0) = (0, 0) ∧
    apply_matrix_pt (pageCtm 90 x0 y0 x1 y1) (x1, y0) = (0, 0) ∧
    apply_matrix_pt (pageCtm 180 x0 y0 x1 y1) (x1, y1) = (0, 0) ∧
    apply_matrix_pt (pageCtm 270 x0 y0 x1 y1) (x0, y1) = (0, 0) := by
  refine ⟨?_, ?_, ?_, ?_⟩ <;> simp [pageCtm, apply_matrix_pt] <;> grind

/-! ## Round 6: the straight-line tests of `paint_path` (regenerated from converter.py on every run) -/

/-- The shape-string tests and point indices of `PDFLayoutAnalyzer.paint_path`, extracted from the Python
source, are the ones the property demands: a line is `ml`/`mlh` with end points `pts[0], pts[1]`; a rectangle
candidate is `mlllh`/`mllll` with `pts[0] == pts[4]`, corners `pts[0], pts[2]`, points `pts[:4]`; the redundant
closing `l` is dropped when `len(shape) > 3`, the string ends in `lh` and `pts[-2] == pts[0]`.  The model's
`classifyShape` / `redundantL` / `paintSingle` are built from these definitions, so an edit of any of these
lines of converter.py breaks this proof (and `C16_paint_path`). -/
theorem C16_shape_tests :
    lineShapes = [['m', 'l', 'h'], ['m', 'l']] ∧ linePts = (0, 1) ∧
    rectShapes = [['m', 'l', 'l', 'l', 'h'], ['m', 'l', 'l', 'l', 'l']] ∧ closedLoopPts = (0, 4) ∧
    rectCorners = (0, 2) ∧ rectPtsTake = 4 ∧
    redundantMinLen = 3 ∧ redundantSuffix = ['l', 'h'] ∧ redundantPts = (2, 0) ∧ redundantCut = 2 ∧
    redundantTail = ['h'] := by
  decide

/-- The regenerated `has_square_coordinates` holds exactly for axis-aligned quadrilaterals (first side
vertical, or first side horizontal). -/
theorem C16_square_coordinates (p0 p1 p2 p3 : Point) :
    squareCoords p0 p1 p2 p3 = true ↔
      (p0.1 = p1.1 ∧ p1.2 = p2.2 ∧ p2.1 = p3.1 ∧ p3.2 = p0.2) ∨
      (p0.2 = p1.2 ∧ p1.1 = p2.1 ∧ p2.2 = p3.2 ∧ p3.1 = p0.1) := by
  rw [squareCoords_eq]
  unfold axisAligned
  rw [decide_eq_true_eq]

/-- When is a transformed rectangle still an `LTRect`?  For EVERY matrix `(a b c d e f)` (rotation, shear,
mirror, singular) and every `x y w h re` with `w ≠ 0`, `h ≠ 0` (negative extents included) painted by any
operator: exactly one shape; it is an `LTRect` iff the matrix maps the y direction onto one axis without
collapsing it and the x direction into the other axis (`a = d = 0, c ≠ 0` or `b = c = 0, d ≠ 0`: multiples of
quarter turns and mirrors with any scales, the x scale may be 0); otherwise an `LTCurve`.  Points = the
transformed corners in path order (+ the closing point for a curve, unless the matrix collapses the y
direction: then the 4th side is the closing segment); `original_path` = the transformed `m l l l h`;
flags, width, dash and colours are those of the paint call. -/
theorem C16_rect_under_ctm (a b c d e f : Rat) (args : PaintArgs) (x y w h : Rat) (hw : w ≠ 0) (hh : h ≠ 0) :
    ∃ sh, paintPath (a, b, c, d, e, f) args ((rePath x y w h).filterMap segOfRaw) = [sh] ∧
      (sh.kind = .rect ↔ (a = 0 ∧ d = 0 ∧ c ≠ 0) ∨ (b = 0 ∧ c = 0 ∧ d ≠ 0)) ∧
      (sh.kind ≠ .rect → sh.kind = .curve) ∧
      sh.pts = (let T := apply_matrix_pt (a, b, c, d, e, f)
                if sh.kind = .rect ∨ (c = 0 ∧ d = 0) then [T (x, y), T (x + w, y), T (x + w, y + h), T (x, y + h)]
                else [T (x, y), T (x + w, y), T (x + w, y + h), T (x, y + h), T (x, y)]) ∧
      sh.path = (let T := apply_matrix_pt (a, b, c, d, e, f)
                 [.m (T (x, y)), .l (T (x + w, y)), .l (T (x + w, y + h)), .l (T (x, y + h)), .h]) ∧
      sh.stroke = args.stroke ∧ sh.fill = args.fill ∧ sh.evenodd = args.evenodd ∧
      sh.linewidth = args.gs.linewidth ∧ sh.dash = args.gs.dash ∧ sh.scolor = args.gs.scolor ∧
      sh.ncolor = args.gs.ncolor := by
  have hcol := re_corner_collapses a b c d e f x y h hh
  have hsq := re_square_under_ctm a b c d e f x y w h hw hh
  rw [paintPath_re]
  simp only []
  by_cases h1 : c = 0 ∧ d = 0
  · rw [if_pos (hcol.2 h1)]
    refine ⟨_, rfl, ?_, fun _ => rfl, ?_, rfl, rfl, rfl, rfl, rfl, rfl, rfl, rfl⟩
    · simp only [mkCurve, mkShape]
      constructor
      · intro hk; cases hk
      · rintro (⟨_, _, hc⟩ | ⟨_, _, hd⟩)
        · exact absurd h1.1 hc
        · exact absurd h1.2 hd
    · simp [mkCurve, mkShape, h1]
  · rw [if_neg (fun hp => h1 (hcol.1 hp))]
    by_cases h2 : (a = 0 ∧ d = 0) ∨ (b = 0 ∧ c = 0)
    · rw [if_pos (hsq.2 h2)]
      refine ⟨_, rfl, ?_, fun hk => absurd rfl hk, ?_, rfl, rfl, rfl, rfl, rfl, rfl, rfl, rfl⟩
      · simp only [mkRect, mkShape, true_iff]
        rcases h2 with ⟨ha, hd⟩ | ⟨hb, hc⟩
        · exact Or.inl ⟨ha, hd, fun hc => h1 ⟨hc, hd⟩⟩
        · exact Or.inr ⟨hb, hc, fun hd => h1 ⟨hc, hd⟩⟩
      · simp [mkRect, mkShape]
    · rw [if_neg (fun hp => h2 (hsq.1 hp))]
      refine ⟨_, rfl, ?_, fun _ => rfl, ?_, rfl, rfl, rfl, rfl, rfl, rfl, rfl, rfl⟩
      · simp only [mkCurve, mkShape]
        constructor
        · intro hk; cases hk
        · rintro (⟨ha, hd, _⟩ | ⟨hb, hc, _⟩)
          · exact absurd (Or.inl ⟨ha, hd⟩) h2
          · exact absurd (Or.inr ⟨hb, hc⟩) h2
      · simp [mkCurve, mkShape, h1]

/-- Non-vacuity / instances: a quarter turn with scale 2 and a negative height keeps the `LTRect` (corners in
path order); a shear makes it a 5-point `LTCurve`; a matrix collapsing the y direction gives a 4-point curve. -/
example :
    (paintPath (0, 2, -2, 0, 5, 7) (argsOf cexG true true false) ((rePath 1 2 3 (-4)).filterMap segOfRaw)).map
        (fun s => (s.kind, s.pts)) = [(.rect, [(1, 9), (1, 15), (9, 15), (9, 9)])] ∧
    (paintPath (1, 0, 1, 1, 0, 0) (argsOf cexG true false false) ((rePath 0 0 2 1).filterMap segOfRaw)).map
        (fun s => (s.kind, s.pts)) = [(.curve, [(0, 0), (2, 0), (3, 1), (1, 1), (0, 0)])] ∧
    (paintPath (1, 1, 0, 0, 0, 0) (argsOf cexG true false false) ((rePath 0 0 2 1).filterMap segOfRaw)).map
        (fun s => (s.kind, s.pts)) = [(.curve, [(0, 0), (2, 2), (2, 2), (0, 0)])] := by
  refine ⟨by decide +kernel, by decide +kernel, by decide +kernel⟩

/-! ## Round 6: path construction operators regenerated from pdfinterp.py -/

/-- `do_m do_l do_c do_v do_y` (operand order extracted from the Python source, every operand guarded by
`safe_float`): with numeric operands each appends exactly the segment of ISO 32000-1 table 59 with the
operands in the order given - `x1 y1 x2 y2 x3 y3 c`, `x2 y2 x3 y3 v`, `x1 y1 x3 y3 y`.  Swapping two
coordinates in pdfinterp.py breaks this proof. -/
theorem C16_segment_operands (st : IState) (x1 y1 x2 y2 x3 y3 : Rat) :
    call .m [.num x1, .num y1] st = .ok (pushSeg st (.m (x1, y1))) ∧
    call .l [.num x1, .num y1] st = .ok (pushSeg st (.l (x1, y1))) ∧
    call .c [.num x1, .num y1, .num x2, .num y2, .num x3, .num y3] st = .ok (pushSeg st (.c (x1, y1) (x2, y2) (x3, y3))) ∧
    call .v [.num x2, .num y2, .num x3, .num y3] st = .ok (pushSeg st (.v (x2, y2) (x3, y3))) ∧
    call .y [.num x1, .num y1, .num x3, .num y3] st = .ok (pushSeg st (.y (x1, y1) (x3, y3))) :=
  ⟨rfl, rfl, rfl, rfl, rfl⟩

/-- `cm` PRE-multiplies (`self.ctm = mult_matrix(matrix, self.ctm)`, ISO 32000-1 8.3.4: CTM' = M x CTM): a
point is first mapped by the new matrix, then by the old CTM.  For every pair of matrices and every point. -/
theorem C16_cm_composes (st : IState) (a b c d e f : Rat) (p : Point) :
    ∃ st', call .cm [.num a, .num b, .num c, .num d, .num e, .num f] st = .ok st' ∧
      apply_matrix_pt st'.ctm p = apply_matrix_pt st.ctm (apply_matrix_pt (a, b, c, d, e, f) p) ∧
      st'.gs = st.gs ∧ st'.curpath = st.curpath ∧ st'.gstack = st.gstack ∧ st'.out = st.out := by
  refine ⟨_, rfl, ?_, rfl, rfl, rfl, rfl⟩
  obtain ⟨a0, b0, c0, d0, e0, f0⟩ := st.ctm
  obtain ⟨x, y⟩ := p
  simp only [cmPremultiplies, if_true, mult_matrix, apply_matrix_pt, Prod.mk.injEq]
  constructor <;> grind

/-! ## Round 6: one shape per sub-path; attributes and the no-`m` rule for ANY path -/

/-- Exactly one shape per painted sub-path with at least one segment (any number of sub-paths, closed or not,
`re` or `m …`, any painting operator): the number of shapes with a segment equals the number of such
sub-paths. -/
theorem C16_one_shape_per_subpath (g : SGState) (st fi eo : Bool) (sps : List SubPath) (stp : Point)
    (hok : okFrom stp false sps) :
    ((paintPath g.ctm (argsOf g st fi eo) (enc sps)).filter hasSeg).length =
      (sps.filter (fun sp => !sp.segs.isEmpty)).length := by
  rw [C16_paint_path g st fi eo sps stp hok, shapeOf_count]

/-- For EVERY `curpath` whatsoever (ill-formed included: segments before any `m`, `h` first, several `m`)
and every matrix: each shape `paint_path` creates carries the stroke / fill / even-odd flags of the call and
the line width, dash pattern, stroking and non-stroking colour of the graphics state passed to it. -/
theorem C16_paint_attributes (ctm : Matrix) (a : PaintArgs) (path : List PSeg) :
    ∀ s ∈ paintPath ctm a path,
      s.stroke = a.stroke ∧ s.fill = a.fill ∧ s.evenodd = a.evenodd ∧ s.linewidth = a.gs.linewidth ∧
      s.dash = a.gs.dash ∧ s.scolor = a.gs.scolor ∧ s.ncolor = a.gs.ncolor :=
  paintPath_attrs ctm a path

/-- The same through the interpreter's dispatch: whatever a painting operator adds to the page carries the
graphics state in force at that moment and the operator's flags from the regenerated table `paintOps`
(= ISO table 60 by `C16_paint_flags`) - on ANY interpreter state (any path, any operand stack). -/
theorem C16_painted_with_state_in_force (k : OpK) (hk' : k ∈ [OpK.S, .s, .f, .F, .fstar, .B, .Bstar, .b, .bstar])
    (cl x y z : Bool) (hk : paintOps.lookup k.name = some (cl, x, y, z)) (st : IState) :
    ∃ st' new, doOp k st = .ok st' ∧ st'.out = st.out ++ new ∧
      ∀ s ∈ new, s.linewidth = st.gs.linewidth ∧ s.dash = st.gs.dash ∧ s.scolor = st.gs.scolor ∧
        s.ncolor = st.gs.ncolor ∧ s.stroke = x ∧ s.fill = y ∧ s.evenodd = z := by
  have hH : ∀ s : IState, (doH s).gs = s.gs ∧ (doH s).out = s.out := by
    intro s; unfold doH; split <;> exact ⟨rfl, rfl⟩
  have key : ∀ (s0 : IState), ∀ s ∈ paintPath s0.ctm ⟨s0.gs, x, y, z⟩ s0.curpath,
      s.linewidth = s0.gs.linewidth ∧ s.dash = s0.gs.dash ∧ s.scolor = s0.gs.scolor ∧ s.ncolor = s0.gs.ncolor ∧
      s.stroke = x ∧ s.fill = y ∧ s.evenodd = z := by
    intro s0 s hs
    obtain ⟨h1, h2, h3, h4, h5, h6, h7⟩ := paintPath_attrs _ _ _ s hs
    exact ⟨h4, h5, h6, h7, h1, h2, h3⟩
  have hcall : doOp k st = .ok (doPaint (if cl = true then doH st else st) x y z) := by
    simp only [List.mem_cons, List.mem_nil_iff, or_false] at hk'
    rcases hk' with rfl | rfl | rfl | rfl | rfl | rfl | rfl | rfl | rfl <;>
      (rw [doOp_call0 _ (by decide)]; simp only [call, hk])
  refine ⟨_, paintPath (if cl = true then doH st else st).ctm ⟨(if cl = true then doH st else st).gs, x, y, z⟩
    (if cl = true then doH st else st).curpath, hcall, ?_, ?_⟩
  · cases cl
    · rfl
    · show (doH st).out ++ _ = st.out ++ _
      rw [(hH st).2]
  · intro s hs
    have := key _ s hs
    cases cl
    · exact this
    · simp only [if_true] at this
      rw [(hH st).1] at this
      exact this

/-- Segments that do not belong to a sub-path begun by `m` / `re` (the path does not start with `m`) are
never painted - and the painting operator still clears them (`C16_paint_frame`). -/
theorem C16_no_start_no_shape (ctm : Matrix) (a : PaintArgs) (path : List PSeg)
    (h : ∀ p rest, path ≠ PSeg.m p :: rest) : paintPath ctm a path = [] :=
  paintPath_no_m ctm a path h

example : paintPath (1, 0, 0, 1, 0, 0) (argsOf cexG true true false) [.l (1, 1), .l (2, 2), .h] = [] ∧
    (paintPath (2, 0, 0, 2, 0, 0) (argsOf cexG true true false)
      (enc [cexRect, { start := (5, 5), segs := [], closed := true }, { start := (1, 1), segs := [.l (1, 1)], closed := false }])).map
        (fun s => (s.kind, s.pts, s.stroke, s.fill)) =
      [(.rect, [(0, 0), (0, 2), (4, 2), (4, 0)], true, true), (.curve, [(10, 10), (10, 10)], true, true),
       (.line, [(2, 2), (2, 2)], true, true)] := by
  refine ⟨by decide +kernel, by decide +kernel⟩

/-! ## Round 6: pages are isolated (one interpreter, many pages) -/

/-- "Paths ended without painting yield nothing and leave no residue" across pages: when several pages are
run through ONE interpreter (as `extract_pages` does), whatever state the earlier pages leave behind - a
path under construction that was never painted (`re W` without `n`, `m l` at the end of the content),
unmatched `q`, colours, line width, dash, CTM, colour spaces, operands on the stack - the shapes of page k
are a function of page k's set-up and content ONLY.  `init_state`'s list of overwritten attributes is
regenerated from pdfinterp.py: dropping one of them breaks this proof. -/
theorem C16_page_isolation (prev : IState) (pages : List PageIn) :
    runPagesFrom prev pages = pages.map (fun p => runPage p.rotate p.mb p.res p.toks) :=
  runPagesFrom_eq prev pages

/-- Every page starts from the initial graphics state and an empty path, whatever came before. -/
theorem C16_page_starts_fresh (prev : IState) (ctm : Matrix) (res : List (String × CsSpec)) :
    (initStateOn prev ctm res).curpath = [] ∧ (initStateOn prev ctm res).gstack = [] ∧
    (initStateOn prev ctm res).argstack = [] ∧ (initStateOn prev ctm res).ctm = ctm ∧
    (initStateOn prev ctm res).gs.linewidth = 0 ∧ (initStateOn prev ctm res).gs.dash = none ∧
    (initStateOn prev ctm res).gs.scolor = none ∧ (initStateOn prev ctm res).gs.ncolor = none ∧
    (initStateOn prev ctm res).out = [] := by
  rw [initStateOn_eq]
  exact ⟨rfl, rfl, rfl, rfl, rfl, rfl, rfl, rfl, rfl⟩

/-- Non-vacuity: page 1 ends with `1 0 0 RG 3 w q 100 100 50 60 re W` (dangling clip path, unmatched `q`),
page 2 strokes one line: page 2 has exactly its own line, with the default width and no colour. -/
example :
    (runPagesFrom (initState (1, 0, 0, 1, 0, 0) [])
      [⟨0, (0, 0, 400, 400), [],
         [.operand (.num 1), .operand (.num 0), .operand (.num 0), .op .RG, .operand (.num 3), .op .w, .op .q,
          .operand (.num 100), .operand (.num 100), .operand (.num 50), .operand (.num 60), .op .re, .op .W]⟩,
       ⟨0, (0, 0, 400, 400), [],
         [.operand (.num 30), .operand (.num 30), .op .m, .operand (.num 60), .operand (.num 30), .op .l, .op .S]⟩]).map
      (fun r => match r with
        | .ok shapes => some shapes
        | .error _ => none) =
    [some [], some [{ kind := .line, pts := [(30, 30), (60, 30)], path := [.m (30, 30), .l (60, 30)],
                      bbox := some (30, 30, 60, 30), linewidth := 0, stroke := true, fill := false,
                      evenodd := false, scolor := none, ncolor := none, dash := none }]] := by
  decide +kernel

/-! ## Frame rules: clipping does not paint; painting touches nothing but the path and the output -/

/-- `W` / `W*` (empty bodies in pdfinterp.py, checked by the translator) are no-ops of the interpreter:
nothing is painted, the current path stays for the painting operator that follows, nothing else changes -
for every state and operand stack. -/
theorem C16_clip_does_not_paint (k : OpK) (hk : k ∈ [OpK.W, .Wstar]) (st : IState) : doOp k st = .ok st := by
  simp only [List.mem_cons, List.mem_nil_iff, or_false] at hk
  rcases hk with rfl | rfl <;> rfl

/-- Every painting operator and `n`, run through `execute`'s dispatch on ANY state: the path is cleared, and
CTM, graphics state (width, dash, colours, colour spaces), saved states, operand stack and colour-space map
are untouched; `n` leaves the output untouched too. -/
theorem C16_paint_frame (k : OpK) (hk : k ∈ [OpK.S, .s, .f, .F, .fstar, .B, .Bstar, .b, .bstar, .n]) (st : IState) :
    ∃ st', doOp k st = .ok st' ∧ st'.curpath = [] ∧ st'.ctm = st.ctm ∧ st'.gs = st.gs ∧
      st'.gstack = st.gstack ∧ st'.argstack = st.argstack ∧ st'.csmap = st.csmap ∧
      (k = .n → st'.out = st.out) := by
  have hH : ∀ s : IState, (doH s).ctm = s.ctm ∧ (doH s).gs = s.gs ∧ (doH s).gstack = s.gstack ∧
      (doH s).argstack = s.argstack ∧ (doH s).csmap = s.csmap := by
    intro s; unfold doH; split <;> exact ⟨rfl, rfl, rfl, rfl, rfl⟩
  simp only [List.mem_cons, List.mem_nil_iff, or_false] at hk
  rcases hk with rfl | rfl | rfl | rfl | rfl | rfl | rfl | rfl | rfl | rfl
  case inr.inr.inr.inr.inr.inr.inr.inr.inr => exact ⟨_, rfl, rfl, rfl, rfl, rfl, rfl, rfl, fun _ => rfl⟩
  all_goals first
    | exact ⟨_, rfl, rfl, rfl, rfl, rfl, rfl, rfl, fun hn => by cases hn⟩
    | exact ⟨_, rfl, rfl, (hH st).1, (hH st).2.1, (hH st).2.2.1, (hH st).2.2.2.1, (hH st).2.2.2.2,
        fun hn => by cases hn⟩

/-- A clipping operator between path construction and painting changes nothing: `… W n`, `… W* f` etc. -/
theorem C16_clip_then_paint (c k : OpK) (hc : c ∈ [OpK.W, .Wstar]) (rest : List Tok) (st : IState) :
    execute (.op c :: .op k :: rest) st = execute (.op k :: rest) st := by
  simp only [execute, step, C16_clip_does_not_paint c hc st]

/-! ## Totality -/

/-- On EVERY token stream over the modelled operators (any operands, any counts, any order) the
interpreter model finishes without an exception: in particular `sc scn SC SCN` with too few operands
(which raised TypeError/IndexError in the pinned code) only leave the colour unchanged. -/
theorem C16_never_raises (rot : Int) (mb : Rect) (res : List (String × CsSpec)) (toks : List Tok) :
    ∃ shapes, runPage rot mb res toks = .ok shapes := by
  obtain ⟨x0, y0, x1, y1⟩ := mb
  obtain ⟨st', h⟩ := execute_ok toks (initState (pageCtm rot x0 y0 x1 y1) res)
  exact ⟨st'.out, by simp only [runPage, h]⟩

/-! ## No residue -/

/-- Every painting operator and `n` leaves an empty current path (nothing leaks into the next path). -/
theorem C16_no_residue (k : OpK) (hk : k ∈ [OpK.S, .s, .f, .F, .fstar, .B, .Bstar, .b, .bstar, .n]) (st : IState) :
    ∃ st', call k [] st = .ok st' ∧ st'.curpath = [] := by
  simp only [List.mem_cons, List.mem_nil_iff, or_false] at hk
  rcases hk with rfl | rfl | rfl | rfl | rfl | rfl | rfl | rfl | rfl | rfl <;> exact ⟨_, rfl, rfl⟩

/-- `n` yields no shape at all. -/
theorem C16_n_paints_nothing (st : IState) :
    ∃ st', call .n [] st = .ok st' ∧ st'.out = st.out ∧ st'.curpath = [] := ⟨_, rfl, rfl, rfl⟩

/-! ## q / Q -/

/-- Only `q` and `Q` touch the graphics-state stack. -/
theorem C16_gstack_untouched (k : OpK) (hq : k ≠ .q) (hQ : k ≠ .Q) (st st' : IState)
    (h : doOp k st = .ok st') : st'.gstack = st.gstack := by
  unfold doOp at h
  split at h
  · cases h; rfl
  · rename_i nargs _
    have hpop : ∀ n, (pop n st).2.gstack = st.gstack := by
      intro n; unfold pop; split <;> rfl
    have hcall : ∀ args (s s' : IState), call k args s = .ok s' → s'.gstack = s.gstack := by
      intro args s s' hc
      have e1 : ∀ (s : IState) x, (pushSeg s x).gstack = s.gstack := fun _ _ => rfl
      have e2 : ∀ (s : IState), (doH s).gstack = s.gstack := by
        intro s; unfold doH; split <;> rfl
      have e3 : ∀ (s : IState) a b c, (doPaint s a b c).gstack = s.gstack := fun _ _ _ _ => rfl
      have e4 : ∀ (s : IState) b xs, (setColour s b xs).gstack = s.gstack := by
        intro s b xs; unfold setColour; split <;> rfl
      have e5 : ∀ (s : IState) b n, (setSpace s b n).gstack = s.gstack := by
        intro s b n; unfold setSpace; split <;> rfl
      have e6 : ∀ (s : IState) b sp args, (doDeviceColour s b sp args).gstack = s.gstack := by
        intro s b sp args; unfold doDeviceColour; split
        · rw [e5, e4]
        · rfl
      have e7 : ∀ (s s' : IState) b, doSetColourN s b = .ok s' → s'.gstack = s.gstack := by
        intro s s' b h
        unfold doSetColourN at h
        have hpop : ∀ n, (pop n s).2.gstack = s.gstack := by
          intro n; unfold pop; split <;> rfl
        simp only at h
        repeat' split at h
        all_goals (cases h <;> first | (rw [e4]; exact hpop _) | exact hpop _ | rfl)
      have e8 : ∀ (k : OpK) (args : List Operand) (s : IState), (doSeg k args s).gstack = s.gstack := by
        intro k args s; unfold doSeg; repeat' split
        all_goals rfl
      cases k <;> first | exact absurd rfl hq | exact absurd rfl hQ | skip
      all_goals simp only [call] at hc
      all_goals repeat' split at hc
      all_goals first
        | exact e7 _ _ _ hc
        | (cases hc <;> first
             | rfl | exact e1 _ _ | exact e2 _ | exact e6 _ _ _ _ | exact e5 _ _ _ | exact e8 _ _ _
             | (rw [e3]; split <;> first | rfl | exact e2 _))
    by_cases hn : nargs = 0
    · simp only [hn, if_true] at h
      exact hcall _ _ _ h
    · simp only [hn, if_false] at h
      split at h
      · rw [hcall _ _ _ h, hpop]
      · injection h with h; subst h; exact hpop _

/-- `Q` after `q` restores the CTM and the whole graphics state (line width, dash, colours AND colour
spaces), whatever happened in between, as long as the saved entry is on top of the stack again
(`C16_gstack_untouched`: only q/Q change the stack). -/
theorem C16_qQ_restores (st st1 : IState) (h : st1.gstack = (st.ctm, st.gs) :: st.gstack) :
    ∃ st2, call .Q [] st1 = .ok st2 ∧ st2.ctm = st.ctm ∧ st2.gs = st.gs ∧ st2.gstack = st.gstack ∧
      st2.curpath = st1.curpath ∧ st2.out = st1.out := by
  refine ⟨{ st1 with ctm := st.ctm, gs := st.gs, gstack := st.gstack }, ?_, rfl, rfl, rfl, rfl, rfl⟩
  simp [call, h]

/-- `q` pushes exactly the current CTM and graphics state. -/
theorem C16_q_saves (st : IState) :
    ∃ st1, call .q [] st = .ok st1 ∧ st1.gstack = (st.ctm, st.gs) :: st.gstack ∧ st1.ctm = st.ctm ∧ st1.gs = st.gs :=
  ⟨_, rfl, rfl, rfl, rfl⟩

end PdfVerif.Props.C16
