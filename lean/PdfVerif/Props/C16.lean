/-
C16 - painted paths become shapes with the right points, class and graphics state.
Property theorems only (helper lemmas: PdfVerif/Lemmas/Paths.lean).
-/
import PdfVerif.Spec.Paths

namespace PdfVerif.Props.C16
open PdfVerif PdfVerif.Paths PdfVerif.PathSpec PdfVerif.Gen.PathsGen

/-- `n` ends the path without painting: no shape, and nothing of the path is left for the next one. -/
theorem C16_n_no_residue (st : IState) :
    ∃ st', call .n [] st = .ok st' ∧ st'.curpath = [] ∧ st'.out = st.out := by
  exact ⟨_, rfl, rfl, rfl⟩

end PdfVerif.Props.C16
