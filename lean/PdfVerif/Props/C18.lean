/-
C18 — Images: exported files and inline image data reproduce the samples exactly.

Property theorems only.  Model: Model/Image.lean (image.py), Model/ImageName.lean
(_create_unique_image_name), Model/Inline.lean (PDFContentParser.get_inline_data);
specification: Spec/Bmp.lean (standard BMP reader, meaning of PDF samples).
-/
import PdfVerif.Lemmas.Bmp
import PdfVerif.Lemmas.ImageName
import PdfVerif.Lemmas.Inline

namespace PdfVerif.Props.C18
open PdfVerif PdfVerif.Image PdfVerif.Bmp PdfVerif.ImageName PdfVerif.Inline
open PdfVerif.BmpLemmas PdfVerif.ImageNameLemmas PdfVerif.InlineLemmas PdfVerif.Gen.ImageGen

/-! ## Exported bitmaps decode to the stored samples -/

/-- Colour space and bits per component of the three sample kinds; `inl` = written with the
    inline-image abbreviations `/G`, `/RGB`. -/
def csOfKind (k : Kind) (inl : Bool) : CS :=
  match k, inl with
  | .gray8, false => .gray | .gray8, true => .inlGray
  | .rgb8, false => .rgb | .rgb8, true => .inlRgb
  | .bit1, false => .gray | .bit1, true => .inlGray

def bpcOfKind : Kind → Nat
  | .gray8 => 8 | .rgb8 => 8 | .bit1 => 1

/-- The BMP format stores sizes in 32-bit fields: the theorem covers every image whose file fits. -/
def FitsBmp (k : Kind) (w h : Nat) : Prop :=
  w < 2147483648 ∧ h < 2147483648 ∧ 54 + ncolsOfKind k * 4 + lineSize (bitsOfKind k) w * h < 4294967296

/-- **bmp_rt.** For every gray-8, RGB-8 or 1-bit image of any width and height ≥ 1 (that fits the
    BMP format), stored unfiltered or through any lossless filter chain, as XObject or inline image,
    whatever files exist already: `export_image` writes a new `*.bmp` file, and a standard BMP
    reader decodes that file to exactly the stored samples. -/
theorem C18_bmp_rt (k : Kind) (inl : Bool) (w h : Nat) (data name : Bytes) (existing : List Bytes)
    (filters : List Flt) (hl : ∀ f ∈ filters, Lossless f)
    (hw1 : 1 ≤ w) (hh1 : 1 ≤ h) (hfit : FitsBmp k w h) (hlen : data.length = h * rowBytes k w) :
    ∃ nm file, exportImage ⟨filters, csOfKind k inl, bpcOfKind k, w, h, name, data⟩ existing = .ok (nm, file) ∧
      nm ∉ existing ∧ (∃ stem, nm = stem ++ extBmp) ∧
      readBMP file = some (w, h, samplesRGB k w h data) := by
  obtain ⟨hdct, hjpx, hjb⟩ := lossless_getLast filters hl
  obtain ⟨file, hsave, hread⟩ := saveBmp_read k w h data hw1 hh1 hfit.1 hfit.2.1 hfit.2.2 hlen
  have hsome := uniqueName_isSome existing name extBmp
  obtain ⟨nm, hnm⟩ := Option.isSome_iff_exists.mp hsome
  obtain ⟨hfresh, j, _, hj⟩ := uniqueName_fresh existing name extBmp nm hnm
  refine ⟨nm, file, ?_, hfresh, ?_, hread⟩
  · unfold exportImage
    simp only [hdct, hjpx, hjb, if_false]
    have h3 : w * 3 = 3 * w := Nat.mul_comm w 3
    cases k <;> cases inl <;>
      simp only [csOfKind, bpcOfKind, bitsOfKind, rowBytes, isRGB, isGray] at hsave ⊢ <;>
      simp [withName, hnm, hsave, h3]
  · rw [hj]; exact candidate_suffix name extBmp j

/-- The row-wise reading of the samples used above is the pixel-by-pixel one: pixel (r, c) of a
    gray image is byte `r·w + c`, of an RGB image bytes `3(r·w + c) …`, of a 1-bit image bit
    `7 - c mod 8` of byte `r·⌈w/8⌉ + c div 8` (0 = black, 1 = white). -/
theorem C18_samples_pixelwise (k : Kind) (w h : Nat) (data : Bytes) (hlen : data.length = h * rowBytes k w) :
    samplesRGB k w h data = samplesRGBIdx k w h data :=
  samplesRGB_eq_idx k w h data hlen

/-- `bmp_rt` stated against the pixel-by-pixel meaning of the samples. -/
theorem C18_bmp_rt_pixelwise (k : Kind) (inl : Bool) (w h : Nat) (data name : Bytes) (existing : List Bytes)
    (filters : List Flt) (hl : ∀ f ∈ filters, Lossless f)
    (hw1 : 1 ≤ w) (hh1 : 1 ≤ h) (hfit : FitsBmp k w h) (hlen : data.length = h * rowBytes k w) :
    ∃ nm file, exportImage ⟨filters, csOfKind k inl, bpcOfKind k, w, h, name, data⟩ existing = .ok (nm, file) ∧
      readBMP file = some (w, h, samplesRGBIdx k w h data) := by
  obtain ⟨nm, file, h1, _, _, h4⟩ := C18_bmp_rt k inl w h data name existing filters hl hw1 hh1 hfit hlen
  exact ⟨nm, file, h1, by rw [← samplesRGB_eq_idx k w h data hlen]; exact h4⟩

/-- Non-vacuity: a 3×2 RGB image (row length 9, not a multiple of 4) through Flate, with `Im0.bmp`
    already present, meets the hypotheses; and the exported file is what the reader decodes. -/
example : FitsBmp .rgb8 3 2 ∧ (List.replicate 18 (7 : UInt8)).length = 2 * rowBytes .rgb8 3 := by
  refine ⟨⟨by decide, by decide, by decide⟩, by decide⟩

example :
    (match exportImage ⟨[.flate], .rgb, 8, 3, 2, [73, 109, 48], (List.range 18).map UInt8.ofNat⟩ [[73, 109, 48, 46, 98, 109, 112]] with
     | .ok (nm, file) => (nm, readBMP file)
     | .error _ => ([], none)) =
    ([73, 109, 48, 46, 48, 46, 98, 109, 112], some (3, 2, (List.range 18).map UInt8.ofNat)) := by
  decide +kernel

/-- The pinned writer (before the `fix:` commits) breaks the property: a 1×1 gray image gives a file
    that ends before its declared size, which the reader rejects; a 1×1 RGB image with a padded
    row reads back with red and blue exchanged. -/
theorem C18_bmp_pinned_cex :
    (match saveBmpPinned 8 1 1 1 [17] with | .ok f => readBMP f | .error _ => none) = none ∧
    (match saveBmpPinned 24 1 2 3 [1, 2, 3, 4, 5, 6] with | .ok f => readBMP f | .error _ => none) ≠
      some (1, 2, samplesRGB .rgb8 1 2 [1, 2, 3, 4, 5, 6]) := by
  constructor <;> decide +kernel

/-! ## DCT data is written byte for byte -/

/-- **jpeg_bytes.** An image whose last filter is DCTDecode (gray or RGB; CMYK needs Pillow) is
    written unchanged — the file content is `stream.get_data()` — to a new `*.jpg` file. -/
theorem C18_jpeg_bytes (im : ImgIn) (existing : List Bytes) (hd : im.filters.getLast? = some .dct)
    (hcs : im.cs ≠ .cmyk) :
    ∃ nm, exportImage im existing = .ok (nm, im.data) ∧ nm ∉ existing ∧ ∃ stem, nm = stem ++ extJpeg := by
  have hsome := uniqueName_isSome existing im.name extJpeg
  obtain ⟨nm, hnm⟩ := Option.isSome_iff_exists.mp hsome
  obtain ⟨hfresh, j, _, hj⟩ := uniqueName_fresh existing im.name extJpeg nm hnm
  refine ⟨nm, ?_, hfresh, ?_⟩
  · unfold exportImage
    simp [hd, hcs, withName, hnm]
  · rw [hj]; exact candidate_suffix im.name extJpeg j

example : ([Flt.a85, Flt.dct] : List Flt).getLast? = some .dct ∧ CS.rgb ≠ CS.cmyk := by decide

/-! ## Distinct images get distinct file names -/

/-- Whatever is exported, the returned name is not one of the existing files. -/
theorem C18_export_fresh (im : ImgIn) (existing : List Bytes) (nm file : Bytes)
    (h : exportImage im existing = .ok (nm, file)) : nm ∉ existing := by
  have key : ∀ ext c, withName existing im.name ext c = .ok (nm, file) → nm ∉ existing := by
    intro ext c hc
    unfold withName at hc
    cases hu : uniqueName existing im.name ext with
    | none => simp [hu] at hc
    | some n =>
      simp only [hu] at hc
      cases c with
      | error e => simp at hc
      | ok c =>
        simp only [Except.ok.injEq, Prod.mk.injEq] at hc
        rw [← hc.1]
        exact (uniqueName_fresh existing im.name ext n hu).1
  unfold exportImage at h
  repeat' split at h
  all_goals first
    | exact key _ _ h
    | cases h

/-- **names_distinct.** In a run of exports into one directory the file names are pairwise
    distinct and none of them is a file that existed before (so nothing is overwritten). -/
theorem C18_names_distinct : ∀ (ims : List ImgIn) (existing : List Bytes),
    ((exportSeq ims existing).map (·.1)).Nodup ∧ ∀ nm ∈ (exportSeq ims existing).map (·.1), nm ∉ existing
  | [], _ => by simp [exportSeq]
  | im :: rest, existing => by
    unfold exportSeq
    cases h : exportImage im existing with
    | error e => simp
    | ok p =>
      obtain ⟨nm, file⟩ := p
      have hfresh := C18_export_fresh im existing nm file h
      obtain ⟨ih1, ih2⟩ := C18_names_distinct rest (nm :: existing)
      simp only [List.map_cons, List.nodup_cons, List.mem_cons]
      refine ⟨⟨?_, ih1⟩, ?_⟩
      · intro hmem
        exact ih2 nm hmem (by simp)
      · intro x hx
        rcases hx with rfl | hx
        · exact hfresh
        · intro hex
          exact ih2 x hx (by simp [hex])

/-- The naming loop stops after at most `existing.length + 1` probes. -/
theorem C18_unique_name_terminates (existing : List Bytes) (name ext : Bytes) :
    (uniqueName existing name ext).isSome = true :=
  uniqueName_isSome existing name ext

/-- Non-vacuity: three images called `Im0` give three different names. -/
example :
    (exportSeq [⟨[], .gray, 8, 1, 1, [73, 109, 48], [1]⟩, ⟨[.flate], .gray, 8, 1, 1, [73, 109, 48], [2]⟩,
                ⟨[.dct], .gray, 8, 1, 1, [73, 109, 48], [3]⟩] []).map (·.1) =
      [[73, 109, 48, 46, 98, 109, 112], [73, 109, 48, 46, 48, 46, 98, 109, 112], [73, 109, 48, 46, 106, 112, 103]] := by
  decide +kernel

/-! ## Inline image data is captured completely, the rest of the stream is untouched -/

/-- The end-of-line forms a writer puts between the data and `EI`. -/
def IsEol (sep : Bytes) : Prop := sep = [10] ∨ sep = [13, 10] ∨ sep = [13]

/-- **inline_scan.** For data (with its end-of-line) that does not contain `EI`+white space, the
    scanner consumes exactly `data EOL EI ws` — the parser continues with `rest`, the operators
    after the image — and returns `data ++ EOL` with one end-of-line removed. -/
theorem C18_inline_scan (data sep rest : Bytes) (ws : UInt8) (hsep : IsEol sep) (hws : isSpace ws = true)
    (hno : NoMarker (data ++ sep)) :
    getInlineData EI (data ++ sep ++ EI ++ ws :: rest) =
      some (stripEol (data ++ sep), (data ++ sep).length + 3) := by
  have hp := scan_prefix (data ++ sep) 0 [] (EI ++ ws :: rest) 0 (by decide)
    ⟨fun h => absurd h (by decide), fun h => absurd h (by decide)⟩ (by simpa using hno)
  obtain ⟨hscan, _, hle⟩ := hp
  -- the state after the end-of-line is 0
  have hzero : run 0 (data ++ sep) = 0 := by
    have hlast : ∃ init c, data ++ sep = init ++ [c] ∧ (c = 10 ∨ c = 13) := by
      rcases hsep with rfl | rfl | rfl
      · exact ⟨data, 10, rfl, Or.inl rfl⟩
      · exact ⟨data ++ [13], 10, by simp, Or.inl rfl⟩
      · exact ⟨data, 13, rfl, Or.inr rfl⟩
    obtain ⟨init, c, hinit, hc⟩ := hlast
    have hp2 := scan_prefix init 0 [] [] 0 (by decide)
      ⟨fun h => absurd h (by decide), fun h => absurd h (by decide)⟩
      (by
        intro pre post c' hc' heq
        apply hno pre (post ++ [c]) c' hc'
        rw [hinit]
        simp only [List.nil_append] at heq
        rw [heq]; simp)
    rw [hinit, run_snoc] at hle ⊢
    exact step_eol _ c hp2.2.2 hc hle
  unfold getInlineData
  have hinput : data ++ sep ++ EI ++ ws :: rest = (data ++ sep) ++ (EI ++ ws :: rest) := by simp
  rw [hinput, hscan, hzero]
  have : EI ++ ws :: rest = 69 :: 73 :: ws :: rest := rfl
  rw [this, scan_marker ws rest _ hws]
  simp only [Nat.zero_add, EI_length, Bool.false_eq_true, if_false]
  have htake : List.take ((data ++ sep).length + 3) (data ++ sep ++ 69 :: 73 :: ws :: rest) =
      (data ++ sep) ++ [69, 73, ws] := by
    have : data ++ sep ++ 69 :: 73 :: ws :: rest = ((data ++ sep) ++ [69, 73, ws]) ++ rest := by simp
    rw [this]
    have hl : (data ++ sep).length + 3 = ((data ++ sep) ++ [69, 73, ws]).length := by simp <;> omega
    rw [hl, List.take_left]
  rw [htake]
  have : ((data ++ sep) ++ [69, 73, ws]).length - (2 + 1) = (data ++ sep).length := by simp <;> omega
  rw [this, List.take_left]

/-- The same when `EI` is the last token of the content stream. -/
theorem C18_inline_scan_eof (data sep : Bytes) (hsep : IsEol sep) (hno : NoMarker (data ++ sep)) :
    getInlineData EI (data ++ sep ++ EI) = some (stripEol (data ++ sep), (data ++ sep).length + 2) := by
  have hp := scan_prefix (data ++ sep) 0 [] EI 0 (by decide)
    ⟨fun h => absurd h (by decide), fun h => absurd h (by decide)⟩ (by simpa using hno)
  obtain ⟨hscan, _, hle⟩ := hp
  have hzero : run 0 (data ++ sep) = 0 := by
    have hlast : ∃ init c, data ++ sep = init ++ [c] ∧ (c = 10 ∨ c = 13) := by
      rcases hsep with rfl | rfl | rfl
      · exact ⟨data, 10, rfl, Or.inl rfl⟩
      · exact ⟨data ++ [13], 10, by simp, Or.inl rfl⟩
      · exact ⟨data, 13, rfl, Or.inr rfl⟩
    obtain ⟨init, c, hinit, hc⟩ := hlast
    have hp2 := scan_prefix init 0 [] [] 0 (by decide)
      ⟨fun h => absurd h (by decide), fun h => absurd h (by decide)⟩
      (by
        intro pre post c' hc' heq
        apply hno pre (post ++ [c]) c' hc'
        rw [hinit]
        simp only [List.nil_append] at heq
        rw [heq]; simp)
    rw [hinit, run_snoc] at hle ⊢
    exact step_eol _ c hp2.2.2 hc hle
  unfold getInlineData
  rw [hscan, hzero]
  have hm : scan EI 0 EI (0 + (data ++ sep).length) = some (0 + (data ++ sep).length + 2, true) :=
    scan_marker_eof _
  rw [hm]
  simp only [Nat.zero_add, if_true, EI_length, Nat.add_zero]
  have hl : (data ++ sep).length + 2 = ((data ++ sep) ++ EI).length := by simp [EI_length] <;> omega
  rw [hl, List.take_length]
  have h2 : ((data ++ sep) ++ EI).length - 2 = (data ++ sep).length := by simp [EI_length] <;> omega
  rw [h2, List.take_left]

/-- The full statement of the property for inline data. -/
def C18_inline_capture_statement : Prop :=
  ∀ (data sep rest : Bytes) (ws : UInt8), IsEol sep → isSpace ws = true → NoMarker (data ++ sep) →
    getInlineData EI (data ++ sep ++ EI ++ ws :: rest) = some (data, (data ++ sep).length + 3)

/-- **inline_capture (partial).** The captured bytes are exactly `data` and exactly
    `data EOL EI ws` is consumed — except when the data ends in CR and the writer's end-of-line is
    a bare LF (open finding `inline-data-trailing-cr`). -/
theorem C18_inline_capture_partial (data sep rest : Bytes) (ws : UInt8) (hsep : IsEol sep)
    (hws : isSpace ws = true) (hno : NoMarker (data ++ sep))
    (hcr : ¬ (sep = [10] ∧ data.getLast? = some 13)) :
    getInlineData EI (data ++ sep ++ EI ++ ws :: rest) = some (data, (data ++ sep).length + 3) := by
  rw [C18_inline_scan data sep rest ws hsep hws hno]
  congr 2
  rcases hsep with rfl | rfl | rfl
  · exact stripEol_lf data (fun h => hcr ⟨rfl, h⟩)
  · exact stripEol_crlf data
  · exact stripEol_cr data

/-- Counter-example to the full statement (as the pinned and the repaired code behave): data `A CR`
    written as `A CR LF EI SP` comes back as `A`. -/
theorem C18_inline_trailing_cr_cex : ¬ C18_inline_capture_statement := by
  intro h
  have := h [65, 13] [10] [] 32 (Or.inl rfl) (by decide)
    (by
      intro pre post c _ heq
      have hlen := congrArg List.length heq
      simp only [List.length_append, List.length_cons, List.length_nil] at hlen
      have : pre = [] := List.eq_nil_of_length_eq_zero (by omega)
      subst this
      simp at heq)
  revert this
  decide +kernel

/-- Non-vacuity of the hypotheses: binary data containing `E`, `I`, `EI` without white space after
    it, ending in LF, with a CR LF end-of-line. -/
example : getInlineData EI ([69, 69, 73, 0, 73, 10] ++ [13, 10] ++ EI ++ 32 :: [81]) =
    some ([69, 69, 73, 0, 73, 10], 11) := by
  decide +kernel

end PdfVerif.Props.C18
