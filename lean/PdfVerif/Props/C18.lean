/-
C18 — Images: exported files and inline image data reproduce the samples exactly.

Property theorems only.  Model: Model/Image.lean (image.py), Model/ImageName.lean
(_create_unique_image_name), Model/Inline.lean (PDFContentParser.get_inline_data);
specification: Spec/Bmp.lean (standard BMP reader, meaning of PDF samples).
-/
import PdfVerif.Lemmas.Bmp
import PdfVerif.Lemmas.ImageName
import PdfVerif.Lemmas.Inline
import PdfVerif.Lemmas.InlineTotal
import PdfVerif.Lemmas.InlineDict
import PdfVerif.Lemmas.InlineAssemble

namespace PdfVerif.Props.C18
open PdfVerif PdfVerif.Image PdfVerif.Bmp PdfVerif.ImageName PdfVerif.Inline
open PdfVerif.BmpLemmas PdfVerif.ImageNameLemmas PdfVerif.InlineLemmas PdfVerif.Gen.ImageGen
open PdfVerif.InlineDict PdfVerif.InlineDictLemmas

/-! ## Exported bitmaps decode to the stored samples -/

/-- Colour space and bits per component of the three sample kinds; `inl` = written with the
    inline-image abbreviations `/G`, `/RGB`. -/
def csOfKind (k : Kind) (inl : Bool) : CS :=
  match k, inl with
  | .gray8, false => .gray | .gray8, true => .inlGray
  | .rgb8, false => .rgb | .rgb8, true => .inlRgb
  | .bit1, false => .gray | .bit1, true => .inlGray

def bpcOfKind : Kind → Nat
  | .gray8 => 8 | .rgb8 => 8 | .bit1 => 1

/-- The BMP format stores sizes in 32-bit fields: the theorem covers every image whose file fits. -/
def FitsBmp (k : Kind) (w h : Nat) : Prop :=
  w < 2147483648 ∧ h < 2147483648 ∧ 54 + ncolsOfKind k * 4 + lineSize (bitsOfKind k) w * h < 4294967296 ∧
  -- `_plausible_dimensions`: beyond 2^34 sample bits the writer keeps the bytes undecoded
  w * h * bpcOfKind k < 17179869184

/-- A well-formed image that fits the BMP format passes the writer's plausibility test. -/
theorem C18_plausible_of_fits (k : Kind) (w h : Nat) (hw1 : 1 ≤ w) (hh1 : 1 ≤ h) (hfit : FitsBmp k w h) :
    plausible w h (bpcOfKind k) = true := by
  obtain ⟨h1, h2, _, h4⟩ := hfit
  have hb : 0 < bpcOfKind k ∧ bpcOfKind k ≤ 32 := by cases k <;> decide
  have e1 : 0 < w := by omega
  have e2 : w < 2 ^ 31 := by omega
  have e3 : 0 < h := by omega
  have e4 : h < 2 ^ 31 := by omega
  have e5 : w * h * bpcOfKind k < 2 ^ 34 := by omega
  simp [plausible, plausDimLimit, plausBitsMax, plausTotalLimit, e1, e2, e3, e4, e5, hb.1, hb.2]

/-- **bmp_rt.** For every gray-8, RGB-8 or 1-bit image of any width and height ≥ 1 (that fits the
    BMP format), stored unfiltered or through any lossless filter chain, as XObject or inline image,
    whatever files exist already: `export_image` writes a new `*.bmp` file, and a standard BMP
    reader decodes that file to exactly the stored samples. -/
theorem C18_bmp_rt (k : Kind) (inl : Bool) (w h : Nat) (data name : Bytes) (existing : List Bytes)
    (filters : List Flt) (hl : ∀ f ∈ filters, Lossless f)
    (hw1 : 1 ≤ w) (hh1 : 1 ≤ h) (hfit : FitsBmp k w h) (hlen : data.length = h * rowBytes k w) :
    ∃ nm file, exportImage ⟨filters, csOfKind k inl, false, bpcOfKind k, w, h, name, data⟩ existing = .ok (nm, file) ∧
      nm ∉ existing ∧ (∃ stem, nm = stem ++ extBmp) ∧
      readBMP file = some (w, h, samplesRGB k w h data) := by
  obtain ⟨hdct, hjpx, hjb⟩ := lossless_getLast filters hl
  obtain ⟨file, hsave, hread⟩ := saveBmp_read k w h data hw1 hh1 hfit.1 hfit.2.1 hfit.2.2.1 hlen
  have hsome := uniqueName_isSome existing name extBmp
  obtain ⟨nm, hnm⟩ := Option.isSome_iff_exists.mp hsome
  obtain ⟨hfresh, j, _, hj⟩ := uniqueName_fresh existing name extBmp nm hnm
  refine ⟨nm, file, ?_, hfresh, ?_, hread⟩
  · unfold exportImage
    have hpl := C18_plausible_of_fits k w h hw1 hh1 hfit
    simp only [hpl, Bool.not_true, Bool.false_eq_true, hdct, hjpx, hjb, if_false]
    cases k <;> cases inl <;>
      simp only [csOfKind, bpcOfKind, bitsOfKind, rowBytes, isRGB, isGray] at hsave ⊢ <;>
      simp only [(bmpArgs_bit1 w).1, (bmpArgs_bit1 w).2, (bmpArgs_rgb w).1, (bmpArgs_rgb w).2, (bmpArgs_gray w).1,
        (bmpArgs_gray w).2] <;>
      simp (config := { decide := true }) only [if_true, if_false] <;>
      exact withName_ok _ _ _ _ _ _ hnm hsave
  · rw [hj]; exact candidate_suffix name extBmp j

/-- The row-wise reading of the samples used above is the pixel-by-pixel one: pixel (r, c) of a
    gray image is byte `r·w + c`, of an RGB image bytes `3(r·w + c) …`, of a 1-bit image bit
    `7 - c mod 8` of byte `r·⌈w/8⌉ + c div 8` (0 = black, 1 = white). -/
theorem C18_samples_pixelwise (k : Kind) (w h : Nat) (data : Bytes) (hlen : data.length = h * rowBytes k w) :
    samplesRGB k w h data = samplesRGBIdx k w h data :=
  samplesRGB_eq_idx k w h data hlen

/-- `bmp_rt` stated against the pixel-by-pixel meaning of the samples. -/
theorem C18_bmp_rt_pixelwise (k : Kind) (inl : Bool) (w h : Nat) (data name : Bytes) (existing : List Bytes)
    (filters : List Flt) (hl : ∀ f ∈ filters, Lossless f)
    (hw1 : 1 ≤ w) (hh1 : 1 ≤ h) (hfit : FitsBmp k w h) (hlen : data.length = h * rowBytes k w) :
    ∃ nm file, exportImage ⟨filters, csOfKind k inl, false, bpcOfKind k, w, h, name, data⟩ existing = .ok (nm, file) ∧
      readBMP file = some (w, h, samplesRGBIdx k w h data) := by
  obtain ⟨nm, file, h1, _, _, h4⟩ := C18_bmp_rt k inl w h data name existing filters hl hw1 hh1 hfit hlen
  exact ⟨nm, file, h1, by rw [← samplesRGB_eq_idx k w h data hlen]; exact h4⟩

/-- Non-vacuity: a 3×2 RGB image (row length 9, not a multiple of 4) through Flate, with `Im0.bmp`
    already present, meets the hypotheses; and the exported file is what the reader decodes. -/
example : FitsBmp .rgb8 3 2 ∧ (List.replicate 18 (7 : UInt8)).length = 2 * rowBytes .rgb8 3 := by
  refine ⟨⟨by decide, by decide, by decide, by decide⟩, by decide⟩

example :
    (match exportImage ⟨[.flate], .rgb, false, 8, 3, 2, [73, 109, 48], (List.range 18).map UInt8.ofNat⟩ [[73, 109, 48, 46, 98, 109, 112]] with
     | .ok (nm, file) => (nm, readBMP file)
     | .error _ => ([], none)) =
    ([73, 109, 48, 46, 48, 46, 98, 109, 112], some (3, 2, (List.range 18).map UInt8.ofNat)) := by
  decide +kernel

/-- The pinned writer (before the `fix:` commits) breaks the property: a 1×1 gray image gives a file
    that ends before its declared size, which the reader rejects; a 1×1 RGB image with a padded
    row reads back with red and blue exchanged. -/
theorem C18_bmp_pinned_cex :
    (match saveBmpPinned 8 1 1 1 [17] with | .ok f => readBMP f | .error _ => none) = none ∧
    (match saveBmpPinned 24 1 2 3 [1, 2, 3, 4, 5, 6] with | .ok f => readBMP f | .error _ => none) ≠
      some (1, 2, samplesRGB .rgb8 1 2 [1, 2, 3, 4, 5, 6]) := by
  constructor <;> decide +kernel

/-! ## DCT data is written byte for byte -/

/-- **jpeg_bytes.** An image whose last filter is DCTDecode (gray or RGB; CMYK needs Pillow) is
    written unchanged — the file content is `stream.get_data()` — to a new `*.jpg` file. -/
theorem C18_jpeg_bytes (im : ImgIn) (existing : List Bytes) (hpl : plausible im.w im.h im.bits = true)
    (hd : im.filters.getLast? = some .dct) (hcs : im.cmykMember = false) :
    ∃ nm, exportImage im existing = .ok (nm, im.data) ∧ nm ∉ existing ∧ ∃ stem, nm = stem ++ extJpeg := by
  have hsome := uniqueName_isSome existing im.name extJpeg
  obtain ⟨nm, hnm⟩ := Option.isSome_iff_exists.mp hsome
  obtain ⟨hfresh, j, _, hj⟩ := uniqueName_fresh existing im.name extJpeg nm hnm
  refine ⟨nm, ?_, hfresh, ?_⟩
  · unfold exportImage
    simp [hpl, hd, hcs, withName, hnm]
  · rw [hj]; exact candidate_suffix im.name extJpeg j

example : ([Flt.a85, Flt.dct] : List Flt).getLast? = some .dct := by decide

/-! ## Kinds the property does not name: 2/4/16-bit samples, CMYK, Lab, … -/

/-- **raw_dump.** An image that is neither DCT/JPX/JBIG2 nor one of the bitmap kinds, and not a
    single-Flate stream (which needs Pillow), is dumped unchanged — file content = `get_data()` — under
    a new name `<name>[.k].<bits>.<w>x<h>.img`; nothing is lost and no existing file is touched. -/
theorem C18_raw_dump (im : ImgIn) (existing : List Bytes) (hpl : plausible im.w im.h im.bits = true)
    (h1 : im.filters.getLast? ≠ some .dct) (h2 : im.filters.getLast? ≠ some .jpx)
    (h3 : im.filters.contains .jbig2 = false) (hb : im.bits ≠ 1)
    (hc : ¬ (im.bits = 8 ∧ (isRGB im.cs = true ∨ isGray im.cs = true))) (hf : im.filters ≠ [.flate]) :
    ∃ nm, exportImage im existing = .ok (nm, im.data) ∧ nm ∉ existing ∧
      ∃ stem, nm = stem ++ rawExt im.bits im.w im.h := by
  have hsome := uniqueName_isSome existing im.name (rawExt im.bits im.w im.h)
  obtain ⟨nm, hnm⟩ := Option.isSome_iff_exists.mp hsome
  obtain ⟨hfresh, j, _, hj⟩ := uniqueName_fresh existing im.name _ nm hnm
  refine ⟨nm, ?_, hfresh, ?_⟩
  · unfold exportImage
    have hc1 : ¬ (im.bits = 8 ∧ isRGB im.cs = true) := fun h => hc ⟨h.1, Or.inl h.2⟩
    have hc2 : ¬ (im.bits = 8 ∧ isGray im.cs = true) := fun h => hc ⟨h.1, Or.inr h.2⟩
    rw [if_neg (by simp [hpl]), if_neg h1, if_neg h2, if_neg (by simpa using h3), if_neg hb, if_neg hc1, if_neg hc2,
      if_neg hf]
    exact withName_ok _ _ _ _ _ _ hnm rfl
  · rw [hj]; exact candidate_suffix im.name _ j

/-- Non-vacuity: a 4-bit CMYK image through ASCII85. -/
example : ([Flt.a85] : List Flt).getLast? ≠ some .dct ∧ (4 : Nat) ≠ 1 ∧ ([Flt.a85] : List Flt) ≠ [.flate] := by decide

/-- **undecoded_dump.** An image whose Width, Height or BitsPerComponent is not plausible (zero, beyond
    the 32-bit BMP fields, more than 32 bits per component, or ≥ 2^34 sample bits) is kept byte for byte
    under a new name `<name>[.k].img`; the writer does not fail and touches no existing file. -/
theorem C18_undecoded_dump (im : ImgIn) (existing : List Bytes) (hpl : plausible im.w im.h im.bits = false) :
    ∃ nm, exportImage im existing = .ok (nm, im.data) ∧ nm ∉ existing ∧ ∃ stem, nm = stem ++ extUndecoded := by
  have hsome := uniqueName_isSome existing im.name extUndecoded
  obtain ⟨nm, hnm⟩ := Option.isSome_iff_exists.mp hsome
  obtain ⟨hfresh, j, _, hj⟩ := uniqueName_fresh existing im.name _ nm hnm
  refine ⟨nm, ?_, hfresh, ?_⟩
  · unfold exportImage
    rw [if_pos (by simp [hpl])]
    exact withName_ok _ _ _ _ _ _ hnm rfl
  · rw [hj]; exact candidate_suffix im.name _ j

example : plausible 0 5 8 = false ∧ plausible 3 3 64 = false ∧ plausible 70000 70000 8 = false := by decide

/-! ## Distinct images get distinct file names -/

/-- Whatever is exported, the returned name is not one of the existing files. -/
theorem C18_export_fresh (im : ImgIn) (existing : List Bytes) (nm file : Bytes)
    (h : exportImage im existing = .ok (nm, file)) : nm ∉ existing := by
  have key : ∀ ext c, withName existing im.name ext c = .ok (nm, file) → nm ∉ existing := by
    intro ext c hc
    unfold withName at hc
    cases hu : uniqueName existing im.name ext with
    | none => simp [hu] at hc
    | some n =>
      simp only [hu] at hc
      cases c with
      | error e => simp at hc
      | ok c =>
        simp only [Except.ok.injEq, Prod.mk.injEq] at hc
        rw [← hc.1]
        exact (uniqueName_fresh existing im.name ext n hu).1
  unfold exportImage at h
  repeat' split at h
  all_goals first
    | exact key _ _ h
    | cases h

/-- **names_distinct.** In a run of exports into one directory the file names are pairwise
    distinct and none of them is a file that existed before (so nothing is overwritten). -/
theorem C18_names_distinct : ∀ (ims : List ImgIn) (existing : List Bytes),
    ((exportSeq ims existing).map (·.1)).Nodup ∧ ∀ nm ∈ (exportSeq ims existing).map (·.1), nm ∉ existing
  | [], _ => by simp [exportSeq]
  | im :: rest, existing => by
    unfold exportSeq
    cases h : exportImage im existing with
    | error e => simp
    | ok p =>
      obtain ⟨nm, file⟩ := p
      have hfresh := C18_export_fresh im existing nm file h
      obtain ⟨ih1, ih2⟩ := C18_names_distinct rest (nm :: existing)
      simp only [List.map_cons, List.nodup_cons, List.mem_cons]
      refine ⟨⟨?_, ih1⟩, ?_⟩
      · intro hmem
        exact ih2 nm hmem (by simp)
      · intro x hx
        rcases hx with rfl | hx
        · exact hfresh
        · intro hex
          exact ih2 x hx (by simp [hex])

/-- The naming loop stops after at most `existing.length + 1` probes. -/
theorem C18_unique_name_terminates (existing : List Bytes) (name ext : Bytes) :
    (uniqueName existing name ext).isSome = true :=
  uniqueName_isSome existing name ext

/-- Non-vacuity: three images called `Im0` give three different names. -/
example :
    (exportSeq [⟨[], .gray, false, 8, 1, 1, [73, 109, 48], [1]⟩, ⟨[.flate], .gray, false, 8, 1, 1, [73, 109, 48], [2]⟩,
                ⟨[.dct], .gray, false, 8, 1, 1, [73, 109, 48], [3]⟩] []).map (·.1) =
      [[73, 109, 48, 46, 98, 109, 112], [73, 109, 48, 46, 48, 46, 98, 109, 112], [73, 109, 48, 46, 106, 112, 103]] := by
  decide +kernel

/-! ## Inline image data is captured completely, the rest of the stream is untouched -/

/-- **inline_scan.** For data (with its end-of-line: LF, CR LF or CR) that does not contain
    `EI`+white space, and for any size hint, the scanner consumes exactly `data EOL EI ws` — the
    parser continues with `rest`, the operators after the image — and what it returns is determined
    by `data ++ EOL` alone (`finish`: cut at the hinted size, or strip one end-of-line). -/
theorem C18_inline_scan (L : Option Nat) (data sep rest : Bytes) (ws : UInt8) (hsep : IsEol sep)
    (hws : isSpace ws = true) (hno : NoMarker (data ++ sep)) :
    getInlineDataLen EI L (data ++ sep ++ EI ++ ws :: rest) = finish L (data ++ sep) ((data ++ sep).length + 3) :=
  getInlineDataLen_marker L data sep rest ws hsep hws hno

/-- The same when `EI` is the last token of the content stream. -/
theorem C18_inline_scan_eof (L : Option Nat) (data sep : Bytes) (hsep : IsEol sep) (hno : NoMarker (data ++ sep)) :
    getInlineDataLen EI L (data ++ sep ++ EI) = finish L (data ++ sep) ((data ++ sep).length + 2) :=
  getInlineDataLen_marker_eof L data sep hsep hno

/-- **inline_capture.** When the dictionary tells the size of the data (unfiltered image: the hint
    is `data.length`), the captured bytes are exactly `data` — whatever its last bytes are, for
    every end-of-line form — and exactly `data EOL EI ws` is consumed. -/
theorem C18_inline_capture (data sep rest : Bytes) (ws : UInt8) (hsep : IsEol sep)
    (hws : isSpace ws = true) (hno : NoMarker (data ++ sep)) :
    getInlineDataLen EI (some data.length) (data ++ sep ++ EI ++ ws :: rest) =
      some (data, (data ++ sep).length + 3) := by
  rw [getInlineDataLen_marker _ data sep rest ws hsep hws hno]
  exact finish_exact data sep _ hsep

theorem C18_inline_capture_eof (data sep : Bytes) (hsep : IsEol sep) (hno : NoMarker (data ++ sep)) :
    getInlineDataLen EI (some data.length) (data ++ sep ++ EI) = some (data, (data ++ sep).length + 2) := by
  rw [getInlineDataLen_marker_eof _ data sep hsep hno]
  exact finish_exact data sep _ hsep

/-- The full statement for payloads whose size the dictionary does not tell (filtered data). -/
def C18_inline_capture_nohint_statement : Prop :=
  ∀ (data sep rest : Bytes) (ws : UInt8), IsEol sep → isSpace ws = true → NoMarker (data ++ sep) →
    getInlineDataLen EI none (data ++ sep ++ EI ++ ws :: rest) = some (data, (data ++ sep).length + 3)

/-- **inline_capture without a size (partial).** The captured bytes are exactly the payload unless
    it ends in CR and the writer's end-of-line is a bare LF (open finding `inline-data-trailing-cr`,
    now restricted to filtered payloads). -/
theorem C18_inline_capture_nohint_partial (data sep rest : Bytes) (ws : UInt8) (hsep : IsEol sep)
    (hws : isSpace ws = true) (hno : NoMarker (data ++ sep))
    (hcr : ¬ (sep = [10] ∧ data.getLast? = some 13)) :
    getInlineDataLen EI none (data ++ sep ++ EI ++ ws :: rest) = some (data, (data ++ sep).length + 3) := by
  rw [getInlineDataLen_marker _ data sep rest ws hsep hws hno]
  exact finish_none_strip data sep _ hsep hcr

/-- Counter-example to the statement without a size: payload `A CR` written as `A CR LF EI SP`
    comes back as `A`. -/
theorem C18_inline_trailing_cr_cex : ¬ C18_inline_capture_nohint_statement := by
  intro h
  have := h [65, 13] [10] [] 32 (Or.inl rfl) (by decide)
    (by
      intro pre post c _ heq
      have hlen := congrArg List.length heq
      simp only [List.length_append, List.length_cons, List.length_nil] at hlen
      have : pre = [] := List.eq_nil_of_length_eq_zero (by omega)
      subst this
      simp at heq)
  revert this
  decide +kernel

/-- Non-vacuity: with the size hint, data ending in CR before a bare LF is captured exactly. -/
example : getInlineDataLen EI (some 2) ([65, 13] ++ [10] ++ EI ++ 32 :: [81]) = some ([65, 13], 6) := by
  decide +kernel

/-- Non-vacuity of the hypotheses: binary data containing `E`, `I`, `EI` without white space after
    it, ending in LF, with a CR LF end-of-line. -/
example : getInlineData EI ([69, 69, 73, 0, 73, 10] ++ [13, 10] ++ EI ++ 32 :: [81]) =
    some ([69, 69, 73, 0, 73, 10], 11) := by
  decide +kernel

/-! ## The glue around inline images: BI … ID dictionary, do_EI, LTImage, export -/

/-- **inline_image.** A well-formed inline image written with any mixture of abbreviated and
    full key names and colour space names (`BI /W w /Height h /BPC b /ColorSpace /G ID␣ data EOL EI ws rest`, …): `do_keyword` pushes a stream whose
    dictionary has exactly the four entries and whose data is exactly `data` — for every EOL form
    and whatever the last bytes of the data are — followed by `EI`, having consumed exactly
    `data EOL EI ws`; `do_EI` accepts it and `LTImage` reports the stored width, height, bits and
    colour space. -/
theorem C18_inline_image (sp : Spell) (k : Kind) (w h : Nat) (data sep rest : Bytes) (ws : UInt8)
    (hw : 1 ≤ w) (hh : 1 ≤ h) (hlen : data.length = h * rowBytes k w) (hsep : IsEol sep)
    (hws : isSpace ws = true) (hno : NoMarker (data ++ sep)) :
    processID (writerObjs sp k w h) (data ++ sep ++ EI ++ ws :: rest) =
      .ok ⟨writerDict sp k w h, data, true, (data ++ sep).length + 3⟩ ∧
    doEI (writerDict sp k w h) =
      some ⟨.int w, .int h, .int (bpcOf k), [some (.name (csNameOf sp.vc k))], none⟩ := by
  refine ⟨?_, doEI_writer sp k w h⟩
  unfold processID
  rw [assemble_writer]
  simp only []
  rw [eos_writer]
  simp only []
  rw [size_writer sp k w h hw hh, ← hlen, C18_inline_capture data sep rest ws hsep hws hno]
  rfl

/-- **inline_image_exported.** End to end for inline images: content-stream bytes → pushed
    stream → LTImage → `export_image` → a new `*.bmp` that the BMP reader decodes to exactly the
    stored samples. -/
theorem C18_inline_image_exported (sp : Spell) (k : Kind) (w h : Nat) (data sep rest name : Bytes) (ws : UInt8)
    (existing : List Bytes) (hw : 1 ≤ w) (hh : 1 ≤ h) (hfit : FitsBmp k w h)
    (hlen : data.length = h * rowBytes k w) (hsep : IsEol sep) (hws : isSpace ws = true)
    (hno : NoMarker (data ++ sep)) :
    ∃ p f img nm file,
      processID (writerObjs sp k w h) (data ++ sep ++ EI ++ ws :: rest) = .ok p ∧
      p.consumed = (data ++ sep).length + 3 ∧ p.pushEI = true ∧
      doEI p.dict = some f ∧ toImgIn f [] name p.data = some img ∧
      exportImage img existing = .ok (nm, file) ∧ nm ∉ existing ∧
      readBMP file = some (w, h, samplesRGB k w h data) := by
  obtain ⟨hp, hf⟩ := C18_inline_image sp k w h data sep rest ws hw hh hlen hsep hws hno
  obtain ⟨nm, file, hexp, hfresh, _, hread⟩ :=
    C18_bmp_rt k sp.vc w h data name existing [] (by intro f hf; cases hf) hw hh hfit hlen
  refine ⟨_, _, ⟨[], csOfKind k sp.vc, false, bpcOfKind k, w, h, name, data⟩, nm, file, hp, rfl, rfl, hf, ?_, hexp,
    hfresh, hread⟩
  obtain ⟨kw, kh, kb, kc, vc⟩ := sp
  cases vc <;> cases k <;>
    simp (config := { decide := true }) only [toImgIn, csNameOf, bpcOf, csOfKind, bpcOfKind, Int.toNat_natCast,
      Int.natCast_nonneg, and_self, if_true, true_and] <;>
    rfl

/-- Non-vacuity: a 2×1 gray image whose data is `A CR`, written with a bare LF before `EI`. -/
example : (match processID (writerObjs ⟨false, true, true, false, true⟩ .gray8 2 1) ([65, 13] ++ [10] ++ EI ++ 32 :: [81]) with
    | .ok p => some (p.data, p.pushEI, p.consumed, inlineSize p.dict)
    | .error _ => none) = some ([65, 13], true, 6, some 2) := by
  decide +kernel

/-! ## Round 6 — the end-marker scan on every byte string -/

/-- **inline_scan_total.** The exact rule, for EVERY input (payloads that contain `EI` bytes included) and every
    size hint: when `get_inline_data` returns `(d, n)` it has consumed `n ≤ |input|` bytes; these are `body E I ws`
    with `ws` a white-space byte — or the whole input `body E I` when the marker is the last token —, the result is
    what `finish` makes of `body` (cut at the hinted size when exactly one end-of-line follows it, else strip one
    end-of-line), and the data is a prefix of `body`: nothing is ever invented, and `input.drop n` — the operators
    after the image — is left for the parser untouched. -/
theorem C18_inline_scan_total (L : Option Nat) (input d : Bytes) (n : Nat)
    (h : getInlineDataLen EI L input = some (d, n)) :
    n ≤ input.length ∧ ∃ body,
      ((∃ ws, isSpace ws = true ∧ input.take n = body ++ [69, 73, ws]) ∨ (n = input.length ∧ input = body ++ [69, 73])) ∧
      finish L body n = some (d, n) ∧ d <+: body := by
  unfold getInlineDataLen at h
  cases hs : scan EI 0 input 0 with
  | none => simp [hs] at h
  | some r =>
    obtain ⟨m, eof⟩ := r
    obtain ⟨k, hk1, hk2, hk3, hk4⟩ := scan_sound input 0 [] 0 m eof (by decide)
      ⟨fun h => absurd h (by decide), fun h => absurd h (by decide)⟩ hs
    simp only [Nat.zero_add] at hk1
    subst hk1
    simp only [hs, EI_length] at h
    cases eof with
    | false =>
      obtain ⟨pre, ws, hws, hpre⟩ := hk3 rfl
      simp only [List.nil_append] at hpre
      have hbody : (input.take m).take ((input.take m).length - (2 + 1)) = pre := by
        rw [hpre]
        have : (pre ++ [69, 73, ws]).length - (2 + 1) = pre.length := by simp
        rw [this, List.take_left]
      simp only [Bool.false_eq_true, if_false, hbody] at h
      have hfin : finish L pre m = some (d, n) := by
        rw [← h]; cases L <;> rfl
      obtain ⟨hpf, hmn⟩ := finish_prefix L pre d m n hfin
      subst hmn
      exact ⟨hk2, pre, Or.inl ⟨ws, hws, hpre⟩, hfin, hpf⟩
    | true =>
      obtain ⟨hkl, pre, hpre⟩ := hk4 rfl
      simp only [List.nil_append] at hpre
      subst hkl
      have hbody : (input.take input.length).take ((input.take input.length).length - (2 + 0)) = pre := by
        rw [List.take_length, hpre]
        have : (pre ++ [69, 73]).length - (2 + 0) = pre.length := by simp
        rw [this, List.take_left]
      simp only [if_true, hbody] at h
      have hfin : finish L pre input.length = some (d, n) := by
        rw [← h]; cases L <;> rfl
      obtain ⟨hpf, hmn⟩ := finish_prefix L pre d _ n hfin
      subst hmn
      exact ⟨Nat.le_refl _, pre, Or.inr ⟨rfl, hpre⟩, hfin, hpf⟩

/-- Non-vacuity, with a payload that contains the bytes `EI` (followed by `x`, so no marker) and ends in `E`. -/
example : getInlineDataLen EI none [1, 69, 73, 120, 69, 10, 69, 73, 32, 81] = some ([1, 69, 73, 120, 69], 9) := by
  decide +kernel

/-- **inline_scan_ws_rule.** Which `EI` ends the data: for a payload-with-separator `body` that contains no
    `EI`+white space and whose last byte is neither `E` nor `I` — any separator will do: blank, tab, LF, CR, NUL, or
    none at all after such a data byte — the scanner stops right after the `EI ws` that follows.  (Generalises
    `C18_inline_scan` from the three end-of-line forms to every separator.) -/
theorem C18_inline_scan_ws_rule (L : Option Nat) (body rest : Bytes) (ws : UInt8) (hws : isSpace ws = true)
    (hno : NoMarker body) (hlast : ∀ c, body.getLast? = some c → c ≠ 69 ∧ c ≠ 73) :
    getInlineDataLen EI L (body ++ EI ++ ws :: rest) = finish L body (body.length + 3) := by
  have hp := scan_prefix body 0 [] (EI ++ ws :: rest) 0 (by decide)
    ⟨fun h => absurd h (by decide), fun h => absurd h (by decide)⟩ (by simpa using hno)
  obtain ⟨hscan, _, _⟩ := hp
  have hzero := run_zero_of_last body hno hlast
  unfold getInlineDataLen
  have hinput : body ++ EI ++ ws :: rest = body ++ (EI ++ ws :: rest) := by simp
  rw [hinput, hscan, hzero]
  have : EI ++ ws :: rest = 69 :: 73 :: ws :: rest := rfl
  rw [this, scan_marker ws rest _ hws]
  simp only [Nat.zero_add, EI_length, Bool.false_eq_true, if_false]
  have htake : List.take (body.length + 3) (body ++ 69 :: 73 :: ws :: rest) = body ++ [69, 73, ws] := by
    have : body ++ 69 :: 73 :: ws :: rest = (body ++ [69, 73, ws]) ++ rest := by simp
    rw [this]
    have hl : body.length + 3 = (body ++ [69, 73, ws]).length := by simp
    rw [hl, List.take_left]
  rw [htake]
  have : (body ++ [69, 73, ws]).length - (2 + 1) = body.length := by simp
  rw [this, List.take_left]
  cases L <;> rfl

example : getInlineDataLen EI none ([7, 8, 32] ++ EI ++ 9 :: [81]) = some ([7, 8, 32], 6) := by decide +kernel

/-- **inline_scan_pseof.** Input without `EI`+white space that does not end in `EI` either: PSEOF (the image is
    dropped by the caller), for every size hint. -/
theorem C18_inline_scan_pseof (L : Option Nat) (input : Bytes) (hno : NoMarker input)
    (hend : ¬ ∃ pre, input = pre ++ [69, 73]) : getInlineDataLen EI L input = none := by
  have hp := scan_prefix input 0 [] [] 0 (by decide)
    ⟨fun h => absurd h (by decide), fun h => absurd h (by decide)⟩ (by simpa using hno)
  obtain ⟨hscan, hinv, _⟩ := hp
  unfold getInlineDataLen
  simp only [List.append_nil] at hscan
  rw [hscan]
  have : scan EI (run 0 input) [] (0 + input.length) = none := by
    simp only [scan]
    rw [if_neg]
    intro h2
    exact hend (by simpa using hinv.1 h2)
  rw [this]

example : getInlineDataLen EI (some 2) [1, 2, 10, 69, 73] ≠ none ∧ getInlineDataLen EI (some 2) [1, 2, 10, 69] = none := by
  decide +kernel

/-- The limit of the rule (why `hlast` is there): the automaton does not restart on `E`, so an `E` directly in
    front of `EI` hides the marker — `E E I ␣` is scanned to the end without a match. -/
theorem C18_inline_scan_norestart_cex : getInlineDataLen EI none [69, 69, 73, 32] = none ∧
    getInlineDataLen EI none [69, 10, 69, 73, 32] = some ([69], 5) := by decide +kernel

/-! ## Round 6 — abbreviations of inline-image keys and values (ISO 32000-1 tables 93 and 94) -/

/-- Table 94, filter names: (abbreviation, full name). -/
def iso94Filters : List (Bytes × Bytes) :=
  [([65, 72, 120], [65, 83, 67, 73, 73, 72, 101, 120, 68, 101, 99, 111, 100, 101]),
   ([65, 56, 53], [65, 83, 67, 73, 73, 56, 53, 68, 101, 99, 111, 100, 101]),
   ([76, 90, 87], [76, 90, 87, 68, 101, 99, 111, 100, 101]),
   ([70, 108], [70, 108, 97, 116, 101, 68, 101, 99, 111, 100, 101]),
   ([82, 76], [82, 117, 110, 76, 101, 110, 103, 116, 104, 68, 101, 99, 111, 100, 101]),
   ([67, 67, 70], [67, 67, 73, 84, 84, 70, 97, 120, 68, 101, 99, 111, 100, 101]),
   ([68, 67, 84], [68, 67, 84, 68, 101, 99, 111, 100, 101])]

/-- Table 94, colour space names an inline image may use directly: (abbreviation, full name). -/
def iso94ColorSpaces : List (Bytes × Bytes) :=
  [([71], [68, 101, 118, 105, 99, 101, 71, 114, 97, 121]),
   ([82, 71, 66], [68, 101, 118, 105, 99, 101, 82, 71, 66]),
   ([67, 77, 89, 75], [68, 101, 118, 105, 99, 101, 67, 77, 89, 75]),
   ([73], [73, 110, 100, 101, 120, 101, 100])]

/-- **abbrev_tables.** Every pair of table 93 that the image plumbing reads — W/Width, H/Height,
    BPC/BitsPerComponent, CS/ColorSpace, IM/ImageMask (`LTImage.__init__`), F/Filter, DP/DecodeParms
    (`PDFStream.get_filters`), F/Filter for the end marker (`do_keyword`, after the round-6 `fix:`) — is accepted in
    both spellings, abbreviation first: the key tuples REGENERATED from the Python source are exactly the pairs the
    model (`InlineDict.getAny d [kW, kWidth]` …) uses.  Every filter pair of table 94 is recognised under both names
    by one `LITERALS_*_DECODE` tuple, every colour space pair has the same component count under both names, and the
    colour space literals `export_image` compares with are the model's.  (D/Decode and I/Interpolate are never read.) -/
theorem C18_abbrev_tables :
    keysWidth = [kW, kWidth] ∧ keysHeight = [kH, kHeight] ∧ keysBits = [kBPC, kBitsPerComponent] ∧
    keysColorSpace = [kCS, kColorSpace] ∧ keysImageMask = [kIM, kImageMask] ∧ keysFilter = [kF, kFilter] ∧
    keysEosFilter = [kF, kFilter] ∧ [[68, 80], [68, 101, 99, 111, 100, 101, 80, 97, 114, 109, 115]] <+: keysDecodeParms ∧
    (∀ p ∈ iso94Filters, ∃ row ∈ filterNames, p.1 ∈ row ∧ p.2 ∈ row) ∧
    (∀ p ∈ iso94ColorSpaces, componentsOf p.1 = componentsOf p.2 ∧ (componentsOf p.1).isSome = true) ∧
    litInlineGray = nG ∧ litInlineRGB = nRGB ∧ litDeviceGray = nDeviceGray ∧ litDeviceRGB = nDeviceRGB ∧
    litDeviceCMYK = nDeviceCMYK := by
  refine ⟨by decide, by decide, by decide, by decide, by decide, by decide, by decide, by decide, by decide, by decide,
    by decide, by decide, by decide, by decide, by decide⟩

/-- The end marker does not depend on the spelling of the key: `/F` and `/Filter`, a name or an array starting with
    a name, give the same marker (no `/F` entry elsewhere in the dictionary). -/
theorem C18_eos_both_keys (f : Bytes) (rest : List Val) (d : Dict)
    (h1 : lookup d kF = none) :
    eosOf ((kFilter, .name f) :: d) = eosOf ((kF, .name f) :: d) ∧
    eosOf ((kFilter, .arr (.name f :: rest)) :: d) = eosOf ((kF, .arr (.name f :: rest)) :: d) := by
  have hne : (kFilter == kF) = false := by decide
  have l1 : ∀ v, lookup ((kFilter, v) :: d) kF = none := by
    intro v; simp only [lookup, List.find?_cons, hne] at h1 ⊢; exact h1
  have l2 : ∀ v, lookup ((kFilter, v) :: d) kFilter = some v := by
    intro v; simp [lookup]
  have l3 : ∀ v, lookup ((kF, v) :: d) kF = some v := by
    intro v; simp [lookup]
  have hk : keysEosFilter = [kF, kFilter] := rfl
  constructor <;> simp only [eosOf, hk, getAny, l1, l2, l3]

example : eosOf [(kFilter, .name nASCII85Decode)] = .ok [126, 62] ∧ eosOf [(kF, .name nA85)] = .ok [126, 62] ∧
    eosOf [(kFilter, .arr [.name nA85, .name [70, 108]])] = .ok [126, 62] ∧ eosOf [(kFilter, .name [70, 108])] = .ok [69, 73] := by
  refine ⟨?_, ?_, ?_, ?_⟩ <;> rfl

/-! ## Round 6c — the `LTImage` fields of an inline image, for every dictionary -/

/-- Table 93 semantics of one entry: the value under the abbreviated key if there is one, else under the full key. -/
def pick (d : Dict) (abbr full : Bytes) : Option Val :=
  match lookup d abbr with
  | some v => some v
  | none => lookup d full

/-- **ltimage_fields.** For EVERY inline image dictionary (any keys, any values, both spellings present or not):
    `do_EI` passes the image on iff a width (`W`, else `Width`) and a height (`H`, else `Height`) are present, and then
    `LTImage` gets srcsize = those two values, bits = `BPC` else `BitsPerComponent` else 1, colorspace = the array's
    elements, or the single value, or `[None]`, imagemask = `IM` else `ImageMask` else `None` — the abbreviated key wins
    over the full one whenever both are present.  (The key tuples are the regenerated ones of `do_EI` / `LTImage.__init__`.) -/
theorem C18_ltimage_fields (d : Dict) :
    doEI d = match pick d kW kWidth, pick d kH kHeight with
      | some w, some h =>
        some { srcW := w, srcH := h,
               bits := (pick d kBPC kBitsPerComponent).getD (.int 1),
               colorspace := match pick d kCS kColorSpace with
                 | some (.arr xs) => xs.map some
                 | some v => [some v]
                 | none => [none],
               imagemask := pick d kIM kImageMask }
      | _, _ => none := by
  have hp : ∀ a f, getAny d [a, f] = pick d a f := by
    intro a f
    simp only [getAny, pick]
    cases lookup d a <;> cases lookup d f <;> rfl
  have e1 : doEIKeysWidth = [kW, kWidth] := rfl
  have e2 : doEIKeysHeight = [kH, kHeight] := rfl
  have e3 : keysWidth = [kW, kWidth] := rfl
  have e4 : keysHeight = [kH, kHeight] := rfl
  have e5 : keysBits = [kBPC, kBitsPerComponent] := rfl
  have e6 : keysColorSpace = [kCS, kColorSpace] := rfl
  have e7 : keysImageMask = [kIM, kImageMask] := rfl
  unfold doEI
  rw [e1, e2, e3, e4, e5, e6, e7]
  simp only [hp]
  cases pick d kW kWidth <;> cases pick d kH kHeight <;> rfl

/-- Non-vacuity: both spellings of the width present (`/Width 9 /W 4`): the abbreviation wins; no BPC: 1; `/CS [/I /RGB 1 s]`. -/
example : doEI [(kWidth, .int 9), (kW, .int 4), (kHeight, .int 2), (kCS, .arr [.name [73], .name nRGB, .int 1, .str])] =
    some { srcW := .int 4, srcH := .int 2, bits := .int 1,
           colorspace := [some (.name [73]), some (.name nRGB), some (.int 1), some .str], imagemask := none } := by
  rfl

/-- **assemble_last_wins.** For EVERY run of `/key value` operands between `BI` and `ID` (any keys — abbreviated, full,
    unknown, repeated — and any values): the dictionary `do_keyword` builds exists, and a key's value is that of the
    LAST pair carrying the key; so an entry of table 93 resolves to the last value under the abbreviated key if that
    key occurs at all, else to the last value under the full key. -/
theorem C18_assemble_last_wins (ps : List (Bytes × Val)) :
    ∃ d, assemble (objsOf ps) = .ok d ∧ (∀ k, lookup d k = lastVal ps k) ∧
      ∀ a f, pick d a f = match lastVal ps a with
        | some v => some v
        | none => lastVal ps f := by
  refine ⟨ps.foldl (fun d p => dictSet d p.1 p.2) [], ?_, ?_, ?_⟩
  · unfold assemble
    rw [length_objsOf]
    have : (2 * ps.length % 2 != 0) = false := by simp
    rw [this]
    simp only [Bool.false_eq_true, if_false]
    exact assembleFrom_objsOf ps []
  · intro k
    rw [lookup_foldl]
    cases lastVal ps k <;> rfl
  · intro a f
    simp only [pick, lookup_foldl, lookup_nil]
    cases lastVal ps a <;> cases lastVal ps f <;> rfl

/-- Non-vacuity: `/W 1 /Width 9 /W 4 /H 2 /Height 7 /H 3` — the image is 4 × 3. -/
example : (assemble (objsOf [(kW, .int 1), (kWidth, .int 9), (kW, .int 4), (kH, .int 2), (kHeight, .int 7), (kH, .int 3)])).toOption.bind
      (fun d => (doEI d).map (fun f => (f.srcW, f.srcH))) = some (.int 4, .int 3) := by
  rfl

/-! ## Round 6 — the branch selection of `export_image` as a decision table -/

/-- One row of the decision table: an order-free condition on (plausibility, filters, bits, colour space) for each
    of the nine branches.  `enc` = the data stays encoded (DCT / JPX last, or JBIG2 anywhere), `bm` = a bitmap kind. -/
def Row (b : Branch) (im : ImgIn) : Prop :=
  let pl := plausible im.w im.h im.bits = true
  let last := im.filters.getLast?
  let enc := last = some Flt.dct ∨ last = some Flt.jpx ∨ Flt.jbig2 ∈ im.filters
  let bm := im.bits = 1 ∨ (im.bits = 8 ∧ (isRGB im.cs = true ∨ isGray im.cs = true))
  match b with
  | .undecoded => ¬ pl
  | .jpeg => pl ∧ last = some Flt.dct
  | .jpx => pl ∧ last = some Flt.jpx
  | .jbig2 => pl ∧ last ≠ some Flt.dct ∧ last ≠ some Flt.jpx ∧ Flt.jbig2 ∈ im.filters
  | .bmp1 => pl ∧ ¬ enc ∧ im.bits = 1
  | .bmp24 => pl ∧ ¬ enc ∧ im.bits = 8 ∧ isRGB im.cs = true
  | .bmp8 => pl ∧ ¬ enc ∧ im.bits = 8 ∧ isRGB im.cs = false ∧ isGray im.cs = true
  | .bytes => pl ∧ ¬ enc ∧ ¬ bm ∧ im.filters = [Flt.flate]
  | .raw => pl ∧ ¬ enc ∧ ¬ bm ∧ im.filters ≠ [Flt.flate]

/-- **branch_table.** The table is total and its rows are pairwise disjoint: for every image exactly one row
    holds, and it is the row of the branch the `if … elif` chain of `export_image` takes. -/
theorem C18_branch_table (im : ImgIn) : Row (branchOf im) im ∧ ∀ b, Row b im → b = branchOf im := by
  unfold branchOf
  repeat' split
  all_goals
    refine ⟨by simp_all [Row], fun b hb => ?_⟩
    cases b <;> simp_all [Row]

/-- **export_by_branch.** `export_image` is "select the branch, then do what that branch does": extension, content
    and the `(bytes_per_line, bits)` arguments of the bitmap writer are functions of the selected row alone. -/
theorem C18_export_by_branch (im : ImgIn) (existing : List Bytes) :
    exportImage im existing = exportBranch (branchOf im) im existing := by
  unfold exportImage branchOf
  repeat' split
  all_goals simp_all [exportBranch, bmpArgsOf]

/-- Non-vacuity: one image per row. -/
example : (([⟨[], .gray, false, 64, 1, 1, [], []⟩, ⟨[.flate, .dct], .rgb, false, 8, 1, 1, [], []⟩,
      ⟨[.jpx], .rgb, false, 8, 1, 1, [], []⟩, ⟨[.jbig2], .gray, false, 1, 1, 1, [], []⟩,
      ⟨[.lzw], .other, false, 1, 9, 1, [], []⟩, ⟨[], .inlRgb, false, 8, 2, 1, [], []⟩,
      ⟨[.a85], .gray, false, 8, 2, 1, [], []⟩, ⟨[.flate], .cmyk, false, 8, 1, 1, [], []⟩,
      ⟨[], .none, false, 4, 1, 1, [], []⟩] : List ImgIn).map branchOf) =
    [.undecoded, .jpeg, .jpx, .jbig2, .bmp1, .bmp24, .bmp8, .bytes, .raw] := by decide +kernel

end PdfVerif.Props.C18
