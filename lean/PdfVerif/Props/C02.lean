/-
C02 — Cross-reference resolution: newest definition wins, in every physical form.

Property theorems only (helper lemmas: `Lemmas/Xref.lean`, `Lemmas/XrefBytes.lean`).
Histories are NEWEST FIRST.  `Rep whole objs secs whole` says that the loaded sections `secs`
(newest first, as `read_xref_from` chains them: table → XRefStm → Prev) together with the object
store `objs` represent the history `whole`, one section per (sub-)revision; its executable form
`repOK` is evaluated by the harness on the description of every file handed to pdfminer.
-/
import PdfVerif.Lemmas.Xref
import PdfVerif.Lemmas.XrefBytes
import PdfVerif.Lemmas.XrefTable
import PdfVerif.Lemmas.XrefScan
import PdfVerif.Lemmas.XrefFind
import PdfVerif.Lemmas.XrefHist
import PdfVerif.Lemmas.XrefChain
import PdfVerif.Lemmas.XrefLists

namespace PdfVerif.Props.C02

open PdfVerif PdfVerif.Xref PdfVerif.Gen.Xref

/-! ## Newest definition wins -/

/-- `getobj` (newest-first search with fall-through and object-stream members at `2·N + index`)
returns, for EVERY object number, the value given by the most recent revision defining it, and
`PDFObjectNotFound` when no revision defines it — for any number of revisions and any mix of
table / stream sections and direct / compressed objects. Proved by induction over the revisions. -/
theorem C02_newest_wins {whole : History} {objs : List (Nat × Nat × Nat × Val)} {secs : List Section}
    (h : Rep whole objs secs whole) (n : Nat) :
    getobj objs secs n = specGetobj whole n :=
  getobjF_spec h (getobjFuel - 2) n

/-- The same with the executable hypothesis the harness checks per file. -/
theorem C02_newest_wins_checked {whole : History} {objs : List (Nat × Nat × Nat × Val)} {secs : List Section}
    {bound : Nat} (h : repOK objs bound secs whole = true) (n : Nat) :
    getobj objs secs n = specGetobj whole n :=
  C02_newest_wins (rep_of_alignedOK h) n

/-- The fuel that bounds the nesting of container look-ups is never exhausted on a represented
history: two levels suffice (object streams are stored directly). -/
theorem C02_getobj_fuel {whole : History} {objs : List (Nat × Nat × Nat × Val)} {secs : List Section}
    (h : Rep whole objs secs whole) (f n : Nat) :
    getobjF objs secs (f + 2) [] n = getobjF objs secs 2 [] n := by
  rw [getobjF_spec h f n, getobjF_spec h 0 n]

/-- Catalog and Info are the newest revision's Root / Info objects, resolved newest-first. -/
theorem C02_catalog_info {r : Revision} {older : History} {objs : List (Nat × Nat × Nat × Val)}
    {secs : List Section} (h : Rep (r :: older) objs secs (r :: older)) :
    getobj objs secs r.root = specGetobj (r :: older) r.root ∧
    ∀ i, r.info = some i → getobj objs secs i = specGetobj (r :: older) i :=
  ⟨C02_newest_wins h _, fun i _ => C02_newest_wins h i⟩

/-- Splitting a hybrid revision into its table part (searched first) and its stream part does
not change what the history means. -/
theorem C02_hybrid_split (a b : List (Nat × Val)) (root : Nat) (info : Option Nat) (older : History) (n : Nat) :
    resolve (⟨a ++ b, root, info⟩ :: older) n = resolve (⟨a, root, info⟩ :: ⟨b, root, info⟩ :: older) n := by
  simp only [resolve, Revision.lookup, lookupNat_append]
  cases lookupNat a n <;> rfl

/-- Form independence: two files whose sections represent histories with the same meaning give
the same answer for every object number, whatever physical form each revision uses. -/
theorem C02_form_independent {h1 h2 : History} {objs1 objs2 : List (Nat × Nat × Nat × Val)}
    {secs1 secs2 : List Section} (r1 : Rep h1 objs1 secs1 h1) (r2 : Rep h2 objs2 secs2 h2)
    (n : Nat) (same : resolve h1 n = resolve h2 n) :
    getobj objs1 secs1 n = getobj objs2 secs2 n := by
  rw [C02_newest_wins r1, C02_newest_wins r2]
  unfold specGetobj
  rw [same]

/-! ## The object cache is transparent -/

/-- Any sequence of `getobj` calls on one document gives, with `caching=True` (`_cached_objs`
filled along the way, container look-ups included), exactly the answers of `caching=False`.
Invariant: every cached pair lies in the graph of `resolve`. -/
theorem C02_cache_transparent {whole : History} {objs : List (Nat × Nat × Nat × Val)} {secs : List Section}
    (h : Rep whole objs secs whole) (qs : List Nat) :
    queriesC objs secs qs [] = qs.map (getobj objs secs) := by
  rw [queriesC_spec h qs [] (cacheOK_nil whole)]
  apply List.map_congr_left
  intro n _
  exact (C02_newest_wins h n).symm

/-! ## Cross-reference stream rows (`W`, multi-range `/Index`) -/

/-- `get_pos` on the encoded rows: for ANY number of `/Index` ranges and any field widths
(0 included, with the `nunpack` defaults), the entry of object `n` is the row that the
range-by-range reading of `/Index` assigns to `n`. -/
theorem C02_xrefstm_entry (ranges : List (Nat × Nat)) (w1 w2 w3 : Nat) (rows : List Row)
    (hf : ∀ r ∈ rows, FitsRow w1 w2 w3 r) (hlen : sumCounts ranges ≤ rows.length) (n : Nat) :
    (XStream.mk ranges w1 w2 w3 (encodeRows w1 w2 w3 rows)).getPos n =
      (rowSpec ranges rows n).bind rowEntry := by
  have hspec := findIndex_rowSpec ranges rows n 0
  simp only [List.drop_zero] at hspec
  rw [← hspec]
  simp only [XStream.getPos, indexStart_eq]
  cases hi : findIndex ranges n 0 with
  | none => simp
  | some i =>
    have hlt : i < rows.length := by
      have := findIndex_lt ranges n 0 i hi
      omega
    have hget : rows[i]? = some rows[i] := List.getElem?_eq_getElem hlt
    simp only [Option.bind_some, hget]
    rw [row_encodeRows ranges w1 w2 w3 rows i _ hget (hf _ (List.getElem_mem hlt))]

/-- `get_objids` (repaired: running row index) reports exactly the numbers whose row is of type
1 or 2, range by range — the in-use numbers of the section. -/
theorem C02_xrefstm_objids (ranges : List (Nat × Nat)) (w1 w2 w3 : Nat) (rows : List Row)
    (hf : ∀ r ∈ rows, FitsRow w1 w2 w3 r) (hpos : 0 < w1 + w2 + w3) (hlen : sumCounts ranges ≤ rows.length) :
    (XStream.mk ranges w1 w2 w3 (encodeRows w1 w2 w3 rows)).getObjids = objidsSpec ranges rows := by
  have := objidsAux_spec ranges w1 w2 w3 rows hf hpos ranges 0 (by omega)
  simpa [XStream.getObjids] using this

/-- The pinned `get_objids` (row index restarted per range) is wrong on `Index [0 1 5 2]` with a
free row 0: it reports `{6}` (twice wrong) where the section defines `{5, 6}`. -/
theorem C02_objids_pinned_cex :
    let rows : List Row := [(0, 0, 255), (1, 100, 0), (1, 200, 0)]
    let x : XStream := ⟨[(0, 1), (5, 2)], 1, 2, 1, encodeRows 1 2 1 rows⟩
    objidsPinned x x.ranges = [6] ∧ objidsSpec x.ranges rows = [5, 6] ∧ x.getObjids = [5, 6] := by
  decide

example : FitsRow 0 2 0 (1, 515, 0) := ⟨Or.inl ⟨rfl, by decide⟩, Or.inr ⟨by decide, by decide⟩, Or.inl ⟨rfl, by decide⟩⟩

example : (XStream.mk [(3, 1), (7, 2)] 0 2 0 (encodeRows 0 2 0 [(1, 515, 0), (1, 9, 0), (1, 300, 0)])).getPos 8
    = some ⟨none, 300, 0⟩ := by decide

/-! ## The regenerated fragments mean what ISO 32000-1 says

`Gen/Xref.lean` is rewritten from the Python source on every run; these theorems fail to check
when one of the translated fragments changes its meaning. -/

/-- The `if f1 == 1 … elif f1 == 2 …` chain of `get_pos` is Table 18 of ISO 32000-1. -/
theorem C02_row_types (r : Nat × Nat × Nat) : rowEntry r = specRowEntry r := by
  obtain ⟨t, a, b⟩ := r
  match t with
  | 0 => rfl
  | 1 => rfl
  | 2 => rfl
  | n + 3 => simp [rowEntry, entryOfRow, specRowEntry]

/-- `get_objids` counts exactly the row types that `get_pos` resolves. -/
theorem C02_inuse_types (t a b : Nat) : inUseType t = (specRowEntry (t, a, b)).isSome := by
  match t with
  | 0 => rfl
  | 1 => rfl
  | 2 => rfl
  | n + 3 => simp [inUseType, specRowEntry]

/-- Member `index` of an object stream with `N` members stands after the `N` pairs of integers. -/
theorem C02_objstm_index (n index : Nat) : objstmIndex n index = 2 * n + index := by
  simp [objstmIndex]; omega

/-- Field defaults (7.5.8.2: a zero-width type field means type 1; other fields default to 0), the
`/Index` default `[0 Size]`, and both readers of the type field agree. -/
theorem C02_defaults (size : Nat) :
    typeDefault = 1 ∧ field2Default = 0 ∧ field3Default = 0 ∧ objidsTypeDefault = typeDefault ∧
    defaultIndex size = [0, size] ∧ widthsArity = 3 ∧
    (∀ a b c, zeroLengthRows a b c = true ↔ a + b + c = 0) ∧
    (∀ off len, rowInData off len = true ↔ off < len) := by
  refine ⟨rfl, rfl, rfl, rfl, rfl, rfl, ?_, ?_⟩
  · intro a b c; simp [zeroLengthRows]
  · intro off len; simp [rowInData]

/-- Row addressing regenerated from `PDFXRefStream.load/get_pos/get_objids` means ISO 32000-1
7.5.8.2–3: rows of `W1 + W2 + W3` bytes stored back to back, row `i` at `entlen · i`, the three
fields cut in order; both readers address rows the same way; the `/Index` walk starts at row 0,
a range `[s, s + c)` holding `n` gives row `acc + (n − s)`, any other range skips `c` rows. -/
theorem C02_row_layout :
    (∀ a b c, entlenOf a b c = a + b + c) ∧
    (∀ e i, rowOffset e i = e * i ∧ objidsRowOffset e i = e * i) ∧
    (∀ d off len, rowBytes d off len = (d.drop off).take len ∧ objidsRowBytes d off len = (d.drop off).take len) ∧
    (∀ ent a b c, field1 ent a b c = ent.take a ∧ field2 ent a b c = (ent.drop a).take b ∧
      field3 ent a b c = ent.drop (a + b) ∧ objidsField1 ent a b c = ent.take a) ∧
    indexStart = 0 ∧
    (∀ s c n, inRange s c n = true ↔ s ≤ n ∧ n < s + c) ∧
    (∀ acc s c n, indexHit acc s c n = acc + (n - s) ∧ indexMiss acc s c n = acc + c) := by
  refine ⟨fun _ _ _ => rfl, fun _ _ => ⟨rfl, rfl⟩, ?_, ?_, rfl, ?_, fun _ _ _ _ => ⟨rfl, rfl⟩⟩
  · intro d off len
    exact ⟨pySlice_window d off len, pySlice_window d off len⟩
  · intro ent a b c
    refine ⟨pySlice_prefix ent a, ?_, rfl, pySlice_prefix ent a⟩
    exact pySlice_window ent a b
  · intro s c n
    simp [inRange]

/-- `W = [1 2 1]`, row 1 of the data `00 0000 ff | 01 0123 00`: type 1, offset 0x0123, generation 0;
object 7 in `/Index [3 2 7 4]` is row 2 + 0. -/
example : (XStream.mk [(3, 2), (7, 4)] 1 2 1 [0, 0, 0, 255, 1, 1, 35, 0]).row 1 = (1, 291, 0) ∧
    findIndex [(3, 2), (7, 4)] 7 indexStart = some 2 ∧ findIndex [(3, 2), (7, 4)] 5 indexStart = none := by
  decide

/-- Entry lines of the classic table regenerated from `PDFXRef.load` mean ISO 32000-1 7.5.4:
`nnnnnnnnnn ggggg n` — first field the byte offset, second the generation, third the keyword; the stored
tuple is `(None, offset, generation)`; a subsection `start count` numbers its lines `start … start+count−1`. -/
theorem C02_table_entry_layout :
    (∀ a b c : Bytes, entryTuple a b c = (a, b, c)) ∧
    (∀ p g, mkEntry (tableEntryOf p g) = ⟨none, p, g⟩) ∧
    (∀ s n : Int, subsectionFirst s n = s ∧ subsectionStop s n = s + n ∧ subCount s n = n.toNat) := by
  refine ⟨fun _ _ _ => rfl, fun _ _ => rfl, fun s n => ⟨rfl, rfl, subCount_eq s n⟩⟩

/-- `0000000017 00003 n` as object 7: offset 17, generation 3. -/
example : (match tableEntries 1 7 [48, 48, 48, 48, 48, 48, 48, 48, 49, 55, 32, 48, 48, 48, 48, 51, 32, 110, 32, 10] 0 [] with
    | .ok (offs, rest, pos) => offs == [((7 : Int), (⟨none, 17, 3⟩ : Entry))] && rest.isEmpty && pos == 20
    | .error _ => false) = true := by decide

/-- Keywords and field shapes of the classic table, and the chaining order (7.5.8.4: the
table of a hybrid file is consulted first, then its `XRefStm`, then `Prev`). -/
theorem C02_literals :
    kwTrailer = "trailer".toList.map (fun c => c.toNat.toUInt8) ∧
    kwStartxref = "startxref".toList.map (fun c => c.toNat.toUInt8) ∧
    inUseMarker = [110] ∧ fieldSep = 32 ∧ headerFields = 2 ∧ entryFields = 3 ∧
    chainOrder = ["XRefStm", "Prev"] := by
  decide

/-! ## Loaders invert the writers, byte for byte -/

/-- `table_load`: `read_xref_from` + `PDFXRef.load` on the text of ANY classic table
(any number of subsections, any entries, every EOL style of header and entry lines, `trailer`
alone or followed by the dictionary on its line) returns exactly the in-use entries written
— `f` lines skipped, numbering `start + i` — and stops on the `trailer` line. -/
theorem C02_table_load (pre post : Bytes) (eol : LineEol) (ee : EntEol) (subs : List Sub)
    (hf : ∀ sb ∈ subs, SubFits sb) (hpost : TrailerLine post) :
    tableLoad (pre ++ (eol.bytes ++ (renderTable eol ee subs ++ (kwTrailer ++ post)))) pre.length =
      .ok (insSubs subs [], pre.length + eol.bytes.length + (renderTable eol ee subs).length) :=
  tableLoad_renderTable pre post eol ee subs hf hpost

/-- …and `get_pos` on the loaded table answers with the last in-use line written for `n`. -/
theorem C02_table_lookup (subs : List Sub) (n : Nat) :
    (Section.table (insSubs subs [])).getPos n = specSubs subs (n : Int) none := by
  simp [Section.getPos, lookup_insSubs, lookupOff]

/-- The `trailer` keyword line as the writer emits it satisfies `TrailerLine`. -/
theorem C02_trailer_line (eol : LineEol) (mid y : Bytes) (hm : noEol mid) (hy : StartsNonLF y) :
    TrailerLine (mid ++ (eol.bytes ++ y)) := trailerLine_eol eol mid y hm hy

def flattenRanges : List (Nat × Nat) → List Nat
  | [] => []
  | (s, c) :: rest => s :: c :: flattenRanges rest

theorem choplist2_flatten (ranges : List (Nat × Nat)) : choplist2 (flattenRanges ranges) = ranges := by
  induction ranges with
  | nil => rfl
  | cons r rest ih => obtain ⟨s, c⟩ := r; simp [flattenRanges, choplist2, ih]

theorem flatten_even (ranges : List (Nat × Nat)) : (flattenRanges ranges).length % 2 = 0 := by
  induction ranges with
  | nil => rfl
  | cons r rest ih => obtain ⟨s, c⟩ := r; simp [flattenRanges]; omega

/-- `stream_load`: `PDFXRefStream.load` + `get_pos` + `get_objids` on the dictionary entries
`/W [w1 w2 w3]`, `/Index` (any number of ranges) and the encoded rows give back the written rows,
end to end. -/
theorem C02_stream_load (size : Nat) (ranges : List (Nat × Nat)) (w1 w2 w3 : Nat) (rows : List Row)
    (hf : ∀ r ∈ rows, FitsRow w1 w2 w3 r) (hpos : 0 < w1 + w2 + w3) (hlen : sumCounts ranges ≤ rows.length) :
    ∃ x, xsLoad size (some (flattenRanges ranges)) [w1, w2, w3] (encodeRows w1 w2 w3 rows) = .ok x ∧
      (∀ n, x.getPos n = (rowSpec ranges rows n).bind specRowEntry) ∧
      x.getObjids = objidsSpec ranges rows := by
  refine ⟨⟨ranges, w1, w2, w3, encodeRows w1 w2 w3 rows⟩, ?_, ?_, ?_⟩
  · have h := flatten_even ranges
    have hz : ¬ (w1 + w2 + w3 = 0) := by omega
    simp [xsLoad, choplist2_flatten, h, widthsArity, zeroLengthRows]
    omega
  · intro n
    rw [C02_xrefstm_entry ranges w1 w2 w3 rows hf hlen n]
    congr 1
    funext r
    exact C02_row_types r
  · exact C02_xrefstm_objids ranges w1 w2 w3 rows hf hpos hlen

/-- Without `/Index` the rows are those of objects `0 … Size-1`. -/
theorem C02_stream_load_default (size w1 w2 w3 : Nat) (rows : List Row)
    (hf : ∀ r ∈ rows, FitsRow w1 w2 w3 r) (hpos : 0 < w1 + w2 + w3) (hlen : size ≤ rows.length) (n : Nat) :
    ∃ x, xsLoad size none [w1, w2, w3] (encodeRows w1 w2 w3 rows) = .ok x ∧
      x.getPos n = (if n < size then rows[n]? else none).bind specRowEntry := by
  refine ⟨⟨[(0, size)], w1, w2, w3, encodeRows w1 w2 w3 rows⟩, ?_, ?_⟩
  · have hz : ¬ (w1 + w2 + w3 = 0) := by omega
    simp [xsLoad, defaultIndex, choplist2, widthsArity, zeroLengthRows]
    omega
  · rw [C02_xrefstm_entry [(0, size)] w1 w2 w3 rows hf (by simp [sumCounts]; omega) n]
    have : rowEntry = specRowEntry := funext C02_row_types
    rw [this]
    by_cases h : n < size <;> simp [rowSpec, h]

/-- `hybrid_load` / chaining: from the table of a hybrid revision `read_xref_from` appends the
table, then the section at `XRefStm`, then the section at `Prev` — and a position met twice
(circular `Prev`) is not loaded again. -/
theorem C02_chain_order (ph : Phys) (p1 p2 p3 : Nat) (d1 d2 d3 : SecDesc) (s1 s2 s3 : Section)
    (root : Option Nat) (info : Option Nat) (fuel : Nat)
    (h1 : lookupNat ph.secs p1 = some d1) (h2 : lookupNat ph.secs p2 = some d2) (h3 : lookupNat ph.secs p3 = some d3)
    (l1 : loadSection ph d1 = .ok (s1, ⟨some p3, some p2, root, info⟩))
    (l2 : loadSection ph d2 = .ok (s2, ⟨none, none, none, none⟩))
    (l3 : loadSection ph d3 = .ok (s3, ⟨some p1, none, root, info⟩))
    (d12 : p1 ≠ p2) (d13 : p1 ≠ p3) (d23 : p2 ≠ p3) :
    (readXrefFrom ph (fuel + 3) p1 ([], [])).map (fun r => r.1.map (·.1)) = .ok [s1, s2, s3] := by
  have n21 : ¬ p2 = p1 := Ne.symm d12
  have n31 : ¬ p3 = p1 := Ne.symm d13
  have n32 : ¬ p3 = p2 := Ne.symm d23
  simp [readXrefFrom, chainOrder, Trailer.get, h1, h2, h3, l1, l2, l3, List.foldlM, n21, n31, n32, d12, d13, d23,
    bind, Except.bind, Except.map, pure, Except.pure]


/-- The trailer chain of ANY number of revisions: starting at `start` (what `find_xref` returned),
every revision being a plain section (classic table or cross-reference stream, `/Prev` → older one)
or a hybrid pair (table with `/XRefStm` and `/Prev`; its stream carries neither), at pairwise different
positions — the oldest one possibly with a circular `/Prev` pointing at itself — `read_xref_from` returns the sections newest first — the table of a hybrid revision
directly before its stream — and has visited exactly their positions.  Generalises `C02_chain_order`. -/
theorem C02_chain (ph : Phys) (start : Nat) (ps : List Nat) (L : List (Section × Trailer))
    (h : Chain ph (some start) ps L) (hnd : ps.Nodup) (fuel : Nat) (hf : ps.length < fuel) :
    readXrefFrom ph fuel start ([], []) = .ok (L, ps.reverse) := by
  have := follow_chain h fuel [] [] hf (by intro p _ hm; cases hm) hnd
  simpa [follow] using this

/-- Non-vacuity: newest revision at 300 (`/Prev 200`), a hybrid revision at 200 (`/XRefStm 150`,
`/Prev 100`), the original at 100. -/
def exChainPh : Phys :=
  ⟨[], [(100, .stream 2 none [1, 1, 1] [] ⟨none, none, some 1, none⟩),
        (150, .stream 2 none [1, 1, 1] [] ⟨none, none, none, none⟩),
        (200, .stream 2 none [1, 1, 1] [] ⟨some 100, some 150, some 1, none⟩),
        (300, .stream 2 none [1, 1, 1] [] ⟨some 200, none, some 1, none⟩)], []⟩

example : (readXrefFrom exChainPh 5 300 ([], [])).map (fun r => (r.1.map (·.2.prev), r.2)) =
    .ok ([some 200, some 100, none, none], [100, 150, 200, 300]) := by
  have hc : Chain exChainPh (some 300) [300, 200, 150, 100] _ :=
    Chain.plain (p := 300) rfl rfl rfl
      (Chain.hybrid (p := 200) (x := 150) rfl rfl rfl rfl rfl rfl rfl
        (Chain.plain (p := 100) rfl rfl rfl Chain.done))
  rw [C02_chain exChainPh 300 _ _ hc (by decide) 5 (by decide)]
  rfl

/-- The same with the executable hypothesis the harness evaluates per file (`q.chain`). -/
theorem C02_chain_checked (ph : Phys) (start fuel' fuel : Nat) (ps : List Nat) (L : List (Section × Trailer))
    (h : chainOf ph fuel' (some start) = some (ps, L)) (hn : nodupNat ps = true) (hf : ps.length < fuel) :
    readXrefFrom ph fuel start ([], []) = .ok (L, ps.reverse) :=
  C02_chain ph start ps L (chainOf_sound ph fuel' _ _ _ h) (nodupNat_sound ps hn) fuel hf

example : (chainOf exChainPh 9 (some 300)).map (·.1) = some [300, 200, 150, 100] := by decide

/-- Non-vacuity for the loaders: `0 2` (free head, object 1) and `5 1`, CR-only line ends, entries
ending in space-CR, `trailer` followed by the dictionary on the same line. -/
def exSubs : List Sub := [⟨0, 1, 1, [⟨0, 65535, false⟩, ⟨15, 0, true⟩]⟩, ⟨5, 2, 1, [⟨70, 3, true⟩]⟩]

example : ∀ sb ∈ exSubs, SubFits sb := by
  intro sb hsb
  simp only [exSubs, List.mem_cons, List.not_mem_nil, or_false] at hsb
  rcases hsb with rfl | rfl <;> simp [SubFits, EntryFits]

example : TrailerLine ([32, 60, 60, 62, 62] ++ (LineEol.cr.bytes ++ [115])) :=
  C02_trailer_line .cr [32, 60, 60, 62, 62] [115] (by intro b hb; revert b; decide) ⟨115, [], rfl, by decide⟩

example : (match tableLoad ([120, 114, 101, 102] ++ (LineEol.cr.bytes ++ (renderTable .cr .spCr exSubs ++
      (kwTrailer ++ ([32, 60, 60, 62, 62] ++ (LineEol.cr.bytes ++ [115])))))) 4 with
    | .ok (offs, tpos) => offs == [((1 : Int), (⟨none, 15, 0⟩ : Entry)), (5, ⟨none, 70, 3⟩)] && tpos == 4 + 1 + 69
    | .error _ => false) = true := by decide



/-- `SecLists` (hypothesis of `C02_written_rep`) DERIVED for classic tables: the table loaded from the
text of ANY subsections (any grouping into runs, any order, `f` lines anywhere) answers like the writer's
entry list as soon as both hold the same `(number, entry)` pairs, every number once — down to the bytes
`PDFXRef.load` read. -/
theorem C02_table_lists (pre post : Bytes) (eol : LineEol) (ee : EntEol) (subs : List Sub)
    (ents : List (Nat × Entry)) (hf : ∀ sb ∈ subs, SubFits sb) (hpost : TrailerLine post)
    (h : sameAssocB (flatSubs subs) (entsInt ents) = true) :
    ∃ offs tp, tableLoad (pre ++ (eol.bytes ++ (renderTable eol ee subs ++ (kwTrailer ++ post)))) pre.length =
      .ok (offs, tp) ∧ SecLists (.table offs) ents :=
  ⟨_, _, C02_table_load pre post eol ee subs hf hpost, secLists_table subs ents h⟩

/-- objects 5, 1 (file order of the body) against the table `0 2` (free head, object 1) + `5 1` -/
example : sameAssocB (flatSubs exSubs) (entsInt [(5, ⟨none, 70, 3⟩), (1, ⟨none, 15, 0⟩)]) = true := by decide

/-- From the written lines to `Rep`: a loaded classic table represents revision `r` as soon as
the written subsections do (last in-use line per number leads to `r`'s value) — the hypothesis of
`C02_newest_wins` follows from what the writer wrote, not from what the loader returned. -/
theorem C02_table_represents (whole : History) (objs : List (Nat × Nat × Nat × Val)) (subs : List Sub) (r : Revision)
    (h : ∀ n, match r.lookup n with
              | none => specSubs subs (n : Int) none = none
              | some v => ∃ e, specSubs subs (n : Int) none = some e ∧ entryOK whole objs n v e = true) :
    SecRep whole objs (.table (insSubs subs [])) r := by
  intro n
  have := h n
  rw [← C02_table_lookup subs n] at this
  exact this

/-- The same for a cross-reference stream section written as `W`, `/Index` ranges and rows. -/
theorem C02_stream_represents (whole : History) (objs : List (Nat × Nat × Nat × Val)) (ranges : List (Nat × Nat))
    (w1 w2 w3 : Nat) (rows : List Row) (r : Revision)
    (hf : ∀ row ∈ rows, FitsRow w1 w2 w3 row) (hlen : sumCounts ranges ≤ rows.length)
    (h : ∀ n, match r.lookup n with
              | none => (rowSpec ranges rows n).bind specRowEntry = none
              | some v => ∃ e, (rowSpec ranges rows n).bind specRowEntry = some e ∧ entryOK whole objs n v e = true) :
    SecRep whole objs (.stream ⟨ranges, w1, w2, w3, encodeRows w1 w2 w3 rows⟩) r := by
  intro n
  have := h n
  have hrow : rowEntry = specRowEntry := funext C02_row_types
  simp only [Section.getPos]
  rw [C02_xrefstm_entry ranges w1 w2 w3 rows hf hlen n, hrow]
  exact this

/-! ## `Rep` derived for every file the (structural) writer lays out -/

/-- For EVERY file body — any number of (sub-)revisions, objects of the parts of a hybrid revision
interleaved, direct objects of any positive length separated by any gaps, object-stream members —
if each loaded section answers like the entry list the writer put into it (`SecLists`: what
`C02_table_lookup` / `C02_stream_load` give from the bytes) then the sections represent the history
the file means.  The only side conditions left are `WFile.ok`: lengths positive, members as their
containers hold them. -/
theorem C02_written_rep (f : WFile) (secsOld : List Section) (hs : SecsList secsOld f.ents)
    (hok : f.ok = true) : Rep f.history f.store secsOld.reverse f.history := by
  have hall : ∀ o ∈ f.objs, wobjOK f.history o = true := by
    have := hok
    simp only [WFile.ok, List.all_eq_true] at this
    exact this
  have hl : LensPos f.objs := by
    intro o ho gap len gen hp
    have := hall o ho
    simp only [wobjOK, hp, decide_eq_true_eq] at this
    exact this
  have hmem : ∀ o ∈ f.objs, ∀ c idx, o.place = .member c idx → memberOK f.history c idx o.val = true := by
    intro o ho c idx hp
    have := hall o ho
    simp only [wobjOK, hp] at this
    exact this
  exact subRevs_rep f.history f.store f.objs f.start f.trailers 0 secsOld hs
    (placeObjs_keys f.objs f.start hl).2.2 hmem

/-- Newest definition wins END TO END on the writer's output: no per-file hypothesis about offsets
or sections is left. -/
theorem C02_written_newest_wins (f : WFile) (secsOld : List Section) (hs : SecsList secsOld f.ents)
    (hok : f.ok = true) (n : Nat) : getobj f.store secsOld.reverse n = specGetobj f.history n :=
  C02_newest_wins (C02_written_rep f secsOld hs hok) n

/-- Non-vacuity: two revisions; the older one is hybrid-like (objects of sub-revisions 0 and 1
interleaved), object 3 lives in object stream 5, revision 2 overrides object 2. -/
def exFile : WFile :=
  ⟨9, [⟨1, .plain 10, .direct 0 20 0, 0⟩, ⟨5, .objstm 50 1 [.num 3, .num 0, .val 30], .direct 2 40 0, 1⟩,
       ⟨2, .plain 20, .direct 0 15 0, 0⟩, ⟨3, .plain 30, .member 5 0, 1⟩,
       ⟨2, .plain 22, .direct 120 18 1, 2⟩],
   [(1, none), (1, none), (1, some 2)]⟩

example : exFile.ok = true ∧ exFile.store.map (·.1) = [9, 31, 71, 206] ∧
    exFile.ents = [[(1, ⟨none, 9, 0⟩), (2, ⟨none, 71, 0⟩)], [(5, ⟨none, 31, 0⟩), (3, ⟨some 5, 0, 0⟩)],
      [(2, ⟨none, 206, 1⟩)]] := by decide

example : getobj exFile.store ((exFile.ents.map (fun e => Section.table (e.map (fun p => ((p.1 : Int), p.2))))).reverse) 3 =
    .ok (.plain 30) := by decide

/-- `SecLists` DERIVED for cross-reference streams: the section written as ANY non-overlapping `/Index`
ranges, widths and rows (free rows and rows of unknown type anywhere) answers like the writer's entry list
as soon as its in-use rows are that list (any order). -/
theorem C02_stream_lists (ranges : List (Nat × Nat)) (w1 w2 w3 : Nat) (rows : List Row) (ents : List (Nat × Entry))
    (hf : ∀ row ∈ rows, FitsRow w1 w2 w3 row) (hlen : sumCounts ranges ≤ rows.length)
    (h : streamListsB ranges rows ents = true) :
    SecLists (.stream ⟨ranges, w1, w2, w3, encodeRows w1 w2 w3 rows⟩) ents := by
  intro n
  have hrow : rowEntry = specRowEntry := funext C02_row_types
  simp only [Section.getPos]
  rw [C02_xrefstm_entry ranges w1 w2 w3 rows hf hlen n, hrow]
  exact rowSpec_lists ranges rows ents hlen h n

/-- `/Index [0 2 5 2]`, rows free / direct@15 / member 1 of stream 5 / direct@90: three in-use rows. -/
example : streamListsB [(0, 2), (5, 2)] [(0, 0, 255), (1, 15, 0), (2, 5, 1), (1, 90, 0)]
    [(6, ⟨none, 90, 0⟩), (1, ⟨none, 15, 0⟩), (5, ⟨some 5, 1, 0⟩)] = true := by decide

/-! ## Termination of the line loops, and the body scan -/

/-- `PDFXRef.load` terminates within one iteration per byte: the fuel of the model is never
the reason for its answer. -/
theorem C02_table_fuel (data : Bytes) (afterKw : Nat) : tableLoad data afterKw ≠ .error .recursion :=
  tableLoad_fuel data afterKw

/-- The same for the body scan: beyond `bytes left`, more fuel changes nothing. -/
theorem C02_fallback_fuel (data : Bytes) (ends : List (Nat × Nat × Val)) (fuel pos : Nat)
    (offs : List (Int × Entry)) (h : data.length < pos + fuel) :
    fallbackLoop data ends (fuel + 1) pos offs = fallbackLoop data ends fuel pos offs :=
  fallbackLoop_fuel data ends fuel pos offs h

/-- `C02_fallback`: for a body made of plain lines and indirect objects whose first byte stands at a
line start — whether the line read there ends inside the object or beyond it (`1 0 obj<<…>>endobj`) —
(and no other line looks like a header or starts with `trailer`), the body scan
registers every object at its true offset, in file order, and stops on the `trailer` line. -/
theorem C02_fallback (ends : List (Nat × Nat × Val)) (items : List Item) (tail : Bytes)
    (hok : ItemsOK ends 0 items tail)
    (htail : ∃ l k, takeLine tail = some (l, k) ∧ startsWith l kwTrailer = true) :
    fallbackLoad (itemsBytes items ++ tail) ends = .ok (scanSpec 0 items [], some (itemsBytes items).length) :=
  fallbackLoad_items ends items tail hok htail

/-- The header the writer emits (`n g obj` + EOL, any digit widths) is recognised by the cue
with its own numbers; the EOL-only line between objects is a plain line. -/
theorem C02_cue_header (w1 w2 n g : Nat) (hw1 : 0 < w1) (hw2 : 0 < w2) (hn : n < 10 ^ w1) (hg : g < 10 ^ w2)
    (c : UInt8) (t : Bytes) (hc : isWordByte c = false) :
    matchCue (renderDec w1 n ++ 32 :: (renderDec w2 g ++ 32 :: 111 :: 98 :: 106 :: c :: t)) = some (n, g) :=
  matchCue_header w1 w2 n g hw1 hw2 hn hg c t hc

/-- Non-vacuity: `%A⏎ 1 0 obj⏎ 7⏎endobj ⏎ 12 0 obj<<>>endobj ⏎ trailer⏎` (the second object on one line) -/
def exItems : List Item :=
  [.line [37, 65, 10],
   .obj 1 0 [49, 32, 48, 32, 111, 98, 106, 10, 55, 10, 101, 110, 100, 111, 98, 106],
   .line [10],
   .obj 12 0 [49, 50, 32, 48, 32, 111, 98, 106, 60, 60, 62, 62, 101, 110, 100, 111, 98, 106],
   .line [10]]
def exEnds : List (Nat × Nat × Val) := [(3, 19, .plain 1), (20, 38, .plain 2)]

example : ItemsOK exEnds 0 exItems (kwTrailer ++ [10]) :=
  itemsOK_of_itemsOKb exEnds exItems 0 _ (by decide)

example : scanSpec 0 exItems [] = [((1 : Int), (⟨none, 3, 0⟩ : Entry)), (12, ⟨none, 20, 0⟩)] := by decide

/-! ## Locating `startxref`: independence of the read-buffer size -/

/-- The chunked backward reader yields, for EVERY buffer size `b ≥ 1`, exactly the lines of a
single right-to-left pass over the bytes. -/
theorem C02_revreadlines_bufsize (b : Nat) (hb : 1 ≤ b) (data : Bytes) :
    revreadlines b data = revLines data := by
  unfold revreadlines revLines
  rw [revLoop_spec b hb data _ _ [] (by omega) (by omega) noEol_nil]
  simp

/-- Hence `find_xref` returns the same offset (or the same error) for every buffer size. -/
theorem C02_startxref_bufsize (b : Nat) (hb : 1 ≤ b) (data : Bytes) :
    findXref b data = findXref 1 data := by
  unfold findXref
  rw [C02_revreadlines_bufsize b hb, C02_revreadlines_bufsize 1 (by omega)]

/-- "…startxref⏎123⏎%%EOF⏎" after an older "startxref⏎7⏎": the number before the LAST keyword. -/
example : (match findXref 3 ([115, 116, 97, 114, 116, 120, 114, 101, 102, 10, 55, 10, 37, 37, 69, 79, 70, 10] ++
    [120, 10] ++ [115, 116, 97, 114, 116, 120, 114, 101, 102, 13, 10, 49, 50, 51, 13, 10, 37, 37, 69, 79, 70, 13, 10])
    with | .ok n => n == 123 | .error _ => false) = true := by decide

/-! ## Locating `startxref`: the backward scan finds the LAST one, for every tail layout -/

/-- `find_xref` on ANY file whose end consists of well-formed lines — the keyword line `kw`, blank
lines `middle`, the first non-blank line `num`, then any lines `after` none of which is the keyword —
returns the number on `num` (or `PDFNoValidXRef` when it is not all digits), whatever precedes the
keyword line (`pre`: older revisions with their own `startxref` lines included) and for every read
buffer size. -/
theorem C02_find_xref (b : Nat) (hb : 1 ≤ b) (pre : Bytes) (kw num : RLine) (middle after : List RLine)
    (hk : kw.OK) (hn : num.OK) (hm : ∀ l ∈ middle, l.OK) (ha : ∀ l ∈ after, l.OK)
    (hkw : strip kw.bytes = kwStartxref) (hmid : ∀ l ∈ middle, strip l.bytes = [])
    (hnum1 : strip num.bytes ≠ []) (hnum2 : strip num.bytes ≠ kwStartxref)
    (hafter : ∀ l ∈ after, strip l.bytes ≠ kwStartxref) :
    findXref b (pre ++ rlinesBytes (kw :: middle ++ num :: after)) =
      if isDigits (strip num.bytes) then .ok (decNat (strip num.bytes)) else .error .noValidXRef := by
  unfold findXref
  rw [C02_revreadlines_bufsize b hb]
  exact findXref_layout_bytes pre kw num middle after hk hn hm ha hkw hmid hnum1 hnum2 hafter

/-- No line of the file is the keyword: `PDFNoValidXRef("Unexpected EOF")` (the body scan follows). -/
theorem C02_find_xref_none (b : Nat) (hb : 1 ≤ b) (data : Bytes)
    (h : ∀ l ∈ revLines data, strip l ≠ kwStartxref) : findXref b data = .error .noValidXRef := by
  unfold findXref
  rw [C02_revreadlines_bufsize b hb]
  exact findXrefLines_none _ _ h

/-- The writer's tail in full generality: after any bytes `pre` ending in an EOL byte, the keyword,
the offset written with `w` digits and `%%EOF`, each followed by any number of blanks, separated by
one or more EOLs of the file's style and ended by any number (also zero) of EOLs:
`find_xref` returns exactly the offset written. -/
theorem C02_find_xref_tail (b : Nat) (hb : 1 ≤ b) (pre : Bytes) (e0 : UInt8) (he0 : isEol e0 = true)
    (eol : LineEol) (s1 s2 s3 k1 k2 k3 w n : Nat) (hw : 0 < w) (hn : n < 10 ^ w) :
    findXref b (pre ++ e0 :: renderTailG eol s1 s2 s3 k1 k2 k3 w n) = .ok n := by
  unfold findXref
  rw [C02_revreadlines_bufsize b hb]
  unfold renderTailG
  have hsp : ∀ k, ∀ x ∈ blanks k, x = 32 := by
    intro k x hx
    exact (List.mem_replicate.mp hx).2
  have hdne : renderDec w n ≠ [] := by
    intro h
    have := length_renderDec w n
    rw [h] at this
    simp at this; omega
  rw [findXref_tail_bytes pre e0 he0 (blanks s1) (blanks s2) (blanks s3) (eolRep eol (k1 + 1))
    (eolRep eol (k2 + 1)) (eolRep eol k3) (renderDec w n) (hsp s1) (hsp s2) (hsp s3)
    (eolRep_eol eol _) (eolRep_eol eol _) (eolRep_eol eol _) (eolRep_succ_ne eol k1) (eolRep_succ_ne eol k2)
    hdne (renderDec_digits w n), decNat_renderDec w n hn]

/-- The four tails of the harness writer (compared byte for byte with what it wrote: `q.tail`). -/
theorem C02_find_xref_written (b : Nat) (hb : 1 ≤ b) (pre : Bytes) (e0 : UInt8) (he0 : isEol e0 = true)
    (ts : TailStyle) (eol : LineEol) (w n : Nat) (hw : 0 < w) (hn : n < 10 ^ w) :
    findXref b (pre ++ e0 :: renderTail ts eol w n) = .ok n := by
  cases ts <;> exact C02_find_xref_tail b hb pre e0 he0 eol _ _ _ _ _ _ w n hw hn

/-- Non-vacuity: an older revision's `startxref⏎7⏎%%EOF⏎` stands before; CR LF tail with blanks and
a blank line; the offset 123 of the LAST keyword is returned. -/
example : findXref 4 (([115, 116, 97, 114, 116, 120, 114, 101, 102, 10, 55, 10, 37, 37, 69, 79, 70] : Bytes) ++
    10 :: renderTail .blank .crlf 3 123) = .ok 123 :=
  C02_find_xref_written 4 (by omega) _ 10 (by decide) .blank .crlf 3 123 (by omega) (by omega)

example : renderTail .spaces .cr 2 45 =
    [115, 116, 97, 114, 116, 120, 114, 101, 102, 32, 13, 52, 53, 32, 32, 13, 37, 37, 69, 79, 70, 32, 13] := by decide

/-- a number line that is not all digits → `PDFNoValidXRef` (hypotheses of `C02_find_xref` satisfiable) -/
example : findXref 2 ([37, 10] ++ rlinesBytes [⟨10, kwStartxref⟩, ⟨13, []⟩, ⟨10, [49, 120]⟩, ⟨10, kwEOF⟩]) =
    .error .noValidXRef := by
  exact (C02_find_xref 2 (by omega) [37, 10] ⟨10, kwStartxref⟩ ⟨10, [49, 120]⟩ [⟨13, []⟩] [⟨10, kwEOF⟩]
    (by decide) (by decide) (by decide) (by decide) (by decide) (by decide) (by decide) (by decide)
    (by decide)).trans rfl

example : findXref 3 [37, 80, 68, 70, 10, 120, 114, 101, 102, 10] = .error .noValidXRef :=
  C02_find_xref_none 3 (by omega) _ (by decide)

/-! ## End to end: the document opened on a written file answers "newest wins" -/

/-- Capstone.  A file that ends (after any bytes and an EOL byte) with one of the writer's tails giving
offset `start`; whose sections form a chain of plain / hybrid revisions from `start`; whose body is laid
out by the Lean file writer `f` and whose loaded sections list what `f` wrote into them: opening it —
backward scan for `startxref` with ANY read-buffer size, `read_xref_from` along the whole chain — and
asking for ANY object number gives the value of the newest revision defining it (`PDFObjectNotFound`
when none does). -/
theorem C02_end_to_end (b : Nat) (hb : 1 ≤ b) (pre : Bytes) (e0 : UInt8) (he0 : isEol e0 = true)
    (ts : TailStyle) (eol : LineEol) (w start : Nat) (hw : 0 < w) (hst : start < 10 ^ w)
    (secs : List (Nat × SecDesc)) (f : WFile) (ps : List Nat) (L : List (Section × Trailer))
    (hchain : Chain ⟨pre ++ e0 :: renderTail ts eol w start, secs, f.store⟩ (some start) ps L)
    (hnd : ps.Nodup) (hfuel : ps.length < secs.length + 2)
    (hs : SecsList (L.map (·.1)).reverse f.ents) (hok : f.ok = true) (n : Nat) :
    (openPhys ⟨pre ++ e0 :: renderTail ts eol w start, secs, f.store⟩ b).map
      (fun d => getobj f.store (d.map (·.1)) n) = .ok (specGetobj f.history n) := by
  unfold openPhys
  simp only [C02_find_xref_written b hb pre e0 he0 ts eol w start hw hst]
  rw [C02_chain _ start ps L hchain hnd _ hfuel]
  have := C02_written_newest_wins f (L.map (·.1)).reverse hs hok n
  rw [List.reverse_reverse] at this
  simp only [Except.map, this]

/-- Non-vacuity of the capstone: a one-revision file (object 1 at offset 9, 20 bytes long, listed by a
cross-reference stream with `/Index [1 1]`, `W [1 1 1]` at offset 40), tail `startxref⏎40⏎%%EOF⏎`. -/
def exE2EFile : WFile := ⟨9, [⟨1, .plain 10, .direct 0 20 0, 0⟩], [(1, none)]⟩
def exE2ESecs : List (Nat × SecDesc) := [(40, .stream 2 (some [1, 1]) [1, 1, 1] [1, 9, 0] ⟨none, none, some 1, none⟩)]

theorem exE2E_lists : SecLists (.stream ⟨[(1, 1)], 1, 1, 1, [1, 9, 0]⟩) [(1, ⟨none, 9, 0⟩)] := by
  intro n
  by_cases h : n = 1
  · subst h; decide
  · have h1 : ¬ (1 ≤ n ∧ n < 1 + 1) := by omega
    have h2 : ((1 : Nat) == n) = false := by simpa using Ne.symm h
    simp [Section.getPos, XStream.getPos, findIndex_cons, findIndex_nil, h1, lookupNat, h2]

example (pre : Bytes) (b : Nat) (hb : 1 ≤ b) (n : Nat) :
    (openPhys ⟨pre ++ 10 :: renderTail .plain .lf 2 40, exE2ESecs, exE2EFile.store⟩ b).map
      (fun d => getobj exE2EFile.store (d.map (·.1)) n) = .ok (specGetobj exE2EFile.history n) :=
  C02_end_to_end b hb pre 10 (by decide) .plain .lf 2 40 (by omega) (by omega) exE2ESecs exE2EFile [40]
    [(.stream ⟨[(1, 1)], 1, 1, 1, [1, 9, 0]⟩, ⟨none, none, some 1, none⟩)]
    (Chain.plain (p := 40) rfl rfl rfl Chain.done) (by decide) (by decide)
    (SecsList.cons exE2E_lists SecsList.nil) (by decide) n

/-! ## Open finding: cross-reference data that parses but is wrong is never rebuilt -/

/-- Full statement of the damaged-file clause at model level: whatever the (parsable) table
says, every object written in the body is found. -/
def C02_damaged_statement : Prop :=
  ∀ (objs : List (Nat × Nat × Nat × Val)) (secs : List Section) (pos n g : Nat) (v : Val),
    lookupNat objs pos = some (n, g, v) → getobj objs secs n = .ok v

/-- Counter-example (replayed on the implementation by corpus/C02/table-offsets.json): a
well-formed table whose offset for object 1 is 18 instead of 15.  `getobj` has no body-scan step,
so the object is not found. -/
theorem C02_damaged_cex : ¬ C02_damaged_statement := by
  intro h
  have := h [(15, 1, 0, .plain 10)] [.table [(1, ⟨none, 18, 0⟩)]] 15 1 0 (.plain 10) (by decide)
  revert this
  decide

/-- What does hold (`_partial`: restricted to tables whose offsets are right, i.e. `Rep`): see
`C02_newest_wins`.  The body scan itself (`PDFXRefFallback`) is modelled (`fallbackLoad`) and tied
by correspondence; its theorem is future work. -/
theorem C02_damaged_partial {whole : History} {objs : List (Nat × Nat × Nat × Val)} {secs : List Section}
    (h : Rep whole objs secs whole) (n : Nat) (v : Val) (hv : resolve whole n = some v) :
    getobj objs secs n = .ok v := by
  rw [C02_newest_wins h n]; simp [specGetobj, hv]

/-! ### Non-vacuity: a two-revision history in two physical forms -/

/-- newest first: revision 1 overrides object 2 and adds 4; revision 0 defines 1,2,3 -/
def exHist : History :=
  [⟨[(2, .plain 22), (4, .plain 40)], 1, none⟩, ⟨[(1, .plain 10), (2, .plain 20), (3, .plain 30)], 1, none⟩]

/-- form A: both revisions as classic tables -/
def exObjsA : List (Nat × Nat × Nat × Val) :=
  [(15, 1, 0, .plain 10), (40, 2, 0, .plain 20), (60, 3, 0, .plain 30), (200, 2, 0, .plain 22), (230, 4, 0, .plain 40)]
def exSecsA : List Section :=
  [.table [(2, ⟨none, 200, 0⟩), (4, ⟨none, 230, 0⟩)],
   .table [(1, ⟨none, 15, 0⟩), (2, ⟨none, 40, 0⟩), (3, ⟨none, 60, 0⟩)]]

/-- form B: revision 0 as a cross-reference stream with objects 2,3 inside object stream 5
(W = [1 1 1], Index [0 4 5 2]: rows 0 free, 1 direct@15, 2 → (5,0), 3 → (5,1), 5 direct@90, 6 = the xref
stream itself @120); revision 1 as a cross-reference stream with Index [2 1 4 1 7 1]. -/
def exStm : Val := .objstm 50 2 [.num 2, .num 0, .num 3, .num 3, .val 20, .val 30]
def exHistB : History :=
  [⟨[(2, .plain 22), (4, .plain 40), (7, .plain 70)], 1, none⟩,
   ⟨[(1, .plain 10), (2, .plain 20), (3, .plain 30), (5, exStm), (6, .plain 60)], 1, none⟩]
def exObjsB : List (Nat × Nat × Nat × Val) :=
  [(15, 1, 0, .plain 10), (90, 5, 0, exStm), (120, 6, 0, .plain 60),
   (200, 2, 0, .plain 22), (230, 4, 0, .plain 40), (250, 7, 0, .plain 70)]
def exSecsB : List Section :=
  [.stream ⟨[(2, 1), (4, 1), (7, 1)], 1, 1, 1, [1, 200, 0, 1, 230, 0, 1, 250, 0]⟩,
   .stream ⟨[(0, 4), (5, 2)], 1, 1, 1, [0, 0, 255, 1, 15, 0, 2, 5, 0, 2, 5, 1, 1, 90, 0, 1, 120, 0]⟩]

example : repOK exObjsA 10 exSecsA exHist = true := by decide
example : repOK exObjsB 10 exSecsB exHistB = true := by decide
example : getobj exObjsB exSecsB 2 = .ok (.plain 22) ∧ getobj exObjsB exSecsB 3 = .ok (.plain 30) ∧
    getobj exObjsB exSecsB 9 = .error .notFound := by decide
example : ∀ n, n ∈ [1, 2, 3, 4] → getobj exObjsA exSecsA n = getobj exObjsB exSecsB n := by decide
example : queriesC exObjsB exSecsB [3, 2, 5, 3, 9, 2] [] =
    [.ok (.plain 30), .ok (.plain 22), .ok exStm, .ok (.plain 30), .error .notFound, .ok (.plain 22)] := by decide

end PdfVerif.Props.C02
