/-
C17 — Page labels, outlines and named destinations follow their tree definitions.

Models: `PdfVerif.Labels` (decode_text, format_int_roman/alpha, NumberTree, PageLabels),
`PdfVerif.Outline` (get_outlines.search), `PdfVerif.NameTree` (lookup_name, get_dest); the tables
ROMAN_ONES, ROMAN_FIVES, PDFDocEncoding are regenerated from pdfminer/utils.py on every run.
Specifications: `PdfVerif.Spec.Labels`, `PdfVerif.Spec.Outline`, `PdfVerif.Spec.NameTree`.
The models are tied to pdfminer by tools/harness/props/c17.py on generated catalogs.

Only property theorems live here (helper lemmas: `Lemmas/Labels*.lean`, `Lemmas/Outline.lean`,
`Lemmas/NameTree.lean`).
-/
import PdfVerif.Lemmas.Labels
import PdfVerif.Lemmas.LabelRanges
import PdfVerif.Lemmas.LabelsExtra
import PdfVerif.Lemmas.LabelsGen
import PdfVerif.Lemmas.Outline
import PdfVerif.Lemmas.OutlineGraph
import PdfVerif.Lemmas.OutlineStore
import PdfVerif.Lemmas.NameTree
import PdfVerif.Lemmas.NameTreeAny

namespace PdfVerif.Props.C17
open PdfVerif PdfVerif.Labels PdfVerif.Gen.LabelTables
open PdfVerif.Lemmas.Labels PdfVerif.Lemmas.LabelsFinite PdfVerif.Lemmas.LabelsExtra
open PdfVerif.Spec.LabelsExtra

/-! ## Text strings (ISO 32000-1 7.9.2.2, Annex D.2) -/

/-- The translated `PDFDocEncoding` has an entry for every byte (`PDFDocEncoding[c]` cannot raise). -/
theorem pdfdoc_table_total : PDFDocEncoding.length = 256 := by decide +kernel

/-- Every code that ISO 32000-1 Table D.2 defines is mapped to the code point the table gives
(the three undefined codes 0x7F, 0x9F, 0xAD are outside the statement). -/
theorem pdfdoc_table_spec (c : UInt8) (u : Nat) (h : Spec.Labels.pdfDoc c.toNat = some u) :
    docChar c = u := docChar_spec c u h

/-- `decode_text`: a string with a byte-order mark is decoded as UTF-16BE (surrogate pairs
combined), any other string through PDFDocEncoding — on every string in the domain of the
specification (well-formed UTF-16, defined codes). -/
theorem decode_text_spec (s : Bytes) (t : Text) (h : Spec.Labels.text s = some t) : decodeText s = t :=
  decodeText_of_spec s t h

/-- Non-vacuity: a UTF-16BE string with a surrogate pair and a PDFDocEncoding string with codes
from the 0x18–0x1F and 0x80–0xA0 blocks are in the domain. -/
example : Spec.Labels.text [0xFE, 0xFF, 0xD8, 0x3D, 0xDE, 0x00, 0x00, 0x41] = some [0x1F600, 0x41] := by
  decide +kernel
example : Spec.Labels.text [0x18, 0x80, 0xA0, 0x41] = some [0x2D8, 0x2022, 0x20AC, 0x41] := by decide +kernel
example : decodeText [0xFE, 0xFF, 0xD8, 0x3D, 0xDE, 0x00, 0x00, 0x41] = [0x1F600, 0x41] := by decide +kernel

/-- Round trip against the encoder: every list of Unicode scalar values, written as a UTF-16BE
text string (byte-order mark, big-endian units, surrogate pairs above U+FFFF), is decoded back
to exactly that list. -/
theorem utf16_roundtrip (cs : List Nat) (h : ∀ c ∈ cs, isScalar c = true) :
    decodeText (encodeUtf16BE cs) = cs := by
  have hu : ∀ u ∈ cs.flatMap unitsOfScalar, u < 65536 := by
    intro u hu
    obtain ⟨c, hc, huc⟩ := List.mem_flatMap.mp hu
    have := h c hc
    simp only [isScalar, Bool.and_eq_true, decide_eq_true_eq] at this
    unfold unitsOfScalar at huc
    split at huc
    · simp at huc; omega
    · simp at huc; omega
  unfold decodeText encodeUtf16BE
  simp only [List.cons_append, List.nil_append, hasBOM, List.drop]
  simp [decodeUnits, units_unitBytes _ hu, decodeAux_scalars cs h]

/-- Non-vacuity: BMP and astral scalars are in the domain of the round trip. -/
example : encodeUtf16BE [0x41, 0x4E2D, 0x1F600, 0x10FFFF] =
    [0xFE, 0xFF, 0x00, 0x41, 0x4E, 0x2D, 0xD8, 0x3D, 0xDE, 0x00, 0xDB, 0xFF, 0xDF, 0xFF] := by decide +kernel

/-! ## Numerals (ISO 32000-1 Table 159) -/

/-- `format_int_roman` is the subtractive-notation numeral for EVERY `0 < n < ROMAN_MAX` (the bound
translated from utils.py; one million): the three low digits by a kernel-evaluated sweep against the
regenerated ROMAN_* tables, the thousands (any number of them: 4000 ↦ `mmmm`) in general.
(Round 6; the pinned code asserted `value < 4000`.) -/
theorem roman_correct_all (n : Nat) (h0 : 0 < n) (h1 : (n : Int) < ROMAN_MAX) :
    formatIntRoman (n : Int) = .ok (Spec.Labels.romanAux Spec.Labels.romanTable n) :=
  formatIntRoman_all n h0 h1

/-- The bound the code asserts is the bound of the specification's domain. -/
theorem roman_max_spec : ROMAN_MAX = (Spec.Labels.romanMax : Int) := by decide

theorem roman_correct (n : Nat) (h0 : 0 < n) (h1 : n < 4000) :
    formatIntRoman (n : Int) = .ok (Spec.Labels.romanAux Spec.Labels.romanTable n) :=
  roman_correct_all n h0 (by rw [roman_max_spec]; unfold Spec.Labels.romanMax; omega)

/-- Sanity of the specification itself: reading the numeral back gives `n`. -/
theorem roman_value (n : Nat) (h1 : n < 4000) :
    Spec.Labels.romanValue (Spec.Labels.romanAux Spec.Labels.romanTable n) = (n : Int) := by
  have h := all_range_lift romanValueOk_all n h1
  unfold romanValueOk at h
  exact eq_of_beq h

/-- The same for EVERY `n` (any number of leading `m`, which are never subtracted). -/
theorem roman_value_all (n : Nat) :
    Spec.Labels.romanValue (Spec.Labels.romanAux Spec.Labels.romanTable n) = (n : Int) := romanValue_all n

/-- Outside `0 < value < ROMAN_MAX` the code raises `AssertionError` (modelled, not totalised away):
that is ALL it does there — no numeral of unbounded length is ever built. -/
theorem roman_outside (v : Int) (h : v ≤ 0 ∨ ROMAN_MAX ≤ v) : formatIntRoman v = .error .assertion := by
  unfold formatIntRoman
  have : ¬ (0 < v ∧ v < ROMAN_MAX) := by omega
  simp [this]

/-- Inside the asserted range the numeral is short: at most 1000 `m` and the low part. -/
theorem roman_length_bound (n : Nat) (h1 : (n : Int) < ROMAN_MAX) :
    n / 1000 < 1000 := by
  have : ROMAN_MAX = 1000000 := rfl
  omega

/-- FULL STATEMENT for styles A/a: the letters numeral of every positive value is the one of
Table 159 (one letter, repeated).  False on the pinned code: `alpha_cex`. -/
def alpha_statement : Prop :=
  ∀ n : Nat, 0 < n → (formatIntAlpha (n : Int)).toOption = Spec.Labels.alpha n

/-- Proved counter-example (open finding `alpha-repeat`): 28 is formatted `ab`, Table 159 says `bb`. -/
theorem alpha_cex : ¬ alpha_statement := by
  intro h
  have := h 28 (by decide)
  revert this
  decide +kernel

theorem alpha_cex_values :
    formatIntAlpha 28 = .ok [97, 98] ∧ Spec.Labels.alpha 28 = some [98, 98] := by
  constructor
  · exact eq_of_isOk (by decide +kernel)
  · decide +kernel

/-- Partial version: correct for the first 26 values. -/
theorem alpha_partial (n : Nat) (h0 : 0 < n) (h1 : n ≤ 26) :
    (formatIntAlpha (n : Int)).toOption = Spec.Labels.alpha n := by
  have h := all_range_lift alphaOk_all n (by omega)
  unfold alphaOk at h
  have hn : (n == 0) = false := by simp; omega
  rw [hn, Bool.false_or] at h
  rw [eq_of_isOk h]
  simp [Spec.Labels.alpha, h0, Except.toOption]

/-- What the code computes for styles A/a, for EVERY positive value: the numeral whose reading in
bijective base 26 (a = 1 … z = 26, spreadsheet columns) is the value — a bijection, but not the
repeated letter of Table 159. -/
theorem alpha_bijective (n : Nat) (h : 0 < n) :
    ∃ t, formatIntAlpha (n : Int) = .ok t ∧ alphaValue t = n := by
  refine ⟨alphaLoop n n [], ?_, ?_⟩
  · simp [formatIntAlpha]; omega
  · unfold alphaValue
    rw [alphaLoop_value n n [] (Nat.le_refl n)]
    rfl

/-! ### The translated numeral code (`Gen/LabelCode.lean`, regenerated from utils.py on every run)

`format_int_roman` / `format_int_alpha` assembled from the TRANSLATED assert, `while` test, loop
body and tail (only the `while` construct itself is hand-written glue) are the hand models for
every integer — so each theorem above is a theorem about the translated straight-line code, and an
edit of a loop body in utils.py breaks these proofs. -/

open PdfVerif.LabelsGen PdfVerif.Gen.LabelCode in
/-- ONE pass through the translated body of the `while` loop of `format_int_roman`, in ANY state
(any value, any index — including `ROMAN_ONES[index]` out of range — any partial result), is the
hand model's step; IndexError is IndexError. -/
theorem roman_body_translated (n i : Nat) (r : List Text) :
    liftErr (format_int_roman_body (n : Int) (i : Int) r) =
      (romanStep i (n % 10) r).map (fun r' => (((n / 10 : Nat) : Int), (i : Int) + 1, r')) :=
  PdfVerif.Lemmas.LabelsGen.roman_body_eq n i r

open PdfVerif.LabelsGen in
/-- The translated `format_int_roman` is the hand model for EVERY integer (assertion included). -/
theorem roman_translated (v : Int) : genFormatIntRoman v = formatIntRoman v :=
  PdfVerif.Lemmas.LabelsGen.genFormatIntRoman_eq v

open PdfVerif.LabelsGen in
/-- Hence the translated code writes the subtractive-notation numeral for EVERY `0 < n < ROMAN_MAX`,
never exhausts its pass budget, and raises AssertionError everywhere else. -/
theorem roman_translated_correct (n : Nat) (h0 : 0 < n) (h1 : (n : Int) < ROMAN_MAX) :
    genFormatIntRoman (n : Int) = .ok (Spec.Labels.romanAux Spec.Labels.romanTable n) := by
  rw [roman_translated]; exact roman_correct_all n h0 h1

open PdfVerif.LabelsGen in
theorem roman_translated_outside (v : Int) (h : v ≤ 0 ∨ ROMAN_MAX ≤ v) :
    genFormatIntRoman v = .error .assertion := by
  rw [roman_translated]; exact roman_outside v h

open PdfVerif.LabelsGen PdfVerif.Gen.LabelCode in
/-- ONE pass through the translated body of the `while` loop of `format_int_alpha`
(`divmod(value - 1, len(string.ascii_lowercase))`, `string.ascii_lowercase[remainder]`), for every
positive value and partial result: never an IndexError. -/
theorem alpha_body_translated (n : Nat) (h : 0 < n) (r : List Text) :
    liftErr (format_int_alpha_body (n : Int) r) =
      .ok ((((n - 1) / 26 : Nat) : Int), r ++ [[97 + (n - 1) % 26]]) :=
  PdfVerif.Lemmas.LabelsGen.alpha_body_eq n h r

open PdfVerif.LabelsGen in
/-- The translated `format_int_alpha` is the hand model for EVERY integer (assertion included). -/
theorem alpha_translated (v : Int) : genFormatIntAlpha v = formatIntAlpha v :=
  PdfVerif.Lemmas.LabelsGen.genFormatIntAlpha_eq v

open PdfVerif.LabelsGen in
/-- Hence, for EVERY positive value, the translated code returns the numeral whose reading in
bijective base 26 is the value (and for 28 it returns `ab`, not Table 159's `bb`). -/
theorem alpha_translated_bijective (n : Nat) (h : 0 < n) :
    ∃ t, genFormatIntAlpha (n : Int) = .ok t ∧ alphaValue t = n := by
  rw [alpha_translated]; exact alpha_bijective n h

open PdfVerif.LabelsGen in
theorem alpha_translated_cex : genFormatIntAlpha 28 = .ok [97, 98] := by
  rw [alpha_translated]; exact alpha_cex_values.1

open PdfVerif.LabelsGen in
/-- `PageLabels._format_page_label` as the TRANSLATED if/elif chain (`style is LIT("D")` → `str(value)`,
`R` → `format_int_roman(value).upper()`, … in source order, the `None` and `else` labels) over the
translated numeral functions = the hand model, for every value and every style (unknown ones too). -/
theorem format_page_label_translated (v : Int) (style : Option Bytes) :
    genFormatPageLabel v style = formatPageLabel v style :=
  PdfVerif.Lemmas.LabelsGen.genFormatPageLabel_eq v style

open PdfVerif.LabelsGen in
/-- A range of `PageLabels.labels` that is followed by another one, from the TRANSLATED
`label_dict.get("St", 1)`, `label_dict.get("P", b"")`, `range_length = end - start`,
`values = range(first_value, first_value + range_length)`: what the hand model's generator yields for
it (cut after `n` labels), then the generator goes on with the next range. -/
theorem labels_range_translated (s e : Int) (d d' : LabelDict) (rest : List (Int × LabelDict)) (n : Nat) :
    labelsFrom s d ((e, d') :: rest) n =
      (genRangeLabels d s e).take n ++ labelsFrom e d' rest (n - min (e - s).toNat n) := by
  rw [PdfVerif.Lemmas.LabelsGen.genRangeLabels_eq]
  simp only [labelsFrom, rangeLabels, ← List.map_take, List.take_range]
  rw [Nat.min_comm]

/-- Non-vacuity: the translated code evaluated by the kernel — numerals with every kind of digit
(9, 4, ≥ 5, < 5), the assertion, the loop body with an index past the table (IndexError), letters. -/
example : (PdfVerif.LabelsGen.genFormatIntRoman 3949).toOption = some [109, 109, 109, 99, 109, 120, 108, 105, 120] := by
  decide +kernel
example : (PdfVerif.LabelsGen.genFormatIntRoman 1678).toOption = some [109, 100, 99, 108, 120, 120, 118, 105, 105, 105] := by
  decide +kernel
example : (PdfVerif.LabelsGen.genFormatIntRoman 4000).toOption = some [109, 109, 109, 109] := by decide +kernel
example : (formatIntRoman 14999).toOption = some ((List.replicate 14 109) ++ [99, 109, 120, 99, 105, 120]) := by
  decide +kernel
example : (PdfVerif.LabelsGen.genFormatIntRoman 0).toOption = none := by decide +kernel
example : (PdfVerif.LabelsGen.genFormatIntRoman 1000000).toOption = none
    ∧ ((PdfVerif.LabelsGen.genFormatIntRoman 999999).toOption.map List.length) = some 1005
    ∧ (formatIntRoman 1000000000000).toOption = none := by decide +kernel
example : (PdfVerif.LabelsGen.liftErr (PdfVerif.Gen.LabelCode.format_int_roman_body 9 3 [])).toOption = none := by
  decide +kernel
example : (PdfVerif.LabelsGen.liftErr (PdfVerif.Gen.LabelCode.format_int_roman_body 47 1 [[105]])).toOption
    = some (4, 2, [[108], [120, 120], [105]]) := by decide +kernel
example : (PdfVerif.LabelsGen.genFormatIntAlpha 703).toOption = some [97, 97, 97] := by decide +kernel
example : (PdfVerif.LabelsGen.genFormatIntAlpha 0).toOption = none := by decide +kernel
example : (PdfVerif.LabelsGen.genFormatPageLabel 1949 (some styleR)).toOption = some [77, 67, 77, 88, 76, 73, 88] := by
  decide +kernel
example : (PdfVerif.LabelsGen.genFormatPageLabel 5 (some [120])).toOption = some [] := by decide +kernel
example : (PdfVerif.LabelsGen.genRangeLabels { style := some styleD, pfx := some [65, 45] } 3 5).map Except.toOption
    = [some [65, 45, 49], some [65, 45, 50]] := by decide +kernel

/-- The loop bound of the letters model is never the reason it stops: any fuel `≥ value` gives
the same result (the code's `while value != 0` terminates since `(value − 1) / 26 < value`). -/
theorem alpha_fuel_suffices : ∀ (f v : Nat) (acc : Text), v ≤ f →
    ∀ k, alphaLoop (f + k) v acc = alphaLoop f v acc
  | 0, v, acc, h, k => by
    have : v = 0 := by omega
    subst this
    cases k <;> simp [alphaLoop]
  | f + 1, v, acc, h, k => by
    have e : f + 1 + k = (f + k) + 1 := by omega
    rw [e]
    simp only [alphaLoop]
    by_cases hv : v = 0
    · simp [hv]
    · simp only [hv, if_false]
      exact alpha_fuel_suffices f ((v - 1) / 26) _ (by have := Nat.div_le_self (v - 1) 26; omega) k

/-! ## Number trees and page labels (ISO 32000-1 7.9.7, 12.4.2) -/

section PageLabels
open PdfVerif.Spec.Labels PdfVerif.Lemmas.LabelRanges

/-- `NumberTree._parse` is the in-order flattening for a tree of ANY shape: entries of `Nums`
at every depth, `Kids` of every fan-out, nothing lost or reordered. -/
theorem numtree_flatten {α : Type} (t : NumTree α) : t.parse = flatten t := parse_eq_flatten t

/-- On a conforming tree (keys ascending in order) `values` is that flattening itself. -/
theorem numtree_values {α : Type} (t : NumTree α) (h : ascending ((flatten t).map (·.1)) = true) :
    t.values = flatten t := by
  unfold NumTree.values
  rw [parse_eq_flatten]
  exact sortKeys_of_ascending _ h

/-- The label generated for page index `i` is built from the range that contains `i`
(the last one starting at or before `i`): its prefix, its style, and the value
`St + (i − start)` (`St` defaulting to 1) — for every conforming tree and every page. -/
theorem C17_label_range (t : NumTree LabelDict) (n i : Nat) (hi : i < n)
    (hasc : ascending ((flatten t).map (·.1)) = true)
    (h0 : (flatten t).head?.map (·.1) = some 0)
    (start : Int) (d : LabelDict) (hr : rangeOf (flatten t) (i : Int) = some (start, d)) :
    (Labels.labels t n)[i]? = some (labelOf d (d.st.getD 1 + ((i : Int) - start))) := by
  unfold Labels.labels
  rw [numtree_values t hasc]
  cases hf : flatten t with
  | nil => simp [hf] at h0
  | cons p tl =>
    obtain ⟨k, d0⟩ := p
    rw [hf] at hasc h0 hr
    simp only [List.head?_cons, Option.map_some, Option.some.injEq] at h0
    subst h0
    simp only [List.map_cons, ascending] at hasc
    have hg := labelsFrom_get tl 0 d0 n i hasc hi
    rw [rangeOf_cons_le 0 d0 tl i (by omega)] at hr
    simp only [Int.zero_add] at hg
    simp only [Option.some.injEq] at hr
    rw [hr] at hg
    simpa [withZero, labelsAux, firstValue] using hg

/-- With `settings.STRICT = True` (no sort, ordering and "index 0" checks instead) a conforming
tree gives exactly the labels of the default mode — nothing is rejected. -/
theorem C17_label_strict (t : NumTree LabelDict) (n : Nat)
    (hasc : ascending ((flatten t).map (·.1)) = true)
    (h0 : (flatten t).head?.map (·.1) = some 0) :
    labelsStrict t n = .ok (Labels.labels t n) := by
  unfold labelsStrict Labels.labels
  rw [numtree_values t hasc]
  unfold NumTree.valuesStrict
  rw [parse_eq_flatten, nonDecreasing_of_ascending _ hasc]
  cases hf : flatten t with
  | nil => simp [hf] at h0
  | cons p tl =>
    obtain ⟨k, d⟩ := p
    rw [hf] at h0
    simp only [List.head?_cons, Option.map_some, Option.some.injEq] at h0
    subst h0
    simp [withZero]


/-- The model's numeral is the ISO numeral: decimal, roman (upper/lower) for every `0 < v < ROMAN_MAX`,
letters for `v ≤ 26` (beyond that the statement is false, see `alpha_cex`). -/
theorem numeral_partial (style : Option Bytes) (v : Int) (num : Text)
    (h : numeral style v = some num)
    (ha : (style = some styleA ∨ style = some stylea) → v ≤ 26) :
    formatPageLabel v style = .ok num := by
  have hroman : ∀ r, roman v.toNat = some r → formatIntRoman v = .ok r := by
    intro r hr
    unfold roman at hr
    split at hr
    · rename_i hc
      have hv : v = (v.toNat : Int) := by omega
      rw [hv, roman_correct_all v.toNat hc.1 (by rw [roman_max_spec]; omega)]
      simpa using hr
    · simp at hr
  have halpha : 0 < v → v ≤ 26 → ∀ r, alpha v.toNat = some r → formatIntAlpha v = .ok r := by
    intro h0 h26 r hr
    have hv : v = (v.toNat : Int) := by omega
    have := alpha_partial v.toNat (by omega) (by omega)
    rw [← hv, hr] at this
    cases hf : formatIntAlpha v with
    | ok x => rw [hf] at this; simp [Except.toOption] at this; rw [this]
    | error e => rw [hf] at this; simp [Except.toOption] at this
  cases style with
  | none => simp [numeral] at h; simp [formatPageLabel, h]
  | some s =>
    simp only [numeral] at h
    simp only [formatPageLabel]
    by_cases hD : s = styleD
    · rw [if_pos hD] at h ⊢; simpa using h
    rw [if_neg hD] at h ⊢
    by_cases hR : s = styleR
    · rw [if_pos hR] at h ⊢
      simp only [Option.map_eq_some_iff] at h
      obtain ⟨r, hr, rfl⟩ := h
      rw [hroman r hr]; rfl
    rw [if_neg hR] at h ⊢
    by_cases hr' : s = styler
    · rw [if_pos hr'] at h ⊢
      exact hroman num h
    rw [if_neg hr'] at h ⊢
    by_cases hA : s = styleA
    · rw [if_pos hA] at h ⊢
      simp only [Option.map_eq_some_iff] at h
      obtain ⟨r, hr, rfl⟩ := h
      split at hr
      · rename_i h0
        rw [halpha h0 (ha (Or.inl (by rw [hA]))) r hr]; rfl
      · simp at hr
    rw [if_neg hA] at h ⊢
    by_cases ha' : s = stylea
    · rw [if_pos ha'] at h ⊢
      split at h
      · rename_i h0
        exact halpha h0 (ha (Or.inr (by rw [ha']))) num h
      · simp at h
    rw [if_neg ha'] at h
    simp at h

/-- FULL STATEMENT for page labels: on every conforming tree, the label the code generates for
page `i` is the one ISO 32000-1 12.4.2 defines (whenever that is defined: known style, roman
value in `0 < v < ROMAN_MAX`, prefix a valid text string).  False on the pinned code because of the letters
numeral (`C17_label_cex`); `C17_label_partial` proves it with values of the letter styles ≤ 26. -/
def C17_label_statement : Prop :=
  ∀ (t : NumTree LabelDict) (n i : Nat) (l : Text), i < n →
    ascending ((flatten t).map (·.1)) = true → (flatten t).head?.map (·.1) = some 0 →
    label (flatten t) i = some l → (Labels.labels t n)[i]? = some (.ok l)

theorem C17_label_partial (t : NumTree LabelDict) (n i : Nat) (l : Text) (hi : i < n)
    (hasc : ascending ((flatten t).map (·.1)) = true)
    (h0 : (flatten t).head?.map (·.1) = some 0)
    (hl : label (flatten t) i = some l)
    (hsmall : ∀ start d, rangeOf (flatten t) (i : Int) = some (start, d) →
      (d.style = some styleA ∨ d.style = some stylea) → d.st.getD 1 + ((i : Int) - start) ≤ 26) :
    (Labels.labels t n)[i]? = some (.ok l) := by
  unfold label at hl
  cases hr : rangeOf (flatten t) (i : Int) with
  | none => simp [hr] at hl
  | some p =>
    obtain ⟨start, d⟩ := p
    rw [C17_label_range t n i hi hasc h0 start d hr]
    simp only [hr, Option.pure_def, Option.bind_eq_bind, Option.bind_some, Option.bind_eq_some_iff] at hl
    obtain ⟨pre, hpre, num, hnum, hl⟩ := hl
    simp only [Option.some.injEq] at hl
    subst hl
    have h1 := numeral_partial d.style _ num hnum (hsmall start d hr)
    have h2 := decode_text_spec _ pre hpre
    simp [labelOf, h1, h2, Except.map]

/-- Proved counter-example to the full statement: one range `<< /S /a >>`, page index 27. -/
theorem C17_label_cex : ¬ C17_label_statement := by
  intro h
  have := h (.node [(0, { style := some stylea })] []) 28 27 [98, 98] (by decide) (by decide +kernel)
    (by decide +kernel) (by decide +kernel)
  have h2 := congrArg (fun o => o.map Except.toOption) this
  revert h2
  decide +kernel

/-! ### Full statements with the pinned letters numeral (round 6)

The letters numeral of the pinned code is not Table 159's (`alpha_cex`), but it is determined
completely: it is THE bijective base-26 numeral of the value.  With it the label of every page of
every conforming tree — every style, every value — is characterised exactly. -/

/-- For EVERY `n > 0` the code's letters numeral is characterised: `t` is returned iff `t` consists of
lowercase letters and reads `n` in bijective base 26. -/
theorem alpha_characterised (n : Nat) (h : 0 < n) (t : Text) :
    formatIntAlpha (n : Int) = .ok t ↔ isBijNumeral t (n : Int) := by
  have hfa : formatIntAlpha (n : Int) = .ok (alphaLoop n n []) := by
    simp [formatIntAlpha]; omega
  constructor
  · intro ht
    rw [hfa] at ht
    simp only [Except.ok.injEq] at ht
    subst ht
    refine ⟨alphaLoop_letters n n [] (by simp), ?_⟩
    unfold alphaValue
    rw [alphaLoop_value n n [] (Nat.le_refl n)]
    rfl
  · intro ⟨hl, hv⟩
    have hv' : alphaValue t = n := by omega
    have := alphaLoop_of_value t.reverse (by simpa using hl) n [] (by simp [hv'])
    simp only [List.reverse_reverse, hv', List.append_nil] at this
    rw [hfa, this]

/-- Such a numeral is unique (so `isBijNumeral · v` names one string). -/
theorem bijNumeral_unique (t t' : Text) (v : Int) (h : isBijNumeral t v) (h' : isBijNumeral t' v) : t = t' := by
  have hv : alphaValue t = alphaValue t' := by have := h.2; have := h'.2; omega
  have a := alphaLoop_of_value t.reverse (by simpa using h.1) (alphaValue t) [] (by simp)
  have b := alphaLoop_of_value t'.reverse (by simpa using h'.1) (alphaValue t) [] (by simp [hv])
  simp only [List.reverse_reverse, List.append_nil] at a b
  rw [← hv] at b
  rw [← a, ← b]

/-- FULL numeral statement for the pinned code: wherever ISO 32000-1 defines a numeral (known style,
roman value in `0 < v < ROMAN_MAX`, positive value for letters), `_format_page_label` returns normally —
decimal and roman exactly as Table 159, letters as the unique bijective base-26 numeral. -/
theorem numeral_full (style : Option Bytes) (v : Int) (h : (numeral style v).isSome = true) :
    ∃ num, formatPageLabel v style = .ok num ∧ numeralPinned style v num := by
  have hletters : 0 < v → ∃ t, formatIntAlpha v = .ok t ∧ isBijNumeral t v := by
    intro h0
    have hv : v = (v.toNat : Int) := by omega
    refine ⟨alphaLoop v.toNat v.toNat [], ?_, ?_⟩
    · simp [formatIntAlpha, h0]
    · rw [hv]
      exact (alpha_characterised v.toNat (by omega) _).mp (by simp [formatIntAlpha]; omega)
  by_cases hA : style = some styleA
  · subst hA
    have h0 : 0 < v := by
      by_cases h0 : 0 < v
      · exact h0
      · exfalso; revert h; simp [numeral, h0, styleA, styleD, styleR, styler]
    obtain ⟨t, ht, hb⟩ := hletters h0
    refine ⟨upper t, ?_, ?_⟩
    · simp [formatPageLabel, ht, Except.map, styleA, styleD, styleR, styler]
    · simp only [numeralPinned, if_true]
      exact ⟨t, hb, rfl⟩
  by_cases ha : style = some stylea
  · subst ha
    have h0 : 0 < v := by
      by_cases h0 : 0 < v
      · exact h0
      · exfalso; revert h; simp [numeral, h0, stylea, styleA, styleD, styleR, styler]
    obtain ⟨t, ht, hb⟩ := hletters h0
    refine ⟨t, ?_, ?_⟩
    · simp [formatPageLabel, ht, stylea, styleA, styleD, styleR, styler]
    · simp only [numeralPinned, hA, if_false, if_true]
      exact hb
  · obtain ⟨num, hnum⟩ := Option.isSome_iff_exists.mp h
    refine ⟨num, numeral_partial style v num hnum (fun hc => ?_), ?_⟩
    · rcases hc with hc | hc
      · exact absurd hc hA
      · exact absurd hc ha
    · simp only [numeralPinned, hA, ha, if_false]
      exact hnum

/-- FULL page-label statement for the pinned code: on every conforming tree, for EVERY page whose
label ISO 32000-1 12.4.2 defines (valid prefix, known style, roman value in `0 < v < ROMAN_MAX`, positive
letters value — no other bound), the generator yields prefix ++ numeral with the numeral of `numeral_full`: the
ISO label for styles D/R/r/none, and for A/a the ISO label with the letters numeral replaced by the
unique bijective base-26 one (the open finding, and nothing else). -/
theorem C17_label_full (t : NumTree LabelDict) (n i : Nat) (hi : i < n)
    (hasc : ascending ((flatten t).map (·.1)) = true)
    (h0 : (flatten t).head?.map (·.1) = some 0)
    (start : Int) (d : LabelDict) (hr : rangeOf (flatten t) (i : Int) = some (start, d))
    (pre : Text) (hpre : Spec.Labels.text (d.pfx.getD []) = some pre)
    (hnum : (numeral d.style (d.st.getD 1 + ((i : Int) - start))).isSome = true) :
    ∃ num, (Labels.labels t n)[i]? = some (.ok (pre ++ num))
      ∧ numeralPinned d.style (d.st.getD 1 + ((i : Int) - start)) num := by
  obtain ⟨num, hf, hp⟩ := numeral_full d.style _ hnum
  refine ⟨num, ?_, hp⟩
  rw [C17_label_range t n i hi hasc h0 start d hr]
  have h2 := decode_text_spec _ pre hpre
  simp [labelOf, hf, h2, Except.map]

/-- Non-vacuity: letters past 26 and roman past 3999 in one tree; the numerals are the pinned ones. -/
example :
    let t : NumTree LabelDict := .node []
      [.node [(0, { style := some stylea, st := some 27 })] [],
       .node [(2, { style := some styleR, st := some 3999 })] []]
    ascending ((flatten t).map (·.1)) = true
    ∧ (flatten t).head?.map (·.1) = some 0
    ∧ (Labels.labels t 4).map Except.toOption =
        [some [97, 97], some [97, 98], some [77, 77, 77, 67, 77, 88, 67, 73, 88], some [77, 77, 77, 77]] := by
  decide +kernel
example : isBijNumeral [97, 98] 28 := ⟨by decide, by decide⟩

/-- Non-vacuity: a two-level tree with three ranges (roman front matter, decimal body with a
prefix, letters appendix) satisfies the hypotheses, and the model produces the ISO labels. -/
example :
    let t : NumTree LabelDict := .node []
      [.node [(0, { style := some styler })] [],
       .node [(3, { style := some styleD, pfx := some [65, 45], st := some 7 }), (5, { style := some styleA })] []]
    ascending ((flatten t).map (·.1)) = true
    ∧ (flatten t).head?.map (·.1) = some 0
    ∧ (List.range 7).mapM (label (flatten t)) =
        some [[105], [105, 105], [105, 105, 105], [65, 45, 55], [65, 45, 56], [65], [66]]
    ∧ (Labels.labels t 7).map Except.toOption =
        [some [105], some [105, 105], some [105, 105, 105], some [65, 45, 55], some [65, 45, 56],
         some [65], some [66]] := by
  decide +kernel

end PageLabels

/-! ## Outlines (ISO 32000-1 12.3.3) -/

section Outline
open PdfVerif.Outline PdfVerif.Spec.Outline PdfVerif.Lemmas.Outline

/-- `search` over the First/Next representation of ANY forest (any fan-out, any depth), started
at any level, yields exactly the items in document order (preorder) with their nesting levels
and decoded titles.  By induction over the forest. -/
theorem C17_outline_forest (forest : List OTree) (lvl : Nat) (items : List Item)
    (h : (preForest lvl forest).mapM id = some items) :
    search (encForest forest) lvl = items := by
  have hl := mapM_id_some _ _ h
  have hdom : ∀ o ∈ preForest lvl forest, o.isSome = true := by
    intro o ho
    rw [hl] at ho
    obtain ⟨x, _, rfl⟩ := List.mem_map.mp ho
    rfl
  have := search_encForest forest lvl hdom
  rw [hl] at this
  exact map_some_inj _ _ this

/-- `get_outlines()` on the `Outlines` dictionary of a forest: top-level items have level 1. -/
theorem C17_outline (forest : List OTree) (items : List Item)
    (h : Spec.Outline.outline forest = some items) :
    getOutlines (encRoot forest) = items := by
  have h1 := C17_outline_forest forest 1 items h
  unfold getOutlines encRoot
  cases forest with
  | nil =>
    simp [Spec.Outline.outline, preForest] at h
    simp [search, visible, h]
  | cons t ts =>
    simp only [search, visible, List.isEmpty_cons, Bool.not_false, if_true, List.nil_append, List.append_nil]
    exact h1

/-- Non-vacuity: a forest with two levels, a UTF-16 title and both kinds of target is in the
domain, and the model lists it in document order. -/
example :
    let f : List OTree :=
      [.mk { title := some [65], dest := some 1 }
          [.mk { title := some [0xFE, 0xFF, 0x4E, 0x2D], a := some 2 } [],
           .mk { title := some [66], dest := some 3, se := some 9 } []],
       .mk { title := some [67], a := some 4 } []]
    Spec.Outline.outline f = some
      [⟨1, [65], some 1, none, none⟩, ⟨2, [0x4E2D], none, some 2, none⟩,
       ⟨2, [66], some 3, none, some 9⟩, ⟨1, [67], none, some 4, none⟩]
    ∧ getOutlines (encRoot f) =
      [⟨1, [65], some 1, none, none⟩, ⟨2, [0x4E2D], none, some 2, none⟩,
       ⟨2, [66], some 3, none, some 9⟩, ⟨1, [67], none, some 4, none⟩] := by
  decide +kernel

end Outline

/-! ### Outlines as object graphs: termination (fix 331cdea keeps a visited set) -/

section OutlineGraph
open PdfVerif.Outline PdfVerif.OutlineGraph PdfVerif.Lemmas.OutlineGraph

/-- **Termination.** On EVERY finite store of outline dictionaries — First/Next links that
dangle, are shared, point back to an ancestor or to the item itself — the walk with the visited
set never exhausts the budget `|store| + 1`, and no object id is visited twice (so every
dictionary contributes at most one item). -/
theorem C17_outline_terminates (g : Store) (root : Nat) :
    ∃ items vis, searchG g (g.length + 1) [] root 0 = some (items, vis) ∧ vis.Nodup := by
  have hu : unvisited g [] < g.length + 1 := by
    unfold unvisited
    exact Nat.lt_succ_of_le (List.length_filter_le _ _)
  obtain ⟨items, vis, h, _, hn⟩ := searchG_total g (g.length + 1) [] root 0 hu
  exact ⟨items, vis, h, hn List.nodup_nil⟩

theorem C17_outline_graph_total (g : Store) (root : Nat) : (getOutlinesG g root).isSome = true := by
  obtain ⟨items, vis, h, _⟩ := C17_outline_terminates g root
  simp [getOutlinesG, h]

/-- A damaged outline: item 2 has itself as `Next`, item 3's `First` points back to the root,
item 4 hangs off a dangling reference.  The walk ends and lists each reachable item once. -/
example :
    let g : Store :=
      [(1, { info := {}, first := some 2, hasLast := true }),
       (2, { info := { title := some [65], dest := some 7 }, first := some 3, hasLast := true, next := some 2 }),
       (3, { info := { title := some [66], a := some 8 }, first := some 1, hasLast := true, next := some 9 }),
       (4, { info := { title := some [67], dest := some 9 } })]
    getOutlinesG g 1 = some [⟨1, [65], some 7, none, none⟩, ⟨2, [66], none, some 8, none⟩] := by
  decide +kernel

/-! ### The graph walk on an outline stored as indirect objects (round 6)

`C17_outline` speaks about the term model (`First`/`Next` unfolded); the code after fix 331cdea
walks REFERENCES with a visited set.  These theorems close the gap: whenever the object graph
stores an entry under distinct object ids (what every PDF writer does), the visited set never
suppresses anything and the graph walk yields exactly what the term model yields — hence the
preorder with levels, for every forest, any fan-out and depth. -/

open PdfVerif.Spec.OutlineStore in
/-- EVERY store, EVERY entry stored in it without sharing: `get_outlines` on the object graph
(visited set, budget `|store| + 1`) = the term model on that entry. -/
theorem C17_outline_graph_eq (g : Store) (root : Nat) (e : Entry) (ids : List Nat)
    (hs : Stored g (some root) e ids) : getOutlinesG g root = some (getOutlines e) :=
  PdfVerif.Lemmas.OutlineStore.getOutlinesG_stored g root e ids hs

open PdfVerif.Spec.OutlineStore PdfVerif.Spec.Outline in
/-- FULL outline statement for the repaired code's graph walk: for every forest in the domain, stored
anywhere in an object graph as indirect objects, `get_outlines` = the items in document order with
their nesting levels (ISO 32000-1 12.3.3). -/
theorem C17_outline_graph (g : Store) (root : Nat) (forest : List OTree) (ids : List Nat) (items : List Item)
    (hs : Stored g (some root) (encRoot forest) ids)
    (h : Spec.Outline.outline forest = some items) :
    getOutlinesG g root = some items := by
  rw [C17_outline_graph_eq g root _ ids hs, C17_outline forest items h]

/-- Data of the non-vacuity example: root (object 1) → item A (2) with child B (4) → sibling C (3). -/
def exStore : Store :=
  [(1, { info := {}, first := some 2, hasLast := true }),
   (2, { info := { title := some [65], dest := some 1 }, first := some 4, hasLast := true, next := some 3 }),
   (3, { info := { title := some [67], a := some 4 } }),
   (4, { info := { title := some [66], dest := some 3 } })]

def exForest : List PdfVerif.Spec.Outline.OTree :=
  [.mk { title := some [65], dest := some 1 } [.mk { title := some [66], dest := some 3 } []],
   .mk { title := some [67], a := some 4 } []]

open PdfVerif.Spec.OutlineStore PdfVerif.Spec.Outline in
/-- Non-vacuity: the hypotheses of `C17_outline_graph` hold for a two-level outline written as four
indirect objects, and the graph walk lists A (1), B (2), C (1). -/
example :
    Stored exStore (some 1) (encRoot exForest) [1, 2, 4, 3]
    ∧ Spec.Outline.outline exForest = some
        [⟨1, [65], some 1, none, none⟩, ⟨2, [66], some 3, none, none⟩, ⟨1, [67], none, some 4, none⟩]
    ∧ getOutlinesG exStore 1 = some
        [⟨1, [65], some 1, none, none⟩, ⟨2, [66], some 3, none, none⟩, ⟨1, [67], none, some 4, none⟩] := by
  have h4 : Stored exStore (some 4) (.mk { title := some [66], dest := some 3 } .nil false .nil) [4] :=
    Stored.mk 4 { info := { title := some [66], dest := some 3 } } .nil .nil [] [] rfl .nil .nil
      (by simp) (by simp) (by simp)
  have h3 : Stored exStore (some 3) (.mk { title := some [67], a := some 4 } .nil false .nil) [3] :=
    Stored.mk 3 { info := { title := some [67], a := some 4 } } .nil .nil [] [] rfl .nil .nil
      (by simp) (by simp) (by simp)
  have h2 := Stored.mk (g := exStore) 2
    { info := { title := some [65], dest := some 1 }, first := some 4, hasLast := true, next := some 3 }
    _ _ [4] [3] rfl h4 h3 (by simp) (by simp) (by simp)
  have h1 := Stored.mk (g := exStore) 1 { info := {}, first := some 2, hasLast := true }
    _ .nil _ [] rfl h2 .nil (by simp) (by simp) (by simp)
  refine ⟨h1, by decide +kernel, by decide +kernel⟩

end OutlineGraph

/-! ## Name trees and named destinations (ISO 32000-1 7.9.6, 12.3.2.3) -/

section NameTree
open PdfVerif.NameTree PdfVerif.Spec.NameTree PdfVerif.Lemmas.NameTree

/-- `lookup_name` on ANY conforming name tree (any depth and fan-out; Limits on every node but
the root — or on the root as well —, bounding the keys below it, siblings separated): the result
is the value associated with the key in the in-order flattening, and `KeyError` for an absent
key.  By mutual induction over nodes and kid lists. -/
theorem C17_nametree (t : Node) (hwf : wf true t = true) (key : Key) :
    lookupName (some t) (.bytes key) =
      match assoc (flatten t) key with
      | some v => .found v
      | none => .keyError := by
  have g := lookup_good key true t hwf
  cases ha : assoc (flatten t) key with
  | some v =>
    have := (g.1 v (mem_of_assoc ha)).1
    simp [lookupName, this]
  | none =>
    rcases g.2 (not_mem_of_assoc_none ha) with h | ⟨h, _⟩ <;> simp [lookupName, h]

/-- The in-order flattening of a conforming name tree is strictly ascending in the byte-string
order (derived from the local conditions of `wf`: leaves ascending, Limits bounding, siblings
separated) — so keys are unique and "the value associated with the key" is unambiguous. -/
theorem C17_nametree_sorted (t : Node) (hwf : wf true t = true) :
    List.Pairwise (fun x y => klt x y = true) ((flatten t).map (·.1)) :=
  flatten_sorted true t hwf

/-- `get_dest`: a string is looked up in the name tree, a name in the catalog's `Dests`
dictionary; everything else is `PDFDestinationNotFound`. -/
theorem C17_dest (tree : Option Node) (dests : Option (List (Key × Int))) (key : QKey)
    (hdom : Spec.NameTree.domain tree dests = true) :
    getDest tree dests key = Spec.NameTree.dest tree dests key := by
  cases key with
  | bytes k =>
    cases tree with
    | none => simp [getDest, lookupName, Spec.NameTree.dest]
    | some t =>
      have hwf : wf true t = true := by
        simp only [Spec.NameTree.domain, Bool.and_eq_true] at hdom
        exact hdom.1
      have h := C17_nametree t hwf k
      cases ha : assoc (flatten t) k with
      | some v => rw [ha] at h; simp [getDest, h, Spec.NameTree.dest, ha]
      | none => rw [ha] at h; simp [getDest, h, Spec.NameTree.dest, ha]
  | name n =>
    have hl : lookupName tree (.name n) = .keyError := by cases tree <;> rfl
    cases dests with
    | none => simp [getDest, hl, Spec.NameTree.dest]
    | some d =>
      simp only [getDest, hl, Spec.NameTree.dest, Option.bind_some]
      have : assocName d n = assoc d n := rfl
      rw [this]
      cases assoc d n <;> rfl

/-- Non-vacuity: a three-level tree (root without Limits, an intermediate node, two leaves) is
conforming; present keys are found, absent ones (below, between, above, a prefix) are not. -/
example :
    let leaf1 : Node := .node (some ([97], [99])) (some [([97], 1), ([99], 2)]) []
    let leaf2 : Node := .node (some ([101], [103, 0])) (some [([101], 3), ([103, 0], 4)]) []
    let t : Node := .node none none [.node (some ([97], [103, 0])) none [leaf1, leaf2]]
    wf true t = true
    ∧ getDest (some t) none (.bytes [99]) = .value 2
    ∧ getDest (some t) none (.bytes [103, 0]) = .value 4
    ∧ getDest (some t) none (.bytes [98]) = .notFound
    ∧ getDest (some t) none (.bytes [100]) = .notFound
    ∧ getDest (some t) none (.bytes [103]) = .notFound
    ∧ getDest (some t) none (.bytes []) = .notFound
    ∧ getDest (some t) (some [([102, 111, 111], 9)]) (.name [102, 111, 111]) = .value 9 := by
  decide +kernel

/-! ### Arbitrary name trees (round 6): unsorted, duplicate keys, wrong or missing Limits -/

/-- SOUNDNESS on EVERY name tree, conforming or not: whatever `lookup_name` returns for a key is a
value the tree associates with that key (never a neighbour's value, whatever the Limits say). -/
theorem C17_nametree_sound (t : Node) (key : Key) (v : Int)
    (h : lookupName (some t) (.bytes key) = .found v) : (key, v) ∈ flatten t := by
  simp only [lookupName] at h
  cases hl : lookup key t with
  | found w =>
    rw [hl] at h
    simp only [Res.found.injEq] at h
    subst h
    exact PdfVerif.Lemmas.NameTreeAny.lookup_sound key t w hl
  | none_ => rw [hl] at h; cases h
  | keyError => rw [hl] at h; cases h

/-- WHICH DUPLICATE WINS: in a node with a `Names` array (sorted or not, `Kids` ignored), a key inside
the node's Limits gets the value of its LAST occurrence in the array (`dict(...)` semantics), and
`KeyError` when it does not occur. -/
theorem C17_nametree_last_wins (lim : Option (Key × Key)) (ns : List (Key × Int)) (kids : List Node) (key : Key)
    (hin : outside key lim = false) :
    lookup key (.node lim (some ns) kids) =
      match assoc ns.reverse key with
      | some v => .found v
      | none => .keyError := by
  unfold lookup
  simp only [hin, Bool.false_eq_true, if_false, PdfVerif.Lemmas.NameTreeAny.dictGet_eq_assoc_reverse]
  cases assoc ns.reverse key <;> rfl

/-- SOUNDNESS of `get_dest` on EVERY catalog: a value returned for a string comes from the name tree
under that key, a value returned for a name object from the legacy `/Dests` dictionary under that
name — never from the other structure. -/
theorem C17_dest_sound (tree : Option Node) (dests : Option (List (Key × Int))) (key : QKey) (v : Int)
    (h : getDest tree dests key = .value v) :
    match key with
    | .bytes k => ∃ t, tree = some t ∧ (k, v) ∈ flatten t
    | .name n => ∃ d, dests = some d ∧ (n, v) ∈ d := by
  cases key with
  | bytes k =>
    cases tree with
    | none => simp [getDest, lookupName] at h
    | some t =>
      refine ⟨t, rfl, ?_⟩
      apply C17_nametree_sound t k v
      cases hl : lookupName (some t) (.bytes k) with
      | found w =>
        simp only [getDest, hl, DestRes.value.injEq] at h
        rw [h]
      | none_ => simp [getDest, hl] at h
      | keyError => simp [getDest, hl] at h
  | name n =>
    have hl : lookupName tree (.name n) = .keyError := by cases tree <;> rfl
    cases dests with
    | none => simp [getDest, hl] at h
    | some d =>
      refine ⟨d, rfl, ?_⟩
      simp only [getDest, hl] at h
      have e : assocName d n = assoc d n := rfl
      cases ha : assoc d n with
      | some w =>
        rw [e, ha] at h
        simp only [DestRes.value.injEq] at h
        subst h
        exact mem_of_assoc ha
      | none => rw [e, ha] at h; cases h

/-- Non-vacuity: an unsorted leaf with a duplicate key (the last `b` wins); a root with Names AND Kids
(Kids ignored); Kids without Limits where the first kid lacks the key (`KeyError` although a later
kid has it — the reason ISO requires Limits); the returned values are in the flattening. -/
example :
    let leaf : Node := .node none (some [([98], 1), ([97], 2), ([98], 3)]) []
    let mixed : Node := .node none (some [([97], 5)]) [.node none (some [([98], 6)]) []]
    let nolim : Node := .node none none [.node none (some [([97], 7)]) [], .node none (some [([98], 8)]) []]
    lookupName (some leaf) (.bytes [98]) = .found 3
    ∧ lookupName (some leaf) (.bytes [97]) = .found 2
    ∧ lookupName (some mixed) (.bytes [98]) = .keyError
    ∧ lookupName (some nolim) (.bytes [97]) = .found 7
    ∧ lookupName (some nolim) (.bytes [98]) = .keyError
    ∧ getDest (some leaf) (some [([98], 9)]) (.name [98]) = .value 9
    ∧ getDest (some leaf) (some [([98], 9)]) (.bytes [98]) = .value 3 := by
  decide +kernel

end NameTree

end PdfVerif.Props.C17
