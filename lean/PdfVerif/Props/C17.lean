/-
C17 — Page labels, outlines and named destinations follow their tree definitions.

Models: `PdfVerif.Labels` (decode_text, format_int_roman/alpha, NumberTree, PageLabels),
`PdfVerif.Outline` (get_outlines.search), `PdfVerif.NameTree` (lookup_name, get_dest); the tables
ROMAN_ONES, ROMAN_FIVES, PDFDocEncoding are regenerated from pdfminer/utils.py on every run.
Specifications: `PdfVerif.Spec.Labels`, `PdfVerif.Spec.Outline`, `PdfVerif.Spec.NameTree`.
The models are tied to pdfminer by tools/harness/props/c17.py on generated catalogs.

Only property theorems live here (helper lemmas: `Lemmas/Labels*.lean`, `Lemmas/Outline.lean`,
`Lemmas/NameTree.lean`).
-/
import PdfVerif.Lemmas.Labels
import PdfVerif.Lemmas.Outline
import PdfVerif.Lemmas.NameTree

namespace PdfVerif.Props.C17
open PdfVerif PdfVerif.Labels PdfVerif.Gen.LabelTables
open PdfVerif.Lemmas.Labels PdfVerif.Lemmas.LabelsFinite

/-! ## Text strings (ISO 32000-1 7.9.2.2, Annex D.2) -/

/-- The translated `PDFDocEncoding` has an entry for every byte (`PDFDocEncoding[c]` cannot raise). -/
theorem pdfdoc_table_total : PDFDocEncoding.length = 256 := by decide +kernel

/-- Every code that ISO 32000-1 Table D.2 defines is mapped to the code point the table gives
(the three undefined codes 0x7F, 0x9F, 0xAD are outside the statement). -/
theorem pdfdoc_table_spec (c : UInt8) (u : Nat) (h : Spec.Labels.pdfDoc c.toNat = some u) :
    docChar c = u := docChar_spec c u h

/-- `decode_text`: a string with a byte-order mark is decoded as UTF-16BE (surrogate pairs
combined), any other string through PDFDocEncoding — on every string in the domain of the
specification (well-formed UTF-16, defined codes). -/
theorem decode_text_spec (s : Bytes) (t : Text) (h : Spec.Labels.text s = some t) : decodeText s = t :=
  decodeText_of_spec s t h

/-- Non-vacuity: a UTF-16BE string with a surrogate pair and a PDFDocEncoding string with codes
from the 0x18–0x1F and 0x80–0xA0 blocks are in the domain. -/
example : Spec.Labels.text [0xFE, 0xFF, 0xD8, 0x3D, 0xDE, 0x00, 0x00, 0x41] = some [0x1F600, 0x41] := by
  decide +kernel
example : Spec.Labels.text [0x18, 0x80, 0xA0, 0x41] = some [0x2D8, 0x2022, 0x20AC, 0x41] := by decide +kernel
example : decodeText [0xFE, 0xFF, 0xD8, 0x3D, 0xDE, 0x00, 0x00, 0x41] = [0x1F600, 0x41] := by decide +kernel

/-! ## Numerals (ISO 32000-1 Table 159) -/

/-- `format_int_roman` is the subtractive-notation numeral for every `0 < n < 4000`
(kernel-evaluated sweep over the whole domain, against the regenerated ROMAN_* tables). -/
theorem roman_correct (n : Nat) (h0 : 0 < n) (h1 : n < 4000) :
    formatIntRoman (n : Int) = .ok (Spec.Labels.romanAux Spec.Labels.romanTable n) := by
  have h := all_range_lift romanOk_all n h1
  unfold romanOk at h
  have hn : (n == 0) = false := by simp; omega
  rw [hn, Bool.false_or] at h
  exact eq_of_isOk h

/-- Sanity of the specification itself: reading the numeral back gives `n`. -/
theorem roman_value (n : Nat) (h1 : n < 4000) :
    Spec.Labels.romanValue (Spec.Labels.romanAux Spec.Labels.romanTable n) = (n : Int) := by
  have h := all_range_lift romanValueOk_all n h1
  unfold romanValueOk at h
  exact eq_of_beq h

/-- Outside `0 < value < 4000` the code raises `AssertionError` (modelled, not totalised away). -/
theorem roman_outside (v : Int) (h : v ≤ 0 ∨ 4000 ≤ v) : formatIntRoman v = .error .assertion := by
  unfold formatIntRoman
  have : ¬ (0 < v ∧ v < 4000) := by omega
  simp [this]

/-- FULL STATEMENT for styles A/a: the letters numeral of every positive value is the one of
Table 159 (one letter, repeated).  False on the pinned code: `alpha_cex`. -/
def alpha_statement : Prop :=
  ∀ n : Nat, 0 < n → (formatIntAlpha (n : Int)).toOption = Spec.Labels.alpha n

/-- Proved counter-example (open finding `alpha-repeat`): 28 is formatted `ab`, Table 159 says `bb`. -/
theorem alpha_cex : ¬ alpha_statement := by
  intro h
  have := h 28 (by decide)
  revert this
  decide +kernel

theorem alpha_cex_values :
    formatIntAlpha 28 = .ok [97, 98] ∧ Spec.Labels.alpha 28 = some [98, 98] := by
  constructor
  · exact eq_of_isOk (by decide +kernel)
  · decide +kernel

/-- Partial version: correct for the first 26 values. -/
theorem alpha_partial (n : Nat) (h0 : 0 < n) (h1 : n ≤ 26) :
    (formatIntAlpha (n : Int)).toOption = Spec.Labels.alpha n := by
  have h := all_range_lift alphaOk_all n (by omega)
  unfold alphaOk at h
  have hn : (n == 0) = false := by simp; omega
  rw [hn, Bool.false_or] at h
  rw [eq_of_isOk h]
  simp [Spec.Labels.alpha, h0, Except.toOption]

/-! ## Outlines (ISO 32000-1 12.3.3) -/

section Outline
open PdfVerif.Outline PdfVerif.Spec.Outline PdfVerif.Lemmas.Outline

/-- `search` over the First/Next representation of ANY forest (any fan-out, any depth), started
at any level, yields exactly the items in document order (preorder) with their nesting levels
and decoded titles.  By induction over the forest. -/
theorem C17_outline_forest (forest : List OTree) (lvl : Nat) (items : List Item)
    (h : (preForest lvl forest).mapM id = some items) :
    search (encForest forest) lvl = items := by
  have hl := mapM_id_some _ _ h
  have hdom : ∀ o ∈ preForest lvl forest, o.isSome = true := by
    intro o ho
    rw [hl] at ho
    obtain ⟨x, _, rfl⟩ := List.mem_map.mp ho
    rfl
  have := search_encForest forest lvl hdom
  rw [hl] at this
  exact map_some_inj _ _ this

/-- `get_outlines()` on the `Outlines` dictionary of a forest: top-level items have level 1. -/
theorem C17_outline (forest : List OTree) (items : List Item)
    (h : Spec.Outline.outline forest = some items) :
    getOutlines (encRoot forest) = items := by
  have h1 := C17_outline_forest forest 1 items h
  unfold getOutlines encRoot
  cases forest with
  | nil =>
    simp [Spec.Outline.outline, preForest] at h
    simp [search, visible, h]
  | cons t ts =>
    simp only [search, visible, List.isEmpty_cons, Bool.not_false, if_true, List.nil_append, List.append_nil]
    exact h1

/-- Non-vacuity: a forest with two levels, a UTF-16 title and both kinds of target is in the
domain, and the model lists it in document order. -/
example :
    let f : List OTree :=
      [.mk { title := some [65], dest := some 1 }
          [.mk { title := some [0xFE, 0xFF, 0x4E, 0x2D], a := some 2 } [],
           .mk { title := some [66], dest := some 3, se := some 9 } []],
       .mk { title := some [67], a := some 4 } []]
    Spec.Outline.outline f = some
      [⟨1, [65], some 1, none, none⟩, ⟨2, [0x4E2D], none, some 2, none⟩,
       ⟨2, [66], some 3, none, some 9⟩, ⟨1, [67], none, some 4, none⟩]
    ∧ getOutlines (encRoot f) =
      [⟨1, [65], some 1, none, none⟩, ⟨2, [0x4E2D], none, some 2, none⟩,
       ⟨2, [66], some 3, none, some 9⟩, ⟨1, [67], none, some 4, none⟩] := by
  decide +kernel

end Outline

/-! ## Name trees and named destinations (ISO 32000-1 7.9.6, 12.3.2.3) -/

section NameTree
open PdfVerif.NameTree PdfVerif.Spec.NameTree PdfVerif.Lemmas.NameTree

/-- `lookup_name` on ANY conforming name tree (any depth and fan-out; Limits on every node but
the root — or on the root as well —, bounding the keys below it, siblings separated): the result
is the value associated with the key in the in-order flattening, and `KeyError` for an absent
key.  By mutual induction over nodes and kid lists. -/
theorem C17_nametree (t : Node) (hwf : wf true t = true) (key : Key) :
    lookupName (some t) (.bytes key) =
      match assoc (flatten t) key with
      | some v => .found v
      | none => .keyError := by
  have g := lookup_good key true t hwf
  cases ha : assoc (flatten t) key with
  | some v =>
    have := (g.1 v (mem_of_assoc ha)).1
    simp [lookupName, this]
  | none =>
    rcases g.2 (not_mem_of_assoc_none ha) with h | ⟨h, _⟩ <;> simp [lookupName, h]

/-- `get_dest`: a string is looked up in the name tree, a name in the catalog's `Dests`
dictionary; everything else is `PDFDestinationNotFound`. -/
theorem C17_dest (tree : Option Node) (dests : Option (List (Key × Int))) (key : QKey)
    (hdom : Spec.NameTree.domain tree dests = true) :
    getDest tree dests key = Spec.NameTree.dest tree dests key := by
  cases key with
  | bytes k =>
    cases tree with
    | none => simp [getDest, lookupName, Spec.NameTree.dest]
    | some t =>
      have hwf : wf true t = true := by
        simp only [Spec.NameTree.domain, Bool.and_eq_true] at hdom
        exact hdom.1
      have h := C17_nametree t hwf k
      cases ha : assoc (flatten t) k with
      | some v => rw [ha] at h; simp [getDest, h, Spec.NameTree.dest, ha]
      | none => rw [ha] at h; simp [getDest, h, Spec.NameTree.dest, ha]
  | name n =>
    have hl : lookupName tree (.name n) = .keyError := by cases tree <;> rfl
    cases dests with
    | none => simp [getDest, hl, Spec.NameTree.dest]
    | some d =>
      simp only [getDest, hl, Spec.NameTree.dest, Option.bind_some]
      have : assocName d n = assoc d n := rfl
      rw [this]
      cases assoc d n <;> rfl

/-- Non-vacuity: a three-level tree (root without Limits, an intermediate node, two leaves) is
conforming; present keys are found, absent ones (below, between, above, a prefix) are not. -/
example :
    let leaf1 : Node := .node (some ([97], [99])) (some [([97], 1), ([99], 2)]) []
    let leaf2 : Node := .node (some ([101], [103, 0])) (some [([101], 3), ([103, 0], 4)]) []
    let t : Node := .node none none [.node (some ([97], [103, 0])) none [leaf1, leaf2]]
    wf true t = true
    ∧ getDest (some t) none (.bytes [99]) = .value 2
    ∧ getDest (some t) none (.bytes [103, 0]) = .value 4
    ∧ getDest (some t) none (.bytes [98]) = .notFound
    ∧ getDest (some t) none (.bytes [100]) = .notFound
    ∧ getDest (some t) none (.bytes [103]) = .notFound
    ∧ getDest (some t) none (.bytes []) = .notFound
    ∧ getDest (some t) (some [([102, 111, 111], 9)]) (.name [102, 111, 111]) = .value 9 := by
  decide +kernel

end NameTree

end PdfVerif.Props.C17
