/-
C05 — Text model: each glyph gets the position, advance and state PDF assigns.

`Interp.*`     executable model of pdfminer's PDFPageInterpreter / PDFTextDevice / LTChar
               (`Model/Interp.lean`; arithmetic and tables regenerated from the Python source into
               `Gen/Interp.lean`, `Gen/Utils.lean` on every run; tied to the implementation by the
               correspondence check of tools/harness/props/c05.py)
`TextModel.*`  executable ISO 32000-1 text model (`Spec/TextModel.lean`); it answers `none` where the
               standard gives a program no meaning — that is the domain of the property.

Only property theorems live here; helper lemmas and the simulation relation `R` are in
`Lemmas/Interp.lean`.
-/
import PdfVerif.Lemmas.Interp
import PdfVerif.Lemmas.ContentLex

namespace PdfVerif.Props.C05
open PdfVerif PdfVerif.Content PdfVerif.Interp PdfVerif.Gen.Utils PdfVerif.Gen.Interp PdfVerif.TextModel
open PdfVerif.ContentLex

/-! ## Glyphs: interpreter = text model, for every program of the domain -/

/-- **One instruction** (operands + operator) of the domain: the simulation relation `R` between
the interpreter state and the text-model state is preserved and the same glyphs are reported,
whatever form runners are used as long as they agree. -/
theorem C05_step (env : Env) (rfM : Form → MState → List Glyph × Bool)
    (rfS : Form → GS → Res → Option (List Glyph)) (hrf : Agree env rfM rfS) (m : MState) (s s' : SState) (i : Instr)
    (gl : List Glyph) (hR : R env m s) (h : step env rfS s i = some (s', gl)) :
    R env (execToks env rfM m i.toks).1 s' ∧ (execToks env rfM m i.toks).2 = gl :=
  step_sim env rfM rfS hrf m s s' i gl hR h

/-- **Form XObjects**, any nesting: a form inherits the caller's graphics state (8.10.1). From
related initial states — the form interpreter `do_Do` prepares (Matrix × CTM, the caller's text
state, colours and colour spaces, empty stacks) against the caller's graphics state with
`Matrix cm` applied — a form the text model gives a meaning to produces the same glyphs in the
interpreter, within the nesting budget. -/
theorem C05_forms (env : Env) (fuel : Nat) (fm : Form) (m0 : MState) (gs : GS) (res : Res) (gl : List Glyph)
    (hR : R env m0 ⟨gs, [], none, res⟩) (h : TextModel.runForm env fuel fm gs res = some gl) :
    Interp.runForm env fuel fm m0 = (gl, true) :=
  runForm_agree env fuel fm m0 gs res gl hR h

/-- **Splitting the page content into several streams** (at token boundaries) changes nothing:
interpreting the streams one after the other is interpreting their concatenation — same final
state (operand stack included), same glyphs. -/
theorem C05_split (env : Env) (rf : Form → MState → List Glyph × Bool) (st : MState)
    (streams : List (List Tok)) :
    execStreams env rf st streams = execToks env rf st streams.flatten := by
  induction streams generalizing st with
  | nil => simp [execStreams, execToks]
  | cons s rest ih =>
    simp only [execStreams, List.flatten_cons]
    rw [execToks_append, ih]

/-- … in particular two splits of the same token sequence give the same page. -/
theorem C05_split_page (env : Env) (fuel : Nat) (ctm : Matrix) (res : Res) (s1 s2 : List (List Tok))
    (h : s1.flatten = s2.flatten) :
    Interp.runPage env fuel ctm res s1 = Interp.runPage env fuel ctm res s2 := by
  unfold Interp.runPage
  rw [C05_split, C05_split, h]

/-- **The property**: for every font table and form table `env`, every page CTM and resource
dictionary, every split of the page content into streams, if the ISO text model gives the
concatenated program a meaning (glyph list `gl`), then pdfminer's interpreter (as modelled) reports
exactly `gl` — same order, matrix, advance, box, size, font and fill colour — and the nesting budget
was not exhausted. Operands left over after the last operator of the page (`trail`) affect nothing.  By induction over the program (any length, any q/Q nesting, forms of any depth
≤ fuel). -/
theorem C05_program (env : Env) (fuel : Nat) (ctm : Matrix) (res : Res) (streams : List (List Tok))
    (is : List Instr) (trail : List Obj) (gl : List Glyph) (hparse : parseInstrs streams.flatten [] = (is, trail))
    (h : TextModel.runPage env fuel ctm res is = some gl) :
    (Interp.runPage env fuel ctm res streams).2 = gl ∧ (Interp.runPage env fuel ctm res streams).1.fuelOk = true := by
  have hsound := parseInstrs_sound' streams.flatten [] is trail hparse
  simp only [List.map_nil, List.nil_append] at hsound
  unfold Interp.runPage
  rw [C05_split, hsound, execToks_append, execToks_opnds]
  obtain ⟨h1, h2⟩ := stream_sim env (Interp.runForm env fuel) (TextModel.runForm env fuel) (runForm_agree env fuel)
    (MState.init ctm res) (GS.init ctm) res is gl (R_init env ctm res) h
  exact ⟨by simpa using h1, by simpa using h2⟩

/-! ## From bytes: the split theorem over the lexer model of C14 -/

/-- `PDFContentParser` over a `Contents` array — one scanner whose state survives every stream
boundary, positions restarting, a newline flushed at the very end — delivers exactly the tokens
of the concatenated data (`Lexer.specLex`, for which C14 proves `run = specLex` at every buffer
size). -/
theorem C05_lex_streams (streams : List Bytes) : lexStreams streams = vals (Lexer.specLex streams.flatten) :=
  lexStreams_eq streams

/-- **Splitting the bytes** of the page content over several streams — at white space, between
tokens, or anywhere else — yields the same token-level program, hence (with `C05_split`) the same
interpreter run. -/
theorem C05_split_bytes (s1 s2 : List Bytes) (h : s1.flatten = s2.flatten) : contentToks s1 = contentToks s2 := by
  unfold contentToks
  rw [lexStreams_eq, lexStreams_eq, h]

/-- ISO 32000-1 7.8.2 reads every stream of a `Contents` array on its own and allows cuts at token
boundaries only. At such a cut (the scanner is between two tokens after `a`: what white space
guarantees) both readings coincide: the tokens of `a ++ b` are the tokens of `a` followed by the
tokens of `b`, each lexed from the initial state. -/
theorem C05_split_at_token_boundary (a b : Bytes) (h : Between (Lexer.foldBytes Lexer.St.init a 0).1) :
    vals (Lexer.foldBytes Lexer.St.init (a ++ b) 0).2 =
      vals (Lexer.foldBytes Lexer.St.init a 0).2 ++ vals (Lexer.foldBytes Lexer.St.init b 0).2 :=
  (lex_cut_between a b h).1

/-- … and white space does guarantee it: when the first stream ends with a space or a newline
that follows a complete number, keyword/operator, name or delimiter (or other white space), reading
the two streams independently is reading their concatenation. -/
theorem C05_split_at_white_space (a b : Bytes) (c : UInt8) (hc : c = 32 ∨ c = 10)
    (hm : let st := (Lexer.foldBytes Lexer.St.init a 0).1
          st.mode = .main ∨ st.mode = .keyword ∨ st.mode = .number ∨ st.mode = .literal ∨ st.mode = .wclose) :
    vals (Lexer.foldBytes Lexer.St.init ((a ++ [c]) ++ b) 0).2 =
      vals (Lexer.foldBytes Lexer.St.init (a ++ [c]) 0).2 ++ vals (Lexer.foldBytes Lexer.St.init b 0).2 := by
  refine (lex_cut_between (a ++ [c]) b ?_).1
  rw [Lexer.foldBytes_append]
  simp only [Lexer.foldBytes]
  exact between_after_space _ c _ hc hm

/-- **The property from the bytes on**: when the byte-level front end (lexer model + assembler)
turns the streams into the program `is` and the text model gives it the meaning `gl`, the
interpreter run on those tokens reports exactly `gl`. -/
theorem C05_program_bytes (env : Env) (fuel : Nat) (ctm : Matrix) (res : Res) (streams : List Bytes)
    (toks : List Tok) (is : List Instr) (trail : List Obj) (gl : List Glyph) (hlex : contentToks streams = some toks)
    (hparse : parseInstrs toks [] = (is, trail)) (h : TextModel.runPage env fuel ctm res is = some gl) :
    (Interp.runPage env fuel ctm res [toks]).2 = gl ∧ (Interp.runPage env fuel ctm res [toks]).1.fuelOk = true :=
  C05_program env fuel ctm res [toks] is trail gl (by simpa using hparse) h

/-! ## The caller's state after a form is what it was before -/

/-- **Form frame** (interpreter): after `Do` the interpreter state of the caller is unchanged —
CTM, text state, colours, colour spaces, graphics stack, operand stack, resources — and the device
CTM is the caller's CTM again; only the budget flag can change. -/
theorem C05_form_frame (env : Env) (rf : Form → MState → List Glyph × Bool) (m : MState) (x : Obj) :
    (call env rf m .Do [x]).1 = { m with dctm := (call env rf m .Do [x]).1.dctm, fuelOk := (call env rf m .Do [x]).1.fuelOk } ∧
    (m.dctm = m.ctm → (call env rf m .Do [x]).1.dctm = m.ctm) := by
  cases x with
  | name n =>
    simp only [call]
    split
    · exact ⟨rfl, fun h => h⟩
    · split
      · exact ⟨rfl, fun h => h⟩
      · split
        · exact ⟨rfl, fun h => h⟩
        · exact ⟨rfl, fun _ => rfl⟩
  | num _ => exact ⟨rfl, fun h => h⟩
  | str _ => exact ⟨rfl, fun h => h⟩
  | arr _ => exact ⟨rfl, fun h => h⟩
  | null => exact ⟨rfl, fun h => h⟩
  | bool _ => exact ⟨rfl, fun h => h⟩

/-- **Form frame** (text model): `Do` leaves the caller's whole state as it was. -/
theorem C05_form_frame_spec (env : Env) (rf : Form → GS → Res → Option (List Glyph)) (s s' : SState) (x : Obj)
    (gl : List Glyph) (h : apply env rf s .Do [x] = some (s', gl)) : s' = s := by
  cases x <;> simp only [apply, reduceCtorEq] at h
  rename_i n
  split at h
  · simp at h
  · split at h
    · simp at h
    · split at h
      · simp at h
      · split at h
        · simp at h
        · simp only [Option.some.injEq, Prod.mk.injEq] at h
          exact h.1.symm

/-! ## Operators with missing or ill-typed operands affect nothing but themselves -/

/-- **Ill-typed / missing operands** (interpreter): an instruction whose operands are too few or
of the wrong type (no booleans, no excess operands) leaves the interpreter exactly in the state it
was in and shows nothing.  `gs` only supplies the current number of colour components for
`sc/scn/SC/SCN`. -/
theorem C05_illtyped (env : Env) (rf : Form → MState → List Glyph × Bool) (m : MState) (gs : GS) (i : Instr)
    (tys : List Ty) (hsig : sig gs i.op = some tys) (hlen : i.args.length ≤ tys.length) (hb : NoBool i.args)
    (hw : wellTyped tys i.args = false) (hargs : m.argstack = [])
    (hn : m.ncs.2 = gs.fillN) (hs : m.scs.2 = gs.strokeN)
    (hfn : 0 < gs.fillN) (hsn : 0 < gs.strokeN) :
    execToks env rf m i.toks = (m, []) := by
  rw [execToks_instr]
  exact illtyped_noop env rf m gs i.op tys i.args hsig hlen hb hw hargs hn hs hfn hsn

/-- … and the text model says the same by definition: such an instruction is a no-op there. -/
theorem C05_illtyped_spec (env : Env) (rf : Form → GS → Res → Option (List Glyph)) (s : SState) (i : Instr)
    (tys : List Ty) (hsig : sig s.gs i.op = some tys) (hall : allowed s.txt.isSome i.op = true)
    (hb : i.args.any Obj.isBool = false) (hlen : i.args.length ≤ tys.length) (hw : wellTyped tys i.args = false) :
    step env rf s i = some (s, []) := by
  unfold step
  have : ¬ tys.length < i.args.length := by omega
  simp [hsig, hall, hb, this, hw]

/-! ## Frame: operators outside the property's list change no glyph -/

/-- **Frame theorem, interpreter, unconditional**: a keyword that is not one of the 33 operators of
the property — path construction and painting, clipping `W W*`, marked content `BMC BDC EMC MP DP`,
`BX EX`, `sh`, the general graphics state operators, `BI ID EI`, and any unknown keyword — shows no
glyph and leaves every component of the interpreter and device state as it was, except that
`execute` takes the operands of the operator (a suffix of the operand stack) away.  For **every**
state, operand stack and form runner. -/
theorem C05_unlisted_frame (env : Env) (rf : Form → MState → List Glyph × Bool) (m : MState) (n : String) :
    ∃ k, execTok env rf m (.op (.other n)) = ({ m with argstack := m.argstack.take k }, []) := by
  have hc : ∀ (st : MState) (args : List Obj), call env rf st (Op.other n) args = (st, []) := by
    intro st args; simp [call]
  simp only [execTok]
  cases arity (Op.other n) with
  | none => exact ⟨m.argstack.length, by simp⟩
  | some k =>
    cases k with
    | zero => exact ⟨m.argstack.length, by simp [hc]⟩
    | succ k =>
      refine ⟨m.argstack.length - (k + 1), ?_⟩
      simp only [pop, hc]
      split <;> rfl

/-- **Frame theorem for the listed neutral operators** (Tables 57, 59–61, 77, 320, 32): with at most
the operands ISO gives them — of any type, `null`s included — the interpreter is afterwards in
exactly the state it was in: nothing is left on the operand stack either.  The operand count comes
from the regenerated `do_*` table (`neutral_arity`). -/
theorem C05_unlisted_noop (env : Env) (rf : Form → MState → List Glyph × Bool) (m : MState) (n : String) (k : Nat)
    (args : List Obj) (hk : neutralArity n = some k) (hlen : args.length ≤ k) (hargs : m.argstack = []) :
    execToks env rf m (Instr.toks ⟨.other n, args⟩) = (m, []) := by
  rw [execToks_instr]
  simp only
  rw [hargs, List.nil_append]
  have ha := neutral_arity n k hk
  have hle := pushed_length_le args
  have hc : ∀ (st : MState) (a : List Obj), call env rf st (Op.other n) a = (st, []) := by
    intro st a; simp [call]
  cases k with
  | zero =>
    have : args = [] := by
      cases args with
      | nil => rfl
      | cons a r => simp at hlen
    subst this
    rw [show pushed [] = [] from rfl, mstate_args_nil m hargs, execTok_zero env rf m _ ha, hc]
  | succ k =>
    by_cases hlt : (pushed args).length < k + 1
    · rw [execTok_short env rf m _ k _ ha hlt, mstate_args_nil m hargs]
    · rw [execTok_exact env rf m _ k _ ha (by omega), mstate_args_nil m hargs, hc]

/-- … and the text model: wherever it admits such an operator (Figure 9, operand count) the
operator changes neither the graphics state, the text object, the saved states nor the resources,
and shows nothing.  With `C05_step`/`C05_program` this puts every page that mixes text with
vector graphics, clipping and marked content inside the proved equality. -/
theorem C05_unlisted_spec (env : Env) (rf : Form → GS → Res → Option (List Glyph)) (s s' : SState) (n : String)
    (args : List Obj) (gl : List Glyph) (h : step env rf s ⟨.other n, args⟩ = some (s', gl)) : s' = s ∧ gl = [] := by
  obtain ⟨tys, _, _, _, _, hcase⟩ := step_inv h
  rcases hcase with ⟨_, rfl, rfl⟩ | ⟨_, happ⟩
  · exact ⟨rfl, rfl⟩
  · simp only [apply, Option.some.injEq, Prod.mk.injEq] at happ
    exact ⟨happ.1.symm, happ.2.symm⟩

/-- The text model admits each of them with at most the operand count of the ISO tables: at page
level all of them, inside a text object those Figure 9 allows there (general graphics state, marked
content, `BX EX`). -/
theorem C05_unlisted_admitted (env : Env) (rf : Form → GS → Res → Option (List Glyph)) (s : SState) (n : String)
    (k : Nat) (args : List Obj) (hk : neutralArity n = some k) (hlen : args.length ≤ k)
    (hb : args.any Obj.isBool = false) (hplace : s.txt = none ∨ neutralInText n = true) :
    step env rf s ⟨.other n, args⟩ = some (s, []) := by
  have hall : allowed s.txt.isSome (.other n) = true := by
    rcases hplace with h | h
    · simp [allowed, h, hk, isTextState, isColour]
    · cases ht : s.txt with
      | none => simp [allowed, hk, isTextState, isColour]
      | some t => simp [allowed, h, isTextState, isColour]
  unfold step
  simp only [sig, hk, Option.map_some, hall, Bool.not_true, Bool.false_eq_true, if_false, hb, List.length_replicate]
  have : ¬ k < args.length := by omega
  simp only [this, if_false]
  split
  · rfl
  · simp [apply]

/-- The instructions of a program that belong to the property's list. -/
def listed (is : List Instr) : List Instr := is.filter (fun i => match i.op with | .other _ => false | _ => true)

/-- **Frame theorem at program level** (text model): deleting every operator outside the property's
list — all vector graphics, clipping, marked content, general graphics state — from a program the
text model gives a meaning to leaves the meaning (final state and glyphs) as it is. -/
theorem C05_unlisted_erase (env : Env) (rf : Form → GS → Res → Option (List Glyph)) (is : List Instr) :
    ∀ (s s' : SState) (gl : List Glyph), runInstrs env rf s is = some (s', gl) →
      runInstrs env rf s (listed is) = some (s', gl) := by
  induction is with
  | nil => intro s s' gl h; simpa [listed] using h
  | cons i rest ih =>
    intro s s' gl h
    simp only [runInstrs] at h
    split at h
    · simp at h
    · rename_i s1 g1 h1
      split at h
      · simp at h
      · rename_i s2 g2 h2
        simp only [Option.some.injEq, Prod.mk.injEq] at h
        obtain ⟨rfl, rfl⟩ := h
        have ih' := ih s1 s2 g2 h2
        obtain ⟨op, args⟩ := i
        cases op
        case other n =>
          obtain ⟨rfl, rfl⟩ := C05_unlisted_spec env rf s s1 n args g1 h1
          simpa [listed] using ih'
        all_goals
          have ih'' : runInstrs env rf s1
              (List.filter (fun i => match i.op with | .other _ => false | _ => true) rest) = some (s2, g2) := ih'
          simp only [listed, List.filter_cons, ↓reduceIte, runInstrs, h1, ih'']

/-- … hence for whole pages, and with `C05_program` for pdfminer: the glyphs the interpreter reports
for a page that mixes text with such operators are the glyphs the text model assigns to the page
*without* them. -/
theorem C05_unlisted_erase_page (env : Env) (fuel : Nat) (ctm : Matrix) (res : Res) (streams : List (List Tok))
    (is : List Instr) (trail : List Obj) (gl : List Glyph) (hparse : parseInstrs streams.flatten [] = (is, trail))
    (h : TextModel.runPage env fuel ctm res is = some gl) :
    TextModel.runPage env fuel ctm res (listed is) = some gl ∧ (Interp.runPage env fuel ctm res streams).2 = gl := by
  refine ⟨?_, (C05_program env fuel ctm res streams is trail gl hparse h).1⟩
  unfold TextModel.runPage runStream at h ⊢
  split at h
  · simp at h
  · rename_i s' gl' hrun
    rw [C05_unlisted_erase env _ is _ s' gl' hrun]
    exact h

/-! ## The rules of 9.3–9.4, stated on the interpreter alone -/

/-- Showing one string, horizontal writing: the pen moves by `tx = (w0·Tfs + Tc + Tw?)·Th` per
glyph — character spacing after every glyph, also the last one (the `needcharspace` defect of the
pinned code); word spacing only for single-byte fonts. -/
theorem C05_string_displacement (f : Font) (M : Matrix) (gs : GS) (y x : Rat) (codes : List Nat)
    (hv : f.vertical = false) :
    showCodes f gs (translate_matrix M (x, y)) codes =
      (translate_matrix M
        ((renderCodes f (mult_matrix M gs.ctm) gs.Tfs (rs_scaling gs.Th) (rs_charspace gs.Tc (rs_scaling gs.Th))
            (wsOf f gs) gs.Trise gs.fill y x codes).1, y),
       (renderCodes f (mult_matrix M gs.ctm) gs.Tfs (rs_scaling gs.Th) (rs_charspace gs.Tc (rs_scaling gs.Th))
            (wsOf f gs) gs.Trise gs.fill y x codes).2) :=
  renderCodes_showCodes f M gs y codes hv x

/-- Vertical writing (composite fonts): the pen moves *down the y axis* by `ty = w1·Tfs + Tc` per
glyph, **not** scaled by Th (`render_string_vertical` after the fix; the pinned code multiplied the
advance, Tc and TJ adjustments by Tz/100). -/
theorem C05_string_displacement_vertical (f : Font) (M : Matrix) (gs : GS) (y x : Rat) (codes : List Nat)
    (hv : f.vertical = true) (hm : f.multibyte = true) :
    showCodes f gs (translate_matrix M (x, y)) codes =
      (translate_matrix M (x,
        (renderCodesV f (mult_matrix M gs.ctm) gs.Tfs (rs_scaling gs.Th) (rs_charspace_v gs.Tc (rs_scaling gs.Th))
            (wsOf f gs) gs.Trise gs.fill x y codes).1),
       (renderCodesV f (mult_matrix M gs.ctm) gs.Tfs (rs_scaling gs.Th) (rs_charspace_v gs.Tc (rs_scaling gs.Th))
            (wsOf f gs) gs.Trise gs.fill x y codes).2) :=
  renderCodesV_showCodes f M gs x codes hv hm y

/-- Type 3 fonts: the scales pdfminer takes from the FontMatrix (`apply_matrix_norm`, regenerated
from `PDFType3Font.__init__`) are its `a` and `d` entries, i.e. a glyph-space displacement `(w, 0)`
becomes `w·a` in text space (9.6.5) whatever the skew terms are; all other fonts use 1/1000. -/
theorem C05_font_scale (f : Font) : fontHScale f = f.hscale ∧ fontVScale f = f.vscale :=
  fontScale_eq f

/-- The glyph `LTChar.__init__` builds is the glyph of the text model: matrix `Tm × CTM`,
advance `w0·Tfs·Th` (vertical writing: `w1·Tfs`), the glyph box under that matrix — for simple,
Type 3 and CID fonts in both writing modes. -/
theorem C05_glyph (f : Font) (M : Matrix) (gs : GS) (x y : Rat) (c : Nat) :
    ltchar (translate_matrix (mult_matrix M gs.ctm) (x, y)) f gs.Tfs (rs_scaling gs.Th) gs.Trise c gs.fill
      = observe (mult_matrix (translate_matrix M (x, y)) gs.ctm) f gs c :=
  ltchar_eq_observe f M gs.ctm gs x y c rfl

/-- **The glyph box for every matrix** — negative scales (mirrored text), rotations, skews,
singular matrices: `LTChar.bbox` is the bounding box of the four corners of the text-space glyph box
(`ltcharBox`: regenerated formulas of `LTChar.__init__`) under `render_char`'s matrix: it is
`apply_matrix_rect` (the swaps after it never fire), it contains all four transformed corners,
each of its sides passes through one of them, `size` is its height (vertical writing: its width)
and is never negative. -/
theorem C05_glyph_bbox (matrix : Matrix) (f : Font) (fs sc rise : Rat) (c : Nat) (col : Option Color) :
    let g := ltchar matrix f fs sc rise c col
    let box := ltcharBox f fs sc rise c
    g.bbox = apply_matrix_rect matrix box ∧
    (∀ p ∈ corners matrix box, g.bbox.1 ≤ p.1 ∧ p.1 ≤ g.bbox.2.2.1 ∧ g.bbox.2.1 ≤ p.2 ∧ p.2 ≤ g.bbox.2.2.2) ∧
    ((∃ p ∈ corners matrix box, p.1 = g.bbox.1) ∧ (∃ p ∈ corners matrix box, p.2 = g.bbox.2.1) ∧
     (∃ p ∈ corners matrix box, p.1 = g.bbox.2.2.1) ∧ (∃ p ∈ corners matrix box, p.2 = g.bbox.2.2.2)) ∧
    g.size = (if f.vertical then g.bbox.2.2.1 - g.bbox.1 else g.bbox.2.2.2 - g.bbox.2.1) ∧ 0 ≤ g.size := by
  intro g box
  obtain ⟨hb, hs⟩ := ltchar_bbox_eq matrix f fs sc rise c col
  have ho := rect_ordered matrix box
  refine ⟨hb, ?_, ?_, ?_, ?_⟩
  · rw [show g.bbox = _ from hb]; exact rect_contains matrix box
  · rw [show g.bbox = _ from hb]; exact rect_tight matrix box
  · rw [show g.bbox = _ from hb]; exact hs
  · rw [show g.size = _ from hs]
    split
    · have := ho.1; grind
    · have := ho.2; grind

/-- Closed form for axis-parallel matrices `[a 0 0 d e f]` with **any signs** of `a`, `d`: horizontal
writing, box `(0, lo, adv, lo + Tfs)` ↦ x from `e` to `a·adv + e`, y from `d·lo + f` to
`d·(lo + Tfs) + f`, each pair ordered by min/max; the reported size is `|d·Tfs|`. -/
theorem C05_glyph_bbox_axis (a d e f' : Rat) (f : Font) (fs sc rise : Rat) (c : Nat) (col : Option Color)
    (hv : f.vertical = false) :
    let g := ltchar (a, 0, 0, d, e, f') f fs sc rise c col
    let lo := ltchar_descent (font_get_descent f.descent (fontVScale f)) fs + rise
    g.bbox = (min e (a * g.adv + e), min (d * lo + f') (d * (lo + fs) + f'),
              max e (a * g.adv + e), max (d * lo + f') (d * (lo + fs) + f')) ∧
    g.size = (if 0 ≤ d * fs then d * fs else -(d * fs)) := by
  intro g lo
  obtain ⟨hb, hs⟩ := ltchar_bbox_eq (a, 0, 0, d, e, f') f fs sc rise c col
  have hadv : g.adv = ltchar_adv (charWidth f c) fs sc := by
    rw [show g.adv = _ from ltchar_adv_eq _ f fs sc rise c col]; simp [hv]
  have hbox : ltcharBox f fs sc rise c = (0, lo, g.adv, lo + fs) := by
    simp only [ltcharBox, hv, Bool.false_eq_true, if_false, ltchar_bbox_h, hadv, lo]
  rw [hbox, rect_axis] at hb hs
  simp only [hv, Bool.false_eq_true, if_false] at hs
  refine ⟨by rw [show g.bbox = _ from hb]; simp only [Prod.mk.injEq]; refine ⟨?_, ?_, ?_, ?_⟩ <;> grind, ?_⟩
  rw [show g.size = _ from hs]
  split <;> grind

/-- Closed form for quarter turns `[0 b c 0 e f]` (text running up or down the page): the box's x
range comes from the glyph's height and its y range from the advance — the reported `size` (box
height) is then `|b·adv|`, the length of the advance, not the font size. -/
theorem C05_glyph_bbox_quarter (b c' e f' : Rat) (f : Font) (fs sc rise : Rat) (c : Nat) (col : Option Color)
    (hv : f.vertical = false) :
    let g := ltchar (0, b, c', 0, e, f') f fs sc rise c col
    let lo := ltchar_descent (font_get_descent f.descent (fontVScale f)) fs + rise
    g.bbox = (min (c' * lo + e) (c' * (lo + fs) + e), min f' (b * g.adv + f'),
              max (c' * lo + e) (c' * (lo + fs) + e), max f' (b * g.adv + f')) ∧
    g.size = (if 0 ≤ b * g.adv then b * g.adv else -(b * g.adv)) := by
  intro g lo
  obtain ⟨hb, hs⟩ := ltchar_bbox_eq (0, b, c', 0, e, f') f fs sc rise c col
  have hadv : g.adv = ltchar_adv (charWidth f c) fs sc := by
    rw [show g.adv = _ from ltchar_adv_eq _ f fs sc rise c col]; simp [hv]
  have hbox : ltcharBox f fs sc rise c = (0, lo, g.adv, lo + fs) := by
    simp only [ltcharBox, hv, Bool.false_eq_true, if_false, ltchar_bbox_h, hadv, lo]
  rw [hbox, rect_quarter] at hb hs
  simp only [hv, Bool.false_eq_true, if_false] at hs
  refine ⟨by rw [show g.bbox = _ from hb]; simp only [Prod.mk.injEq]; refine ⟨?_, ?_, ?_, ?_⟩ <;> grind, ?_⟩
  rw [show g.size = _ from hs]
  split <;> grind

/-- **`LTChar.upright`** (regenerated from `LTChar.__init__`) is the text model's `uprightOf` of the
text rendering matrix and `Th`, for every matrix; `C05_program` now also equates this field. -/
theorem C05_glyph_upright (matrix : Matrix) (f : Font) (fs th rise : Rat) (c : Nat) (col : Option Color) :
    (ltchar matrix f fs (rs_scaling th) rise c col).upright = uprightOf matrix th := by
  obtain ⟨a, b, c', d, e, f'⟩ := matrix
  simp only [ltchar]
  exact upright_eq (a, b, c', d, e, f') th

/-- What that means: under an axis-parallel matrix (positive `Th`) a glyph is upright exactly when it
is not mirrored in one axis only (`a·d > 0`: `[-1 0 0 -1]`, text turned by 180°, counts as upright);
under a quarter turn it never is. -/
theorem C05_upright_axis (a d e f th : Rat) (hth : 0 < th) :
    uprightOf (a, 0, 0, d, e, f) th = decide (0 < a * d) := by
  simp only [uprightOf]
  have h : (0 < a * d * (th / 100)) = (0 < a * d) := by
    apply propext
    have h100 : th / 100 = th * (1 / 100) := by grind
    constructor
    · intro h
      by_cases hp : 0 < a * d
      · exact hp
      · have : a * d * (th / 100) ≤ 0 := by
          have h1 : a * d ≤ 0 := by grind
          have h2 : 0 ≤ th / 100 := by grind
          have h3 : 0 ≤ (-(a * d)) * (th / 100) := Rat.mul_nonneg (by grind) h2
          grind
        grind
    · intro h
      exact Rat.mul_pos h (by grind)
  simp [h]

theorem C05_upright_quarter (b c e f th : Rat) : uprightOf (0, b, c, 0, e, f) th = false := by
  simp [uprightOf]

/-! ## The nesting budget is only a bound -/

/-- Raising the budget never changes a result already obtained (text model). -/
theorem C05_fuel_stable (env : Env) (fuel k : Nat) (ctm : Matrix) (res : Res) (is : List Instr) (gl : List Glyph)
    (h : TextModel.runPage env fuel ctm res is = some gl) : TextModel.runPage env (fuel + k) ctm res is = some gl := by
  induction k with
  | zero => exact h
  | succ k ih =>
    unfold TextModel.runPage runStream at ih ⊢
    split at ih
    · simp at ih
    · rename_i s' gl' hrun
      have := runInstrs_mono env (runForm_fuel_mono env (fuel + k)) is _ _ hrun
      rw [show fuel + (k + 1) = fuel + k + 1 from rfl, this]
      exact ih

/-- … and so the interpreter reports the text model's glyphs at every larger budget too: a page
whose forms nest at most `fuel` deep is handled identically for all budgets ≥ `fuel`. -/
theorem C05_program_any_budget (env : Env) (fuel k : Nat) (ctm : Matrix) (res : Res) (streams : List (List Tok))
    (is : List Instr) (trail : List Obj) (gl : List Glyph) (hparse : parseInstrs streams.flatten [] = (is, trail))
    (h : TextModel.runPage env fuel ctm res is = some gl) :
    (Interp.runPage env (fuel + k) ctm res streams).2 = gl ∧
      (Interp.runPage env (fuel + k) ctm res streams).1.fuelOk = true :=
  C05_program env (fuel + k) ctm res streams is trail gl hparse (C05_fuel_stable env fuel k ctm res is gl h)

/-- **A stated budget always suffices**: a budget of `env.forms.length + 1` — linear in the size
of the document — is never exhausted, for any page program and any form table at all, cyclic ones
included: pdfminer ignores a form that is already being painted (`active_forms`), so the nesting
cannot exceed the number of forms. -/
theorem C05_budget_suffices (env : Env) (fuel : Nat) (hfuel : env.forms.length < fuel)
    (ctm : Matrix) (res : Res) (streams : List (List Tok)) :
    (Interp.runPage env fuel ctm res streams).1.fuelOk = true := by
  unfold Interp.runPage
  rw [C05_split]
  refine (execToks_inv env (Interp.runForm env fuel) res ?_ streams.flatten (MState.init ctm res) rfl rfl).2
  intro j fm hfm hact st0 hst0 hres0
  have hfree : freeForms env st0.res.active ≤ env.forms.length := by
    unfold freeForms
    exact Nat.le_trans (List.length_filter_le _ _) (by simp)
  exact runForm_budget env env.forms.length fm st0 fuel hfree hfuel hst0

/-! ## Non-vacuity: the hypotheses are met by non-trivial instances -/

private def exFont : Font := ⟨"VfD0", 32, [250, 500, 504, 508], 300, -200, none, false, false, [], 880⟩

/-- An Identity-V CID font: w1y = −1000 for CIDs 1–2 (position vector (500, 880)), DW2 = [880 −900]. -/
private def exFontV : Font := ⟨"VfV0", 1, [-1000, -1000], -900, -120, none, true, true, [(500, 880), (500, 880)], 880⟩

/-- A form that relies on what it inherits (font, size, fill colour): `BT 1 2 Td (!) Tj ET`. -/
private def exFormProg : List Instr :=
  [⟨.BT, []⟩, ⟨.Td, [.num 1, .num 2]⟩, ⟨.Tj, [.str [33]]⟩, ⟨.ET, []⟩]
private def exForm : Form := ⟨some (2, 0, 0, 2, 50, 60), some ⟨[("F1", 0)], [], [], []⟩, exFormProg.flatMap Instr.toks⟩
private def exEnv : Env := ⟨[exFont, exFontV], [exForm]⟩
private def exRes : Res := ⟨[("F1", 0), ("V1", 1)], [("X0", 0)], [("CS1", ("DeviceCMYK", 4)), ("Sep", ("Separation", 1))], []⟩

/-- `q 1 0 0 1 10 20 cm /X0 Do Q BT /F1 10 Tf 1 0 0 1 100 700 Tm 2 Tc 3 Tw 50 Tz 12 TL (! ) Tj
/x 5 Td 1 2 (") " [-100 (#)] TJ ET` — a form with a Matrix, then caller text; Tc/Tw/Tz; an
ill-typed `Td`; the `"` operator; a TJ adjustment. -/
private def exProg : List Instr :=
  [⟨.Tf, [.name "F1", .num 8]⟩, ⟨.rg, [.num 1, .num 0, .num (1/2)]⟩,
   ⟨.q, []⟩, ⟨.cm, [.num 1, .num 0, .num 0, .num 1, .num 10, .num 20]⟩, ⟨.Do, [.name "X0"]⟩, ⟨.Q, []⟩,
   ⟨.BT, []⟩, ⟨.Tf, [.name "F1", .num 10]⟩, ⟨.Tm, [.num 1, .num 0, .num 0, .num 1, .num 100, .num 700]⟩,
   ⟨.Tc, [.num 2]⟩, ⟨.Tw, [.num 3]⟩, ⟨.Tz, [.num 50]⟩, ⟨.TL, [.num 12]⟩,
   ⟨.Tj, [.str [33, 32]]⟩, ⟨.Td, [.name "x", .num 5]⟩, ⟨.dquote, [.num 1, .num 2, .str [34]]⟩,
   ⟨.TJ, [.arr [.num (-100), .str [35]]]⟩, ⟨.ET, []⟩]

/-- The text model gives this page a meaning: five glyphs (hypothesis `h` of `C05_program`). -/
example : (TextModel.runPage exEnv 3 MATRIX_IDENTITY exRes exProg).map List.length = some 5 := by decide +kernel

/-- Its token sequence, split into two streams in the middle of the operands of `cm`, parses back
to the program (hypothesis `hparse`). -/
example : parseInstrs [(exProg.flatMap Instr.toks).take 11, (exProg.flatMap Instr.toks).drop 11].flatten []
    = (exProg, []) := by decide +kernel

/-- The glyph origins the text model assigns: the form's glyph under `Matrix × cm × CTM`, then the
caller's line at (100,700) with `tx = (w0·Tfs + Tc + Tw)·Th`, then the next line 12 below. -/
example : (TextModel.runPage exEnv 3 MATRIX_IDENTITY exRes exProg).map (fun l => l.map (fun g => (g.m.2.2.2.2.1, g.m.2.2.2.2.2)))
    = some [(62, 84), (100, 700), (207 / 2, 700), (100, 688), (5201 / 50, 688)] := by decide +kernel

/-- The form's glyph carries the font size 8 and the fill colour it inherited from the page. -/
example : (TextModel.runPage exEnv 3 MATRIX_IDENTITY exRes exProg).map (fun l => l.head?.map (fun g => (g.size, g.col)))
    = some (some (16, some [1, 0, 1/2])) := by decide +kernel

/-- Vertical writing with `50 Tz 2 Tc`: `BT /V1 10 Tf 50 Tz 2 Tc <00010003> Tj [100 <0002>] TJ ET` —
three glyphs going down by `w1·Tfs + Tc` = −8, then −7 (DW2), then the TJ adjustment −1; Tz has no
effect (hypotheses of `C05_string_displacement_vertical` and of `C05_program` are satisfiable). -/
example : (TextModel.runPage exEnv 3 MATRIX_IDENTITY exRes
      [⟨.BT, []⟩, ⟨.Tf, [.name "V1", .num 10]⟩, ⟨.Tz, [.num 50]⟩, ⟨.Tc, [.num 2]⟩, ⟨.Tj, [.str [0, 1, 0, 3]]⟩,
       ⟨.TJ, [.arr [.num 100, .str [0, 2]]]⟩, ⟨.ET, []⟩]).map
      (fun l => l.map (fun g => (g.m.2.2.2.2.1, g.m.2.2.2.2.2, g.adv)))
    = some [(0, 0, -10), (0, -8, -9), (0, -16, -10)] := by decide +kernel

example : exFontV.vertical = true ∧ exFontV.multibyte = true := by decide

/-- A Type 3 font with a skewed FontMatrix `[1/512 0 1/1024 1/1024 0 0]`: width 512 advances by
`512·(1/512)·Tfs = 8` at size 8, however large the skew term `c` is. -/
example : (TextModel.runPage ⟨[⟨"VfT1", 65, [512, 1024], 0, -128, some (1/512, 0, 1/1024, 1/1024, 0, 0), false, false, [], 880⟩], []⟩
      1 MATRIX_IDENTITY ⟨[("T3", 0)], [], [], []⟩
      [⟨.BT, []⟩, ⟨.Tf, [.name "T3", .num 8]⟩, ⟨.Tj, [.str [65, 66]]⟩, ⟨.ET, []⟩]).map
      (fun l => l.map (fun g => (g.m.2.2.2.2.1, g.adv)))
    = some [(0, 8), (8, 16)] := by decide +kernel

private def asciiBytes (s : String) : Bytes := s.toList.map (fun c => UInt8.ofNat c.toNat)

/-- Bytes `BT /F1 10 Tf (A) T` + `j 1.5 0 Td [(B) -20] TJ ET` (cut in the middle of the operator `Tj`):
the front end assembles the program (hypothesis `hlex` of `C05_program_bytes`), the same as for the
uncut bytes (`C05_split_bytes`). -/
example : contentToks [asciiBytes "BT /F1 10 Tf (A) T", asciiBytes "j 1.5 0 Td [(B) -20] TJ ET"]
    = some ([⟨.BT, []⟩, ⟨.Tf, [.name "F1", .num 10]⟩, ⟨.Tj, [.str [65]]⟩, ⟨.Td, [.num (3/2), .num 0]⟩,
             ⟨.TJ, [.arr [.str [66], .num (-20)]]⟩, ⟨.ET, []⟩].flatMap Instr.toks) := by decide +kernel

/-- After `(A) Tj ` (white space last) the scanner is between tokens (hypothesis of
`C05_split_at_token_boundary`); after `(A) T` it is not. -/
example : Between (Lexer.foldBytes Lexer.St.init (asciiBytes "(A) Tj ") 0).1 := by
  unfold Between; decide +kernel

/-- After `1 0 0 1 5 5 cm` the scanner is in keyword mode (hypothesis of `C05_split_at_white_space`). -/
example : (Lexer.foldBytes Lexer.St.init (asciiBytes "1 0 0 1 5 5 cm") 0).1.mode = .keyword := by decide +kernel

example : ¬ Between (Lexer.foldBytes Lexer.St.init (asciiBytes "(A) T") 0).1 := by
  unfold Between; decide +kernel

/-- Colour-space resources: `/CS1 cs` (a DeviceCMYK alias of the page's resources) selects `0 0 0 1`,
`/Sep cs` tint 1, `/Nope cs` (defined nowhere) is ignored, and inside the form — whose own
resources do not define `/CS1` — `/CS1 cs` is ignored as well. -/
example : (TextModel.runPage ⟨[exFont], [⟨none, some ⟨[("F1", 0)], [], [], []⟩,
        [⟨.cs, [.name "CS1"]⟩, ⟨.BT, []⟩, ⟨.Tj, [.str [33]]⟩, ⟨.ET, []⟩].flatMap Instr.toks⟩]⟩ 3 MATRIX_IDENTITY
      ⟨[("F1", 0)], [("X0", 0)], [("CS1", ("DeviceCMYK", 4)), ("Sep", ("Separation", 1))], []⟩
      [⟨.Tf, [.name "F1", .num 10]⟩, ⟨.g, [.num (1/2)]⟩, ⟨.Do, [.name "X0"]⟩,
       ⟨.cs, [.name "CS1"]⟩, ⟨.BT, []⟩, ⟨.Tj, [.str [33]]⟩, ⟨.cs, [.name "Sep"]⟩, ⟨.Tj, [.str [33]]⟩,
       ⟨.cs, [.name "Nope"]⟩, ⟨.Tj, [.str [33]]⟩, ⟨.ET, []⟩]).map (fun l => l.map (·.col))
    = some [some [1/2], some [0, 0, 0, 1], some [1], some [1]] := by decide +kernel

/-- An instruction with an ill-typed operand that meets the hypotheses of `C05_illtyped`. -/
example : sig (GS.init MATRIX_IDENTITY) Op.Td = some [Ty.num, Ty.num] ∧
    wellTyped [Ty.num, Ty.num] [Obj.name "x", Obj.num 5] = false := by decide

/-- A form that invokes itself: the interpreter ignores the inner invocation (the text model gives
such a page no meaning) and shows the form's own glyph once; the budget is not exhausted
(`C05_budget_suffices` needs no hypothesis on the form table). -/
example :
    let selfForm : Form := ⟨none, none, [Tok.opnd (.name "X0"), Tok.op .Do, Tok.op .BT, Tok.opnd (.str [33]), Tok.op .Tj, Tok.op .ET]⟩
    let env : Env := ⟨[exFont], [selfForm]⟩
    let r := Interp.runPage env 2 MATRIX_IDENTITY ⟨[("F1", 0)], [("X0", 0)], [], []⟩
      [[Tok.opnd (.name "F1"), Tok.opnd (.num 10), Tok.op .Tf, Tok.opnd (.name "X0"), Tok.op .Do]]
    r.2.length = 1 ∧ r.1.fuelOk = true ∧
      TextModel.runPage env 5 MATRIX_IDENTITY ⟨[("F1", 0)], [("X0", 0)], [], []⟩
        [⟨.Tf, [.name "F1", .num 10]⟩, ⟨.Do, [.name "X0"]⟩] = none := by decide +kernel

/-- A page mixing text with vector graphics, clipping, marked content and general graphics state:
`/F1 10 Tf q 0 0 10 10 re W n /Span BMC 2 w [3] 0 d BT /P /MC0 BDC 1 J 5 6 Td (!) Tj EMC ET EMC 0 0 m 5 5 l S
1 2 3 4 5 6 c h f* /Sh0 sh re Q` (the last `re` has lost its operands) — the text model gives it the
one glyph of the page without these operators, at the same place (hypotheses of
`C05_unlisted_spec`, `C05_unlisted_admitted` and `C05_program` are met by a non-trivial page). -/
private def exMixed : List Instr :=
  [⟨.Tf, [.name "F1", .num 10]⟩, ⟨.q, []⟩, ⟨.other "re", [.num 0, .num 0, .num 10, .num 10]⟩, ⟨.other "W", []⟩,
   ⟨.other "n", []⟩, ⟨.other "BMC", [.name "Span"]⟩, ⟨.other "w", [.num 2]⟩, ⟨.other "d", [.arr [.num 3], .num 0]⟩,
   ⟨.BT, []⟩, ⟨.other "BDC", [.name "P", .name "MC0"]⟩, ⟨.other "J", [.num 1]⟩, ⟨.Td, [.num 5, .num 6]⟩,
   ⟨.Tj, [.str [33]]⟩, ⟨.other "EMC", []⟩, ⟨.ET, []⟩, ⟨.other "EMC", []⟩,
   ⟨.other "m", [.num 0, .num 0]⟩, ⟨.other "l", [.num 5, .num 5]⟩, ⟨.other "S", []⟩,
   ⟨.other "c", [.num 1, .num 2, .num 3, .num 4, .num 5, .num 6]⟩, ⟨.other "h", []⟩, ⟨.other "f_a", []⟩,
   ⟨.other "sh", [.name "Sh0"]⟩, ⟨.other "re", []⟩, ⟨.Q, []⟩]

example : (TextModel.runPage exEnv 3 MATRIX_IDENTITY exRes exMixed).map (fun l => l.map (fun g => (g.m.2.2.2.2.1, g.m.2.2.2.2.2)))
    = some [(5, 6)] ∧
    TextModel.runPage exEnv 3 MATRIX_IDENTITY exRes exMixed =
      TextModel.runPage exEnv 3 MATRIX_IDENTITY exRes
        (listed exMixed) ∧
    (listed exMixed).length = 7 ∧ exMixed.length = 25 := by decide +kernel

/-- … and the interpreter reports the same glyph (`C05_program` instantiated). -/
example : (Interp.runPage exEnv 3 MATRIX_IDENTITY exRes [exMixed.flatMap Instr.toks]).2.map (fun g => (g.m.2.2.2.2.1, g.m.2.2.2.2.2))
    = [(5, 6)] := by decide +kernel

/-- Path painting inside a text object is outside Figure 9: the text model gives no meaning, while
marked content and `w` are admitted there. -/
example : neutralArity "re" = some 4 ∧ neutralArity "BDC" = some 2 ∧ neutralArity "xyz" = none ∧
    allowed true (.other "re") = false ∧ allowed true (.other "BMC") = true ∧ allowed false (.other "re") = true := by
  decide +kernel

/-- `C05_unlisted_frame` on a state with operands: `1 2 3 re` takes all three away, `7 xyz` none. -/
example : (execTok exEnv (fun _ _ => ([], true)) { MState.init MATRIX_IDENTITY exRes with argstack := [.num 1, .num 2, .num 3] }
      (.op (.other "re"))).1.argstack = [] ∧
    (execTok exEnv (fun _ _ => ([], true)) { MState.init MATRIX_IDENTITY exRes with argstack := [.num 7] }
      (.op (.other "xyz"))).1.argstack = [.num 7] := by decide +kernel

/-- `C05_glyph_bbox*` on concrete glyphs of `exFont` (width 500 for code 33, descent −200) at size 10:
mirrored `[-2 0 0 3 100 50]` — the box runs from x = 90 to 100; upside down `[1 0 0 -1 0 0]`; a
quarter turn `[0 1 -1 0 40 60]` — size 5 = the advance; a 45°-like rotation-with-scale `[1 1 -1 1 0 0]`. -/
example : (ltchar (-2, 0, 0, 3, 100, 50) exFont 10 1 0 33 none).bbox = (90, 44, 100, 74) ∧
    (ltchar (-2, 0, 0, 3, 100, 50) exFont 10 1 0 33 none).size = 30 ∧
    (ltchar (1, 0, 0, -1, 0, 0) exFont 10 1 2 33 none).bbox = (0, -10, 5, 0) ∧
    (ltchar (0, 1, -1, 0, 40, 60) exFont 10 1 0 33 none).bbox = (32, 60, 42, 65) ∧
    (ltchar (0, 1, -1, 0, 40, 60) exFont 10 1 0 33 none).size = 5 ∧
    (ltchar (1, 1, -1, 1, 0, 0) exFont 10 1 0 33 none).bbox = (-8, -2, 7, 13) ∧
    ltcharBox exFont 10 1 0 33 = (0, -2, 5, 8) ∧
    corners (1, 1, -1, 1, 0, 0) (0, -2, 5, 8) = [(2, -2), (7, 3), (-3, 13), (-8, 8)] := by decide +kernel

/-- `upright` on concrete glyphs: plain and 180° text are, mirrored, quarter-turned and text under a
negative `Tz` are not; a rotation by less than 90° (`[4/5 3/5 -3/5 4/5]`) is. -/
example : (ltchar (2, 0, 0, 2, 10, 20) exFont 10 (rs_scaling 100) 0 33 none).upright = true ∧
    (ltchar (-1, 0, 0, -1, 10, 20) exFont 10 (rs_scaling 100) 0 33 none).upright = true ∧
    (ltchar (-2, 0, 0, 3, 100, 50) exFont 10 (rs_scaling 100) 0 33 none).upright = false ∧
    (ltchar (0, 1, -1, 0, 40, 60) exFont 10 (rs_scaling 100) 0 33 none).upright = false ∧
    (ltchar (2, 0, 0, 2, 10, 20) exFont 10 (rs_scaling (-100)) 0 33 none).upright = false ∧
    (ltchar (4/5, 3/5, -3/5, 4/5, 0, 0) exFont 10 (rs_scaling 100) 0 33 none).upright = true := by decide +kernel

/-- The initial states are related (hypothesis `hR` of `C05_step` is satisfiable). -/
example : R exEnv (MState.init MATRIX_IDENTITY exRes) ⟨GS.init MATRIX_IDENTITY, [], none, exRes⟩ :=
  R_init exEnv MATRIX_IDENTITY exRes

end PdfVerif.Props.C05
