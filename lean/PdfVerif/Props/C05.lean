/-
C05 — property theorems: the interpreter model (what pdfminer does) against the ISO 32000-1 text model.
-/
import PdfVerif.Lemmas.Interp

namespace PdfVerif.Props.C05
open PdfVerif PdfVerif.Content PdfVerif.Interp PdfVerif.Gen.Utils PdfVerif.Gen.Interp

/-- Splitting the page's content into several streams (at token boundaries) changes nothing:
interpreting the streams one after the other is interpreting their concatenation — same final
state (operand stack included), same glyphs. -/
theorem C05_split (env : Env) (rf : Form → Matrix → Res → List Glyph × Bool) (st : MState)
    (streams : List (List Tok)) :
    execStreams env rf st streams = execToks env rf st streams.flatten := by
  induction streams generalizing st with
  | nil => simp [execStreams, execToks]
  | cons s rest ih =>
    simp only [execStreams, List.flatten_cons]
    rw [execToks_append, ih]

end PdfVerif.Props.C05
