/-
C06 — Simple fonts: code -> Unicode / width follow encoding, glyph names, ToUnicode.

Model: `PdfVerif.Model.SimpleFont` (hand model of encodingdb.py / pdffont.py / cmapdb.py, tied to the
implementation by tools/harness/props/c06.py through real PDF files).  Specification:
`PdfVerif.Spec.SimpleFont` (AGL section 2; last Differences assignment else base table; ToUnicode >
encoding > `(cid:N)`; Widths > standard-14 metric > MissingWidth; x 1/1000 or x FontMatrix[0]).
All theorems are parametric in the tables (glyph list, ENCODING rows, EncodingDB columns, metrics);
`TablesOK` lists the table facts used; `tables_ok` proves them in the kernel for the tables regenerated
from the Python source, and the `…_pdfminer` theorems are the instances for exactly the tables and the
`EncodingDB` the driver runs.

Only property theorems live here (helper lemmas: `Lemmas/SimpleFont.lean`, `Lemmas/Agl.lean`).
-/
import PdfVerif.Lemmas.SimpleFontBuild
import PdfVerif.Lemmas.Agl
import PdfVerif.Lemmas.SimpleFontInst
import PdfVerif.Lemmas.Type1Roundtrip
import PdfVerif.Lemmas.AglExact
import PdfVerif.Lemmas.Utf8

namespace PdfVerif.Props.C06
open PdfVerif PdfVerif.SimpleFont PdfVerif.SimpleFont.Spec PdfVerif.Gen.FontCode

/-- Facts about the tables that the theorems use. -/
structure TablesOK (T : Tables) : Prop where
  /-- no glyph-list entry has an empty value -/
  glyphs : GlyphListOK T.gl
  /-- every glyph name of the ENCODING rows has a value … -/
  rowsResolve : RowsResolve T.gl T.rows
  /-- … and is an ordinary name (no lenient component, no partially unknown components) -/
  rowsJudged : ∀ r ∈ T.rows, judgedName T.gl (some r.1) = true

/-! ## Glyph names -/

/-- `name2unicode` is the Adobe Glyph List algorithm on every judged name (every name except those with a
lower-case `uni`/`u` hexadecimal component and those where only some components are unknown):
list names, `uniXXXX…`, `uXXXX`–`uXXXXXX`, components, suffixes - and every ill-formed name has no value. -/
theorem agl_grammar (gl : GlyphList) (hgl : GlyphListOK gl) (nm : Option Name)
    (hj : judgedName gl nm = true) : name2unicode gl nm = aglText gl nm :=
  name2unicode_eq_aglText hgl nm hj

/-- The statement of the design: on every glyph name of the grammar (list names, `uniXXXX`+, `uXXXX`-`uXXXXXX`,
underscore-joined components, suffix after the first period dropped) `name2unicode` returns the - non-empty -
character string of the Adobe Glyph List algorithm. -/
theorem agl_grammar_wellformed (gl : GlyphList) (hgl : GlyphListOK gl) (n : Name)
    (hw : wellFormedName gl n = true) :
    name2unicode gl (some n) = some (aglSpec gl n) ∧ aglSpec gl n ≠ [] := by
  have hj := wellFormed_judged hgl n hw
  have h := agl_grammar gl hgl (some n) hj
  have hne : aglSpec gl n ≠ [] := by
    unfold aglSpec
    apply flatten_ne_nil_of_all _ (splitOn_ne_nil _ _)
    apply List.all_eq_true.mpr
    intro c hc
    simp [wf_nonempty hgl (List.all_eq_true.mp hw c hc)]
  refine ⟨?_, hne⟩
  rw [h]
  simp only [aglText]
  cases ht : aglSpec gl n with
  | nil => exact absurd ht hne
  | cons a b => rfl

/-! ## Encodings -/

/-- `get_encoding base diff`: the last Differences assignment to the code, else the base table. -/
theorem enc_overlay (gl : GlyphList) (db : EncDB) (name : String) (diff : List DiffTok) (code : Int) :
    tlookup (getEncoding gl db name diff) code =
      match lastAssigned (assignments 0 diff) code with
      | some nm => name2unicode gl nm
      | none => tlookup (db.get name) code := by
  unfold getEncoding
  cases diff with
  | nil => simp [assignments, lastAssigned_nil]
  | cons tok rest =>
    simp only [List.isEmpty_cons, Bool.false_eq_true, if_false]
    exact tlookup_applyDiff gl (tok :: rest) (db.get name) 0 code

/-- The encoding of a font as Unicode values: AGL value of the last Differences name, else of the base
table's name for the code (StandardEncoding for unknown base names). -/
theorem enc_text (T : Tables) (hT : TablesOK T) (name : String) (diff : List DiffTok) (code : Int)
    (hj : ∀ nm, lastAssigned (assignments 0 diff) code = some nm → judgedName T.gl nm = true) :
    tlookup (getEncoding T.gl (dbOf T) name diff) code = encText T name diff code := by
  rw [enc_overlay]
  unfold encText
  cases hl : lastAssigned (assignments 0 diff) code with
  | some nm => exact agl_grammar T.gl hT.glyphs nm (hj nm hl)
  | none =>
    simp only [dbOf, get_ofRows, tlookup_buildTable T.gl _ T.rows hT.rowsResolve [] code]
    cases hb : baseName T.rows (encColumn T.cols T.dflt name) code with
    | none => simp [tlookup_nil, aglText]
    | some n =>
      obtain ⟨r, hr, hrn⟩ := baseName_mem hb
      have := hT.rowsJudged r hr
      rw [hrn] at this
      exact agl_grammar T.gl hT.glyphs (some n) this

/-- The built-in encoding of an embedded Type 1 program: AGL value of the last `put` for the code. -/
theorem builtin_text (T : Tables) (hT : TablesOK T) (ff : FontFile) (code : Int)
    (hj : ∀ nm, builtinName ff code = some nm → judgedName T.gl nm = true) :
    tlookup (builtinEncoding T.gl ff) code =
      match builtinName ff code with
      | some nm => aglText T.gl nm
      | none => none := by
  unfold builtinEncoding builtinName at *
  rw [tlookup_putsEncoding]
  cases hl : lastAssigned ff.puts code with
  | some nm => exact agl_grammar T.gl hT.glyphs nm (hj nm hl)
  | none => simp [tlookup_nil]

/-- What the font's encoding gives a code (judged glyph names). -/
theorem encoding_text (T : Tables) (hT : TablesOK T) (fd : FontDict) (code : Int)
    (hj : judgedEncName T fd code = true) :
    tlookup (modelFont T fd).cid2unicode code = encodingText T fd code := by
  rw [build_cid2unicode]
  unfold encodingText
  unfold judgedEncName at hj
  cases hb : usesBuiltin T fd with
  | some ff =>
    simp only [hb] at hj ⊢
    apply builtin_text T hT ff code
    intro nm hnm
    simpa [hnm] using hj
  | none =>
    simp only [hb] at hj ⊢
    cases he : fd.enc with
    | absent =>
      simp only [specEncoding]
      exact enc_text T hT _ [] code (by intro nm h; simp [assignments, lastAssigned_nil] at h)
    | named n =>
      simp only [specEncoding]
      exact enc_text T hT _ [] code (by intro nm h; simp [assignments, lastAssigned_nil] at h)
    | dict base diff =>
      simp only [specEncoding]
      apply enc_text T hT _ diff code
      intro nm hnm
      simpa [he, hnm] using hj

/-! ## The property -/

/-- **Text precedence**, Unicode level: ToUnicode entry, else the AGL value of the glyph name the encoding
(base + Differences, or the built-in encoding of the Type 1 program) gives the code, else undefined. -/
theorem C06_unicode_precedence (T : Tables) (hT : TablesOK T) (fd : FontDict) (code : Int)
    (hj : judgedCode T fd code = true) :
    toUnichr (modelFont T fd) code = specUnicode T fd code := by
  unfold toUnichr specUnicode
  unfold judgedCode at hj
  rw [build_umap]
  cases htu : fd.toUnicode with
  | none =>
    simp only [htu] at hj
    simp only [Option.map_none]
    exact encoding_text T hT fd code hj
  | some es =>
    simp only [htu] at hj
    simp only [Option.map_some]
    cases hc : nbspClash (tuDefs es) with
    | true => simp [hc] at hj
    | false =>
      simp only [hc, Bool.false_eq_true, if_false] at hj
      rw [tlookup_buildUmap es code hc]
      cases ht : tuText (tuDefs es) code with
      | some t => rfl
      | none =>
        simp only [ht] at hj
        exact encoding_text T hT fd code hj

/-- **Text precedence**: the text of the glyph is the ToUnicode entry, else the AGL value of its glyph
name, else the placeholder `(cid:N)` - for every code and every font dictionary of the modelled shape. -/
theorem C06_text_precedence (T : Tables) (hT : TablesOK T) (fd : FontDict) (code : Int)
    (hj : judgedCode T fd code = true) :
    glyphText (modelFont T fd) code = specText T fd code := by
  unfold glyphText specText
  simp only [C06_unicode_precedence T hT fd code hj]
  cases specUnicode T fd code <;> rfl

/-- `Widths[code - FirstChar]` is what the width dict of the constructed font holds under `code`. -/
theorem widths_index (T : Tables) (fd : FontDict) (code : Int) :
    wlookup (modelFont T fd).widthsInt code = widthsEntry fd code := by
  rw [build_widthsInt, wlookup_enumWidths]
  unfold widthsEntry
  cases hw : fd.widths with
  | none => simp
  | some ws =>
    simp only [Option.getD_some]
    by_cases h : fd.firstChar.getD 0 ≤ code
    · have : 0 ≤ code - fd.firstChar.getD 0 := by omega
      simp [h, this]
    · have : ¬ 0 ≤ code - fd.firstChar.getD 0 := by omega
      simp [h, this]

/-- The advance of EVERY code (no hypothesis) is the specified function of the code's Unicode value as the font
reports it: Widths entry, else standard-14 metric of that character, else MissingWidth; times the scale. -/
theorem width_of_unicode (T : Tables) (fd : FontDict) (code : Int) :
    glyphAdv (modelFont T fd) code = specWidthOf T fd code (toUnichr (modelFont T fd) code) := by
  unfold glyphAdv charWidth specWidthOf
  rw [widths_index, build_hscale, build_defaultWidth]
  cases hw : widthsEntry fd code with
  | some w => rfl
  | none =>
    simp only
    unfold strWidth std14MetricOf
    rw [build_widthsStr]
    generalize toUnichr (modelFont T fd) code = u
    cases h3 : fd.isType3
    · simp only [Bool.false_eq_true, if_false]
      cases u with
      | none => cases getMetrics T.fm (fd.baseFont.getD "unknown") <;> simp
      | some t =>
        cases hm : getMetrics T.fm (fd.baseFont.getD "unknown") with
        | none =>
          simp only [Option.getD_none]
          cases t with
          | nil => simp
          | cons c r => cases r <;> simp [slookup]
        | some m =>
          simp only [Option.getD_some]
          cases t with
          | nil => simp
          | cons c r =>
            cases r with
            | nil => cases hs : slookup m c <;> simp [hs]
            | cons _ _ => simp
    · simp only [if_true]
      cases u with
      | none => simp
      | some t =>
        cases t with
        | nil => simp
        | cons c r => cases r <;> simp [slookup]

/-- **Width precedence**: the advance is the Widths/FirstChar entry, else the standard-14 metric of the
character, else MissingWidth; times 1/1000, or times the Type3 FontMatrix scale - for every code. -/
theorem C06_width_precedence (T : Tables) (hT : TablesOK T) (fd : FontDict) (code : Int)
    (hj : judgedCode T fd code = true) :
    glyphAdv (modelFont T fd) code = specWidth T fd code := by
  rw [width_of_unicode, C06_unicode_precedence T hT fd code hj]
  rfl

/-- **Type3 scale**: the advance of a Type3 glyph is its Widths entry (else MissingWidth) times
`FontMatrix[0]` (and does not depend on the text of the code). -/
theorem type3_scale (T : Tables) (fd : FontDict) (code : Int) (h3 : fd.isType3 = true) :
    glyphAdv (modelFont T fd) code =
      (match widthsEntry fd code with
       | some w => w
       | none => missingWidth fd) * fd.fontMatrix.1 := by
  unfold glyphAdv charWidth
  rw [widths_index, build_hscale, build_defaultWidth]
  have hs : widthScale fd = fd.fontMatrix.1 := by simp [widthScale, h3]
  rw [hs]
  cases hw : widthsEntry fd code with
  | some w => rfl
  | none =>
    simp only
    unfold strWidth
    rw [build_widthsStr]
    simp only [h3, if_true]
    cases toUnichr (modelFont T fd) code with
    | none => rfl
    | some t =>
      cases t with
      | nil => rfl
      | cons c r => cases r <;> simp [slookup]

/-! ## ToUnicode for every map: the space / no-break-space rule, exactly -/

/-- **Exact ToUnicode rule** (every map, no exclusion): the value the constructed map holds for a code is the
most recent definition of the code, except that a definition as U+00A0 does not replace U+0020. -/
theorem tounicode_exact (es : List TuEntry) (code : Int) :
    tlookup (buildUmap es) code = tuTextExact (tuDefs es) code :=
  tlookup_buildUmap_exact es code

/-- Without a space / no-break-space pair the exact rule is "the last definition wins". -/
theorem tounicode_exact_noclash (es : List TuEntry) (code : Int) (h : nbspClash (tuDefs es) = false) :
    tuTextExact (tuDefs es) code = tuText (tuDefs es) code := by
  rw [← tounicode_exact, tlookup_buildUmap es code h]

/-- "The last definition wins" is FALSE for pdfminer in general (documented deviation): `<41> <0020>` followed by
`<41> <00A0>` keeps the space. -/
theorem tounicode_last_wins_cex :
    tlookup (buildUmap [.bfchar [0x41] [0x00, 0x20], .bfchar [0x41] [0x00, 0xA0]]) 0x41 = some [0x20] ∧
    tuText (tuDefs [.bfchar [0x41] [0x00, 0x20], .bfchar [0x41] [0x00, 0xA0]]) 0x41 = some [0xA0] ∧
    nbspClash (tuDefs [.bfchar [0x41] [0x00, 0x20], .bfchar [0x41] [0x00, 0xA0]]) = true := by decide +kernel

/-- **Text precedence, Unicode level, for every ToUnicode map** (the exclusion of space / no-break-space maps
of `C06_unicode_precedence` is gone; only the glyph name has to be judged). -/
theorem C06_unicode_precedence_exact (T : Tables) (hT : TablesOK T) (fd : FontDict) (code : Int)
    (hj : judgedCodeX T fd code = true) :
    toUnichr (modelFont T fd) code = specUnicodeX T fd code := by
  unfold toUnichr specUnicodeX
  unfold judgedCodeX at hj
  rw [build_umap]
  cases htu : fd.toUnicode with
  | none =>
    simp only [htu] at hj
    simp only [Option.map_none]
    exact encoding_text T hT fd code hj
  | some es =>
    simp only [htu] at hj
    simp only [Option.map_some]
    rw [tounicode_exact es code]
    cases ht : tuTextExact (tuDefs es) code with
    | some t => rfl
    | none =>
      simp only [ht] at hj
      exact encoding_text T hT fd code hj

theorem C06_text_precedence_exact (T : Tables) (hT : TablesOK T) (fd : FontDict) (code : Int)
    (hj : judgedCodeX T fd code = true) :
    glyphText (modelFont T fd) code = specTextX T fd code := by
  unfold glyphText specTextX
  simp only [C06_unicode_precedence_exact T hT fd code hj]
  cases specUnicodeX T fd code <;> rfl

theorem C06_width_precedence_exact (T : Tables) (hT : TablesOK T) (fd : FontDict) (code : Int)
    (hj : judgedCodeX T fd code = true) :
    glyphAdv (modelFont T fd) code = specWidthX T fd code := by
  rw [width_of_unicode, C06_unicode_precedence_exact T hT fd code hj]
  rfl

/-- The old judged domain lies inside the new one, and there the two specifications agree. -/
theorem judgedCode_exact (T : Tables) (fd : FontDict) (code : Int) (hj : judgedCode T fd code = true) :
    judgedCodeX T fd code = true ∧ specUnicodeX T fd code = specUnicode T fd code := by
  unfold judgedCode at hj
  unfold judgedCodeX specUnicodeX specUnicode
  cases htu : fd.toUnicode with
  | none => simp only [htu] at hj; exact ⟨hj, rfl⟩
  | some es =>
    simp only [htu] at hj
    cases hc : nbspClash (tuDefs es) with
    | true => simp [hc] at hj
    | false =>
      simp only [hc, Bool.false_eq_true, if_false] at hj
      simp only [tounicode_exact_noclash es code hc]
      exact ⟨hj, trivial⟩

/-! ## Differences arrays written as runs -/

/-- **Differences numbering**: for a Differences array made of any number of runs `code name name …` the i-th name
of a run starting at `first` is assigned to code `first + i` (every i: the numbering neither stops nor wraps at 255,
negative first codes included), runs are processed in order and the LAST assignment to a code - in whichever run - wins;
codes no run reaches keep the base encoding. -/
theorem differences_runs (gl : GlyphList) (db : EncDB) (name : String) (runs : List (Int × List (Option Name)))
    (code : Int) :
    tlookup (getEncoding gl db name (diffOfRuns runs)) code =
      match lastAssigned (runs.flatMap (fun r => numberFrom r.1 r.2)) code with
      | some nm => name2unicode gl nm
      | none => tlookup (db.get name) code := by
  rw [enc_overlay, assignments_runs]

/-- the numbering inside one run -/
theorem run_numbering (first : Int) (names : List (Option Name)) (i : Nat) :
    (numberFrom first names)[i]? = (names[i]?).map (fun nm => (first + i, nm)) :=
  numberFrom_getElem names first i

-- non-vacuity: three runs, one past 255, one negative, one re-assigning a code of the first
example :
    let runs : List (Int × List (Option Name)) :=
      [(254, [some ['A'], some ['B'], some ['A'], some ['B']]), (-1, [some ['B']]), (255, [some ['A']])]
    let t := getEncoding [(['A'], [65]), (['B'], [66])] { tables := [], default := [(70, [70])] } "x" (diffOfRuns runs)
    tlookup t 254 = some [65] ∧ tlookup t 255 = some [65] ∧ tlookup t 257 = some [66] ∧ tlookup t (-1) = some [66] ∧
      tlookup t 0 = none ∧ tlookup t 70 = some [70] := by decide

/-! ## Widths bounds: inside / outside `FirstChar … FirstChar + len(Widths) - 1` -/

/-- Inside the range of the Widths array the advance is `Widths[code - FirstChar]` times the scale - whatever the
font's encoding, ToUnicode map, metrics or MissingWidth say (LastChar is not consulted). -/
theorem width_in_range (T : Tables) (fd : FontDict) (code : Int) (ws : List Rat) (hw : fd.widths = some ws)
    (h1 : fd.firstChar.getD 0 ≤ code) (h2 : code < fd.firstChar.getD 0 + ws.length) :
    ∃ w, ws[(code - fd.firstChar.getD 0).toNat]? = some w ∧
      glyphAdv (modelFont T fd) code = w * widthScale fd := by
  have hlt : (code - fd.firstChar.getD 0).toNat < ws.length := by omega
  refine ⟨ws[(code - fd.firstChar.getD 0).toNat], List.getElem?_eq_getElem hlt, ?_⟩
  rw [width_of_unicode]
  unfold specWidthOf widthsEntry
  simp [hw, h1, List.getElem?_eq_getElem hlt]

/-- Outside that range (or without Widths) the advance is the standard-14 metric of the code's character, else
MissingWidth (0 without a descriptor entry), times the scale. -/
theorem width_out_of_range (T : Tables) (fd : FontDict) (code : Int)
    (h : fd.widths = none ∨ ∃ ws, fd.widths = some ws ∧
      (code < fd.firstChar.getD 0 ∨ fd.firstChar.getD 0 + ws.length ≤ code)) :
    glyphAdv (modelFont T fd) code =
      (match std14MetricOf T fd (toUnichr (modelFont T fd) code) with
       | some w => w
       | none => missingWidth fd) * widthScale fd := by
  rw [width_of_unicode]
  unfold specWidthOf
  have he : widthsEntry fd code = none := by
    unfold widthsEntry
    rcases h with h | ⟨ws, hw, h⟩
    · simp [h]
    · simp only [hw]
      rcases h with h | h
      · have : ¬ fd.firstChar.getD 0 ≤ code := by omega
        simp [this]
      · by_cases h0 : fd.firstChar.getD 0 ≤ code
        · have : ws.length ≤ (code - fd.firstChar.getD 0).toNat := by omega
          simp [h0, List.getElem?_eq_none this]
        · simp [h0]
  rw [he]
  rfl

/-! ## Type3 FontMatrix: which matrix the font gets -/

/-- An array of six numbers is taken as it is. -/
theorem type3_matrix_usable (a b c d e f : Rat) :
    type3Matrix (.list [some a, some b, some c, some d, some e, some f]) = (a, b, c, d, e, f) := by
  simp [type3Matrix, T3_MATRIX_LEN]

/-- Every other FontMatrix entry - absent, not an array, an array of another length, an array with an element that
is not a number - gives the usual glyph space of 1/1000 (constants regenerated from `PDFType3Font.__init__`). -/
theorem type3_matrix_default (ms : MatSpec) (h : matUsable ms = false) :
    type3Matrix ms = ((1 : Rat) / 1000, 0, 0, (1 : Rat) / 1000, 0, 0) := by
  cases ms with
  | absent => simp [type3Matrix, T3_MATRIX_LEN, T3_DEFAULT_MATRIX]
  | notList => simp [type3Matrix, T3_MATRIX_LEN, T3_DEFAULT_MATRIX]
  | list xs =>
    simp only [matUsable] at h
    have hc : (xs.length != T3_MATRIX_LEN || !(xs.all Option.isSome)) = true := by
      simp only [T3_MATRIX_LEN]
      cases h1 : (xs.length == 6) <;> cases h2 : xs.all Option.isSome <;> simp_all
    simp only [type3Matrix, hc, if_true, T3_DEFAULT_MATRIX]

/-- The advance of a Type3 glyph under an unusable FontMatrix: Widths entry (else MissingWidth) / 1000. -/
theorem type3_scale_default (T : Tables) (fd : FontDict) (code : Int) (ms : MatSpec) (h3 : fd.isType3 = true)
    (hm : fd.fontMatrix = type3Matrix ms) (hbad : matUsable ms = false) :
    glyphAdv (modelFont T fd) code =
      (match widthsEntry fd code with
       | some w => w
       | none => missingWidth fd) * ((1 : Rat) / 1000) := by
  rw [type3_scale T fd code h3, hm, type3_matrix_default ms hbad]

example : matUsable (.list [some 1, some 0, some 0]) = false ∧ matUsable .absent = false ∧ matUsable .notList = false ∧
    matUsable (.list [some 1, some 0, some 0, none, some 0, some 0]) = false ∧
    matUsable (.list [some 2, some 0, some 0, some 2, some 0, some 0, some 0]) = false ∧
    matUsable (.list [some 2, some 0, some 0, some 2, some 0, some 0]) = true := by decide

/-! ## The regenerated tables of pdfminer -/

/-- The tables regenerated from glyphlist.py / latin_enc.py satisfy the table facts (kernel computation over
the 4 281 glyph-list entries and the 232 ENCODING rows, `Lemmas/SimpleFontInst.lean`). -/
theorem tables_ok : TablesOK Inst.tables :=
  ⟨Inst.glyphs_ok, Inst.rows_resolve, Inst.rows_judged⟩

/-- The font the driver (and the correspondence check) builds is `modelFont` on the regenerated tables. -/
theorem modelFont_pdfminer (fd : FontDict) :
    modelFont Inst.tables fd = build Inst.glyphs Inst.encDB Inst.metrics fd := rfl

/-- `name2unicode` with pdfminer's glyph list is the AGL algorithm on every judged name. -/
theorem agl_grammar_pdfminer (nm : Option Name) (hj : judgedName Inst.glyphs nm = true) :
    name2unicode Inst.glyphs nm = aglText Inst.glyphs nm :=
  agl_grammar Inst.glyphs Inst.glyphs_ok nm hj

/-- Text precedence for pdfminer's own tables: no hypothesis about the tables is left. -/
theorem C06_text_precedence_pdfminer (fd : FontDict) (code : Int)
    (hj : judgedCode Inst.tables fd code = true) :
    glyphText (build Inst.glyphs Inst.encDB Inst.metrics fd) code = specText Inst.tables fd code :=
  C06_text_precedence Inst.tables tables_ok fd code hj

/-- Width precedence for pdfminer's own tables. -/
theorem C06_width_precedence_pdfminer (fd : FontDict) (code : Int)
    (hj : judgedCode Inst.tables fd code = true) :
    glyphAdv (build Inst.glyphs Inst.encDB Inst.metrics fd) code = specWidth Inst.tables fd code :=
  C06_width_precedence Inst.tables tables_ok fd code hj

/-! ## Every name, every font dictionary, every code: no judged domain -/

/-- **`name2unicode` on EVERY glyph name** is the Adobe Glyph List algorithm with exactly two deviations:
(D1) hexadecimal digits after `uni` / `u` may be lower case, (D2) a component without a value makes the whole
name undefined.  (`agl_grammar` is the restriction to names where neither deviation shows.) -/
theorem name2unicode_exact (gl : GlyphList) (hgl : GlyphListOK gl) (nm : Option Name) :
    name2unicode gl nm = pdfminerAgl gl nm :=
  name2unicode_eq_pdfminerAgl hgl nm

/-- On the judged names the exact algorithm IS the AGL algorithm. -/
theorem pdfminerAgl_judged (gl : GlyphList) (hgl : GlyphListOK gl) (nm : Option Name)
    (hj : judgedName gl nm = true) : pdfminerAgl gl nm = aglText gl nm := by
  rw [← name2unicode_exact gl hgl nm, agl_grammar gl hgl nm hj]

/-- The two deviations, on the exact algorithm (the lower-case rule and the unknown-component rule, stated). -/
theorem pdfminerAgl_deviations :
    pdfminerAgl [] (some ['u', 'n', 'i', '0', '0', 'e', '9']) = some [0xE9] ∧
    pdfminerAgl [] (some ['u', '1', 'f', '6', '0', '0']) = some [0x1F600] ∧
    pdfminerAgl [(['A'], [65])] (some ['A', '_', 'f', 'o', 'o']) = none ∧
    pdfminerAgl [(['A'], [65])] (some ['A', '_', '_', 'A']) = none ∧
    pdfminerAgl [(['A'], [65])] (some ['A', '_', 'u', 'n', 'i', '0', '0', '4', 'a', '.', 'x', '_', 'y']) = some [65, 0x4A] := by
  decide

theorem name2unicode_exact_pdfminer (nm : Option Name) :
    name2unicode Inst.glyphs nm = pdfminerAgl Inst.glyphs nm :=
  name2unicode_exact Inst.glyphs Inst.glyphs_ok nm

/-- The encoding of a font as Unicode values, for EVERY Differences array (no hypothesis on the names). -/
theorem enc_text_all (T : Tables) (hT : TablesOK T) (name : String) (diff : List DiffTok) (code : Int) :
    tlookup (getEncoding T.gl (dbOf T) name diff) code = encTextP T name diff code := by
  rw [enc_overlay]
  unfold encTextP
  cases hl : lastAssigned (assignments 0 diff) code with
  | some nm => exact name2unicode_exact T.gl hT.glyphs nm
  | none =>
    simp only [dbOf, get_ofRows, tlookup_buildTable T.gl _ T.rows hT.rowsResolve [] code]
    cases hb : baseName T.rows (encColumn T.cols T.dflt name) code with
    | none => simp [tlookup_nil, pdfminerAgl]
    | some n => exact name2unicode_exact T.gl hT.glyphs (some n)

theorem encoding_text_all (T : Tables) (hT : TablesOK T) (fd : FontDict) (code : Int) :
    tlookup (modelFont T fd).cid2unicode code = encodingTextP T fd code := by
  rw [build_cid2unicode]
  unfold encodingTextP
  cases hb : usesBuiltin T fd with
  | some ff =>
    simp only
    unfold builtinEncoding builtinName
    rw [tlookup_putsEncoding]
    cases hl : lastAssigned ff.puts code with
    | some nm => exact name2unicode_exact T.gl hT.glyphs nm
    | none => simp [tlookup_nil]
  | none =>
    simp only
    cases he : fd.enc with
    | absent => simp only [specEncoding]; exact enc_text_all T hT _ [] code
    | named n => simp only [specEncoding]; exact enc_text_all T hT _ [] code
    | dict base diff => simp only [specEncoding]; exact enc_text_all T hT _ diff code

/-- **Text precedence, Unicode level - FULL statement**: for every font dictionary of the modelled shape and every
code, with no judged-domain hypothesis: ToUnicode value (exact rule) > value of the glyph name the encoding (base
+ Differences, or built-in) assigns (exact algorithm) > undefined. -/
theorem C06_unicode_precedence_all (T : Tables) (hT : TablesOK T) (fd : FontDict) (code : Int) :
    toUnichr (modelFont T fd) code = specUnicodeP T fd code := by
  unfold toUnichr specUnicodeP
  rw [build_umap]
  cases htu : fd.toUnicode with
  | none =>
    simp only [Option.map_none]
    exact encoding_text_all T hT fd code
  | some es =>
    simp only [Option.map_some]
    rw [tounicode_exact es code]
    cases ht : tuTextExact (tuDefs es) code with
    | some t => rfl
    | none => exact encoding_text_all T hT fd code

/-- **Text precedence - FULL statement** (every font dictionary, every code). -/
theorem C06_text_precedence_all (T : Tables) (hT : TablesOK T) (fd : FontDict) (code : Int) :
    glyphText (modelFont T fd) code = specTextP T fd code := by
  unfold glyphText specTextP
  simp only [C06_unicode_precedence_all T hT fd code]
  cases specUnicodeP T fd code <;> rfl

/-- **Width precedence - FULL statement** (every font dictionary, every code). -/
theorem C06_width_precedence_all (T : Tables) (hT : TablesOK T) (fd : FontDict) (code : Int) :
    glyphAdv (modelFont T fd) code = specWidthP T fd code := by
  rw [width_of_unicode, C06_unicode_precedence_all T hT fd code]
  rfl

/-- On the judged cells the full specification is the property's specification (AGL, ToUnicode exact rule). -/
theorem specP_judged (T : Tables) (hT : TablesOK T) (fd : FontDict) (code : Int)
    (hj : judgedCodeX T fd code = true) :
    specTextP T fd code = specTextX T fd code ∧ specWidthP T fd code = specWidthX T fd code := by
  rw [← C06_text_precedence_all T hT, ← C06_width_precedence_all T hT,
    C06_text_precedence_exact T hT fd code hj, C06_width_precedence_exact T hT fd code hj]
  exact ⟨rfl, rfl⟩

/-- The full statements for pdfminer's own tables: no hypothesis at all. -/
theorem C06_precedence_all_pdfminer (fd : FontDict) (code : Int) :
    glyphText (build Inst.glyphs Inst.encDB Inst.metrics fd) code = specTextP Inst.tables fd code ∧
    glyphAdv (build Inst.glyphs Inst.encDB Inst.metrics fd) code = specWidthP Inst.tables fd code :=
  ⟨C06_text_precedence_all Inst.tables tables_ok fd code, C06_width_precedence_all Inst.tables tables_ok fd code⟩

/-! ## Glue regenerated from the source: font class dispatch, constants -/

/-- `get_font` (regenerated if/elif chain): Type1, MMType1, TrueType and a missing or unknown Subtype are built
as `PDFType1Font` (`PDFTrueTypeFont` adds nothing - checked by the translator), Type3 as `PDFType3Font`;
Type0 and CIDFont dictionaries are composite fonts (C07). -/
theorem subtype_dispatch :
    simpleClass (some "Type1") = some false ∧ simpleClass (some "MMType1") = some false ∧
    simpleClass (some "TrueType") = some false ∧ simpleClass none = some false ∧
    simpleClass (some "NoSuchSubtype") = some false ∧ simpleClass (some "Type3") = some true ∧
    simpleClass (some "Type0") = none ∧ simpleClass (some "CIDFontType0") = none ∧
    simpleClass (some "CIDFontType2") = none := by decide

/-- The constants the model takes from the source are the ones of the specification: the placeholder is
`(cid:N)`, glyph space is 1/1000 of text space, the default encoding is StandardEncoding, the surrogate
range and the upper bound of `raise_key_error_for_invalid_unicode` are those of a Unicode scalar value. -/
theorem code_constants :
    (∀ c, placeholder c = specPlaceholder c) ∧ DEFAULT_SCALE = 1 / 1000 ∧ DEFAULT_ENCODING = "StandardEncoding" ∧
    (∀ v, validUnicode v = isScalar v) ∧ UNI_PREFIX = ['u', 'n', 'i'] ∧ U_PREFIX = ['u'] ∧ UNI_GROUP = 4 ∧
    U_MIN = 4 ∧ U_MAX = 6 ∧ SUFFIX_SEP = '.' ∧ COMPONENT_SEP = '_' :=
  ⟨fun _ => rfl, rfl, rfl, validUnicode_eq_isScalar, rfl, rfl, rfl, rfl, rfl, rfl, rfl⟩

/-! ## Embedded Type 1 programs as bytes -/

/-- The property for a font dictionary whose FontFile is given as the bytes of the stream: when the
clear-text header can be read (`judgedRaw`), construction succeeds and text and advance of every judged code
are the specified ones, where the built-in encoding is what the tokeniser (`Lexer.specLex`, proved equal
to the buffered tokeniser at every buffer size in C14) and `Type1FontHeaderParser`'s stack machine extract. -/
theorem C06_raw_precedence (T : Tables) (hT : TablesOK T) (raw : RawFontDict) (code : Int)
    (hj : judgedRaw T raw code = true) :
    ∃ f, buildRaw T.gl (dbOf T) T.fm raw = .ok f ∧
      specRaw T raw code = some (glyphText f code, glyphAdv f code) := by
  unfold judgedRaw at hj
  unfold buildRaw specRaw
  cases hr : resolveFontFile T.fm raw with
  | error e => simp [hr] at hj
  | ok fd =>
    simp only [hr] at hj
    refine ⟨build T.gl (dbOf T) T.fm fd, rfl, ?_⟩
    have h1 := C06_text_precedence T hT fd code hj
    have h2 := C06_width_precedence T hT fd code hj
    simp only [modelFont] at h1 h2
    rw [h1, h2]

/-- **Full statement for font dictionaries given with the BYTES of the FontFile**: construction fails exactly when
reading the header raises (same exception); otherwise the font is built and text and advance of EVERY code are the
specified ones (exact glyph-name algorithm, exact ToUnicode rule) - no judged-domain hypothesis. -/
theorem C06_raw_precedence_all (T : Tables) (hT : TablesOK T) (raw : RawFontDict) :
    match resolveFontFile T.fm raw with
    | .ok fd => ∃ f, buildRaw T.gl (dbOf T) T.fm raw = .ok f ∧
        ∀ code, glyphText f code = specTextP T fd code ∧ glyphAdv f code = specWidthP T fd code
    | .error e => buildRaw T.gl (dbOf T) T.fm raw = .error e := by
  unfold buildRaw
  cases hr : resolveFontFile T.fm raw with
  | error e => rfl
  | ok fd =>
    refine ⟨build T.gl (dbOf T) T.fm fd, rfl, fun code => ?_⟩
    have h1 := C06_text_precedence_all T hT fd code
    have h2 := C06_width_precedence_all T hT fd code
    simp only [modelFont] at h1 h2
    exact ⟨h1, h2⟩

/-- The header is read only for a non-Type3, non-standard-14 font without Encoding entry: otherwise the
FontFile bytes - however malformed - have no influence (and cannot make construction fail). -/
theorem header_ignored (T : Tables) (raw : RawFontDict) (h : headerToRead T.fm raw = none) :
    buildRaw T.gl (dbOf T) T.fm raw = .ok (build T.gl (dbOf T) T.fm (raw.withFontFile none)) := by
  simp [buildRaw, resolveFontFile, h]

deriving instance DecidableEq for Except

/-- A synthetic header (comment holding a `put`, `#5F` escape, CR LF, a `(put)` string, a real-number key, the
`.notdef` loop scanned as one `put` under key 1, a procedure) read by the tokeniser + stack machine, in the kernel. -/
def exampleHeader : Bytes := [37, 33, 80, 83, 45, 65, 100, 111, 98, 101, 70, 111, 110, 116, 45, 49, 46, 48, 58, 32, 83, 121, 110, 116, 104, 32, 48, 48, 49, 46, 48, 48, 49, 10, 49, 49, 32, 100, 105, 99, 116, 32, 98, 101, 103, 105, 110, 10, 47, 70, 111, 110, 116, 66, 66, 111, 120, 32, 123, 48, 32, 45, 50, 48, 48, 32, 49, 48, 48, 48, 32, 56, 48, 48, 125, 32, 114, 101, 97, 100, 111, 110, 108, 121, 32, 100, 101, 102, 10, 47, 69, 110, 99, 111, 100, 105, 110, 103, 32, 50, 53, 54, 32, 97, 114, 114, 97, 121, 10, 48, 32, 49, 32, 50, 53, 53, 32, 123, 49, 32, 105, 110, 100, 101, 120, 32, 101, 120, 99, 104, 32, 47, 46, 110, 111, 116, 100, 101, 102, 32, 112, 117, 116, 125, 32, 102, 111, 114, 10, 100, 117, 112, 32, 54, 53, 32, 47, 65, 32, 112, 117, 116, 32, 37, 32, 100, 117, 112, 32, 54, 54, 32, 47, 66, 32, 112, 117, 116, 10, 100, 117, 112, 32, 54, 54, 32, 47, 117, 110, 105, 50, 48, 65, 67, 32, 112, 117, 116, 13, 10, 100, 117, 112, 32, 54, 55, 32, 47, 102, 35, 53, 70, 105, 32, 112, 117, 116, 10, 100, 117, 112, 32, 54, 53, 32, 47, 103, 49, 50, 51, 32, 112, 117, 116, 10, 40, 112, 117, 116, 41, 32, 51, 46, 53, 32, 47, 88, 32, 112, 117, 116, 10, 114, 101, 97, 100, 111, 110, 108, 121, 32, 100, 101, 102, 10, 99, 117, 114, 114, 101, 110, 116, 100, 105, 99, 116, 32, 101, 110, 100, 10, 99, 117, 114, 114, 101, 110, 116, 102, 105, 108, 101, 32, 101, 101, 120, 101, 99, 10]

theorem exampleHeader_puts :
    t1Puts exampleHeader = .ok [(1, some ['.', 'n', 'o', 't', 'd', 'e', 'f']), (65, some ['A']), (66, some ['u', 'n', 'i', '2', '0', 'A', 'C']), (67, some ['f', '_', 'i']), (65, some ['g', '1', '2', '3'])] := by
  decide +kernel

/-- A `put` without two operands is ignored (it only empties the operand stack): no exception, no assignment. -/
theorem put_underflow_ignored :
    t1Puts [112, 117, 116, 32] = .ok [] ∧
    t1Puts [47, 65, 32, 112, 117, 116, 32, 54, 53, 32, 47, 66, 32, 112, 117, 116, 32] = .ok [(65, some ['B'])] := by
  decide +kernel

/-- An odd number of objects between `<<` and `>>` makes `get_encoding` (and font construction) raise. -/
theorem odd_dict_raises : t1Puts [60, 60, 32, 47, 65, 32, 62, 62, 32] = .error "PSSyntaxError" := by
  decide +kernel

/-! ## Round trip: every written header is read back exactly -/

open PdfVerif.Lexer PdfVerif.Roundtrip in
/-- **General round trip** (was: kernel-evaluated instances only).  For EVERY header written by `writeHeader` -
any leading white space / comments, then any sequence of `dup <key> /<name> put` lines (key with sign and
leading zeros, name bytes raw or `#xx`-escaped, any white space / comments between the tokens, nothing needed
between key and `/name`), inert keywords and stray integers - the tokeniser and `Type1FontHeaderParser`'s
stack machine return exactly the written pairs, in order, with the name bytes decoded as UTF-8, and no exception.
(`HeaderItem.ok`: the spelling is a spelling - digits are digits, at most 4300 of them (Python's
`int` limit), separators are white space / comments and are not empty after a keyword or name.) -/
theorem t1_roundtrip (pad : List SepItem) (hpad : sepOK pad) (items : List HeaderItem)
    (h : ∀ i ∈ items, i.ok) :
    t1Puts (writeHeader pad items) = .ok ((itemResults items).map (fun r => (r.1, utf8Chars r.2))) := by
  unfold t1Puts
  simp only [header_tokens pad hpad items h]
  obtain ⟨he, hr⟩ := feed_items items {} rfl h
  simp only [he, hr]
  rfl

open PdfVerif.Lexer PdfVerif.Roundtrip in
/-- The same for a header made of `put` lines only: `t1Puts (write puts) = puts`. -/
theorem t1_roundtrip_puts (pad : List SepItem) (hpad : sepOK pad) (puts : List PutSpelling)
    (h : ∀ p ∈ puts, p.ok) :
    t1Puts (writeHeader pad (puts.map HeaderItem.put)) =
      .ok (puts.map (fun p => (p.key, utf8Chars (nameValue p.name)))) := by
  rw [t1_roundtrip pad hpad _ (by
    intro i hi
    obtain ⟨p, hp, rfl⟩ := List.mem_map.mp hi
    exact h p hp)]
  congr 1
  induction puts with
  | nil => rfl
  | cons p r ih =>
    simp only [List.map_cons, itemResults, HeaderItem.results, List.cons_append, List.nil_append, List.cons.injEq,
      true_and]
    exact ih (fun q hq => h q (by simp [hq]))

section RoundtripExample
open PdfVerif.Lexer PdfVerif.Roundtrip

/-- `%!PS⏎11 dict 	dup 65/A put⏎dup	-07 %x⍽⏎/f#5Fi put ` -/
def rtPad : List SepItem := [.comment [33, 80, 83] 10]
def rtItems : List HeaderItem :=
  [.num [] [49, 49] [.ws 32], .word 100 [105, 99, 116] [.ws 32, .ws 9],
   .put { sign := [], digits := [54, 53], name := [.raw 65], g1 := [.ws 32], g2 := [], g3 := [.ws 32], g4 := [.ws 10] },
   .put { sign := [45], digits := [48, 55], name := [.raw 102, .esc 53 70, .raw 105], g1 := [.ws 9],
          g2 := [.ws 32, .comment [120] 13, .ws 10], g3 := [.ws 32], g4 := [.ws 32] }]

/-- Non-vacuity of `t1_roundtrip`: the hypotheses hold for a header that uses every freedom. -/
theorem rtItems_ok : sepOK rtPad ∧ ∀ i ∈ rtItems, i.ok := by
  have g32 : SepItem.ok (.ws 32) := (by decide : isGapByte 32 = true)
  have g9 : SepItem.ok (.ws 9) := (by decide : isGapByte 9 = true)
  have g10 : SepItem.ok (.ws 10) := (by decide : isGapByte 10 = true)
  have gc : SepItem.ok (.comment [120] 13) :=
    ⟨by intro x hx; simp at hx; subst hx; decide +kernel, Or.inr rfl⟩
  have dig : ∀ (a b : UInt8), isDigit a = true → isDigit b = true → digitsOK [a, b] := by
    intro a b ha hb
    refine ⟨by simp, ?_, by simp⟩
    intro c hc; simp at hc; rcases hc with rfl | rfl <;> assumption
  refine ⟨?_, ?_⟩
  · intro i hi
    simp only [rtPad, List.mem_singleton] at hi
    subst hi
    exact ⟨by intro x hx; simp at hx; rcases hx with rfl | rfl | rfl <;> decide +kernel, Or.inl rfl⟩
  · intro i hi
    simp only [rtItems, List.mem_cons, List.not_mem_nil, or_false] at hi
    rcases hi with rfl | rfl | rfl | rfl
    · exact ⟨Or.inl rfl, dig 49 49 (by decide) (by decide),
        by intro i hi; simp at hi; subst hi; exact g32, by simp⟩
    · refine ⟨by decide, ?_, by decide, by decide, by decide, ?_, by simp⟩
      · intro x hx; simp at hx; rcases hx with rfl | rfl | rfl <;> decide
      · intro i hi; simp at hi; rcases hi with rfl | rfl
        · exact g32
        · exact g9
    · refine ⟨Or.inl rfl, dig 54 53 (by decide) (by decide), ?_, ?_, by simp, ?_, ?_, by simp, ?_, by simp⟩
      · intro i hi; simp at hi; subst hi; exact (by decide : nameRaw 65 = true)
      · intro i hi; simp at hi; subst hi; exact g32
      · intro i hi; cases hi
      · intro i hi; simp at hi; subst hi; exact g32
      · intro i hi; simp at hi; subst hi; exact g10
    · refine ⟨Or.inr (Or.inr rfl), dig 48 55 (by decide) (by decide), ?_, ?_, by simp, ?_, ?_, by simp, ?_, by simp⟩
      · intro i hi; simp at hi
        rcases hi with rfl | rfl | rfl
        · exact (by decide : nameRaw 102 = true)
        · exact ⟨by decide +kernel, by decide +kernel⟩
        · exact (by decide : nameRaw 105 = true)
      · intro i hi; simp at hi; subst hi; exact g9
      · intro i hi; simp at hi
        rcases hi with rfl | rfl | rfl
        · exact g32
        · exact gc
        · exact g10
      · intro i hi; simp at hi; subst hi; exact g32
      · intro i hi; simp at hi; subst hi; exact g32

example : writeHeader rtPad rtItems =
    [37, 33, 80, 83, 10, 49, 49, 32, 100, 105, 99, 116, 32, 9, 100, 117, 112, 32, 54, 53, 47, 65, 32, 112, 117, 116, 10,
     100, 117, 112, 9, 45, 48, 55, 32, 37, 120, 13, 10, 47, 102, 35, 53, 70, 105, 32, 112, 117, 116, 32] := by decide
example : t1Puts (writeHeader rtPad rtItems) = .ok [(65, some ['A']), (-7, some ['f', '_', 'i'])] := by
  rw [t1_roundtrip rtPad rtItems_ok.1 rtItems rtItems_ok.2]; decide

end RoundtripExample

/-! ## UTF-8 and the round trip over glyph NAMES -/

/-- **UTF-8 round trip**: decoding (`literal_name`: `str(bytes, "utf-8")`, strict) the encoding (`str.encode("utf-8")`)
of ANY character list gives the list back - one to four byte forms, the boundaries 7F/80, 7FF/800, FFFF/10000, 10FFFF,
and the surrogate gap (a `Char` is a Unicode scalar value). -/
theorem utf8_roundtrip (cs : List Char) : utf8Chars (utf8Encode cs) = some cs :=
  utf8Chars_encode cs

open PdfVerif.Lexer PdfVerif.Roundtrip in
/-- **Round trip over glyph names** (was: over name bytes with `utf8Chars` on the right-hand side): for every list of
`dup <key> /<name> put` lines given by key spelling and glyph NAME - any characters, written as UTF-8 with every
non-regular byte `#XX`-escaped - reading the written header gives exactly `(key, name)`, in order, no exception. -/
theorem t1_roundtrip_names (pad : List SepItem) (hpad : sepOK pad) (puts : List NamedPut)
    (h : ∀ p ∈ puts, p.ok) :
    t1Puts (writeHeader pad (puts.map (fun p => HeaderItem.put p.spelling))) =
      .ok (puts.map (fun p => (intValue p.sign p.digits, some p.name))) := by
  have hm : puts.map (fun p => HeaderItem.put p.spelling) = (puts.map NamedPut.spelling).map HeaderItem.put := by
    simp [List.map_map, Function.comp_def]
  rw [hm, t1_roundtrip_puts pad hpad (puts.map NamedPut.spelling) (by
    intro q hq
    obtain ⟨p, hp, rfl⟩ := List.mem_map.mp hq
    exact p.spelling_ok (h p hp))]
  congr 1
  rw [List.map_map]
  apply List.map_congr_left
  intro p _
  simp only [Function.comp_def, PutSpelling.key, NamedPut.spelling, spellName, (spellBytes_ok _).2, utf8_roundtrip]

section Utf8Example
open PdfVerif.Lexer PdfVerif.Roundtrip
-- the boundaries of the four forms and both sides of the surrogate gap
example : utf8Encode [Char.ofNat 0x7F, Char.ofNat 0x80, Char.ofNat 0x7FF, Char.ofNat 0x800, Char.ofNat 0xD7FF,
    Char.ofNat 0xE000, Char.ofNat 0xFFFF, Char.ofNat 0x10000, Char.ofNat 0x10FFFF] =
    [0x7F, 0xC2, 0x80, 0xDF, 0xBF, 0xE0, 0xA0, 0x80, 0xED, 0x9F, 0xBF, 0xEE, 0x80, 0x80, 0xEF, 0xBF, 0xBF,
     0xF0, 0x90, 0x80, 0x80, 0xF4, 0x8F, 0xBF, 0xBF] := by decide
example : utf8Chars [0xED, 0xA0, 0x80] = none ∧ utf8Chars [0xC0, 0x80] = none ∧ utf8Chars [0xF4, 0x90, 0x80, 0x80] = none := by
  decide
/-- `dup 8364 /€_é.alt put` -/
def npEx : NamedPut :=
  { sign := [], digits := [56, 51, 54, 52], name := [Char.ofNat 0x20AC, '_', Char.ofNat 0xE9, '.', 'a', 'l', 't'],
    g1 := [.ws 32], g2 := [], g3 := [.ws 32], g4 := [.ws 10] }
theorem npEx_ok : npEx.ok := by
  have g32 : SepItem.ok (.ws 32) := (by decide : isGapByte 32 = true)
  have g10 : SepItem.ok (.ws 10) := (by decide : isGapByte 10 = true)
  refine ⟨Or.inl rfl, ⟨by simp [npEx], ?_, by simp [npEx]⟩, ?_, by simp [npEx], ?_, ?_, by simp [npEx], ?_, by simp [npEx]⟩
  · intro c hc; simp [npEx] at hc; rcases hc with rfl | rfl | rfl | rfl <;> decide
  · intro i hi; simp [npEx] at hi; subst hi; exact g32
  · intro i hi; simp [npEx] at hi
  · intro i hi; simp [npEx] at hi; subst hi; exact g32
  · intro i hi; simp [npEx] at hi; subst hi; exact g10
example : renderName npEx.spelling.name =
    [35, 69, 50, 35, 56, 50, 35, 65, 67, 95, 35, 67, 51, 35, 65, 57, 46, 97, 108, 116] := by decide +kernel
example : t1Puts (writeHeader [] [HeaderItem.put npEx.spelling]) =
    .ok [(8364, some [Char.ofNat 0x20AC, '_', Char.ofNat 0xE9, '.', 'a', 'l', 't'])] := by
  have := t1_roundtrip_names [] (by intro i hi; cases hi) [npEx] (by intro p hp; simp at hp; subst hp; exact npEx_ok)
  simpa [npEx, intValue, decimalNat] using this
end Utf8Example

/-! ## Font cache -/

/-- Every cached font is the one construction gives for that object's dictionary. -/
def CacheOK (mk : RawFontDict → Except String Font) (doc : Nat → RawFontDict) (m : RsrcMgr) : Prop :=
  ∀ e ∈ m.cache, mk (doc e.1) = .ok e.2

theorem getFont_transparent (mk : RawFontDict → Except String Font) (doc : Nat → RawFontDict) (m : RsrcMgr)
    (h : CacheOK mk doc m) (i : Nat) :
    (getFont mk m i (doc i)).1 = mk (doc i) ∧ CacheOK mk doc (getFont mk m i (doc i)).2 := by
  unfold getFont
  by_cases hi : i = 0
  · subst hi
    simp only [bne_self_eq_false, Bool.false_eq_true, if_false, Bool.false_and]
    cases mk (doc 0) <;> exact ⟨rfl, h⟩
  · have hne : (i != 0) = true := by simp [hi]
    simp only [hne, if_true, Bool.true_and]
    cases hl : cacheLookup m.cache i with
    | some f =>
      refine ⟨?_, h⟩
      unfold cacheLookup at hl
      cases hf : m.cache.find? (fun e => e.1 == i) with
      | none => simp [hf] at hl
      | some e =>
        simp only [hf, Option.some.injEq] at hl
        have hm := List.mem_of_find?_eq_some hf
        have hp : e.1 = i := by simpa using List.find?_some hf
        have := h e hm
        rw [hp, hl] at this
        exact this.symm
    | none =>
      cases hb : mk (doc i) with
      | error e => exact ⟨rfl, h⟩
      | ok f =>
        refine ⟨rfl, ?_⟩
        cases m.caching
        · exact h
        · intro e he
          simp only [if_true, List.mem_cons] at he
          rcases he with rfl | he
          · exact hb
          · exact h e he

/-- **Font construction and caching**: whatever the order and repetition of the pages' font requests and whether
caching is on or off, each request gets exactly the font that constructing it from its dictionary gives
(so text and advance of a glyph do not depend on what was shown before). -/
theorem font_cache_transparent (mk : RawFontDict → Except String Font) (doc : Nat → RawFontDict)
    (reqs : List Nat) : ∀ (m : RsrcMgr), CacheOK mk doc m →
    getFonts mk doc m reqs = reqs.map (fun i => mk (doc i)) := by
  induction reqs with
  | nil => intro m _; rfl
  | cons i rest ih =>
    intro m h
    obtain ⟨h1, h2⟩ := getFont_transparent mk doc m h i
    simp only [getFonts, List.map_cons, h1, ih _ h2]

/-- **Cache key rule**: a font without object id (a dictionary written directly into the resource dictionary) is
never served from the cache and never stored in it. -/
theorem getFont_direct (mk : RawFontDict → Except String Font) (m : RsrcMgr) (spec : RawFontDict) :
    getFont mk m 0 spec = (mk spec, m) := by
  unfold getFont
  simp only [bne_self_eq_false, Bool.false_eq_true, if_false, Bool.false_and]
  cases mk spec <;> rfl

/-- **Font resources of a page / form** (`PDFPageInterpreter.init_resources`): whatever mixture of referenced and
directly written font dictionaries a /Font resource dictionary lists, in whatever order, with the cache on or off
and whatever earlier pages left in the cache, EVERY entry gets the font constructed from ITS OWN dictionary. -/
theorem init_fonts_own_dictionary (mk : RawFontDict → Except String Font) (doc : Nat → RawFontDict)
    (entries : List (Option Nat × RawFontDict)) :
    ∀ (m : RsrcMgr), CacheOK mk doc m → (∀ e ∈ entries, ∀ i, e.1 = some i → i ≠ 0 → e.2 = doc i) →
      (initFonts mk m entries).1 = entries.map (fun e => mk e.2) ∧ CacheOK mk doc (initFonts mk m entries).2 := by
  induction entries with
  | nil => intro m h _; exact ⟨rfl, h⟩
  | cons e rest ih =>
    intro m h hd
    obtain ⟨ref, spec⟩ := e
    have hrest : ∀ e ∈ rest, ∀ i, e.1 = some i → i ≠ 0 → e.2 = doc i :=
      fun e he => hd e (List.mem_cons_of_mem _ he)
    simp only [initFonts, List.map_cons]
    by_cases h0 : ref.getD 0 = 0
    · rw [h0, getFont_direct]
      obtain ⟨a, b⟩ := ih m h hrest
      exact ⟨by rw [a], b⟩
    · have hs : spec = doc (ref.getD 0) := by
        cases ref with
        | none => exact absurd rfl h0
        | some i => exact hd (some i, spec) (List.mem_cons_self) i rfl (by simpa using h0)
      rw [hs]
      obtain ⟨h1, h2⟩ := getFont_transparent mk doc m h (ref.getD 0)
      obtain ⟨a, b⟩ := ih _ h2 hrest
      exact ⟨by rw [h1, a], b⟩

/-- Non-vacuity and the shape of the seeded defect: a referenced font followed by a directly written one - the second
entry is constructed from its own dictionary although the first is in the cache. -/
example (mk : RawFontDict → Except String Font) (doc : Nat → RawFontDict) (inl : RawFontDict) :
    (initFonts mk { caching := true, cache := [] } [(some 4, doc 4), (none, inl)]).1 = [mk (doc 4), mk inl] := by
  have := (init_fonts_own_dictionary mk doc [(some 4, doc 4), (none, inl)] { caching := true, cache := [] }
    (by intro e he; cases he) (by
      intro e he i hi _
      simp only [List.mem_cons, List.not_mem_nil, or_false] at he
      rcases he with rfl | rfl
      · simp only [Option.some.injEq] at hi; subst hi; rfl
      · cases hi)).1
  simpa using this

/-- Non-vacuity: a fresh resource manager satisfies the invariant. -/
example (mk : RawFontDict → Except String Font) (doc : Nat → RawFontDict) (c : Bool) :
    CacheOK mk doc { caching := c, cache := [] } := by intro e he; cases he

/-! ## The excluded region is really excluded: pdfminer's deliberate deviations from AGL -/

/-- The unrestricted statement: `name2unicode` is the AGL algorithm on EVERY name. -/
def agl_all_names_statement : Prop :=
  ∀ (gl : GlyphList), GlyphListOK gl → ∀ nm : Option Name, name2unicode gl nm = aglText gl nm

/-- Lower-case hexadecimal digits are accepted (pinned by pdfminer's unit tests), AGL rejects them. -/
theorem agl_lowercase_cex :
    name2unicode [] (some ['u', 'n', 'i', '0', '0', 'e', '9']) = some [0xE9] ∧
    aglText [] (some ['u', 'n', 'i', '0', '0', 'e', '9']) = none := by decide

/-- One unknown component makes the whole name unknown; AGL maps it to the empty string and keeps the rest. -/
theorem agl_partial_components_cex :
    name2unicode [(['A'], [65])] (some ['A', '_', 'f', 'o', 'o']) = none ∧
    aglText [(['A'], [65])] (some ['A', '_', 'f', 'o', 'o']) = some [65] := by decide

theorem agl_all_names_statement_false : ¬ agl_all_names_statement := by
  intro h
  have h1 := h [] (by intro e he; cases he) (some ['u', 'n', 'i', '0', '0', 'e', '9'])
  rw [agl_lowercase_cex.1, agl_lowercase_cex.2] at h1
  cases h1

/-! ## Non-vacuity: small concrete tables and fonts that meet the hypotheses -/

def gl0 : GlyphList := [(['A'], [65]), (['B'], [66]), (['s', 'p', 'a', 'c', 'e'], [32]), (['f', 'i'], [0xFB01])]

def T0 : Tables :=
  { gl := gl0,
    rows := [(['A'], some 65, some 65, some 65, some 65), (['B'], some 66, none, some 66, some 66),
             (['s', 'p', 'a', 'c', 'e'], some 32, some 32, some 32, some 32)],
    cols := [("StandardEncoding", 1), ("WinAnsiEncoding", 3)], dflt := 1,
    fm := [("Helvetica", [(65, 667), (32, 278)])] }

theorem example_tables_ok : TablesOK T0 := by
  refine ⟨?_, ?_, ?_⟩
  · intro e he; simp [T0, gl0] at he; rcases he with rfl | rfl | rfl | rfl <;> simp
  · intro r hr; simp [T0] at hr; rcases hr with rfl | rfl | rfl <;> decide
  · intro r hr; simp [T0] at hr; rcases hr with rfl | rfl | rfl <;> decide

/-- Helvetica, WinAnsi base, Differences [65 /fi /g123 66 /uni00410042], ToUnicode <20> -> U+0058, Widths from 66. -/
def fd0 : FontDict :=
  { isType3 := false, baseFont := some "Helvetica",
    enc := .dict (some "WinAnsiEncoding")
      [.num 65, .name (some ['f', 'i']), .name (some ['g', '1', '2', '3']), .num 66,
       .name (some ['u', 'n', 'i', '0', '0', '4', '1', '0', '0', '4', '2'])],
    toUnicode := some [.bfchar [0x20] [0x00, 0x58]],
    firstChar := some 66, widths := some [500, 600],
    desc := some { missingWidth := some 250, fontFile := none },
    fontMatrix := (1, 0, 0, 1, 0, 0) }

-- names of every class of the grammar are in the judged domain
example : judgedName gl0 (some ['A']) = true := by decide
example : judgedName gl0 (some ['u', 'n', 'i', '2', '0', 'A', 'C', '0', '3', '0', '8']) = true := by decide
example : judgedName gl0 (some ['u', '1', '0', '4', '0', 'C']) = true := by decide
example : judgedName gl0 (some ['A', '_', 'u', 'n', 'i', '0', '0', '4', '2', '.', 's', 'c']) = true := by decide
example : aglText gl0 (some ['A', '_', 'u', 'n', 'i', '0', '0', '4', '2', '.', 's', 'c']) = some [65, 66] := by decide
example : aglText gl0 (some ['u', 'n', 'i', 'D', '8', '0', '0']) = none := by decide
example : aglText gl0 (some ['u', '1', '1', '0', '0', '0', '0']) = none := by decide

-- names of the grammar are well formed (hypothesis of `agl_grammar_wellformed`), ill-formed ones are not
example : wellFormedName gl0 ['A', '_', 'u', 'n', 'i', '0', '0', '4', '2', '.', 's', 'c'] = true := by decide
example : wellFormedName gl0 ['u', '1', '0', '4', '0', 'C'] = true := by decide
example : wellFormedName gl0 ['u', 'n', 'i'] = false := by decide
example : wellFormedName gl0 ['u', 'n', 'i', 'D', '8', '0', '0'] = false := by decide
example : wellFormedName gl0 ['A', '_', 'f', 'o', 'o'] = false := by decide

-- every code of the example font is judged; the specification is not constant on it
example : ∀ c ∈ [(32 : Int), 65, 66, 67], judgedCode T0 fd0 c = true := by decide +kernel
example : specText T0 fd0 32 = [0x58] := by decide +kernel                      -- ToUnicode wins over the encoding
example : specText T0 fd0 65 = [0xFB01] := by decide                    -- Differences name through the glyph list
example : specText T0 fd0 66 = [65, 66] := by decide                    -- last Differences assignment (uni0041 0042) wins over g123
example : specText T0 fd0 67 = specPlaceholder 67 := by decide              -- no name for the code: (cid:67)
example : specWidth T0 fd0 66 = 500 / 1000 := by decide +kernel         -- Widths[66 - FirstChar]
example : specWidth T0 fd0 32 = 250 / 1000 := by decide +kernel         -- text is "X": no metric -> MissingWidth
example : glyphText (modelFont T0 fd0) 66 = [65, 66] := by
  rw [C06_text_precedence T0 example_tables_ok fd0 66 (by decide +kernel)]; decide +kernel

-- the exact ToUnicode rule on a font whose map has the space / no-break-space pair (outside the old judged domain)
def fdNb : FontDict :=
  { fd0 with toUnicode := some [.bfchar [0x41] [0x00, 0x20], .bfchar [0x41] [0x00, 0xA0],
                                 .bfchar [0x42] [0x00, 0xA0], .bfchar [0x42] [0x00, 0x20], .bfchar [0x42] [0x00, 0xA0],
                                 .bfchar [0x43] [0x00, 0x20], .bfchar [0x43] [0x00, 0x58], .bfchar [0x43] [0x00, 0xA0]] }
example : judgedCode T0 fdNb 0x41 = false := by decide +kernel
example : ∀ c ∈ [(0x41 : Int), 0x42, 0x43, 0x20], judgedCodeX T0 fdNb c = true := by decide +kernel
example : specTextX T0 fdNb 0x41 = [0x20] := by decide +kernel      -- space, then no-break space: the space stays
example : specTextX T0 fdNb 0x42 = [0x20] := by decide +kernel      -- nbsp, space, nbsp: space
example : specTextX T0 fdNb 0x43 = [0xA0] := by decide +kernel      -- space, X, nbsp: nbsp (X was in effect)
example : specWidthX T0 fdNb 0x41 = 278 / 1000 := by decide +kernel -- Helvetica's metric of the space
example : glyphText (modelFont T0 fdNb) 0x41 = [0x20] := by
  rw [C06_text_precedence_exact T0 example_tables_ok fdNb 0x41 (by decide +kernel)]; decide +kernel

-- the full statements on a font whose Differences use a lower-case uni name and a partially unknown name
def fdLo : FontDict :=
  { fd0 with toUnicode := none,
             enc := .dict (some "WinAnsiEncoding")
               [.num 65, .name (some ['u', 'n', 'i', '0', '0', 'e', '9']), .name (some ['A', '_', 'f', 'o', 'o'])] }
example : judgedCodeX T0 fdLo 65 = false ∧ judgedCodeX T0 fdLo 66 = false := by decide +kernel
example : specTextP T0 fdLo 65 = [0xE9] := by decide +kernel                 -- (D1) lower-case digits accepted
example : specTextP T0 fdLo 66 = specPlaceholder 66 := by decide +kernel     -- (D2) unknown component: undefined
example : glyphText (modelFont T0 fdLo) 65 = [0xE9] := by
  rw [C06_text_precedence_all T0 example_tables_ok fdLo 65]; decide +kernel

-- non-vacuity on `fd0` (FirstChar 66, two widths): 66 and 67 inside, 65 and 68 outside
example : ∃ w, ([500, 600] : List Rat)[((67 : Int) - fd0.firstChar.getD 0).toNat]? = some w ∧
    glyphAdv (modelFont T0 fd0) 67 = w * widthScale fd0 :=
  width_in_range T0 fd0 67 [500, 600] rfl (by decide) (by decide)
example : glyphAdv (modelFont T0 fd0) 67 = 600 / 1000 := by decide +kernel
example : glyphAdv (modelFont T0 fd0) 68 = 250 / 1000 := by decide +kernel     -- MissingWidth
example : glyphAdv (modelFont T0 fd0) 65 = 250 / 1000 := by decide +kernel     -- below FirstChar

-- `C06_raw_precedence_all`: both branches occur (a readable header; an odd `<< >>` that makes construction raise)
def raw0 (bytes : Bytes) : RawFontDict :=
  { isType3 := false, baseFont := some "Foo", enc := .absent, toUnicode := none, firstChar := none, widths := none,
    desc := some { missingWidth := some 250, fontFile := some { data := bytes, length1 := none } },
    fontMatrix := (1, 0, 0, 1, 0, 0) }
example : (match resolveFontFile T0.fm (raw0 exampleHeader) with | .ok _ => true | .error _ => false) = true := by
  decide +kernel
example : (match buildRaw T0.gl (dbOf T0) T0.fm (raw0 [60, 60, 32, 47, 65, 32, 62, 62, 32]) with
    | .ok _ => false | .error e => e == "PSSyntaxError") = true := by decide +kernel

-- the instances for pdfminer's own tables are not vacuous either (the first glyph-list entry keeps the kernel
-- lookup short; names deeper in the 4 281-entry list cost minutes of String -> List Char conversion)
example : judgedName Inst.glyphs (some ['A']) = true := by decide +kernel
example : aglText Inst.glyphs (some ['A']) = some [65] := by decide +kernel

end PdfVerif.Props.C06
