/-
C13 — Damaged input: errors stay in the library's family and work stays bounded.

Model: `PdfVerif.Model.Lenient` (hand model of pdfminer's lenient object access, tied to the
implementation by tools/harness/props/c13_model.py on random ill-typed / cyclic object graphs);
tables regenerated from the sources on every run: `PdfVerif.Gen.Lenient` (exception class
hierarchy, the `except` clauses of casting.safe_*, INHERITABLE_ATTRS, presence of the cycle guards).

`Allowed r` = `r` is a value or an error whose Python class descends from `PSException`
according to the regenerated class table.  `Err.fuel` (loop not finished within its fuel) and
`Err.internal _` (TypeError, KeyError, …) are not allowed, so every `C13_family_*` theorem
also says that the component terminates within the stated fuel.

Only property theorems live here (helper lemmas: `Lemmas/Lenient.lean`).
Round 6: the stream decoders / predictors / `PDFStream.decode` on damaged payloads are covered through C03's model
`PdfVerif.Filters` (tied to the code by `drv_c13` ops `dec` / `pred` / `sdec`, tools/harness/props/c13_codec.py), and
the work of `resolve1` / the xref chain / `resolve_all` is stated in `getobj` calls and sections loaded.
Components that are NOT modelled (parser, CCITT/Flate internals, number/name-tree walks, fonts, interpreter, layout,
converters, encryption) are covered by the fault enumeration of the harness only.
-/
import PdfVerif.Lemmas.Lenient
import PdfVerif.Lemmas.LenientCodec
import PdfVerif.Lemmas.LenientWork
import PdfVerif.Lemmas.LenientTree

namespace PdfVerif.Props.C13
open PdfVerif PdfVerif.Lenient

/-! ## The family, as the sources define it -/

/-- Every error class the model can raise on purpose descends from `PSException` in the class
table regenerated from pdfminer/*.py. -/
theorem C13_family_classes :
    Err.isFamily .pdfTypeError = true ∧ Err.isFamily .pdfValueError = true ∧
    Err.isFamily .pdfObjectNotFound = true ∧ Err.isFamily .pdfSyntaxError = true ∧
    Err.isFamily .pdfNoValidXRef = true := by decide

/-- …and no builtin error (nor the fuel outcome) does. -/
theorem C13_internal_not_family : (∀ k, Err.isFamily (.internal k) = false) ∧ Err.isFamily .fuel = false := by
  refine ⟨?_, by decide⟩
  intro k
  cases k <;> decide

/-- The cycle guards are present in the source (regenerated flags). -/
theorem C13_guards_present :
    Gen.Lenient.resolve1Guard = true ∧ Gen.Lenient.resolveAllGuard = true ∧
    Gen.Lenient.pageTreeGuard = true ∧ Gen.Lenient.xrefChainGuard = true := by decide

/-- Round 6: `NumberTree._parse` carries a visited set that also records the indirect `/Kids` array (test with exit,
growth, handed on to every recursive call) — regenerated from data_structures.py.  PRESENCE ONLY: the walk is not
modelled; the defect this guard repairs (a directly written node naming the array it sits in as its `/Kids`) is a
corpus regression and an enumerated fault of the `basic` seed. -/
theorem C13_numtree_guard_present : Gen.Lenient.numberTreeGuard = true := by decide

/-! ## resolve1 -/

/-- Termination and linear work: for EVERY object graph (self references, 2-cycles, long chains, missing
objects) the `while isinstance(x, PDFObjRef)` loop needs at most `number of objects + 1` iterations. -/
theorem C13_fuel_resolve1 (strict : Bool) (g : Graph) (x : Obj) :
    resolve1Fuel strict g (g.length + 1) [] x ≠ .error .fuel :=
  resolve1_ne_fuel C13_guards_present.1 strict g x

/-- `resolve1` returns a value or raises a family error (PDFValueError, STRICT mode only). -/
theorem C13_family_resolve1 (strict : Bool) (g : Graph) (x : Obj) : Allowed (resolve1 strict g x) := by
  rcases resolve1_ok_or_value C13_guards_present.1 strict g x with ⟨v, hv⟩ | hv <;> rw [hv]
  · trivial
  · exact isFamily_pdfValueError

/-- In the default (non-STRICT) mode `resolve1` always returns a value. -/
theorem C13_total_resolve1 (g : Graph) (x : Obj) : ∃ v, resolve1 false g x = .ok v := by
  have key : ∀ fuel seen y, resolve1Fuel false g fuel seen y ≠ .error .pdfValueError := by
    intro fuel
    induction fuel with
    | zero => intro seen y; cases y <;> simp [resolve1Fuel]
    | succ f ih =>
      intro seen y
      cases y with
      | ref n =>
        simp only [resolve1Fuel]
        split
        · simp
        · split
          · simp
          · exact ih _ _
      | _ => simp [resolve1Fuel]
  rcases resolve1_ok_or_value C13_guards_present.1 false g x with h | h
  · exact h
  · exact absurd h (key _ _ _)

/-- Bounded work in the unit the document pays for: `resolve1` calls `getobj` (which may parse an object or unpack
an object stream) at most `number of distinct object numbers + 1` times — every followed reference is a new number,
and all but the last exist.  The harness counts the calls of the implementation (`calls` op): equal to the model's
count, hence within this bound. -/
theorem C13_calls_resolve1 (g : Graph) (x : Obj) : resolve1Calls g x ≤ (objids g).length + 1 := by
  have := resolve1CallsFuel_le C13_guards_present.1 g (g.length + 1) [] x List.nodup_nil (by intro n hn; cases hn)
  simpa [resolve1Calls] using this

/-- Non-vacuity: the bound is attained by a chain that ends at a missing object; a cycle stops after one round. -/
example : resolve1Calls [(1, .ref 2), (2, .ref 3)] (.ref 1) = 3 ∧ (objids [(1, .ref 2), (2, .ref 3)]).length = 2 := by decide
example : resolve1Calls [(6, .ref 7), (7, .ref 6), (7, .int 1)] (.ref 6) = 2 := by decide

/-- Non-vacuity: the pre-registered defect `6 0 obj 6 0 R` and a 2-cycle now resolve to null. -/
example : resolve1 false [(6, .ref 6)] (.ref 6) = .ok .null := by rfl
example : resolve1 false [(6, .ref 7), (7, .ref 6)] (.ref 6) = .ok .null := by rfl
example : resolve1 true [(6, .ref 7), (7, .ref 6)] (.ref 6) = .error .pdfValueError := by rfl
example : resolve1 false [(1, .ref 2), (2, .ref 3), (3, .int 5)] (.ref 1) = .ok (.int 5) := by rfl

/-! ## typed accessors -/

section accessors
variable (strict : Bool) (g : Graph) (x : Obj)

local macro "accessor_tac" : tactic => `(tactic| (
  rcases resolve1_ok_or_value C13_guards_present.1 strict g x with ⟨v, hv⟩ | hv <;> rw [hv]
  · cases v <;> cases strict <;>
      simp [Allowed, bind, Except.bind, pure, Except.pure, throw, throwThe, MonadExceptOf.throw,
        isFamily_pdfTypeError]
  · simp [Allowed, bind, Except.bind, isFamily_pdfValueError]))

theorem C13_family_int_value : Allowed (intValue strict g x) := by unfold intValue; accessor_tac
theorem C13_family_float_value : Allowed (floatValue strict g x) := by unfold floatValue; accessor_tac
theorem C13_family_num_value : Allowed (numValue strict g x) := by unfold numValue; accessor_tac
theorem C13_family_str_value : Allowed (strValue strict g x) := by unfold strValue; accessor_tac
theorem C13_family_list_value : Allowed (listValue strict g x) := by unfold listValue; accessor_tac
theorem C13_family_dict_value : Allowed (dictValue strict g x) := by unfold dictValue; accessor_tac
theorem C13_family_stream_value : Allowed (streamValue strict g x) := by unfold streamValue; accessor_tac

theorem C13_family_uint_value (nbits : Nat) : Allowed (uintValue strict g x nbits) := by
  unfold uintValue
  have h := C13_family_int_value strict g x
  cases hi : intValue strict g x with
  | error e => rw [hi] at h; simpa [Allowed, bind, Except.bind] using h
  | ok v => simp [Allowed, bind, Except.bind, pure, Except.pure]

end accessors

/-! ## casting.safe_* -/

/-- `safe_int` never raises, whatever the value and whatever Python's parsing of byte strings does
(uses the `except` clause regenerated from casting.py: dropping ValueError from it breaks this proof). -/
theorem C13_family_safe_int (parse : Bytes → Option Int) (o : Obj) : ∃ v, safeInt parse o = .ok v := by
  unfold safeInt safeConv
  cases o <;> simp [pyInt', Gen.Lenient.safeIntCatch, Internal.pyName]
  rename_i s
  cases parse s <;> simp

theorem C13_family_safe_float (parse : Bytes → Option Rat) (o : Obj) : ∃ v, safeFloat parse o = .ok v := by
  unfold safeFloat safeConv
  cases o <;> simp [pyFloat', Gen.Lenient.safeFloatCatch, Internal.pyName]
  rename_i s
  cases parse s <;> simp

/-- `safe_rect_list` never raises, for every value — arrays of anything, strings, dictionaries, scalars and
streams (a PDFStream is "iterable" through `__getitem__`, which raises KeyError: the regenerated `except`
clause now lists it; in the first round this was a proved counter-example and an open finding). -/
theorem C13_family_safe_rect_list (parse : Bytes → Option Rat) (o : Obj) :
    ∃ v, safeRectList parse o = .ok v := by
  have hm : ∀ (vs : List Obj), ∃ fs, vs.mapM (safeFloat parse) = .ok fs := by
    intro vs
    induction vs with
    | nil => exact ⟨[], rfl⟩
    | cons a as ih =>
      obtain ⟨fa, hfa⟩ := C13_family_safe_float parse a
      obtain ⟨fs, hfs⟩ := ih
      refine ⟨fa :: fs, ?_⟩
      simp [List.mapM_cons, hfa, hfs, bind, Except.bind, pure, Except.pure]
  have fin : ∀ (vs : List Obj), ∃ v,
      (if vs.length ≠ 4 then (pure none : Except Err (Option (List Rat)))
       else do
        let fs ← vs.mapM (safeFloat parse)
        if fs.all Option.isSome then pure (some (fs.filterMap id)) else pure none) = .ok v := by
    intro vs
    obtain ⟨fs, hfs⟩ := hm vs
    by_cases hl : vs.length ≠ 4
    · exact ⟨none, by simp [hl, pure, Except.pure]⟩
    · simp only [hl, if_false, hfs, bind, Except.bind]
      by_cases ha : fs.all Option.isSome = true
      · exact ⟨some (fs.filterMap id), by simp [ha, pure, Except.pure]⟩
      · exact ⟨none, by simp [ha, pure, Except.pure]⟩
  unfold safeRectList safeConv
  cases o with
  | arr xs => simpa [pyIter4, bind, Except.bind] using fin (xs.take 4)
  | str s => simpa [pyIter4, bind, Except.bind] using fin ((s.take 4).map (fun b => Obj.int b.toNat))
  | dict kvs => simpa [pyIter4, bind, Except.bind] using fin ((kvs.take 4).map (fun kv => Obj.name kv.1))
  | _ => exact ⟨none, by simp [pyIter4, Gen.Lenient.safeRectListCatch, Internal.pyName, bind, Except.bind, pure, Except.pure]⟩

/-! ## Prev / XRefStm chain -/

/-- Termination: following `Prev` / `XRefStm` entries — including chains that point back at a section
already read — never needs a recursion deeper than `number of sections + 1`. -/
theorem C13_fuel_xref_chain (strict : Bool) (g : Graph) (t : XrefTable) (start : Int) :
    readXrefFuel strict g t (t.length + 1) start [] ≠ .error .fuel := by
  intro h
  have := (readXrefFuel_good C13_guards_present.1 C13_guards_present.2.2.2 strict g t (t.length + 1)
    start [] ⟨List.nodup_nil, by intro p hp; cases hp⟩ (by simp)).1 _ h
  exact absurd this (by decide)

/-- …and it ends with the list of sections or a family error (PDFNoValidXRef for an unparseable or
negative position; PDFTypeError / PDFValueError from `int_value` in STRICT mode). -/
theorem C13_family_xref_chain (strict : Bool) (g : Graph) (t : XrefTable) (start : Int) :
    Allowed (readXref strict g t start) := by
  unfold readXref
  have hgood := readXrefFuel_good C13_guards_present.1 C13_guards_present.2.2.2 strict g t (t.length + 1)
    start [] ⟨List.nodup_nil, by intro p hp; cases hp⟩ (by simp)
  cases hr : readXrefFuel strict g t (t.length + 1) start [] with
  | error e => simpa [Allowed, bind, Except.bind] using hgood.1 e hr
  | ok r => simp [Allowed, bind, Except.bind, pure, Except.pure]

/-- Total work of the chain (round 6): every section is loaded at most once, so the number of sections
`read_xref_from` loads — each one a parse of a table or of an xref stream — is at most the number of sections of
the file, however the `Prev` / `XRefStm` entries are wired.  (The harness compares the list of loaded sections of
the implementation with the model's on every generated file.) -/
theorem C13_work_xref_chain (strict : Bool) (g : Graph) (t : XrefTable) (start : Int) (l : List Int)
    (h : readXref strict g t start = .ok l) : l.length ≤ t.length := by
  unfold readXref at h
  cases hr : readXrefFuel strict g t (t.length + 1) start [] with
  | error e => simp [hr, bind, Except.bind] at h
  | ok r =>
    obtain ⟨l', v'⟩ := r
    simp only [hr, bind, Except.bind, pure, Except.pure, Except.ok.injEq] at h
    subst h
    have hc := readXrefFuel_count strict g t _ _ _ _ _ hr
    have hinv := ((readXrefFuel_good C13_guards_present.1 C13_guards_present.2.2.2 strict g t (t.length + 1)
      start [] ⟨List.nodup_nil, by intro p hp; cases hp⟩ (by simp)).2 _ _ hr).1
    have := nodup_subset_length v' (t.map Prod.fst) hinv.1 (fun x hx => lookupInt_isSome_mem t x (hinv.2 x hx))
    simp only [List.length_map, List.length_nil] at this hc
    omega

/-- Non-vacuity: two sections that name each other through both entries are loaded once each. -/
example : (readXref false [] [(100, ⟨some (.int 200), some (.int 200)⟩), (200, ⟨some (.int 100), some (.int 100)⟩)] 100).map
    List.length = .ok 2 := by rfl

/-- Non-vacuity: a section whose Prev points at itself, and a 2-cycle, load and stop. -/
example : readXref false [] [(100, ⟨none, some (.int 100)⟩)] 100 = .ok [100] := by rfl
example : readXref false [] [(100, ⟨none, some (.int 200)⟩), (200, ⟨some (.int 100), some (.int 100)⟩)] 100
    = .ok [100, 200] := by rfl
example : readXref false [] [(100, ⟨none, some (.int (-1))⟩)] 100 = .error .pdfNoValidXRef := by rfl

/-! ## resolve_all -/

/-- Bound on the recursion DEPTH of `resolve_all` (Python stack frames) for every object graph and value:
each object can be entered at most once on a path (path guard) and is then walked through its nesting, so
`(objects + 1) · (deepest nesting + 2) + nesting of the value + 2` levels always suffice — reference cycles,
Parent back-pointers and shared sub-objects included. -/
theorem C13_fuel_resolve_all (strict : Bool) (g : Graph) (x : Obj) :
    resolveAllFuel strict g (resolveAllBudget g x) [] x ≠ .error .fuel := by
  intro h
  have hu := unvisited_le g []
  have hm : raMeasure g [] x ≤ resolveAllBudget g x := by
    unfold raMeasure resolveAllBudget
    have : unvisited g [] * (graphDepth g + 1) ≤ (g.length + 1) * (graphDepth g + 2) :=
      Nat.mul_le_mul (by omega) (by omega)
    omega
  have := resolveAll_good C13_guards_present.2.1 strict g _ [] x hm _ h
  cases this

/-- `resolve_all` returns the fully resolved value or the STRICT-mode circular-reference error. -/
theorem C13_family_resolve_all (strict : Bool) (g : Graph) (x : Obj) : Allowed (resolveAll strict g x) := by
  unfold resolveAll
  have hu := unvisited_le g []
  have hm : raMeasure g [] x ≤ resolveAllBudget g x := by
    unfold raMeasure resolveAllBudget
    have : unvisited g [] * (graphDepth g + 1) ≤ (g.length + 1) * (graphDepth g + 2) :=
      Nat.mul_le_mul (by omega) (by omega)
    omega
  cases hr : resolveAllFuel strict g (resolveAllBudget g x) [] x with
  | ok v => trivial
  | error e =>
    have := resolveAll_good C13_guards_present.2.1 strict g _ [] x hm e hr
    subst this
    exact isFamily_pdfValueError

/-- Round 6, counter-example to a bound on the TOTAL work of `resolve_all` by the input size: the guard cuts cycles
by path, so a value shared along two paths is resolved twice.  On the 10 objects `k: [k+1 0 R k+1 0 R]` it makes
2047 `getobj` calls, on 11 objects 4095 (2ⁿ⁺¹ − 1; the harness measures the same numbers on the implementation,
`ra_calls` op).  Only the DEPTH bound `C13_fuel_resolve_all` holds.  Not reachable by a single fault of a seed document
(it needs n edited objects), hence recorded as an observation, not as a finding — see docs/C13.md. -/
theorem C13_resolve_all_calls_cex :
    resolveAllCalls (diamond 10 0) (.ref 1) = 2047 ∧ (diamond 10 0).length = 10 ∧
    resolveAllCalls (diamond 11 0) (.ref 1) = 4095 := by
  refine ⟨?_, by decide, ?_⟩ <;>
    simp [resolveAllCalls, resolveAllBudget, graphDepth, Obj.depth, depthList, diamond, resolveAllCallsFuel,
      resolveAllCallsList, List.lookup, Gen.Lenient.resolveAllGuard]

/-! ## page-tree walk (`PDFPage.create_pages.depth_first_search`) -/

/-- Termination for EVERY object graph — Kids cycles, a node listed twice, Parent used as a kid, missing
objects, direct (non-indirect) nodes, integers used as object numbers: the recursion is never deeper than
`number of objects + 2`, and every object is expanded at most once (visited set). -/
theorem C13_fuel_pagetree (strict : Bool) (g : Graph) (root : Obj) (parent : List (String × Obj)) :
    dfsFuel strict g (g.length + 2) root parent [] ≠ .error .fuel := by
  intro h
  have hu := unvisited_le g []
  have := (dfs_good C13_guards_present.1 C13_guards_present.2.2.1 (by decide) strict g (g.length + 2)
    root parent [] (by omega)).1 _ h
  exact absurd this (by decide)

/-- The walk ends with the list of pages or a family error (PDFObjectNotFound for an integer kid that names
no object; PDFTypeError / PDFValueError in STRICT mode). -/
theorem C13_family_pagetree (strict : Bool) (g : Graph) (catalog : List (String × Obj)) :
    Allowed (pageTree strict g catalog) := by
  unfold pageTree
  cases hc : catalog.lookup "Pages" with
  | none => trivial
  | some root =>
    have hu := unvisited_le g []
    have hgood := dfs_good C13_guards_present.1 C13_guards_present.2.2.1 (by decide) strict g (pageTreeBudget g)
      root catalog [] (by unfold pageTreeBudget; omega)
    cases hr : dfsFuel strict g (pageTreeBudget g) root catalog [] with
    | error e =>
      simp only [hr, Allowed, bind, Except.bind]
      exact hgood.1 e hr
    | ok r => simp [hr, Allowed, bind, Except.bind, pure, Except.pure]

/-! ## get_widths on ill-typed W arrays -/

/-- `get_widths` returns a value or propagates `resolve1`'s STRICT-mode family error, for every array and
every object graph. -/
theorem C13_family_get_widths (strict : Bool) (g : Graph) (seq : List Obj) :
    Allowed (getWidths strict g seq) :=
  (getWidthsLoop_spec C13_guards_present.1 strict g seq []).1

/-- Bounded work: the number of dictionary entries `get_widths` materialises is at most `MAX_CID + 1`
(regenerated from pdffont.py; 65536) per element of the W array plus the lengths of the `c [w …]` arrays
it copies — whatever the numbers in the array are.  (In the pinned code `/W [0 N 500]` cost N + 1 steps:
that counter-example was proved in the first round and is now fixed in the repo.) -/
theorem C13_fuel_get_widths (strict : Bool) (g : Graph) (seq : List Obj) (ws : List WEntry)
    (h : getWidths strict g seq = .ok ws) :
    widthsWork ws ≤ 65536 * seq.length + runTotal ws := by
  have hs := (getWidthsLoop_spec C13_guards_present.1 strict g seq []).2 ws h
  have hw := widthsWork_le ws hs.2
  have hm : (Gen.Lenient.maxCid + 1).toNat = 65536 := by decide
  rw [hm] at hw
  have : 65536 * ws.length ≤ 65536 * seq.length := Nat.mul_le_mul_left _ hs.1
  omega

/-- Non-vacuity: a range far beyond the CID range is clamped, a run is copied. -/
example : (getWidths false [] [.int 0, .int 1000000000000, .int 500, .int 7, .arr [.int 1, .int 2]]).map widthsWork
    = .ok 65538 := by rfl

/-! ## Round 6 — stream decoders on damaged payloads

The decoder model is `Model/Filters.lean` (C03's model of ascii85.py / runlength.py / pdftypes.PDFStream.decode);
C03 proves round trips on VALID encodings and that the fuels suffice.  Here: for EVERY payload (truncated,
corrupted, random) the output is no longer than a stated linear function of the input, and every error a decoder
can raise is caught by `except _DECODE_ERRORS` of `PDFStream.decode` (tuple regenerated from pdftypes.py into
`Gen.Filters.DECODE_ERRORS`), so that no decoder error leaves `PDFStream.decode`.  The C13 harness runs the same
model functions through `drv_c13` (`dec …`) against the real decoders on damaged encodings and checks the same
bounds, plus a linear bound on the executed line events, on the implementation. -/

/-- RunLength: every run of the input yields at most 128 bytes; a truncated run raises StopIteration (or the
RuntimeError Python makes of it inside the generator expression), both caught by `PDFStream.decode`. -/
theorem C13_bound_rldecode (data : Bytes) :
    (∀ out, Filters.rldecode data = .ok out → out.length ≤ 128 * data.length) ∧
    (∀ e, Filters.rldecode data = .error e → e.isDecodeError = true) := by
  refine ⟨fun out h => Filters.rldecodeAux_len _ _ _ h, fun e h => ?_⟩
  rcases Filters.rldecodeAux_err _ _ _ h with rfl | rfl <;> decide

/-- ASCIIHex: two digits per byte (+1 for the implied `0` before `>`); the only error is `binascii.Error`
(a ValueError), caught by `PDFStream.decode`. -/
theorem C13_bound_asciihexdecode (data : Bytes) :
    (∀ out, Filters.asciihexdecode data = .ok out → 2 * out.length ≤ data.length + 1) ∧
    (∀ e, Filters.asciihexdecode data = .error e → e.isDecodeError = true) := by
  refine ⟨fun out h => Filters.asciihexdecode_len _ _ h, fun e h => ?_⟩
  rw [Filters.asciihexdecode_err _ _ h]; decide

/-- ASCII85: at most 4 bytes per input character (`z`), 16 for the padding group; the only error is ValueError. -/
theorem C13_bound_ascii85decode (data : Bytes) :
    (∀ out, Filters.ascii85decode data = .ok out → out.length ≤ 4 * data.length + 16) ∧
    (∀ e, Filters.ascii85decode data = .error e → e.isDecodeError = true) := by
  refine ⟨fun out h => Filters.ascii85decode_len _ _ h, fun e h => ?_⟩
  unfold Filters.ascii85decode at h
  rw [Filters.a85decode_err _ _ h]; decide

/-- LZW: a code emits a table entry, and entries grow by one byte per code, so the output is at most quadratic in
the number of codes: `(8·|data| + 1)·(8·|data| + 2)` bytes (fuel of the loop = one unit per code; C03's
`lzwdecode_fuel` shows it suffices).  The only error is IndexError (code beyond the table, or before the first
clear code), caught by `PDFStream.decode`; EOF and CorruptDataError end the loop inside `LZWDecoder.run`. -/
theorem C13_bound_lzwdecode (data : Bytes) :
    (∀ out, Filters.lzwdecode data = .ok out → out.length ≤ (8 * data.length + 1) * (8 * data.length + 2)) ∧
    (∀ e, Filters.lzwdecode data = .error e → e.isDecodeError = true) := by
  refine ⟨fun out h => ?_, fun e h => ?_⟩
  · have := Filters.lzwRunB_len _ _ _ _ _ 1 _ Filters.lzwInit_bound h
    have e : 1 + (8 * data.length + 1) = 8 * data.length + 2 := by omega
    rwa [e] at this
  · rw [Filters.lzwRunB_err _ _ _ _ _ _ h]; decide

/-- Predictors on ARBITRARY parameters (Colors, Columns, BitsPerComponent any natural numbers — zero, huge,
inconsistent with the data) and arbitrary data: the output is never longer than the input.  (Their errors —
IndexError on a short row, ValueError for a zero row length, PDFValueError — are covered by
`C13_family_stream_decode`; C03's `png_fuel` / `tiff_fuel` show that one unit of fuel per input byte suffices.) -/
theorem C13_bound_predictors (colors columns bpc : Nat) (data out : Bytes) :
    (Filters.apply_png_predictor colors columns bpc data = .ok out → out.length ≤ data.length) ∧
    (Filters.apply_tiff_predictor colors columns bpc data = .ok out → out.length ≤ data.length) :=
  ⟨Filters.apply_png_predictor_len _ _ _ _ _, Filters.apply_tiff_predictor_len _ _ _ _ _⟩

/-- Non-vacuity: zero columns (every byte is a row of its own), a short last row, an unknown filter type. -/
example : Filters.apply_png_predictor 1 0 8 [0, 1, 2] = .ok [] := by decide
example : Filters.apply_png_predictor 1 2 8 [1, 5, 5, 2, 7] = .ok [5, 10, 12] := by decide
example : Filters.apply_png_predictor 1 2 8 [7, 5, 5] = .error .pdfValue := by decide
example : Filters.apply_tiff_predictor 1 2 8 [1, 2, 3] = .error .indexError := by decide
example : Filters.apply_tiff_predictor 0 2 8 [1, 2, 3] = .error .valueError := by decide

/-- `PDFStream.decode` (non-STRICT), whole filter chain with predictors, on every payload and every
Filter/DecodeParms value of the model: it returns data, or raises a `PDFException` (PDFValueError for an unknown
predictor, PDFNotImplementedError for an unsupported filter; `outOfModel` marks CCITTFax, which C02 models) —
never one of the builtin errors of the decoders.  Holds because every builtin error class of the model's `Err`
is in the regenerated `_DECODE_ERRORS`: removing one from pdftypes.py breaks this proof. -/
theorem C13_family_stream_decode (inflate : Bytes → Bytes) (f : Filters.FilterVal) (p : Filters.ParmsVal) (raw : Bytes) :
    (∃ d, Filters.streamDecode inflate f p raw = .ok d) ∨
    (∃ e, Filters.streamDecode inflate f p raw = .error e ∧
      (e = .pdfValue ∨ e = .pdfNotImplemented ∨ e = .psEOF ∨ e = .outOfModel)) := by
  unfold Filters.streamDecode
  cases hr : Filters.streamDecodeRaw inflate f p raw with
  | ok d => exact Or.inl ⟨d, rfl⟩
  | error e =>
    by_cases he : e.isDecodeError = true
    · exact Or.inl ⟨[], by simp [he]⟩
    · refine Or.inr ⟨e, by simp [he], ?_⟩
      cases e <;> first | decide | exact absurd (by decide) he

/-- Non-vacuity: a literal run cut short, a repeat run without its byte, an odd hex digit, a bad ASCII85 digit;
and the bounds are attained (a repeat run of 128, `z`). -/
example : Filters.rldecode [2, 65] = .error .runtimeError := by decide
example : Filters.rldecode [200] = .error .stopIteration := by decide
example : (Filters.rldecode [129, 7]).map List.length = .ok (128 : Nat) := by rfl
example : Filters.asciihexdecode [52, 49, 52] = .error .binascii := by decide
example : Filters.asciihexdecode [52, 62] = .ok [64] := by decide
example : (Filters.ascii85decode [122]).map List.length = .ok (4 : Nat) := by decide
example : Filters.ascii85decode [118] = .error .valueError := by decide
example : Filters.streamDecode id (.name [82, 76]) .absent [2, 65] = .ok [] := by decide
example : Filters.lzwdecode [0x00, 0x80] = .error .indexError := by decide
example : Filters.lzwdecode [0x80, 0x0b, 0x60, 0x50, 0x22, 0x0c, 0x0c, 0x85, 0x01] = .ok [45, 45, 45, 45, 45, 65, 45, 45, 45, 66] := by
  decide +kernel

/-! ## Round 6c — the number-tree walk (`data_structures.NumberTree._parse`)

Model: `Model/LenientTree.lean` (`ntNode` = `NumberTree.__init__` + the leaf part of `_parse`, `ntParseFuel` /
`ntKidsFuel` = the walk with the visited set handed through; nodes and `/Kids` arrays direct or by reference), tied to
the real class by the `numtree` op of `drv_c13` on generated cyclic / shared / deep / ill-typed trees (items in order
and visited set in insertion order must be equal). -/

/-- For EVERY object graph, every start value, every fuel and both STRICT settings the walk yields the items, an error of
the family (PDFTypeError / PDFValueError of the typed accessors), or the out-of-fuel outcome — never a builtin error.
PARTIAL: what is missing is the proof that the depth fuel `resolveAllBudget g obj` of `numTree` always suffices
(each reference followed is new — see `C13_numtree_visits_once` — and inside an object the walk descends through
its nesting); the harness checks on every generated tree that the model never answers `E fuel` and that the
implementation returns. -/
theorem C13_family_numtree_partial (strict : Bool) (g : Graph) (fuel : Nat) (obj : Obj) :
    match ntParseFuel strict g fuel obj [] with
    | .ok _ => True
    | .error e => e.isFamily = true ∨ e = .fuel := by
  have h := ntParse_good C13_guards_present.1 C13_numtree_guard_present strict g fuel obj [] List.nodup_nil
  cases hr : ntParseFuel strict g fuel obj [] with
  | ok r => trivial
  | error e => exact h.1 e hr

/-- Every indirect node and every indirect `/Kids` array is entered at most once in the whole walk (siblings and
cousins included): the visited set the walk returns is duplicate free, for every graph, start value and fuel. -/
theorem C13_numtree_visits_once (strict : Bool) (g : Graph) (fuel : Nat) (obj : Obj)
    (its : List (Obj × Obj)) (v : List Nat) (h : ntParseFuel strict g fuel obj [] = .ok (its, v)) : v.Nodup :=
  ((ntParse_good C13_guards_present.1 C13_numtree_guard_present strict g fuel obj [] List.nodup_nil).2 its v h).1

/-- Non-vacuity: the defect of fix 8f4f6ca — a node written directly into the Kids array object 5 that names 5 as its own
`/Kids` — now ends with the array recorded once; a leaf behind a reference yields its item. -/
example : ntParseFuel false [(5, .arr [.dict [("Kids", .ref 5)]])] 6 (.dict [("Kids", .ref 5)]) [] = .ok ([], [5]) := by
  simp [ntParseFuel, ntKidsFuel, ntNode, ntList, ntItems, ntKidsRef, dictValue, listValue, resolve1, resolve1Fuel,
    List.lookup, Gen.Lenient.numberTreeGuard, Gen.Lenient.resolve1Guard, bind, Except.bind, pure, Except.pure]
example : ntParseFuel false [(2, .dict [("Nums", .arr [.int 4, .name "x"])])] 6 (.dict [("Kids", .arr [.ref 2, .ref 2])]) []
    = .ok ([(.int 4, .name "x")], [2]) := by
  simp [ntParseFuel, ntKidsFuel, ntNode, ntList, ntItems, ntKidsRef, dictValue, listValue, intValue, resolve1, resolve1Fuel,
    List.lookup, Gen.Lenient.numberTreeGuard, Gen.Lenient.resolve1Guard, bind, Except.bind, pure, Except.pure]

end PdfVerif.Props.C13
