/-
C04 — Page tree: order, inheritance, rotation/box normalisation, page selection.

Model: `PdfVerif.Model.PageTree` (hand model of pdfpage.py, tied to the implementation by the
correspondence check of tools/harness/props/c04.py) on top of `PdfVerif.Gen.PageTree`
(regenerated from pdfpage.py / pdfinterp.py / converter.py on every run).
Specification: `PdfVerif.Spec.PageTree`.

Only property theorems live here (helper lemmas: `Lemmas/PageTree.lean`).
-/
import PdfVerif.Lemmas.PageTree

namespace PdfVerif.Props.C04
open PdfVerif PdfVerif.PageTree PdfVerif.Gen.PageTree PdfVerif.Gen.Utils

/-! ## Rotate -/

/-- For every integer `Rotate` the stored value lies in 0..359 and is congruent to it mod 360. -/
theorem C04_rotate (r : Int) :
    0 ≤ norm_rotate r ∧ norm_rotate r < 360 ∧ (norm_rotate r - r) % 360 = 0 := by
  simp only [norm_rotate, pyMod]
  rw [Int.fmod_eq_emod_of_nonneg _ (by omega)]
  omega

example : norm_rotate (-90) = 270 ∧ norm_rotate 450 = 90 ∧ norm_rotate (-720) = 0 := by decide

/-! ## Page selection -/

/-- `get_pages(pagenos, maxpages)` yields exactly the pages whose zero-based index is selected
(an empty selection selects all) and below the limit (0 = no limit), in order. -/
theorem C04_select {α : Type} (sel : List Nat) (maxpages : Nat) (pages : List α) :
    getPages sel maxpages 0 pages = specSelect sel maxpages 0 pages :=
  select_from sel maxpages pages 0 (by omega)

example : getPages [5, 1] 2 0 [10, 11, 12, 13, 14, 15] = [11] := by decide
example : getPages [] 0 0 [10, 11, 12] = [10, 11, 12] := by decide

/-- The pinned `get_pages` (`continue` before the limit test) on `page_numbers = {5}`,
`maxpages = 2`: page 5 is yielded although its index is not below the limit. -/
def getPagesPinned {α : Type} (sel : List Nat) (maxpages : Nat) : Nat → List α → List α
  | _, [] => []
  | i, p :: ps =>
    if !sel.isEmpty && !sel.contains i then getPagesPinned sel maxpages (i + 1) ps
    else if maxpages != 0 && maxpages ≤ i + 1 then [p]
    else p :: getPagesPinned sel maxpages (i + 1) ps

theorem C04_select_pinned_cex :
    getPagesPinned [5] 2 0 [10, 11, 12, 13, 14, 15] ≠ specSelect [5] 2 0 [10, 11, 12, 13, 14, 15] := by
  decide

/-! ## Page coordinate system -/

/-- For `Rotate` ∈ {0, 90, 180, 270} and every MediaBox over ℚ, the regenerated CTM table sends
every point of default user space where the specification puts it: MediaBox origin to (0,0),
then `Rotate/90` clockwise quarter turns of the sheet. -/
theorem C04_ctm (rot : Int) (hrot : rot = 0 ∨ rot = 90 ∨ rot = 180 ∨ rot = 270) (mb : Rect) (p : Point) :
    apply_matrix_pt (page_ctm rot mb) p = (specDevice rot mb p).1 := by
  obtain ⟨x0, y0, x1, y1⟩ := mb
  obtain ⟨x, y⟩ := p
  rcases hrot with rfl | rfl | rfl | rfl <;>
    simp [page_ctm, apply_matrix_pt, specDevice, turn, rot90cw] <;>
    (try constructor) <;> grind

/-- … and `begin_page` gives the `LTPage` the box `(0, 0, w', h')` of the turned sheet
(for a normalised MediaBox, which `PDFPage` guarantees: `C04_box_normalised`). -/
theorem C04_ctm_bbox (rot : Int) (hrot : rot = 0 ∨ rot = 90 ∨ rot = 180 ∨ rot = 270) (mb : Rect)
    (hx : mb.1 ≤ mb.2.2.1) (hy : mb.2.1 ≤ mb.2.2.2) (p : Point) :
    begin_page_bbox (page_ctm rot mb) mb =
      (0, 0, (specDevice rot mb p).2.1, (specDevice rot mb p).2.2) := by
  obtain ⟨x0, y0, x1, y1⟩ := mb
  obtain ⟨x, y⟩ := p
  simp only at hx hy
  rcases hrot with rfl | rfl | rfl | rfl <;>
    simp [page_ctm, begin_page_bbox, apply_matrix_rect, apply_matrix_pt, specDevice, turn, rot90cw, ratAbs] <;>
    grind

/-- The four corners of a box, clockwise from the lower-left one. -/
def cornersCW (r : Rect) : List Point :=
  [(r.1, r.2.1), (r.1, r.2.2.2), (r.2.2.1, r.2.2.2), (r.2.2.1, r.2.1)]

/-- Move the first `k` elements to the end. -/
def rotl {α : Type} : Nat → List α → List α
  | 0, l => l
  | _ + 1, [] => []
  | k + 1, x :: xs => rotl k (xs ++ [x])

/-- The MediaBox lands on `(0, 0, w', h')` (the size of the sheet after `k = Rotate/90` clockwise
quarter turns) with its corners moved clockwise by `k` places: the image of the `j`-th corner
of the MediaBox is corner `j + k` of the turned sheet (lower-left goes to upper-left after one
quarter turn). By `C04_ctm_bbox` that box is `LTPage.bbox`. -/
theorem C04_ctm_corners (k : Nat) (hk : k < 4) (mb : Rect) :
    (cornersCW mb).map (apply_matrix_pt (page_ctm (90 * k) mb)) =
      rotl k (cornersCW (0, 0, (turn k (mb.2.2.1 - mb.1, mb.2.2.2 - mb.2.1) (0, 0)).2.1,
                               (turn k (mb.2.2.1 - mb.1, mb.2.2.2 - mb.2.1) (0, 0)).2.2)) := by
  obtain ⟨x0, y0, x1, y1⟩ := mb
  have : k = 0 ∨ k = 1 ∨ k = 2 ∨ k = 3 := by omega
  rcases this with rfl | rfl | rfl | rfl <;>
    simp [rotl, cornersCW, page_ctm, apply_matrix_pt, turn] <;>
    grind

example : apply_matrix_pt (page_ctm 90 (10, 20, 310, 420)) (10, 20) = (0, 300) := by
  simp [page_ctm, apply_matrix_pt]; grind

/-- `PDFPage._normalize_rect` (regenerated) returns a normalised box with the same corner set. -/
theorem C04_box_normalised (r : Rect) :
    (normalize_rect r).1 ≤ (normalize_rect r).2.2.1 ∧ (normalize_rect r).2.1 ≤ (normalize_rect r).2.2.2 ∧
    ((normalize_rect r).1 = r.1 ∧ (normalize_rect r).2.2.1 = r.2.2.1 ∨
     (normalize_rect r).1 = r.2.2.1 ∧ (normalize_rect r).2.2.1 = r.1) ∧
    ((normalize_rect r).2.1 = r.2.1 ∧ (normalize_rect r).2.2.2 = r.2.2.2 ∨
     (normalize_rect r).2.1 = r.2.2.2 ∧ (normalize_rect r).2.2.2 = r.2.1) := by
  obtain ⟨x0, y0, x1, y1⟩ := r
  simp only [normalize_rect]
  refine ⟨?_, ?_, ?_, ?_⟩ <;> grind

end PdfVerif.Props.C04
