/-
C04 — Page tree: order, inheritance, rotation/box normalisation, page selection.

Model: `PdfVerif.Model.PageTree` (hand model of pdfpage.py, tied to the implementation by the
correspondence check of tools/harness/props/c04.py) on top of `PdfVerif.Gen.PageTree`
(regenerated from pdfpage.py / pdfinterp.py / converter.py on every run).
Specification: `PdfVerif.Spec.PageTree`.

Only property theorems live here (helper lemmas: `Lemmas/PageTree.lean`).
-/
import PdfVerif.Lemmas.PageOrder
import PdfVerif.Lemmas.PageSelect

namespace PdfVerif.Props.C04
open PdfVerif PdfVerif.PageTree PdfVerif.Gen.PageTree PdfVerif.Gen.Utils

/-! ## Order and inheritance (page trees of any shape and depth) -/

/-- **Order.** If the object graph contains the page tree `t` (each node once, Kids = references to
the children) and `catalog["Pages"]` refers to its root, then `depth_first_search` yields exactly
the Page leaves of `t` in depth-first Kids order and ends without exception; the recursion budget
"number of nodes of the tree" is never exhausted. -/
theorem C04_order (g : Store) (t : PTree) (catalog : Dict) (fuel : Nat)
    (hE : Embeds g t) (hroot : dget catalog "Pages" = some (.atom (.ref t.id)))
    (hcat : ∀ k ∈ INHERITABLE_ATTRS, dget catalog k = none)
    (hnd : t.ids.Nodup) (hf : t.ids.length ≤ fuel) :
    (treeWalk g fuel catalog).err = none ∧
    (treeWalk g fuel catalog).pages.map (·.id) = (specLeaves t []).map (fun sp => some sp.1) := by
  have h := treeWalk_tree g t catalog fuel hE hroot hcat hnd hf
  refine ⟨h.err, ?_⟩
  have := congrArg (List.map Prod.fst) h.pages
  simpa [List.map_map, rawKey, specKey, Function.comp_def] using this

/-- **Inheritance.** Under the same hypotheses, for every page and every inheritable attribute
(the regenerated `INHERITABLE_ATTRS`), the overlaid dictionary handed to `PDFPage` holds the page's
own value or else that of its nearest ancestor defining it — at any depth. -/
theorem C04_inherit (g : Store) (t : PTree) (catalog : Dict) (fuel : Nat)
    (hE : Embeds g t) (hroot : dget catalog "Pages" = some (.atom (.ref t.id)))
    (hcat : ∀ k ∈ INHERITABLE_ATTRS, dget catalog k = none)
    (hnd : t.ids.Nodup) (hf : t.ids.length ≤ fuel) :
    (treeWalk g fuel catalog).pages.map (fun rp => (rp.id, INHERITABLE_ATTRS.map (dget rp.attrs))) =
      (specLeaves t []).map (fun sp => (some sp.1, INHERITABLE_ATTRS.map (inherited sp.2))) :=
  (treeWalk_tree g t catalog fuel hE hroot hcat hnd hf).pages

/-- **Pages.** Hence the `PDFPage` objects (Rotate reduced, boxes parsed/normalised/defaulted,
Resources) built by `create_pages` are exactly those the specification builds from
own-or-inherited attributes, in the same order (constructing a page raises nothing: ill-typed
boxes take the default). Needs all four attributes to be in `INHERITABLE_ATTRS`. -/
theorem C04_pages (g : Store) (t : PTree) (catalog : Dict) (fuel : Nat)
    (hE : Embeds g t) (hroot : dget catalog "Pages" = some (.atom (.ref t.id)))
    (hcat : ∀ k ∈ INHERITABLE_ATTRS, dget catalog k = none)
    (hnd : t.ids.Nodup) (hf : t.ids.length ≤ fuel) :
    finish (pageOfRaw g) (treeWalk g fuel catalog).pages (treeWalk g fuel catalog).err = specPages g t := by
  have h := treeWalk_tree g t catalog fuel hE hroot hcat hnd hf
  rw [h.err]
  exact finish_of_keys g _ _ none h.pages

/-- `create_pages` itself (with its fallback scan) on a tree that has at least one page. -/
theorem C04_create_pages (g : Store) (ids : List Nat) (t : PTree) (catalog : Dict) (fuel : Nat)
    (hE : Embeds g t) (hroot : dget catalog "Pages" = some (.atom (.ref t.id)))
    (hcat : ∀ k ∈ INHERITABLE_ATTRS, dget catalog k = none)
    (hnd : t.ids.Nodup) (hf : t.ids.length ≤ fuel) (hne : specLeaves t [] ≠ []) :
    createPages g ids fuel catalog = specPages g t := by
  have h := treeWalk_tree g t catalog fuel hE hroot hcat hnd hf
  have hp : (treeWalk g fuel catalog).pages.isEmpty = false := by
    have := congrArg List.length h.pages
    simp only [List.length_map] at this
    cases hl : (treeWalk g fuel catalog).pages with
    | nil => rw [hl] at this; simp at this; exact absurd (List.eq_nil_of_length_eq_zero this.symm) hne
    | cons _ _ => rfl
  unfold createPages
  simp only [hp, Bool.false_and, Bool.false_eq_true, if_false]
  exact C04_pages g t catalog fuel hE hroot hcat hnd hf

/-- The documents which the driver's `spec.pages` operation accepts (`docTree`) satisfy the
hypotheses above: what the harness compares the implementation with is what the theorems are about. -/
theorem C04_driver_domain (g : Store) (ids : List Nat) (catalog : Dict) (fuel : Nat) (t : PTree)
    (h : docTree g fuel catalog = some t) (hf : t.ids.length ≤ fuel) (hne : specLeaves t [] ≠ []) :
    createPages g ids fuel catalog = specPages g t := by
  obtain ⟨hE, hroot, hcat, hnd⟩ := docTree_sound g fuel catalog t h
  exact C04_create_pages g ids t catalog fuel hE hroot hcat hnd hf hne

/-- With attributes in the catalog the walk inherits from it as from a page-tree node; the
hypothesis `hcat` above is needed. -/
theorem C04_catalog_attr_cex :
    let g : Store := [(2, .node [("Type", .atom (.name "Page"))])]
    let catalog : Dict := [("Pages", .atom (.ref 2)), ("Rotate", .atom (.int 90))]
    (createPages g [2] 2 catalog).1.map (·.rotate) = [90] ∧
    (specPages g (.page 2 [("Type", .atom (.name "Page"))])).1.map (·.rotate) = [0] := by
  decide

/-- Non-vacuity: a three-level tree (grandparent defines Rotate and MediaBox, parent Resources,
one page overrides Rotate) is contained in its graph, and both sides give these pages. -/
def exStore : Store :=
  [(2, .node [("Type", .atom (.name "Pages")), ("Kids", .arr [.atom (.ref 5), .atom (.ref 3)]),
      ("Rotate", .atom (.int (-90))),
      ("MediaBox", .arr [.atom (.int 0), .atom (.int 0), .atom (.ref 9), .atom (.int 100)])]),
   (3, .node [("Type", .atom (.name "Pages")), ("Kids", .atom (.ref 8)),
      ("Resources", .dict [("Marker", .atom (.int 7))])]),
   (8, .val (.arr [.atom (.ref 4)])),
   (9, .val (.atom (.int 200))),
   (4, .node [("Type", .atom (.name "Page"))]),
   (5, .node [("type", .atom (.name "Page")), ("Rotate", .atom (.int 450))])]

def exCatalog : Dict := [("Type", .atom (.name "Catalog")), ("Pages", .atom (.ref 2))]

example : ∃ t, docTree exStore 7 exCatalog = some t ∧ t.ids = [2, 5, 3, 4] ∧
    createPages exStore [2, 3, 4, 5, 8, 9] 7 exCatalog =
      ([⟨some 5, 90, (0, 0, 200, 100), (0, 0, 200, 100), none⟩,
        ⟨some 4, 270, (0, 0, 200, 100), (0, 0, 200, 100), some 7⟩], none) := by
  refine ⟨_, rfl, ?_, ?_⟩ <;> decide

/-! ## Arbitrary graphs: termination, each node once, completeness, visiting order -/

/-- **Termination.** On every object graph (any Kids: cycles, self loops, repeated or shared nodes,
dangling references, direct dictionaries) the walk with the visited set never exhausts the
recursion budget "number of objects + 1", never visits a node twice, and yields no object twice. -/
theorem C04_terminates (g : Store) (catalog : Dict) :
    (treeWalk g (g.length + 1) catalog).err ≠ some .fuel ∧
    (treeWalk g (g.length + 1) catalog).visited.Nodup ∧
    ((treeWalk g (g.length + 1) catalog).pages.filterMap (·.id)).Nodup := by
  have key : ∀ kid, (visit g (g.length + 1) kid catalog []).err ≠ some .fuel ∧
      (visit g (g.length + 1) kid catalog []).visited.Nodup ∧
      ((visit g (g.length + 1) kid catalog []).pages.filterMap (·.id)).Nodup := by
    intro kid
    obtain ⟨⟨new, h1, h2, h3, _⟩, _⟩ := visit_inv g (g.length + 1) kid catalog []
    have hn : new.Nodup := by simpa using h2 List.nodup_nil
    refine ⟨visit_fuel g _ kid catalog [] ?_, ?_, ?_⟩
    · have := List.length_filter_le (fun n => !([] : List Nat).contains n) (g.map Prod.fst)
      simp only [List.length_map] at this
      unfold unvisited; omega
    · rw [h1]; exact h2 List.nodup_nil
    · rw [h3]
      exact (List.filter_sublist).nodup ((List.reverse_perm new).nodup_iff.mpr hn)
  unfold treeWalk
  split
  · exact ⟨by simp, List.nodup_nil, by simp⟩
  · exact key _
  · exact key _
  · exact ⟨by simp, List.nodup_nil, by simp⟩

/-- **Completeness and order on graphs.** For a root reference `r`, when the walk ends normally
(the only exception left is `PDFObjectNotFound` for an integer kid naming nothing):
everything reachable from `r` along Kids is visited, and the pages yielded (those that are
indirect objects) are exactly the visited Page nodes, each once, in the order of their first
visit. Hence every reachable Page is yielded exactly once. -/
theorem C04_graph (g : Store) (catalog : Dict) (r : Nat)
    (hroot : dget catalog "Pages" = some (.atom (.ref r)))
    (herr : (treeWalk g (g.length + 1) catalog).err = none) :
    let w := treeWalk g (g.length + 1) catalog
    (∀ n, Reach g r n → n ∈ w.visited) ∧
    w.pages.filterMap (·.id) = w.visited.reverse.filter (isPageNode g) ∧
    (∀ n, Reach g r n → isPageNode g n = true →
      (w.pages.filterMap (·.id)).count n = 1) := by
  simp only
  unfold treeWalk at herr ⊢
  rw [hroot] at herr ⊢
  simp only at herr ⊢
  have hreach := reach_visited g (g.length + 1) r catalog herr
  obtain ⟨⟨new, h1, h2, h3, _⟩, _⟩ := visit_inv g (g.length + 1) (.atom (.ref r)) catalog []
  have hvis : (visit g (g.length + 1) (.atom (.ref r)) catalog []).visited = new := by simpa using h1
  have hn : new.Nodup := by simpa using h2 List.nodup_nil
  refine ⟨hreach, by rw [h3, hvis], ?_⟩
  intro n hr hp
  rw [h3]
  have hmem : n ∈ new.reverse.filter (isPageNode g) := by
    rw [List.mem_filter]; exact ⟨by simpa [hvis] using hreach n hr, hp⟩
  have hnd : (new.reverse.filter (isPageNode g)).Nodup :=
    (List.filter_sublist).nodup ((List.reverse_perm new).nodup_iff.mpr hn)
  rw [hnd.count, if_pos hmem]

/-- **Inheritance on graphs.** Whatever the graph (shared nodes, cycles), every yielded page that is
an indirect object was reached along a chain of Kids entries from the root `r`, and each of its
inheritable attributes is its own or that of the nearest node on that chain defining it (the
chain on which the page is first reached). -/
theorem C04_graph_inherit (g : Store) (catalog : Dict) (r fuel : Nat)
    (hroot : dget catalog "Pages" = some (.atom (.ref r)))
    (hcat : ∀ k ∈ INHERITABLE_ATTRS, dget catalog k = none) :
    ∀ rp ∈ (treeWalk g fuel catalog).pages, ∀ p, rp.id = some p →
      ∃ path, path.head? = some p ∧ path.getLast? = some r ∧ IsChain g path ∧
        ∀ k ∈ INHERITABLE_ATTRS, dget rp.attrs k = inherited (path.map (nodeDict g)) k := by
  intro rp hrp p hp
  unfold treeWalk at hrp
  rw [hroot] at hrp
  simp only at hrp
  have h := visit_attrs g fuel (.atom (.ref r)) catalog [] []
    (fun k hk => by rw [hcat k hk]; simp [inherited]) (fun id _ => by simp [IsChain]) rp hrp p hp
  obtain ⟨id, path, hk, h1, h2, h3, h4⟩ := h
  have : id = r := by simpa [kidId] using hk.symm
  subst this
  exact ⟨path, h1, h2, by simpa using h3, by simpa using h4⟩

/-- **Depth-first order on graphs, against an algorithm-independent specification.** Whatever the
Kids graph (shared nodes, repeated kids, cycles, self loops, direct dictionaries), when the walk
ends normally the indirect pages it yields are exactly `specOrder g r`: the Page nodes in the order
in which the depth-first enumeration of *all simple Kids paths* from the root first arrives at
them. That specification has no visited set and no state shared between branches (a branch ends
only where it would return to one of its own ancestors); the visited set of the code is shown to
be an optimisation that never changes the result. -/
theorem C04_graph_order (g : Store) (catalog : Dict) (r : Nat)
    (hroot : dget catalog "Pages" = some (.atom (.ref r)))
    (herr : (treeWalk g (g.length + 1) catalog).err = none) :
    (treeWalk g (g.length + 1) catalog).pages.filterMap (·.id) = specOrder g r := by
  unfold treeWalk at herr ⊢
  rw [hroot] at herr ⊢
  simp only at herr ⊢
  have h := (visit_order g (g.length + 1) (.atom (.ref r)) catalog [] []
    (fun m hm => by simp at hm) (fun a ha => by simp at ha) herr).1
  simpa [specOrder, kidLeaves, kidId] using h

/-- The path budget of `specOrder` cuts no simple path: any larger budget lists the same. -/
theorem C04_path_budget (g : Store) (r d : Nat) :
    pathLeaves g (g.length + 1 + d) [] r = pathLeaves g (g.length + 1) [] r :=
  pathLeaves_stable g [] r d

/-- On a page tree the graph specification is the leaf order of the tree specification. -/
theorem C04_order_specs_agree (g : Store) (t : PTree) (catalog : Dict)
    (hE : Embeds g t) (hroot : dget catalog "Pages" = some (.atom (.ref t.id)))
    (hcat : ∀ k ∈ INHERITABLE_ATTRS, dget catalog k = none)
    (hnd : t.ids.Nodup) (hf : t.ids.length ≤ g.length + 1) :
    specOrder g t.id = (specLeaves t []).map (·.1) := by
  obtain ⟨he, hp⟩ := C04_order g t catalog (g.length + 1) hE hroot hcat hnd hf
  rw [← C04_graph_order g catalog t.id hroot he]
  have : ∀ (l : List RawPage) (m : List Nat), l.map (·.id) = m.map some → l.filterMap (·.id) = m := by
    intro l
    induction l with
    | nil => intro m h; cases m with
      | nil => rfl
      | cons _ _ => simp at h
    | cons x xs ih =>
      intro m h
      cases m with
      | nil => simp at h
      | cons y ys =>
        simp only [List.map_cons, List.cons.injEq] at h
        simp only [List.filterMap_cons, h.1]
        rw [ih ys h.2]
  apply this
  rw [hp]; simp [List.map_map, Function.comp_def]

/-- A cycle `2 → 3 → 2` with pages hanging behind the point where it closes, and a Page (6) shared
by two nodes: the path enumeration arrives at 5 (below 3) before 4 and 6, as the walk does. -/
example :
    let g : Store :=
      [(2, .node [("Type", .atom (.name "Pages")), ("Kids", .arr [.atom (.ref 3), .atom (.ref 4), .atom (.ref 6)])]),
       (3, .node [("Type", .atom (.name "Pages")), ("Kids", .arr [.atom (.ref 2), .atom (.ref 5), .atom (.ref 6)])]),
       (4, .node [("Type", .atom (.name "Page"))]),
       (5, .node [("Type", .atom (.name "Page"))]),
       (6, .node [("Type", .atom (.name "Page"))])]
    pathLeaves g 6 [] 2 = [5, 6, 4, 6] ∧ specOrder g 2 = [5, 6, 4] ∧
    (treeWalk g 6 [("Pages", .atom (.ref 2))]).err = none ∧
    (treeWalk g 6 [("Pages", .atom (.ref 2))]).pages.map (·.id) = [some 5, some 6, some 4] := by
  decide

/-- A Page (6) shared by two Pages nodes with different Rotate: it is yielded once, with the Rotate
of the node through which it is reached first (3), not of the later one (4). -/
example :
    let g : Store :=
      [(2, .node [("Type", .atom (.name "Pages")), ("Kids", .arr [.atom (.ref 3), .atom (.ref 4)])]),
       (3, .node [("Type", .atom (.name "Pages")), ("Kids", .arr [.atom (.ref 6)]), ("Rotate", .atom (.int 90))]),
       (4, .node [("Type", .atom (.name "Pages")), ("Kids", .arr [.atom (.ref 6), .atom (.ref 7)]),
            ("Rotate", .atom (.int 180))]),
       (6, .node [("Type", .atom (.name "Page"))]),
       (7, .node [("Type", .atom (.name "Page"))])]
    (createPages g [2, 3, 4, 6, 7] 6 [("Pages", .atom (.ref 2))]).1.map (fun p => (p.id, p.rotate))
      = [(some 6, 90), (some 7, 180)] := by
  decide

/-- A two-node cycle with a repeated kid, a self loop, a direct Page dictionary and a direct Pages
dictionary in Kids: the walk ends, pages 3 and 5 come once, the direct Page is yielded without
object number, the direct Pages node is ignored. -/
example :
    let g : Store :=
      [(2, .node [("Type", .atom (.name "Pages")),
            ("Kids", .arr [.atom (.ref 3), .atom (.ref 2), .dict [("Type", .atom (.name "Page"))], .atom (.ref 3),
              .dict [("Type", .atom (.name "Pages")), ("Kids", .atom (.ref 2))], .atom (.ref 4)])]),
       (3, .node [("Type", .atom (.name "Page"))]),
       (4, .node [("Type", .atom (.name "Pages")), ("Kids", .arr [.atom (.ref 2), .atom (.ref 5)])]),
       (5, .node [("Type", .atom (.name "Page"))])]
    ((treeWalk g 5 [("Pages", .atom (.ref 2))]).pages.map (·.id),
     (treeWalk g 5 [("Pages", .atom (.ref 2))]).visited,
     (treeWalk g 5 [("Pages", .atom (.ref 2))]).err)
      = ([some 3, none, some 5], [5, 4, 3, 2], none) := by
  decide

/-- **Values nest to any depth.** A Page dictionary written directly into Kids — with a direct
MediaBox array, a direct Resources dictionary holding a direct Font dictionary — is yielded without
object number, its attributes being its own or the inherited ones; an array written into Kids is
ignored, whatever it contains. (Outside the property's domain; part of the model's value space.) -/
theorem C04_direct_kid (g : Store) (f : Nat) (kvs : Flat) (xs : List Val) (P : Dict) (vis : List Nat)
    (hty : isName (nodeType kvs) "Page" = true) :
    visit g (f + 1) (.dict kvs) P vis = ⟨[⟨none, overlay P kvs⟩], vis, none⟩ ∧
    visit g (f + 1) (.arr xs) P vis = ⟨[], vis, none⟩ := by
  have hne : isName (nodeType kvs) "Pages" = false := by
    simp only [isName, beq_iff_eq] at hty ⊢
    rw [hty]; decide
  constructor
  · simp [visit, nodeOf, liftFlat, nodeType_overlay, hty, hne]
  · have h1 : nodeType (overlay P []) = none := by rw [nodeType_overlay]; rfl
    simp [visit, nodeOf, h1, isName]

example :
    let g : Store :=
      [(2, .node [("Type", .atom (.name "Pages")), ("Rotate", .atom (.int 90)),
            ("Kids", .arr [.arr [.atom (.ref 2)],
              .dict [("Type", .atom (.name "Page")),
                     ("MediaBox", .arr [.atom (.int 300), .atom (.int 2), .atom (.int 100), .atom (.int 10)]),
                     ("Resources", .dict [("Font", .dict [("F1", .atom (.ref 3))]), ("Marker", .atom (.int 7))])],
              .atom (.ref 5)])]),
       (5, .node [("Type", .atom (.name "Page")),
            ("CropBox", .arr [.atom (.int 0), .atom (.int 0), .arr [.atom (.int 1)], .atom (.int 9)])])]
    (createPages g [2, 5] 3 [("Pages", .atom (.ref 2))]).1 =
      [⟨none, 90, (100, 2, 300, 10), (100, 2, 300, 10), some 7⟩,
       ⟨some 5, 90, US_LETTER, US_LETTER, none⟩] := by
  decide

/-- `catalog["Pages"]` written as a direct Page dictionary: one page without object number. -/
example : (createPages [] [] 1 [("Pages", .dict [("Type", .atom (.name "Page")), ("Rotate", .atom (.int 90))])]).1.map
    (fun p => (p.id, p.rotate)) = [(none, 90)] := by decide

/-- **`resolve1` terminates.** The loop with the `seen` set never exhausts the budget "number of
objects + 1", whatever the chains of references (circular ones resolve to null). -/
theorem C04_resolve_total (g : Store) (v : Val) : resolveAux g (g.length + 1) [] v ≠ none :=
  resolve_total g v

example : resolve [(6, .val (.atom (.ref 7))), (7, .val (.atom (.ref 6)))] (.atom (.ref 6)) = .val (.atom .null) := by
  decide
example : resolve [(6, .val (.atom (.ref 7))), (7, .val (.atom (.ref 8))), (8, .val (.atom (.int 3)))]
    (.atom (.ref 6)) = .val (.atom (.int 3)) := by decide

/-! ## Rotate -/

/-- For every integer `Rotate` the stored value lies in 0..359 and is congruent to it mod 360. -/
theorem C04_rotate (r : Int) :
    0 ≤ norm_rotate r ∧ norm_rotate r < 360 ∧ (norm_rotate r - r) % 360 = 0 := by
  simp only [norm_rotate, pyMod]
  rw [Int.fmod_eq_emod_of_nonneg _ (by omega)]
  omega

example : norm_rotate (-90) = 270 ∧ norm_rotate 450 = 90 ∧ norm_rotate (-720) = 0 := by decide

/-- The `rotation` option of `extract_text_to_fp` (regenerated arithmetic): the Rotate used for the
page is again in 0..359 and congruent to `Rotate + rotation` mod 360, for all integers; so for
multiples of 90 the page lands as `C04_ctm`/`C04_ctm_bbox` say for that total rotation. -/
theorem C04_rotation_option (rotate rotation : Int) :
    0 ≤ add_rotation rotate rotation ∧ add_rotation rotate rotation < 360 ∧
    (add_rotation rotate rotation - (rotate + rotation)) % 360 = 0 := by
  simp only [add_rotation, pyMod]
  rw [Int.fmod_eq_emod_of_nonneg _ (by omega)]
  omega

example : add_rotation 270 180 = 90 ∧ add_rotation 0 (-90) = 270 := by decide

/-! ## Page selection -/

/-- `get_pages(pagenos, maxpages)` yields exactly the pages whose zero-based index is selected
(an empty selection selects all) and below the limit (0 = no limit), in order. -/
theorem C04_select {α : Type} (sel : List Nat) (maxpages : Nat) (pages : List α) :
    getPages sel maxpages 0 pages = specSelect sel maxpages 0 pages :=
  select_from sel maxpages pages 0 (by omega)

/-- **Selection with a pending exception.** When `create_pages` would raise after its last page,
`get_pages` yields the same pages and raises exactly when the loop asks for a page beyond the
last one, i.e. when the index of the failing page is below the limit (or there is no limit). -/
theorem C04_select_pending {α : Type} (sel : List Nat) (maxpages : Nat) (pages : List α) (e : Option Err) :
    getPagesS sel maxpages 0 pages e =
      (specSelect sel maxpages 0 pages, if maxpages = 0 ∨ pages.length < maxpages then e else none) := by
  have := select_stream sel maxpages pages e 0 (by omega)
  simpa [pastEnd] using this

example : getPagesS [] 2 0 [10, 11] (some Err.objectNotFound) = ([10, 11], none) := by decide
example : getPagesS [0] 3 0 [10, 11] (some Err.objectNotFound) = ([10], some Err.objectNotFound) := by decide

example : getPages [5, 1] 2 0 [10, 11, 12, 13, 14, 15] = [11] := by decide
example : getPages [] 0 0 [10, 11, 12] = [10, 11, 12] := by decide

/-- **Selection through the Python interface.** For `page_numbers` = `None` or *any* container of
integers (empty, with duplicates, in any order, with negative numbers or numbers beyond the last
page) and every `maxpages ≥ 0`, `get_pages` — and with it `extract_text`, `extract_pages`,
`extract_text_to_fp`, which pass both arguments on unchanged — yields exactly the pages whose
zero-based index is wanted (`None`/empty: all) and below the limit (0: none), in order; a pending
exception of `create_pages` is raised iff the failing page's index is below the limit. -/
theorem C04_select_py {α : Type} (pagenos : Option (List Int)) (maxpages : Int) (hmp : 0 ≤ maxpages)
    (pages : List α) (e : Option Err) :
    getPagesPy pagenos maxpages 0 pages e =
      (specSelectPy pagenos maxpages pages,
        if maxpages = 0 ∨ (pages.length : Int) < maxpages then e else none) := by
  obtain ⟨m, rfl⟩ := Int.eq_ofNat_of_zero_le hmp
  rw [select_stream_py pagenos m pages e 0 (by omega), specSelectPy_nat]
  have hc : pastEnd m 0 pages.length ↔ ((m : Int) = 0 ∨ (pages.length : Int) < (m : Int)) := by
    unfold pastEnd; omega
  simp only [hc]

/-- Duplicates, order and the kind of container do not matter: two containers with the same
members select the same pages (for every `maxpages`, negative ones included). -/
theorem C04_select_members {α : Type} (l1 l2 : List Int) (h : ∀ z, z ∈ l1 ↔ z ∈ l2) (maxpages : Int)
    (pages : List α) (e : Option Err) :
    getPagesPy (some l1) maxpages 0 pages e = getPagesPy (some l2) maxpages 0 pages e := by
  apply getPagesPy_congr
  · simp only [pagenosTruthy]
    cases l1 with
    | nil =>
      cases l2 with
      | nil => rfl
      | cons y ys => exact absurd ((h y).mpr (by simp)) (by simp)
    | cons x xs =>
      cases l2 with
      | nil => exact absurd ((h x).mp (by simp)) (by simp)
      | cons y ys => rfl
  · intro i
    simp only [pagenoIn]
    by_cases h1 : (i : Int) ∈ l1
    · have h2 := (h _).mp h1; simp [h1, h2]
    · have h2 : (i : Int) ∉ l2 := fun h2 => h1 ((h _).mpr h2); simp [h1, h2]

/-- `page_numbers=None` and an empty container are the same request. -/
theorem C04_select_none_empty {α : Type} (maxpages : Int) (pages : List α) (e : Option Err) :
    getPagesPy none maxpages 0 pages e = getPagesPy (some []) maxpages 0 pages e :=
  getPagesPy_congr none (some []) maxpages rfl (fun _ => rfl) pages 0 e

/-- A non-empty container none of whose members is a page index (negative, or beyond the last
page) selects nothing — it does *not* fall back to "all pages". -/
theorem C04_select_out_of_range {α : Type} (l : List Int) (hne : l ≠ []) (maxpages : Int) (hmp : 0 ≤ maxpages)
    (pages : List α) (e : Option Err) (hout : ∀ z ∈ l, z < 0 ∨ (pages.length : Int) ≤ z) :
    (getPagesPy (some l) maxpages 0 pages e).1 = [] := by
  rw [C04_select_py (some l) maxpages hmp pages e]
  simp only [specSelectPy, List.map_eq_nil_iff, List.filter_eq_nil_iff]
  intro pi hpi
  have hlt : pi.2 < pages.length := by
    have := List.snd_lt_of_mem_zipIdx hpi
    simpa using this
  have hemp : l.isEmpty = false := by cases l with
    | nil => exact absurd rfl hne
    | cons _ _ => rfl
  have hnot : (pi.2 : Int) ∉ l := by
    intro hm
    rcases hout _ hm with h | h <;> omega
  simp [wanted, hemp, hnot]

/-- Outside the property's domain but part of the code: a negative `maxpages` acts like 1. -/
theorem C04_select_negative_limit {α : Type} (pagenos : Option (List Int)) (maxpages : Int) (hneg : maxpages < 0)
    (p : α) (ps : List α) (e : Option Err) :
    getPagesPy pagenos maxpages 0 (p :: ps) e = (if wanted pagenos 0 then [p] else [], none) := by
  have hb : select_break maxpages ((0 : Nat) : Int) = true := by
    simp only [select_break, Bool.and_eq_true, bne_iff_ne, ne_eq, decide_eq_true_eq]
    omega
  simp only [getPagesPy, hb, if_true, select_yield_py]

example : getPagesPy (some [5, 1, 1, -3, 40]) 2 0 [10, 11, 12, 13, 14, 15] (some Err.objectNotFound)
    = ([11], none) := by decide
example : getPagesPy (some [-1]) 0 0 [10, 11, 12] none = ([], none) := by decide
example : getPagesPy (some []) 0 0 [10, 11, 12] none = ([10, 11, 12], none) := by decide
example : getPagesPy none (-4) 0 [10, 11, 12] none = ([10], none) := by decide
example : specSelectPy (some [2, 0, 2, 7]) 0 [10, 11, 12] = [10, 12] := by decide

/-- The pinned `get_pages` (`continue` before the limit test) on `page_numbers = {5}`,
`maxpages = 2`: page 5 is yielded although its index is not below the limit. -/
def getPagesPinned {α : Type} (sel : List Nat) (maxpages : Nat) : Nat → List α → List α
  | _, [] => []
  | i, p :: ps =>
    if !sel.isEmpty && !sel.contains i then getPagesPinned sel maxpages (i + 1) ps
    else if maxpages != 0 && maxpages ≤ i + 1 then [p]
    else p :: getPagesPinned sel maxpages (i + 1) ps

theorem C04_select_pinned_cex :
    getPagesPinned [5] 2 0 [10, 11, 12, 13, 14, 15] ≠ specSelect [5] 2 0 [10, 11, 12, 13, 14, 15] := by
  decide

/-! ## Page coordinate system -/

/-- For `Rotate` ∈ {0, 90, 180, 270} and every MediaBox over ℚ, the regenerated CTM table sends
every point of default user space where the specification puts it: MediaBox origin to (0,0),
then `Rotate/90` clockwise quarter turns of the sheet. -/
theorem C04_ctm (rot : Int) (hrot : rot = 0 ∨ rot = 90 ∨ rot = 180 ∨ rot = 270) (mb : Rect) (p : Point) :
    apply_matrix_pt (page_ctm rot mb) p = (specDevice rot mb p).1 := by
  obtain ⟨x0, y0, x1, y1⟩ := mb
  obtain ⟨x, y⟩ := p
  rcases hrot with rfl | rfl | rfl | rfl <;>
    simp [page_ctm, apply_matrix_pt, specDevice, turn, rot90cw] <;>
    (try constructor) <;> grind

/-- … and `begin_page` gives the `LTPage` the box `(0, 0, w', h')` of the turned sheet
(for a normalised MediaBox, which `PDFPage` guarantees: `C04_box_normalised`). -/
theorem C04_ctm_bbox (rot : Int) (hrot : rot = 0 ∨ rot = 90 ∨ rot = 180 ∨ rot = 270) (mb : Rect)
    (hx : mb.1 ≤ mb.2.2.1) (hy : mb.2.1 ≤ mb.2.2.2) (p : Point) :
    begin_page_bbox (page_ctm rot mb) mb =
      (0, 0, (specDevice rot mb p).2.1, (specDevice rot mb p).2.2) := by
  obtain ⟨x0, y0, x1, y1⟩ := mb
  obtain ⟨x, y⟩ := p
  simp only at hx hy
  rcases hrot with rfl | rfl | rfl | rfl <;>
    simp [page_ctm, begin_page_bbox, apply_matrix_rect, apply_matrix_pt, specDevice, turn, rot90cw, ratAbs] <;>
    grind

/-- What the harness observes per page (`LTPage.bbox` and the matrix of one glyph) is what the
specification demands. -/
theorem C04_render (rot : Int) (hrot : rot = 0 ∨ rot = 90 ∨ rot = 180 ∨ rot = 270) (mb : Rect)
    (hx : mb.1 ≤ mb.2.2.1) (hy : mb.2.1 ≤ mb.2.2.2) (p : Point) :
    render rot mb p = specRender rot mb p := by
  obtain ⟨x0, y0, x1, y1⟩ := mb
  obtain ⟨x, y⟩ := p
  simp only at hx hy
  rcases hrot with rfl | rfl | rfl | rfl <;>
    simp [render, specRender, page_ctm, begin_page_bbox, apply_matrix_rect, apply_matrix_pt, specDevice, turn,
      rot90cw, ratAbs] <;>
    grind

/-- The four corners of a box, clockwise from the lower-left one. -/
def cornersCW (r : Rect) : List Point :=
  [(r.1, r.2.1), (r.1, r.2.2.2), (r.2.2.1, r.2.2.2), (r.2.2.1, r.2.1)]

/-- Move the first `k` elements to the end. -/
def rotl {α : Type} : Nat → List α → List α
  | 0, l => l
  | _ + 1, [] => []
  | k + 1, x :: xs => rotl k (xs ++ [x])

/-- The MediaBox lands on `(0, 0, w', h')` (the size of the sheet after `k = Rotate/90` clockwise
quarter turns) with its corners moved clockwise by `k` places: the image of the `j`-th corner
of the MediaBox is corner `j + k` of the turned sheet (lower-left goes to upper-left after one
quarter turn). By `C04_ctm_bbox` that box is `LTPage.bbox`. -/
theorem C04_ctm_corners (k : Nat) (hk : k < 4) (mb : Rect) :
    (cornersCW mb).map (apply_matrix_pt (page_ctm (90 * k) mb)) =
      rotl k (cornersCW (0, 0, (turn k (mb.2.2.1 - mb.1, mb.2.2.2 - mb.2.1) (0, 0)).2.1,
                               (turn k (mb.2.2.1 - mb.1, mb.2.2.2 - mb.2.1) (0, 0)).2.2)) := by
  obtain ⟨x0, y0, x1, y1⟩ := mb
  have : k = 0 ∨ k = 1 ∨ k = 2 ∨ k = 3 := by omega
  rcases this with rfl | rfl | rfl | rfl <;>
    simp [rotl, cornersCW, page_ctm, apply_matrix_pt, turn] <;>
    grind

example : apply_matrix_pt (page_ctm 90 (10, 20, 310, 420)) (10, 20) = (0, 300) := by
  simp [page_ctm, apply_matrix_pt]; grind

/-- `PDFPage._normalize_rect` (regenerated) returns a normalised box with the same corner set. -/
theorem C04_box_normalised (r : Rect) :
    (normalize_rect r).1 ≤ (normalize_rect r).2.2.1 ∧ (normalize_rect r).2.1 ≤ (normalize_rect r).2.2.2 ∧
    ((normalize_rect r).1 = r.1 ∧ (normalize_rect r).2.2.1 = r.2.2.1 ∨
     (normalize_rect r).1 = r.2.2.1 ∧ (normalize_rect r).2.2.1 = r.1) ∧
    ((normalize_rect r).2.1 = r.2.1 ∧ (normalize_rect r).2.2.2 = r.2.2.2 ∨
     (normalize_rect r).2.1 = r.2.2.2 ∧ (normalize_rect r).2.2.2 = r.2.1) := by
  obtain ⟨x0, y0, x1, y1⟩ := r
  simp only [normalize_rect]
  refine ⟨?_, ?_, ?_, ?_⟩ <;> grind

/-- Every `PDFPage` that is constructed has Rotate in 0..359 and normalised MediaBox and CropBox
(whatever the attribute values: defaults, wrong-length arrays, swapped corners). -/
theorem C04_page_values (g : Store) (id : Option Nat) (res mb cb rot : Option Val) :
    0 ≤ (mkPage g id res mb cb rot).rotate ∧ (mkPage g id res mb cb rot).rotate < 360 ∧
    Normalised (mkPage g id res mb cb rot).mediabox ∧ Normalised (mkPage g id res mb cb rot).cropbox := by
  have hr : ∀ r : Int, 0 ≤ norm_rotate r ∧ norm_rotate r < 360 := by
    intro r
    simp only [norm_rotate, pyMod]
    rw [Int.fmod_eq_emod_of_nonneg _ (by omega)]
    omega
  have hm : Normalised (mkPage g id res mb cb rot).mediabox := by
    unfold mkPage
    cases mb with
    | none => simpa [parse_mediabox] using us_letter_normalised
    | some v =>
      have := box_default g v US_LETTER us_letter_normalised
      simp only [parse_mediabox, Option.isNone_some, Bool.false_eq_true, if_false, Option.bind_some]
      cases h : parseBox g v <;> simpa [h] using this
  refine ⟨(hr _).1, (hr _).2, hm, ?_⟩
  unfold mkPage at hm ⊢
  cases cb with
  | none => simpa [parse_cropbox] using hm
  | some v =>
    have := box_default g v _ hm
    simp only [parse_cropbox, Option.isNone_some, Bool.false_eq_true, if_false, Option.bind_some]
    cases h : parseBox g v <;> simpa [h] using this

/-- **Defaults of `PDFPage.__init__`** (on the regenerated `_parse_mediabox` / `_parse_cropbox`
structure): a missing or ill-formed MediaBox gives US Letter; a missing or ill-formed CropBox gives
the page's MediaBox (whatever that turned out to be); a well-formed box gives its normalised value. -/
theorem C04_box_defaults (g : Store) (id : Option Nat) (res mb cb rot : Option Val) :
    ((mb = none ∨ ∃ v, mb = some v ∧ parseBox g v = none) → (mkPage g id res mb cb rot).mediabox = US_LETTER) ∧
    ((cb = none ∨ ∃ v, cb = some v ∧ parseBox g v = none) →
      (mkPage g id res mb cb rot).cropbox = (mkPage g id res mb cb rot).mediabox) ∧
    (∀ v r, mb = some v → parseBox g v = some r → (mkPage g id res mb cb rot).mediabox = r) ∧
    (∀ v r, cb = some v → parseBox g v = some r → (mkPage g id res mb cb rot).cropbox = r) := by
  refine ⟨?_, ?_, ?_, ?_⟩
  · rintro (h | ⟨v, h, hp⟩) <;> subst h <;> simp [mkPage, parse_mediabox, *]
  · rintro (h | ⟨v, h, hp⟩) <;> subst h <;> simp [mkPage, parse_cropbox, *]
  · intro v r h hp; subst h; simp [mkPage, parse_mediabox, hp]
  · intro v r h hp; subst h; simp [mkPage, parse_cropbox, hp]

example : (mkPage [] none none none (some (.arr [.atom (.int 1)])) none).cropbox = US_LETTER ∧
    (mkPage [] none none (some (.arr [.atom (.int 9), .atom (.int 8), .atom (.int 1), .atom (.int 2)])) none none).cropbox
      = (1, 2, 9, 8) := by decide

/-- An integer `Rotate` that is a multiple of 90 (negative, beyond 360, …) is stored as one of the
four quarter turns. -/
theorem C04_rotate_quarter (r : Int) (h : r % 90 = 0) :
    norm_rotate r = 0 ∨ norm_rotate r = 90 ∨ norm_rotate r = 180 ∨ norm_rotate r = 270 := by
  simp only [norm_rotate, pyMod]
  rw [Int.fmod_eq_emod_of_nonneg _ (by omega)]
  omega

/-- **Every constructed page lands on its turned sheet.** No hypothesis on the boxes is left: for
every page `PDFPage.__init__` builds (whatever the entries: missing, swapped corners, ill-formed)
whose Rotate is a multiple of 90, `process_page`/`begin_page` map every point of the (normalised)
MediaBox coordinate system where the specification puts it, `LTPage.bbox` is `(0,0,w',h')` of the
turned sheet, and the harness observation equals the specification. -/
theorem C04_page_lands (g : Store) (id : Option Nat) (res mb cb rot : Option Val)
    (hq : (mkPage g id res mb cb rot).rotate % 90 = 0) (p : Point) :
    let pg := mkPage g id res mb cb rot
    apply_matrix_pt (page_ctm pg.rotate pg.mediabox) p = (specDevice pg.rotate pg.mediabox p).1 ∧
    begin_page_bbox (page_ctm pg.rotate pg.mediabox) pg.mediabox =
      (0, 0, (specDevice pg.rotate pg.mediabox p).2.1, (specDevice pg.rotate pg.mediabox p).2.2) ∧
    render pg.rotate pg.mediabox p = specRender pg.rotate pg.mediabox p := by
  intro pg
  obtain ⟨h0, h1, hn, _⟩ := C04_page_values g id res mb cb rot
  have hrot : pg.rotate = 0 ∨ pg.rotate = 90 ∨ pg.rotate = 180 ∨ pg.rotate = 270 := by
    have a0 : 0 ≤ pg.rotate := h0
    have a1 : pg.rotate < 360 := h1
    have a2 : pg.rotate % 90 = 0 := hq
    omega
  exact ⟨C04_ctm pg.rotate hrot pg.mediabox p, C04_ctm_bbox pg.rotate hrot pg.mediabox hn.1 hn.2 p,
    C04_render pg.rotate hrot pg.mediabox hn.1 hn.2 p⟩

/-- A page with `Rotate -90` and a MediaBox given by its upper-right and lower-left corners. -/
example :
    let pg := mkPage [] none none (some (.arr [.atom (.int 310), .atom (.int 420), .atom (.int 10), .atom (.int 20)]))
      none (some (.atom (.int (-90))))
    pg.rotate = 270 ∧ pg.rotate % 90 = 0 ∧ pg.mediabox = (10, 20, 310, 420) := by
  decide

end PdfVerif.Props.C04
