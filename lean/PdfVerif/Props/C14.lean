/-
C14 — the tokenizer is total, makes progress and is buffer-size independent on all bytes.

Statements are about `Lexer.run b data` (Model/Lexer.lean): the `nexttoken` loop of
`PSBaseParser` over `BytesIO(data)` with `BUFSIZ = b`, all tokens collected until PSEOF, one
unit of fuel per scanner call.  The byte classes it uses are regenerated from psparser.py.
-/
import PdfVerif.Lemmas.Lexer

namespace PdfVerif.Props.C14
open PdfVerif PdfVerif.Lexer PdfVerif.Gen.LexTables

/-- The buffered tokenizer equals the buffer-free byte automaton, for every buffer size ≥ 1. -/
theorem C14_run_eq_spec (b : Nat) (hb : 1 ≤ b) (data : Bytes) : run b data = some (specLex data) := by
  have h := runLoop_eq b hb (fuelFor data) St.init [] data 0 (by simp [fuelFor, St.init, rank])
  simpa [run, specLex, specFrom] using h

/-- Totality with a linear work bound: `3·|data| + 6` scanner calls are never exhausted. -/
theorem C14_total (b : Nat) (hb : 1 ≤ b) (data : Bytes) :
    runLoop b (3 * data.length + 6) St.init [] data 0 ≠ none := by
  have h := C14_run_eq_spec b hb data
  simp only [run, fuelFor] at h
  rw [h]; simp

/-- The identical token sequence for every read-buffer size. -/
theorem C14_bufsize_indep (b₁ b₂ : Nat) (h₁ : 1 ≤ b₁) (h₂ : 1 ≤ b₂) (data : Bytes) :
    run b₁ data = run b₂ data := by
  rw [C14_run_eq_spec b₁ h₁, C14_run_eq_spec b₂ h₂]

/-- Non-vacuity: a literal string with a backslash-CR-LF continuation split by the buffer boundary,
    an over-long octal escape and a `#xx` name, at buffer sizes 1, 3 and 4096. -/
example : run 3 [40, 97, 92, 13, 10, 98, 92, 55, 55, 55, 41, 47, 65, 35, 52, 49, 32]
    = some [(0, .str [97, 98, 255]), (11, .lit [65, 65])] := by decide +kernel
example : run 1 [40, 97, 92, 13, 10, 98, 92, 55, 55, 55, 41, 47, 65, 35, 52, 49, 32]
    = run 4096 [40, 97, 92, 13, 10, 98, 92, 55, 55, 55, 41, 47, 65, 35, 52, 49, 32] := by decide +kernel

end PdfVerif.Props.C14
