/-
C14 — the tokenizer is total, makes progress and is buffer-size independent on all bytes.

Statements are about `Lexer.run b data` (Model/Lexer.lean): the `nexttoken` loop of
`PSBaseParser` over `BytesIO(data)` with `BUFSIZ = b`, all tokens collected until PSEOF, one
unit of fuel per scanner call.  The byte classes it uses are regenerated from psparser.py.
-/
import PdfVerif.Lemmas.LexerPos
import PdfVerif.Lemmas.LexerErr
import PdfVerif.Lemmas.LexCompose
import PdfVerif.Lemmas.LexScanTie

namespace PdfVerif.Props.C14
open PdfVerif PdfVerif.Lexer PdfVerif.Gen.LexTables PdfVerif.Gen.LexScan

/-- The buffered tokenizer equals the buffer-free byte automaton, for every buffer size ≥ 1. -/
theorem C14_run_eq_spec (b : Nat) (hb : 1 ≤ b) (data : Bytes) : run b data = some (specLex data) := by
  have h := runLoop_eq b hb (fuelFor data) false St.init [] data 0 (by simp)
    (by simp [fuelFor, St.init, rank]; omega)
  simpa [run, specLex] using h

/-- Totality with a linear work bound: `3·|data| + 6` scanner calls are never exhausted. -/
theorem C14_total (b : Nat) (hb : 1 ≤ b) (data : Bytes) :
    runLoop b (3 * data.length + 6) false St.init [] data 0 ≠ none := by
  have h := C14_run_eq_spec b hb data
  simp only [run, fuelFor] at h
  rw [h]; simp

/-- The identical token sequence for every read-buffer size. -/
theorem C14_bufsize_indep (b₁ b₂ : Nat) (h₁ : 1 ≤ b₁) (h₂ : 1 ≤ b₂) (data : Bytes) :
    run b₁ data = run b₂ data := by
  rw [C14_run_eq_spec b₁ h₁, C14_run_eq_spec b₂ h₂]

/-- Token positions never decrease and lie inside the input (stated for the buffer-free sequence;
    by `C14_run_eq_spec` it is the sequence of every buffer size).  Uses the regenerated NONSPC table:
    the flushed newline is not a token start. -/
theorem C14_positions (data : Bytes) :
    (specLex data).Pairwise (fun a b => a.1 ≤ b.1) ∧ ∀ t ∈ specLex data, t.1 < data.length := by
  have hnl : isNONSPC 10 = false := by decide +kernel
  have hf := foldBytes_between data St.init 0 (Nat.le_refl _)
  have hfl := stepN_nl hnl 3 (foldBytes St.init data 0).1 (0 + data.length)
  have htp : St.init.tpos = 0 := rfl
  rw [htp] at hf
  have hspec : specLex data = (foldBytes St.init data 0).2 ++
      (stepN 3 (foldBytes St.init data 0).1 10 (0 + data.length)).2 := by
    unfold specLex
    rw [foldBytes_append]
    simp [foldBytes, stepByte]
  rw [hspec]
  refine ⟨?_, ?_⟩
  · refine List.pairwise_append.mpr ⟨hf.2.2.1, ?_, ?_⟩
    · rw [List.pairwise_iff_forall_sublist]
      intro a b hab
      have ha := hfl.2 a (hab.subset (by simp))
      have hb := hfl.2 b (hab.subset (by simp))
      omega
    · intro a ha b hb
      have := (hf.2.2.2 a ha).2
      have := hfl.2 b hb
      omega
  · cases data with
    | nil =>
      have he : specLex [] = [] := by decide +kernel
      rw [← hspec, he]; simp
    | cons c tl =>
      intro t ht
      have hmax := hf.2.1
      simp only [List.length_cons] at hmax ⊢
      rcases List.mem_append.mp ht with h | h
      · have := (hf.2.2.2 t h).2; omega
      · have := hfl.2 t h; omega

/-- The same for the buffered tokenizer at any buffer size. -/
theorem C14_positions_run (b : Nat) (hb : 1 ≤ b) (data : Bytes) :
    ∃ ts, run b data = some ts ∧ ts.Pairwise (fun a b => a.1 ≤ b.1) ∧ ∀ t ∈ ts, t.1 < data.length :=
  ⟨specLex data, C14_run_eq_spec b hb data, C14_positions data⟩

/-- Nothing but end of input is signalled: no exception of a Python primitive reached by the scanners
    (`int(.., 16)`, `int(.., 8)`, `bytes((v,))`, the HEX_PAIR substitution) escapes, on any byte string.
    (`int()`/`float()` of a number token raise ValueError inside a `try` of the scanner: no token.) -/
theorem C14_only_eof (data : Bytes) : ∀ t ∈ specLex data, isErr t.2 = false :=
  (foldBytes_ok (data ++ [10]) St.init 0 inv_init).2

theorem C14_only_eof_run (b : Nat) (hb : 1 ≤ b) (data : Bytes) :
    ∃ ts, run b data = some ts ∧ ∀ t ∈ ts, isErr t.2 = false :=
  ⟨specLex data, C14_run_eq_spec b hb data, C14_only_eof data⟩

/-! ### the hand model is tied to the regenerated straight-line code of `_parse_main` / `_parse_keyword` -/

def modeCode : Mode → Nat
  | .main => 0 | .comment => 1 | .literal => 2 | .number => 3 | .float => 4 | .keyword => 5 | .string => 6
  | .wopen => 7 | .wclose => 8 | _ => 99

/-- first matching row of the translated if/elif chain -/
def dispatchOf : List (Nat × List UInt8 × Nat) → UInt8 → Nat
  | [], _ => 999
  | (k, lit, t) :: r, c =>
    if (k == 0 && lit == [c]) || (k == 1 && (lit.contains c || isDigit c)) || (k == 2 && isAlpha c) || k == 3 then t
    else dispatchOf r c

def mainHitCode (c : UInt8) : Nat :=
  modeCode (parseMainHit St.init c 0).st.mode + (if (parseMainHit St.init c 0).toks.isEmpty then 0 else 100)

/-- The dispatch of the hand-written `parseMainHit` is, byte for byte, the if/elif chain of
    `PSBaseParser._parse_main` as regenerated from the source (`Gen.LexTables.MAIN_DISPATCH`), and the
    boolean keywords are the literals of `_parse_keyword`: an edit of either in psparser.py breaks this proof. -/
theorem C14_dispatch_tied :
    (∀ c : UInt8, (mainHitCode c == dispatchOf MAIN_DISPATCH c) = true) ∧ kwTrue = KW_TRUE ∧ kwFalse = KW_FALSE :=
  ⟨forall_byte _ (by decide +kernel), by decide, by decide⟩

/-! ### every scanner body is tied to the code regenerated from psparser.py (`Gen/LexScan.lean`) -/

/-- For EVERY parser state, byte and position, what the hand model does at the byte a scanner stops at
    (`parseMainHit … parseHexstringHit`, dispatched by `atHit`) is the interpretation of that scanner's
    body as translated from `PSBaseParser._parse_*` on this run (conditions, attribute updates, tokens
    added, `return k` vs `return k + 1`, escaping ValueError).  An edit of the straight-line code of any
    of the thirteen scanners changes `Gen/LexScan.lean` and breaks this proof. -/
theorem C14_scanners_tied (st : St) (c : UInt8) (j : Nat) : atHit st c j = genAtHit st c j :=
  atHit_eq_gen st c j

/-- The regex every scanner searches the buffer with is the one in its regenerated preamble. -/
theorem C14_search_tied (m : Mode) : searchClass m = ((scnOfMode m).bind searchRe).map clsFn :=
  searchClass_eq_gen m

/-- One whole scanner call `self._parse1(buf, charpos)` of the hand model (search, bytes appended to
    `_curtoken`, body, returned index) equals the call assembled from regenerated parts only; through
    `C14_run_eq_spec` every theorem of this file is therefore about the regenerated scanners. -/
theorem C14_call_tied (st : St) (rest : Bytes) (pos : Nat) : call st rest pos = genCall st rest pos :=
  call_eq_gen st rest pos

/-- Non-vacuity: the regenerated `_parse_string_1` closes a three-digit octal escape with overflow,
    the regenerated `_parse_literal` call stops at `#`. -/
example : (genAtHit { mode := .string1, cur := [97], oct := [55, 55, 55] } 41 5).st.cur = [97, 255] := by decide +kernel
example : (genCall { mode := .literal, cur := [65] } [66, 35, 52] 7).st.mode = .literalHex ∧
    (genCall { mode := .literal, cur := [65] } [66, 35, 52] 7).pos = 9 := by decide +kernel

/-! ### compositionality: token VALUES of a concatenation (the C05 contents-splitting clause relies on it) -/

/-- Once the lexer is back in the main scanner after `pre` (e.g. `pre` ends with a delimiter-closed token
    or with white space), the rest is tokenised as a fresh input: same token values, positions shifted
    by `|pre|`.  All byte strings, no size bound. -/
theorem C14_compositional_main (pre b : Bytes) (hm : modeAfter pre = .main) :
    specLex (pre ++ b) = specLex pre ++ shiftToks pre.length (specLex b) :=
  specLex_append_main pre b hm

/-- Compositionality with a white-space separator: when `a` ends in a complete token (the lexer is not
    inside a string, a hexadecimal string or a comment and not behind a lone `<`: `Complete`), then for
    every non-empty run `ws` of white-space bytes (every byte of the regenerated SPC table: NUL HT LF VT
    FF CR SP) and every `b`, the tokens of `a ++ ws ++ b` are exactly the tokens of `a` followed by the
    tokens of `b`, shifted by `|a| + |ws|`. -/
theorem C14_compositional (a ws b : Bytes) (hc : Complete (modeAfter a) = true)
    (hne : ws ≠ []) (hws : ∀ c ∈ ws, isSPC c = true) :
    specLex (a ++ ws ++ b) = concatLex a ws b :=
  specLex_append_ws a ws b hc hne hws

/-- The same for the buffered tokenizer at every buffer size. -/
theorem C14_compositional_run (n : Nat) (hn : 1 ≤ n) (a ws b : Bytes) (hc : Complete (modeAfter a) = true)
    (hne : ws ≠ []) (hws : ∀ c ∈ ws, isSPC c = true) :
    run n (a ++ ws ++ b) = some (concatLex a ws b) := by
  rw [C14_run_eq_spec n hn, C14_compositional a ws b hc hne hws]

/-- Any number of pieces (the content streams of a page, C05): when every piece but the last ends in a
    complete token, the token values of the pieces joined by a white-space separator are the token values
    of the pieces, one after the other. -/
theorem C14_compositional_list (ws : Bytes) (hne : ws ≠ []) (hws : ∀ c ∈ ws, isSPC c = true) :
    ∀ parts : List Bytes, (∀ p ∈ parts.dropLast, Complete (modeAfter p) = true) →
      tokValues (specLex (joinWith ws parts)) = (parts.map (fun p => tokValues (specLex p))).flatten
  | [], _ => by
    have h : specLex [] = [] := by decide +kernel
    simp [joinWith, h, tokValues]
  | [a], _ => by simp [joinWith]
  | a :: b :: r, h => by
    have ih := C14_compositional_list ws hne hws (b :: r) (fun p hp => h p (by simp [List.dropLast] at hp ⊢; exact Or.inr hp))
    have ha := h a (by simp [List.dropLast])
    simp only [joinWith]
    rw [C14_compositional a ws _ ha hne hws]
    simp only [concatLex, tokValues, shiftToks, List.map_append, List.map_map, List.map_cons, List.flatten_cons] at ih ⊢
    rw [← ih]
    simp [Function.comp_def]

/-- The hypothesis cannot be dropped: inside a literal string the separator and what follows belong to
    the string. -/
theorem C14_compositional_open_cex :
    Complete (modeAfter [40, 97]) = false ∧ specLex ([40, 97] ++ [32] ++ [41, 49]) ≠ concatLex [40, 97] [32] [41, 49] := by
  decide +kernel

/-- Non-vacuity: `/A#4` (pending name escape) + NUL CR + `(x)12`; `12` + LF + `0 R`. -/
example : Complete (modeAfter [47, 65, 35, 52]) = true ∧ (∀ c ∈ ([0, 13] : Bytes), isSPC c = true) ∧
    specLex ([47, 65, 35, 52] ++ [0, 13] ++ [40, 120, 41, 49, 50])
      = [(0, .lit [65, 4]), (6, .str [120]), (9, .int 12)] := by decide +kernel
example : Complete (modeAfter [49, 50]) = true ∧ concatLex [49, 50] [10] [48, 32, 82]
    = [(0, .int 12), (3, .int 0), (5, .kwd [82])] := by decide +kernel
example : tokValues (specLex (joinWith [10] [[49, 50], [47, 65, 35, 52], [40, 120, 41]]))
    = [.int 12, .lit [65, 4], .str [120]] := by decide +kernel
example : modeAfter [60, 52, 49, 62] = .wclose ∧ modeAfter [40, 97, 41] = .main := by decide +kernel

/-- Non-vacuity: a literal string with a backslash-CR-LF continuation split by the buffer boundary,
    an over-long octal escape and a `#xx` name, at buffer sizes 1, 3 and 4096. -/
example : run 3 [40, 97, 92, 13, 10, 98, 92, 55, 55, 55, 41, 47, 65, 35, 52, 49, 32]
    = some [(0, .str [97, 98, 255]), (11, .lit [65, 65])] := by decide +kernel
example : run 1 [40, 97, 92, 13, 10, 98, 92, 55, 55, 55, 41, 47, 65, 35, 52, 49, 32]
    = run 4096 [40, 97, 92, 13, 10, 98, 92, 55, 55, 55, 41, 47, 65, 35, 52, 49, 32] := by decide +kernel

end PdfVerif.Props.C14
