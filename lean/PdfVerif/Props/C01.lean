/-
C01 — every conformant spelling of a value reads back as that value.

Token level: theorems about the buffer-free byte automaton `Lexer.foldBytes` / `Lexer.specLex`;
by `C14_run_eq_spec` the buffered tokenizer yields the same tokens for EVERY buffer size, which is
the "independent of buffer boundaries" half of the property.  Tree level: the stack parser
(`StackParser.feed`, model of PSStackParser.nextobject + PDFStreamParser) rebuilds any tree from its tokens.
-/
import PdfVerif.Lemmas.LexTokens
import PdfVerif.Lemmas.StackParser
import PdfVerif.Lemmas.Roundtrip
import PdfVerif.Lemmas.SpecSound
import PdfVerif.Props.C14
import PdfVerif.Lemmas.StreamSeam

namespace PdfVerif.Props.C01
open PdfVerif PdfVerif.Lexer PdfVerif.Gen.LexTables PdfVerif.StackParser PdfVerif.Roundtrip PdfVerif.SpecSound

/-! ### integers -/

/-- Every spelling `[+-]?d+` (at most 4300 digits, CPython's limit) followed by any byte that is not
    a digit or `.` lexes to its value at its own position; lexing then continues in the main
    scanner at that byte.  Leading zeros, `+` and `-0` included. -/
theorem C01_int_token (st : St) (hm : st.mode = .main) (sign ds : Bytes) (d : UInt8) (rest : Bytes) (pos : Nat)
    (hs : sign = [] ∨ sign = [43] ∨ sign = [45]) (hne : ds ≠ []) (hd : ∀ c ∈ ds, isDigit c = true)
    (hlen : ds.length ≤ 4300) (hend : isEND_NUMBER d = true) (h46 : d ≠ 46) :
    (foldBytes st (sign ++ ds ++ d :: rest) pos).2 =
      (pos, Token.int (intValue sign ds)) ::
        (foldBytes { st with tpos := pos, cur := sign ++ ds, mode := .main } (d :: rest)
          (pos + (sign ++ ds).length)).2 := by
  rw [foldBytes_append, int_spelling_pending st hm sign ds pos hs hne hd]
  simp only [foldBytes, List.nil_append]
  rw [number_end _ d _ (intValue sign ds) rfl hend h46 (pyInt_spelling sign ds hs hne hd hlen)]
  simp

/-- …in particular at the very end of the data (the flushed newline ends the token). -/
theorem C01_int_token_eof (sign ds : Bytes)
    (hs : sign = [] ∨ sign = [43] ∨ sign = [45]) (hne : ds ≠ []) (hd : ∀ c ∈ ds, isDigit c = true)
    (hlen : ds.length ≤ 4300) :
    specLex (sign ++ ds) = [(0, Token.int (intValue sign ds))] := by
  have hnl : isEND_NUMBER 10 = true := by decide +kernel
  have hsp : isNONSPC 10 = false := by decide +kernel
  have h := C01_int_token St.init rfl sign ds 10 [] 0 hs hne hd hlen hnl (by decide)
  unfold specLex
  rw [h]
  simp [foldBytes, stepByte, stepN, searchClass, hsp]

/-- The same tokens come out of the buffered tokenizer at every buffer size. -/
theorem C01_int_token_buffered (b : Nat) (hb : 1 ≤ b) (sign ds : Bytes)
    (hs : sign = [] ∨ sign = [43] ∨ sign = [45]) (hne : ds ≠ []) (hd : ∀ c ∈ ds, isDigit c = true)
    (hlen : ds.length ≤ 4300) :
    run b (sign ++ ds) = some [(0, Token.int (intValue sign ds))] := by
  rw [C14.C14_run_eq_spec b hb, C01_int_token_eof sign ds hs hne hd hlen]

example : run 2 [43, 48, 48, 55, 49] = some [(0, Token.int 71)] := by decide +kernel

/-! ### names -/

/-- Every spelling `/` + (raw regular bytes 21h–7Eh | `#xx` for any byte, either hex case), followed
    by a white-space or delimiter byte, lexes to the name's bytes at its position; lexing continues in
    the main scanner at that byte. -/
theorem C01_name_token (st : St) (hm : st.mode = .main) (items : List NameItem) (hok : ∀ i ∈ items, i.ok)
    (d : UInt8) (rest : Bytes) (pos : Nat) (hd : isEND_LITERAL d = true) (h35 : d ≠ 35) :
    ∃ st', st'.mode = .main ∧
      (foldBytes st (47 :: renderName items ++ d :: rest) pos).2 =
        (pos, Token.lit (nameValue items)) ::
          (foldBytes st' (d :: rest) (pos + 1 + (renderName items).length)).2 := by
  obtain ⟨s1, hp1, hs1⟩ := main_name_start st pos hm
  obtain ⟨s2, hp2, hs2⟩ := name_items_fold items [] pos s1 (pos + 1) hp1 hok
  obtain ⟨s3, hm3, hs3⟩ := name_end _ pos s2 d (pos + 1 + (renderName items).length) hp2 hd h35
  refine ⟨s3, hm3, ?_⟩
  simp only [List.cons_append, foldBytes, hs1, List.nil_append]
  rw [foldBytes_append, hs2]
  simp only [foldBytes, List.nil_append, hs3]
  simp

/-- …in particular at the very end of the data, `#xx` last included (the flushed newline ends it). -/
theorem C01_name_token_eof (items : List NameItem) (hok : ∀ i ∈ items, i.ok) :
    specLex (47 :: renderName items) = [(0, Token.lit (nameValue items))] := by
  have hnl : isEND_LITERAL 10 = true := by decide +kernel
  have hsp : isNONSPC 10 = false := by decide +kernel
  obtain ⟨st', hm, h⟩ := C01_name_token St.init rfl items hok 10 [] 0 hnl (by decide)
  unfold specLex
  have e : (47 :: renderName items) ++ [10] = 47 :: renderName items ++ 10 :: [] := by simp
  rw [e, h]
  simp [foldBytes, stepByte, stepN, searchClass, hsp, hm]

theorem C01_name_token_buffered (b : Nat) (hb : 1 ≤ b) (items : List NameItem) (hok : ∀ i ∈ items, i.ok) :
    run b (47 :: renderName items) = some [(0, Token.lit (nameValue items))] := by
  rw [C14.C14_run_eq_spec b hb, C01_name_token_eof items hok]

/-- Non-vacuity: `/A#20#2fb` is the name `A /b`. -/
example : (∀ i ∈ [NameItem.raw 65, .esc 50 48, .esc 50 102, .raw 98], i.ok) ∧
    renderName [NameItem.raw 65, .esc 50 48, .esc 50 102, .raw 98] = [65, 35, 50, 48, 35, 50, 102, 98] ∧
    nameValue [NameItem.raw 65, .esc 50 48, .esc 50 102, .raw 98] = [65, 32, 47, 98] := by
  refine ⟨?_, by decide, by decide +kernel⟩
  intro i hi
  simp at hi
  rcases hi with rfl | rfl | rfl | rfl <;> simp [NameItem.ok] <;> decide +kernel

/-! ### hexadecimal strings -/

/-- the hexadecimal digits of a body, white space (incl. NUL) removed -/
def hexDigits (body : Bytes) : Bytes := body.filter (fun c => !isSPC c)

/-- FULL statement (ISO 32000-1 7.3.4.3): `<` + hex digits of either case with white space anywhere +
    `>` reads as the bytes of the digit pairs, a final odd digit being followed by an assumed 0. -/
def C01_hex_statement : Prop :=
  ∀ (body : Bytes), (∀ c ∈ body, isHEX c = true ∨ isSPC c = true) →
    specLex (60 :: body ++ [62]) = [(0, Token.str (pairUp (hexDigits body)))]

/-- Proved for an even number of digits (any case, white space anywhere, any position, any state
    of the other parser attributes); the `>` leaves the tokenizer in `_parse_wclose`. -/
theorem C01_hex_token_partial (st : St) (hm : st.mode = .main) (body : Bytes) (pos : Nat) (n : Nat)
    (hb : ∀ c ∈ body, isHEX c = true ∨ isSPC c = true) (heven : (hexDigits body).length = 2 * n) :
    foldBytes st (60 :: body ++ [62]) pos =
      ({ st with tpos := pos + 1 + body.length, cur := [], mode := .wclose },
       [(pos, Token.str (pairUp (hexDigits body)))]) :=
  hex_spelling st hm body pos n hb heven

/-- After the `>` of a hexadecimal string any byte but `>` is handled by the main scanner. -/
theorem C01_hex_then (st : St) (hm : st.mode = .wclose) (d : UInt8) (p : Nat) (hd : d ≠ 62) :
    stepByte st d p = stepByte { st with mode := .main } d p := by
  have hd' : (d == 62) = false := by simpa using hd
  rw [step_hit st d p (Or.inl (by simp [hm, searchClass]))]
  simp [atHit, hm, parseWcloseHit, hd']

theorem C01_hex_token_eof_partial (body : Bytes) (n : Nat)
    (hb : ∀ c ∈ body, isHEX c = true ∨ isSPC c = true) (heven : (hexDigits body).length = 2 * n) :
    specLex (60 :: body ++ [62]) = [(0, Token.str (pairUp (hexDigits body)))] := by
  have hsp : isNONSPC 10 = false := by decide +kernel
  unfold specLex
  rw [foldBytes_append, C01_hex_token_partial St.init rfl body 0 n hb heven]
  simp only [foldBytes]
  rw [C01_hex_then _ rfl 10 _ (by decide)]
  simp [stepByte, stepN, searchClass, hsp]

/-- What the code reads for EVERY hexadecimal string, with no restriction on the digit count: the digit
    pairs, a final odd digit as the LOW nibble (`codePairUp`).  Together with `C01_hex_code_even` this says
    exactly where the code leaves ISO 32000-1 7.3.4.3 (`pairUp`): only in the last byte of an odd-length
    string — the open finding, nothing else. -/
theorem C01_hex_token_code (body : Bytes) (hb : ∀ c ∈ body, isHEX c = true ∨ isSPC c = true) :
    specLex (60 :: body ++ [62]) = [(0, Token.str (codePairUp (hexDigits body)))] := by
  have hsp : isNONSPC 10 = false := by decide +kernel
  unfold specLex
  rw [foldBytes_append, hex_spelling_code St.init rfl body 0 hb]
  simp only [foldBytes]
  rw [C01_hex_then _ rfl 10 _ (by decide)]
  simp [stepByte, stepN, searchClass, hsp, hexDigits]

/-- … at every buffer size. -/
theorem C01_hex_token_code_buffered (b : Nat) (hb1 : 1 ≤ b) (body : Bytes)
    (hb : ∀ c ∈ body, isHEX c = true ∨ isSPC c = true) :
    run b (60 :: body ++ [62]) = some [(0, Token.str (codePairUp (hexDigits body)))] := by
  rw [C14.C14_run_eq_spec b hb1, C01_hex_token_code body hb]

/-- the code's reading is ISO's whenever the digit count is even -/
theorem C01_hex_code_even (ds : Bytes) (n : Nat) (h : ds.length = 2 * n) : codePairUp ds = pairUp ds :=
  codePairUp_even n ds h

/-- Non-vacuity: `<4 1<NUL>4a7>` (odd): code 41 4A 07, ISO 41 4A 70. -/
example : (∀ c ∈ ([52, 32, 49, 0, 52, 97, 55] : Bytes), isHEX c = true ∨ isSPC c = true) ∧
    codePairUp (hexDigits [52, 32, 49, 0, 52, 97, 55]) = [65, 74, 7] ∧
    pairUp (hexDigits [52, 32, 49, 0, 52, 97, 55]) = [65, 74, 112] := by decide +kernel

/-- The pinned code breaks the full statement on an odd digit count: `<2>` reads as 0x02, ISO says 0x20
    (open finding `odd-hex-digit`; the unit tests pin this behaviour). -/
theorem C01_odd_hex_cex : specLex [60, 50, 62] = [(0, Token.str [2])] ∧ pairUp (hexDigits [50]) = [32] := by
  constructor <;> decide +kernel

theorem C01_hex_statement_fails : ¬ C01_hex_statement := by
  intro h
  have h1 := h [50] (by intro c hc; simp at hc; subst hc; left; decide +kernel)
  have h2 := C01_odd_hex_cex
  simp only [List.cons_append, List.nil_append] at h1
  rw [h2.1, h2.2] at h1
  exact absurd h1 (by decide)

/-- Non-vacuity: `<4 1\x00 4a>` (white space and NUL inside, mixed case) meets the hypotheses. -/
example : (∀ c ∈ ([52, 32, 49, 0, 52, 97] : Bytes), isHEX c = true ∨ isSPC c = true) ∧
    (hexDigits [52, 32, 49, 0, 52, 97]).length = 2 * 2 ∧ pairUp (hexDigits [52, 32, 49, 0, 52, 97]) = [65, 74] := by
  refine ⟨?_, by decide +kernel, by decide +kernel⟩
  intro c hc
  simp at hc
  rcases hc with rfl | rfl | rfl | rfl | rfl | rfl <;> decide +kernel

/-! ### literal strings -/

/-- Every spelling `(` + items + `)` — raw bytes, the escapes of Table 3, 1–3 digit octal escapes
    (overflow above \377 ignored), backslash + LF / CR / CR LF continuations, an ignored backslash
    before any other byte, raw balanced parentheses to any depth — reads as exactly the bytes the
    items denote, at the position of the `(`, and leaves the tokenizer in the main scanner.
    `chainOK`: a 1–2 digit octal escape is not followed by an octal digit and backslash-CR not by LF
    (otherwise the spelling means something else). -/
theorem C01_string_token (st : St) (hm : st.mode = .main) (items : List StrItem) (pos : Nat)
    (hok : ∀ i ∈ items, i.ok) (hch : chainOK items) (hbal : depthAfter 0 items = some 0) :
    ∃ st', st'.mode = .main ∧
      foldBytes st (40 :: renderStr items ++ [41]) pos = (st', [(pos, Token.str (strValue items))]) := by
  obtain ⟨s1, hs1, hf1⟩ := main_string_start st pos hm
  have hn1 : NextOK s1 ((renderStr items ++ [41]).headD 41) := nextOK_string _ _ hs1.1
  obtain ⟨s2, hp2, hn2, hf2⟩ := str_items_fold items [] 0 pos s1 (pos + 1) 0 (settled_pending hs1) hn1 hok hch hbal
  obtain ⟨s3, hm3, hf3⟩ := str_end _ pos s2 (pos + 1 + (renderStr items).length) hp2 hn2
  refine ⟨s3, hm3, ?_⟩
  simp only [List.cons_append, foldBytes, hf1, List.nil_append]
  rw [foldBytes_append, hf2]
  simp only [foldBytes, hf3]
  simp

theorem C01_string_token_eof (items : List StrItem)
    (hok : ∀ i ∈ items, i.ok) (hch : chainOK items) (hbal : depthAfter 0 items = some 0) :
    specLex (40 :: renderStr items ++ [41]) = [(0, Token.str (strValue items))] := by
  have hsp : isNONSPC 10 = false := by decide +kernel
  obtain ⟨st', hm, h⟩ := C01_string_token St.init rfl items 0 hok hch hbal
  unfold specLex
  rw [foldBytes_append, h]
  simp [foldBytes, stepByte, stepN, searchClass, hsp, hm]

/-- …and therefore from the buffered tokenizer at every buffer size (a continuation or an escape may
    straddle any buffer boundary). -/
theorem C01_string_token_buffered (b : Nat) (hb : 1 ≤ b) (items : List StrItem)
    (hok : ∀ i ∈ items, i.ok) (hch : chainOK items) (hbal : depthAfter 0 items = some 0) :
    run b (40 :: renderStr items ++ [41]) = some [(0, Token.str (strValue items))] := by
  rw [C14.C14_run_eq_spec b hb, C01_string_token_eof items hok hch hbal]

/-- Non-vacuity: `(a\<CR><LF>(\5)\053\n\Z)` = `a(<05>)+<LF>Z`: continuation, raw balanced parentheses, a short octal
    escape followed by `)`, a three-digit one, an escape letter, an ignored backslash. -/
example :
    let items := [StrItem.raw 97, .cont .crlf, .popen, .oct1 53, .pclose, .oct3 48 53 51, .esc 110, .ign 90]
    (∀ i ∈ items, i.ok) ∧ chainOK items ∧ depthAfter 0 items = some 0 ∧
      renderStr items = [97, 92, 13, 10, 40, 92, 53, 41, 92, 48, 53, 51, 92, 110, 92, 90] ∧
      strValue items = [97, 40, 5, 41, 43, 10, 90] := by
  refine ⟨?_, ?_, by decide, by decide, by decide +kernel⟩
  · intro i hi
    simp at hi
    rcases hi with rfl | rfl | rfl | rfl | rfl | rfl | rfl | rfl <;> simp [StrItem.ok] <;> decide +kernel
  · simp [chainOK, StrItem.nextOK, StrItem.render]
    decide +kernel

/-! ### nesting -/

/-- Arrays and dictionaries nested to ANY depth, and a bare `n g R`: feeding the token sequence of a tree
    to the stack parser (PDFStreamParser: `flush` holds back up to two trailing integers, `nextobject`
    hands them out at PSEOF = `finish`) yields exactly that tree (null-valued dictionary entries
    absent), nothing else, no error. -/
theorem C01_nesting (v : PObj) (hc : clean v) :
    finish (feedAll {} (ser v)) = { results := [norm v] } := by
  have hD := good_stream
  unfold feedAll
  cases v with
  | null =>
    have e1 : (StackParser.kwNull == [91]) = false := by decide
    have e2 : (StackParser.kwNull == [93]) = false := by decide
    have e3 : (StackParser.kwNull == [60, 60]) = false := by decide
    have e4 : (StackParser.kwNull == [62, 62]) = false := by decide
    have e5 : (StackParser.kwNull == [123]) = false := by decide
    have e6 : (StackParser.kwNull == [125]) = false := by decide
    have hn : doKeyword {} StackParser.kwNull = push {} .null := hD.null {}
    simp [ser, feedAllWith_cons, feedAllWith_nil, feedWith, e1, e2, e3, e4, e5, e6, hn, push, norm, streamDialect,
      flushHold, heldCount, finish]
  | bool b => simp [ser, feedAllWith_cons, feedAllWith_nil, feedWith, push, norm, streamDialect, flushHold, heldCount, finish]
  | int i => simp [ser, feedAllWith_cons, feedAllWith_nil, feedWith, push, norm, streamDialect, flushHold, heldCount, finish]
  | real t => simp [ser, feedAllWith_cons, feedAllWith_nil, feedWith, push, norm, streamDialect, flushHold, heldCount, finish]
  | str s => simp [ser, feedAllWith_cons, feedAllWith_nil, feedWith, push, norm, streamDialect, flushHold, heldCount, finish]
  | lit n => simp [ser, feedAllWith_cons, feedAllWith_nil, feedWith, push, norm, streamDialect, flushHold, heldCount, finish]
  | kwd n => simp [clean] at hc
  | ref n g =>
    have e1 : (kwR == [91]) = false := by decide
    have e2 : (kwR == [93]) = false := by decide
    have e3 : (kwR == [60, 60]) = false := by decide
    have e4 : (kwR == [62, 62]) = false := by decide
    have e5 : (kwR == [123]) = false := by decide
    have e6 : (kwR == [125]) = false := by decide
    have hk := hD.ref { curstack := [.int n, .int g] } [] n g rfl
    simp only [streamDialect] at hk
    simp [ser, feedAllWith_cons, feedAllWith_nil, feedWith, push, norm, streamDialect, flushHold, heldCount, finish,
      e1, e2, e3, e4, e5, e6, hk]
  | arr items =>
    have ho := feed_open (D := streamDialect) {} rfl [91] .a (Or.inl ⟨rfl, rfl⟩)
    simp only [clean] at hc
    simp only [ser, feedAllWith_cons, ho.1, feedAllWith_append]
    rw [feed_serList hD items (startType {} .a) ho.2 hc]
    simp only [feedAllWith_cons, feedAllWith_nil]
    have e : ({ startType {} .a with curstack := (startType {} .a).curstack ++ normList items } : PState)
        = { startType {} .a with curstack := normList items } := by simp [startType]
    rw [e, feed_close_arr {} (normList items) rfl, norm]
    simp [closed, streamDialect, flushHold, heldCount, push, finish]
  | dict es =>
    have ho := feed_open (D := streamDialect) {} rfl [60, 60] .d (Or.inr ⟨rfl, rfl⟩)
    simp only [clean] at hc
    simp only [ser, feedAllWith_cons, ho.1, feedAllWith_append]
    rw [feed_serEntries hD es (startType {} .d) ho.2 hc.1]
    simp only [feedAllWith_cons, feedAllWith_nil]
    have e : ({ startType {} .d with curstack := (startType {} .d).curstack ++ pairsOf es } : PState)
        = { startType {} .d with curstack := pairsOf es } := by simp [startType]
    rw [e, feed_close_dict {} es rfl hc.2.1 hc.2.2, norm]
    simp [closed, streamDialect, flushHold, heldCount, push, finish]

/-- The `getobj` reader (PDFParser behind PDFDocument.getobj): on the tokens `objid gen obj <tree> endobj …`
    it returns exactly the tree's value — for EVERY clean tree, a bare `n g R` included. -/
theorem C01_getobj_nesting (objid gen : Int) (v : PObj) (hc : clean v) (more : List Token) :
    getobjToks objid (Token.int objid :: Token.int gen :: Token.kwd kwObj :: (ser v ++ Token.kwd kwEndobj :: more))
      = .ok (norm v) := by
  have hq : Quiet objDialect {} := ⟨rfl, by simp [objDialect]⟩
  have hf := feed_ser good_obj v {} hq hc
  have hpre := nextobjectP_prefix (ser v) (Token.kwd kwEndobj :: more) {} (by rw [hf]; simp [push]) (by rw [hf]; simp [push])
  have e1 : (kwEndobj == [91]) = false := by decide
  have e2 : (kwEndobj == [93]) = false := by decide
  have e3 : (kwEndobj == [60, 60]) = false := by decide
  have e4 : (kwEndobj == [62, 62]) = false := by decide
  have e5 : (kwEndobj == [123]) = false := by decide
  have e6 : (kwEndobj == [125]) = false := by decide
  have e7 : (kwEndobj == kwXref) = false := by decide
  have e8 : (kwEndobj == kwStartxref) = false := by decide
  have hend : feedWith objDialect (push {} (norm v)) (Token.kwd kwEndobj) = { results := [norm v] } := by
    simp [feedWith, push, e1, e2, e3, e4, e5, e6, objDialect, doKeywordP, e7, e8, popToResults]
  simp only [getobjToks, bne_self_eq_false, Bool.false_eq_true, if_false]
  rw [hpre, hf]
  simp only [nextobjectP, push, Option.isSome_none, List.isEmpty_nil, Bool.not_true, Bool.or_self, Bool.false_eq_true,
    if_false]
  have hend' : feedWith objDialect { curstack := [] ++ [norm v] } (Token.kwd kwEndobj) = { results := [norm v] } := by
    simpa [push] using hend
  rw [hend', nextobjectP_done _ _ (by simp)]

/-- Non-vacuity: `<< /K [ 1 7 R null (s) ] /N null >>` — two levels, a reference, a dropped entry —
    meets the hypotheses. -/
example : clean (.dict [([75], .arr [.ref 1 7, .null, .str [115]]), ([78], .null)]) := by
  simp only [clean, cleanEntries, cleanList, keysOf, and_self, true_and]
  exact ⟨by decide, by intro k hk; simp at hk; rcases hk with rfl | rfl <;> decide⟩

/-! ### end to end -/

/-- the flushed newline yields nothing from a hand-over state -/
theorem ho_newline (st : St) (p : Nat) (h : HO st) : (foldBytes st [10] p).2 = [] := by
  have hsp : isNONSPC 10 = false := by decide +kernel
  rcases h with hm | hw
  · simp [foldBytes, stepByte, stepN, searchClass, hsp, hm]
  · rw [fold_from_wclose st 10 [] p hw (by decide)]
    simp [foldBytes, stepByte, stepN, searchClass, hsp]

/-- Tokens of a well-formed spelled tree (behind any separator) = token sequence of its value. -/
theorem C01_tokens (pad : List SepItem) (hpad : sepOK pad) (t : STree) (hwf : wf t) :
    tokVals (specLex (renderSep pad ++ bytesOf t)) = ser (valueOf t) := by
  have hu := LexUnit.append_free (LexUnit.sep pad hpad) (lex_tree t hwf)
  obtain ⟨st', hm, h⟩ := hu St.init 10 [] 0 (Or.inl rfl) (fun _ => by decide)
  unfold specLex
  rw [h, ho_newline st' _ hm]
  simp [tokVals]

/-- END-TO-END round trip for spelled trees of ANY depth: every token-level spelling freedom (integer
    signs / leading zeros, every real form, `#xx` names, all string escapes / octal / continuations /
    nested parentheses, hex case and inner white space incl. NUL), any separator between tokens —
    white space of every kind, comments, or NOTHING where a delimiter follows (minimal delimiters,
    e.g. `[/A/B(s)<41>]`, `<</K<41>>>`) — any generation number: reading the bytes with the tokenizer
    and the stack parser yields exactly the value, once, with no error.
    A bare `n g R` is read too (PDFStreamParser holds back trailing integers).
    `_partial` only because of the even hex digit count (open finding `odd-hex-digit`). -/
theorem C01_roundtrip_partial (t : STree) (hwf : wf t) :
    objects (specLex (bytesOf t)) = { results := [norm (valueOf t)] } := by
  have h := C01_tokens [] (by intro i hi; cases hi) t hwf
  simp only [renderSep, List.nil_append] at h
  unfold objects
  simp only [tokVals] at h
  rw [h]
  exact C01_nesting (valueOf t) (clean_tree t hwf)

/-- …at every read-buffer size: the result does not depend on where the buffer boundaries fall. -/
theorem C01_roundtrip_buffered_partial (b : Nat) (hb : 1 ≤ b) (t : STree) (hwf : wf t) :
    (run b (bytesOf t)).map objects = some { results := [norm (valueOf t)] } := by
  rw [C14.C14_run_eq_spec b hb, Option.map_some, C01_roundtrip_partial t hwf]

/-- Independence of the object's offset: any white space and comments in front (so any absolute
    position, any alignment with the read buffers) leave the value read unchanged. -/
theorem C01_offset_partial (b : Nat) (hb : 1 ≤ b) (pad : List SepItem) (hpad : sepOK pad) (t : STree) (hwf : wf t) :
    (run b (renderSep pad ++ bytesOf t)).map objects = some { results := [norm (valueOf t)] } := by
  have htok := C01_tokens pad hpad t hwf
  rw [C14.C14_run_eq_spec b hb, Option.map_some]
  unfold objects
  simp only [tokVals] at htok
  rw [htok]
  exact congrArg some (C01_nesting (valueOf t) (clean_tree t hwf))

/-- Several objects in a row, read by successive `nextobject()` calls (content / object streams): the
    operand stack and the results queue carried from one call to the next — with up to two trailing
    integers held back by `flush` and handed out at PSEOF — deliver every value exactly once, in
    order, whatever the sequence ends with. -/
theorem C01_sequence_nesting (vs : List PObj) (hc : cleanList vs) :
    (finish (feedAll {} (serList vs))).results = normList vs ∧ (finish (feedAll {} (serList vs))).error = none := by
  have h := top_serList vs [] {} hc ⟨rfl, rfl, rfl⟩
  simpa [feedAll] using finish_top _ _ h

/-- …end to end, from the bytes, at every buffer size, behind any separator. -/
theorem C01_sequence_roundtrip_partial (b : Nat) (hb : 1 ≤ b) (pad : List SepItem) (hpad : sepOK pad)
    (ts : List STree) (hwf : wfList ts) :
    (run b (renderSep pad ++ bytesList ts)).map (fun toks => ((objects toks).results, (objects toks).error))
      = some (normList (valueList ts), none) := by
  have hu := LexUnit.append_free (LexUnit.sep pad hpad) (lex_seq ts hwf)
  obtain ⟨st', hm, h⟩ := hu St.init 10 [] 0 (Or.inl rfl) (fun _ => by decide)
  have htok : tokVals (specLex (renderSep pad ++ bytesList ts)) = serList (valueList ts) := by
    unfold specLex
    rw [h, ho_newline st' _ hm]
    simp [tokVals]
  have hn := C01_sequence_nesting (valueList ts) (clean_list ts hwf)
  rw [C14.C14_run_eq_spec b hb, Option.map_some]
  unfold objects
  simp only [tokVals] at htok
  rw [htok, hn.1, hn.2]

/-- Non-vacuity: `3 4 ` — the two trailing integers of seeded change C01-m7 — is a well-formed sequence. -/
example : wfList [.int [] [51] [.ws 32], .int [] [52] [.ws 32]] := by
  have hws : sepOK [.ws 32] := by intro i hi; simp at hi; subst hi; simp [SepItem.ok, isGapByte]
  simp only [wfList, wfListE, wfE, signOK, digitsOK, endsReg]
  exact ⟨⟨by simp, ⟨by decide, by decide, by decide⟩, hws⟩, ⟨⟨by simp, ⟨by decide, by decide, by decide⟩, hws⟩, trivial,
    by simp⟩, by simp⟩

/-- END-TO-END for the `getobj` reader: an indirect object `n g obj <spelled tree> endobj` (any separators,
    minimal delimiters and comments included, any white space / comments in front, any buffer size)
    read by the tokenizer and `PDFDocument._getobj_parse` / `PDFParser.nextobject` yields exactly the
    tree's value — a bare `n g R` included.  (`_partial`: even hex digit count only; the offset comes from
    the cross-reference table, which is C02's business; a stream object is outside C01.) -/
theorem C01_getobj_roundtrip_partial (b : Nat) (hb : 1 ≤ b) (pad : List SepItem) (hpad : sepOK pad)
    (o : ObjSpelling) (ho : o.wf) :
    (run b (renderSep pad ++ o.bytes)).map (fun ts => getobjToks (intValue [] o.ds) (tokVals ts))
      = some (.ok (norm (valueOf o.body))) := by
  have hu := LexUnit.append_free (LexUnit.sep pad hpad) (lex_obj o ho)
  obtain ⟨st', hm, h⟩ := hu St.init 10 [] 0 (Or.inl rfl) (fun _ => by decide)
  have htok : tokVals (specLex (renderSep pad ++ o.bytes)) =
      Token.int (intValue [] o.ds) :: Token.int (intValue [] o.gs) :: Token.kwd kwObj ::
        (ser (valueOf o.body) ++ Token.kwd kwEndobj :: []) := by
    unfold specLex
    rw [h, ho_newline st' _ hm]
    simp [tokVals]
  rw [C14.C14_run_eq_spec b hb, Option.map_some, htok,
    C01_getobj_nesting _ _ _ (clean_tree o.body ho.2.2.2.2.2.2.2.2.1) []]

/-- Non-vacuity: `12 0 obj<</K 7 3 R>>endobj` (no white space around the dictionary) is a well-formed object
    spelling whose body is a dictionary holding a reference with generation 3; a bare reference body works too. -/
example : (ObjSpelling.mk [49, 50] [.ws 32] [48] [.ws 32] []
      (.dict [] [([.raw 75], [.ws 32], .ref [55] [.ws 32] [51] [.ws 32] [])] []) []).wf ∧
    (ObjSpelling.mk [49, 50] [.ws 32] [48] [.ws 10] [.ws 32] (.ref [55] [.ws 32] [51] [.ws 32] [.ws 10]) []).wf := by
  have hnil : sepOK [] := by intro i hi; cases hi
  have hws : sepOK [.ws 32] := by intro i hi; simp at hi; subst hi; simp [SepItem.ok, isGapByte]
  have hnl : sepOK [.ws 10] := by intro i hi; simp at hi; subst hi; simp [SepItem.ok, isGapByte]
  have hk : nameOK [NameItem.raw 75] := by
    intro i hi; simp at hi; subst hi; exact ⟨by simp [NameItem.ok]; decide +kernel, trivial⟩
  have hr : wf (.ref [55] [.ws 32] [51] [.ws 32] []) := by
    simp only [wf, wfE, digitsOK]
    exact ⟨⟨by decide, by decide, by decide⟩, hws, by simp, ⟨by decide, by decide, by decide⟩, hws, by simp, hnil⟩
  have hr2 : wf (.ref [55] [.ws 32] [51] [.ws 32] [.ws 10]) := by
    simp only [wf, wfE, digitsOK]
    exact ⟨⟨by decide, by decide, by decide⟩, hws, by simp, ⟨by decide, by decide, by decide⟩, hws, by simp, hnl⟩
  have hd : wf (.dict [] [([.raw 75], [.ws 32], .ref [55] [.ws 32] [51] [.ws 32] [])] []) := by
    simp only [wf, wfE, wfEntriesE, valueEntries, keysOf]
    refine ⟨hnil, ⟨hk, hws, by simp, hr, trivial⟩, hnil, by simp, ?_⟩
    intro k hk'; simp [nameValue, NameItem.value] at hk'; subst hk'; decide +kernel
  constructor
  · refine ⟨⟨by decide, by decide, by decide⟩, hws, by simp, ⟨by decide, by decide, by decide⟩, hws, by simp, hnil, ?_,
      hd, rfl, hnil⟩
    intro _ rest; simp [bytesOf, isDW]
  · exact ⟨⟨by decide, by decide, by decide⟩, hws, by simp, ⟨by decide, by decide, by decide⟩, hnl, by simp, hws,
      by simp, hr2, rfl, hnil⟩

/-- The executable ISO 32000-1 reader used as run-time oracle (`Spec/Syntax.spellcheck`) accepts EVERY
    conformant spelled tree — odd hex digit counts included (`wfE false`) — behind any separator, and
    returns the value the theorems are about (`specValue`: `intValue`, `realRat`, `nameValue`, `strValue`,
    `pairUp`, …).  So the family of the round-trip theorems lies inside the oracle's domain and both
    assign the same values; the tables of the tokenizer (`ESC_STRING`, white space, octal / hex digits) are
    proved equal to the ISO ones on the way (`str_spec`, `hex_spec`, `eol_facts`, …). -/
theorem C01_spec_complete (e : Bool) (pad : List SepItem) (hpad : sepOK pad) (t : STree) (h : wfE e t) :
    Syntax.spellcheck (renderSep pad ++ bytesOf t) = some (specValue t) :=
  spellcheck_complete pad hpad t h

/-- …in particular `<2>` is accepted by the oracle with the ISO value 0x20 (where the code reads 0x02). -/
example : Syntax.spellcheck [60, 50, 62] = some (.str (pairUp (hexDigitsOf [50]))) ∧ pairUp (hexDigitsOf [50]) = [32] := by
  have hw : wfE false (.hex [50] []) := by
    simp only [wfE]
    refine ⟨?_, by simp, by intro i hi; cases hi⟩
    intro c hc; simp at hc; subst hc; left; decide +kernel
  have := C01_spec_complete false [] (by intro i hi; cases hi) (.hex [50] []) hw
  exact ⟨by simpa [renderSep, bytesOf, specValue] using this, by decide +kernel⟩

/-- Non-vacuity, with minimal delimiters, a comment and a generation number:
    `[-07/A#20(a\)b)<4 1><</K/V>>3 7 R]%c<LF>`. -/
example : wf (.arr [] [.int [45] [48, 55] [], .name [.raw 65, .esc 50 48] [], .str [.raw 97, .esc 41, .raw 98] [],
      .hex [52, 32, 49] [], .dict [] [([.raw 75], [], .name [.raw 86] [])] [],
      .ref [51] [.ws 32] [55] [.ws 32] []] [.comment [99] 10]) := by
  have hnil : sepOK [] := by intro i hi; cases hi
  have hws : sepOK [.ws 32] := by intro i hi; simp at hi; subst hi; simp [SepItem.ok, isGapByte]
  have h1 : wf (.int [45] [48, 55] []) := by
    simp only [wf, wfE, signOK, digitsOK]
    exact ⟨by simp, ⟨by decide, by decide, by decide⟩, hnil⟩
  have h2 : wf (.name [.raw 65, .esc 50 48] []) := by
    simp only [wf, wfE]
    refine ⟨?_, hnil⟩
    intro i hi; simp at hi
    rcases hi with rfl | rfl
    · exact ⟨by simp [NameItem.ok]; decide +kernel, trivial⟩
    · exact ⟨⟨by decide +kernel, by decide +kernel⟩, by simp [NameItem.nonzero]; decide +kernel⟩
  have h3 : wf (.str [.raw 97, .esc 41, .raw 98] []) := by
    simp only [wf, wfE]
    refine ⟨?_, by simp [chainOK, StrItem.nextOK], by decide, hnil⟩
    intro i hi; simp at hi; rcases hi with rfl | rfl | rfl <;> simp [StrItem.ok] <;> decide +kernel
  have h4 : wf (.hex [52, 32, 49] []) := by
    simp only [wf, wfE]
    refine ⟨?_, fun _ => ⟨1, by decide +kernel⟩, hnil⟩
    intro c hc; simp at hc; rcases hc with rfl | rfl | rfl
    · left; decide +kernel
    · right; decide
    · left; decide +kernel
  have hk : nameOK [NameItem.raw 75] := by
    intro i hi; simp at hi; subst hi; exact ⟨by simp [NameItem.ok]; decide +kernel, trivial⟩
  have hv : wf (.name [.raw 86] []) := by
    simp only [wf, wfE]
    refine ⟨?_, hnil⟩
    intro i hi; simp at hi; subst hi; exact ⟨by simp [NameItem.ok]; decide +kernel, trivial⟩
  have h5 : wf (.dict [] [([.raw 75], [], .name [.raw 86] [])] []) := by
    simp only [wf, wfE, wfEntriesE, valueEntries, keysOf]
    refine ⟨hnil, ⟨hk, hnil, ?_, hv, trivial⟩, hnil, by simp, ?_⟩
    · intro _ rest; simp [bytesOf, isDW]
    · intro k hk'; simp [nameValue, NameItem.value] at hk'; subst hk'; decide +kernel
  have h6 : wf (.ref [51] [.ws 32] [55] [.ws 32] []) := by
    simp only [wf, wfE, digitsOK]
    exact ⟨⟨by decide, by decide, by decide⟩, hws, by simp, ⟨by decide, by decide, by decide⟩, hws, by simp, hnil⟩
  have hc : sepOK [.comment [99] 10] := by
    intro i hi; simp at hi; subst hi
    exact ⟨by intro x hx; simp at hx; subst hx; decide +kernel, Or.inl rfl⟩
  simp only [wf, wfE, wfListE, wfEntriesE]
  simp only [wf, wfE, wfListE, wfEntriesE] at h1 h2 h3 h4 h5 h6
  refine ⟨hnil, ⟨h1, ⟨h2, ⟨h3, ⟨h4, ⟨h5, ⟨h6, trivial, ?_⟩, ?_⟩, ?_⟩, ?_⟩, ?_⟩, ?_⟩, hc⟩
  all_goals intro _ _ rest
  all_goals simp [bytesList, bytesOf, isDW, isGapByte, endsReg] at *

/-! ### the second sentence of the property, for EVERY byte string (no `_partial`)

"The result does not depend on where the reader's buffer boundaries fall or on the object's absolute
offset in the file."  These statements do not say WHICH value is read, so they hold for every input —
conformant or damaged, odd hexadecimal strings included. -/

theorem tokVals_shift (k : Nat) (ts : List PTok) : tokVals (shiftToks k ts) = tokVals ts := by
  simp [tokVals, shiftToks]

theorem objects_tokVals (ts ts' : List PTok) (h : tokVals ts = tokVals ts') : objects ts = objects ts' := by
  unfold objects; simp only [tokVals] at h; rw [h]

/-- Buffer boundaries: the objects read do not depend on the read-buffer size, on any input. -/
theorem C01_bufsize_indep (b₁ b₂ : Nat) (h₁ : 1 ≤ b₁) (h₂ : 1 ≤ b₂) (data : Bytes) :
    (run b₁ data).map objects = (run b₂ data).map objects := by
  rw [C14.C14_bufsize_indep b₁ b₂ h₁ h₂ data]

/-- Offset: a prefix that holds no token and leaves the lexer in its main scanner (white space, complete
    comments) changes nothing but the token positions, which the stack parser does not look at: the
    objects read from `pre ++ data` are those read from `data`, for EVERY `data` and buffer size. -/
theorem C01_offset_indep (b : Nat) (hb : 1 ≤ b) (pre data : Bytes) (hm : modeAfter pre = .main)
    (hno : specLex pre = []) : (run b (pre ++ data)).map objects = (run b data).map objects := by
  rw [C14.C14_run_eq_spec b hb, C14.C14_run_eq_spec b hb, Option.map_some, Option.map_some,
    C14.C14_compositional_main pre data hm, hno, List.nil_append]
  exact congrArg some (objects_tokVals _ _ (tokVals_shift _ _))

/-- … in particular behind any run of white-space bytes (every byte of the regenerated SPC table). -/
theorem C01_offset_indep_ws (b : Nat) (hb : 1 ≤ b) (pad data : Bytes) (hws : ∀ c ∈ pad, isSPC c = true) :
    (run b (pad ++ data)).map objects = (run b data).map objects := by
  have h := main_skip_all pad St.init 0 rfl hws
  refine C01_offset_indep b hb pad data h.2 ?_
  unfold specLex
  rw [foldBytes_append, h.1]
  have := fun p => main_nl (foldBytes St.init pad 0).1 p h.2
  simp [foldBytes, this]

/-- Splitting (content streams, C05): when `a` ends in a complete token, the stack parser fed with the
    tokens of `a ++ ws ++ b` is in the state reached by feeding the tokens of `a` and then those of `b` —
    operands left on the stack by `a` are seen by `b`. -/
theorem C01_concat_feed (a ws b : Bytes) (hc : Complete (modeAfter a) = true) (hne : ws ≠ [])
    (hws : ∀ c ∈ ws, isSPC c = true) :
    feedAll {} (tokVals (specLex (a ++ ws ++ b))) = feedAll (feedAll {} (tokVals (specLex a))) (tokVals (specLex b)) := by
  rw [C14.C14_compositional a ws b hc hne hws]
  have h : tokVals (concatLex a ws b) = tokVals (specLex a) ++ tokVals (specLex b) := by
    unfold concatLex
    rw [show ∀ x y : List PTok, tokVals (x ++ y) = tokVals x ++ tokVals y from fun x y => List.map_append,
      tokVals_shift]
  rw [h]
  simp [feedAll, feedAllWith, List.foldl_append]

/-- from a hand-over state the rest of the input is read as from a fresh lexer (token values) -/
theorem ho_fresh (st : St) (h : HO st) (d : UInt8) (tl : Bytes) (p : Nat) (hd : d ≠ 62) :
    tokVals (foldBytes st (d :: tl) p).2 = tokVals (foldBytes St.init (d :: tl) 0).2 := by
  have key : ∀ s : St, s.mode = .main → tokVals (foldBytes s (d :: tl) p).2 = tokVals (foldBytes St.init (d :: tl) 0).2 := by
    intro s hs
    have := (foldBytes_rel p (d :: tl) s St.init 0 (rel_main p s St.init hs rfl)).1
    rw [Nat.zero_add] at this
    rw [this, tokVals_shift]
  rcases h with hm | hw
  · exact key st hm
  · rw [fold_from_wclose st d tl p hw hd]
    exact key _ rfl

/-- Context independence: what follows a spelled value — after ANY white-space or delimiter byte `d` but
    `>` — never changes the tokens of the value, and is itself tokenised as if it stood alone:
    `rest` is an arbitrary byte string (the next object, `endobj`, binary data, damaged input).  Full
    statement for the tokens: no restriction on the hex digit count, no size bound. -/
theorem C01_context_indep (pad : List SepItem) (hpad : sepOK pad) (t : STree) (hwf : wf t)
    (d : UInt8) (rest : Bytes) (hd : isDW d = true) (hd62 : d ≠ 62) :
    tokVals (specLex (renderSep pad ++ bytesOf t ++ d :: rest)) = ser (valueOf t) ++ tokVals (specLex (d :: rest)) := by
  have hu := LexUnit.append_free (LexUnit.sep pad hpad) (lex_tree t hwf)
  obtain ⟨st', hHO, h⟩ := hu St.init d (rest ++ [10]) 0 (Or.inl rfl) (fun _ => hd)
  unfold specLex
  have e : (renderSep pad ++ bytesOf t ++ d :: rest) ++ [10] = (renderSep pad ++ bytesOf t) ++ d :: (rest ++ [10]) := by
    simp
  rw [e, h, ho_fresh st' hHO d (rest ++ [10]) _ hd62]
  simp

/-- Non-vacuity: `[1/A]` followed by NUL and an unbalanced, damaged tail. -/
example : tokVals (specLex ([91, 49, 47, 65, 93] ++ 0 :: [60, 50, 62, 41, 40, 97]))
    = [.kwd [91], .int 1, .lit [65], .kwd [93]] ++ tokVals (specLex (0 :: [60, 50, 62, 41, 40, 97])) := by
  decide +kernel

/-- Non-vacuity: a damaged input (odd hex string, unbalanced bracket) behind NUL / CR / a comment. -/
example : modeAfter [0, 13, 37, 99, 10, 32] = .main ∧ specLex [0, 13, 37, 99, 10, 32] = [] ∧
    showState (objects (specLex ([0, 13, 37, 99, 10, 32] ++ [60, 50, 62, 93, 49])))
      = showState (objects (specLex [60, 50, 62, 93, 49])) ∧
    showState (objects (specLex [60, 50, 62, 93, 49])) ≠ showState {} := by decide +kernel
example : Complete (modeAfter [49, 32, 50]) = true ∧
    showState (feedAll {} (tokVals (specLex ([49, 32, 50] ++ [10] ++ [82]))))
      = showState (feedAll (feedAll {} (tokVals (specLex [49, 32, 50]))) (tokVals (specLex [82]))) ∧
    showState (feedAll {} (tokVals (specLex ([49, 32, 50] ++ [10] ++ [82])))) ≠
      showState (feedAll {} (tokVals (specLex [49, 32, 50]))) := by decide +kernel

/-! ### stream objects read by `PDFParser` / `getobj` (round 6c) -/

open PdfVerif.Gen.Filters in
/-- `objid gen obj <<dict>>` + white space + `stream` + LF|CRLF + payload `d` + (marker-free `tail`) +
    `endstream endobj` + EOL + anything, with a direct `/Length` equal to `|d|`: `getobj` yields the stream
    object with exactly that dictionary and exactly that payload, at every buffer size.  The tokenizer
    (`C14_compositional`), the stack parser (`feed_ser`, `nextobjectP_prefix`) and C03's model of the `stream`
    branch (`Filters.streamRead`, `read_exact`) are COMPOSED: the position the tokenizer reports for the keyword
    is the position from which `streamRead` returns the payload, and the position `streamRead` leaves the
    parser at is where the tokenizer finds `endstream endobj`.
    `_partial`: the reading of the part in front of the keyword is a hypothesis on `pre` (`hc`: it ends in a
    complete token; `hpre`: its tokens are `objid gen obj` + the tokens of a clean dictionary) — for the spelled
    family `hpre` is `lex_obj`, `hc` is not proved (the spelled-tree lemmas track token values, not the
    scanner state); both are decidable for any concrete `pre` and checked on every generated stream object. -/
theorem C01_stream_object_partial (b : Nat) (hb : 1 ≤ b) (objid gen : Int) (v : PObj) (es : List (Bytes × SObj))
    (pre ws eol0 d tail eol rest : Bytes)
    (hc : Complete (modeAfter pre) = true)
    (hpre : tokVals (specLex pre) = Token.int objid :: Token.int gen :: Token.kwd kwObj :: ser v)
    (hclean : clean v) (hdict : norm v = .dict es) (hlen : ObjParser.lookupLength es = some (.int d.length))
    (hne : ws ≠ []) (hws : ∀ c ∈ ws, isSPC c = true) (heol0 : eol0 = [10] ∨ eol0 = [13, 10])
    (htail : Filters.findSub ENDSTREAM_MARK (tail ++ ENDSTREAM_MARK) = some tail.length)
    (heol : Filters.EolOk eol rest) :
    ObjParser.getobjS b objid
      ((pre ++ ws) ++ kwStream ++ eol0 ++ (d ++ (tail ++ ENDSTREAM_MARK ++ ([32] ++ kwEndobj) ++ eol ++ rest)))
      = .ok (.stream es d) := by
  have hkwq : ∀ c ∈ ([32] ++ kwEndobj : Bytes), c ≠ 10 ∧ c ≠ 13 := by decide
  have heol0' : Filters.EolOk eol0 (d ++ (tail ++ ENDSTREAM_MARK ++ ([32] ++ kwEndobj) ++ eol ++ rest)) := by
    rcases heol0 with h | h <;> simp [Filters.EolOk, h]
  have hread := StreamSeam.read_exact (pre ++ ws) kwStream eol0 d tail ([32] ++ kwEndobj) eol rest
    StreamSeam.kwStream_noeol heol0' htail hkwq heol
  generalize hR : d ++ (tail ++ ENDSTREAM_MARK ++ ([32] ++ kwEndobj) ++ eol ++ rest) = R at hread ⊢
  have hfile : (pre ++ ws) ++ kwStream ++ eol0 ++ R = pre ++ ws ++ (kwStream ++ eol0 ++ R) := by
    simp [List.append_assoc]
  have hlex := StreamSeam.lex_to_stream pre ws eol0 R hc hne hws heol0
  -- no `stream` keyword in front
  have hq0 : Quiet objDialect {} := ⟨rfl, by simp [objDialect]⟩
  have hf := feed_ser good_obj v {} hq0 hclean
  have hnos : ∀ t ∈ specLex pre, t.2 ≠ Token.kwd kwStream := by
    intro t ht
    have hm : t.2 ∈ tokVals (specLex pre) := List.mem_map.mpr ⟨t, ht, rfl⟩
    rw [hpre] at hm
    rcases List.mem_cons.mp hm with h | hm
    · rw [h]; intro hx; cases hx
    rcases List.mem_cons.mp hm with h | hm
    · rw [h]; intro hx; cases hx
    rcases List.mem_cons.mp hm with h | hm
    · rw [h]; decide
    · exact StreamSeam.no_stream_of_ok (ser v) {} (by rw [hf]; simp [push]) _ hm
  have hsplit := StreamSeam.splitAtStream_append (specLex pre) (pre.length + ws.length)
    (shiftToks (6 + eol0.length + (pre.length + ws.length)) (specLex R)) hnos
  have hvals : List.map (fun x => x.2) (specLex pre) =
      Token.int objid :: Token.int gen :: Token.kwd kwObj :: ser v := hpre
  have hnext : nextobjectP {} (ser v) = none := by
    have := nextobjectP_prefix (ser v) [] {} (by rw [hf]; simp [push]) (by rw [hf]; simp [push])
    rw [List.append_nil] at this
    rw [this, hf]
    simp [nextobjectP, push]
  -- after the payload
  have hdrop : List.drop ((pre ++ ws).length + kwStream.length + eol0.length + d.length + tail.length)
      ((pre ++ ws) ++ kwStream ++ eol0 ++ R) = ENDSTREAM_MARK ++ [32] ++ (kwEndobj ++ eol ++ rest) := by
    rw [← hR]
    have : (pre ++ ws) ++ kwStream ++ eol0 ++ (d ++ (tail ++ ENDSTREAM_MARK ++ ([32] ++ kwEndobj) ++ eol ++ rest)) =
        ((pre ++ ws) ++ kwStream ++ eol0 ++ d ++ tail) ++ (ENDSTREAM_MARK ++ [32] ++ (kwEndobj ++ eol ++ rest)) := by
      simp [List.append_assoc]
    rw [this]
    exact List.drop_left' (by simp [Nat.add_assoc])
  have hlex2 := StreamSeam.lex_after_stream eol rest heol
  simp only [ObjParser.getobjS, C14.C14_run_eq_spec b hb, hfile, hlex, hsplit, hvals, bne_self_eq_false,
    Bool.false_eq_true, if_false, hnext, hf, hdict]
  rw [hfile, List.length_append] at hread hdrop
  have hneg : ¬ ((d.length : Int) < 0) := by omega
  simp only [push, List.nil_append, List.isEmpty_nil, Bool.not_true, Bool.false_eq_true, if_false, List.reverse_cons,
    List.reverse_nil, hlen, hneg, hread, hdrop, hlex2, List.map_cons]
  generalize List.map (fun x => x.snd) (shiftToks (6 + List.length eol + 10) (specLex rest)) = more
  have m1 : (ENDSTREAM_MARK == [91]) = false := by decide
  have m2 : (ENDSTREAM_MARK == [93]) = false := by decide
  have m3 : (ENDSTREAM_MARK == [60, 60]) = false := by decide
  have m4 : (ENDSTREAM_MARK == [62, 62]) = false := by decide
  have m5 : (ENDSTREAM_MARK == [123]) = false := by decide
  have m6 : (ENDSTREAM_MARK == [125]) = false := by decide
  have m7 : (ENDSTREAM_MARK == kwXref) = false := by decide
  have m8 : (ENDSTREAM_MARK == kwStartxref) = false := by decide
  have m9 : (ENDSTREAM_MARK == kwEndobj) = false := by decide
  have m10 : (ENDSTREAM_MARK == kwNull) = false := by decide
  have m11 : (ENDSTREAM_MARK == kwR) = false := by decide
  have m12 : (ENDSTREAM_MARK == kwStream) = false := by decide
  have e1 : (kwEndobj == [91]) = false := by decide
  have e2 : (kwEndobj == [93]) = false := by decide
  have e3 : (kwEndobj == [60, 60]) = false := by decide
  have e4 : (kwEndobj == [62, 62]) = false := by decide
  have e5 : (kwEndobj == [123]) = false := by decide
  have e6 : (kwEndobj == [125]) = false := by decide
  have e7 : (kwEndobj == kwXref) = false := by decide
  have e8 : (kwEndobj == kwStartxref) = false := by decide
  have s1 : feedWith objDialect { curstack := [SObj.stream es d] } (Token.kwd ENDSTREAM_MARK) =
      { curstack := [SObj.stream es d, .kwd ENDSTREAM_MARK] } := by
    simp [feedWith, push, m1, m2, m3, m4, m5, m6, m7, m8, m9, m10, m11, m12, objDialect, doKeywordP]
  have s2 : feedWith objDialect { curstack := [SObj.stream es d, .kwd ENDSTREAM_MARK] } (Token.kwd kwEndobj) =
      { results := [SObj.stream es d, .kwd ENDSTREAM_MARK] } := by
    simp [feedWith, push, e1, e2, e3, e4, e5, e6, e7, e8, objDialect, doKeywordP, popToResults]
  simp only [nextobjectP, Option.isSome_none, List.isEmpty_nil, Bool.not_true, Bool.or_self, Bool.false_eq_true,
    if_false, s1, s2]
  rw [nextobjectP_done _ _ (by simp)]
  simp [ObjParser.resultOf]

open PdfVerif.Gen.Filters in
/-- The same for the proved spelled family: `objid gen obj` and the dictionary spelled with every freedom of
    `ObjSpelling.wf` / `wf` (separators incl. comments, minimal delimiters, `#xx` names, nested values, references).
    The token hypothesis of `C01_stream_object_partial` is discharged (`StreamSeam.head_tokens`, from `lex_tree`);
    `_partial`: `hc` — that the scanner is in a `Complete` state after the dictionary — remains a hypothesis. -/
theorem C01_stream_object_spelled_partial (b : Nat) (hb : 1 ≤ b) (o : ObjSpelling) (ho : o.wf)
    (es : List (Bytes × SObj)) (ws eol0 d tail eol rest : Bytes)
    (hc : Complete (modeAfter (StreamSeam.headBytes o)) = true)
    (hdict : norm (valueOf o.body) = .dict es) (hlen : ObjParser.lookupLength es = some (.int d.length))
    (hne : ws ≠ []) (hws : ∀ c ∈ ws, isSPC c = true) (heol0 : eol0 = [10] ∨ eol0 = [13, 10])
    (htail : Filters.findSub ENDSTREAM_MARK (tail ++ ENDSTREAM_MARK) = some tail.length)
    (heol : Filters.EolOk eol rest) :
    ObjParser.getobjS b (intValue [] o.ds)
      ((StreamSeam.headBytes o ++ ws) ++ kwStream ++ eol0 ++
        (d ++ (tail ++ ENDSTREAM_MARK ++ ([32] ++ kwEndobj) ++ eol ++ rest)))
      = .ok (.stream es d) :=
  C01_stream_object_partial b hb (intValue [] o.ds) (intValue [] o.gs) (valueOf o.body) es (StreamSeam.headBytes o)
    ws eol0 d tail eol rest hc (StreamSeam.head_tokens o ho) (clean_tree o.body ho.2.2.2.2.2.2.2.2.1) hdict hlen hne hws
    heol0 htail heol

open PdfVerif.Gen.Filters in
/-- FULL for the spelled family (round 6d): no hypothesis on the scanner state is left.  For every well-formed
    spelled head `objid gen obj <<dictionary>>` (`ObjSpelling.wf`: every separator / comment / minimal-delimiter /
    `#xx` / nested-value freedom) whose dictionary has a direct `/Length = |d|`: head + white space + `stream` +
    LF|CRLF + ANY payload `d` + marker-free tail + `endstream endobj` + EOL + anything is read by `getobj` as the
    stream object with exactly that dictionary and exactly that payload, at every buffer size.
    `Complete (modeAfter head)` is now PROVED (`StreamSeam.unit_complete`, the mode-tracking companion of
    `LexUnit`: a scanner inside a string / hex string / comment would read ` 1 ` and ` 2 ` alike, the unit says
    it does not). -/
theorem C01_stream_object_spelled (b : Nat) (hb : 1 ≤ b) (o : ObjSpelling) (ho : o.wf)
    (es : List (Bytes × SObj)) (ws eol0 d tail eol rest : Bytes)
    (hdict : norm (valueOf o.body) = .dict es) (hlen : ObjParser.lookupLength es = some (.int d.length))
    (hne : ws ≠ []) (hws : ∀ c ∈ ws, isSPC c = true) (heol0 : eol0 = [10] ∨ eol0 = [13, 10])
    (htail : Filters.findSub ENDSTREAM_MARK (tail ++ ENDSTREAM_MARK) = some tail.length)
    (heol : Filters.EolOk eol rest) :
    ObjParser.getobjS b (intValue [] o.ds)
      ((StreamSeam.headBytes o ++ ws) ++ kwStream ++ eol0 ++
        (d ++ (tail ++ ENDSTREAM_MARK ++ ([32] ++ kwEndobj) ++ eol ++ rest)))
      = .ok (.stream es d) :=
  C01_stream_object_spelled_partial b hb o ho es ws eol0 d tail eol rest
    (StreamSeam.unit_complete _ _ (StreamSeam.lex_head o ho)) hdict hlen hne hws heol0 htail heol

/-- The scanner state after any spelled value that does not end in a regular run (containers, strings, or
    anything followed by a separator) is a `Complete` one — the hypothesis of `C14_compositional` holds
    for the whole family. -/
theorem C01_tree_complete (pad : List SepItem) (hpad : sepOK pad) (t : STree) (hwf : wf t) (hreg : endsReg t = false) :
    Complete (modeAfter (renderSep pad ++ bytesOf t)) = true := by
  have hu := LexUnit.append_free (LexUnit.sep pad hpad) (lex_tree t hwf)
  rw [hreg] at hu
  exact StreamSeam.unit_complete _ _ hu

/-- Non-vacuity of the spelled form: `12 0 obj<</Length 4>>` is a well-formed head whose scanner state is
    `Complete`, whose value is a dictionary with a direct `/Length 4`. -/
example : ∃ o : ObjSpelling, o.wf ∧ Complete (modeAfter (StreamSeam.headBytes o)) = true ∧
    (norm (valueOf o.body)).show = (SObj.dict [([76, 101, 110, 103, 116, 104], .int 4)]).show := by
  refine ⟨ObjSpelling.mk [49, 50] [.ws 32] [48] [.ws 32] []
    (.dict [] [([.raw 76, .raw 101, .raw 110, .raw 103, .raw 116, .raw 104], [.ws 32], .int [] [52] [])] []) [], ?_,
    by decide +kernel, by decide +kernel⟩
  have hnil : sepOK [] := by intro i hi; cases hi
  have hws : sepOK [.ws 32] := by intro i hi; simp at hi; subst hi; simp [SepItem.ok, isGapByte]
  have hk : nameOK [NameItem.raw 76, .raw 101, .raw 110, .raw 103, .raw 116, .raw 104] := by
    intro i hi; simp at hi
    rcases hi with rfl | rfl | rfl | rfl | rfl | rfl <;> exact ⟨by simp [NameItem.ok]; decide +kernel, trivial⟩
  have hi4 : wf (.int [] [52] []) := by
    simp only [wf, wfE, digitsOK]
    exact ⟨Or.inl rfl, ⟨by decide, by decide, by decide⟩, hnil⟩
  have hd : wf (.dict [] [([.raw 76, .raw 101, .raw 110, .raw 103, .raw 116, .raw 104], [.ws 32], .int [] [52] [])] []) := by
    simp only [wf, wfE, wfEntriesE, valueEntries, keysOf]
    refine ⟨hnil, ⟨hk, hws, by simp, hi4, trivial⟩, hnil, by simp, ?_⟩
    intro k hk'; simp [nameValue, NameItem.value] at hk'; subst hk'; decide +kernel
  refine ⟨⟨by decide, by decide, by decide⟩, hws, by simp, ⟨by decide, by decide, by decide⟩, hws, by simp, hnil, ?_,
    hd, rfl, hnil⟩
  intro _ rest; simp [bytesOf, isDW]

/-- Non-vacuity: `5 0 obj<</Length 4>>` LF `stream` CRLF `a)` NUL `e` LF `endstream endobj` LF `x`, buffer size 3. -/
example :
    Complete (modeAfter [53, 32, 48, 32, 111, 98, 106, 60, 60, 47, 76, 101, 110, 103, 116, 104, 32, 52, 62, 62]) = true ∧
    tokVals (specLex [53, 32, 48, 32, 111, 98, 106, 60, 60, 47, 76, 101, 110, 103, 116, 104, 32, 52, 62, 62])
      = Token.int 5 :: Token.int 0 :: Token.kwd kwObj :: ser (.dict [([76, 101, 110, 103, 116, 104], .int 4)]) ∧
    (ObjParser.getobjS 3 5
      (([53, 32, 48, 32, 111, 98, 106, 60, 60, 47, 76, 101, 110, 103, 116, 104, 32, 52, 62, 62] ++ [10]) ++ kwStream ++
        [13, 10] ++ ([97, 41, 0, 101] ++ ([10] ++ PdfVerif.Gen.Filters.ENDSTREAM_MARK ++ ([32] ++ kwEndobj) ++ [10] ++ [120])))).show
      = (GetObj.ok (.stream [([76, 101, 110, 103, 116, 104], .int 4)] [97, 41, 0, 101])).show := by
  decide +kernel

end PdfVerif.Props.C01
