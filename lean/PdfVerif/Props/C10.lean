/-
C10 - Decryption: either password opens the document to exactly the original content.

Property theorems only (helper lemmas: Lemmas/Crypt.lean).  `Model/Crypt.lean` is the model of
pdfminer (reader), `Spec/CryptWriter.lean` the conforming writer of ISO 32000.  MD5, SHA-2, AES-CBC
and SASLprep are arbitrary functions `P : Prims`; the only facts assumed about them are stated as
hypotheses (`PrimsOK`: digest lengths, AES-CBC decrypt inverts encrypt).
-/
import PdfVerif.Lemmas.Crypt

namespace PdfVerif.Props.C10
open PdfVerif PdfVerif.Crypt PdfVerif.CryptWriter PdfVerif.Gen.Crypt

/-- What is assumed about the primitives. -/
structure PrimsOK (P : Prims) : Prop where
  md5_len : ∀ x, (P.md5 x).length = 16
  aes_inv : ∀ k iv x, P.aesDec k iv (P.aesEnc k iv x) = x

/-! ## RC4 -/

/-- RC4 decryption inverts encryption for every key and every data (the keystream does not depend
    on the data). -/
theorem rc4_involution (key data : Bytes) : rc4Core key (rc4Core key data) = data :=
  rc4Core_rc4Core key data

/-- The same for `Arcfour(key).process`, which exists for non-empty keys only. -/
theorem rc4_involution_except (key data : Bytes) (hk : key ≠ []) :
    (rc4 key data >>= rc4 key) = .ok data := by
  cases key with
  | nil => exact absurd rfl hk
  | cons a as => simp [rc4, bind, Except.bind, rc4Core_rc4Core]

theorem rc4_preserves_length (key data : Bytes) : (rc4Core key data).length = data.length :=
  rc4Core_length key data

/-! ## per-object keys -/

/-- Writer (Algorithm 1 with the standard's constants) and reader (constants regenerated from
    pdfdocument.py) derive the same RC4 object key for every object number and generation. -/
theorem objkey_agree (P : Prims) (key : Bytes) (objid genno : Nat) :
    objKeyRc4 P key objid genno = objectKey P .rc4 key objid genno := by
  simp [objKeyRc4, objectKey, OBJID_BYTES_RC4, GENNO_BYTES_RC4, OBJKEY_MAX_RC4, leBytes_length]

/-- ... and the same AES-128 object key (`sAlT`).  pdfminer truncates to `min(len(key) + 9, 16)`
    (the salt is counted) where Algorithm 1 says `min(n + 5, 16)`: the two agree for file keys of
    at least 11 bytes; AESV2 file keys have 16. -/
theorem objkey_agree_aes (P : Prims) (key : Bytes) (objid genno : Nat) (hk : 11 ≤ key.length) :
    objKeyAes P key objid genno = objectKey P .aes128 key objid genno := by
  simp [objKeyAes, objectKey, OBJID_BYTES_AES, GENNO_BYTES_AES, OBJKEY_MAX_AES, AES_SALT,
    leBytes_length]
  omega

/-! ## revisions 2-4: both passwords are accepted -/

/-- The Encrypt dictionary entries a conforming writer stores for a revision 2-4 configuration. -/
def params234 (c : Cfg) (v : Int) (o u : Bytes) : Params :=
  { v := v, r := c.r, p := c.p, o := o, u := u, length := c.length,
    encryptMetadata := c.encryptMetadata, docid0 := c.id0 }

/-- `compute_encryption_key` is Algorithm 2 of the standard. -/
theorem computeKey_is_alg2 (P : Prims) (c : Cfg) (v : Int) (o u pw : Bytes)
    (hr : c.r = 2 ∨ c.r = 3 ∨ c.r = 4) (hp : -4294967296 ≤ c.p) :
    computeEncryptionKey P (params234 c v o u) c.length (uintValue32 c.p) pw
      = alg2Key P c (pad32 pw) o := by
  unfold computeEncryptionKey alg2Key
  simp only [params234]
  rw [padPassword_eq, pBytes_eq c.p hp, keyBytes_eq c hr]
  rfl

/-- Algorithm 6 accepts the U that Algorithms 4/5 produce from the same key. -/
theorem verifyKey_writer (P : Prims) (hP : PrimsOK P) (c : Cfg) (v : Int) (o key tail : Bytes)
    (hr : c.r = 2 ∨ c.r = 3 ∨ c.r = 4) :
    verifyKey P (params234 c v o (alg45U P c key tail)) key = true := by
  have hlen : (rc4Layers key (List.range' 1 19) (rc4Core key (P.md5 (isoPad ++ c.id0)))).length = 16 := by
    rw [rc4Layers_length, rc4Core_length, hP.md5_len]
  unfold verifyKey computeU alg45U
  simp only [params234, padding_eq, U_ROUND_LO, U_ROUND_HI, U_CHECK_LEN]
  rcases hr with h | h | h
  · simp [h]
  · simp only [h, show ¬ ((3 : Int) = 2) by decide, if_false]
    change (List.take 16 (rc4Layers key (List.range' 1 19) _ ++ rc4Layers key (List.range' 1 19) _)
      == List.take 16 (rc4Layers key (List.range' 1 19) _ ++ tail)) = true
    rw [List.take_left' hlen, List.take_left' hlen]
    simp
  · simp only [h, show ¬ ((4 : Int) = 2) by decide, if_false]
    change (List.take 16 (rc4Layers key (List.range' 1 19) _ ++ rc4Layers key (List.range' 1 19) _)
      == List.take 16 (rc4Layers key (List.range' 1 19) _ ++ tail)) = true
    rw [List.take_left' hlen, List.take_left' hlen]
    simp

/-- **The user password opens the document** (revisions 2-4): for the O, U and file key that the
    standard's Algorithms 2-5 produce from any user/owner password pair, P, ID and EncryptMetadata
    setting, `authenticate_user_password(user)` returns exactly that file key. -/
theorem user_pw_accepts (P : Prims) (hP : PrimsOK P) (c : Cfg) (v : Int) (userPw ownerPw tail : Bytes)
    (hr : c.r = 2 ∨ c.r = 3 ∨ c.r = 4) (hp : -4294967296 ≤ c.p) :
    authUser P (params234 c v (derive234 P c (pad32 userPw) (pad32 ownerPw) tail).1
        (derive234 P c (pad32 userPw) (pad32 ownerPw) tail).2.1) c.length (uintValue32 c.p) userPw
      = some (derive234 P c (pad32 userPw) (pad32 ownerPw) tail).2.2 := by
  have hk := computeKey_is_alg2 P c v (alg3O P c (pad32 ownerPw) (pad32 userPw))
    (alg45U P c (alg2Key P c (pad32 userPw) (alg3O P c (pad32 ownerPw) (pad32 userPw))) tail) userPw hr hp
  have hv := verifyKey_writer P hP c v (alg3O P c (pad32 ownerPw) (pad32 userPw))
    (alg2Key P c (pad32 userPw) (alg3O P c (pad32 ownerPw) (pad32 userPw))) tail hr
  show authUser P (params234 c v (alg3O P c (pad32 ownerPw) (pad32 userPw))
      (alg45U P c (alg2Key P c (pad32 userPw) (alg3O P c (pad32 ownerPw) (pad32 userPw))) tail))
      c.length (uintValue32 c.p) userPw
    = some (alg2Key P c (pad32 userPw) (alg3O P c (pad32 ownerPw) (pad32 userPw)))
  unfold authUser
  simp only [hk, hv, if_true]

/-- Algorithm 7 recovers the padded user password from O: the 20 RC4 layers (one for revision 2)
    are peeled off in reverse order, each by `rc4_involution`. -/
theorem owner_recovers_user (P : Prims) (c : Cfg) (v : Int) (u ownerPw pu : Bytes)
    (hr : c.r = 2 ∨ c.r = 3 ∨ c.r = 4) :
    recoverUser P (params234 c v (alg3O P c (pad32 ownerPw) pu) u) c.length ownerPw = pu := by
  unfold recoverUser ownerKey alg3O
  simp only [params234]
  rw [padPassword_eq, keyBytes_eq c hr]
  have layers : ∀ k : Bytes, rc4Layers k OWNER_LAYERS
      ((List.range' 1 19).foldl (fun acc i => rc4Core (xorKey k i) acc) (rc4Core k pu)) = pu := by
    intro k
    have h20 : (List.range' 1 19).foldl (fun acc i => rc4Core (xorKey k i) acc) (rc4Core k pu)
        = rc4Layers k (List.range 20) pu := by
      rw [range20]; simp only [rc4Layers, List.foldl_cons, xorKey_zero]
    rw [h20, owner_layers_eq, rc4Layers_reverse]
  rcases hr with h | h | h
  · simp only [h, show ¬ ((2 : Int) ≥ 3) by decide, if_false, if_true]
    exact rc4Core_rc4Core _ _
  · simp only [h, show ((3 : Int) ≥ 3) by decide, show ¬ ((3 : Int) = 2) by decide, if_false, if_true,
      OWNER_KEY_ROUNDS]
    exact layers _
  · simp only [h, show ((4 : Int) ≥ 3) by decide, show ¬ ((4 : Int) = 2) by decide, if_false, if_true,
      OWNER_KEY_ROUNDS]
    exact layers _

/-- **The owner password opens the document** (revisions 2-4):
    `authenticate_owner_password(owner)` returns the file key. -/
theorem owner_pw_accepts (P : Prims) (hP : PrimsOK P) (c : Cfg) (v : Int) (userPw ownerPw tail : Bytes)
    (hr : c.r = 2 ∨ c.r = 3 ∨ c.r = 4) (hp : -4294967296 ≤ c.p) :
    authOwner P (params234 c v (derive234 P c (pad32 userPw) (pad32 ownerPw) tail).1
        (derive234 P c (pad32 userPw) (pad32 ownerPw) tail).2.1) c.length (uintValue32 c.p) ownerPw
      = some (derive234 P c (pad32 userPw) (pad32 ownerPw) tail).2.2 := by
  have hrec := owner_recovers_user P c v
    (alg45U P c (alg2Key P c (pad32 userPw) (alg3O P c (pad32 ownerPw) (pad32 userPw))) tail)
    ownerPw (pad32 userPw) hr
  have hk := computeKey_is_alg2 P c v (alg3O P c (pad32 ownerPw) (pad32 userPw))
    (alg45U P c (alg2Key P c (pad32 userPw) (alg3O P c (pad32 ownerPw) (pad32 userPw))) tail)
    (pad32 userPw) hr hp
  rw [pad32_pad32] at hk
  have hv := verifyKey_writer P hP c v (alg3O P c (pad32 ownerPw) (pad32 userPw))
    (alg2Key P c (pad32 userPw) (alg3O P c (pad32 ownerPw) (pad32 userPw))) tail hr
  show authOwner P (params234 c v (alg3O P c (pad32 ownerPw) (pad32 userPw))
      (alg45U P c (alg2Key P c (pad32 userPw) (alg3O P c (pad32 ownerPw) (pad32 userPw))) tail))
      c.length (uintValue32 c.p) ownerPw
    = some (alg2Key P c (pad32 userPw) (alg3O P c (pad32 ownerPw) (pad32 userPw)))
  unfold authOwner
  rw [hrec]
  unfold authUser
  simp only [hk, hv, if_true]

/-- `PDFStandardSecurityHandler.authenticate` with the user password (as a str of code points
    < 256): the document opens with the file key.  `8 ≤ length`: the key is not empty. -/
theorem authenticate_user_accepts (P : Prims) (hP : PrimsOK P) (c : Cfg) (v : Int)
    (userCps : List Nat) (userPw ownerPw tail : Bytes)
    (hr : c.r = 2 ∨ c.r = 3 ∨ c.r = 4) (hp : -4294967296 ≤ c.p) (hp0 : c.p ≠ 0) (hp32 : c.p < 4294967296)
    (hl : 8 ≤ c.length) (henc : encodeLatin1 userCps = some userPw) :
    authenticate234 P (params234 c v (derive234 P c (pad32 userPw) (pad32 ownerPw) tail).1
        (derive234 P c (pad32 userPw) (pad32 ownerPw) tail).2.1) c.length (uintValue32 c.p) userCps
      = .ok (derive234 P c (pad32 userPw) (pad32 ownerPw) tail).2.2 := by
  have h := user_pw_accepts P hP c v userPw ownerPw tail hr hp
  unfold authenticate234
  rw [henc]
  have hp' : ¬ uintValue32 c.p ≥ 4294967296 := by unfold uintValue32; split <;> omega
  have hkb : ∀ r : Int, ¬ keyBytes r c.length = 0 := by
    intro r
    unfold keyBytes BITS_PER_KEY_BYTE KEY_BYTES_R2
    by_cases h3 : r ≥ 3
    · rw [if_pos h3]; omega
    · rw [if_neg h3]; omega
  simp only [hp', hkb _, if_false, h]

end PdfVerif.Props.C10
