/-
C10 - Decryption: either password opens the document to exactly the original content.

Property theorems only (helper lemmas: Lemmas/Crypt.lean).  `Model/Crypt.lean` is the model of
pdfminer (reader), `Spec/CryptWriter.lean` the conforming writer of ISO 32000.  MD5, SHA-2, AES-CBC
and SASLprep are arbitrary functions `P : Prims`; the only facts assumed about them are stated as
hypotheses (`PrimsOK`: digest lengths, AES-CBC decrypt inverts encrypt).
-/
import PdfVerif.Lemmas.Crypt

namespace PdfVerif.Props.C10
open PdfVerif PdfVerif.Crypt PdfVerif.CryptWriter PdfVerif.Gen.Crypt

/-- What is assumed about the primitives. -/
structure PrimsOK (P : Prims) : Prop where
  md5_len : ∀ x, (P.md5 x).length = 16
  aes_inv : ∀ k iv x, P.aesDec k iv (P.aesEnc k iv x) = x

/-! ## RC4 -/

/-- RC4 decryption inverts encryption for every key and every data (the keystream does not depend
    on the data). -/
theorem rc4_involution (key data : Bytes) : rc4Core key (rc4Core key data) = data :=
  rc4Core_rc4Core key data

/-- The same for `Arcfour(key).process`, which exists for non-empty keys only. -/
theorem rc4_involution_except (key data : Bytes) (hk : key ≠ []) :
    (rc4 key data >>= rc4 key) = .ok data := by
  cases key with
  | nil => exact absurd rfl hk
  | cons a as => simp [rc4, bind, Except.bind, rc4Core_rc4Core]

theorem rc4_preserves_length (key data : Bytes) : (rc4Core key data).length = data.length :=
  rc4Core_length key data

/-! ## per-object keys -/

/-- Writer (Algorithm 1 with the standard's constants) and reader (constants regenerated from
    pdfdocument.py) derive the same RC4 object key for every object number and generation. -/
theorem objkey_agree (P : Prims) (key : Bytes) (objid genno : Nat) :
    objKeyRc4 P key objid genno = objectKey P .rc4 key objid genno := by
  simp [objKeyRc4, objectKey, OBJID_BYTES_RC4, GENNO_BYTES_RC4, OBJKEY_MAX_RC4, leBytes_length]

/-- ... and the same AES-128 object key (`sAlT`).  pdfminer truncates to `min(len(key) + 9, 16)`
    (the salt is counted) where Algorithm 1 says `min(n + 5, 16)`: the two agree for file keys of
    at least 11 bytes; AESV2 file keys have 16. -/
theorem objkey_agree_aes (P : Prims) (key : Bytes) (objid genno : Nat) (hk : 11 ≤ key.length) :
    objKeyAes P key objid genno = objectKey P .aes128 key objid genno := by
  simp [objKeyAes, objectKey, OBJID_BYTES_AES, GENNO_BYTES_AES, OBJKEY_MAX_AES, AES_SALT,
    leBytes_length]
  omega

end PdfVerif.Props.C10
