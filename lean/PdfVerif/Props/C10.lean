/-
C10 - Decryption: either password opens the document to exactly the original content.

Property theorems only (helper lemmas: Lemmas/Crypt.lean).  `Model/Crypt.lean` is the model of
pdfminer (reader), `Spec/CryptWriter.lean` the conforming writer of ISO 32000.  MD5, SHA-2, AES-CBC
and SASLprep are arbitrary functions `P : Prims`; the only facts assumed about them are stated as
hypotheses (`PrimsOK`: digest lengths, AES-CBC decrypt inverts encrypt).
-/
import PdfVerif.Lemmas.Crypt

namespace PdfVerif.Props.C10
open PdfVerif PdfVerif.Crypt PdfVerif.CryptWriter PdfVerif.Gen.Crypt

/-- What is assumed about the primitives. -/
structure PrimsOK (P : Prims) : Prop where
  md5_len : ∀ x, (P.md5 x).length = 16
  aes_inv : ∀ k iv x, P.aesDec k iv (P.aesEnc k iv x) = x

/-! ## RC4 -/

/-- RC4 decryption inverts encryption for every key and every data (the keystream does not depend
    on the data). -/
theorem rc4_involution (key data : Bytes) : rc4Core key (rc4Core key data) = data :=
  rc4Core_rc4Core key data

/-- The same for `Arcfour(key).process`, which exists for non-empty keys only. -/
theorem rc4_involution_except (key data : Bytes) (hk : key ≠ []) :
    (rc4 key data >>= rc4 key) = .ok data := by
  cases key with
  | nil => exact absurd rfl hk
  | cons a as => simp [rc4, bind, Except.bind, rc4Core_rc4Core]

theorem rc4_preserves_length (key data : Bytes) : (rc4Core key data).length = data.length :=
  rc4Core_length key data

/-! ## per-object keys -/

/-- Writer (Algorithm 1 with the standard's constants) and reader (constants regenerated from
    pdfdocument.py) derive the same RC4 object key for every object number and generation. -/
theorem objkey_agree (P : Prims) (key : Bytes) (objid genno : Nat) :
    objKeyRc4 P key objid genno = objectKey P .rc4 key objid genno := by
  simp [objKeyRc4, objectKey, OBJID_BYTES_RC4, GENNO_BYTES_RC4, OBJKEY_MAX_RC4, leBytes_length]

/-- ... and the same AES-128 object key (`sAlT`).  pdfminer truncates to `min(len(key) + 9, 16)`
    (the salt is counted) where Algorithm 1 says `min(n + 5, 16)`: the two agree for file keys of
    at least 11 bytes; AESV2 file keys have 16. -/
theorem objkey_agree_aes (P : Prims) (key : Bytes) (objid genno : Nat) (hk : 11 ≤ key.length) :
    objKeyAes P key objid genno = objectKey P .aes128 key objid genno := by
  simp [objKeyAes, objectKey, OBJID_BYTES_AES, GENNO_BYTES_AES, OBJKEY_MAX_AES, AES_SALT,
    leBytes_length]
  omega

/-! ## revisions 2-4: both passwords are accepted -/

/-- The Encrypt dictionary entries a conforming writer stores for a revision 2-4 configuration. -/
def params234 (c : Cfg) (v : Int) (o u : Bytes) : Params :=
  { v := v, r := c.r, p := c.p, o := o, u := u, length := c.length,
    encryptMetadata := c.encryptMetadata, docid0 := c.id0 }

/-- `compute_encryption_key` is Algorithm 2 of the standard. -/
theorem computeKey_is_alg2 (P : Prims) (c : Cfg) (v : Int) (o u pw : Bytes)
    (hr : c.r = 2 ∨ c.r = 3 ∨ c.r = 4) (hp : -4294967296 ≤ c.p) :
    computeEncryptionKey P (params234 c v o u) c.length (uintValue32 c.p) pw
      = alg2Key P c (pad32 pw) o := by
  unfold computeEncryptionKey alg2Key
  simp only [params234]
  rw [padPassword_eq, pBytes_eq c.p hp, keyBytes_eq c hr]
  rfl

/-- Algorithm 6 accepts the U that Algorithms 4/5 produce from the same key. -/
theorem verifyKey_writer (P : Prims) (hP : PrimsOK P) (c : Cfg) (v : Int) (o key tail : Bytes)
    (hr : c.r = 2 ∨ c.r = 3 ∨ c.r = 4) :
    verifyKey P (params234 c v o (alg45U P c key tail)) key = true := by
  have hlen : (rc4Layers key (List.range' 1 19) (rc4Core key (P.md5 (isoPad ++ c.id0)))).length = 16 := by
    rw [rc4Layers_length, rc4Core_length, hP.md5_len]
  unfold verifyKey computeU alg45U
  simp only [params234, padding_eq, U_ROUND_LO, U_ROUND_HI, U_CHECK_LEN]
  rcases hr with h | h | h
  · simp [h]
  · simp only [h, show ¬ ((3 : Int) = 2) by decide, if_false]
    change (List.take 16 (rc4Layers key (List.range' 1 19) _ ++ rc4Layers key (List.range' 1 19) _)
      == List.take 16 (rc4Layers key (List.range' 1 19) _ ++ tail)) = true
    rw [List.take_left' hlen, List.take_left' hlen]
    simp
  · simp only [h, show ¬ ((4 : Int) = 2) by decide, if_false]
    change (List.take 16 (rc4Layers key (List.range' 1 19) _ ++ rc4Layers key (List.range' 1 19) _)
      == List.take 16 (rc4Layers key (List.range' 1 19) _ ++ tail)) = true
    rw [List.take_left' hlen, List.take_left' hlen]
    simp

/-- **The user password opens the document** (revisions 2-4): for the O, U and file key that the
    standard's Algorithms 2-5 produce from any user/owner password pair, P, ID and EncryptMetadata
    setting, `authenticate_user_password(user)` returns exactly that file key. -/
theorem user_pw_accepts (P : Prims) (hP : PrimsOK P) (c : Cfg) (v : Int) (userPw ownerPw tail : Bytes)
    (hr : c.r = 2 ∨ c.r = 3 ∨ c.r = 4) (hp : -4294967296 ≤ c.p) :
    authUser P (params234 c v (derive234 P c (pad32 userPw) (pad32 ownerPw) tail).1
        (derive234 P c (pad32 userPw) (pad32 ownerPw) tail).2.1) c.length (uintValue32 c.p) userPw
      = some (derive234 P c (pad32 userPw) (pad32 ownerPw) tail).2.2 := by
  have hk := computeKey_is_alg2 P c v (alg3O P c (pad32 ownerPw) (pad32 userPw))
    (alg45U P c (alg2Key P c (pad32 userPw) (alg3O P c (pad32 ownerPw) (pad32 userPw))) tail) userPw hr hp
  have hv := verifyKey_writer P hP c v (alg3O P c (pad32 ownerPw) (pad32 userPw))
    (alg2Key P c (pad32 userPw) (alg3O P c (pad32 ownerPw) (pad32 userPw))) tail hr
  show authUser P (params234 c v (alg3O P c (pad32 ownerPw) (pad32 userPw))
      (alg45U P c (alg2Key P c (pad32 userPw) (alg3O P c (pad32 ownerPw) (pad32 userPw))) tail))
      c.length (uintValue32 c.p) userPw
    = some (alg2Key P c (pad32 userPw) (alg3O P c (pad32 ownerPw) (pad32 userPw)))
  unfold authUser
  simp only [hk, hv, if_true]

/-- Algorithm 7 recovers the padded user password from O: the 20 RC4 layers (one for revision 2)
    are peeled off in reverse order, each by `rc4_involution`. -/
theorem owner_recovers_user (P : Prims) (c : Cfg) (v : Int) (u ownerPw pu : Bytes)
    (hr : c.r = 2 ∨ c.r = 3 ∨ c.r = 4) :
    recoverUser P (params234 c v (alg3O P c (pad32 ownerPw) pu) u) c.length ownerPw = pu := by
  unfold recoverUser ownerKey alg3O
  simp only [params234]
  rw [padPassword_eq, keyBytes_eq c hr]
  have layers : ∀ k : Bytes, rc4Layers k OWNER_LAYERS
      ((List.range' 1 19).foldl (fun acc i => rc4Core (xorKey k i) acc) (rc4Core k pu)) = pu := by
    intro k
    have h20 : (List.range' 1 19).foldl (fun acc i => rc4Core (xorKey k i) acc) (rc4Core k pu)
        = rc4Layers k (List.range 20) pu := by
      rw [range20]; simp only [rc4Layers, List.foldl_cons, xorKey_zero]
    rw [h20, owner_layers_eq, rc4Layers_reverse]
  rcases hr with h | h | h
  · simp only [h, show ¬ ((2 : Int) ≥ 3) by decide, if_false, if_true]
    exact rc4Core_rc4Core _ _
  · simp only [h, show ((3 : Int) ≥ 3) by decide, show ¬ ((3 : Int) = 2) by decide, if_false, if_true,
      OWNER_KEY_ROUNDS]
    exact layers _
  · simp only [h, show ((4 : Int) ≥ 3) by decide, show ¬ ((4 : Int) = 2) by decide, if_false, if_true,
      OWNER_KEY_ROUNDS]
    exact layers _

/-- **The owner password opens the document** (revisions 2-4):
    `authenticate_owner_password(owner)` returns the file key. -/
theorem owner_pw_accepts (P : Prims) (hP : PrimsOK P) (c : Cfg) (v : Int) (userPw ownerPw tail : Bytes)
    (hr : c.r = 2 ∨ c.r = 3 ∨ c.r = 4) (hp : -4294967296 ≤ c.p) :
    authOwner P (params234 c v (derive234 P c (pad32 userPw) (pad32 ownerPw) tail).1
        (derive234 P c (pad32 userPw) (pad32 ownerPw) tail).2.1) c.length (uintValue32 c.p) ownerPw
      = some (derive234 P c (pad32 userPw) (pad32 ownerPw) tail).2.2 := by
  have hrec := owner_recovers_user P c v
    (alg45U P c (alg2Key P c (pad32 userPw) (alg3O P c (pad32 ownerPw) (pad32 userPw))) tail)
    ownerPw (pad32 userPw) hr
  have hk := computeKey_is_alg2 P c v (alg3O P c (pad32 ownerPw) (pad32 userPw))
    (alg45U P c (alg2Key P c (pad32 userPw) (alg3O P c (pad32 ownerPw) (pad32 userPw))) tail)
    (pad32 userPw) hr hp
  rw [pad32_pad32] at hk
  have hv := verifyKey_writer P hP c v (alg3O P c (pad32 ownerPw) (pad32 userPw))
    (alg2Key P c (pad32 userPw) (alg3O P c (pad32 ownerPw) (pad32 userPw))) tail hr
  show authOwner P (params234 c v (alg3O P c (pad32 ownerPw) (pad32 userPw))
      (alg45U P c (alg2Key P c (pad32 userPw) (alg3O P c (pad32 ownerPw) (pad32 userPw))) tail))
      c.length (uintValue32 c.p) ownerPw
    = some (alg2Key P c (pad32 userPw) (alg3O P c (pad32 ownerPw) (pad32 userPw)))
  unfold authOwner
  rw [hrec]
  unfold authUser
  simp only [hk, hv, if_true]

/-- `PDFStandardSecurityHandler.authenticate` with the user password (as a str of code points
    < 256): the document opens with the file key.  `8 ≤ length`: the key is not empty. -/
theorem authenticate_user_accepts (P : Prims) (hP : PrimsOK P) (c : Cfg) (v : Int)
    (userCps : List Nat) (userPw ownerPw tail : Bytes)
    (hr : c.r = 2 ∨ c.r = 3 ∨ c.r = 4) (hp : -4294967296 ≤ c.p) (hp0 : c.p ≠ 0) (hp32 : c.p < 4294967296)
    (hl : 8 ≤ c.length) (henc : encodeLatin1 userCps = some userPw) :
    authenticate234 P (params234 c v (derive234 P c (pad32 userPw) (pad32 ownerPw) tail).1
        (derive234 P c (pad32 userPw) (pad32 ownerPw) tail).2.1) c.length (uintValue32 c.p) userCps
      = .ok (derive234 P c (pad32 userPw) (pad32 ownerPw) tail).2.2 := by
  have h := user_pw_accepts P hP c v userPw ownerPw tail hr hp
  unfold authenticate234
  rw [henc]
  have hp' : ¬ uintValue32 c.p ≥ 4294967296 := by unfold uintValue32; split <;> omega
  have hkb : ∀ r : Int, ¬ keyBytes r c.length = 0 := by
    intro r
    unfold keyBytes BITS_PER_KEY_BYTE KEY_BYTES_R2
    by_cases h3 : r ≥ 3
    · rw [if_pos h3]; omega
    · rw [if_neg h3]; omega
  simp only [hp', hkb _, if_false, h]

/-! ## revisions 5 and 6 -/

/-- The Encrypt dictionary entries of a revision 5/6 document written by Algorithms 8 and 9. -/
def params56 (r : Int) (d : Bytes × Bytes × Bytes × Bytes) : Params :=
  { v := 5, r := r, u := d.1, ue := d.2.1, o := d.2.2.1, oe := d.2.2.2, length := 256 }

/-- Salts are 8 bytes and the password hash (SHA-256 / Algorithm 2.B, the same abstract function on
    the writing and the reading side) is 32 bytes long. -/
structure Salts8 (P : Prims) (r : Int) (s : Salts) : Prop where
  uv : s.uv.length = 8
  ov : s.ov.length = 8
  hash_len : ∀ pw salt v, (passwordHash P r pw salt v).length = 32

theorem split_hash_salts (h a b : Bytes) (hh : h.length = 32) (ha : a.length = 8) :
    (h ++ a ++ b).take HASH_LEN = h ∧
    ((h ++ a ++ b).take VALIDATION_SALT_END).drop HASH_LEN = a ∧
    (h ++ a ++ b).drop VALIDATION_SALT_END = b := by
  unfold HASH_LEN VALIDATION_SALT_END
  refine ⟨?_, ?_, ?_⟩
  · rw [List.append_assoc, List.take_left' hh]
  · have : (h ++ a).length = 40 := by simp [hh, ha]
    rw [List.take_left' this, List.drop_left' hh]
  · have : (h ++ a).length = 40 := by simp [hh, ha]
    rw [List.drop_left' this]

/-- **R5/R6: the user password opens the document** - the user branch of
    `PDFStandardSecurityHandlerV5.authenticate` returns the file key. -/
theorem r56_user_accepts (P : Prims) (hP : PrimsOK P) (r : Int) (key up op : Bytes) (s : Salts)
    (hs : Salts8 P r s) :
    authUser56 P (params56 r (derive56 P r key up op s)) up = some key := by
  obtain ⟨h1, h2, h3⟩ := split_hash_salts (hash56 P r up s.uv []) s.uv s.uk (hs.hash_len _ _ _) hs.uv
  unfold authUser56 uHash uValidationSalt uKeySalt
  simp only [params56, derive56, h1, h2, h3]
  simp [hash56, hP.aes_inv]

/-- **R5/R6: the owner password opens the document** (the owner hash covers the 48-byte U). -/
theorem r56_owner_accepts (P : Prims) (hP : PrimsOK P) (r : Int) (key up op : Bytes) (s : Salts)
    (hs : Salts8 P r s) :
    authOwner56 P (params56 r (derive56 P r key up op s)) op = some key := by
  obtain ⟨h1, h2, h3⟩ := split_hash_salts
    (hash56 P r op s.ov (hash56 P r up s.uv [] ++ s.uv ++ s.uk)) s.ov s.ok (hs.hash_len _ _ _) hs.ov
  unfold authOwner56 oHash oValidationSalt oKeySalt
  simp only [params56, derive56, h1, h2, h3]
  simp [hash56, hP.aes_inv]

/-- `authenticate` of the V5 handler with the owner password. -/
theorem r56_authenticate_owner (P : Prims) (hP : PrimsOK P) (r : Int) (key up op : Bytes) (s : Salts)
    (hs : Salts8 P r s) (cps : List Nat) (hn : normalizePassword P r cps = .ok op) :
    authenticate56 P (params56 r (derive56 P r key up op s)) cps = .ok key := by
  have h := r56_owner_accepts P hP r key up op s hs
  unfold authenticate56
  simp only [params56] at h ⊢
  rw [hn]
  simp only [h]

/-- `authenticate` of the V5 handler with the user password.  The owner branch is tried first; it
    is assumed not to fire for the user password unless it yields the same key (no collision of the
    validation hash - a cryptographic assumption, stated explicitly). -/
theorem r56_authenticate_user_partial (P : Prims) (hP : PrimsOK P) (r : Int) (key up op : Bytes)
    (s : Salts) (hs : Salts8 P r s) (cps : List Nat) (hn : normalizePassword P r cps = .ok up)
    (hcoll : authOwner56 P (params56 r (derive56 P r key up op s)) up = none ∨
             authOwner56 P (params56 r (derive56 P r key up op s)) up = some key) :
    authenticate56 P (params56 r (derive56 P r key up op s)) cps = .ok key := by
  have h := r56_user_accepts P hP r key up op s hs
  unfold authenticate56
  simp only [params56] at h hcoll ⊢
  rw [hn]
  rcases hcoll with h0 | h0 <;> simp only [h0, h]

/-- The `while` loop of Algorithm 2.B as coded in `_r6_password` always terminates within the
    fuel: after round 64 it stops as soon as `last byte <= round - 32`, and a byte is < 256. -/
theorem r6_fuel_suffices (P : Prims) (pw vec k : Bytes) (fuel round last : Nat)
    (hl : last < 256) (hf : round + fuel ≥ 290) (h1 : 1 ≤ fuel) :
    (r6Loop P pw vec fuel round last k).isSome = true := by
  induction fuel generalizing round last k with
  | zero => omega
  | succ n ih =>
    unfold r6Loop
    split
    · rename_i hc
      apply ih
      · exact UInt8.toNat_lt _
      · omega
      · omega
    · simp

/-- The hash the V5 handler computes never runs out of fuel (`R6_FUEL = 400`). -/
theorem r6_hash_defined (P : Prims) (pw vec k : Bytes) :
    (r6Loop P pw vec R6_FUEL 0 0 k).isSome = true :=
  r6_fuel_suffices P pw vec k R6_FUEL 0 0 (by decide) (by decide) (by decide)

/-! ## round trip: decrypt (encrypt x) = x -/

theorem roundtrip_rc4 (P : Prims) (key : Bytes) (objid genno : Nat) (iv d : Bytes) :
    decryptRc4 P key objid genno (encryptBytes P .rc4 key objid genno iv d) = d := by
  simp only [decryptRc4, encryptBytes, objkey_agree, rc4Core_rc4Core]

/-- AESV2: the IV is split off, CBC decryption inverts encryption, and the PKCS#7 padding is
    removed (the pinned code returned `d ++ padding`, see `C10_aes_padding_cex`). -/
theorem roundtrip_aes128 (P : Prims) (hP : PrimsOK P) (key : Bytes) (objid genno : Nat) (iv d : Bytes)
    (hk : 11 ≤ key.length) (hiv : iv.length = 16) :
    decryptAes128 P key objid genno (encryptBytes P .aes128 key objid genno iv d) = d := by
  simp only [decryptAes128, encryptBytes]
  rw [List.take_left' hiv, List.drop_left' hiv, objkey_agree_aes P key objid genno hk, hP.aes_inv,
    unpad_pad]

theorem roundtrip_aes256 (P : Prims) (hP : PrimsOK P) (key : Bytes) (objid genno : Nat) (iv d : Bytes)
    (hiv : iv.length = 16) :
    decryptAes256 P key (encryptBytes P .aes256 key objid genno iv d) = d := by
  simp only [decryptAes256, encryptBytes]
  rw [List.take_left' hiv, List.drop_left' hiv, hP.aes_inv, unpad_pad]

/-- The handler `h` deciphers with method `m` (class 1: always RC4; V4/V5: the crypt filter named
    by StrF), holds the file key, and AES comes with a 16-byte IV and a key of at least 11 bytes. -/
structure Matches (h : Handler) (m : Method) (key : Bytes) (ivOf : Bytes → Bytes) : Prop where
  key_eq : h.key = key
  method : if h.cls = 1 then m = .rc4 else lookup h.strf h.cfm = some m
  aes_key : m = .aes128 → 11 ≤ key.length
  iv_len : m = .aes128 ∨ m = .aes256 → ∀ b, (ivOf b).length = 16

/-- **Every string and every stream payload decrypts to exactly the original bytes** - for RC4
    (40-128 bit), AESV2, AESV3 and Identity, every object number and generation, every IV. -/
theorem C10_roundtrip_bytes (P : Prims) (hP : PrimsOK P) (h : Handler) (m : Method) (key : Bytes)
    (ivOf : Bytes → Bytes) (hm : Matches h m key ivOf) (objid genno : Nat) (d : Bytes)
    (isMeta : Bool) (hmeta : h.cls ≠ 1 → ¬ h.encryptMetadata → isMeta = false) :
    decrypt P h objid genno isMeta (encryptBytes P m key objid genno (ivOf d) d) = d := by
  obtain ⟨hkey, hmeth, hak, hiv⟩ := hm
  unfold decrypt
  by_cases hc : h.cls = 1
  · rw [if_pos hc] at hmeth
    rw [if_pos hc, hmeth, hkey]
    exact roundtrip_rc4 P key objid genno _ d
  · rw [if_neg hc] at hmeth
    rw [if_neg hc]
    have hno : ¬ (¬ h.encryptMetadata = true ∧ isMeta = true) := by
      intro ⟨h1, h2⟩
      have := hmeta hc h1
      rw [this] at h2
      exact Bool.noConfusion h2
    rw [if_neg hno, hmeth]
    cases m with
    | rc4 => simp only [applyMethod, hkey]; exact roundtrip_rc4 P key objid genno _ d
    | aes128 =>
      simp only [applyMethod, hkey]
      exact roundtrip_aes128 P hP key objid genno _ d (hak rfl) (hiv (Or.inl rfl) d)
    | aes256 =>
      simp only [applyMethod, hkey]
      exact roundtrip_aes256 P hP key objid genno _ d (hiv (Or.inr rfl) d)
    | identity => simp only [applyMethod, encryptBytes]

/-- **Whole objects**: `getobj` of an indirect object whose strings (also those inside a stream
    dictionary) and stream payload were encrypted by the writer returns the original object.
    A Metadata stream is left alone by both sides when EncryptMetadata is false; a
    cross-reference stream is never touched. -/
theorem C10_roundtrip (P : Prims) (hP : PrimsOK P) (h : Handler) (m : Method) (key : Bytes)
    (ivOf : Bytes → Bytes) (hm : Matches h m key ivOf) (objid genno : Nat) (o : Obj)
    (hne : m ≠ .identity → ∀ b, encryptBytes P m key objid genno (ivOf b) b = [] → b = []) :
    getobj P h .direct objid genno
      (encryptAll (fun b => encryptBytes P m key objid genno (ivOf b) b)
        (fun attrs => h.cls ≠ 1 ∧ ¬ h.encryptMetadata ∧ attrsType attrs = some atomMetadata) o) = o := by
  unfold getobj
  apply decipher_encrypt_obj
  · intro b
    exact C10_roundtrip_bytes P hP h m key ivOf hm objid genno b false (fun _ _ => rfl)
  · intro b hb
    by_cases hid : m = .identity
    · subst hid; simpa [encryptBytes] using hb
    · exact hne hid b hb
  · intro attrs raw
    by_cases hs : h.cls ≠ 1 ∧ ¬ h.encryptMetadata ∧ attrsType attrs = some atomMetadata
    · simp only [hs, decide_true, and_self, if_true, ne_eq, not_false_eq_true]
      obtain ⟨h1, h2, h3⟩ := hs
      unfold decrypt
      simp [h1, h2]
    · have hd : decide (h.cls ≠ 1 ∧ ¬ h.encryptMetadata ∧ attrsType attrs = some atomMetadata) = false := by
        simpa using hs
      rw [hd]
      simp only [Bool.false_eq_true, if_false]
      apply C10_roundtrip_bytes P hP h m key ivOf hm objid genno raw
      intro hc hem
      by_cases ht : attrsType attrs = some atomMetadata
      · exact absurd ⟨hc, hem, ht⟩ hs
      · simpa using ht

/-! ## decryption is applied exactly where the standard says -/

/-- Members of object streams, the trailer / cross-reference stream dictionary and the Encrypt
    dictionary are returned as stored: never deciphered (a second time). -/
theorem once_only_not_elsewhere (P : Prims) (h : Handler) (loc : Loc) (objid genno : Nat) (o : Obj)
    (hl : loc ≠ .direct) : getobj P h loc objid genno o = o := by
  cases loc <;> first | exact absurd rfl hl | rfl

/-- A cross-reference stream is exempt even when it is read as an ordinary indirect object. -/
theorem once_only_xref (P : Prims) (h : Handler) (objid genno : Nat) (attrs : List (Bytes × Obj))
    (raw : Bytes) (hx : attrsType attrs = some atomXRef) :
    getobj P h .direct objid genno (.stream attrs raw) = .stream attrs raw := by
  simp [getobj, decipherAll, hx]

/-- Each string of a direct object goes through the cipher exactly once: `getobj` is the
    string-wise map of `decrypt` (empty strings skipped), so deciphering the result again is a
    different function - in particular the result of `getobj` for a string `s` is `decrypt s`,
    not `decrypt (decrypt s)`. -/
theorem once_only_string (P : Prims) (h : Handler) (objid genno : Nat) (b : Bytes) (hb : b ≠ []) :
    getobj P h .direct objid genno (.str b) = .str (decrypt P h objid genno false b) := by
  cases b with
  | nil => exact absurd rfl hb
  | cons x xs => simp [getobj, decipherAll]

/-- **Deciphered exactly once, as a trace**: a first `getobj` of a direct object (any nesting
    depth of arrays / dictionaries, strings inside a stream dictionary, the stream payload) makes
    exactly the cipher calls `expectedCalls o` - each non-empty string once, the payload once,
    nothing for a cross-reference stream - and returns the pure model's result. -/
theorem once_only_trace (P : Prims) (h : Handler) (caching : Bool) (objid genno : Nat) (o : Obj) :
    (getobjSt P h caching {} .direct objid genno o).1 = getobj P h .direct objid genno o ∧
    (getobjSt P h caching {} .direct objid genno o).2.2 = expectedCalls o := by
  simp [getobjSt, cacheLookup, getobj, decipherAllT_spec]

/-- Members of object streams, the trailer and the Encrypt dictionary: zero cipher calls. -/
theorem once_only_trace_elsewhere (P : Prims) (h : Handler) (caching : Bool) (st : DocState) (loc : Loc)
    (objid genno : Nat) (o : Obj) (hl : loc ≠ .direct) (hc : cacheLookup objid st.cache = none) :
    (getobjSt P h caching st loc objid genno o).1 = o ∧
    (getobjSt P h caching st loc objid genno o).2.2 = [] := by
  cases loc <;> first | exact absurd rfl hl | simp [getobjSt, hc]

/-- State carried across calls: with the cache on, a second `getobj` of the same object returns
    the same object and makes **no** cipher call (the cached object is not deciphered again). -/
theorem once_only_second_read_cached (P : Prims) (h : Handler) (loc : Loc) (objid genno : Nat) (o : Obj) :
    let r1 := getobjSt P h true {} loc objid genno o
    let r2 := getobjSt P h true r1.2.1 loc objid genno o
    r2.1 = r1.1 ∧ r2.2.2 = [] ∧ r2.2.1.cache = r1.2.1.cache := by
  simp [getobjSt, cacheLookup]

/-- With the cache off the object is parsed again from the stored bytes and deciphered afresh:
    same result, same calls - never a decryption of an already decrypted object. -/
theorem once_only_second_read_uncached (P : Prims) (h : Handler) (loc : Loc) (objid genno : Nat) (o : Obj) :
    let r1 := getobjSt P h false {} loc objid genno o
    let r2 := getobjSt P h false r1.2.1 loc objid genno o
    r2 = r1 := by
  simp [getobjSt, cacheLookup]

/-- Non-vacuity of the trace statement: a dictionary holding an array holding a dictionary, an
    empty string, and a stream with a string in its dictionary - four calls, in traversal order. -/
example :
    expectedCalls (.dict [([65], .arr [.str [1], .dict [([66], .str [2, 3])], .str []]),
                          ([67], .stream [([68], .str [4])] [9, 9])])
      = [.str [1], .str [2, 3], .str [4], .payload false [9, 9]] := by decide

/-! ## permissions -/

/-- print / modify / extract are bits 3 / 4 / 5 of P (values 4, 8, 16) of the stored value. -/
theorem perms_bits (h : Handler) :
    isPrintable h = (h.p / 4 % 2 == 1) ∧ isModifiable h = (h.p / 8 % 2 == 1) ∧
    isExtractable h = (h.p / 16 % 2 == 1) := by
  have key : ∀ (p k : Nat), (p &&& 2 ^ k != 0) = (p / 2 ^ k % 2 == 1) := by
    intro p k
    have h1 : (p &&& 2 ^ k) / 2 ^ k = p / 2 ^ k % 2 := by
      rw [Nat.and_div_two_pow, Nat.div_self (Nat.two_pow_pos k), Nat.and_one_is_mod]
    have h2 : (p &&& 2 ^ k) % 2 ^ k = 0 := by
      rw [Nat.and_mod_two_pow, Nat.mod_self, Nat.and_zero]
    have h3 := Nat.div_add_mod (p &&& 2 ^ k) (2 ^ k)
    rw [h1, h2] at h3
    have hpos := Nat.two_pow_pos k
    rw [← h3]
    have hm : p / 2 ^ k % 2 = 0 ∨ p / 2 ^ k % 2 = 1 := by omega
    rcases hm with hm | hm <;> simp [hm] <;> omega
  exact ⟨key h.p 2, key h.p 3, key h.p 4⟩

/-- ... and the stored unsigned value has the same low bits as the signed P of the dictionary. -/
theorem perms_of_signed_P (p : Int) (hp : -4294967296 ≤ p) :
    (uintValue32 p) % 32 = (p % 32).toNat := by
  unfold uintValue32; split <;> omega

/-! ## wrong passwords -/

/-- **Every other password is rejected** (revisions 2-4), under the explicit cryptographic
    assumptions that (1) no other 32-byte padded password passes the U check (no second preimage
    through MD5/RC4) and (2) peeling O with a key derived from another password does not produce
    a password that passes it.  `_partial`: the assumptions are hypotheses, not theorems. -/
theorem C10_rejects_partial (P : Prims) (prm : Params) (length p : Nat) (cps : List Nat)
    (userPad : Bytes)
    (hnc1 : ∀ q, (authUser P prm length p q).isSome → padPassword q = userPad)
    (hnc2 : ∀ q, padPassword (recoverUser P prm length q) = userPad → False)
    (hp : p < 4294967296) (hk : keyBytes prm.r length ≠ 0)
    (hw : ∀ b, encodeLatin1 cps = some b → padPassword b ≠ userPad) :
    authenticate234 P prm length p cps = .error .passwordIncorrect := by
  unfold authenticate234
  cases henc : encodeLatin1 cps with
  | none => rfl
  | some b =>
    have hp' : ¬ p ≥ 4294967296 := by omega
    simp only [hp', hk, if_false]
    have hu : authUser P prm length p b = none := by
      cases hau : authUser P prm length p b with
      | none => rfl
      | some k => exact absurd (hnc1 b (by simp [hau])) (hw b henc)
    have ho : authOwner P prm length p b = none := by
      unfold authOwner
      cases hau : authUser P prm length p (recoverUser P prm length b) with
      | none => rfl
      | some k => exact absurd (hnc1 _ (by simp [hau])) (fun h => hnc2 b h)
    simp only [hu, ho]

/-- A password that has no Latin-1 form is rejected outright (repaired behaviour; the pinned code
    raised UnicodeEncodeError). -/
theorem rejects_non_latin1 (P : Prims) (prm : Params) (length p : Nat) (cps : List Nat)
    (h : encodeLatin1 cps = none) :
    authenticate234 P prm length p cps = .error .passwordIncorrect := by
  simp [authenticate234, h]

/-- R5/R6: a password whose hashes match neither the O nor the U validation hash is rejected;
    a password SASLprep refuses is rejected as incorrect. -/
theorem r56_rejects_partial (P : Prims) (prm : Params) (cps : List Nat) (b : Bytes)
    (hn : normalizePassword P prm.r cps = .ok b)
    (ho : passwordHash P prm.r b (oValidationSalt prm) prm.u ≠ oHash prm)
    (hu : passwordHash P prm.r b (uValidationSalt prm) [] ≠ uHash prm) :
    authenticate56 P prm cps = .error .passwordIncorrect := by
  simp [authenticate56, hn, authOwner56, authUser56, ho, hu]

theorem r6_rejects_saslprep_refused (P : Prims) (prm : Params) (cps : List Nat)
    (hr : prm.r = 6) (hne : cps ≠ []) (hs : P.saslprep cps = none) :
    authenticate56 P prm cps = .error .passwordIncorrect := by
  cases cps with
  | nil => exact absurd rfl hne
  | cons c cs => simp [authenticate56, normalizePassword, hr, hs]

/-! ## non-vacuity, and the pinned behaviour as proved counter-examples -/

/-- A concrete instance of the primitives (not cryptographic: digests are zero-padded prefixes,
    "AES" is the identity pair) - shows that `PrimsOK` is satisfiable, so none of the theorems
    above is vacuous. -/
def toyPrims : Prims where
  md5 := fun b => (b ++ List.replicate 16 0).take 16
  sha256 := fun b => (b ++ List.replicate 32 0).take 32
  sha384 := fun b => (b ++ List.replicate 48 0).take 48
  sha512 := fun b => (b ++ List.replicate 64 0).take 64
  aesDec := fun _ _ d => d
  aesEnc := fun _ _ d => d
  saslprep := some

theorem toyPrims_ok : PrimsOK toyPrims where
  md5_len := by intro x; simp [toyPrims]
  aes_inv := by intros; rfl

/-- RC4 test vector (key "Key", plaintext "Plaintext" -> BBF316E8D940AF0AD3): the model of
    arcfour.py computes the published ciphertext. -/
example : rc4Core [75, 101, 121] [80, 108, 97, 105, 110, 116, 101, 120, 116]
    = [0xBB, 0xF3, 0x16, 0xE8, 0xD9, 0x40, 0xAF, 0x0A, 0xD3] := by decide +kernel

/-- A revision 3, 128-bit document with user password "u" and owner password "o": both open it. -/
example :
    let c : Cfg := { r := 3, length := 128, p := -1044, id0 := [1, 2, 3] }
    let d := derive234 toyPrims c (pad32 [117]) (pad32 [111]) (List.replicate 16 7)
    authUser toyPrims (params234 c 2 d.1 d.2.1) 128 (uintValue32 (-1044)) [117] = some d.2.2 ∧
    authOwner toyPrims (params234 c 2 d.1 d.2.1) 128 (uintValue32 (-1044)) [111] = some d.2.2 :=
  ⟨user_pw_accepts toyPrims toyPrims_ok _ 2 [117] [111] _ (Or.inr (Or.inl rfl)) (by decide),
   owner_pw_accepts toyPrims toyPrims_ok _ 2 [117] [111] _ (Or.inr (Or.inl rfl)) (by decide)⟩

/-- The behaviour of the pinned code before the fix: AES plaintext returned with its padding. -/
def pinnedDecryptAes256 (P : Prims) (key data : Bytes) : Bytes :=
  P.aesDec key (data.take 16) (data.drop 16)

/-- Counter-example for the pinned code (fixed in /repo): the one-byte string "A", AESV3 -
    decryption returned "A" followed by fifteen bytes 0x0F. -/
theorem C10_aes_padding_cex :
    pinnedDecryptAes256 toyPrims [1] (encryptBytes toyPrims .aes256 [1] 7 0 (List.replicate 16 9) [65])
      ≠ [65] := by decide

/-- ... whereas the repaired reader returns the original string. -/
example : decryptAes256 toyPrims [1] (encryptBytes toyPrims .aes256 [1] 7 0 (List.replicate 16 9) [65])
    = [65] := by decide

end PdfVerif.Props.C10
