/-
C10 - Decryption: either password opens the document to exactly the original content.

Property theorems only (helper lemmas: Lemmas/Crypt.lean).  `Model/Crypt.lean` is the model of
pdfminer (reader), `Spec/CryptWriter.lean` the conforming writer of ISO 32000.  MD5, SHA-2, AES-CBC
and SASLprep are arbitrary functions `P : Prims`; the only facts assumed about them are stated as
hypotheses (`PrimsOK`: digest lengths, AES-CBC decrypt inverts encrypt).
-/
import PdfVerif.Lemmas.Crypt
import PdfVerif.Lemmas.CryptKeys

namespace PdfVerif.Props.C10
open PdfVerif PdfVerif.Crypt PdfVerif.CryptWriter PdfVerif.Gen.Crypt

/-- What is assumed about the primitives. -/
structure PrimsOK (P : Prims) : Prop where
  md5_len : ∀ x, (P.md5 x).length = 16
  aes_inv : ∀ k iv x, P.aesDec k iv (P.aesEnc k iv x) = x

/-! ## RC4 -/

/-- RC4 decryption inverts encryption for every key and every data (the keystream does not depend
    on the data). -/
theorem rc4_involution (key data : Bytes) : rc4Core key (rc4Core key data) = data :=
  rc4Core_rc4Core key data

/-- The same for `Arcfour(key).process`, which exists for non-empty keys only. -/
theorem rc4_involution_except (key data : Bytes) (hk : key ≠ []) :
    (rc4 key data >>= rc4 key) = .ok data := by
  cases key with
  | nil => exact absurd rfl hk
  | cons a as => simp [rc4, bind, Except.bind, rc4Core_rc4Core]

theorem rc4_preserves_length (key data : Bytes) : (rc4Core key data).length = data.length :=
  rc4Core_length key data

/-! ## per-object keys -/

/-- Writer (Algorithm 1 with the standard's constants) and reader (constants regenerated from
    pdfdocument.py) derive the same RC4 object key for every object number and generation. -/
theorem objkey_agree (P : Prims) (key : Bytes) (objid genno : Nat) :
    objKeyRc4 P key objid genno = objectKey P .rc4 key objid genno := by
  simp [objKeyRc4, objectKey, OBJID_BYTES_RC4, GENNO_BYTES_RC4, OBJKEY_MAX_RC4, leBytes_length]

/-- ... and the same AES-128 object key (`sAlT`).  pdfminer truncates to `min(len(key) + 9, 16)`
    (the salt is counted) where Algorithm 1 says `min(n + 5, 16)`: the two agree for file keys of
    at least 11 bytes; AESV2 file keys have 16. -/
theorem objkey_agree_aes (P : Prims) (key : Bytes) (objid genno : Nat) (hk : 11 ≤ key.length) :
    objKeyAes P key objid genno = objectKey P .aes128 key objid genno := by
  simp [objKeyAes, objectKey, OBJID_BYTES_AES, GENNO_BYTES_AES, OBJKEY_MAX_AES, AES_SALT,
    leBytes_length]
  omega

/-! ## revisions 2-4: both passwords are accepted -/

/-- The Encrypt dictionary entries a conforming writer stores for a revision 2-4 configuration. -/
def params234 (c : Cfg) (v : Int) (o u : Bytes) : Params :=
  { v := v, r := c.r, p := c.p, o := o, u := u, length := c.length,
    encryptMetadata := c.encryptMetadata, docid0 := c.id0 }

/-- `compute_encryption_key` is Algorithm 2 of the standard. -/
theorem computeKey_is_alg2 (P : Prims) (c : Cfg) (v : Int) (o u pw : Bytes)
    (hr : c.r = 2 ∨ c.r = 3 ∨ c.r = 4) :
    computeEncryptionKey P (params234 c v o u) c.length (uintValue32 c.p) pw
      = alg2Key P c (pad32 pw) o := by
  unfold computeEncryptionKey alg2Key
  simp only [params234]
  rw [padPassword_eq, pBytes_eq c.p, keyBytes_eq c hr]
  rfl

/-- Algorithm 6 accepts the U that Algorithms 4/5 produce from the same key. -/
theorem verifyKey_writer (P : Prims) (hP : PrimsOK P) (c : Cfg) (v : Int) (o key tail : Bytes)
    (hr : c.r = 2 ∨ c.r = 3 ∨ c.r = 4) :
    verifyKey P (params234 c v o (alg45U P c key tail)) key = true := by
  have hlen : (rc4Layers key (List.range' 1 19) (rc4Core key (P.md5 (isoPad ++ c.id0)))).length = 16 := by
    rw [rc4Layers_length, rc4Core_length, hP.md5_len]
  unfold verifyKey computeU alg45U
  simp only [params234, padding_eq, U_ROUND_LO, U_ROUND_HI, U_CHECK_LEN]
  rcases hr with h | h | h
  · simp [h]
  · simp only [h, show ¬ ((3 : Int) = 2) by decide, if_false]
    change (List.take 16 (rc4Layers key (List.range' 1 19) _ ++ rc4Layers key (List.range' 1 19) _)
      == List.take 16 (rc4Layers key (List.range' 1 19) _ ++ tail)) = true
    rw [List.take_left' hlen, List.take_left' hlen]
    simp
  · simp only [h, show ¬ ((4 : Int) = 2) by decide, if_false]
    change (List.take 16 (rc4Layers key (List.range' 1 19) _ ++ rc4Layers key (List.range' 1 19) _)
      == List.take 16 (rc4Layers key (List.range' 1 19) _ ++ tail)) = true
    rw [List.take_left' hlen, List.take_left' hlen]
    simp

/-- **The user password opens the document** (revisions 2-4): for the O, U and file key that the
    standard's Algorithms 2-5 produce from any user/owner password pair, P, ID and EncryptMetadata
    setting, `authenticate_user_password(user)` returns exactly that file key. -/
theorem user_pw_accepts (P : Prims) (hP : PrimsOK P) (c : Cfg) (v : Int) (userPw ownerPw tail : Bytes)
    (hr : c.r = 2 ∨ c.r = 3 ∨ c.r = 4) :
    authUser P (params234 c v (derive234 P c (pad32 userPw) (pad32 ownerPw) tail).1
        (derive234 P c (pad32 userPw) (pad32 ownerPw) tail).2.1) c.length (uintValue32 c.p) userPw
      = some (derive234 P c (pad32 userPw) (pad32 ownerPw) tail).2.2 := by
  have hk := computeKey_is_alg2 P c v (alg3O P c (pad32 ownerPw) (pad32 userPw))
    (alg45U P c (alg2Key P c (pad32 userPw) (alg3O P c (pad32 ownerPw) (pad32 userPw))) tail) userPw hr
  have hv := verifyKey_writer P hP c v (alg3O P c (pad32 ownerPw) (pad32 userPw))
    (alg2Key P c (pad32 userPw) (alg3O P c (pad32 ownerPw) (pad32 userPw))) tail hr
  show authUser P (params234 c v (alg3O P c (pad32 ownerPw) (pad32 userPw))
      (alg45U P c (alg2Key P c (pad32 userPw) (alg3O P c (pad32 ownerPw) (pad32 userPw))) tail))
      c.length (uintValue32 c.p) userPw
    = some (alg2Key P c (pad32 userPw) (alg3O P c (pad32 ownerPw) (pad32 userPw)))
  unfold authUser
  simp only [hk, hv, if_true]

/-- Algorithm 7 recovers the padded user password from O: the 20 RC4 layers (one for revision 2)
    are peeled off in reverse order, each by `rc4_involution`. -/
theorem owner_recovers_user (P : Prims) (c : Cfg) (v : Int) (u ownerPw pu : Bytes)
    (hr : c.r = 2 ∨ c.r = 3 ∨ c.r = 4) :
    recoverUser P (params234 c v (alg3O P c (pad32 ownerPw) pu) u) c.length ownerPw = pu := by
  unfold recoverUser ownerKey alg3O
  simp only [params234]
  rw [padPassword_eq, keyBytes_eq c hr]
  have layers : ∀ k : Bytes, rc4Layers k OWNER_LAYERS
      ((List.range' 1 19).foldl (fun acc i => rc4Core (xorKey k i) acc) (rc4Core k pu)) = pu := by
    intro k
    have h20 : (List.range' 1 19).foldl (fun acc i => rc4Core (xorKey k i) acc) (rc4Core k pu)
        = rc4Layers k (List.range 20) pu := by
      rw [range20]; simp only [rc4Layers, List.foldl_cons, xorKey_zero]
    rw [h20, owner_layers_eq, rc4Layers_reverse]
  rcases hr with h | h | h
  · simp only [h, show ¬ ((2 : Int) ≥ 3) by decide, if_false, if_true]
    exact rc4Core_rc4Core _ _
  · simp only [h, show ((3 : Int) ≥ 3) by decide, show ¬ ((3 : Int) = 2) by decide, if_false, if_true,
      OWNER_KEY_ROUNDS]
    exact layers _
  · simp only [h, show ((4 : Int) ≥ 3) by decide, show ¬ ((4 : Int) = 2) by decide, if_false, if_true,
      OWNER_KEY_ROUNDS]
    exact layers _

/-- **The owner password opens the document** (revisions 2-4):
    `authenticate_owner_password(owner)` returns the file key. -/
theorem owner_pw_accepts (P : Prims) (hP : PrimsOK P) (c : Cfg) (v : Int) (userPw ownerPw tail : Bytes)
    (hr : c.r = 2 ∨ c.r = 3 ∨ c.r = 4) :
    authOwner P (params234 c v (derive234 P c (pad32 userPw) (pad32 ownerPw) tail).1
        (derive234 P c (pad32 userPw) (pad32 ownerPw) tail).2.1) c.length (uintValue32 c.p) ownerPw
      = some (derive234 P c (pad32 userPw) (pad32 ownerPw) tail).2.2 := by
  have hrec := owner_recovers_user P c v
    (alg45U P c (alg2Key P c (pad32 userPw) (alg3O P c (pad32 ownerPw) (pad32 userPw))) tail)
    ownerPw (pad32 userPw) hr
  have hk := computeKey_is_alg2 P c v (alg3O P c (pad32 ownerPw) (pad32 userPw))
    (alg45U P c (alg2Key P c (pad32 userPw) (alg3O P c (pad32 ownerPw) (pad32 userPw))) tail)
    (pad32 userPw) hr
  rw [pad32_pad32] at hk
  have hv := verifyKey_writer P hP c v (alg3O P c (pad32 ownerPw) (pad32 userPw))
    (alg2Key P c (pad32 userPw) (alg3O P c (pad32 ownerPw) (pad32 userPw))) tail hr
  show authOwner P (params234 c v (alg3O P c (pad32 ownerPw) (pad32 userPw))
      (alg45U P c (alg2Key P c (pad32 userPw) (alg3O P c (pad32 ownerPw) (pad32 userPw))) tail))
      c.length (uintValue32 c.p) ownerPw
    = some (alg2Key P c (pad32 userPw) (alg3O P c (pad32 ownerPw) (pad32 userPw)))
  unfold authOwner
  rw [hrec]
  unfold authUser
  simp only [hk, hv, if_true]

/-- `PDFStandardSecurityHandler.authenticate` with the user password (as a str of code points
    < 256): the document opens with the file key.  `8 ≤ length`: the key is not empty. -/
theorem authenticate_user_accepts (P : Prims) (hP : PrimsOK P) (c : Cfg) (v : Int)
    (userCps : List Nat) (userPw ownerPw tail : Bytes)
    (hr : c.r = 2 ∨ c.r = 3 ∨ c.r = 4)
    (hl : 8 ≤ c.length) (henc : encodeLatin1 userCps = some userPw) :
    authenticate234 P (params234 c v (derive234 P c (pad32 userPw) (pad32 ownerPw) tail).1
        (derive234 P c (pad32 userPw) (pad32 ownerPw) tail).2.1) c.length (uintValue32 c.p) userCps
      = .ok (derive234 P c (pad32 userPw) (pad32 ownerPw) tail).2.2 := by
  have h := user_pw_accepts P hP c v userPw ownerPw tail hr
  unfold authenticate234
  rw [henc]
  have hkb : ∀ r : Int, ¬ keyBytes r c.length = 0 := by
    intro r
    unfold keyBytes BITS_PER_KEY_BYTE KEY_BYTES_R2
    by_cases h3 : r ≥ 3
    · rw [if_pos h3]; omega
    · rw [if_neg h3]; omega
  simp only [hkb _, if_false, h]

/-- `authenticate` with the **owner** password.  The code tries the user path first, so the single
    remaining assumption is that the owner password is not *also* accepted by the U check with a
    different padded form (second-preimage resistance of the U check, cf. H1 of
    `C10_rejects_writer_partial`); when both passwords pad to the same 32 bytes nothing is assumed. -/
theorem authenticate_owner_accepts_partial (P : Prims) (hP : PrimsOK P) (c : Cfg) (v : Int)
    (ownerCps : List Nat) (userPw ownerPw tail : Bytes)
    (hr : c.r = 2 ∨ c.r = 3 ∨ c.r = 4)
    (hl : 8 ≤ c.length) (henc : encodeLatin1 ownerCps = some ownerPw)
    (hU : authUser P (params234 c v (derive234 P c (pad32 userPw) (pad32 ownerPw) tail).1
            (derive234 P c (pad32 userPw) (pad32 ownerPw) tail).2.1) c.length (uintValue32 c.p) ownerPw = none
          ∨ pad32 ownerPw = pad32 userPw) :
    authenticate234 P (params234 c v (derive234 P c (pad32 userPw) (pad32 ownerPw) tail).1
        (derive234 P c (pad32 userPw) (pad32 ownerPw) tail).2.1) c.length (uintValue32 c.p) ownerCps
      = .ok (derive234 P c (pad32 userPw) (pad32 ownerPw) tail).2.2 := by
  have hu := user_pw_accepts P hP c v userPw ownerPw tail hr
  have ho := owner_pw_accepts P hP c v userPw ownerPw tail hr
  unfold authenticate234
  rw [henc]
  have hkb : ∀ r : Int, ¬ keyBytes r c.length = 0 := by
    intro r
    unfold keyBytes BITS_PER_KEY_BYTE KEY_BYTES_R2
    by_cases h3 : r ≥ 3
    · rw [if_pos h3]; omega
    · rw [if_neg h3]; omega
  rcases hU with hnone | hsame
  · simp only [hkb _, if_false, hnone, ho]
  · have heq : authUser P (params234 c v (derive234 P c (pad32 userPw) (pad32 ownerPw) tail).1
            (derive234 P c (pad32 userPw) (pad32 ownerPw) tail).2.1) c.length (uintValue32 c.p) ownerPw
        = authUser P (params234 c v (derive234 P c (pad32 userPw) (pad32 ownerPw) tail).1
            (derive234 P c (pad32 userPw) (pad32 ownerPw) tail).2.1) c.length (uintValue32 c.p) userPw := by
      unfold authUser
      simp only
      rw [computeKey_is_alg2 P c v _ _ ownerPw hr, computeKey_is_alg2 P c v _ _ userPw hr, hsame]
    simp only [hkb _, if_false, heq, hu]

/-! ## revisions 5 and 6 -/

/-- The Encrypt dictionary entries of a revision 5/6 document written by Algorithms 8 and 9. -/
def params56 (r : Int) (d : Bytes × Bytes × Bytes × Bytes) : Params :=
  { v := 5, r := r, u := d.1, ue := d.2.1, o := d.2.2.1, oe := d.2.2.2, length := 256 }

/-- Salts are 8 bytes and the password hash (SHA-256 / Algorithm 2.B, the same abstract function on
    the writing and the reading side) is 32 bytes long. -/
structure Salts8 (P : Prims) (r : Int) (s : Salts) : Prop where
  uv : s.uv.length = 8
  ov : s.ov.length = 8
  hash_len : ∀ pw salt v, (passwordHash P r pw salt v).length = 32

theorem split_hash_salts (h a b : Bytes) (hh : h.length = 32) (ha : a.length = 8) :
    (h ++ a ++ b).take HASH_LEN = h ∧
    ((h ++ a ++ b).take VALIDATION_SALT_END).drop HASH_LEN = a ∧
    (h ++ a ++ b).drop VALIDATION_SALT_END = b := by
  unfold HASH_LEN VALIDATION_SALT_END
  refine ⟨?_, ?_, ?_⟩
  · rw [List.append_assoc, List.take_left' hh]
  · have : (h ++ a).length = 40 := by simp [hh, ha]
    rw [List.take_left' this, List.drop_left' hh]
  · have : (h ++ a).length = 40 := by simp [hh, ha]
    rw [List.drop_left' this]

/-- **R5/R6: the user password opens the document** - the user branch of
    `PDFStandardSecurityHandlerV5.authenticate` returns the file key. -/
theorem r56_user_accepts (P : Prims) (hP : PrimsOK P) (r : Int) (key up op : Bytes) (s : Salts)
    (hs : Salts8 P r s) :
    authUser56 P (params56 r (derive56 P r key up op s)) up = some key := by
  obtain ⟨h1, h2, h3⟩ := split_hash_salts (hash56 P r up s.uv []) s.uv s.uk (hs.hash_len _ _ _) hs.uv
  unfold authUser56 uHash uValidationSalt uKeySalt
  simp only [params56, derive56, h1, h2, h3]
  simp [hash56, hP.aes_inv]

/-- **R5/R6: the owner password opens the document** (the owner hash covers the 48-byte U). -/
theorem r56_owner_accepts (P : Prims) (hP : PrimsOK P) (r : Int) (key up op : Bytes) (s : Salts)
    (hs : Salts8 P r s) :
    authOwner56 P (params56 r (derive56 P r key up op s)) op = some key := by
  obtain ⟨h1, h2, h3⟩ := split_hash_salts
    (hash56 P r op s.ov (hash56 P r up s.uv [] ++ s.uv ++ s.uk)) s.ov s.ok (hs.hash_len _ _ _) hs.ov
  unfold authOwner56 oHash oValidationSalt oKeySalt
  simp only [params56, derive56, h1, h2, h3]
  simp [hash56, hP.aes_inv]

/-- `authenticate` of the V5 handler with the owner password. -/
theorem r56_authenticate_owner (P : Prims) (hP : PrimsOK P) (r : Int) (key up op : Bytes) (s : Salts)
    (hs : Salts8 P r s) (cps : List Nat) (hn : normalizePassword P r cps = .ok op) :
    authenticate56 P (params56 r (derive56 P r key up op s)) cps = .ok key := by
  have h := r56_owner_accepts P hP r key up op s hs
  unfold authenticate56
  simp only [params56] at h ⊢
  rw [hn]
  simp only [h]

/-- The owner branch of `authenticate`, evaluated on the writer's dictionary, is exactly the test
    `H(pw, ov, U) = H(owner, ov, U)`. -/
theorem authOwner56_writer (P : Prims) (hP : PrimsOK P) (r : Int) (key up op b : Bytes) (s : Salts)
    (hs : Salts8 P r s) :
    authOwner56 P (params56 r (derive56 P r key up op s)) b =
      if passwordHash P r b s.ov (derive56 P r key up op s).1
          = passwordHash P r op s.ov (derive56 P r key up op s).1
      then some (P.aesDec (passwordHash P r b s.ok (derive56 P r key up op s).1) zeroIV
                  (derive56 P r key up op s).2.2.2)
      else none := by
  obtain ⟨h1, h2, h3⟩ := split_hash_salts
    (hash56 P r op s.ov (hash56 P r up s.uv [] ++ s.uv ++ s.uk)) s.ov s.ok (hs.hash_len _ _ _) hs.ov
  unfold authOwner56 oHash oValidationSalt oKeySalt
  simp only [hash56] at h1 h2 h3
  simp only [params56, derive56, hash56, h1, h2, h3]
  rfl

theorem authUser56_writer (P : Prims) (r : Int) (key up op b : Bytes) (s : Salts)
    (hs : Salts8 P r s) :
    authUser56 P (params56 r (derive56 P r key up op s)) b =
      if passwordHash P r b s.uv [] = passwordHash P r up s.uv []
      then some (P.aesDec (passwordHash P r b s.uk []) zeroIV (derive56 P r key up op s).2.1)
      else none := by
  obtain ⟨h1, h2, h3⟩ := split_hash_salts (hash56 P r up s.uv []) s.uv s.uk (hs.hash_len _ _ _) hs.uv
  unfold authUser56 uHash uValidationSalt uKeySalt
  simp only [hash56] at h1 h2 h3
  simp only [params56, derive56, hash56, h1, h2, h3]

/-- `authenticate` with the user password when user and owner password coincide: no assumption. -/
theorem r56_authenticate_user_same_pw (P : Prims) (hP : PrimsOK P) (r : Int) (key up : Bytes)
    (s : Salts) (hs : Salts8 P r s) (cps : List Nat) (hn : normalizePassword P r cps = .ok up) :
    authenticate56 P (params56 r (derive56 P r key up up s)) cps = .ok key :=
  r56_authenticate_owner P hP r key up up s hs cps hn

/-- `authenticate` of the V5 handler with the user password.  The code tries the owner branch
    first, so the single remaining assumption is that the *owner validation hash of this document
    does not collide between its two passwords*: `up ≠ op → H(up, ov, U) ≠ H(op, ov, U)`.
    (With `up = op` nothing is assumed; see also `r56_authenticate_user_same_pw`.) -/
theorem r56_authenticate_user_partial (P : Prims) (hP : PrimsOK P) (r : Int) (key up op : Bytes)
    (s : Salts) (hs : Salts8 P r s) (cps : List Nat) (hn : normalizePassword P r cps = .ok up)
    (hcoll : up ≠ op → passwordHash P r up s.ov (derive56 P r key up op s).1
                      ≠ passwordHash P r op s.ov (derive56 P r key up op s).1) :
    authenticate56 P (params56 r (derive56 P r key up op s)) cps = .ok key := by
  by_cases he : up = op
  · subst he; exact r56_authenticate_user_same_pw P hP r key up s hs cps hn
  · have ho := authOwner56_writer P hP r key up op up s hs
    rw [if_neg (hcoll he)] at ho
    have hu := r56_user_accepts P hP r key up op s hs
    unfold authenticate56
    simp only [params56] at ho hu ⊢
    rw [hn]
    simp only [ho, hu]

/-- **Every other password is rejected** (R5/R6, documents of a conforming writer).  `_partial`:
    the two remaining assumptions are that the wrong password's validation hashes do not collide
    with the owner's resp. the user's (SHA-256 / Algorithm 2.B collision resistance). -/
theorem r56_rejects_writer_partial (P : Prims) (hP : PrimsOK P) (r : Int) (key up op b : Bytes)
    (s : Salts) (hs : Salts8 P r s) (cps : List Nat) (hn : normalizePassword P r cps = .ok b)
    (hno : passwordHash P r b s.ov (derive56 P r key up op s).1
            ≠ passwordHash P r op s.ov (derive56 P r key up op s).1)
    (hnu : passwordHash P r b s.uv [] ≠ passwordHash P r up s.uv []) :
    authenticate56 P (params56 r (derive56 P r key up op s)) cps = .error .passwordIncorrect := by
  have ho := authOwner56_writer P hP r key up op b s hs
  rw [if_neg hno] at ho
  have hu := authUser56_writer P r key up op b s hs
  rw [if_neg hnu] at hu
  unfold authenticate56
  simp only [params56] at ho hu ⊢
  rw [hn]
  simp only [ho, hu]

/-- The `while` loop of Algorithm 2.B as coded in `_r6_password` always terminates within the
    fuel: after round 64 it stops as soon as `last byte <= round - 32`, and a byte is < 256. -/
theorem r6_fuel_suffices (P : Prims) (pw vec k : Bytes) (fuel round last : Nat)
    (hl : last < 256) (hf : round + fuel ≥ 290) (h1 : 1 ≤ fuel) :
    (r6Loop P pw vec fuel round last k).isSome = true := by
  induction fuel generalizing round last k with
  | zero => omega
  | succ n ih =>
    unfold r6Loop
    split
    · rename_i hc
      unfold r6_continue at hc
      simp only [decide_eq_true_eq] at hc
      apply ih
      · exact UInt8.toNat_lt _
      · omega
      · omega
    · simp

/-- **`_r6_password` computes ISO 32000-2 Algorithm 2.B** (8-byte salts): the `while` condition is
    regenerated from pdfdocument.py on every run (`Gen.Crypt.r6_continue`), as are the repeat count
    64 and the slices; `_bytes_mod_3` (sum of residues) equals the big-endian integer modulo 3.
    An edit of the comparison (`>` to `>=`), of a slice or of the count breaks this proof. -/
theorem r6_password_is_algorithm_2B (P : Prims) (pw salt vec : Bytes) (hs : salt.length ≤ 8) :
    passwordHash P 6 pw salt vec = alg2B P pw salt vec :=
  r6_password_is_alg2B P pw salt vec hs

/-- The hash the V5 handler computes never runs out of fuel (`R6_FUEL = 400`). -/
theorem r6_hash_defined (P : Prims) (pw vec k : Bytes) :
    (r6Loop P pw vec R6_FUEL 0 0 k).isSome = true :=
  r6_fuel_suffices P pw vec k R6_FUEL 0 0 (by decide) (by decide) (by decide)

/-! ## round trip: decrypt (encrypt x) = x -/

theorem roundtrip_rc4 (P : Prims) (key : Bytes) (objid genno : Nat) (iv d : Bytes) :
    decryptRc4 P key objid genno (encryptBytes P .rc4 key objid genno iv d) = d := by
  simp only [decryptRc4, encryptBytes, objkey_agree, rc4Core_rc4Core]

/-- AESV2: the IV is split off, CBC decryption inverts encryption, and the PKCS#7 padding is
    removed (the pinned code returned `d ++ padding`, see `C10_aes_padding_cex`). -/
theorem roundtrip_aes128 (P : Prims) (hP : PrimsOK P) (key : Bytes) (objid genno : Nat) (iv d : Bytes)
    (hk : 11 ≤ key.length) (hiv : iv.length = 16) :
    decryptAes128 P key objid genno (encryptBytes P .aes128 key objid genno iv d) = d := by
  simp only [decryptAes128, encryptBytes]
  rw [List.take_left' hiv, List.drop_left' hiv, objkey_agree_aes P key objid genno hk, hP.aes_inv,
    unpad_pad]

theorem roundtrip_aes256 (P : Prims) (hP : PrimsOK P) (key : Bytes) (objid genno : Nat) (iv d : Bytes)
    (hiv : iv.length = 16) :
    decryptAes256 P key (encryptBytes P .aes256 key objid genno iv d) = d := by
  simp only [decryptAes256, encryptBytes]
  rw [List.take_left' hiv, List.drop_left' hiv, hP.aes_inv, unpad_pad]

/-- The handler `h` deciphers with method `m` (class 1: always RC4; V4/V5: the crypt filter named
    by StrF), holds the file key, and AES comes with a 16-byte IV and a key of at least 11 bytes. -/
structure Matches (h : Handler) (m : Method) (key : Bytes) (ivOf : Bytes → Bytes) : Prop where
  key_eq : h.key = key
  method : if h.cls = 1 then m = .rc4 else lookup h.strf h.cfm = some m
  aes_key : m = .aes128 → 11 ≤ key.length
  iv_len : m = .aes128 ∨ m = .aes256 → ∀ b, (ivOf b).length = 16

/-- **Every string and every stream payload decrypts to exactly the original bytes** - for RC4
    (40-128 bit), AESV2, AESV3 and Identity, every object number and generation, every IV. -/
theorem C10_roundtrip_bytes (P : Prims) (hP : PrimsOK P) (h : Handler) (m : Method) (key : Bytes)
    (ivOf : Bytes → Bytes) (hm : Matches h m key ivOf) (objid genno : Nat) (d : Bytes)
    (isMeta : Bool) (hmeta : h.cls ≠ 1 → ¬ h.encryptMetadata → isMeta = false) :
    decrypt P h objid genno isMeta (encryptBytes P m key objid genno (ivOf d) d) = d := by
  obtain ⟨hkey, hmeth, hak, hiv⟩ := hm
  unfold decrypt
  by_cases hc : h.cls = 1
  · rw [if_pos hc] at hmeth
    rw [if_pos hc, hmeth, hkey]
    exact roundtrip_rc4 P key objid genno _ d
  · rw [if_neg hc] at hmeth
    rw [if_neg hc]
    have hno : ¬ (¬ h.encryptMetadata = true ∧ isMeta = true) := by
      intro ⟨h1, h2⟩
      have := hmeta hc h1
      rw [this] at h2
      exact Bool.noConfusion h2
    rw [if_neg hno, hmeth]
    cases m with
    | rc4 => simp only [applyMethod, hkey]; exact roundtrip_rc4 P key objid genno _ d
    | aes128 =>
      simp only [applyMethod, hkey]
      exact roundtrip_aes128 P hP key objid genno _ d (hak rfl) (hiv (Or.inl rfl) d)
    | aes256 =>
      simp only [applyMethod, hkey]
      exact roundtrip_aes256 P hP key objid genno _ d (hiv (Or.inr rfl) d)
    | identity => simp only [applyMethod, encryptBytes]

/-- **Whole objects**: `getobj` of an indirect object whose strings (also those inside a stream
    dictionary) and stream payload were encrypted by the writer returns the original object.
    A Metadata stream is left alone by both sides when EncryptMetadata is false; a
    cross-reference stream is never touched. -/
theorem C10_roundtrip (P : Prims) (hP : PrimsOK P) (h : Handler) (m : Method) (key : Bytes)
    (ivOf : Bytes → Bytes) (hm : Matches h m key ivOf) (objid genno : Nat) (o : Obj)
    (hne : m ≠ .identity → ∀ b, encryptBytes P m key objid genno (ivOf b) b = [] → b = []) :
    getobj P h .direct objid genno
      (encryptAll (fun b => encryptBytes P m key objid genno (ivOf b) b)
        (fun attrs => h.cls ≠ 1 ∧ ¬ h.encryptMetadata ∧ attrsType attrs = some atomMetadata) o) = o := by
  unfold getobj
  apply decipher_encrypt_obj
  · intro b
    exact C10_roundtrip_bytes P hP h m key ivOf hm objid genno b false (fun _ _ => rfl)
  · intro b hb
    by_cases hid : m = .identity
    · subst hid; simpa [encryptBytes] using hb
    · exact hne hid b hb
  · intro attrs raw
    by_cases hs : h.cls ≠ 1 ∧ ¬ h.encryptMetadata ∧ attrsType attrs = some atomMetadata
    · simp only [hs, decide_true, and_self, if_true, ne_eq, not_false_eq_true]
      obtain ⟨h1, h2, h3⟩ := hs
      unfold decrypt
      simp [h1, h2]
    · have hd : decide (h.cls ≠ 1 ∧ ¬ h.encryptMetadata ∧ attrsType attrs = some atomMetadata) = false := by
        simpa using hs
      rw [hd]
      simp only [Bool.false_eq_true, if_false]
      apply C10_roundtrip_bytes P hP h m key ivOf hm objid genno raw
      intro hc hem
      by_cases ht : attrsType attrs = some atomMetadata
      · exact absurd ⟨hc, hem, ht⟩ hs
      · simpa using ht

/-! ## decryption is applied exactly where the standard says -/

/-- Members of object streams, the trailer / cross-reference stream dictionary and the Encrypt
    dictionary are returned as stored: never deciphered (a second time). -/
theorem once_only_not_elsewhere (P : Prims) (h : Handler) (loc : Loc) (objid genno : Nat) (o : Obj)
    (hl : loc ≠ .direct) : getobj P h loc objid genno o = o := by
  cases loc <;> first | exact absurd rfl hl | rfl

/-- A cross-reference stream is exempt even when it is read as an ordinary indirect object. -/
theorem once_only_xref (P : Prims) (h : Handler) (objid genno : Nat) (attrs : List (Bytes × Obj))
    (raw : Bytes) (hx : attrsType attrs = some atomXRef) :
    getobj P h .direct objid genno (.stream attrs raw) = .stream attrs raw := by
  simp [getobj, decipherAll, hx]

/-- Each string of a direct object goes through the cipher exactly once: `getobj` is the
    string-wise map of `decrypt` (empty strings skipped), so deciphering the result again is a
    different function - in particular the result of `getobj` for a string `s` is `decrypt s`,
    not `decrypt (decrypt s)`. -/
theorem once_only_string (P : Prims) (h : Handler) (objid genno : Nat) (b : Bytes) (hb : b ≠ []) :
    getobj P h .direct objid genno (.str b) = .str (decrypt P h objid genno false b) := by
  cases b with
  | nil => exact absurd rfl hb
  | cons x xs => simp [getobj, decipherAll]

/-- **Deciphered exactly once, as a trace**: a first `getobj` of a direct object (any nesting
    depth of arrays / dictionaries, strings inside a stream dictionary, the stream payload) makes
    exactly the cipher calls `expectedCalls o` - each non-empty string once, the payload once,
    nothing for a cross-reference stream - and returns the pure model's result. -/
theorem once_only_trace (P : Prims) (h : Handler) (caching : Bool) (objid genno : Nat) (o : Obj) :
    (getobjSt P h caching {} .direct objid genno o).1 = getobj P h .direct objid genno o ∧
    (getobjSt P h caching {} .direct objid genno o).2.2 = expectedCalls o := by
  simp [getobjSt, cacheLookup, getobj, decipherAllT_spec]

/-- Members of object streams, the trailer and the Encrypt dictionary: zero cipher calls. -/
theorem once_only_trace_elsewhere (P : Prims) (h : Handler) (caching : Bool) (st : DocState) (loc : Loc)
    (objid genno : Nat) (o : Obj) (hl : loc ≠ .direct) (hc : cacheLookup objid st.cache = none) :
    (getobjSt P h caching st loc objid genno o).1 = o ∧
    (getobjSt P h caching st loc objid genno o).2.2 = [] := by
  cases loc <;> first | exact absurd rfl hl | simp [getobjSt, hc]

/-- State carried across calls: with the cache on, a second `getobj` of the same object returns
    the same object and makes **no** cipher call (the cached object is not deciphered again). -/
theorem once_only_second_read_cached (P : Prims) (h : Handler) (loc : Loc) (objid genno : Nat) (o : Obj) :
    let r1 := getobjSt P h true {} loc objid genno o
    let r2 := getobjSt P h true r1.2.1 loc objid genno o
    r2.1 = r1.1 ∧ r2.2.2 = [] ∧ r2.2.1.cache = r1.2.1.cache := by
  simp [getobjSt, cacheLookup]

/-- With the cache off the object is parsed again from the stored bytes and deciphered afresh:
    same result, same calls - never a decryption of an already decrypted object. -/
theorem once_only_second_read_uncached (P : Prims) (h : Handler) (loc : Loc) (objid genno : Nat) (o : Obj) :
    let r1 := getobjSt P h false {} loc objid genno o
    let r2 := getobjSt P h false r1.2.1 loc objid genno o
    r2 = r1 := by
  simp [getobjSt, cacheLookup]

/-- Non-vacuity of the trace statement: a dictionary holding an array holding a dictionary, an
    empty string, and a stream with a string in its dictionary - four calls, in traversal order. -/
example :
    expectedCalls (.dict [([65], .arr [.str [1], .dict [([66], .str [2, 3])], .str []]),
                          ([67], .stream [([68], .str [4])] [9, 9])])
      = [.str [1], .str [2, 3], .str [4], .payload false [9, 9]] := by decide

/-- Encrypting a non-empty string never yields the empty string (so the reader's "skip empty
    strings" shortcut cannot hit an encrypted string). -/
theorem encryptBytes_ne_nil (P : Prims) (m : Method) (key : Bytes) (objid genno : Nat) (iv b : Bytes)
    (hm : m ≠ .identity) (hiv : iv.length = 16)
    (h : encryptBytes P m key objid genno iv b = []) : b = [] := by
  cases m with
  | identity => exact absurd rfl hm
  | rc4 =>
    have := congrArg List.length h
    simp only [encryptBytes, rc4Core_length, List.length_nil] at this
    exact List.eq_nil_of_length_eq_zero this
  | aes128 =>
    have := congrArg List.length h
    simp [encryptBytes, hiv] at this
  | aes256 =>
    have := congrArg List.length h
    simp [encryptBytes, hiv] at this

/-! ### call-order independence: strings at `getobj`, payload at `get_data()` -/

/-- `getobj` followed by `get_data()` is the one-step model `getobj`: for every whole indirect
    object (no stream nested inside another object). -/
theorem getobj_two_phase (P : Prims) (h : Handler) (objid genno : Nat) (o : Obj)
    (hw : wellFormed o = true) :
    getData P h objid genno (getobjLazy P h .direct objid genno o) = getobj P h .direct objid genno o := by
  cases o with
  | str b => by_cases hb : b.isEmpty <;> simp [getobjLazy, getobj, decipherAll, getData, hb]
  | atom a => rfl
  | arr xs =>
    simp only [wellFormed] at hw
    simp only [getobjLazy, getobj]
    rw [decipher_flat _ _ (decrypt P h objid genno) (.arr xs) hw]
    simp [decipherAll, getData]
  | dict kvs =>
    simp only [wellFormed] at hw
    simp only [getobjLazy, getobj]
    rw [decipher_flat _ _ (decrypt P h objid genno) (.dict kvs) hw]
    simp [decipherAll, getData]
  | stream attrs raw =>
    simp only [wellFormed] at hw
    simp only [getobjLazy, getobj, decipherAll]
    by_cases hx : attrsType attrs = some atomXRef
    · simp [hx, getData]
    · simp only [hx, if_false, getData, attrsType_decipherKVs]
      rw [decipher_flat_kvs _ _ (decrypt P h objid genno) attrs hw]

/-- **The strings of a stream dictionary are plaintext as soon as `getobj` returns** - before, and
    independently of, any `get_data()`: what `getobj` hands out for an encrypted stream object is
    the original dictionary with the payload still as stored. -/
theorem C10_stream_dict_before_decode (P : Prims) (hP : PrimsOK P) (h : Handler) (m : Method) (key : Bytes)
    (ivOf : Bytes → Bytes) (hm : Matches h m key ivOf) (hiv : ∀ b, (ivOf b).length = 16)
    (objid genno : Nat) (attrs : List (Bytes × Obj)) (raw : Bytes)
    (hflat : flatKVs attrs = true) (hx : attrsType attrs ≠ some atomXRef)
    (skip : List (Bytes × Obj) → Bool) :
    ∃ stored, getobjLazy P h .direct objid genno
      (encryptAll (fun b => encryptBytes P m key objid genno (ivOf b) b) skip (.stream attrs raw))
      = .stream attrs stored := by
  refine ⟨if skip attrs then raw else encryptBytes P m key objid genno (ivOf raw) raw, ?_⟩
  simp only [getobjLazy, encryptAll, hx, if_false, decipherAll, attrsType_encryptKVs]
  have hk := decipher_encrypt_kvs (decrypt P h objid genno false) (fun _ r => r)
    (fun b => encryptBytes P m key objid genno (ivOf b) b) (fun _ => true)
    (fun b => C10_roundtrip_bytes P hP h m key ivOf hm objid genno b false (fun _ _ => rfl))
    (by
      intro b hb
      by_cases hid : m = .identity
      · subst hid; simpa [encryptBytes] using hb
      · exact encryptBytes_ne_nil P m key objid genno (ivOf b) b hid (hiv b) hb)
    (by intro a r; simp) attrs
  -- the dictionary is flat, so how nested payloads would be treated is irrelevant on both sides
  have hflat' : ∀ sk, encryptKVs (fun b => encryptBytes P m key objid genno (ivOf b) b) sk attrs
      = encryptKVs (fun b => encryptBytes P m key objid genno (ivOf b) b) (fun _ => true) attrs := by
    intro sk
    exact encrypt_flat_kvs _ sk (fun _ => true) attrs hflat
  rw [hflat' skip, hk]

/-- Which calls happen when: `getobj` makes the string calls, `get_data()` the payload call, and
    together they are exactly `expectedCalls` (as multisets: `filter p ++ filter (not p)`). -/
theorem once_only_phases (o : Obj) :
    (lazyCalls o).length + (dataCalls o).length = (expectedCalls o).length ∧
    (∀ c ∈ lazyCalls o, c.isStr = true) ∧ (∀ c ∈ dataCalls o, c.isStr = false) := by
  refine ⟨?_, ?_, ?_⟩
  · unfold lazyCalls dataCalls
    induction expectedCalls o with
    | nil => rfl
    | cons c cs ih => cases hc : c.isStr <;> simp [List.filter, hc] <;> omega
  · intro c hc; simp [lazyCalls] at hc; exact hc.2
  · intro c hc; simp [dataCalls] at hc; exact hc.2

/-! ## permissions -/

/-- print / modify / extract are bits 3 / 4 / 5 of P (values 4, 8, 16) of the stored value. -/
theorem perms_bits (h : Handler) :
    isPrintable h = (h.p / 4 % 2 == 1) ∧ isModifiable h = (h.p / 8 % 2 == 1) ∧
    isExtractable h = (h.p / 16 % 2 == 1) := by
  have key : ∀ (p k : Nat), (p &&& 2 ^ k != 0) = (p / 2 ^ k % 2 == 1) := by
    intro p k
    have h1 : (p &&& 2 ^ k) / 2 ^ k = p / 2 ^ k % 2 := by
      rw [Nat.and_div_two_pow, Nat.div_self (Nat.two_pow_pos k), Nat.and_one_is_mod]
    have h2 : (p &&& 2 ^ k) % 2 ^ k = 0 := by
      rw [Nat.and_mod_two_pow, Nat.mod_self, Nat.and_zero]
    have h3 := Nat.div_add_mod (p &&& 2 ^ k) (2 ^ k)
    rw [h1, h2] at h3
    have hpos := Nat.two_pow_pos k
    rw [← h3]
    have hm : p / 2 ^ k % 2 = 0 ∨ p / 2 ^ k % 2 = 1 := by omega
    rcases hm with hm | hm <;> simp [hm] <;> omega
  exact ⟨key h.p 2, key h.p 3, key h.p 4⟩

/-- ... and the stored unsigned value has the same low bits as the signed P of the dictionary. -/
theorem perms_of_signed_P (p : Int) :
    (uintValue32 p) % 32 = (p % 32).toNat := by
  unfold uintValue32; split <;> omega

/-! ## wrong passwords -/

/-- Rejection (revisions 2-4) for an arbitrary Encrypt dictionary: if neither the password itself
    nor what Algorithm 7 recovers from O with it passes the U check, it is rejected.  (Generic
    form; `C10_rejects_writer_partial` instantiates it for documents of a conforming writer.) -/
theorem C10_rejects_generic (P : Prims) (prm : Params) (length p : Nat) (cps : List Nat)
    (hk : keyBytes prm.r length ≠ 0)
    (hu : ∀ b, encodeLatin1 cps = some b → authUser P prm length p b = none)
    (ho : ∀ b, encodeLatin1 cps = some b → authUser P prm length p (recoverUser P prm length b) = none) :
    authenticate234 P prm length p cps = .error .passwordIncorrect := by
  unfold authenticate234
  cases henc : encodeLatin1 cps with
  | none => rfl
  | some b =>
    simp only [hk, if_false, hu b henc, authOwner, ho b henc]

theorem pad32_of_length (x : Bytes) (h : x.length = 32) : pad32 x = x := by
  unfold pad32
  rw [List.take_append_of_le_length (by omega), List.take_of_length_le (by omega)]

theorem alg3O_length (P : Prims) (c : Cfg) (po pu : Bytes) : (alg3O P c po pu).length = pu.length := by
  unfold alg3O
  simp only
  split
  · have := rc4Layers_length ((iter P.md5 50 (P.md5 po)).take (keyLen c)) (List.range' 1 19)
      (rc4Core ((iter P.md5 50 (P.md5 po)).take (keyLen c)) pu)
    simp only [rc4Layers] at this
    rw [this, rc4Core_length]
  · rw [rc4Core_length]

theorem recoverUser_length (P : Prims) (prm : Params) (length : Nat) (q : Bytes) :
    (recoverUser P prm length q).length = prm.o.length := by
  unfold recoverUser
  simp only
  split
  · rw [rc4Core_length]
  · rw [rc4Layers_length]

/-- **Every other password is rejected** (revisions 2-4, documents of a conforming writer).
    `_partial`: exactly two cryptographic assumptions remain, both about MD5/RC4 as used here:
    (H1) second-preimage resistance of the U check - no 32-byte padded password other than the
         user's produces a key that passes Algorithm 6;
    (H2) no password other than the owner's produces an RC4 key that decrypts O to the padded user
         password.
    Everything else (padding, Algorithm 2, the 20 layers, lengths, the Latin-1 step) is proved. -/
theorem C10_rejects_writer_partial (P : Prims) (c : Cfg) (v : Int)
    (userPw ownerPw tail : Bytes) (cps : List Nat)
    (hr : c.r = 2 ∨ c.r = 3 ∨ c.r = 4)
    (hl : 8 ≤ c.length)
    (H1 : ∀ q : Bytes, verifyKey P (params234 c v (derive234 P c (pad32 userPw) (pad32 ownerPw) tail).1
              (derive234 P c (pad32 userPw) (pad32 ownerPw) tail).2.1)
            (alg2Key P c (pad32 q) (derive234 P c (pad32 userPw) (pad32 ownerPw) tail).1) = true →
          pad32 q = pad32 userPw)
    (H2 : ∀ q : Bytes, recoverUser P (params234 c v (derive234 P c (pad32 userPw) (pad32 ownerPw) tail).1
              (derive234 P c (pad32 userPw) (pad32 ownerPw) tail).2.1) c.length q = pad32 userPw →
          pad32 q = pad32 ownerPw)
    (hw : ∀ b, encodeLatin1 cps = some b → pad32 b ≠ pad32 userPw ∧ pad32 b ≠ pad32 ownerPw) :
    authenticate234 P (params234 c v (derive234 P c (pad32 userPw) (pad32 ownerPw) tail).1
        (derive234 P c (pad32 userPw) (pad32 ownerPw) tail).2.1) c.length (uintValue32 c.p) cps
      = .error .passwordIncorrect := by
  have hnone : ∀ q : Bytes, pad32 q ≠ pad32 userPw →
      authUser P (params234 c v (derive234 P c (pad32 userPw) (pad32 ownerPw) tail).1
        (derive234 P c (pad32 userPw) (pad32 ownerPw) tail).2.1) c.length (uintValue32 c.p) q = none := by
    intro q hq
    unfold authUser
    simp only
    rw [computeKey_is_alg2 P c v _ _ q hr]
    split
    · rename_i hv; exact absurd (H1 q hv) hq
    · rfl
  apply C10_rejects_generic
  · unfold keyBytes BITS_PER_KEY_BYTE KEY_BYTES_R2
    split <;> omega
  · intro b hb; exact hnone b (hw b hb).1
  · intro b hb
    apply hnone
    intro hq
    have hlen : (recoverUser P (params234 c v (derive234 P c (pad32 userPw) (pad32 ownerPw) tail).1
        (derive234 P c (pad32 userPw) (pad32 ownerPw) tail).2.1) c.length b).length = 32 := by
      rw [recoverUser_length]
      show (alg3O P c (pad32 ownerPw) (pad32 userPw)).length = 32
      rw [alg3O_length, pad32_length]
    rw [pad32_of_length _ hlen] at hq
    exact (hw b hb).2 (H2 b hq)

/-- A password that has no Latin-1 form is rejected outright (repaired behaviour; the pinned code
    raised UnicodeEncodeError). -/
theorem rejects_non_latin1 (P : Prims) (prm : Params) (length p : Nat) (cps : List Nat)
    (h : encodeLatin1 cps = none) :
    authenticate234 P prm length p cps = .error .passwordIncorrect := by
  simp [authenticate234, h]

/-- R5/R6: a password whose hashes match neither the O nor the U validation hash is rejected;
    a password SASLprep refuses is rejected as incorrect. -/
theorem r56_rejects_partial (P : Prims) (prm : Params) (cps : List Nat) (b : Bytes)
    (hn : normalizePassword P prm.r cps = .ok b)
    (ho : passwordHash P prm.r b (oValidationSalt prm) prm.u ≠ oHash prm)
    (hu : passwordHash P prm.r b (uValidationSalt prm) [] ≠ uHash prm) :
    authenticate56 P prm cps = .error .passwordIncorrect := by
  simp [authenticate56, hn, authOwner56, authUser56, ho, hu]

theorem r6_rejects_saslprep_refused (P : Prims) (prm : Params) (cps : List Nat)
    (hr : prm.r = 6) (hne : cps ≠ []) (hs : saslprepModel P.sasl cps = none) :
    authenticate56 P prm cps = .error .passwordIncorrect := by
  cases cps with
  | nil => exact absurd rfl hne
  | cons c cs => simp [authenticate56, normalizePassword, hr, hs]

/-! ## SASLprep (revision 6 password preparation) -/

/-- RFC 4013 as written: map (C.1.2 -> SPACE, B.1 -> nothing), NFKC, then reject prohibited output
    and unassigned code points, and apply RFC 3454 section 6: if the string contains any RandALCat
    character it must contain no LCat character and must begin and end with a RandALCat character. -/
def saslprepSpec (T : SaslTables) (data : List Nat) : Option (List Nat) :=
  let norm := T.nfkc ((data.filter (fun c => ! T.b1 c)).map (fun c => if T.c12 c then 32 else c))
  if norm.any T.prohibited then none
  else if norm.any T.d1 then
    if norm.any T.d2 then none
    else match norm.head?, norm.getLast? with
      | some a, some b => if T.d1 a && T.d1 b then some norm else none
      | _, _ => none
  else some norm

/-- The tables `_saslprep.py` consults are exactly those of RFC 4013 section 2.3 (+ A.1 for stored
    strings), and C.1.2 characters are mapped to U+0020 - regenerated from the source on every run. -/
theorem sasl_tables_are_rfc4013 :
    SASL_PROHIBITED_TABLES = ["c12", "c21_c22", "c3", "c4", "c5", "c6", "c7", "c8", "c9"] ∧
    SASL_BODY_TABLES = ["c12", "b1", "d1", "a1", "d2"] ∧ SASL_SPACE = 32 := by decide

theorem any_or (l : List Nat) (p q : Nat → Bool) :
    l.any (fun c => p c || q c) = (l.any p || l.any q) := by
  induction l with
  | nil => rfl
  | cons a t ih => simp only [List.any_cons, ih]; cases p a <;> cases q a <;> simp

theorem any_of_head (l : List Nat) (p : Nat → Bool) (a : Nat) (h : l.head? = some a) (hp : p a = true) :
    l.any p = true := by
  cases l with
  | nil => simp at h
  | cons x t => simp at h; subst h; simp [hp]

theorem any_of_last (l : List Nat) (p : Nat → Bool) (a : Nat) (h : l.getLast? = some a) (hp : p a = true) :
    l.any p = true := by
  have hm : a ∈ l := List.mem_of_getLast? h
  exact List.any_eq_true.mpr ⟨a, hm, hp⟩

/-- **The control flow of `_saslprep.saslprep` implements RFC 4013** for every table content: the
    code's bidi logic ("first character RandALCat => last must be, and no LCat; otherwise no
    RandALCat anywhere") is equivalent to RFC 3454 section 6.  What stays trusted is the content of
    the `stringprep` tables and Unicode 3.2 NFKC. -/
theorem saslprep_model_eq_spec (T : SaslTables) (data : List Nat) :
    saslprepModel T data = saslprepSpec T data := by
  unfold saslprepModel saslprepSpec
  simp only [show SASL_SPACE = 32 from rfl]
  generalize T.nfkc _ = norm
  cases hh : norm.head? with
  | none =>
    have : norm = [] := by cases norm <;> simp_all
    subst this; simp
  | some first =>
    cases hl : norm.getLast? with
    | none =>
      have : norm = [] := by cases norm <;> simp_all
      subst this; simp at hh
    | some last =>
      simp only [any_or]
      by_cases hp : norm.any T.prohibited = true
      · simp [hp]
      · have hp' : norm.any T.prohibited = false := by simpa using hp
        simp only [hp', Bool.false_or, Bool.false_eq_true, if_false]
        by_cases h1 : T.d1 first = true
        · have hany : norm.any T.d1 = true := any_of_head norm T.d1 first hh h1
          simp only [h1, hany, if_true]
          by_cases h2 : T.d1 last = true
          · simp [h2]
          · have h2' : T.d1 last = false := by simpa using h2
            simp [h2']
        · have h1' : T.d1 first = false := by simpa using h1
          simp only [h1', Bool.false_eq_true, if_false]
          by_cases hany : norm.any T.d1 = true
          · simp [hany]
          · have hany' : norm.any T.d1 = false := by simpa using hany
            simp [hany']

/-- Non-vacuity: an Arabic letter followed by a Latin one is refused, two Arabic letters pass
    (toy tables: 0x627/0x628 are RandALCat, 0x61 is LCat). -/
example :
    let T : SaslTables := { c12 := fun _ => false, b1 := fun c => c == 0xAD, prohibited := fun c => c == 7,
                            d1 := fun c => c == 0x627 || c == 0x628, d2 := fun c => c == 0x61, nfkc := id }
    saslprepModel T [0x627, 0x61] = none ∧ saslprepModel T [0x627, 0xAD, 0x628] = some [0x627, 0x628] ∧
    saslprepModel T [0xAD] = some [] ∧ saslprepModel T [0x61, 7] = none := by decide

/-! ## end to end: handler selection + authentication + round trip + permissions -/

/-- CFM name a writer stores for a method. -/
def cfmName : Method → Bytes
  | .rc4 => nameV2
  | .aes128 => nameAESV2
  | .aes256 => nameAESV3
  | .identity => []

/-- Encrypt dictionary of a V4/V5 document: the entries of `base` plus one crypt filter `cfName`
    with method `m` named by StmF and StrF (for Identity: no CF entry, StmF = StrF = /Identity). -/
def withCryptFilter (base : Params) (cfName : Bytes) (m : Method) : Params :=
  { base with
    cf := if m = .identity then [] else [(cfName, cfmName m)]
    stmf := if m = .identity then nameIdentity else cfName
    strf := if m = .identity then nameIdentity else cfName }

/-- All configurations of the property's quantifier. -/
inductive Config where
  /-- V 1 or 2, revision 2 or 3, RC4 with `Length` 40..128 -/
  | base (v : Int) (c : Cfg)
  /-- V 4, revision 4, crypt filter `cfName` with V2 (RC4-128), AESV2 or Identity -/
  | v4 (c : Cfg) (cfName : Bytes) (m : Method)
  /-- V 5, revision 5 or 6, crypt filter `cfName` with AESV3 -/
  | v5 (r : Int) (p : Int) (cfName : Bytes) (encryptMetadata : Bool)

structure Passwords where
  userCps : List Nat       -- the password as typed (code points)
  user : Bytes             -- its key-derivation form (Latin-1 bytes / normalised UTF-8)
  owner : Bytes

/-- Random material of the writer. -/
structure Rand where
  tail : Bytes             -- 16 arbitrary bytes of U (R3/R4)
  fileKey : Bytes          -- R5/R6 file key
  salts : Salts

def Config.valid (P : Prims) : Config → Passwords → Rand → Prop
  | .base v c, pw, _ =>
    (v = 1 ∨ v = 2) ∧ (c.r = 2 ∨ c.r = 3) ∧ 8 ≤ c.length ∧
    encodeLatin1 pw.userCps = some pw.user
  | .v4 c cfName m, pw, _ =>
    c.r = 4 ∧ c.length = 128 ∧
    (m = .rc4 ∨ m = .aes128 ∨ m = .identity) ∧ cfName ≠ nameIdentity ∧
    encodeLatin1 pw.userCps = some pw.user
  | .v5 r _ cfName _, pw, rnd =>
    (r = 5 ∨ r = 6) ∧ cfName ≠ nameIdentity ∧ Salts8 P r rnd.salts ∧
    normalizePassword P r pw.userCps = .ok pw.user ∧
    (pw.user ≠ pw.owner → passwordHash P r pw.user rnd.salts.ov (derive56 P r rnd.fileKey pw.user pw.owner rnd.salts).1
        ≠ passwordHash P r pw.owner rnd.salts.ov (derive56 P r rnd.fileKey pw.user pw.owner rnd.salts).1)

/-- The Encrypt dictionary (as `init_params` reads it) that a conforming writer stores. -/
def Config.encryptDict (P : Prims) : Config → Passwords → Rand → Params
  | .base v c, pw, rnd =>
    params234 c v (derive234 P c (pad32 pw.user) (pad32 pw.owner) rnd.tail).1
      (derive234 P c (pad32 pw.user) (pad32 pw.owner) rnd.tail).2.1
  | .v4 c cfName m, pw, rnd =>
    withCryptFilter (params234 c 4 (derive234 P c (pad32 pw.user) (pad32 pw.owner) rnd.tail).1
      (derive234 P c (pad32 pw.user) (pad32 pw.owner) rnd.tail).2.1) cfName m
  | .v5 r p cfName em, pw, rnd =>
    withCryptFilter { params56 r (derive56 P r rnd.fileKey pw.user pw.owner rnd.salts) with
                      p := p, encryptMetadata := em } cfName .aes256

def Config.fileKey (P : Prims) : Config → Passwords → Rand → Bytes
  | .base _ c, pw, rnd => (derive234 P c (pad32 pw.user) (pad32 pw.owner) rnd.tail).2.2
  | .v4 c _ _, pw, rnd => (derive234 P c (pad32 pw.user) (pad32 pw.owner) rnd.tail).2.2
  | .v5 _ _ _ _, _, rnd => rnd.fileKey

def Config.method : Config → Method
  | .base _ _ => .rc4
  | .v4 _ _ m => m
  | .v5 _ _ _ _ => .aes256

def Config.P : Config → Int
  | .base _ c => c.p
  | .v4 c _ _ => c.p
  | .v5 _ p _ _ => p

theorem lookup_cfm (cfName : Bytes) (m : Method) (h : cfName ≠ nameIdentity) :
    lookup cfName ([(cfName, m)].filter (fun km => km.1 ≠ nameIdentity) ++ [(nameIdentity, Method.identity)])
      = some m := by
  simp [lookup, h]

/-- **Opening with the user password** selects the right handler class and recovers the file key,
    for every configuration. -/
theorem C10_open (P : Prims) (hP : PrimsOK P) (cfg : Config) (pw : Passwords) (rnd : Rand)
    (hv : cfg.valid P pw rnd) :
    ∃ h, openHandler P (cfg.encryptDict P pw rnd) pw.userCps = .ok h ∧
         h.key = cfg.fileKey P pw rnd ∧ h.p = uintValue32 cfg.P ∧
         (if h.cls = 1 then cfg.method = .rc4 else lookup h.strf h.cfm = some cfg.method) := by
  cases cfg with
  | base v c =>
    obtain ⟨hv', hr, hl, henc⟩ := hv
    have hr' : c.r = 2 ∨ c.r = 3 ∨ c.r = 4 := by rcases hr with h | h <;> simp [h]
    have ha := authenticate_user_accepts P hP c v pw.userCps pw.user pw.owner rnd.tail hr' hl henc
    refine ⟨{ cls := 1, r := c.r, p := uintValue32 c.p, length := c.length,
              key := (derive234 P c (pad32 pw.user) (pad32 pw.owner) rnd.tail).2.2 }, ?_, rfl, rfl, ?_⟩
    · unfold openHandler
      simp only [Config.encryptDict, params234] at ha ⊢
      rcases hv' with h1 | h1 <;> rcases hr with h2 | h2 <;>
        simp [h1, h2, HANDLER_REGISTRY, openHandler.lookup', SUPPORTED_REVISIONS_BASE] at ha ⊢ <;>
        simp [ha]
    · simp [Config.method]
  | v4 c cfName m =>
    obtain ⟨hr, hl, hm, hcf, henc⟩ := hv
    have hr' : c.r = 2 ∨ c.r = 3 ∨ c.r = 4 := Or.inr (Or.inr hr)
    have ha := authenticate_user_accepts P hP c 4 pw.userCps pw.user pw.owner rnd.tail hr'
      (by omega) henc
    rw [hl] at ha
    refine ⟨{ cls := 4, r := 4, p := uintValue32 c.p, length := 128,
              key := (derive234 P c (pad32 pw.user) (pad32 pw.owner) rnd.tail).2.2,
              cfm := (if m = .identity then [] else [(cfName, m)]).filter (fun km => km.1 ≠ nameIdentity)
                       ++ [(nameIdentity, Method.identity)],
              strf := if m = .identity then nameIdentity else cfName,
              encryptMetadata := c.encryptMetadata }, ?_, rfl, rfl, ?_⟩
    · have ha' : authenticate234 P (withCryptFilter (params234 c 4
            (derive234 P c (pad32 pw.user) (pad32 pw.owner) rnd.tail).1
            (derive234 P c (pad32 pw.user) (pad32 pw.owner) rnd.tail).2.1) cfName m) 128
          (uintValue32 c.p) pw.userCps
          = .ok (derive234 P c (pad32 pw.user) (pad32 pw.owner) rnd.tail).2.2 := ha
      unfold openHandler
      simp only [Config.encryptDict] at ha' ⊢
      rcases hm with h | h | h <;> subst h <;>
        simp [withCryptFilter, params234, hr, HANDLER_REGISTRY, openHandler.lookup', SUPPORTED_REVISIONS_V4,
          buildCfm, getCfm_eq, FORCED_LENGTH_V4, cfmName, lookup, hcf, nameV2, nameAESV2] at ha' ⊢ <;>
        simp [ha', hcf, lookup]
    · rcases hm with h | h | h <;> subst h <;> simp [Config.method, lookup, hcf]
  | v5 r p cfName em =>
    obtain ⟨hr, hcf, hs, hn, hcoll⟩ := hv
    have ha := r56_authenticate_user_partial P hP r rnd.fileKey pw.user pw.owner rnd.salts hs pw.userCps hn hcoll
    refine ⟨{ cls := 5, r := r, p := uintValue32 p, length := 256, key := rnd.fileKey,
              cfm := [(cfName, Method.aes256)].filter (fun km => km.1 ≠ nameIdentity)
                       ++ [(nameIdentity, Method.identity)],
              strf := cfName, encryptMetadata := em }, ?_, rfl, rfl, ?_⟩
    · have ha' : authenticate56 P
          (withCryptFilter { params56 r (derive56 P r rnd.fileKey pw.user pw.owner rnd.salts) with
                      p := p, encryptMetadata := em } cfName .aes256) pw.userCps = .ok rnd.fileKey := ha
      unfold openHandler
      simp only [Config.encryptDict] at ha' ⊢
      rcases hr with h | h <;> subst h <;>
        simp [withCryptFilter, params56, HANDLER_REGISTRY, openHandler.lookup', SUPPORTED_REVISIONS_V5,
          buildCfm, getCfm_eq, FORCED_LENGTH_V5, cfmName, lookup, hcf, nameAESV3] at ha' ⊢ <;>
        simp [ha', hcf, lookup]
    · simp [Config.method, lookup, hcf]

/-- **Reachable AES-128 key lengths** (remark on `min(len(key)+9, 16)` in `decrypt_aes128`): every
    V4 document has a 16-byte file key, because `init_params` forces `length = 128`; the deviation
    from Algorithm 1 (`min(n+5, 16)`) concerns keys shorter than 11 bytes only, which the V4 handler
    can never hold. -/
theorem v4_file_key_length (P : Prims) (hP : PrimsOK P) (c : Cfg) (pu o : Bytes)
    (hr : c.r = 4) (hl : c.length = 128) : (alg2Key P c pu o).length = 16 := by
  rw [alg2Key_length P hP.md5_len c pu o (by omega)]
  unfold keyLen
  simp [hr, hl]

/-- **C10, main statement (user password).**  For every configuration of the property's
    quantifier - V1/V2 RC4 with any key length, V4 with RC4 / AESV2 / Identity, V5 revisions 5 and 6
    with AESV3; any P, ID, EncryptMetadata, crypt-filter name, passwords, IVs - opening the
    document a conforming writer produced with the user password
      * succeeds, with the handler class of the registry and the writer's file key,
      * reports print / modify / extract as bits 3 / 4 / 5 of the stored P,
      * and `getobj` returns every direct object exactly as it was before encryption (strings at
        any depth, stream dictionaries, payloads; Metadata rule; XRef exemption).
    Assumptions: `PrimsOK` (MD5 digests are 16 bytes, AES-CBC decrypt inverts encrypt) and, for
    V5 only, the no-collision clause inside `Config.valid`. -/
theorem C10_main (P : Prims) (hP : PrimsOK P) (cfg : Config) (pw : Passwords) (rnd : Rand)
    (hv : cfg.valid P pw rnd) (ivOf : Bytes → Bytes) (hiv : ∀ b, (ivOf b).length = 16) :
    ∃ h, openHandler P (cfg.encryptDict P pw rnd) pw.userCps = .ok h ∧
      (isPrintable h = (uintValue32 cfg.P / 4 % 2 == 1) ∧
       isModifiable h = (uintValue32 cfg.P / 8 % 2 == 1) ∧
       isExtractable h = (uintValue32 cfg.P / 16 % 2 == 1)) ∧
      ∀ (objid genno : Nat) (o : Obj),
        getobj P h .direct objid genno
          (encryptAll (fun b => encryptBytes P cfg.method (cfg.fileKey P pw rnd) objid genno (ivOf b) b)
            (fun attrs => h.cls ≠ 1 ∧ ¬ h.encryptMetadata ∧ attrsType attrs = some atomMetadata) o) = o := by
  obtain ⟨h, hopen, hkey, hp, hmeth⟩ := C10_open P hP cfg pw rnd hv
  refine ⟨h, hopen, ?_, ?_⟩
  · have := perms_bits h
    rw [hp] at this
    exact this
  · intro objid genno o
    have hm : Matches h cfg.method (cfg.fileKey P pw rnd) ivOf := by
      refine ⟨hkey, hmeth, ?_, fun _ => hiv⟩
      intro haes
      cases cfg with
      | base v c => simp [Config.method] at haes
      | v5 r p n e => simp [Config.method] at haes
      | v4 c cfName m =>
        obtain ⟨hr, hl, _⟩ := hv
        simp only [Config.fileKey]
        show 11 ≤ (alg2Key P c (pad32 pw.user) (alg3O P c (pad32 pw.owner) (pad32 pw.user))).length
        rw [v4_file_key_length P hP c _ _ hr hl]
        omega
    exact C10_roundtrip P hP h cfg.method (cfg.fileKey P pw rnd) ivOf hm objid genno o
      (fun hne b hb => encryptBytes_ne_nil P cfg.method _ objid genno (ivOf b) b hne (hiv b) hb)

/-! ## non-vacuity, and the pinned behaviour as proved counter-examples -/

/-- A concrete instance of the primitives (not cryptographic: digests are zero-padded prefixes,
    "AES" is the identity pair) - shows that `PrimsOK` is satisfiable, so none of the theorems
    above is vacuous. -/
def toyPrims : Prims where
  md5 := fun b => (b ++ List.replicate 16 0).take 16
  sha256 := fun b => (b ++ List.replicate 32 0).take 32
  sha384 := fun b => (b ++ List.replicate 48 0).take 48
  sha512 := fun b => (b ++ List.replicate 64 0).take 64
  aesDec := fun _ _ d => d
  aesEnc := fun _ _ d => d
  sasl := { c12 := fun _ => false, b1 := fun _ => false, prohibited := fun _ => false,
            d1 := fun _ => false, d2 := fun _ => false, nfkc := id }

theorem toyPrims_ok : PrimsOK toyPrims where
  md5_len := by intro x; simp [toyPrims]
  aes_inv := by intros; rfl

/-- RC4 test vector (key "Key", plaintext "Plaintext" -> BBF316E8D940AF0AD3): the model of
    arcfour.py computes the published ciphertext. -/
example : rc4Core [75, 101, 121] [80, 108, 97, 105, 110, 116, 101, 120, 116]
    = [0xBB, 0xF3, 0x16, 0xE8, 0xD9, 0x40, 0xAF, 0x0A, 0xD3] := by decide +kernel

/-- A revision 3, 128-bit document with user password "u" and owner password "o": both open it. -/
example :
    let c : Cfg := { r := 3, length := 128, p := -1044, id0 := [1, 2, 3] }
    let d := derive234 toyPrims c (pad32 [117]) (pad32 [111]) (List.replicate 16 7)
    authUser toyPrims (params234 c 2 d.1 d.2.1) 128 (uintValue32 (-1044)) [117] = some d.2.2 ∧
    authOwner toyPrims (params234 c 2 d.1 d.2.1) 128 (uintValue32 (-1044)) [111] = some d.2.2 :=
  ⟨user_pw_accepts toyPrims toyPrims_ok _ 2 [117] [111] _ (Or.inr (Or.inl rfl)),
   owner_pw_accepts toyPrims toyPrims_ok _ 2 [117] [111] _ (Or.inr (Or.inl rfl))⟩

/-- The behaviour of the pinned code before the fix: AES plaintext returned with its padding. -/
def pinnedDecryptAes256 (P : Prims) (key data : Bytes) : Bytes :=
  P.aesDec key (data.take 16) (data.drop 16)

/-- Counter-example for the pinned code (fixed in /repo): the one-byte string "A", AESV3 -
    decryption returned "A" followed by fifteen bytes 0x0F. -/
theorem C10_aes_padding_cex :
    pinnedDecryptAes256 toyPrims [1] (encryptBytes toyPrims .aes256 [1] 7 0 (List.replicate 16 9) [65])
      ≠ [65] := by decide

/-- ... whereas the repaired reader returns the original string. -/
example : decryptAes256 toyPrims [1] (encryptBytes toyPrims .aes256 [1] 7 0 (List.replicate 16 9) [65])
    = [65] := by decide

/-- Non-vacuity of `C10_main`: a valid configuration of each kind exists (toy primitives). -/
example : (Config.base 2 { r := 3, length := 128, p := -1044, id0 := [1, 2, 3] }).valid toyPrims
    { userCps := [117], user := [117], owner := [111] } { tail := [], fileKey := [], salts := ⟨[], [], [], []⟩ } := by
  simp [Config.valid, encodeLatin1]

example : (Config.v4 { r := 4, length := 128, p := -4, id0 := [] } [83] .aes128).valid toyPrims
    { userCps := [], user := [], owner := [111] } { tail := [], fileKey := [], salts := ⟨[], [], [], []⟩ } := by
  simp [Config.valid, encodeLatin1, nameIdentity]

theorem toy_salts8 (r : Int) (hr : r = 5) :
    Salts8 toyPrims r ⟨List.replicate 8 1, List.replicate 8 2, List.replicate 8 3, List.replicate 8 4⟩ where
  uv := by simp
  ov := by simp
  hash_len := by intro pw salt v; subst hr; simp [passwordHash, toyPrims]; omega

example : (Config.v5 5 (-4) [83] true).valid toyPrims
    { userCps := [117], user := [117], owner := [111] }
    { tail := [], fileKey := List.replicate 32 7,
      salts := ⟨List.replicate 8 1, List.replicate 8 2, List.replicate 8 3, List.replicate 8 4⟩ } := by
  refine ⟨Or.inl rfl, by simp [nameIdentity], toy_salts8 5 rfl, by simp [normalizePassword, encodeUtf8, utf8Char, UTF8_PASSWORD_MAX], ?_⟩
  intro _
  simp [passwordHash, toyPrims]

/-! # Round 6 -/

/-! ## digest lengths: the 32-byte password hash is no longer a hypothesis -/

/-- SHA-2 digest lengths (facts about hashlib; checked on every table value the driver receives). -/
structure ShaLen (P : Prims) : Prop where
  sha256_len : ∀ x, (P.sha256 x).length = 32
  sha384_len : ∀ x, (P.sha384 x).length = 48
  sha512_len : ∀ x, (P.sha512 x).length = 64

/-- `_password_hash` returns exactly 32 bytes for every revision, password, salt and vector: SHA-256
    for revision 5; for revision 6 the loop always ends (`r6_fuel_suffices`), K stays at least 32
    bytes long through every round and `k[:32]` is returned. -/
theorem passwordHash_length (P : Prims) (hs : ShaLen P) (r : Int) (pw salt vec : Bytes) :
    (passwordHash P r pw salt vec).length = 32 := by
  unfold passwordHash
  split
  · exact hs.sha256_len _
  · have hd := r6_hash_defined P pw vec (P.sha256 (pw ++ salt.take 8 ++ vec))
    cases hres : r6Loop P pw vec R6_FUEL 0 0 (P.sha256 (pw ++ salt.take 8 ++ vec)) with
    | none => rw [hres] at hd; simp at hd
    | some res =>
      simp only [Option.getD_some]
      exact r6Loop_length P hs.sha256_len hs.sha384_len hs.sha512_len pw vec _ _ _ _ res
        (by rw [hs.sha256_len]; omega) hres

/-- `Salts8.hash_len` (a hypothesis until round 5) follows from the digest lengths. -/
theorem salts8_of_sha (P : Prims) (hs : ShaLen P) (r : Int) (s : Salts)
    (huv : s.uv.length = 8) (hov : s.ov.length = 8) : Salts8 P r s :=
  ⟨huv, hov, fun pw salt v => passwordHash_length P hs r pw salt v⟩

/-! ## per-object keys: lengths (16-byte cap) -/

/-- the RC4 object key has `min(n + 5, 16)` bytes (5 = 3 bytes of the object number + 2 of the
    generation), for every file key, object number and generation -/
theorem objKeyRc4_length (P : Prims) (hP : PrimsOK P) (key : Bytes) (objid genno : Nat) :
    (objKeyRc4 P key objid genno).length = min (key.length + 5) 16 := by
  simp [objKeyRc4, OBJID_BYTES_RC4, GENNO_BYTES_RC4, OBJKEY_MAX_RC4, leBytes_length, hP.md5_len]

/-- the AES-128 object key of the reader has `min(n + 9, 16)` bytes: 16 for every reachable file
    key (`v4_file_key_length`), and never more than 16 -/
theorem objKeyAes_length (P : Prims) (hP : PrimsOK P) (key : Bytes) (objid genno : Nat) :
    (objKeyAes P key objid genno).length = min (key.length + 9) 16 := by
  simp [objKeyAes, OBJID_BYTES_AES, GENNO_BYTES_AES, OBJKEY_MAX_AES, AES_SALT, leBytes_length, hP.md5_len]

/-- only the three low-order bytes of the object number and the two low-order bytes of the
    generation enter the key -/
theorem objKey_low_order_bytes (P : Prims) (key : Bytes) (objid genno : Nat) :
    objKeyRc4 P key objid genno = objKeyRc4 P key (objid % 2 ^ 24) (genno % 2 ^ 16) ∧
    objKeyAes P key objid genno = objKeyAes P key (objid % 2 ^ 24) (genno % 2 ^ 16) := by
  have h3 : ∀ n, leBytes 3 n = leBytes 3 (n % 2 ^ 24) := by
    intro n
    have e1 : n % 2 ^ 24 % 256 = n % 256 := by omega
    have e2 : n % 2 ^ 24 / 256 % 256 = n / 256 % 256 := by omega
    have e3 : n % 2 ^ 24 / 256 / 256 % 256 = n / 256 / 256 % 256 := by omega
    simp only [leBytes, e1, e2, e3]
  have h2 : ∀ n, leBytes 2 n = leBytes 2 (n % 2 ^ 16) := by
    intro n
    have e1 : n % 2 ^ 16 % 256 = n % 256 := by omega
    have e2 : n % 2 ^ 16 / 256 % 256 = n / 256 % 256 := by omega
    simp only [leBytes, e1, e2]
  constructor
  · simp only [objKeyRc4, OBJID_BYTES_RC4, GENNO_BYTES_RC4]
    rw [← h3 objid, ← h2 genno]
  · simp only [objKeyAes, OBJID_BYTES_AES, GENNO_BYTES_AES]
    rw [← h3 objid, ← h2 genno]

/-! ## PKCS#7 unpadding is a total function with an exhaustive case split -/

/-- **`unpad_aes` on every input**: either the data ends in a well-formed padding (`n` bytes of
    value `n`, `1 ≤ n ≤ 16`) and exactly that padding is removed, or it does not (empty data, last
    byte 0 or above 16, fewer than `n` bytes, a differing byte among the last `n`) and the data is
    returned unchanged.  The two cases are exclusive and exhaustive. -/
theorem unpad_total (p : Bytes) :
    (∃ d n, 1 ≤ n ∧ n ≤ 16 ∧ p = d ++ List.replicate n (UInt8.ofNat n) ∧ unpadAes p = d) ∨
    ((¬ ∃ d n, 1 ≤ n ∧ n ≤ 16 ∧ p = d ++ List.replicate n (UInt8.ofNat n)) ∧ unpadAes p = p) := by
  by_cases h : ∃ d n, 1 ≤ n ∧ n ≤ 16 ∧ p = d ++ List.replicate n (UInt8.ofNat n)
  · obtain ⟨d, n, h1, h16, hp⟩ := h
    exact Or.inl ⟨d, n, h1, h16, hp, by rw [hp]; exact unpadAes_wellformed d n h1 h16⟩
  · exact Or.inr ⟨h, unpadAes_malformed p h⟩

/-- the result is a prefix of the input and at most 16 bytes shorter -/
theorem unpad_prefix (p : Bytes) :
    unpadAes p <+: p ∧ p.length ≤ (unpadAes p).length + 16 :=
  ⟨unpadAes_prefix p, (unpadAes_length p).2⟩

/-- the split of a well-formed padded string is unique (so "the" padding is well defined) -/
theorem unpad_unique (d d' : Bytes) (n n' : Nat) (h1 : 1 ≤ n) (h16 : n ≤ 16) (h1' : 1 ≤ n') (h16' : n' ≤ 16)
    (h : d ++ List.replicate n (UInt8.ofNat n) = d' ++ List.replicate n' (UInt8.ofNat n')) : d = d' := by
  have a := unpadAes_wellformed d n h1 h16
  have b := unpadAes_wellformed d' n' h1' h16'
  rw [h] at a
  exact a.symm.trans b

example : unpadAes [65, 66, 2, 2] = [65, 66] ∧ unpadAes [65, 66, 3, 3] = [65, 66, 3, 3] ∧
    unpadAes [65, 0] = [65, 0] ∧ unpadAes [65, 17] = [65, 17] ∧ unpadAes [] = [] ∧
    unpadAes (List.replicate 16 16) = [] ∧ unpadAes [5, 5] = [5, 5] := by decide

/-! ## crypt-filter selection as a decision table -/

/-- methods a handler class can hold (`get_cfm` of the class, plus the built-in Identity) -/
def allowedMethod (cls : Nat) (m : Method) : Prop :=
  m = .identity ∨ (cls = 4 ∧ (m = .rc4 ∨ m = .aes128)) ∨ (cls = 5 ∧ m = .aes256)

/-- **The table is exhaustive**: for every Encrypt dictionary and password that `_initialize_password`
    accepts, the handler is of class 1, 4 or 5, and for classes 4 and 5 StrF names an entry of the
    crypt-filter map whose method is one `get_cfm` of that class can return (V2 / AESV2 for V4, AESV3
    for V5) or Identity - `self.cfm[name]` in `decrypt` can not raise KeyError and the `none` row of
    `selectMethod` is unreachable. -/
theorem openHandler_method (P : Prims) (prm : Params) (pw : List Nat) (h : Handler)
    (ho : openHandler P prm pw = .ok h) :
    (h.cls = 1 ∨ h.cls = 4 ∨ h.cls = 5) ∧
    (h.cls ≠ 1 → ∃ m, lookup h.strf h.cfm = some m ∧ allowedMethod h.cls m) := by
  unfold openHandler at ho
  split at ho
  · simp at ho
  split at ho
  · simp at ho
  rename_i cls hcls
  simp only at ho
  split at ho
  · -- class 1
    split at ho
    · simp at ho
    split at ho
    · simp at ho
    · simp only [Except.ok.injEq] at ho
      subst ho
      simp
  · split at ho
    · simp at ho
    split at ho
    · simp at ho
    rename_i ms hms
    split at ho
    · simp at ho
    rename_i hlk
    -- the method StrF names
    have hsome : ∃ m, lookup prm.strf (ms.filter (fun km => km.1 ≠ nameIdentity) ++ [(nameIdentity, Method.identity)]) = some m := by
      cases hl : lookup prm.strf (ms.filter (fun km => km.1 ≠ nameIdentity) ++ [(nameIdentity, Method.identity)]) with
      | none => rw [hl] at hlk; simp at hlk
      | some m => exact ⟨m, rfl⟩
    obtain ⟨m, hm⟩ := hsome
    have hmem := lookup_mem _ _ _ hm
    have hget : m = .identity ∨ ∃ name, getCfm cls name = some m := by
      rcases List.mem_append.mp hmem with h1 | h1
      · right
        exact buildCfm_methods cls prm.cf ms hms _ (List.mem_filter.mp h1).1
      · left
        simp at h1
        exact h1.2
    split at ho
    · -- class 4
      rename_i h4
      split at ho
      · simp at ho
      split at ho
      · simp at ho
      · simp only [Except.ok.injEq] at ho
        subst ho
        refine ⟨Or.inr (Or.inl rfl), fun _ => ⟨m, hm, ?_⟩⟩
        rcases hget with hid | ⟨name, hn⟩
        · exact Or.inl hid
        · right; left
          refine ⟨rfl, ?_⟩
          rw [getCfm_eq, if_pos h4] at hn
          split at hn
          · left; simpa using hn.symm
          · split at hn
            · right; simpa using hn.symm
            · simp at hn
    · rename_i h4
      split at ho
      · simp at ho
      split at ho
      · simp at ho
      · simp only [Except.ok.injEq] at ho
        subst ho
        refine ⟨Or.inr (Or.inr rfl), fun _ => ⟨m, hm, ?_⟩⟩
        rcases hget with hid | ⟨name, hn⟩
        · exact Or.inl hid
        · right; right
          refine ⟨rfl, ?_⟩
          rw [getCfm_eq, if_neg h4] at hn
          split at hn
          · simpa using hn.symm
          · simp at hn

/-- `decrypt` is the table look-up followed by the chosen cipher. -/
theorem decrypt_eq_table (P : Prims) (h : Handler) (objid genno : Nat) (isMetadata : Bool) (data : Bytes) :
    decrypt P h objid genno isMetadata data =
      match selectMethod h isMetadata with
      | some m => applyMethod P h m objid genno data
      | none => data := by
  unfold decrypt selectMethod
  by_cases h1 : h.cls = 1
  · simp [h1, applyMethod]
  · by_cases h2 : ¬ h.encryptMetadata ∧ isMetadata
    · obtain ⟨ha, hb⟩ := h2
      simp [h1, ha, hb, applyMethod]
    · simp only [h1, if_false, h2]
      cases lookup h.strf h.cfm <;> rfl

/-- **The reader's table is the standard's table** (ISO 32000-1 7.6.5) for every opened handler and
    every kind of data: strings (deciphered with `attrs=None`), ordinary streams, Metadata streams,
    EncryptMetadata on or off; StmF = StrF = the crypt filter `m`. -/
theorem selectMethod_is_spec (h : Handler) (m : Method)
    (hm : if h.cls = 1 then m = .rc4 else lookup h.strf h.cfm = some m) (isStream isMetadata : Bool) :
    selectMethod h (isStream && isMetadata)
      = some (specSelect (h.cls != 1) h.encryptMetadata isStream isMetadata m m) := by
  unfold selectMethod specSelect
  by_cases h1 : h.cls = 1
  · simp [h1]
  · simp only [h1, if_false] at hm
    cases isStream <;> cases isMetadata <;> cases hem : h.encryptMetadata <;> simp [h1, hm]

/-- every row of the table, spelled out (handler class × EncryptMetadata × Metadata stream) -/
example (cfName : Bytes) (m : Method) (em : Bool) :
    let h4 : Handler := { cls := 4, r := 4, p := 0, length := 128, key := [], cfm := [(cfName, m)],
                          strf := cfName, encryptMetadata := em }
    let h1 : Handler := { cls := 1, r := 3, p := 0, length := 40, key := [] }
    selectMethod h1 true = some .rc4 ∧ selectMethod h1 false = some .rc4 ∧
    selectMethod h4 false = some m ∧
    selectMethod h4 true = some (if em then m else .identity) ∧
    selectMethod { h4 with strf := nameIdentity } false = (if cfName = nameIdentity then some m else none) := by
  cases em <;> simp [selectMethod, lookup, eq_comm]

/-! ## either password opens the document - with the same file key, the same handler -/

/-- the password-independent part of `Config.valid` -/
def Config.wf : Config → Prop
  | .base v c => (v = 1 ∨ v = 2) ∧ (c.r = 2 ∨ c.r = 3) ∧ 8 ≤ c.length
  | .v4 c cfName m =>
    c.r = 4 ∧ c.length = 128 ∧ (m = .rc4 ∨ m = .aes128 ∨ m = .identity) ∧ cfName ≠ nameIdentity
  | .v5 r _ cfName _ => (r = 5 ∨ r = 6) ∧ cfName ≠ nameIdentity

theorem Config.valid_wf (P : Prims) (cfg : Config) (pw : Passwords) (rnd : Rand)
    (hv : cfg.valid P pw rnd) : cfg.wf := by
  cases cfg with
  | base v c => exact ⟨hv.1, hv.2.1, hv.2.2.1⟩
  | v4 c cfName m => exact ⟨hv.1, hv.2.1, hv.2.2.1, hv.2.2.2.1⟩
  | v5 r p cfName em => exact ⟨hv.1, hv.2.1⟩

/-- the `authenticate` call `_initialize_password` makes for this configuration's handler class -/
def Config.authenticate (P : Prims) (cfg : Config) (prm : Params) (cps : List Nat) : Except Err Bytes :=
  match cfg with
  | .base _ c => authenticate234 P prm c.length (uintValue32 c.p) cps
  | .v4 c _ _ => authenticate234 P prm 128 (uintValue32 c.p) cps
  | .v5 _ _ _ _ => authenticate56 P prm cps

/-- Handler selection, `init_params` and the revision check succeed for every well-formed
    configuration *whatever the password*: `openHandler` is `authenticate` of the selected class,
    wrapped into the handler.  (Generalises `C10_open`, which fixes the user password.) -/
theorem C10_open_of_authenticate (P : Prims) (cfg : Config) (pw : Passwords) (rnd : Rand)
    (hw : cfg.wf) (cps : List Nat)
    (ha : cfg.authenticate P (cfg.encryptDict P pw rnd) cps = .ok (cfg.fileKey P pw rnd)) :
    ∃ h, openHandler P (cfg.encryptDict P pw rnd) cps = .ok h ∧
         h.key = cfg.fileKey P pw rnd ∧ h.p = uintValue32 cfg.P ∧
         (if h.cls = 1 then cfg.method = .rc4 else lookup h.strf h.cfm = some cfg.method) := by
  cases cfg with
  | base v c =>
    obtain ⟨hv', hr, hl⟩ := hw
    refine ⟨{ cls := 1, r := c.r, p := uintValue32 c.p, length := c.length,
              key := (derive234 P c (pad32 pw.user) (pad32 pw.owner) rnd.tail).2.2 }, ?_, rfl, rfl, ?_⟩
    · unfold openHandler
      simp only [Config.authenticate, Config.encryptDict, Config.fileKey, params234] at ha ⊢
      rcases hv' with h1 | h1 <;> rcases hr with h2 | h2 <;>
        simp [h1, h2, HANDLER_REGISTRY, openHandler.lookup', SUPPORTED_REVISIONS_BASE] at ha ⊢ <;>
        simp [ha]
    · simp [Config.method]
  | v4 c cfName m =>
    obtain ⟨hr, hl, hm, hcf⟩ := hw
    refine ⟨{ cls := 4, r := 4, p := uintValue32 c.p, length := 128,
              key := (derive234 P c (pad32 pw.user) (pad32 pw.owner) rnd.tail).2.2,
              cfm := (if m = .identity then [] else [(cfName, m)]).filter (fun km => km.1 ≠ nameIdentity)
                       ++ [(nameIdentity, Method.identity)],
              strf := if m = .identity then nameIdentity else cfName,
              encryptMetadata := c.encryptMetadata }, ?_, rfl, rfl, ?_⟩
    · unfold openHandler
      simp only [Config.authenticate, Config.encryptDict, Config.fileKey] at ha ⊢
      rcases hm with h | h | h <;> subst h <;>
        simp [withCryptFilter, params234, hr, HANDLER_REGISTRY, openHandler.lookup', SUPPORTED_REVISIONS_V4,
          buildCfm, getCfm_eq, FORCED_LENGTH_V4, cfmName, lookup, hcf, nameV2, nameAESV2] at ha ⊢ <;>
        simp [ha, hcf, lookup]
    · rcases hm with h | h | h <;> subst h <;> simp [Config.method, lookup, hcf]
  | v5 r p cfName em =>
    obtain ⟨hr, hcf⟩ := hw
    refine ⟨{ cls := 5, r := r, p := uintValue32 p, length := 256, key := rnd.fileKey,
              cfm := [(cfName, Method.aes256)].filter (fun km => km.1 ≠ nameIdentity)
                       ++ [(nameIdentity, Method.identity)],
              strf := cfName, encryptMetadata := em }, ?_, rfl, rfl, ?_⟩
    · unfold openHandler
      simp only [Config.authenticate, Config.encryptDict, Config.fileKey] at ha ⊢
      rcases hr with h | h <;> subst h <;>
        simp [withCryptFilter, params56, HANDLER_REGISTRY, openHandler.lookup', SUPPORTED_REVISIONS_V5,
          buildCfm, getCfm_eq, FORCED_LENGTH_V5, cfmName, lookup, hcf, nameAESV3] at ha ⊢ <;>
        simp [ha, hcf, lookup]
    · simp [Config.method, lookup, hcf]

/-- What makes `ownerCps` the owner password of the document, and the one assumption about it.
    R2-R4: the code tries the *user* path first, so the owner password must not itself pass the U
    check unless it pads to the same 32 bytes as the user password (H1, second-preimage resistance
    of the U check).  R5/R6: the owner branch is tried first - nothing is assumed. -/
def Config.ownerValid (P : Prims) : Config → Passwords → Rand → List Nat → Prop
  | .base v c, pw, rnd, ownerCps =>
    encodeLatin1 ownerCps = some pw.owner ∧
    (authUser P (params234 c v (derive234 P c (pad32 pw.user) (pad32 pw.owner) rnd.tail).1
        (derive234 P c (pad32 pw.user) (pad32 pw.owner) rnd.tail).2.1) c.length (uintValue32 c.p) pw.owner = none
      ∨ pad32 pw.owner = pad32 pw.user)
  | .v4 c _ _, pw, rnd, ownerCps =>
    encodeLatin1 ownerCps = some pw.owner ∧
    (authUser P (params234 c 4 (derive234 P c (pad32 pw.user) (pad32 pw.owner) rnd.tail).1
        (derive234 P c (pad32 pw.user) (pad32 pw.owner) rnd.tail).2.1) c.length (uintValue32 c.p) pw.owner = none
      ∨ pad32 pw.owner = pad32 pw.user)
  | .v5 r _ _ _, pw, _, ownerCps => normalizePassword P r ownerCps = .ok pw.owner

/-- **Opening with the owner password** - every configuration. -/
theorem C10_open_owner (P : Prims) (hP : PrimsOK P) (cfg : Config) (pw : Passwords) (rnd : Rand)
    (hv : cfg.valid P pw rnd) (ownerCps : List Nat) (hov : cfg.ownerValid P pw rnd ownerCps) :
    ∃ h, openHandler P (cfg.encryptDict P pw rnd) ownerCps = .ok h ∧
         h.key = cfg.fileKey P pw rnd ∧ h.p = uintValue32 cfg.P ∧
         (if h.cls = 1 then cfg.method = .rc4 else lookup h.strf h.cfm = some cfg.method) := by
  apply C10_open_of_authenticate P cfg pw rnd (Config.valid_wf P cfg pw rnd hv)
  cases cfg with
  | base v c =>
    obtain ⟨hv', hr, hl, _⟩ := hv
    have hr' : c.r = 2 ∨ c.r = 3 ∨ c.r = 4 := by rcases hr with h | h <;> simp [h]
    exact authenticate_owner_accepts_partial P hP c v ownerCps pw.user pw.owner rnd.tail hr' hl hov.1 hov.2
  | v4 c cfName m =>
    obtain ⟨hr, hl, _⟩ := hv
    have ha := authenticate_owner_accepts_partial P hP c 4 ownerCps pw.user pw.owner rnd.tail
      (Or.inr (Or.inr hr)) (by omega) hov.1 hov.2
    rw [hl] at ha
    exact ha
  | v5 r p cfName em =>
    obtain ⟨_, _, hs, _⟩ := hv
    exact r56_authenticate_owner P hP r rnd.fileKey pw.user pw.owner rnd.salts hs ownerCps hov

/-- **Either password yields the very same handler** (class, file key, permissions, crypt-filter
    map): whatever is read afterwards cannot depend on which of the two passwords was used. -/
theorem C10_either_password (P : Prims) (hP : PrimsOK P) (cfg : Config) (pw : Passwords) (rnd : Rand)
    (hv : cfg.valid P pw rnd) (ownerCps : List Nat) (hov : cfg.ownerValid P pw rnd ownerCps) :
    ∃ h, openHandler P (cfg.encryptDict P pw rnd) pw.userCps = .ok h ∧
         openHandler P (cfg.encryptDict P pw rnd) ownerCps = .ok h ∧
         h.key = cfg.fileKey P pw rnd := by
  obtain ⟨hu, hou, hku, _⟩ := C10_open P hP cfg pw rnd hv
  obtain ⟨ho, hoo, hko, _⟩ := C10_open_owner P hP cfg pw rnd hv ownerCps hov
  refine ⟨hu, hou, ?_, hku⟩
  rw [hoo]
  congr 1
  -- both handlers are built from the same dictionary and the same key
  have key_eq : ho.key = hu.key := by rw [hko, hku]
  clear hku hko
  unfold openHandler at hou hoo
  revert hou hoo
  split
  · intro h; simp at h
  split
  · intro h; simp at h
  simp only
  split
  · split
    · intro h; simp at h
    · split <;> split <;> intro h1 h2 <;> simp at h1 h2
      subst h1 h2
      simp only [Handler.mk.injEq, true_and, and_true] at key_eq ⊢
      exact key_eq
  · split
    · intro h; simp at h
    split
    · intro h; simp at h
    split
    · intro h; simp at h
    split
    · split
      · intro h; simp at h
      · split <;> split <;> intro h1 h2 <;> simp at h1 h2
        subst h1 h2
        simp only [Handler.mk.injEq, true_and, and_true] at key_eq ⊢
        exact key_eq
    · split
      · intro h; simp at h
      · split <;> split <;> intro h1 h2 <;> simp at h1 h2
        subst h1 h2
        simp only [Handler.mk.injEq, true_and, and_true] at key_eq ⊢
        exact key_eq

/-- **C10, main statement (owner password).**  As `C10_main`, with the owner password: the document
    opens, the permissions are the stored bits and every direct object reads back as before
    encryption.  Assumptions: those of `C10_main` plus `Config.ownerValid` (for R2-R4 the clause H1;
    nothing for R5/R6). -/
theorem C10_main_owner (P : Prims) (hP : PrimsOK P) (cfg : Config) (pw : Passwords) (rnd : Rand)
    (hv : cfg.valid P pw rnd) (ownerCps : List Nat) (hov : cfg.ownerValid P pw rnd ownerCps)
    (ivOf : Bytes → Bytes) (hiv : ∀ b, (ivOf b).length = 16) :
    ∃ h, openHandler P (cfg.encryptDict P pw rnd) ownerCps = .ok h ∧
      (isPrintable h = (uintValue32 cfg.P / 4 % 2 == 1) ∧
       isModifiable h = (uintValue32 cfg.P / 8 % 2 == 1) ∧
       isExtractable h = (uintValue32 cfg.P / 16 % 2 == 1)) ∧
      ∀ (objid genno : Nat) (o : Obj),
        getobj P h .direct objid genno
          (encryptAll (fun b => encryptBytes P cfg.method (cfg.fileKey P pw rnd) objid genno (ivOf b) b)
            (fun attrs => h.cls ≠ 1 ∧ ¬ h.encryptMetadata ∧ attrsType attrs = some atomMetadata) o) = o := by
  obtain ⟨h, hu, ho, _⟩ := C10_either_password P hP cfg pw rnd hv ownerCps hov
  obtain ⟨h', hu', hperm, hrt⟩ := C10_main P hP cfg pw rnd hv ivOf hiv
  rw [hu] at hu'
  have : h = h' := by simpa using hu'
  subst this
  exact ⟨h, ho, hperm, hrt⟩

/-- V5 configurations need no separate hypothesis on the hash length any more: digest lengths and
    8-byte salts give `Salts8` (`salts8_of_sha`), so for R5/R6 the complete list of assumptions of
    `C10_main` / `C10_main_owner` is: `PrimsOK`, `ShaLen`, and the one no-collision clause. -/
theorem C10_v5_valid_of_sha (P : Prims) (hs : ShaLen P) (r p : Int) (cfName : Bytes) (em : Bool)
    (pw : Passwords) (rnd : Rand) (hr : r = 5 ∨ r = 6) (hcf : cfName ≠ nameIdentity)
    (huv : rnd.salts.uv.length = 8) (hov : rnd.salts.ov.length = 8)
    (hn : normalizePassword P r pw.userCps = .ok pw.user)
    (hcoll : pw.user ≠ pw.owner →
      passwordHash P r pw.user rnd.salts.ov (derive56 P r rnd.fileKey pw.user pw.owner rnd.salts).1
        ≠ passwordHash P r pw.owner rnd.salts.ov (derive56 P r rnd.fileKey pw.user pw.owner rnd.salts).1) :
    (Config.v5 r p cfName em).valid P pw rnd :=
  ⟨hr, hcf, salts8_of_sha P hs r rnd.salts huv hov, hn, hcoll⟩

/-! ### non-vacuity (round 6) -/

theorem toyPrims_sha : ShaLen toyPrims where
  sha256_len := by intro x; simp [toyPrims]
  sha384_len := by intro x; simp [toyPrims]
  sha512_len := by intro x; simp [toyPrims]

/-- revision 6 with the toy primitives: the loop really runs and returns 32 bytes -/
example : (passwordHash toyPrims 6 [117] (List.replicate 8 1) []).length = 32 :=
  passwordHash_length toyPrims toyPrims_sha 6 _ _ _

/-- a revision 6 configuration is valid with 8-byte salts, no `hash_len` hypothesis; user = owner
    password, so the no-collision clause is void -/
example : (Config.v5 6 (-4) [83] false).valid toyPrims
    { userCps := [], user := [], owner := [] }
    { tail := [], fileKey := List.replicate 32 7,
      salts := ⟨List.replicate 8 1, List.replicate 8 2, List.replicate 8 3, List.replicate 8 4⟩ } :=
  C10_v5_valid_of_sha toyPrims toyPrims_sha 6 (-4) [83] false _ _ (Or.inr rfl) (by simp [nameIdentity])
    (by simp) (by simp) (by simp [normalizePassword]) (fun h => absurd rfl h)

/-- `Config.ownerValid` is satisfiable: revision 5, owner password "o" ≠ user password "u" -/
example : (Config.v5 5 (-4) [83] true).ownerValid toyPrims
    { userCps := [117], user := [117], owner := [111] }
    { tail := [], fileKey := List.replicate 32 7,
      salts := ⟨List.replicate 8 1, List.replicate 8 2, List.replicate 8 3, List.replicate 8 4⟩ } [111] := by
  simp [Config.ownerValid, normalizePassword, encodeUtf8, utf8Char, UTF8_PASSWORD_MAX]

/-- ... and for a revision 2 document whose two passwords pad to the same 32 bytes (the second
    disjunct; a password longer than 32 bytes and its 32-byte prefix) -/
example : (Config.base 1 { r := 2, length := 40, p := -64, id0 := [9] }).ownerValid toyPrims
    { userCps := List.replicate 32 65, user := List.replicate 32 65, owner := List.replicate 33 65 }
    { tail := [], fileKey := [], salts := ⟨[], [], [], []⟩ } (List.replicate 33 65) := by
  refine ⟨by decide, Or.inr (by decide)⟩

/-! ## regenerated (round 6) tables and constants agree with the standard -/

/-- **`get_cfm` (regenerated from pdfdocument.py on every run) is ISO 32000's CFM table**: the V4
    handler maps V2 to RC4 and AESV2 to AES-128, the V5 handler AESV3 to AES-256; every other name
    (including `None`, `Identity` as a CFM, and AESV3 under V4) is refused. -/
theorem get_cfm_is_standard (cls : Nat) (name : Bytes) :
    getCfm cls name =
      if cls = 4 then
        if name = nameV2 then some .rc4 else if name = nameAESV2 then some .aes128 else none
      else
        if name = nameAESV3 then some .aes256 else none :=
  getCfm_eq cls name

/-- the other regenerated constants of `init_params` / `decrypt` / `unpad_aes`: the built-in
    Identity filter, the Metadata bypass, the forced key lengths, StrF as the one filter name, the
    padding bounds -/
theorem crypt_filter_constants :
    BUILTIN_FILTER = (nameIdentity, "decrypt_identity") ∧ methodOfPy BUILTIN_FILTER.2 = some .identity ∧
    atomMetadata = 47 :: BYPASS_TYPE ∧
    FORCED_LENGTH_V4 = 128 ∧ FORCED_LENGTH_V5 = 256 ∧ DEFAULT_FILTER_ATTR = "strf" ∧
    UNPAD_MIN = 1 ∧ UNPAD_MAX = 16 := by decide

example : getCfm 4 nameAESV2 = some .aes128 ∧ getCfm 4 nameAESV3 = none ∧ getCfm 5 nameAESV3 = some .aes256 ∧
    getCfm 5 nameV2 = none ∧ getCfm 4 nameIdentity = none := by decide

/-! ## wrong passwords at the level of the whole `_initialize_password` -/

/-- For every well-formed configuration and every password, an error of the selected class's
    `authenticate` is the error `_initialize_password` raises: no earlier check (Filter, registry,
    revision, StmF = StrF, CFM names, StrF defined) can fail for a writer's dictionary. -/
theorem C10_open_error_of_authenticate (P : Prims) (cfg : Config) (pw : Passwords) (rnd : Rand)
    (hw : cfg.wf) (cps : List Nat) (e : Err)
    (ha : cfg.authenticate P (cfg.encryptDict P pw rnd) cps = .error e) :
    openHandler P (cfg.encryptDict P pw rnd) cps = .error e := by
  cases cfg with
  | base v c =>
    obtain ⟨hv', hr, hl⟩ := hw
    unfold openHandler
    simp only [Config.authenticate, Config.encryptDict, params234] at ha ⊢
    rcases hv' with h1 | h1 <;> rcases hr with h2 | h2 <;>
      simp [h1, h2, HANDLER_REGISTRY, openHandler.lookup', SUPPORTED_REVISIONS_BASE] at ha ⊢ <;>
      simp [ha]
  | v4 c cfName m =>
    obtain ⟨hr, hl, hm, hcf⟩ := hw
    unfold openHandler
    simp only [Config.authenticate, Config.encryptDict] at ha ⊢
    rcases hm with h | h | h <;> subst h <;>
      simp [withCryptFilter, params234, hr, HANDLER_REGISTRY, openHandler.lookup', SUPPORTED_REVISIONS_V4,
        buildCfm, getCfm_eq, FORCED_LENGTH_V4, cfmName, lookup, hcf, nameV2, nameAESV2] at ha ⊢ <;>
      simp [ha, hcf, lookup]
  | v5 r p cfName em =>
    obtain ⟨hr, hcf⟩ := hw
    unfold openHandler
    simp only [Config.authenticate, Config.encryptDict] at ha ⊢
    rcases hr with h | h <;> subst h <;>
      simp [withCryptFilter, params56, HANDLER_REGISTRY, openHandler.lookup', SUPPORTED_REVISIONS_V5,
        buildCfm, getCfm_eq, FORCED_LENGTH_V5, cfmName, lookup, hcf, nameAESV3] at ha ⊢ <;>
      simp [ha, hcf, lookup]

/-- The cryptographic assumptions under which a password that is neither the user's nor the
    owner's is rejected: R2-R4 - H1 and H2 of `C10_rejects_writer_partial` and "pads to neither";
    R5/R6 - its two validation hashes collide with neither stored hash. -/
def Config.wrongPassword (P : Prims) : Config → Passwords → Rand → List Nat → Prop
  | .base v c, pw, rnd, cps =>
    let prm := params234 c v (derive234 P c (pad32 pw.user) (pad32 pw.owner) rnd.tail).1
                (derive234 P c (pad32 pw.user) (pad32 pw.owner) rnd.tail).2.1
    (∀ q : Bytes, verifyKey P prm (alg2Key P c (pad32 q) prm.o) = true → pad32 q = pad32 pw.user) ∧
    (∀ q : Bytes, recoverUser P prm c.length q = pad32 pw.user → pad32 q = pad32 pw.owner) ∧
    (∀ b, encodeLatin1 cps = some b → pad32 b ≠ pad32 pw.user ∧ pad32 b ≠ pad32 pw.owner)
  | .v4 c _ _, pw, rnd, cps =>
    let prm := params234 c 4 (derive234 P c (pad32 pw.user) (pad32 pw.owner) rnd.tail).1
                (derive234 P c (pad32 pw.user) (pad32 pw.owner) rnd.tail).2.1
    (∀ q : Bytes, verifyKey P prm (alg2Key P c (pad32 q) prm.o) = true → pad32 q = pad32 pw.user) ∧
    (∀ q : Bytes, recoverUser P prm c.length q = pad32 pw.user → pad32 q = pad32 pw.owner) ∧
    (∀ b, encodeLatin1 cps = some b → pad32 b ≠ pad32 pw.user ∧ pad32 b ≠ pad32 pw.owner)
  | .v5 r _ _ _, pw, rnd, cps =>
    (∃ e, normalizePassword P r cps = .error e ∧ e = .passwordIncorrect) ∨
    ∃ b, normalizePassword P r cps = .ok b ∧
      passwordHash P r b rnd.salts.ov (derive56 P r rnd.fileKey pw.user pw.owner rnd.salts).1
        ≠ passwordHash P r pw.owner rnd.salts.ov (derive56 P r rnd.fileKey pw.user pw.owner rnd.salts).1 ∧
      passwordHash P r b rnd.salts.uv [] ≠ passwordHash P r pw.user rnd.salts.uv []

/-- **Every other password is rejected with the password-incorrect error**, for the whole
    `_initialize_password` and every configuration.  `_partial`: the assumptions are exactly those
    collected in `Config.wrongPassword` (no-collision clauses for MD5/RC4 resp. the password hash);
    handler selection, `init_params`, padding, Latin-1 / SASLprep / UTF-8 steps are proved. -/
theorem C10_wrong_password_rejected_partial (P : Prims) (hP : PrimsOK P) (cfg : Config) (pw : Passwords)
    (rnd : Rand) (hv : cfg.valid P pw rnd) (cps : List Nat) (hwp : cfg.wrongPassword P pw rnd cps) :
    openHandler P (cfg.encryptDict P pw rnd) cps = .error .passwordIncorrect := by
  apply C10_open_error_of_authenticate P cfg pw rnd (Config.valid_wf P cfg pw rnd hv)
  cases cfg with
  | base v c =>
    obtain ⟨_, hr, hl, _⟩ := hv
    obtain ⟨H1, H2, hw⟩ := hwp
    have hr' : c.r = 2 ∨ c.r = 3 ∨ c.r = 4 := by rcases hr with h | h <;> simp [h]
    exact C10_rejects_writer_partial P c v pw.user pw.owner rnd.tail cps hr' hl H1 H2 hw
  | v4 c cfName m =>
    obtain ⟨hr, hl, _⟩ := hv
    obtain ⟨H1, H2, hw⟩ := hwp
    have h := C10_rejects_writer_partial P c 4 pw.user pw.owner rnd.tail cps (Or.inr (Or.inr hr))
      (by omega) H1 H2 hw
    rw [hl] at h
    exact h
  | v5 r p cfName em =>
    obtain ⟨_, _, hs, _⟩ := hv
    rcases hwp with ⟨e, hn, he⟩ | ⟨b, hn, hno, hnu⟩
    · subst he
      show authenticate56 P _ cps = .error .passwordIncorrect
      unfold authenticate56
      simp only [Config.encryptDict, withCryptFilter, params56] at hn ⊢
      rw [hn]
    · exact r56_rejects_writer_partial P hP r rnd.fileKey pw.user pw.owner b rnd.salts hs cps hn hno hnu

/-! ## file-key lengths -/

/-- **Length of the file key** for every R2-R4 configuration: 5 bytes for revision 2 whatever
    `Length` says, `Length / 8` (at most 16) for revisions 3 and 4 - hence 16 for every V4
    document. -/
theorem C10_file_key_length (P : Prims) (hP : PrimsOK P) (c : Cfg) (pu o : Bytes)
    (hr : c.r = 2 ∨ c.r = 3 ∨ c.r = 4) :
    (alg2Key P c pu o).length = if c.r = 2 then 5 else min (c.length / 8) 16 := by
  rcases hr with h | h | h
  · unfold alg2Key keyLen
    simp [h, hP.md5_len]
  · rw [alg2Key_length P hP.md5_len c pu o (by omega)]
    simp [keyLen, h]
  · rw [alg2Key_length P hP.md5_len c pu o (by omega)]
    simp [keyLen, h]

/-- non-vacuity of `Config.wrongPassword`: a password SASLprep-independent (R5) whose hashes differ -/
example : (Config.v5 5 (-4) [83] true).wrongPassword toyPrims
    { userCps := [117], user := [117], owner := [111] }
    { tail := [], fileKey := List.replicate 32 7,
      salts := ⟨List.replicate 8 1, List.replicate 8 2, List.replicate 8 3, List.replicate 8 4⟩ } [120] := by
  refine Or.inr ⟨[120], by simp [normalizePassword, encodeUtf8, utf8Char, UTF8_PASSWORD_MAX], ?_, ?_⟩ <;>
    simp [passwordHash, toyPrims]

end PdfVerif.Props.C10
