/-
C12 — Extraction is a pure function of (document bytes, options): deterministic, cache- and
history-independent.

Model: `PdfVerif.Model.Process` (state machine over `open / next / close / extract / parseCMap`;
per-document object / object-stream / font caches, process-wide encoding tables and CMap caches).
"Fresh computations" are parameters (`DocSpec.objs`: what a parse of an object gives,
`World.loadCMap/loadUMap`: what a CMap file contains, `World.encInit`); `freshPage` / `pagesSpec`
compute a page from fresh values only, without any cache.  The theorems say that the modelled
caching discipline is observationally pure for EVERY history.

The model is tied to pdfminer by tools/harness/props/c12.py (cache key sets, shared-table key sets,
encoding-table checksums and decoded glyph text after every operation of generated histories).
Only property theorems live here; helper lemmas are in `Lemmas/Process.lean`.
-/
import PdfVerif.Lemmas.Process

namespace PdfVerif.Props.C12
open PdfVerif PdfVerif.Process

variable (W : World)

/-! ## Invariants over all histories -/

/-- tables_inv: after ANY history the shared encoding tables are the initial ones, and every entry
of the CMap / unicode-map caches is what a fresh load of its key returns (entries are functions of
their key only). -/
theorem tables_inv (h : List Op) :
    (run W (init W) h).tables.enc = W.encInit ∧
    (∀ k v, (k, v) ∈ (run W (init W) h).tables.cmaps → W.loadCMap k = some v) ∧
    (∀ k v, (k, v) ∈ (run W (init W) h).tables.umaps → W.loadUMap k = some v) :=
  (run_ok W h _ (StateOk.init W)).1

/-- cache_inv: after ANY history, for every open page iterator, every entry of its document's
object cache has the payload a fresh parse returns, every cached object-stream content is the
fresh content, and every cached font is the font its object denotes built from fresh values. -/
theorem cache_inv (h : List Op) (hid : Nat) (hd : Handle)
    (hopen : (hid, hd) ∈ (run W (init W) h).handles) :
    (∀ n v, (n, v) ∈ hd.c.objs → freshObj hd.doc n = some v.1) ∧
    (∀ sid l, (sid, l) ∈ hd.c.pobjs → l = streamObjs hd.doc sid) ∧
    (∀ n f, (n, f) ∈ hd.c.fonts → ∃ spec, alookup n hd.doc.fontSpecs = some spec ∧
        f = fontPure W spec (freshObj hd.doc n :: spec.reads.map (freshObj hd.doc))) :=
  ((run_ok W h _ (StateOk.init W)).2 hid hd hopen).1

/-- The in-place normalisation of cached objects (stream decoding, `resolve_all`) never changes
what a read observes, and is idempotent. -/
theorem touch_observationally_neutral (n k : Nat) (objs : List (Nat × (Nat × Bool))) :
    (alookup k (touch n objs)).map (·.1) = (alookup k objs).map (·.1) ∧
    touch n (touch n objs) = touch n objs := by
  induction objs with
  | nil => simp [touch, alookup]
  | cons e rest ih =>
    obtain ⟨k', v⟩ := e
    by_cases h : k' = n
    · simp only [touch, h, if_true, alookup]
      refine ⟨?_, trivial⟩
      by_cases h2 : n = k <;> simp [h2]
    · simp only [touch, h, if_false, alookup]
      refine ⟨?_, by rw [ih.2]⟩
      by_cases h2 : k' = k
      · simp [h2]
      · simp only [h2, if_false]; exact ih.1

/-! ## The property -/

/-- After ANY history, extracting document `d` with options `(caching, sel)` yields exactly the
selected pages computed from fresh values only. -/
theorem C12_extract_eq_spec (h : List Op) (d : DocSpec) (caching : Bool) (sel : List Nat) :
    (extract W (run W (init W) h).tables d caching sel).1 = pagesSpec W d sel :=
  (extract_spec W _ d caching sel (run_ok W h _ (StateOk.init W)).1).1

/-- C12_history: the result of `extract d o` after any history equals the result in a fresh
process. -/
theorem C12_history (h : List Op) (d : DocSpec) (caching : Bool) (sel : List Nat) :
    (extract W (run W (init W) h).tables d caching sel).1 = (extract W (init W).tables d caching sel).1 := by
  rw [C12_extract_eq_spec W h d caching sel]
  exact (C12_extract_eq_spec W [] d caching sel).symm

/-- The same as an output of the state machine: the `extract` operation appended to any history
outputs the fresh pages. -/
theorem C12_history_output (h : List Op) (d : DocSpec) (caching : Bool) (sel : List Nat) :
    (step W (run W (init W) h) (.extract d caching sel)).2 = .pages (pagesSpec W d sel) := by
  simp only [step]
  rw [C12_extract_eq_spec W h d caching sel]

/-- Turning object and font caching off changes nothing. -/
theorem C12_caching_irrelevant (h h' : List Op) (d : DocSpec) (sel : List Nat) :
    (extract W (run W (init W) h).tables d false sel).1 = (extract W (run W (init W) h').tables d true sel).1 := by
  rw [C12_extract_eq_spec, C12_extract_eq_spec]

/-- Repeating an extraction (with anything in between) gives the same result. -/
theorem C12_repeat (h mid : List Op) (d : DocSpec) (c1 c2 : Bool) (sel : List Nat) :
    (step W (run W (init W) h) (.extract d c1 sel)).2 =
    (step W (run W (step W (run W (init W) h) (.extract d c1 sel)).1 mid) (.extract d c2 sel)).2 := by
  have e : run W (step W (run W (init W) h) (.extract d c1 sel)).1 mid =
      run W (init W) (h ++ (.extract d c1 sel :: mid)) := by
    generalize init W = s
    induction h generalizing s with
    | nil => rfl
    | cons op ops ih => exact ih _
  rw [e, C12_history_output, C12_history_output]

theorem selPages_single (n k : Nat) : selPages n [k] = if k < n then [k] else [] := by
  unfold selPages
  simp only [List.isEmpty_cons, Bool.false_eq_true, if_false]
  induction n with
  | zero => simp
  | succ n ih =>
    rw [List.range_succ, List.filter_append, ih]
    by_cases h1 : k < n
    · have : ¬ n = k := by omega
      simp [h1, this, Nat.lt_succ_of_lt h1]
    · by_cases h2 : n = k
      · subst h2; simp
      · have : ¬ k < n + 1 := by omega
        simp [h1, h2, this]

/-- Page at a time = all together: the pages of a selection are the concatenation of the pages
obtained by extracting every selected page on its own (in any process state). -/
theorem C12_page_at_a_time (h : List Op) (hs : Nat → List Op) (d : DocSpec) (c c' : Bool) (sel : List Nat) :
    (extract W (run W (init W) h).tables d c sel).1 =
    (selPages d.pages.length sel).flatMap (fun k => (extract W (run W (init W) (hs k)).tables d c' [k]).1) := by
  rw [C12_extract_eq_spec]
  have e : ∀ k, (extract W (run W (init W) (hs k)).tables d c' [k]).1 = pagesSpec W d [k] :=
    fun k => C12_extract_eq_spec W (hs k) d c' [k]
  simp only [e, pagesSpec, selPages_single]
  generalize selPages d.pages.length sel = ks
  induction ks with
  | nil => rfl
  | cons k ks ih =>
    simp only [List.filterMap_cons, List.flatMap_cons]
    by_cases hk : k < d.pages.length
    · rw [List.getElem?_eq_getElem hk]
      simp [hk, ih]
    · have : d.pages[k]? = none := by simp [List.getElem?_eq_none_iff]; omega
      simp [hk, this, ih]

/-! ## Interleaved page iterators -/

/-- After ANY history (other documents opened, iterated, extracted in between), `next()` on an open
iterator yields exactly the next selected page of ITS document computed from fresh values … -/
theorem C12_next_page (h : List Op) (hid : Nat) (hd : Handle)
    (hopen : alookup hid (run W (init W) h).handles = some hd) :
    (step W (run W (init W) h) (.next hid)).2 = nextSpec W hd := by
  have hs := run_ok W h _ (StateOk.init W)
  simp only [step, hopen]
  exact (advance_spec W hd _ (hs.2 hid hd (alookup_mem hopen)) hs.1).1

/-- … advances that iterator by one page and keeps its document and options … -/
theorem C12_next_advances (h : List Op) (hid : Nat) (hd : Handle)
    (hopen : alookup hid (run W (init W) h).handles = some hd) :
    ∃ hd', alookup hid (step W (run W (init W) h) (.next hid)).1.handles = some hd' ∧
      hd'.doc = hd.doc ∧ hd'.caching = hd.caching ∧ hd'.todo = hd.todo.tail := by
  have hs := run_ok W h _ (StateOk.init W)
  obtain ⟨_, _, _, a4, a5, a6⟩ := advance_spec W hd (run W (init W) h).tables
    (hs.2 hid hd (alookup_mem hopen)) hs.1
  refine ⟨(advance W hd (run W (init W) h).tables).2.1, ?_, a4, a5, a6⟩
  simp only [step, hopen]
  exact alookup_aset_self _ _ _

/-- … and does not touch any other open iterator (frame property). -/
theorem C12_next_frame (s : State) (hid hid' : Nat) (hne : hid' ≠ hid) :
    alookup hid' (step W s (.next hid)).1.handles = alookup hid' s.handles := by
  simp only [step]
  split
  · rfl
  · exact alookup_aset_ne _ hne _

/-- A freshly opened iterator starts at the first selected page, whatever happened before. -/
theorem C12_open_todo (s : State) (hid : Nat) (d : DocSpec) (caching : Bool) (sel : List Nat) :
    ∃ hd, alookup hid (step W s (.open hid d caching sel)).1.handles = some hd ∧ hd.doc = d ∧
      hd.todo = selPages d.pages.length sel :=
  ⟨openHandle d caching sel, alookup_aset_self _ _ _, rfl, rfl⟩

/-! ## Copy discipline of shared CMaps -/

/-- Building a private CMap on top of a shared one (`usecmap`) and extending the private one leaves
the shared one what a fresh load returns, after ANY history. -/
theorem C12_cmap_copy (h : List Op) (name : Nat) (ext : List (Nat × Nat)) :
    ∃ priv, (step W (run W (init W) h) (.parseCMap name ext)).2 = .cmap priv (W.loadCMap name) := by
  have hs := run_ok W h _ (StateOk.init W)
  have h1 := getCMap_spec W (run W (init W) h).tables name hs.1
  have h2 := getCMap_spec W _ name h1.2
  exact ⟨_, by simp only [step]; rw [h2.1]⟩

end PdfVerif.Props.C12
