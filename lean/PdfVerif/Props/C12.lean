/-
C12 — Extraction is a pure function of (document bytes, options): deterministic, cache- and
history-independent.

Model: `PdfVerif.Model.Process` (state machine over `open / next / close / extract / parseCMap`;
per-document object / object-stream / font caches, process-wide encoding tables and CMap caches).
"Fresh computations" are parameters (`DocSpec.objs`: what a parse of an object gives,
`World.loadCMap/loadUMap`: what a CMap file contains, `World.encInit`); `freshPage` / `pagesSpec`
compute a page from fresh values only, without any cache.  The theorems say that the modelled
caching discipline is observationally pure for EVERY history.

The model is tied to pdfminer by tools/harness/props/c12.py (cache key sets, shared-table key sets,
encoding-table checksums and decoded glyph text after every operation of generated histories).
Only property theorems live here; helper lemmas are in `Lemmas/Process.lean`.
-/
import PdfVerif.Lemmas.Process
import PdfVerif.Lemmas.ProcGlobals
import PdfVerif.Lemmas.ProcObjCache

namespace PdfVerif.Props.C12
open PdfVerif PdfVerif.Process

variable (W : World)

/-! ## Invariants over all histories -/

/-- tables_inv: after ANY history the shared encoding tables are the initial ones, and every entry
of the CMap / unicode-map caches is what a fresh load of its key returns (entries are functions of
their key only). -/
theorem tables_inv (h : List Op) :
    (run W (init W) h).tables.enc = W.encInit ∧
    (∀ k v, (k, v) ∈ (run W (init W) h).tables.cmaps → W.loadCMap k = some v) ∧
    (∀ k v, (k, v) ∈ (run W (init W) h).tables.umaps → W.loadUMap k = some v) :=
  (run_ok W h _ (StateOk.init W)).1

/-- cache_inv: after ANY history, for every open page iterator, every entry of its document's
object cache has the payload a fresh parse returns, every cached object-stream content is the
fresh content, every cached font is the font its object denotes built from fresh values, and
no object stream is left marked "in progress" (the guard set is empty between two operations). -/
theorem cache_inv (h : List Op) (hid : Nat) (hd : Handle)
    (hopen : (hid, hd) ∈ (run W (init W) h).handles) :
    (∀ n v, (n, v) ∈ hd.c.objs → freshObj hd.doc n = some v.1) ∧
    (∀ sid l, (sid, l) ∈ hd.c.pobjs → l = streamObjs hd.doc sid) ∧
    (∀ n f, (n, f) ∈ hd.c.fonts → ∃ spec, alookup n hd.doc.fontSpecs = some spec ∧
        f = fontPure W spec (freshObj hd.doc n :: spec.reads.map (freshObj hd.doc))) ∧
    hd.c.busy = [] :=
  ((run_ok W h _ (StateOk.init W)).2 hid hd hopen).1

/-- The in-place normalisation of cached objects (stream decoding, `resolve_all`) never changes
what a read observes, and is idempotent. -/
theorem touch_observationally_neutral (n k : Nat) (objs : List (Nat × (Nat × Bool))) :
    (alookup k (touch n objs)).map (·.1) = (alookup k objs).map (·.1) ∧
    touch n (touch n objs) = touch n objs := by
  induction objs with
  | nil => simp [touch, alookup]
  | cons e rest ih =>
    obtain ⟨k', v⟩ := e
    by_cases h : k' = n
    · simp only [touch, h, if_true, alookup]
      refine ⟨?_, trivial⟩
      by_cases h2 : n = k <;> simp [h2]
    · simp only [touch, h, if_false, alookup]
      refine ⟨?_, by rw [ih.2]⟩
      by_cases h2 : k' = k
      · simp [h2]
      · simp only [h2, if_false]; exact ih.1

/-! ## The property -/

/-- After ANY history, extracting document `d` with options `(caching, sel)` yields exactly the
selected pages computed from fresh values only. -/
theorem C12_extract_eq_spec (h : List Op) (d : DocSpec) (caching : Bool) (sel : List Nat) :
    (extract W (run W (init W) h).tables d caching sel).1 = pagesSpec W d sel :=
  (extract_spec W _ d caching sel (run_ok W h _ (StateOk.init W)).1).1

/-- C12_history: the result of `extract d o` after any history equals the result in a fresh
process. -/
theorem C12_history (h : List Op) (d : DocSpec) (caching : Bool) (sel : List Nat) :
    (extract W (run W (init W) h).tables d caching sel).1 = (extract W (init W).tables d caching sel).1 := by
  rw [C12_extract_eq_spec W h d caching sel]
  exact (C12_extract_eq_spec W [] d caching sel).symm

/-- The same as an output of the state machine: the `extract` operation appended to any history
outputs the fresh pages. -/
theorem C12_history_output (h : List Op) (d : DocSpec) (caching : Bool) (sel : List Nat) :
    (step W (run W (init W) h) (.extract d caching sel)).2 = .pages (pagesSpec W d sel) := by
  simp only [step]
  rw [C12_extract_eq_spec W h d caching sel]

/-- Turning object and font caching off changes nothing. -/
theorem C12_caching_irrelevant (h h' : List Op) (d : DocSpec) (sel : List Nat) :
    (extract W (run W (init W) h).tables d false sel).1 = (extract W (run W (init W) h').tables d true sel).1 := by
  rw [C12_extract_eq_spec, C12_extract_eq_spec]

/-- Repeating an extraction (with anything in between) gives the same result. -/
theorem C12_repeat (h mid : List Op) (d : DocSpec) (c1 c2 : Bool) (sel : List Nat) :
    (step W (run W (init W) h) (.extract d c1 sel)).2 =
    (step W (run W (step W (run W (init W) h) (.extract d c1 sel)).1 mid) (.extract d c2 sel)).2 := by
  have e : run W (step W (run W (init W) h) (.extract d c1 sel)).1 mid =
      run W (init W) (h ++ (.extract d c1 sel :: mid)) := by
    generalize init W = s
    induction h generalizing s with
    | nil => rfl
    | cons op ops ih => exact ih _
  rw [e, C12_history_output, C12_history_output]

theorem selPages_single (n k : Nat) : selPages n [k] = if k < n then [k] else [] := by
  unfold selPages
  simp only [List.isEmpty_cons, Bool.false_eq_true, if_false]
  induction n with
  | zero => simp
  | succ n ih =>
    rw [List.range_succ, List.filter_append, ih]
    by_cases h1 : k < n
    · have : ¬ n = k := by omega
      simp [h1, this, Nat.lt_succ_of_lt h1]
    · by_cases h2 : n = k
      · subst h2; simp
      · have : ¬ k < n + 1 := by omega
        simp [h1, h2, this]

/-- Page at a time = all together: the pages of a selection are the concatenation of the pages
obtained by extracting every selected page on its own (in any process state). -/
theorem C12_page_at_a_time (h : List Op) (hs : Nat → List Op) (d : DocSpec) (c c' : Bool) (sel : List Nat) :
    (extract W (run W (init W) h).tables d c sel).1 =
    (selPages d.pages.length sel).flatMap (fun k => (extract W (run W (init W) (hs k)).tables d c' [k]).1) := by
  rw [C12_extract_eq_spec]
  have e : ∀ k, (extract W (run W (init W) (hs k)).tables d c' [k]).1 = pagesSpec W d [k] :=
    fun k => C12_extract_eq_spec W (hs k) d c' [k]
  simp only [e, pagesSpec, selPages_single]
  generalize selPages d.pages.length sel = ks
  induction ks with
  | nil => rfl
  | cons k ks ih =>
    simp only [List.filterMap_cons, List.flatMap_cons]
    by_cases hk : k < d.pages.length
    · rw [List.getElem?_eq_getElem hk]
      simp [hk, ih]
    · have : d.pages[k]? = none := by simp [List.getElem?_eq_none_iff]; omega
      simp [hk, this, ih]

/-! ## Interleaved page iterators -/

/-- After ANY history (other documents opened, iterated, extracted in between), `next()` on an open
iterator yields exactly the next selected page of ITS document computed from fresh values … -/
theorem C12_next_page (h : List Op) (hid : Nat) (hd : Handle)
    (hopen : alookup hid (run W (init W) h).handles = some hd) :
    (step W (run W (init W) h) (.next hid)).2 = nextSpec W hd := by
  have hs := run_ok W h _ (StateOk.init W)
  simp only [step, hopen]
  exact (advance_spec W hd _ (hs.2 hid hd (alookup_mem hopen)) hs.1).1

/-- … advances that iterator by one page and keeps its document and options … -/
theorem C12_next_advances (h : List Op) (hid : Nat) (hd : Handle)
    (hopen : alookup hid (run W (init W) h).handles = some hd) :
    ∃ hd', alookup hid (step W (run W (init W) h) (.next hid)).1.handles = some hd' ∧
      hd'.doc = hd.doc ∧ hd'.caching = hd.caching ∧ hd'.todo = hd.todo.tail := by
  have hs := run_ok W h _ (StateOk.init W)
  obtain ⟨_, _, _, a4, a5, a6⟩ := advance_spec W hd (run W (init W) h).tables
    (hs.2 hid hd (alookup_mem hopen)) hs.1
  refine ⟨(advance W hd (run W (init W) h).tables).2.1, ?_, a4, a5, a6⟩
  simp only [step, hopen]
  exact alookup_aset_self _ _ _

/-- … and does not touch any other open iterator (frame property). -/
theorem C12_next_frame (s : State) (hid hid' : Nat) (hne : hid' ≠ hid) :
    alookup hid' (step W s (.next hid)).1.handles = alookup hid' s.handles := by
  simp only [step]
  split
  · rfl
  · exact alookup_aset_ne _ hne _

/-- A freshly opened iterator starts at the first selected page, whatever happened before. -/
theorem C12_open_todo (s : State) (hid : Nat) (d : DocSpec) (caching : Bool) (sel : List Nat) :
    ∃ hd, alookup hid (step W s (.open hid d caching sel)).1.handles = some hd ∧ hd.doc = d ∧
      hd.todo = selPages d.pages.length sel :=
  ⟨openHandle d caching sel, alookup_aset_self _ _ _, rfl, rfl⟩

/-- Interleaving: in ANY history — other iterators over other (or the same) documents, whole
extractions, CMap parsing in between — the outputs of the operations addressed to iterator `hid`
are exactly the outputs of those operations run alone in a fresh process. -/
theorem C12_interleaving (hid : Nat) (h : List Op) :
    outputsOf W hid (init W) h = outputs W (init W) (h.filter (mentions hid)) :=
  interleaving_aux W hid h _ _ (StateOk.init W) (StateOk.init W) rfl

/-! ## Shared tables only grow -/

/-- Continuing a history never removes or alters an entry of the process-wide caches and never
touches the encoding tables (together with `tables_inv`: the tables only grow by entries that are
functions of their key). -/
theorem tables_only_grow (h h' : List Op) :
    (run W (init W) (h ++ h')).tables.enc = (run W (init W) h).tables.enc ∧
    (∀ e, e ∈ (run W (init W) h).tables.cmaps → e ∈ (run W (init W) (h ++ h')).tables.cmaps) ∧
    (∀ e, e ∈ (run W (init W) h).tables.umaps → e ∈ (run W (init W) (h ++ h')).tables.umaps) := by
  rw [run_append]
  exact run_le W h' _

/-! ## Copy discipline of shared CMaps -/

/-- Building a private CMap on top of a shared one (`usecmap`) and extending the private one leaves
the shared one what a fresh load returns, after ANY history. -/
theorem C12_cmap_copy (h : List Op) (name : Nat) (ext : List (Nat × Nat)) :
    ∃ priv, (step W (run W (init W) h) (.parseCMap name ext)).2 = .cmap priv (W.loadCMap name) := by
  have hs := run_ok W h _ (StateOk.init W)
  have h1 := getCMap_spec W (run W (init W) h).tables name hs.1
  have h2 := getCMap_spec W _ name h1.2
  exact ⟨_, by simp only [step]; rw [h2.1]⟩

/-! ## Interpreter state is per page -/

/-- Whatever the interpreter was left with by the previous page of the same call (an unpainted
path, unbalanced `q`, a changed line width, dangling operands), the next page is interpreted from
the initial state: its result is the fresh page. -/
theorem C12_interp_reset (d : DocSpec) (caching : Bool) (c : Caches) (t : Tables) (left : Interp) (pg : PageSpec)
    (hc : CachesOk W d c) (ht : TablesOk W t) :
    (processPage W d caching c t left pg).1 = freshPage W d pg :=
  (processPage_spec W d caching c t left pg hc ht).1

/-- …and what a page leaves behind does not depend on what it found. -/
theorem C12_interp_left_independent (left left' : Interp) (pg : PageSpec) :
    interpAfter left pg = interpAfter left' pg := rfl

/-- `init_state` WITHOUT the reset of the current path (the path survives into the next page). -/
def initStateKeepPath (left : Interp) : Interp := { Interp.init with curpath := left.curpath }

/-- Without the reset, a page that ends with an unpainted rectangle leaks a shape into the next
page that paints: one painted rectangle becomes two shapes. -/
theorem curpath_leak_cex :
    (runG (initStateKeepPath (runG Interp.init [.re]).1) [.re, .paint]).2 ≠ (runG Interp.init [.re, .paint]).2 := by
  decide

/-- A reference that cannot be resolved (no cross-reference entry, or a compressed entry whose index
the object stream does not have) reads as null and leaves valid caches behind: what is read
afterwards is still the fresh value. -/
theorem C12_dangling_harmless (d : DocSpec) (caching : Bool) (c : Caches) (dang n : Nat)
    (hc : CachesOk W d c) :
    (readObj d caching (readObj d caching c dang).2 n).1 = freshObj d n :=
  (readObj_spec W d caching _ n (readObj_spec W d caching c dang hc).2.1).1

/-- The guard released only on success: after a failed lookup in object stream 9 the stream stays
marked, and its other objects can no longer be read (they resolve to null). -/
theorem guard_leak_cex :
    let d : DocSpec := { objs := [(3, .inStream 9 203), (7, .danglingIn 9), (9, .direct 209)], fontSpecs := [],
                         openReads := [], pages := [] }
    let leaked : Caches := { (readObj d true Caches.empty 7).2 with busy := [9] }
    (readObj d true leaked 3).1 ≠ freshObj d 3 ∧ (readObj d true (readObj d true Caches.empty 7).2 3).1 = freshObj d 3 := by
  decide

/-! ## Why the discipline matters: proved counter-examples for two broken disciplines -/

/-- `get_encoding` WITHOUT the copy: the differences are written into the shared table. -/
def getEncodingNoCopy (enc : List (List (Nat × Nat))) (base : Nat) (diffs : List (Nat × Option Nat)) :
    List (Nat × Nat) × List (List (Nat × Nat)) :=
  (getEncoding enc base diffs, enc.set base (getEncoding enc base diffs))

/-- Without the copy a later font with the same base encoding and no differences inherits the
differences of an earlier font: its table is not the fresh one (history dependence). -/
theorem nocopy_cex : ∃ (enc : List (List (Nat × Nat))) (base : Nat) (diffs : List (Nat × Option Nat)),
    getEncoding (getEncodingNoCopy enc base diffs).2 base [] ≠ getEncoding enc base [] :=
  ⟨[[(65, 65)]], 0, [(65, some 8364)], by decide⟩

/-- A memo table is only sound for the `fresh` function it was filled under: answering document 2
(`fresh₂`) from a cache filled by document 1 (`fresh₁`) under the same key returns document 1's
value.  This is what a font cache keyed by resource name, or a resource manager reused across
documents, would do. -/
theorem shared_cache_cex {α : Type} (fresh₁ fresh₂ : Nat → Option α) (k : Nat) (v : α)
    (h1 : fresh₁ k = some v) : (memo true fresh₂ (memo true fresh₁ [] k).2 k).1 = some v := by
  simp [memo, alookup, h1]

/-- The unicode-map cache keyed by the collection name only and holding ONE table (whichever writing
mode was asked for first): a font of the other writing mode loaded later gets the first table. The
model's cache entry holds both tables, so the entry is a function of its key. -/
theorem umap_mode_cex (tblH tblV : List (Nat × Nat)) (name : Nat) :
    (memo true (fun _ => some tblV) (memo true (fun _ => some tblH) [] name).2 name).1 = some tblH :=
  shared_cache_cex _ _ name tblH rfl

/-! ## Non-vacuity: a concrete world and two colliding documents

Both documents use object numbers 1–5 and 10–12; font object 3 is a simple font with
`/Differences` in `docA` and a composite font with a predefined CMap in `docB`; `docB` keeps its
font inside object stream 9.  The theorems above apply to them; the examples evaluate the state
machine on an interleaved history and show that the results are non-trivial and differ between
the documents. -/

def W0 : World :=
  { encInit := [[(65, 65), (66, 66)], [(65, 97), (66, 98), (69, 101)], [], []],
    loadCMap := fun k => if k = 1 then some [(65, 5), (66, 6)] else none,
    loadUMap := fun k => if k = 1 then some ([(5, 12354), (6, 8594)], [(5, 12354), (6, 8593)]) else none }

def simpleFont : FontSpec :=
  { kind := 0, vertical := false, base := 1, diffs := [(66, some 8364), (69, none)], hasToUnicode := true, tounicode := [(67, [102, 105])],
    cmap := 0, umap := 0, usecmap := 1, reads := [4] }

def cjkFont : FontSpec :=
  { kind := 2, vertical := false, base := 0, diffs := [], hasToUnicode := false, tounicode := [], cmap := 1,
    umap := 1, usecmap := 0, reads := [4] }

def docA : DocSpec :=
  { objs := [(1, .direct 101), (2, .direct 102), (3, .direct 103), (4, .direct 104), (10, .direct 110),
             (11, .direct 111), (12, .direct 112)],
    fontSpecs := [(3, simpleFont)], openReads := [1],
    pages := [⟨[2, 10], [.byId 3], [11], [(0, [65, 66, 67, 68, 69])], [.w 4, .re, .paint, .q, .w 9, .operand 7, .m, .l]⟩,
              ⟨[12], [.byId 3, .direct simpleFont], [11], [(1, [66]), (0, [65])], [.Q, .re, .m, .l, .l, .h, .paint]⟩] }

def docB : DocSpec :=
  { objs := [(1, .direct 201), (2, .direct 202), (3, .inStream 9 203), (4, .inStream 9 204), (9, .direct 209),
             (10, .direct 210), (11, .direct 211)],
    fontSpecs := [(3, cjkFont)], openReads := [1],
    pages := [⟨[2, 10], [.byId 3], [11], [(0, [65, 66, 67])], [.re]⟩] }

/-- the interleaved history used below -/
def hist0 : List Op :=
  [.open 1 docA true [], .open 2 docB true [], .next 1, .next 2, .extract docB false [], .parseCMap 1 [(65, 7)],
   .next 1, .next 2, .next 1, .extract docA true [1], .close 1]

/-- docA page 0 decodes through MacRoman + Differences + ToUnicode: a, €, "fi", (cid:68), and
(cid:69) because /Differences re-assigns code 69 to a glyph name without unicode value -/
example : (pagesSpec W0 docA []).map (·.glyphs) =
    [[[[97], [8364], [102, 105], [1114180], [1114181]]], [[[8364]], [[97]]]] := by decide

/-- docB page 0 decodes through the predefined CMap and the horizontal unicode table: あ, →; code 67 has no glyph -/
example : (pagesSpec W0 docB []).map (·.glyphs) = [[[[12354], [8594]]]] := by decide

/-- the same collection in vertical writing (Identity-V): CID 6 is ↑, whatever was loaded before -/
def vertFont : FontSpec := { cjkFont with kind := 3, vertical := true, reads := [] }
def docV : DocSpec :=
  { objs := [(1, .direct 301), (2, .direct 302), (10, .direct 310)], fontSpecs := [], openReads := [1],
    pages := [⟨[2, 10], [.direct vertFont], [], [(0, [5, 6])], []⟩] }

example : (step W0 (run W0 (init W0) [.extract docB true []]) (.extract docV true [])).2 =
    .pages [⟨[some 302, some 310], [[[12354], [8593]]], []⟩] := by decide

/-- docA page 0 paints one rectangle with line width 4 and leaves an unpainted path, a saved
graphics state, line width 9 and a dangling operand behind; page 1 (stray `Q`, default line width)
paints a rectangle and a closed triangle — and nothing of page 0 -/
example : (pagesSpec W0 docA []).map (·.shapes) = [[(5, 4)], [(5, 0), (4, 0)]] := by decide

example : ((alookup 1 (run W0 (init W0) [.open 1 docA true [], .next 1]).handles).map (·.interp)) =
    some ⟨[0, 1], [4], 9, [7]⟩ := by decide

/-- the interleaved history yields, page for page, the fresh pages of each document -/
example : outputs W0 (init W0) hist0 =
    [.ok, .ok, .page (freshPage W0 docA docA.pages[0]), .page (freshPage W0 docB docB.pages[0]),
     .pages (pagesSpec W0 docB []), .cmap [(65, 7), (66, 6)] (some [(65, 5), (66, 6)]),
     .page (freshPage W0 docA docA.pages[1]), .done, .done, .pages (pagesSpec W0 docA [1]), .ok] := by
  decide

/-- the caches really are used in that history: after it, the CMap caches hold CMap 1 and unicode
map 1, and iterator 2 (docB, caching on) holds objects 1-4, 9-11, the parsed object stream 9 and font 3 -/
example : ((run W0 (init W0) hist0).tables.cmaps.map (·.1), (run W0 (init W0) hist0).tables.umaps.map (·.1)) =
    ([1], [1]) := by decide

example : ((alookup 2 (run W0 (init W0) hist0).handles).map
    (fun h => (h.c.objs.map (·.1), h.c.pobjs.map (·.1), h.c.fonts.map (·.1)))) =
    some ([11, 4, 3, 9, 10, 2, 1], [9], [3]) := by decide

/-! ## Round 6: the process-wide state that extraction only reads, as explicit global state

`ProcGlobals.Globals` = interned literal / keyword tables, `PREDEFINED_COLORSPACE`, `FONT_METRICS`,
`settings.STRICT` (initial values regenerated from the Python sources); `renderPage` = `render_contents`
(`init_resources`, `init_state`, `execute`) for one page, `renderCall` = one interpreter over several pages,
`runHistory` = calls one after the other in one process. -/

section Globals
open PdfVerif.ProcGlobals

/-- intern is idempotent: asking again returns the same symbol and does not change the table -/
theorem C12_intern_idempotent (t : List Nat) (n : Nat) : intern (intern t n).2 n = intern t n :=
  intern_idem t n

/-- intern is monotone: the table only grows at the end, and every name that was in it keeps its
symbol — also over a whole sequence of further interning -/
theorem C12_intern_monotone (t names : List Nat) :
    (∃ e, internAll t names = t ++ e) ∧
    (∀ k i, find k t = some i → find k (internAll t names) = some i) :=
  ⟨internAll_prefix names t, fun _ _ h => internAll_stable names h⟩

/-- lookups after any history equal lookups in a fresh process, as far as a symbol can be observed:
the symbol returned for `a` has the name `a` (whatever table `t` the history produced), and a symbol
obtained later — after any further interning `hist` — is the same object iff the names are equal -/
theorem C12_intern_identity (t : List Nat) (a b : Nat) (hist : List Nat) :
    nameOf (intern t a).2 (intern t a).1 = some a ∧
    ((intern (internAll (intern t a).2 hist) b).1 = (intern t a).1 ↔ a = b) :=
  ⟨intern_name t a, intern_inj t a b hist⟩

/-- every modelled operation leaves PREDEFINED_COLORSPACE, FONT_METRICS and STRICT unchanged, and lets the
interned tables only grow at the end — for ALL histories of calls -/
theorem C12_globals_unchanged (g : Globals) (hist : List (List GPage)) :
    (runHistory g hist).static = g.static ∧
    (∃ e, (runHistory g hist).lits = g.lits ++ e) ∧ (∃ e, (runHistory g hist).kwds = g.kwds ++ e) :=
  ⟨runHistory_static hist g, runHistory_grow hist g⟩

/-- a read of the process-wide tables after any history = the same read in a fresh process -/
theorem C12_globals_lookup_history (g : Globals) (hist : List (List GPage)) (k : Nat) :
    metricsOf (runHistory g hist) k = metricsOf g k ∧
    ProcGlobals.alookup k (runHistory g hist).colorspaces = ProcGlobals.alookup k g.colorspaces ∧
    (runHistory g hist).strict = g.strict := by
  obtain ⟨h1, h2, h3⟩ := static_eq (runHistory_static hist g)
  exact ⟨by unfold metricsOf; rw [h2], by rw [h1], h3⟩

/-- per-page reset: the state a page ends in (colour-space map, current colour spaces, text state, saved
graphics states, raised-or-not) does not depend on what the previous page left behind, nor on which names
have been interned so far -/
theorem C12_page_state_reset (g g' : Globals) (left left' : PState) (pg : GPage) (h : g.static = g'.static) :
    (renderPage g left pg).1 = (renderPage g' left' pg).1 :=
  renderPage_indep left left' pg h

/-- page results are independent of the set and order of the pages processed before, in the same call
and in earlier calls: every page of a call after any history = that page rendered alone in a fresh process -/
theorem C12_page_state_history (g : Globals) (hist : List (List GPage)) (call : List GPage) :
    (renderCall (runHistory g hist) PState.init call).1 = call.map (fun pg => (renderPage g PState.init pg).1) := by
  rw [renderCall_pages]
  apply List.map_congr_left
  intro pg _
  exact renderPage_indep PState.init PState.init pg (runHistory_static hist g)

/-- proved counter-example for the broken discipline `csmap = PREDEFINED_COLORSPACE` (no copy): a page whose
resources redefine `/DeviceGray` as a 3-component ICC space changes the default colour space of the NEXT page -/
theorem cs_nocopy_cex :
    let g := G0 [] []
    let pgA : GPage := ⟨[(0, .icc 3)], []⟩
    let pgB : GPage := ⟨[], [.Tc 5]⟩
    (renderPage g PState.init pgB).1.scs = some (0, 1) ∧
    (renderPage (renderPage g PState.init pgA).2 PState.init pgB).1.scs = some (0, 1) ∧
    (renderPage (renderPageNoCopy g PState.init pgA).2 PState.init pgB).1.scs = some (ICCBASED, 3) := by
  decide

/-- non-vacuity: interning really grows the table, keeps identities, and re-finds old names -/
example : intern [7, 9] 4 = (2, [7, 9, 4]) ∧ intern [7, 9, 4] 9 = (1, [7, 9, 4]) ∧
    internAll [7] [9, 7, 4, 9] = [7, 9, 4] := by decide

def exP1 : GPage := ⟨[(2000, .named 4), (2001, .devicen 2)], [.Tc 3, .TL 14, .q, .Tz 90, .cs 2000, .CS 2001, .Tf 2002 12]⟩
def exP2 : GPage := ⟨[], [.Q, .Tw 2, .cs 2000, .unknown 1000]⟩

/-- non-vacuity: a call of two pages; page 1 sets text state, saves it, changes colour spaces through its own
`/CS0`; page 2 (no resources, a stray `Q`) starts from `PDFTextState()` and DeviceGray again; the tables grew -/
example :
    (renderCall (G0 [2000] [7]) PState.init [exP1, exP2]).1.map
        (fun s => (s.ts, s.scs, s.ncs, s.gstack.length, s.csmap.length)) =
      [(⟨12, 3, 0, 90, -14, 0, 0⟩, some (DEVICEN, 2), some (4, 3), 1, 11),
       (⟨0, 0, 2, 100, 0, 0, 0⟩, some (0, 1), some (0, 1), 0, 9)] ∧
    (renderCall (G0 [2000] [7]) PState.init [exP1, exP2]).2.lits = [2000, 2001, 2002] ∧
    (renderCall (G0 [2000] [7]) PState.init [exP1, exP2]).2.kwds = [7, 0, 3, 2, 9, 10, 6, 8, 1, 1000] ∧
    (renderCall (G0 [2000] [7]) PState.init [exP1, exP2]).2.static = (G0 [2000] [7]).static := by
  refine ⟨?_, ?_, ?_, ?_⟩ <;> decide

/-- `rg` selects `csmap["DeviceRGB"]` of the PAGE: a page whose resources redefine `/DeviceRGB` as a 4-component
ICC space gets that one — and the next page, without such resources, the predefined 3-component space again -/
example : ((renderCall (G0 [] []) PState.init
      [⟨[(Gen.ProcGlobals.IDX_DEVICERGB, .icc 4)], [.dev false 1, .dev true 2]⟩, ⟨[], [.dev false 1]⟩]).1.map
      (fun s => (s.scs, s.ncs))) =
    [(some (5, 4), some (ICCBASED, 4)), (some (0, 1), some (4, 3))] := by decide

/-- non-vacuity of the STRICT branch: under `STRICT` the undefined colour space stops the page -/
example : (renderPage { G0 [] [] with strict := true } PState.init ⟨[], [.Tc 3, .cs 2000, .Tw 9]⟩).1.err = true ∧
    (renderPage { G0 [] [] with strict := true } PState.init ⟨[], [.Tc 3, .cs 2000, .Tw 9]⟩).1.ts.wordspace = 0 ∧
    (renderPage { G0 [] [] with strict := true } PState.init ⟨[], [.Tc 3, .cs 2000, .Tw 9]⟩).2.kwds = [0, 9] := by
  decide

/-- the regenerated tables: 9 predefined colour spaces with DeviceGray first, 26 FONT_METRICS entries, STRICT off -/
example : (G0 [] []).colorspaces.length = 9 ∧ (G0 [] []).colorspaces.head? = some (0, (0, 1)) ∧
    (G0 [] []).strict = false ∧ metricsOf (G0 [] []) 0 = some (314, 188400) ∧ metricsOf (G0 [] []) 26 = none := by
  decide

end Globals

/-! ## Round 6: `PDFDocument.getobj` and its cache as a refinement of the pure function (bytes, objid) ↦ object,
with mutable containers (`Model/ProcObjCache.lean`) -/

section ObjCacheSection
open PdfVerif.ObjCache

/-- the object cache refines the pure parse function: after ANY history of callers that read or copy before
they change anything (pdfminer's own discipline), with caching on or off, `getobj n` hands out a value
equal to a fresh parse of object `n` -/
theorem C12_getobj_refines_parse (parse : Nat → Option (List Nat)) (caching : Bool) (hist : List ObjCache.Op)
    (h : ∀ op ∈ hist, op.inPlace = false) (n : Nat) :
    (ObjCache.step parse caching (ObjCache.run parse caching St.init hist) (.get n)).2 = parse n :=
  getobj_value caching n (run_inv caching hist h (inv_init parse))

/-- without the cache (`caching=False`) that holds for EVERY history, in-place changes by callers included:
every `getobj` is a fresh parse -/
theorem C12_getobj_nocache_pure (parse : Nat → Option (List Nat)) (hist : List ObjCache.Op) (n : Nat) :
    (ObjCache.step parse false (ObjCache.run parse false St.init hist) (.get n)).2 = parse n :=
  getobj_value false n (inv_of_nocache (run_nocache hist rfl))

/-- proved counter-example: `getobj` returns the cached container itself, NOT a copy — a caller that changes it
in place changes what every later `getobj` of that object returns (with the cache on; off, it is fresh again).
pdfminer's extraction code never does this (`cache_inv` on the implementation, checked at every close); user code
calling `doc.getobj` could. -/
theorem getobj_alias_cex :
    let parse : Nat → Option (List Nat) := fun n => if n = 5 then some [5] else none
    ObjCache.outputs parse true St.init [.get 5, .mutInPlace 5 99, .get 5] = [some [5], some [5], some [5, 99]] ∧
    ObjCache.outputs parse false St.init [.get 5, .mutInPlace 5 99, .get 5] = [some [5], some [5], some [5]] ∧
    ObjCache.outputs parse true St.init [.get 5, .copyMut 5 99, .get 5] = [some [5], some [5], some [5]] := by
  decide

/-- non-vacuity: the cache is really used (object 5 is parsed once: one heap cell for two reads, plus the copy) -/
example : ObjCache.run (fun n => if n = 5 then some [5] else none) true St.init [.get 5, .copyMut 5 7, .get 5, .get 6] =
    ⟨[[5], [5, 7]], [(5, 0)]⟩ := by decide

end ObjCacheSection

end PdfVerif.Props.C12
