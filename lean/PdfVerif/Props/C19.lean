/-
C19 — CCITT Group 4 decoding inverts a conforming encoder for every bitmap.

Model:  `PdfVerif.Ccitt` (Model/Ccitt.lean) — BitParser tries, CCITTG4Parser, CCITTFaxDecoder,
        ccittfaxdecode; code tables `PdfVerif.Gen.CcittTables` regenerated from pdfminer/ccitt.py
        on every run.
Spec:   `PdfVerif.Spec.T6` (Spec/T6.lean) — T.6 encoder with a free, explicit choice of coding
        mode at every step, T.4 run-length codes from a frozen transcription of the Recommendation,
        optional byte alignment / EOFB, and the packed-sample form of a bitmap.
Tie:    tools/harness/props/c19.py (model = implementation on encoded, damaged and random
        streams; Lean encoder = Python encoder; round trip on the implementation itself).

Only property theorems live here; the lemmas are in `Lemmas/Ccitt{Tables,Feed,Run,Line,Image}.lean`.
Pixels: `true` = white.
-/
import PdfVerif.Lemmas.CcittImage
import PdfVerif.Lemmas.CcittTotal
import PdfVerif.Lemmas.CcittBound
import PdfVerif.Model.CcittStream
import PdfVerif.Lemmas.CcittSpecTables
import PdfVerif.Lemmas.CcittParams
import PdfVerif.Lemmas.CcittPolarity
import PdfVerif.Lemmas.CcittColumns

namespace PdfVerif.Props.C19
open PdfVerif PdfVerif.Ccitt PdfVerif.Gen PdfVerif.Spec

/-! ## Code tables (all by kernel evaluation of the regenerated tables) -/

/-- In each of pdfminer's four tables no code word is a prefix of (or equal to) another one. -/
theorem tables_prefix_free :
    prefixFree (CcittTables.MODE.map (·.2)) = true ∧ prefixFree (CcittTables.WHITE.map (·.2)) = true ∧
    prefixFree (CcittTables.BLACK.map (·.2)) = true ∧ prefixFree (CcittTables.UNCOMPRESSED.map (·.2)) = true := by
  refine ⟨?_, ?_, ?_, ?_⟩
  · simpa [modeTbl, List.map_map, Function.comp_def] using mode_prefixFree
  · simpa [whiteTbl, List.map_map, Function.comp_def] using white_prefixFree
  · simpa [blackTbl, List.map_map, Function.comp_def] using black_prefixFree
  · simpa [uncTbl, List.map_map, Function.comp_def] using unc_prefixFree

/-- `BitParser.add` succeeds on every entry, and the resulting trie stores exactly the table:
its (value, path) leaves are the table's (value, code word) entries, nothing lost, nothing added. -/
theorem trie_decodes_table :
    (buildTrie modeTbl = some modeTrie ∧ sameEntries modeTrie.leaves modeTbl = true) ∧
    (buildTrie whiteTbl = some whiteTrie ∧ sameEntries whiteTrie.leaves whiteTbl = true) ∧
    (buildTrie blackTbl = some blackTrie ∧ sameEntries blackTrie.leaves blackTbl = true) ∧
    (buildTrie uncTbl = some uncTrie ∧ sameEntries uncTrie.leaves uncTbl = true) :=
  ⟨⟨mode_build, mode_leaves⟩, ⟨white_build, white_leaves⟩, ⟨black_build, black_leaves⟩, ⟨unc_build, unc_leaves⟩⟩

/-- pdfminer's run-length tables are the T.4 tables (same set of (length, code) pairs as the frozen
transcription), and its MODE table contains every T.6 mode code the encoder uses. -/
theorem tables_are_T4 :
    sameRuns CcittTables.WHITE T6.white = true ∧ sameRuns CcittTables.BLACK T6.black = true ∧
    modeSpec.all (fun e => CcittTables.MODE.contains e) = true :=
  ⟨white_is_T4, black_is_T4, mode_is_T6⟩

/-- Following the T.4 / T.6 code word of a symbol from the root of pdfminer's trie ends exactly on
the leaf of that symbol (terminating codes, make-up codes, pass, horizontal, vertical, EOFB). -/
theorem trie_lookup :
    (∀ (c : Bool) (n : Nat), n < 64 →
      Trie.follow (runTrie c) (T6.runCode c n) = some (.leaf (.run n))) ∧
    (∀ (c : Bool) (m : Nat), 64 ≤ m → m ≤ 2560 → m % 64 = 0 →
      Trie.follow (runTrie c) (T6.runCode c m) = some (.leaf (.run m))) ∧
    Trie.follow modeTrie T6.codeP = some (.leaf (.mode .p)) ∧
    Trie.follow modeTrie T6.codeH = some (.leaf (.mode .h)) ∧
    Trie.follow modeTrie T6.codeEOFB = some (.leaf (.mode .e)) ∧
    (∀ d : Int, -3 ≤ d → d ≤ 3 → Trie.follow modeTrie (T6.codeV d) = some (.leaf (.mode (.v d)))) :=
  ⟨fun c _ h => (runCode_term c h).2, fun c _ h1 h2 h3 => (runCode_makeup c h1 h2 h3).2,
    mode_codes_ok.1, mode_codes_ok.2.1, mode_codes_ok.2.2.1, fun _ h1 h2 => (codeV_ok h1 h2).2⟩

/-! ## Run lengths -/

/-- Every run length of either colour round-trips: from the state right after an `H` code
(`_accept = _parse_horiz1`, table of the current colour), the code of a run of `n` pixels —
k × 2560, make-up, terminating — adds exactly `n` to `_n1`, flips the colour and hands over to
`_parse_horiz2`, consuming exactly the code's bits. -/
theorem run_rt (c : Bool) (n : Nat) (st0 : St) (hacc : st0.acc = .horiz1) (hcol : st0.color = c)
    (hnode : st0.node = runTrie c) :
    ∃ st1 : St, st1.n1 = st0.n1 + n ∧ st1.n2 = 0 ∧ st1.color = (!c) ∧ st1.acc = .horiz2 ∧
      st1.node = runTrie (!c) ∧ SameLine st1 st0 ∧
      ∀ (pos : Nat) (rest : List Bool), feedFlat st0 pos 0 (T6.encodeRun c n ++ rest) =
        feedFlat st1 (pos + (T6.encodeRun c n).length) 0 rest := by
  subst hcol
  obtain ⟨st1, hs, hc, ha, hn, h1, h2, hf⟩ := feed_run_first st0 hacc hnode n
  exact ⟨st1, h1, h2, hc, ha, hn, hs, hf⟩

/-! ## One line -/

/-- The fuel `cur.length + 1` of `encodeLine` is never exhausted: more fuel gives the same code. -/
theorem encodeLine_fuel (ref cur : List Bool) (href : ref.length = cur.length) (chs : List T6.Choice)
    (fuel : Nat) (h : cur.length + 1 ≤ fuel) :
    T6.encodeLineAux ref cur fuel (-1) true chs = T6.encodeLine ref cur chs := by
  unfold T6.encodeLine
  exact encodeLineAux_fuel rfl href fuel (cur.length + 1) (-1) true chs (by omega) (by omega) (by omega)

/-- Line round trip, for every width ≥ 1, every reference line, every line and EVERY list of mode
choices (pass / vertical / horizontal wherever admissible, in any mix): a parser standing at the
start of a line with reference line `ref` consumes exactly the bits of `encodeLine ref cur chs`,
appends the packed line `cur` to its output, and stands at the start of the next line with `cur`
as reference line (having raised `ByteSkip` on the last bit iff `EncodedByteAlign`). -/
theorem line_rt (w : Nat) (hw : 1 ≤ w) (al rv : Bool) (ref cur : List Bool) (href : ref.length = w)
    (hcur : cur.length = w) (chs : List T6.Choice) (buf : List UInt8) (st : St)
    (h : Ready w al rv ref buf st) :
    ∃ st', Ready w al rv cur (buf ++ packLine rv cur) st' ∧ T6.encodeLine ref cur chs ≠ [] ∧
      ∀ (pos : Nat) (rest : List Bool), feedFlat st pos 0 (T6.encodeLine ref cur chs ++ rest) =
        feedFlat st' (pos + (T6.encodeLine ref cur chs).length)
          (skipAfter al (pos + (T6.encodeLine ref cur chs).length)) rest :=
  feed_line hw hcur href chs h

/-- The byte loop of `feedbytes` (with `ByteSkip` dropping the rest of a byte) is the flat bit
semantics used in `run_rt` / `line_rt`. -/
theorem feedbytes_is_flat (bytes : List UInt8) (st : St) :
    feedBytes st bytes = feedFlat st 0 0 (bytes.flatMap bitsOfByte) :=
  feedBytes_flat bytes st 0 rfl

/-! ## Whole images -/

/-- **C19, full statement.**  For every width ≥ 1, every list of rows of that width (any height,
including none), every per-row list of mode choices, with or without `EncodedByteAlign`, with or
without EOFB, and for either polarity, `ccittfaxdecode` applied to the T.6 encoding returns exactly
the packed original rows. -/
theorem image_rt (w : Nat) (hw : 1 ≤ w) (rows : List (List Bool)) (hrows : ∀ r ∈ rows, r.length = w)
    (chs : List (List T6.Choice)) (align eofb blackIs1 : Bool) :
    ccittfaxdecode (some (-1)) (some (w : Int)) align blackIs1 (T6.encodeImage w rows chs align eofb)
      = .ok (T6.packImage blackIs1 rows) := by
  obtain ⟨st', hf, hb⟩ := feed_image (al := align) (rv := blackIs1) hw rows chs eofb hrows
  have hlen := padTo8_length (T6.encodeRows align (List.replicate w true) rows chs ++
    (if eofb then T6.codeEOFB else []))
  have hup := unpack_pack ((T6.encodeImageBits w rows chs align eofb).length / 8)
    (T6.encodeImageBits w rows chs align eofb) (by unfold T6.encodeImageBits; omega)
  have hc : ¬ ((w : Int) ≤ 0) := by omega
  simp only [ccittfaxdecode, ne_eq, not_true_eq_false, if_false, Option.getD_some, hc, Int.toNat_natCast,
    T6.encodeImage]
  rw [feedBytes_flat _ _ 0 rfl, hup, hf]
  simp only [hb, packLine_fun]
  rfl

/-- The same through the parameter dictionary (the `CCITTFaxDecode` branch of `PDFStream.decode`
hands `DecodeParms` to `ccittfaxdecode`): keys may be absent when the value is the ISO 32000-1
default — Columns 1728, EncodedByteAlign false, BlackIs1 false. -/
theorem stream_rt (p : Params) (w : Nat) (hw : 1 ≤ w) (hK : p.K = some (-1))
    (hcol : p.columns.getD 1728 = (w : Int)) (rows : List (List Bool)) (hrows : ∀ r ∈ rows, r.length = w)
    (chs : List (List T6.Choice)) (eofb : Bool) :
    ccittfaxdecodeParams p
        (T6.encodeImage w rows chs (p.encodedByteAlign.getD false) eofb)
      = .ok (T6.packImage (p.blackIs1.getD false) rows) := by
  have h := image_rt w hw rows hrows chs (p.encodedByteAlign.getD false) eofb (p.blackIs1.getD false)
  simp only [ccittfaxdecodeParams, hK]
  simp only [ccittfaxdecode, CcittCode.columnsDefault, Option.getD_some, hcol] at h ⊢
  exact h

/-! ## From the stream dictionary to the decoder (PDFStream.get_filters / _decode) -/

/-- `decodeChain` runs the filters one after the other. -/
theorem decodeChain_append (other : String → List UInt8 → Except Err (List UInt8)) :
    ∀ (pre post : List (PObj × PObj)) (raw : List UInt8),
      decodeChain other (pre ++ post) raw =
        match decodeChain other pre raw with
        | .ok mid => decodeChain other post mid
        | .error e => .error e := by
  intro pre
  induction pre with
  | nil => intro post raw; rfl
  | cons fp rest ih =>
    intro post raw
    obtain ⟨f, p⟩ := fp
    simp only [List.cons_append, decodeChain]
    cases decodeStep other f p raw with
    | error e => rfl
    | ok d => exact ih post d

/-- The CCITTFaxDecode branch on a parameter dictionary `d`: `K` is the integer -1, `Columns` an
integer or absent (1728), the two flags anything Python treats as a truth value, and ANY other
entries (/Rows, /EndOfBlock, /EndOfLine, /DamagedRowsBeforeError, …) — they are never read. -/
theorem ccittBranch_rt (d : Dict) (w : Nat) (hw : 1 ≤ w) (c : Option Int) (al rv : Bool)
    (hK : d.lookup CcittStream.keyK = some (.int (-1)))
    (hcols : columnsOf d = .ok c) (hc : c.getD 1728 = (w : Int))
    (hal : flagOf d CcittStream.keyAlign = .ok al) (hrv : flagOf d CcittStream.keyBlackIs1 = .ok rv)
    (rows : List (List Bool)) (hrows : ∀ r ∈ rows, r.length = w) (chs : List (List T6.Choice)) (eofb : Bool) :
    ccittBranch (.dict d) (T6.encodeImage w rows chs al eofb) = .ok (T6.packImage rv rows) := by
  have h := stream_rt ⟨some (-1), c, some al, some rv⟩ w hw rfl hc rows hrows chs eofb
  simp only [ccittfaxdecodeParams, Option.getD_some] at h
  have hk : kOf d = .ok (some (-1)) := by simp only [kOf, hK]
  simp only [ccittBranch, hk, hcols, hal, hrv]
  exact h

/-- **PDFStream.get_data() on a CCITTFaxDecode stream.**  Whatever way the dictionary spells it —
`/Filter` or `/F`, a name or an array, `/DecodeParms`, `/DP` or `/FDecodeParms`, a dictionary or an
array with one entry per filter — if `get_filters` pairs the last filter, named `CCITTFaxDecode` or
`CCF`, with a dictionary `d` as in `ccittBranch_rt` (no `/Predictor`), and the filters in front of it
(any model `other` of them) turn the raw data into the T.6 encoding of the image, then the stream
decodes to exactly the packed rows. -/
theorem pdfstream_rt (other : String → List UInt8 → Except Err (List UInt8)) (attrs : Dict)
    (pre : List (PObj × PObj)) (fname : String) (d : Dict) (raw : List UInt8)
    (w : Nat) (hw : 1 ≤ w) (c : Option Int) (al rv : Bool)
    (rows : List (List Bool)) (hrows : ∀ r ∈ rows, r.length = w) (chs : List (List T6.Choice)) (eofb : Bool)
    (hgf : getFilters attrs = pre ++ [(.name fname, .dict d)])
    (hname : CcittStream.ccittFilterNames.contains fname = true)
    (hpre : decodeChain other pre raw = .ok (T6.encodeImage w rows chs al eofb))
    (hK : d.lookup CcittStream.keyK = some (.int (-1)))
    (hcols : columnsOf d = .ok c) (hc : c.getD 1728 = (w : Int))
    (hal : flagOf d CcittStream.keyAlign = .ok al) (hrv : flagOf d CcittStream.keyBlackIs1 = .ok rv)
    (hpred : d.lookup CcittStream.predictorKey = none) :
    streamDecode other attrs raw = .ok (T6.packImage rv rows) := by
  have hb := ccittBranch_rt d w hw c al rv hK hcols hc hal hrv rows hrows chs eofb
  simp only [streamDecode, hgf, decodeChain_append, hpre, decodeChain, decodeStep, hname, if_true, hb,
    hasPredictor, hpred, Option.isSome_none, Bool.false_eq_true, if_false]

/-- How `get_filters` pairs a single filter name with a single parameter dictionary … -/
theorem getFilters_name_dict (attrs : Dict) (n : String) (d : Dict)
    (hf : getAny attrs CcittStream.filterKeys = some (.name n))
    (hp : getAny attrs CcittStream.parmsKeys = some (.dict d)) :
    getFilters attrs = [(.name n, .dict d)] := by
  simp [getFilters, hf, hp, PObj.falsy, List.replicate]

/-- … an array of filters with an array of parameters (position by position, `zip`) … -/
theorem getFilters_arr_arr (attrs : Dict) (f : PObj) (fs ps : List PObj)
    (hf : getAny attrs CcittStream.filterKeys = some (.arr (f :: fs)))
    (hp : getAny attrs CcittStream.parmsKeys = some (.arr ps)) :
    getFilters attrs = (f :: fs).zip ps := by
  simp [getFilters, hf, hp, PObj.falsy]

/-- … and an array of filters with one dictionary (every filter gets it). -/
theorem getFilters_arr_dict (attrs : Dict) (f : PObj) (fs : List PObj) (d : Dict)
    (hf : getAny attrs CcittStream.filterKeys = some (.arr (f :: fs)))
    (hp : getAny attrs CcittStream.parmsKeys = some (.dict d)) :
    getFilters attrs = (f :: fs).zip (List.replicate (fs.length + 1) (.dict d)) := by
  simp [getFilters, hf, hp, PObj.falsy]

/-! ## Totality on arbitrary data (feeds C13) -/

/-- For EVERY byte string and every parameter combination with a positive width, the model of
`ccittfaxdecode` returns data or raises `CCITTG4Parser.InvalidData` (a `PDFException`), or
`PDFValueError` when K is not -1 — nothing else: the internal `unmodelled` branches (a code table
handing out a symbol of the wrong kind, `_state` not being a list, …) are unreachable.  The work is
bounded by construction: `feedBytes`/`feedBits` call `stepBit` once per bit, at most 8·len(data) times. -/
theorem decode_total (K cols : Option Int) (al rv : Bool) (data : List UInt8)
    (hc : 1 ≤ cols.getD 1728) :
    (∃ out, ccittfaxdecode K cols al rv data = .ok out) ∨
    (K = some (-1) ∧ ccittfaxdecode K cols al rv data = .error .invalidData) ∨
    (K ≠ some (-1) ∧ ccittfaxdecode K cols al rv data = .error .valueError) := by
  by_cases hK : K = some (-1)
  · subst hK
    have hc' : ¬ ((cols.getD 1728) ≤ 0) := by omega
    have hwt : WT (initSt (cols.getD 1728).toNat al rv) := wt_mode _ rfl rfl
    simp only [ccittfaxdecode, CcittCode.columnsDefault, hc']
    rcases feedBytes_total data _ hwt with ⟨st', h⟩ | h
    · left; exact ⟨st'.buf, by simp [CcittCode.kGroup4, h]⟩
    · right; left; exact ⟨trivial, by simp [CcittCode.kGroup4, h]⟩
  · right; right
    refine ⟨hK, ?_⟩
    have : K ≠ some CcittCode.kGroup4 := hK
    simp only [ccittfaxdecode, this, ne_eq, not_false_eq_true, if_true]

/-- Bounded output (hence bounded work per input byte): whatever the data, the decoder emits at most
48 lines — 48·⌈width/8⌉ bytes — per input byte (6 per bit: the longest uncompressed-mode symbol;
a T.6 mode code completes at most one line). -/
theorem decode_output_bounded (K cols : Option Int) (al rv : Bool) (data out : List UInt8)
    (hc : 1 ≤ cols.getD 1728) (h : ccittfaxdecode K cols al rv data = .ok out) :
    out.length ≤ 48 * data.length * (((cols.getD 1728).toNat + 7) / 8) := by
  have hc' : ¬ ((cols.getD 1728) ≤ 0) := by omega
  simp only [ccittfaxdecode, CcittCode.columnsDefault, hc'] at h
  split at h
  · cases h
  · simp only [if_false] at h
    cases hf : feedBytes (initSt (cols.getD 1728).toNat al rv) data with
    | error e => rw [hf] at h; cases h
    | ok st' =>
      rw [hf] at h
      simp only [Except.ok.injEq] at h
      subst h
      have hwt : WT (initSt (cols.getD 1728).toNat al rv) := wt_mode _ rfl rfl
      have g := feedBytes_grew data _ st' hwt (by simp [initSt]) hf
      have := g.buf
      simp only [initSt, List.length_nil, Nat.zero_add, lineBytes] at this
      exact this

/-- The same for the dictionary route: only `PDFException`s (`InvalidData`, `PDFValueError`,
`PDFNotImplementedError`) or, for objects outside the model's domain (non-integer Columns, a
predictor, …), the explicit `unmodelled` marker come out of the CCITT branch — and for a
well-formed Group 4 dictionary with positive width not even that. -/
theorem ccittBranch_total (d : Dict) (c : Option Int) (al rv : Bool) (data : List UInt8)
    (hK : d.lookup CcittStream.keyK = some (.int (-1)))
    (hcols : columnsOf d = .ok c) (hc : 1 ≤ c.getD 1728)
    (hal : flagOf d CcittStream.keyAlign = .ok al) (hrv : flagOf d CcittStream.keyBlackIs1 = .ok rv) :
    (∃ out, ccittBranch (.dict d) data = .ok out) ∨ ccittBranch (.dict d) data = .error .invalidData := by
  have hk : kOf d = .ok (some (-1)) := by simp only [kOf, hK]
  have hg : ((-1 : Int) = CcittCode.kGroup4) := rfl
  simp only [ccittBranch, hk, hcols, hal, hrv, ne_eq, hg, not_true_eq_false, if_false]
  rw [← hg]
  rcases decode_total (some (-1)) c al rv data hc with h | ⟨_, h⟩ | ⟨h, _⟩
  · left; exact h
  · right; exact h
  · exact absurd rfl h

/-- A parameter object that is not a dictionary (null, number, name, array, …) means "all defaults",
i.e. K absent: the CCITT branch reports `PDFValueError` whatever the data — never an undocumented
exception (upstream fixes 82c142f and f22e689). -/
theorem ccittBranch_nondict (p : PObj) (h : ∀ d, p ≠ .dict d) (data : List UInt8) :
    ccittBranch p data = .error .valueError := by
  cases p with
  | dict d => exact absurd rfl (h d)
  | null => rfl
  | bool b => rfl
  | int i => rfl
  | name s => rfl
  | other => rfl
  | arr xs => rfl

example : ccittBranch (.arr [.int 7]) [0x80] = .error .valueError :=
  ccittBranch_nondict _ (by intro d hd; cases hd) _

/-! ## The uncompressed-mode extension is outside the property

C19 quantifies over "any admissible mix of pass, vertical and horizontal modes"; the optional
uncompressed mode of T.6 (entered by the extension code 0000001111) is not one of them, and the
source itself says "Bugs: uncompressed mode untested".  The decoder's handling of it is modelled
(`parseUncompressed`, `doUncompressed`) and tied to the code on crafted streams, so that `decode_total`
covers it, but no round trip can be stated: `_do_uncompressed` writes its first pixel to
`curline[-1]` (the LAST column, because `_curpos` starts at -1), so a row never completes after
`width` pixels.  Proved on the smallest instance: -/

/-- Width 2, uncompressed mode, the two pixels `0 1`: no row comes out at all; only a third pixel
completes the row, which is then `1 1` whatever the first pixel was. -/
theorem uncompressed_mode_cex :
    (ccittfaxdecode (some (-1)) (some 2) false false [0x03, 0xD0]).toOption = some [] ∧
    (ccittfaxdecode (some (-1)) (some 2) false false [0x03, 0xD8]).toOption = some [0xC0] := by
  decide +kernel

/-! ## Non-vacuity: concrete instances, evaluated by the kernel -/

/-- A 5×3 bitmap whose rows are coded with horizontal+vertical, pass+vertical+horizontal and
horizontal modes, byte aligned, with EOFB. -/
example :
    T6.encodeImage 5 [[true, false, true, true, true], [true, true, true, true, false],
        [false, false, false, false, false]] [[.horiz, .vert], [.pass, .vert, .horiz], []] true true
      = [0x23, 0xA8, 0x14, 0x51, 0xA8, 0x26, 0xA6, 0x00, 0x10, 0x01] := by decide +kernel

example :
    (ccittfaxdecode (some (-1)) (some 5) true false
      [0x23, 0xA8, 0x14, 0x51, 0xA8, 0x26, 0xA6, 0x00, 0x10, 0x01]).toOption = some [0xB8, 0xF0, 0x00] := by
  decide +kernel

/-- The hypotheses of `image_rt` are met by it (and the conclusion is the evaluation above). -/
example : ccittfaxdecode (some (-1)) (some ((5 : Nat) : Int)) true false
    (T6.encodeImage 5 [[true, false, true, true, true], [true, true, true, true, false],
        [false, false, false, false, false]] [[.horiz, .vert], [.pass, .vert, .horiz], []] true true)
      = .ok (T6.packImage false [[true, false, true, true, true], [true, true, true, true, false],
        [false, false, false, false, false]]) :=
  image_rt 5 (by omega) _ (by decide) _ true true false

/-- A run longer than 2623 pixels really uses 2560 + make-up + terminating codes. -/
example : T6.encodeRun false 2700 = T6.runCode false 2560 ++ T6.runCode false 128 ++ T6.runCode false 12 := by
  decide +kernel

/-- Pass mode is really used by the standard choice on some input (b2 < a1). -/
example : T6.encodeLine [true, false, true, true, true] [true, true, true, true, false] []
    = T6.codeP ++ T6.codeV (-1) ++ T6.codeV 0 := by decide +kernel

/-- `pdfstream_rt` on a concrete dictionary: `/F [/AHx /CCF] /DP [null << /K -1 /Columns 5
/EncodedByteAlign true /Rows 3 /EndOfBlock true >>] /Length 21`, the first filter standing for any
decoder that delivers the T.6 data. -/
example :
    streamDecode (fun _ _ => .ok [0x23, 0xA8, 0x14, 0x51, 0xA8, 0x26, 0xA6, 0x00, 0x10, 0x01])
      [("Length", .int 21), ("F", .arr [.name "AHx", .name "CCF"]),
       ("DP", .arr [.null, .dict [("K", .int (-1)), ("Columns", .int 5), ("EncodedByteAlign", .bool true),
                                  ("Rows", .int 3), ("EndOfBlock", .bool true)]])] []
      = .ok (T6.packImage false [[true, false, true, true, true], [true, true, true, true, false],
        [false, false, false, false, false]]) := by
  have henc : T6.encodeImage 5 [[true, false, true, true, true], [true, true, true, true, false],
        [false, false, false, false, false]] [[.horiz, .vert], [.pass, .vert, .horiz], []] true true
      = [0x23, 0xA8, 0x14, 0x51, 0xA8, 0x26, 0xA6, 0x00, 0x10, 0x01] := by decide +kernel
  refine pdfstream_rt _ _ [(.name "AHx", .null)] "CCF"
    [("K", .int (-1)), ("Columns", .int 5), ("EncodedByteAlign", .bool true), ("Rows", .int 3),
     ("EndOfBlock", .bool true)] [] 5 (by omega) (some 5) true false _ (by decide)
    [[.horiz, .vert], [.pass, .vert, .horiz], []] true
    ((getFilters_arr_arr _ (.name "AHx") [.name "CCF"] _ rfl rfl).trans rfl) (by decide) ?_ rfl rfl rfl rfl rfl rfl
  rw [henc]; rfl

/-- `decode_total` is not vacuous in any of its three cases: data, `InvalidData`, `PDFValueError`. -/
example :
    (ccittfaxdecode (some (-1)) (some 3) false false [0x00, 0x80]).toOption = none ∧
    (ccittfaxdecode (some (-1)) (some 3) false false [0xFF, 0x12, 0x34]).toOption = some [0xE0, 0xE0, 0xE0, 0xE0, 0xE0, 0xE0, 0xE0, 0xE0, 0xE0] ∧
    (ccittfaxdecode (some 0) (some 3) false false [0xFF]).toOption = none := by
  decide +kernel

/-- `run_rt`, `line_rt`, `encodeLine_fuel`, `ccittBranch_total`: their hypotheses are met by ordinary states. -/
example : ∃ st1 : St, st1.n1 = 0 + 2700 ∧ st1.color = false :=
  (run_rt true 2700 { initSt 5 false false with acc := .horiz1, node := runTrie true } rfl rfl rfl).elim
    fun st1 h => ⟨st1, h.1, h.2.2.1⟩

example : ∃ st', Ready 5 true false [true, false, false, true, true]
    ([] ++ packLine false [true, false, false, true, true]) st' :=
  (line_rt 5 (by omega) true false (List.replicate 5 true) [true, false, false, true, true] rfl rfl
    [.horiz, .vert] [] (initSt 5 true false) ⟨rfl, rfl, rfl, rfl, rfl, rfl, rfl, rfl, rfl, rfl⟩).elim
    fun st' h => ⟨st', h.1⟩

example : T6.encodeLineAux [true, true, true] [false, true, false] 100 (-1) true [.vert]
    = T6.encodeLine [true, true, true] [false, true, false] [.vert] :=
  encodeLine_fuel [true, true, true] [false, true, false] rfl [.vert] 100 (by decide)

example : (∃ out, ccittBranch (.dict [("K", .int (-1)), ("Columns", .int 3), ("BlackIs1", .int 1)]) [0x00, 0x80] = .ok out) ∨
    ccittBranch (.dict [("K", .int (-1)), ("Columns", .int 3), ("BlackIs1", .int 1)]) [0x00, 0x80] = .error .invalidData :=
  ccittBranch_total _ (some 3) false true _ rfl rfl (by decide) rfl rfl

/-- `decode_output_bounded` on the all-ones data above: 9 bytes out of 3 bytes in, bound 144. -/
example : (9 : Nat) ≤ 48 * [0xFF, 0x12, 0x34].length * ((((some 3 : Option Int).getD 1728).toNat + 7) / 8) := by
  decide

/-! ## Round 6: the specification's tables by themselves, and the rest of the parameter space -/

/-- **The encoder specification conforms to T.4 / T.6 — a statement that does not mention pdfminer.**
The frozen tables of `Spec/T6.lean` list exactly the run lengths 0..63 and 64·i ≤ 2560, once each, for
either colour; each table is prefix-free and uses the code space 1 - 2⁻⁸ (Kraft), the rest being the
prefix `00000000` of EOL, which no code word starts with; lengths are within T.4's limits; the extended
make-up codes 1792..2560 are common to both colours, the ordinary ones are not; the mode codes P, H,
V0, VR1-3, VL1-3 are prefix-free and leave exactly `0000001…` (extensions) and `0000000…` (EOFB). -/
theorem spec_tables_T4 :
    (T6.white.map (·.1) = runKeys ∧ T6.black.map (·.1) = runKeys) ∧
    (prefixFree (T6.white.map (·.2)) = true ∧ prefixFree (T6.black.map (·.2)) = true) ∧
    (kraft 13 (T6.white.map (·.2)) = 2 ^ 13 - 2 ^ 5 ∧ kraft 13 (T6.black.map (·.2)) = 2 ^ 13 - 2 ^ 5) ∧
    (T6.white ++ T6.black).all (fun e => !isPrefix (List.replicate 8 false) e.2) = true ∧
    (T6.white.all (fun e => decide (4 ≤ e.2.length ∧ e.2.length ≤ 12)) = true ∧
      T6.black.all (fun e => decide (2 ≤ e.2.length ∧ e.2.length ≤ 13)) = true) ∧
    (List.range 13).all (fun i => T6.runCode true (1792 + 64 * i) == T6.runCode false (1792 + 64 * i)
      && (T6.runCode true (1792 + 64 * i)).length ≥ 11) = true ∧
    (List.range 27).all (fun i => T6.runCode true (64 + 64 * i) != T6.runCode false (64 + 64 * i)) = true ∧
    (prefixFree specModeCodes = true ∧ kraft 7 specModeCodes = 2 ^ 7 - 2 ∧
      specModeCodes.all (fun c => !isPrefix (List.replicate 6 false) c) = true ∧
      isPrefix (List.replicate 7 false) T6.codeEOFB = true ∧ T6.codeEOFB.length = 24) :=
  ⟨⟨spec_white_keys, spec_black_keys⟩, ⟨spec_white_prefixFree, spec_black_prefixFree⟩,
    ⟨spec_white_kraft, spec_black_kraft⟩, spec_no_eol_prefix, spec_code_lengths, spec_extended_shared,
    spec_ordinary_differ, spec_mode_codes⟩

/-- Completeness of the specification's code assignment: every terminating length, every make-up
length and every vertical offset |d| ≤ 3 (and no other) has a code word. -/
theorem spec_codes_complete :
    (∀ (c : Bool) (n : Nat), (n < 64 ∨ (64 ≤ n ∧ n ≤ 2560 ∧ n % 64 = 0)) → T6.runCode c n ≠ []) ∧
    (∀ d : Int, T6.codeV d ≠ [] ↔ (-3 ≤ d ∧ d ≤ 3)) :=
  ⟨runCode_complete, codeV_nonempty_iff⟩

/-- Shape of the specification's run-length code for EVERY run length: k codes for 2560 (k ≥ 1 only
together with a make-up code), at most one make-up code m = 64·j ≤ 2560, exactly one terminating code
t < 64, and `n = 2560·k + m + t`. -/
theorem spec_encodeRun_shape (c : Bool) (n : Nat) :
    ∃ k m t, n = 2560 * k + m + t ∧ t < 64 ∧ m % 64 = 0 ∧ m ≤ 2560 ∧ (1 ≤ k → 64 ≤ m) ∧
      T6.encodeRun c n = (List.replicate k (T6.runCode c 2560)).flatten ++
        (if m = 0 then [] else T6.runCode c m) ++ T6.runCode c t :=
  encodeRun_shape c n

example : T6.encodeRun true 5184 =
    (List.replicate 1 (T6.runCode true 2560)).flatten ++ (if 2560 = 0 then [] else T6.runCode true 2560) ++
      T6.runCode true 64 → False := by decide +kernel   -- 64 is not a terminating code: 5184 = 2·2560 + 64 + 0

example : T6.encodeRun true 5184 = T6.runCode true 2560 ++ T6.runCode true 2560 ++ T6.runCode true 64 ++
    T6.runCode true 0 := by decide +kernel

/-- **EndOfBlock.**  Decoding stops at EOFB: for every image (as in `image_rt`) and every byte string
whose bits start with the rows' code followed by EOFB, the result is exactly the packed rows —
whatever bits follow (fill, further images, garbage).  `/EndOfBlock` and `/Rows` are never consulted. -/
theorem eofb_ends_decoding (w : Nat) (hw : 1 ≤ w) (rows : List (List Bool)) (hrows : ∀ r ∈ rows, r.length = w)
    (chs : List (List T6.Choice)) (align blackIs1 : Bool) (data : List UInt8) (rest : List Bool)
    (hd : data.flatMap bitsOfByte =
      T6.encodeRows align (List.replicate w true) rows chs ++ T6.codeEOFB ++ rest) :
    ccittfaxdecode (some (-1)) (some (w : Int)) align blackIs1 data = .ok (T6.packImage blackIs1 rows) := by
  obtain ⟨st', hf, hb⟩ := feed_image_eofb_any (al := align) (rv := blackIs1) hw rows chs hrows rest
  have hc : ¬ ((w : Int) ≤ 0) := by omega
  simp only [ccittfaxdecode, ne_eq, not_true_eq_false, if_false, Option.getD_some, hc, Int.toNat_natCast]
  rw [feedBytes_flat _ _ 0 rfl, hd, hf]
  simp only [hb, packLine_fun]
  rfl

/-- In particular any bytes appended to a complete encoding with EOFB are ignored. -/
theorem image_rt_trailing (w : Nat) (hw : 1 ≤ w) (rows : List (List Bool)) (hrows : ∀ r ∈ rows, r.length = w)
    (chs : List (List T6.Choice)) (align blackIs1 : Bool) (trail : List UInt8) :
    ccittfaxdecode (some (-1)) (some (w : Int)) align blackIs1 (T6.encodeImage w rows chs align true ++ trail)
      = .ok (T6.packImage blackIs1 rows) := by
  have hlen := padTo8_length (T6.encodeRows align (List.replicate w true) rows chs ++ T6.codeEOFB)
  have hup := unpack_pack ((T6.encodeImageBits w rows chs align true).length / 8)
    (T6.encodeImageBits w rows chs align true) (by simp only [T6.encodeImageBits, if_true]; omega)
  refine eofb_ends_decoding w hw rows hrows chs align blackIs1 _
    (List.replicate ((8 - (T6.encodeRows align (List.replicate w true) rows chs ++ T6.codeEOFB).length % 8) % 8) false
      ++ trail.flatMap bitsOfByte) ?_
  simp only [T6.encodeImage, List.flatMap_append, hup]
  simp only [T6.encodeImageBits, T6.padTo8, if_true, List.append_assoc]

/-- **Extension codes.**  After any number of correctly coded rows, one of the T.6 extension codes
`0000001000 … 0000001110` (`x1..x7` of pdfminer's MODE table; only `0000001111`, uncompressed mode, is
interpreted) makes `ccittfaxdecode` raise `InvalidData` — no partial output, whatever follows. -/
theorem extension_codes_rejected (w : Nat) (hw : 1 ≤ w) (rows : List (List Bool))
    (hrows : ∀ r ∈ rows, r.length = w) (chs : List (List T6.Choice)) (align blackIs1 : Bool) (n : Nat)
    (h1 : 1 ≤ n) (h7 : n ≤ 7) (data : List UInt8) (rest : List Bool)
    (hd : data.flatMap bitsOfByte =
      T6.encodeRows align (List.replicate w true) rows chs ++ extCode n ++ rest) :
    ccittfaxdecode (some (-1)) (some (w : Int)) align blackIs1 data = .error .invalidData := by
  have hr0 : Ready w align blackIs1 (List.replicate w true) [] (initSt w align blackIs1) :=
    ⟨rfl, rfl, rfl, rfl, rfl, rfl, rfl, rfl, rfl, rfl⟩
  obtain ⟨st1, ref1, hr1, _, hf1⟩ := feed_rows (al := align) (rv := blackIs1) hw rows chs (List.replicate w true) []
    (initSt w align blackIs1) 0 hrows (by simp) hr0 (by intro _; rfl)
  have hc : ¬ ((w : Int) ≤ 0) := by omega
  simp only [ccittfaxdecode, ne_eq, not_true_eq_false, if_false, Option.getD_some, hc, Int.toNat_natCast]
  rw [feedBytes_flat _ _ 0 rfl, hd, List.append_assoc, hf1, feed_ext_code st1 hr1.acc hr1.node n h1 h7]
  rfl

/-- **K.**  `ccittfaxdecode` implements Group 4 only.  Whatever the dictionary otherwise contains
(also an ill-typed or non-positive `Columns`, `/Rows`, `/EndOfLine`, …) and whatever the data:
K = 0 (Group 3 1-D), K > 0 (Group 3 2-D), K < -1, an absent K (default 0) and a K that is not a number
all end in `PDFValueError` before anything else is read. -/
theorem k_not_group4_rejected (d : Dict) (data : List UInt8) :
    (d.lookup CcittStream.keyK = none → ccittBranch (.dict d) data = .error .valueError) ∧
    (∀ i : Int, d.lookup CcittStream.keyK = some (.int i) → i ≠ -1 →
      ccittBranch (.dict d) data = .error .valueError) ∧
    (∀ o : PObj, d.lookup CcittStream.keyK = some o → (∀ i, o ≠ .int i) → o ≠ .other →
      ccittBranch (.dict d) data = .error .valueError) := by
  refine ⟨fun h => ccittBranch_k d none (by simp only [kOf, h]) (by simp) data,
    fun i h hi => ccittBranch_k d (some i) (by simp only [kOf, h]) (by simpa using hi) data, ?_⟩
  intro o h hint hoth
  refine ccittBranch_k d (some 0) ?_ (by decide) data
  simp only [kOf, h]

/-- Non-vacuity of the round-6 theorems: a 3×2 image, byte aligned, EOFB, then two garbage bytes;
the same rows followed by extension code x3; dictionaries with K = 0, K = 4 and `/Columns /Foo`. -/
example : (ccittfaxdecode (some (-1)) (some 3) true false
    (T6.encodeImage 3 [[true, false, true], [false, false, true]] [[.horiz], []] true true ++ [0xA5, 0x5A])).toOption
      = some [0xA0, 0x20] := by decide +kernel

example : ccittfaxdecode (some (-1)) (some ((3 : Nat) : Int)) true false
    (T6.encodeImage 3 [[true, false, true], [false, false, true]] [[.horiz], []] true true ++ [0xA5, 0x5A])
      = .ok (T6.packImage false [[true, false, true], [false, false, true]]) :=
  image_rt_trailing 3 (by omega) _ (by decide) _ true false _

example : (ccittfaxdecode (some (-1)) (some 3) false false
    (packBits (T6.padTo8 (T6.encodeRows false [true, true, true] [[true, false, true]] [[.horiz]] ++ extCode 3 ++ [true, true]))
      )).toOption = none ∧
    (ccittfaxdecode (some (-1)) (some 3) false false
      (packBits (T6.padTo8 (T6.encodeRows false [true, true, true] [[true, false, true]] [[.horiz]])))).toOption
      = some [0xA0] := by decide +kernel

example : ccittBranch (.dict [("Columns", .name "Foo"), ("K", .int 4), ("Rows", .int 2)]) [0x80] = .error .valueError :=
  (k_not_group4_rejected _ _).2.1 4 rfl (by decide)

example : ccittBranch (.dict [("K", .int 0), ("EndOfLine", .bool true)]) [0x80] = .error .valueError ∧
    ccittBranch (.dict [("Columns", .int 5)]) [0x80] = .error .valueError ∧
    ccittBranch (.dict [("K", .name "G4")]) [0x80] = .error .valueError :=
  ⟨(k_not_group4_rejected _ _).2.1 0 rfl (by decide), (k_not_group4_rejected _ _).1 rfl,
    (k_not_group4_rejected _ _).2.2 _ rfl (by intro i h; cases h) (by intro h; cases h)⟩

/-- All-white and all-black rows of width 1 and of width 2561 (one make-up 2560 + terminating 1),
first pixel black (a0 handling at the line start), last pixel changing (b1/b2 at the line end). -/
example : T6.encodeImage 1 [[true], [false], [false], [true]] [] false true =
    [0xAE, 0xC0, 0x04, 0x00, 0x40] := by decide +kernel

example : ccittfaxdecode (some (-1)) (some ((1 : Nat) : Int)) false true
    (T6.encodeImage 1 [[true], [false], [false], [true]] [] false true)
      = .ok (T6.packImage true [[true], [false], [false], [true]]) :=
  image_rt 1 (by omega) _ (by decide) _ false true true

/-- **Unassigned code words (damaged data, any table).**  Whatever the parser is waiting for — a mode
code, a white or black run length, an uncompressed-mode symbol — bits that lead to a slot of the
current table that no `BitParser.add` filled end in `InvalidData`, whatever follows. -/
theorem unassigned_code_rejected (st : St) (code : List Bool) (hne : code ≠ [])
    (h : Trie.follow st.node code = some .empty) (pos : Nat) (rest : List Bool) :
    feedFlat st pos 0 (code ++ rest) = .error .invalidData :=
  feed_follow_empty code st pos rest hne h

/-- **EndOfLine.**  T.6 data carries no EOL codes and `ccittfaxdecode` never reads `/EndOfLine`: after
any number of correctly coded rows, ONE end-of-line code `000000000001` that is not immediately followed
by a second one (k < 11 zeros and a one, or twelve zeros) raises `InvalidData`; two of them are EOFB
(`eofb_ends_decoding`). -/
theorem eol_rejected (w : Nat) (hw : 1 ≤ w) (rows : List (List Bool))
    (hrows : ∀ r ∈ rows, r.length = w) (chs : List (List T6.Choice)) (align blackIs1 : Bool) (k : Nat)
    (hk : k < 12) (data : List UInt8) (rest : List Bool)
    (hd : data.flatMap bitsOfByte =
      T6.encodeRows align (List.replicate w true) rows chs ++ (codeEOL ++ eolDeviation k) ++ rest) :
    ccittfaxdecode (some (-1)) (some (w : Int)) align blackIs1 data = .error .invalidData := by
  have hr0 : Ready w align blackIs1 (List.replicate w true) [] (initSt w align blackIs1) :=
    ⟨rfl, rfl, rfl, rfl, rfl, rfl, rfl, rfl, rfl, rfl⟩
  obtain ⟨st1, ref1, hr1, _, hf1⟩ := feed_rows (al := align) (rv := blackIs1) hw rows chs (List.replicate w true) []
    (initSt w align blackIs1) 0 hrows (by simp) hr0 (by intro _; rfl)
  have hc : ¬ ((w : Int) ≤ 0) := by omega
  have hne : codeEOL ++ eolDeviation k ≠ [] := by simp [codeEOL]
  simp only [ccittfaxdecode, ne_eq, not_true_eq_false, if_false, Option.getD_some, hc, Int.toNat_natCast]
  rw [feedBytes_flat _ _ 0 rfl, hd, List.append_assoc, hf1,
    feed_follow_empty _ st1 _ rest hne (by rw [hr1.node]; exact eol_deviation_ok ⟨k, hk⟩)]
  rfl

example : T6.codeEOFB = codeEOL ++ codeEOL := codeEOFB_eq

/-- One row of width 3, then EOL + `1`: InvalidData; the unassigned white run-length code `00000000`
right after an H code: InvalidData as well (`unassigned_code_rejected` in state `_parse_horiz1`). -/
example : (ccittfaxdecode (some (-1)) (some 3) false false
    (packBits (T6.padTo8 (T6.encodeRows false [true, true, true] [[true, false, true]] [[.horiz]] ++
      (codeEOL ++ eolDeviation 0) ++ [false, true])))).toOption = none := by decide +kernel

example : ccittfaxdecode (some (-1)) (some ((3 : Nat) : Int)) false false
    (packBits (T6.padTo8 (T6.encodeRows false [true, true, true] [[true, false, true]] [[.horiz]] ++
      (codeEOL ++ eolDeviation 0) ++ [false, true]))) = .error .invalidData := by
  refine eol_rejected 3 (by omega) [[true, false, true]] (by decide) [[.horiz]] false false 0 (by omega) _
    ([false, true] ++ List.replicate 4 false) ?_
  decide +kernel

example : feedFlat { initSt 3 false false with acc := .horiz1, node := runTrie true } 3 0
    (List.replicate 8 false ++ [true, true]) = .error .invalidData :=
  unassigned_code_rejected _ _ (by decide) (by decide +kernel) 3 _

/-- **BlackIs1, on EVERY input** (conforming or damaged data, any K, Columns, EncodedByteAlign): the flag
changes nothing but the polarity of the output.  Either both settings fail with the same error, or
there is ONE list of rows such that the two results are its packings with white = 1 and with black = 1
(`T6.packImage`, the specification's packing) — `reversed` is read by `output_line` only. -/
theorem blackIs1_only_polarity (K cols : Option Int) (al : Bool) (data : List UInt8) :
    (∃ e, ccittfaxdecode K cols al false data = .error e ∧ ccittfaxdecode K cols al true data = .error e) ∨
    (∃ rows : List (List Bool), ccittfaxdecode K cols al false data = .ok (T6.packImage false rows) ∧
      ccittfaxdecode K cols al true data = .ok (T6.packImage true rows)) := by
  unfold ccittfaxdecode
  by_cases hK : K ≠ some CcittCode.kGroup4
  · left; exact ⟨.valueError, by rw [if_pos hK], by rw [if_pos hK]⟩
  · simp only [hK, if_false]
    by_cases hc : cols.getD CcittCode.columnsDefault ≤ 0
    · left; exact ⟨.unmodelled, by rw [if_pos hc], by rw [if_pos hc]⟩
    · simp only [hc, if_false]
      have h0 : Twin [] (initSt (cols.getD CcittCode.columnsDefault).toNat al false)
          (initSt (cols.getD CcittCode.columnsDefault).toNat al true) := ⟨rfl, rfl, rfl⟩
      have hf := feedBytes_twin data h0
      generalize feedBytes (initSt (cols.getD CcittCode.columnsDefault).toNat al false) data = ra at hf
      generalize feedBytes (initSt (cols.getD CcittCode.columnsDefault).toNat al true) data = rb at hf
      cases ra with
      | error e =>
        cases rb with
        | error e' => left; exact ⟨e, rfl, by rw [show e' = e from hf.symm]⟩
        | ok b => exact hf.elim
      | ok a =>
        cases rb with
        | error e' => exact hf.elim
        | ok b =>
          obtain ⟨L, h1, h2, h3⟩ := hf
          right
          refine ⟨L, ?_, ?_⟩
          · simp only [h2, T6.packImage, packLine_fun]
          · simp only [h3, T6.packImage, packLine_fun]

/-- Non-vacuity on damaged data: the all-ones bytes of the `decode_total` example, both polarities. -/
example :
    (ccittfaxdecode (some (-1)) (some 3) false false [0xFF, 0x12, 0x34]).toOption =
      some (T6.packImage false (List.replicate 9 [true, true, true])) ∧
    (ccittfaxdecode (some (-1)) (some 3) false true [0xFF, 0x12, 0x34]).toOption =
      some (T6.packImage true (List.replicate 9 [true, true, true])) := by decide +kernel

/-- **Invalid `Columns`** (round 6d), for EVERY such value: an integer ≤ 0 or `false` (`c = some i`), or
any object that is not an integer (`c = none`: null, name, array, dictionary, real, string), every data
and flags.  Direct call: a non-integer raises `TypeError` (`[1] * width`) before any data is read; a
width ≤ 0 gives data, `InvalidData` or `IndexError` (the line arrays are empty) and no unmodelled branch.
Through `PDFStream.get_data()` nothing leaks: `IndexError` and `TypeError` are members of the regenerated
`_DECODE_ERRORS` (`Gen.Filters.DECODE_ERRORS`), so the outcome is data (empty when an error was caught)
or a member of the library's error family (`InvalidData`; `PDFException` when STRICT). -/
theorem columns_invalid_rejected (v : PObj) (c : Option Int) (hv : invalidColumns v = some c)
    (al rv strict : Bool) (data : List UInt8) :
    (c = none → decodeInvalidColumns v al rv data = .error .typeError) ∧
    (c ≠ none → (∃ out, decodeInvalidColumns v al rv data = .ok out) ∨
      decodeInvalidColumns v al rv data = .error .invalidData ∨
      decodeInvalidColumns v al rv data = .error .indexError) ∧
    ((∃ d, streamInvalidColumns strict v al rv data = .data d) ∨
      (∃ n, streamInvalidColumns strict v al rv data = .pdfException n)) := by
  have hwt : WT (initSt 0 al rv) := wt_mode _ rfl rfl
  have hT : Filters.DECODE_ERRORS.contains ColErr.typeError.pyName = true := by decide
  have hI : Filters.DECODE_ERRORS.contains ColErr.indexError.pyName = true := by decide
  cases c with
  | none =>
    have hd : decodeInvalidColumns v al rv data = .error .typeError := by
      simp only [decodeInvalidColumns, hv]
    refine ⟨fun _ => hd, fun h => absurd rfl h, ?_⟩
    simp only [streamInvalidColumns, hd, hT, if_true]
    cases strict
    · left; exact ⟨[], rfl⟩
    · right; exact ⟨_, rfl⟩
  | some i =>
    have hd : decodeInvalidColumns v al rv data = decodeDegenerate al rv data := by
      unfold decodeInvalidColumns; rw [hv]
    refine ⟨fun h => (by cases h), fun _ => ?_, ?_⟩
    · rw [hd]; unfold decodeDegenerate
      rcases feedBytesD_total data _ hwt with ⟨st', h⟩ | h | h <;> rw [h]
      · left; exact ⟨_, rfl⟩
      · right; left; rfl
      · right; right; rfl
    · simp only [streamInvalidColumns, hd, decodeDegenerate]
      rcases feedBytesD_total data _ hwt with ⟨st', h⟩ | h | h <;> rw [h]
      · left; exact ⟨_, rfl⟩
      · right; exact ⟨_, rfl⟩
      · simp only [hI, if_true]
        cases strict
        · left; exact ⟨[], rfl⟩
        · right; exact ⟨_, rfl⟩

/-- Non-vacuity: Columns 0 with a V0 code (`IndexError`), with H + two runs (empty data), with an
extension code (`InvalidData`); Columns `/Foo` (`TypeError`); and what `get_data()` makes of them. -/
example :
    errOf (decodeInvalidColumns (.int 0) false false [0x80]) = some .indexError ∧
    (decodeInvalidColumns (.int (-5)) true false [0x26, 0xA0]).toOption = some [] ∧
    errOf (decodeInvalidColumns (.bool false) false false [0x02, 0x00]) = some .invalidData ∧
    errOf (decodeInvalidColumns (.name "Foo") false false [0x80]) = some .typeError ∧
    streamInvalidColumns false (.int 0) false false [0x80] = .data [] ∧
    streamInvalidColumns true (.name "Foo") false false [0x80] = .pdfException "PDFException" ∧
    streamInvalidColumns false (.int 0) false false [0x02, 0x00] = .pdfException "InvalidData" := by
  decide +kernel

end PdfVerif.Props.C19
