/-
C08 — layout analysis conserves content and keeps its hierarchy well-formed.
Property theorems about the model `PdfVerif.Layout` (lean/PdfVerif/Model/Layout.lean).
-/
import PdfVerif.Model.Layout

namespace PdfVerif.Props.C08
open PdfVerif PdfVerif.Gen.Layout PdfVerif.Layout

/-- The text of a line is the concatenation of the text of its members. -/
theorem C08_text_line (l : Line) : l.text = l.elems.flatMap Elem.text := rfl

end PdfVerif.Props.C08
