/-
C08 — Layout analysis conserves content and keeps its hierarchy well-formed.

All statements are about `PdfVerif.Layout.analyze` (lean/PdfVerif/Model/Layout.lean), the executable
model of `LTLayoutContainer.analyze`; its geometric predicates, sort keys and `dist` are
`PdfVerif.Gen.Layout.*`, regenerated from pdfminer/layout.py on every run; the spatial index is the
model of C20 (`plane_find` is used to show that every line is its own neighbour).  The model is
tied to the implementation by tools/harness/props/c08.py (tree dump correspondence).

Domain: any list of items (glyphs with any box - no well-formedness needed -, any text; other
items), any LAParams (rationals, `boxes_flow` none or any number), a page box with x0 ≤ x1, y0 ≤ y1.
Only property theorems live here; lemmas are in `Lemmas/Layout*.lean`.
-/
import PdfVerif.Lemmas.LayoutFigures
import PdfVerif.Lemmas.LayoutHeap
import PdfVerif.Lemmas.LayoutAnno
import PdfVerif.Lemmas.LayoutColumns

namespace PdfVerif.Props.C08
open PdfVerif PdfVerif.Gen.Layout PdfVerif.Layout

/- EVERY theorem below is stated for an arbitrary comparison `le` used by the heap of
`group_textboxes` to choose the next entry (`Cmp = HEntry → HEntry → Bool`, no order axioms): the
implementation's tuple order `(skip_isany, d, id(obj1), id(obj2))` is one instance for whatever
memory addresses `id()` returns, the compiled model uses `HEntry.le` (creation numbers for `id()`).
So the `id()`-dependent tie-break, which the correspondence check cannot pin down, does not matter
for any statement of C08. -/
variable {le : Cmp}

/-! ### termination -/

/-- **Termination.**  The only unbounded loop of the analysis (`while len(dists) > 0` in
`group_textboxes`) ends by itself within `3·n² + 1` iterations for `n` text boxes: the model never
runs out of fuel, for every input and every parameter setting (no hypothesis at all). -/
theorem C08_terminates (p : LAParams) (pageBB : BB) (items : List Item) :
    (analyze le p pageBB items).flags.fuel = false := by
  by_cases h : (items.filterMap Item.glyph?).isEmpty = true
  · simp [analyze, h]
  · have s := stages le p pageBB items (by simpa using h)
    rw [s.flags]
    unfold finalBoxes
    cases p.boxes_flow with
    | none => rfl
    | some bf => exact groupTextboxes_fuel (le := le) pageBB _

/-- The heap loop itself: whatever boxes it is given, `gtbFuel n = 3n²+1` iterations suffice. -/
theorem C08_gtb_fuel_suffices (pageBB : BB) (boxes : List Box) :
    (gtbLoop le (gtbFuel boxes.length) (gtbInit pageBB boxes)).2 = true :=
  gtbLoop_terminates _ _ (gtbInit_inv pageBB boxes) (gtbInit_phi pageBB boxes)

/-- No `KeyError` from `plane.remove` and no dangling heap entry. -/
theorem C08_no_internal_error (p : LAParams) (pageBB : BB) (items : List Item) :
    (analyze le p pageBB items).flags.err = false := by
  by_cases h : (items.filterMap Item.glyph?).isEmpty = true
  · simp [analyze, h]
  · have s := stages le p pageBB items (by simpa using h)
    rw [s.flags]
    unfold finalBoxes
    cases p.boxes_flow with
    | none => rfl
    | some bf => exact (groupTextboxes_spec (le := le) pageBB _).2.2.1

/-! ### conservation -/

/-- Stage 1: `group_objects` puts every glyph into exactly one line, in content order. -/
theorem C08_group_objects_conserve (p : LAParams) (gs : List Glyph) :
    (groupObjects p gs).flatMap Line.glyphs = gs :=
  groupObjects_conserve p gs

/-- Stage 2: `group_textlines` puts every (non-empty) line into exactly one box. -/
theorem C08_group_textlines_conserve (p : LAParams) (pageBB : BB) (hp : WfPage pageBB) (lines : List Line)
    (hne : ∀ l ∈ lines, l.isEmpty = false) :
    ((groupTextlines p pageBB lines).flatMap (·.lines)).Perm lines :=
  (groupTextlines_spec p pageBB hp lines hne).1

/-- Stage 3: `group_textboxes` makes every box a leaf of exactly one returned group. -/
theorem C08_group_textboxes_conserve (pageBB : BB) (boxes : List Box) :
    ((groupTextboxes le pageBB boxes).1.flatMap Node.leaves).Perm boxes :=
  (groupTextboxes_spec (le := le) pageBB boxes).1

/-- **Conservation of glyphs.**  The multiset of glyphs found in the result (inside the lines of the
text boxes, inside the empty lines, or untouched when nothing is analysed) is exactly the multiset
of input glyphs: nothing lost, duplicated or altered. -/
theorem C08_conserve_glyphs (p : LAParams) (pageBB : BB) (hp : WfPage pageBB) (items : List Item) :
    ((analyze le p pageBB items).children.flatMap Child.glyphs).Perm (items.filterMap Item.glyph?) := by
  by_cases h : (items.filterMap Item.glyph?).isEmpty = true
  · have : (analyze le p pageBB items).children = items.map Item.toChild := by simp [analyze, h]
    rw [this, toChild_glyphs]
  · have s := stages le p pageBB items (by simpa using h)
    have hspec := groupTextlines_spec p pageBB hp _ (nonEmpty_lines s)
    rw [← s.hboxes] at hspec
    have hfin := (finalBoxes_spec (le := le) p pageBB s.boxes hspec.2.1).1
    rw [s.children]
    simp only [List.flatMap_append, List.flatMap_map]
    have e1 : List.flatMap (fun a => Child.glyphs (Child.other a)) (items.filterMap Item.other?) = [] := by
      simp [Child.glyphs]
    have e2 : List.flatMap (fun a => Child.glyphs (Child.line a.analyze)) (s.lines.filter Line.isEmpty)
        = (s.lines.filter Line.isEmpty).flatMap Line.glyphs := by
      simp [Child.glyphs, glyphs_analyze]
    have e3 : List.flatMap (fun a => Child.glyphs (Child.box a)) (finalBoxes le p pageBB s.boxes).1
        = (finalBoxes le p pageBB s.boxes).1.flatMap Box.glyphs := rfl
    rw [e1, e2, e3, List.append_nil]
    have h1 : ((finalBoxes le p pageBB s.boxes).1.flatMap Box.glyphs).Perm
        ((s.lines.filter (fun l => !l.isEmpty)).flatMap Line.glyphs) := by
      refine (map_strip_glyphs hfin).trans ((analyze_glyphs_flatMap s.boxes).trans ?_)
      have e : s.boxes.flatMap Box.glyphs = (s.boxes.flatMap (·.lines)).flatMap Line.glyphs := by
        rw [List.flatMap_assoc]; rfl
      rw [e]
      exact flatMap_perm Line.glyphs hspec.1
    have h2 : (items.filterMap Item.glyph?) = s.lines.flatMap Line.glyphs := by
      rw [s.hlines, groupObjects_conserve]
    rw [h2]
    refine (List.Perm.append_right _ h1).trans ?_
    refine (List.perm_append_comm).trans ?_
    have := flatMap_perm Line.glyphs (List.filter_append_perm Line.isEmpty s.lines)
    simpa [List.flatMap_append] using this

/-- **Conservation of the other items** (figures, shapes, images): kept exactly once, in order. -/
theorem C08_conserve_others (p : LAParams) (pageBB : BB) (items : List Item) :
    (analyze le p pageBB items).children.filterMap Child.other? = items.filterMap Item.other? := by
  by_cases h : (items.filterMap Item.glyph?).isEmpty = true
  · have : (analyze le p pageBB items).children = items.map Item.toChild := by simp [analyze, h]
    rw [this, toChild_others]
  · have s := stages le p pageBB items (by simpa using h)
    rw [s.children]
    simp [List.filterMap_append, List.filterMap_map, Function.comp_def, Child.other?]

/-- A figure is analysed like a page when `all_texts` is set and left untouched otherwise. -/
theorem C08_figure (allTexts : Bool) (p : LAParams) (bb : BB) (items : List Item) :
    analyzeFigure le allTexts p bb items =
      if allTexts then analyze le p bb items
      else { children := items.map Item.toChild, groups := none, flags := {} } := by
  unfold analyzeFigure; split <;> rfl

/-- Figures inside figures: the glyphs found anywhere below the analysed figures of a container are
exactly the glyphs that were inside those figures (whatever `all_texts` is). -/
theorem C08_conserve_glyphs_figures (allTexts : Bool) (p : LAParams) : ∀ items : List FItem, wfFigsL items →
    (outGlyphsL (analyzeFigs le allTexts p items)).Perm (figGlyphsL items)
  | [], _ => by simp [analyzeFigs, outGlyphsL, figGlyphsL]
  | .ch g :: rest, h => by
    simp only [analyzeFigs, figGlyphsL]
    exact C08_conserve_glyphs_figures allTexts p rest h.2
  | .other i :: rest, h => by
    simp only [analyzeFigs, figGlyphsL]
    exact C08_conserve_glyphs_figures allTexts p rest h.2
  | .fig i bb ch :: rest, h => by
    have hrest := C08_conserve_glyphs_figures allTexts p rest h.2
    have hch := C08_conserve_glyphs_figures allTexts p ch h.1.2
    simp only [analyzeFigs, figGlyphsL, outGlyphsL]
    refine List.Perm.append ?_ hrest
    cases allTexts with
    | false => simp [FOut.glyphs]
    | true =>
      simp only [if_true, FOut.glyphs]
      have hown := C08_conserve_glyphs (le := le) p bb h.1.1 (ch.map FItem.flat)
      exact (List.Perm.append hown hch).trans (glyphsL_split ch).symm

/-- **Conservation over the whole page tree** (figures nested to any depth, `all_texts` on or off): the
multiset of glyphs found anywhere in the analysed tree - in text lines of the page, of analysed figures, or
still raw inside figures that are not analysed - is the multiset of glyphs of the input tree. -/
theorem C08_conserve_glyphs_nested (allTexts : Bool) (p : LAParams) (pageBB : BB) (hp : WfPage pageBB)
    (items : List FItem) (hf : wfFigsL items) :
    (analyzePage le allTexts p pageBB items).glyphs.Perm (glyphsL items) := by
  simp only [analyzePage, FOut.glyphs]
  have hown := C08_conserve_glyphs (le := le) p pageBB hp (items.map FItem.flat)
  have hfig := C08_conserve_glyphs_figures (le := le) allTexts p items hf
  exact (List.Perm.append hown hfig).trans (glyphsL_split items).symm

/-! ### lines -/

/-- **Lines.**  Every line of the result - in a text box or kept as an empty line - has ≥ 1 glyph,
holds glyphs of one orientation, has the tight hull of its glyphs as bounding box, and ends in
exactly one line-break annotation; vertical lines only exist with `detect_vertical`. -/
theorem C08_lines (p : LAParams) (pageBB : BB) (hp : WfPage pageBB) (items : List Item) :
    ∀ l ∈ linesOf (analyze le p pageBB items), LineOK p l := by
  by_cases h : (items.filterMap Item.glyph?).isEmpty = true
  · have : (analyze le p pageBB items).children = items.map Item.toChild := by simp [analyze, h]
    intro l hl
    exfalso
    simp only [linesOf, boxesOf, this, List.mem_append, List.mem_flatMap, List.mem_filterMap, List.mem_map] at hl
    rcases hl with ⟨b, ⟨c, ⟨it, _, rfl⟩, hc⟩, _⟩ | ⟨c, ⟨it, _, rfl⟩, hc⟩ <;> cases it <;>
      simp [Item.toChild, Child.box?, Child.line?] at hc
  · have s := stages le p pageBB items (by simpa using h)
    have hinv : ∀ l ∈ s.lines, LineInv p l := by rw [s.hlines]; exact groupObjects_inv p _
    have hspec := groupTextlines_spec p pageBB hp _ (nonEmpty_lines s)
    rw [← s.hboxes] at hspec
    intro l hl
    simp only [linesOf, List.mem_append] at hl
    rcases hl with hl | hl
    · rw [boxesOf_stages s] at hl
      simp only [List.mem_flatMap] at hl
      obtain ⟨b', hb', hlb⟩ := hl
      obtain ⟨b, hb, hs⟩ := box_origin hspec.2.1 hb'
      have : l ∈ b.analyze.lines := by
        have := congrArg Box.lines hs
        simp only [strip_lines] at this
        rw [← this]; exact hlb
      have := (box_analyze_perm b).subset this
      simp only [List.mem_map] at this
      obtain ⟨l0, hl0, rfl⟩ := this
      have hl0' : l0 ∈ s.lines.filter (fun l => !l.isEmpty) :=
        hspec.1.subset (List.mem_flatMap.mpr ⟨b, hb, hl0⟩)
      exact lineOK_of_inv (hinv l0 (List.mem_filter.mp hl0').1)
    · rw [emptiesOf_stages s] at hl
      simp only [List.mem_map] at hl
      obtain ⟨l0, hl0, rfl⟩ := hl
      exact lineOK_of_inv (hinv l0 (List.mem_filter.mp hl0).1)

/-! ### the heap order and `LTAnno` insertion (round 6) -/

/-- **The heap order is a total order.**  `HEntry.le` - the tuple order `(skip_isany, d, seq1, seq2)` of the
entries of the heap of `group_textboxes`, with creation numbers as the code uses them since fix 0d18780 - is
total, transitive and antisymmetric: two different entries are never "equal" for the heap, so no tie is left
to memory addresses or to the internal layout of `heapq`. -/
theorem C08_heap_order :
    (∀ a b : HEntry, a.le b = true ∨ b.le a = true) ∧
    (∀ a b c : HEntry, a.le b = true → b.le c = true → a.le c = true) ∧
    (∀ a b : HEntry, a.le b = true → b.le a = true → a = b) :=
  ⟨HEntry.le_total, HEntry.le_trans, HEntry.le_antisymm⟩

/-- **The code's heap entries are the model's.**  The regenerated description of `group_textboxes` (every push,
the pop, the sequence numbers, the liveness test; `Gen.Layout.HEAP_SHAPE` is re-read from pdfminer/layout.py on
every run) is the one `HEntry` / `HEntry.le` / `gtbStep` model: entries are compared by
`(skip_isany, d, seq1, seq2)`, sequence numbers are positions in `boxes` resp. creation order (`len(seq)`), a
re-queued entry only changes its flag.  An edit of the tuples or of the numbering breaks this theorem. -/
theorem C08_heap_shape : HEAP_SHAPE =
    ["seq seq.setdefault(box, len(seq))",
     "push False | dist(box1, box2) | seq[box1] | seq[box2]",
     "call heapq.heapify(dists)",
     "pop skip_isany | d | id1 | id2",
     "live id1 not in done and id2 not in done",
     "push True | d | id1 | id2",
     "call done.update([id1, id2])",
     "seq seq[group] = len(seq)",
     "push False | dist(group, other) | seq[group] | seq[other]"] := by decide +kernel

/-- **`popMin` is `heappop`.**  What the model pops is a member of the heap, the remaining list holds exactly
the other entries, the popped entry is below every entry, and it is the ONLY member with that property - so
every correct priority queue (whatever its internal layout) pops the same entry. -/
theorem C08_pop_least (h : List HEntry) (m : HEntry) (r : List HEntry) (hp : popMin HEntry.le h = some (m, r)) :
    m ∈ h ∧ h.Perm (m :: r) ∧ (∀ e ∈ h, m.le e = true) ∧
    ∀ m' ∈ h, (∀ e ∈ h, m'.le e = true) → m' = m :=
  ⟨popMin_mem hp, popMin_perm h m r hp, popMin_least HEntry.le_total HEntry.le_trans h m r hp,
   fun m' hm' hl => popMin_unique HEntry.le_total HEntry.le_trans HEntry.le_antisymm hp m' hm' hl⟩

/-- … and a non-empty heap always pops. -/
theorem C08_pop_some (le : Cmp) (h : List HEntry) (hne : h ≠ []) : ∃ m r, popMin le h = some (m, r) := by
  cases hp : popMin le h with
  | none => exact absurd (popMin_none.mp hp) hne
  | some q => exact ⟨q.1, q.2, rfl⟩

/-- **Annotations, stage 1.**  The members of every line that `group_objects` yields are exactly the ones the
word-margin specification prescribes for the line's glyphs: the glyphs in content order, a space before a glyph
iff the documented predicate holds between it and the glyph directly before it, nothing else. -/
theorem C08_anno_group_objects (p : LAParams) (gs : List Glyph) :
    ∀ l ∈ groupObjects p gs, l.elems = Spec.lineElems l.vertical p.word_margin l.glyphs :=
  groupObjects_anno p gs

/-- **Annotations, whole analysis.**  Every line of the result - in a text box or kept as an empty line - has
EXACTLY the members of the specification: its glyphs in content order, a space annotation exactly where the
documented `word_margin` predicate holds between consecutive glyphs, and one final line break.  Every `LTAnno`
of the page is accounted for. -/
theorem C08_anno_exact (p : LAParams) (pageBB : BB) (hp : WfPage pageBB) (items : List Item) :
    ∀ l ∈ linesOf (analyze le p pageBB items), l.elems = Spec.lineElemsBreak l.vertical p.word_margin l.glyphs := by
  by_cases h : (items.filterMap Item.glyph?).isEmpty = true
  · have : (analyze le p pageBB items).children = items.map Item.toChild := by simp [analyze, h]
    intro l hl
    exfalso
    simp only [linesOf, boxesOf, this, List.mem_append, List.mem_flatMap, List.mem_filterMap, List.mem_map] at hl
    rcases hl with ⟨b, ⟨c, ⟨it, _, rfl⟩, hc⟩, _⟩ | ⟨c, ⟨it, _, rfl⟩, hc⟩ <;> cases it <;>
      simp [Item.toChild, Child.box?, Child.line?] at hc
  · have s := stages le p pageBB items (by simpa using h)
    have hinv : ∀ l ∈ s.lines, l.elems = Spec.lineElems l.vertical p.word_margin l.glyphs := by
      rw [s.hlines]; exact groupObjects_anno p _
    have hspec := groupTextlines_spec p pageBB hp _ (nonEmpty_lines s)
    rw [← s.hboxes] at hspec
    intro l hl
    simp only [linesOf, List.mem_append] at hl
    rcases hl with hl | hl
    · rw [boxesOf_stages s] at hl
      simp only [List.mem_flatMap] at hl
      obtain ⟨b', hb', hlb⟩ := hl
      obtain ⟨b, hb, hs⟩ := box_origin hspec.2.1 hb'
      have : l ∈ b.analyze.lines := by
        have := congrArg Box.lines hs
        simp only [strip_lines] at this
        rw [← this]; exact hlb
      have := (box_analyze_perm b).subset this
      simp only [List.mem_map] at this
      obtain ⟨l0, hl0, rfl⟩ := this
      have hl0' : l0 ∈ s.lines.filter (fun l => !l.isEmpty) :=
        hspec.1.subset (List.mem_flatMap.mpr ⟨b, hb, hl0⟩)
      exact analyze_anno _ l0 (hinv l0 (List.mem_filter.mp hl0').1)
    · rw [emptiesOf_stages s] at hl
      simp only [List.mem_map] at hl
      obtain ⟨l0, hl0, rfl⟩ := hl
      exact analyze_anno _ l0 (hinv l0 (List.mem_filter.mp hl0).1)

/-- **A page without glyphs** (empty page, or shapes / figures only) is left exactly as it is: the children are
the items in content order, no groups, nothing is flagged. -/
theorem C08_no_glyphs (p : LAParams) (pageBB : BB) (items : List Item) (h : items.filterMap Item.glyph? = []) :
    (analyze le p pageBB items).children = items.map Item.toChild ∧ (analyze le p pageBB items).groups = none := by
  simp [analyze, h]

/-! ### boxes -/

/-- **Boxes.**  Every text box of the result has ≥ 1 line, its bounding box is the tight hull of its
lines' boxes, and its lines are ordered top-to-bottom (by descending `y1`; a vertical box:
right-to-left, by descending `x1`). -/
theorem C08_boxes (p : LAParams) (pageBB : BB) (hp : WfPage pageBB) (items : List Item) :
    ∀ b ∈ boxesOf (analyze le p pageBB items),
      b.lines ≠ [] ∧ IsUnion b.bb (b.lines.map (·.bb)) ∧
      b.lines.Pairwise (fun l₁ l₂ => if b.vertical then l₂.bb.x1 ≤ l₁.bb.x1 else l₂.bb.y1 ≤ l₁.bb.y1) := by
  by_cases h : (items.filterMap Item.glyph?).isEmpty = true
  · have : (analyze le p pageBB items).children = items.map Item.toChild := by simp [analyze, h]
    intro b hb
    exfalso
    simp only [boxesOf, this, List.mem_filterMap, List.mem_map] at hb
    obtain ⟨c, ⟨it, _, rfl⟩, hc⟩ := hb
    cases it <;> simp [Item.toChild, Child.box?] at hc
  · have s := stages le p pageBB items (by simpa using h)
    have hspec := groupTextlines_spec p pageBB hp _ (nonEmpty_lines s)
    rw [← s.hboxes] at hspec
    intro b' hb'
    rw [boxesOf_stages s] at hb'
    obtain ⟨b, hb, hs⟩ := box_origin hspec.2.1 hb'
    have hb0 := hspec.2.2 b hb
    have hlines : b'.lines = b.analyze.lines := by
      have := congrArg Box.lines hs; simpa [strip_lines] using this
    have hbb : b'.bb = b.bb := by
      have := congrArg Box.bb hs; simpa [strip, Box.analyze] using this
    have hvert : b'.vertical = b.vertical := by
      have := congrArg Box.vertical hs; simpa [strip, Box.analyze] using this
    have hperm := box_analyze_perm b
    refine ⟨?_, ?_, ?_⟩
    · rw [hlines]
      intro hnil
      have := hperm.length_eq
      rw [hnil] at this
      simp only [List.length_nil, List.length_map] at this
      exact hb0.2.1 (List.eq_nil_of_length_eq_zero this.symm)
    · rw [hlines, hbb, hb0.2.2.1]
      have hu := bbOfList_isUnion (b.lines.map (·.bb)) (by simpa using hb0.2.1)
      refine isUnion_perm ?_ hu
      have := (hperm.map (·.bb)).symm
      simpa [List.map_map, Function.comp_def, Line.analyze] using this
    · rw [hlines, hvert]
      have := sortByKey_sorted (fun l : Line => if b.vertical then box_key_v l.bb else box_key_h l.bb)
        (b.lines.map Line.analyze)
      refine this.imp ?_
      intro l₁ l₂ hle
      cases hv : b.vertical <;> simp only [hv, box_key_v, box_key_h, Bool.false_eq_true, if_false, if_true] at hle ⊢ <;>
        grind

/-- A text box only holds lines of its own class (horizontal box: horizontal lines). -/
theorem C08_box_uniform (p : LAParams) (pageBB : BB) (hp : WfPage pageBB) (items : List Item) :
    ∀ b ∈ boxesOf (analyze le p pageBB items), ∀ l ∈ b.lines, l.vertical = b.vertical := by
  by_cases h : (items.filterMap Item.glyph?).isEmpty = true
  · have : (analyze le p pageBB items).children = items.map Item.toChild := by simp [analyze, h]
    intro b hb
    exfalso
    simp only [boxesOf, this, List.mem_filterMap, List.mem_map] at hb
    obtain ⟨c, ⟨it, _, rfl⟩, hc⟩ := hb
    cases it <;> simp [Item.toChild, Child.box?] at hc
  · have s := stages le p pageBB items (by simpa using h)
    have hspec := groupTextlines_spec p pageBB hp _ (nonEmpty_lines s)
    have hun := groupTextlines_uniform p pageBB hp _ (nonEmpty_lines s)
    rw [← s.hboxes] at hspec hun
    intro b' hb' l hl
    rw [boxesOf_stages s] at hb'
    obtain ⟨b, hb, hs⟩ := box_origin hspec.2.1 hb'
    have hlines : b'.lines = b.analyze.lines := by
      have := congrArg Box.lines hs; simpa [strip_lines] using this
    have hvert : b'.vertical = b.vertical := by
      have := congrArg Box.vertical hs; simpa [strip, Box.analyze] using this
    rw [hlines] at hl
    have := (box_analyze_perm b).subset hl
    simp only [List.mem_map] at this
    obtain ⟨l0, hl0, rfl⟩ := this
    rw [hvert]
    exact hun b hb l0 hl0

/-- **Numbering.**  The text boxes are numbered `0, 1, …, n−1` in output order - with the hierarchy
(`IndexAssigner`) and, after the fix of the pinned code, also when `boxes_flow` is `None`. -/
theorem C08_index (p : LAParams) (pageBB : BB) (hp : WfPage pageBB) (items : List Item) :
    (boxesOf (analyze le p pageBB items)).map (·.index)
      = (List.range' 0 (boxesOf (analyze le p pageBB items)).length).map Int.ofNat := by
  by_cases h : (items.filterMap Item.glyph?).isEmpty = true
  · have : (analyze le p pageBB items).children = items.map Item.toChild := by simp [analyze, h]
    have hb : boxesOf (analyze le p pageBB items) = [] := by
      simp only [boxesOf, this, List.filterMap_map, List.filterMap_eq_nil_iff]
      intro it _
      cases it <;> rfl
    rw [hb]; rfl
  · have s := stages le p pageBB items (by simpa using h)
    have hspec := groupTextlines_spec p pageBB hp _ (nonEmpty_lines s)
    rw [← s.hboxes] at hspec
    have hfin := finalBoxes_spec (le := le) p pageBB s.boxes hspec.2.1
    rw [boxesOf_stages s, hfin.2.1]
    have : (finalBoxes le p pageBB s.boxes).1.length = s.boxes.length := by
      have := hfin.1.length_eq; simpa using this
    rw [this]

/-! ### hierarchy -/

/-- **Hierarchy.**  With a numeric `boxes_flow` the group hierarchy exists, its leaves in
depth-first order are exactly the page's text boxes in output order (every box in exactly one
group path), every group's box is the tight hull of its two members' boxes, a group is of the
vertical (TBRL) class iff one of its members is vertical, and its members are in key order.  With
`boxes_flow = None` there is no hierarchy. -/
theorem C08_hierarchy (p : LAParams) (pageBB : BB) (hp : WfPage pageBB) (items : List Item)
    (hne : (items.filterMap Item.glyph?).isEmpty = false) :
    ((analyze le p pageBB items).groups = none ↔ p.boxes_flow = none) ∧
    ∀ gs, (analyze le p pageBB items).groups = some gs →
      gs.flatMap Node.leaves = boxesOf (analyze le p pageBB items) ∧
      ∀ bf, p.boxes_flow = some bf → ∀ g ∈ gs, GroupOK bf g := by
  have s := stages le p pageBB items hne
  have hspec := groupTextlines_spec p pageBB hp _ (nonEmpty_lines s)
  rw [← s.hboxes] at hspec
  have hfin := finalBoxes_spec (le := le) p pageBB s.boxes hspec.2.1
  rw [s.groups, boxesOf_stages s]
  refine ⟨hfin.2.2.2.2.2, fun gs hgs => ⟨hfin.2.2.2.2.1 gs hgs, fun bf hbf g hg => ?_⟩⟩
  exact finalBoxes_groupsOK (le := le) p pageBB s.boxes bf hbf gs hgs g hg

/-- The hierarchy has a single root (`group_textboxes` ends with one object in the plane). -/
theorem C08_single_root (p : LAParams) (pageBB : BB) (items : List Item) :
    ∀ gs, (analyze le p pageBB items).groups = some gs → gs.length ≤ 1 := by
  intro gs hgs
  by_cases h : (items.filterMap Item.glyph?).isEmpty = true
  · simp [analyze, h] at hgs
  · have s := stages le p pageBB items (by simpa using h)
    rw [s.groups] at hgs
    unfold finalBoxes at hgs
    cases hbf : p.boxes_flow with
    | none => simp [hbf] at hgs
    | some bf =>
      simp only [hbf, Option.some.injEq] at hgs
      subst hgs
      have hlen : ∀ (ns : List Node) (k : Nat), (analyzeGroups bf ns k).length = ns.length := by
        intro ns
        induction ns with
        | nil => intro k; rfl
        | cons n r ih => intro k; simp [analyzeGroups, ih]
      rw [hlen]
      exact groupTextboxes_single_root (le := le) pageBB _

/-! ### `detect_vertical` (round 6) -/

/-- **Without `detect_vertical` nothing is vertical.**  Every text line (in a box or empty), every text box and
every group of the hierarchy, at any depth, is of the horizontal / left-to-right class, whatever the glyphs. -/
theorem C08_detect_vertical (p : LAParams) (pageBB : BB) (hp : WfPage pageBB) (items : List Item)
    (hdv : p.detect_vertical = false) :
    (∀ l ∈ linesOf (analyze le p pageBB items), l.vertical = false) ∧
    (∀ b ∈ boxesOf (analyze le p pageBB items), b.vertical = false) ∧
    (∀ gs, (analyze le p pageBB items).groups = some gs → ∀ g ∈ gs, g.groupsLRTB) := by
  have hlines : ∀ l ∈ linesOf (analyze le p pageBB items), l.vertical = false := by
    intro l hl
    have := (C08_lines (le := le) p pageBB hp items l hl).vertical_only_if_detected
    cases hv : l.vertical with
    | false => rfl
    | true => rw [this hv] at hdv; exact absurd hdv (by decide)
  have hboxes : ∀ b ∈ boxesOf (analyze le p pageBB items), b.vertical = false := by
    intro b hb
    have hne := (C08_boxes (le := le) p pageBB hp items b hb).1
    obtain ⟨l, hl⟩ := List.exists_mem_of_ne_nil _ hne
    rw [← C08_box_uniform (le := le) p pageBB hp items b hb l hl]
    exact hlines l (by simp only [linesOf, List.mem_append, List.mem_flatMap]; exact Or.inl ⟨b, hb, hl⟩)
  refine ⟨hlines, hboxes, ?_⟩
  intro gs hgs g hg
  by_cases hne : (items.filterMap Item.glyph?).isEmpty = true
  · simp [analyze, hne] at hgs
  · have hh := C08_hierarchy (le := le) p pageBB hp items (by simpa using hne)
    obtain ⟨hleaves, hok⟩ := hh.2 gs hgs
    cases hbf : p.boxes_flow with
    | none => rw [hh.1.mpr hbf] at hgs; exact absurd hgs (by simp)
    | some bf =>
      refine (groupOK_lrtb (hok bf hbf g hg) ?_).2
      intro b hb
      exact hboxes b (by rw [← hleaves]; exact List.mem_flatMap.mpr ⟨g, hg, hb⟩)

/-! ### text -/

/-- The text of a line / box / group is the concatenation of its members' text. -/
theorem C08_text_line (l : Line) : l.text = l.elems.flatMap Elem.text := rfl
theorem C08_text_box (b : Box) : b.text = b.lines.flatMap Line.text := rfl
theorem C08_text_group (t : Bool) (bb : BB) (l r : Node) : (Node.grp t bb l r).text = l.text ++ r.text := rfl
/-- A line's text ends with the line break that `analyze` appended. -/
theorem C08_text_line_break (l : Line) : l.analyze.text = l.text ++ [10] := text_analyze l

/-! ### non-vacuity: a concrete page (two words on one line, a second paragraph, a blank glyph) -/

def exGlyphs : List Item :=
  [.ch ⟨1, ⟨10, 100, 16, 110⟩, [72]⟩, .ch ⟨2, ⟨16, 100, 22, 110⟩, [105]⟩,
   .ch ⟨3, ⟨30, 100, 36, 110⟩, [33]⟩, .other 7,
   .ch ⟨4, ⟨10, 40, 16, 50⟩, [120]⟩, .ch ⟨5, ⟨300, 40, 306, 50⟩, [32]⟩]

def exParams : LAParams := ⟨1/2, 2, 1/2, 1/10, some (1/2), false⟩
def exPage : BB := ⟨0, 0, 612, 792⟩

def exLines : List Line := groupObjects exParams (exGlyphs.filterMap Item.glyph?)

example : WfPage exPage := by unfold WfPage exPage; decide +kernel
-- three lines: "Hi !" (with a word space), "x", and a blank one
example : exLines.map (·.text) = [[72, 105, 32, 33], [120], [32]] := by decide +kernel
example : exLines.map Line.isEmpty = [false, false, true] := by decide +kernel
-- the two non-empty lines are too far apart to share a box
example : (groupTextlines exParams exPage (exLines.filter (fun l => !l.isEmpty))).map (·.lines.length) = [1, 1] := by
  decide +kernel

/- round 6: the heap order decides a tie by the creation numbers; `popMin` finds that entry anywhere in the list -/
example : popMin HEntry.le [⟨false, 5, 0, 2⟩, ⟨true, 1, 0, 1⟩, ⟨false, 5, 0, 1⟩, ⟨false, 7, 1, 2⟩]
    = some (⟨false, 5, 0, 1⟩, [⟨false, 5, 0, 2⟩, ⟨true, 1, 0, 1⟩, ⟨false, 7, 1, 2⟩]) := by decide +kernel

/- round 6: the specified members of the first line of the example page ("Hi" · space · "!") -/
example : (exLines.all fun l => decide (l.elems = Spec.lineElems l.vertical exParams.word_margin l.glyphs)) = true := by
  decide +kernel
example : ((exLines.map (·.analyze)).map fun l => l.elems.map (fun e => match e with | .ch g => g.id | .anno c => 1000 + c))
    = [[1, 2, 1032, 3, 1010], [4, 1010], [5, 1010]] := by decide +kernel

end PdfVerif.Props.C08
