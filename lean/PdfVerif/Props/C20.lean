/-
C20 — Geometry helpers obey affine algebra; spatial index equals brute-force search.

The matrix helpers and `drange` are `PdfVerif.Gen.Utils.*`, regenerated from
pdfminer/utils.py on every run; `Plane` is the hand model `PdfVerif.Model.Plane`
(correspondence-checked against the implementation by tools/harness/props/c20.py).

Only property theorems live here (helper lemmas: `Lemmas/Plane.lean`).
-/
import PdfVerif.Lemmas.Plane
import PdfVerif.Lemmas.UtilsList

namespace PdfVerif.Props.C20
open PdfVerif PdfVerif.Gen.Utils PdfVerif.Plane PdfVerif.UtilsList

/-! ## Affine algebra (all rationals) -/

/-- Composition is associative. -/
theorem mult_assoc (a b c : Matrix) :
    mult_matrix (mult_matrix a b) c = mult_matrix a (mult_matrix b c) := by
  obtain ⟨a1, a2, a3, a4, a5, a6⟩ := a
  obtain ⟨b1, b2, b3, b4, b5, b6⟩ := b
  obtain ⟨c1, c2, c3, c4, c5, c6⟩ := c
  simp only [mult_matrix, Prod.mk.injEq]
  refine ⟨?_, ?_, ?_, ?_, ?_, ?_⟩ <;> grind

/-- The identity is a left unit. -/
theorem mult_id_left (m : Matrix) : mult_matrix MATRIX_IDENTITY m = m := by
  obtain ⟨a1, a2, a3, a4, a5, a6⟩ := m
  simp only [mult_matrix, MATRIX_IDENTITY, Prod.mk.injEq]
  refine ⟨?_, ?_, ?_, ?_, ?_, ?_⟩ <;> grind

/-- The identity is a right unit. -/
theorem mult_id_right (m : Matrix) : mult_matrix m MATRIX_IDENTITY = m := by
  obtain ⟨a1, a2, a3, a4, a5, a6⟩ := m
  simp only [mult_matrix, MATRIX_IDENTITY, Prod.mk.injEq]
  refine ⟨?_, ?_, ?_, ?_, ?_, ?_⟩ <;> grind

/-- Applying a composed matrix equals applying its factors in turn (`m1` first, then `m0`). -/
theorem apply_mult (m1 m0 : Matrix) (v : Point) :
    apply_matrix_pt (mult_matrix m1 m0) v = apply_matrix_pt m0 (apply_matrix_pt m1 v) := by
  obtain ⟨a1, a2, a3, a4, a5, a6⟩ := m1
  obtain ⟨b1, b2, b3, b4, b5, b6⟩ := m0
  obtain ⟨x, y⟩ := v
  simp only [mult_matrix, apply_matrix_pt, Prod.mk.injEq]
  refine ⟨?_, ?_⟩ <;> grind

/-- Translation inside the projection: `translate_matrix m v` is the translation by `v`
followed by `m` (as the docstring says: the origin moves to `v` in `m`'s own coordinates). -/
theorem translate_spec (m : Matrix) (v : Point) :
    translate_matrix m v = mult_matrix (1, 0, 0, 1, v.1, v.2) m := by
  obtain ⟨a1, a2, a3, a4, a5, a6⟩ := m
  obtain ⟨x, y⟩ := v
  simp only [mult_matrix, translate_matrix, Prod.mk.injEq]
  refine ⟨?_, ?_, ?_, ?_, ?_, ?_⟩ <;> grind

/-- …and therefore maps a point `p` like `m` maps `p + v`. -/
theorem translate_apply (m : Matrix) (v p : Point) :
    apply_matrix_pt (translate_matrix m v) p = apply_matrix_pt m (p.1 + v.1, p.2 + v.2) := by
  obtain ⟨a1, a2, a3, a4, a5, a6⟩ := m
  obtain ⟨x, y⟩ := v
  obtain ⟨px, py⟩ := p
  simp only [translate_matrix, apply_matrix_pt, Prod.mk.injEq]
  refine ⟨?_, ?_⟩ <;> grind

/-- `apply_matrix_norm m v = apply_matrix_pt m v - apply_matrix_pt m (0,0)`. -/
theorem norm_spec (m : Matrix) (v : Point) :
    apply_matrix_norm m v =
      ((apply_matrix_pt m v).1 - (apply_matrix_pt m (0, 0)).1,
       (apply_matrix_pt m v).2 - (apply_matrix_pt m (0, 0)).2) := by
  obtain ⟨a1, a2, a3, a4, a5, a6⟩ := m
  obtain ⟨x, y⟩ := v
  simp only [apply_matrix_norm, apply_matrix_pt, Prod.mk.injEq]
  refine ⟨?_, ?_⟩ <;> grind

/-- The four corners of a rectangle. -/
def corners (r : Rect) : List Point :=
  [(r.1, r.2.1), (r.2.2.1, r.2.1), (r.2.2.1, r.2.2.2), (r.1, r.2.2.2)]

/-- The box of a transformed rectangle contains the image of every corner … -/
theorem rect_hull_contains (m : Matrix) (r : Rect) (c : Point) (hc : c ∈ corners r) :
    (apply_matrix_rect m r).1 ≤ (apply_matrix_pt m c).1 ∧
    (apply_matrix_pt m c).1 ≤ (apply_matrix_rect m r).2.2.1 ∧
    (apply_matrix_rect m r).2.1 ≤ (apply_matrix_pt m c).2 ∧
    (apply_matrix_pt m c).2 ≤ (apply_matrix_rect m r).2.2.2 := by
  obtain ⟨a1, a2, a3, a4, a5, a6⟩ := m
  obtain ⟨x0, y0, x1, y1⟩ := r
  simp only [corners, List.mem_cons, List.not_mem_nil, or_false] at hc
  rcases hc with rfl | rfl | rfl | rfl <;>
    simp only [apply_matrix_rect, apply_matrix_pt] <;>
    refine ⟨?_, ?_, ?_, ?_⟩ <;> grind

/-- … and is tight: each of its four bounds is attained by the image of some corner. -/
theorem rect_hull_tight (m : Matrix) (r : Rect) :
    (∃ c ∈ corners r, (apply_matrix_pt m c).1 = (apply_matrix_rect m r).1) ∧
    (∃ c ∈ corners r, (apply_matrix_pt m c).2 = (apply_matrix_rect m r).2.1) ∧
    (∃ c ∈ corners r, (apply_matrix_pt m c).1 = (apply_matrix_rect m r).2.2.1) ∧
    (∃ c ∈ corners r, (apply_matrix_pt m c).2 = (apply_matrix_rect m r).2.2.2) := by
  obtain ⟨a1, a2, a3, a4, a5, a6⟩ := m
  obtain ⟨x0, y0, x1, y1⟩ := r
  simp only [corners, List.mem_cons, List.not_mem_nil, or_false, exists_eq_or_imp, exists_eq_left,
    apply_matrix_rect, apply_matrix_pt]
  refine ⟨?_, ?_, ?_, ?_⟩ <;> grind

/-! ## Spatial index -/

/-- `Reach p L`: `p` is the state of a `Plane` after some sequence of insertions of fresh,
well-formed boxes and removals of live objects, and `L` is, by construction, the list of live
objects in insertion order (the brute-force bookkeeping of the same history). -/
inductive Reach : Plane.Plane → List PObj → Prop
  | init (bbox : Rect) (gs : Int) (hgs : 0 < gs) (hb : WfRect bbox) : Reach (Plane.init bbox gs) []
  | add {p L} (o : PObj) : Reach p L → (∀ o' ∈ p.seq, o'.id ≠ o.id) → WfRect (bboxOf o) →
      Reach (Plane.add p o) (L ++ [o])
  | remove {p L} (o : PObj) : Reach p L → o ∈ L → Reach (Plane.remove p o).1 (L.erase o)
  /-- an object that was added before and removed since is added again: it becomes the LAST live object -/
  | readd {p L} (o : PObj) : Reach p L → o ∈ p.seq → o.id ∉ p.objs → Reach (Plane.addPy p o) (L ++ [o])

/-- The representation invariant tying the fields of `Plane` to the live list: a live object is filed
either under every cell of its box (when those are at most `MAXCELLS`) or, once, in the overflow list. -/
structure Inv (p : Plane.Plane) (L : List PObj) : Prop where
  gs : 0 < p.gridsize
  bx : p.x0 ≤ p.x1
  by' : p.y0 ≤ p.y1
  ids : p.seq.Pairwise (fun a b => a.id ≠ b.id)
  objs_nodup : p.objs.Nodup
  objs_sub : ∀ i ∈ p.objs, ∃ o ∈ p.seq, o.id = i
  live : Plane.iter p = L
  wf : ∀ o ∈ p.seq, WfRect (bboxOf o)
  grid : ∀ k o, List.count (k, o) p.grid =
    if o ∈ L ∧ cells? p (bboxOf o) ≠ none then List.count k (getrange p (bboxOf o)) else 0
  big : ∀ o, List.count o p.big = if o ∈ L ∧ cells? p (bboxOf o) = none then 1 else 0

theorem getrange_add (p : Plane.Plane) (o : PObj) (b : Rect) :
    getrange (Plane.add p o) b = getrange p b := getrange_congr (add_bounds p o) b

theorem getrange_remove (p : Plane.Plane) (o : PObj) (b : Rect) :
    getrange (Plane.remove p o).1 b = getrange p b := getrange_congr (remove_bounds p o) b

theorem cells_add (p : Plane.Plane) (o : PObj) (b : Rect) :
    cells? (Plane.add p o) b = cells? p b := cells?_congr (add_bounds p o) b

theorem cells_remove (p : Plane.Plane) (o : PObj) (b : Rect) :
    cells? (Plane.remove p o).1 b = cells? p b := cells?_congr (remove_bounds p o) b

/-- The insertion proper keeps the invariant (the list grows at its end). -/
theorem inv_add {p L} (ih : Inv p L) (o : PObj) (hfresh : ∀ o' ∈ p.seq, o'.id ≠ o.id) (hwf : WfRect (bboxOf o)) :
    Inv (Plane.add p o) (L ++ [o]) := by
  have hnot : o.id ∉ p.objs := fun hmem => by
    obtain ⟨o', ho', hid⟩ := ih.objs_sub _ hmem
    exact hfresh o' ho' hid
  have hoL : o ∉ L := fun hmem => by
    rw [← ih.live] at hmem
    simp only [Plane.iter, List.mem_filter] at hmem
    exact hfresh o hmem.1 rfl
  have hb := add_bounds p o
  refine { gs := by rw [hb.1]; exact ih.gs, bx := by rw [hb.2.1, hb.2.2.2.1]; exact ih.bx,
           by' := by rw [hb.2.2.1, hb.2.2.2.2]; exact ih.by', ids := ?_, objs_nodup := ?_, objs_sub := ?_,
           live := ?_, wf := ?_, grid := ?_, big := ?_ }
  · rw [add_seq]
    simp only [List.pairwise_append, List.pairwise_cons, List.not_mem_nil,
      List.Pairwise.nil, List.mem_cons, or_false]
    exact ⟨ih.ids, ⟨fun _ h => h.elim, trivial⟩, fun a ha b hb => hb ▸ hfresh a ha⟩
  · rw [add_objs]
    simp only [hnot, if_false]
    rw [List.nodup_append]
    exact ⟨ih.objs_nodup, by simp, fun a ha b hb => by
      simp only [List.mem_cons, List.not_mem_nil, or_false] at hb; subst hb
      exact fun h => hnot (h ▸ ha)⟩
  · intro i hi
    rw [add_objs] at hi
    rw [add_seq]
    simp only [hnot, if_false, List.mem_append, List.mem_cons, List.not_mem_nil,
      or_false] at hi ⊢
    rcases hi with hi | rfl
    · obtain ⟨o', ho', hid⟩ := ih.objs_sub i hi
      exact ⟨o', Or.inl ho', hid⟩
    · exact ⟨o, Or.inr rfl, rfl⟩
  · rw [← ih.live]
    simp only [Plane.iter, add_seq, add_objs, hnot, if_false, List.filter_append, List.mem_append,
      List.mem_cons, List.not_mem_nil, or_false]
    congr 1
    · apply List.filter_congr
      intro a ha
      have : a.id ≠ o.id := hfresh a ha
      simp [this]
    · simp
  · intro o' ho'
    rw [add_seq] at ho'
    simp only [List.mem_append, List.mem_cons, List.not_mem_nil, or_false] at ho'
    rcases ho' with h | rfl
    · exact ih.wf o' h
    · exact hwf
  · intro k o'
    simp only [getrange_add, cells_add, List.mem_append, List.mem_cons, List.not_mem_nil, or_false]
    cases hc : cells? p (bboxOf o) with
    | none =>
      rw [(add_big p o hc).1, ih.grid]
      by_cases h : o' = o
      · subst h; simp [hoL, hc]
      · simp [h]
    | some ks =>
      have hks := (cells?_some hc).1
      rw [(add_small p o ks hc).1, foldl_append_pairs, List.count_append, count_map_pair, ih.grid, hks]
      by_cases h : o' = o
      · subst h; simp [hoL, hc]
      · simp [h]
  · intro o'
    simp only [cells_add, List.mem_append, List.mem_cons, List.not_mem_nil, or_false]
    cases hc : cells? p (bboxOf o) with
    | none =>
      rw [(add_big p o hc).2, List.count_append, ih.big]
      by_cases h : o' = o
      · subst h; simp [hoL, hc]
      · have : (o == o') = false := by simp [Ne.symm h]
        simp [h, List.count_cons, this]
    | some ks =>
      rw [(add_small p o ks hc).2, ih.big]
      by_cases h : o' = o
      · subst h; simp [hoL, hc]
      · simp [h]

/-- Forgetting the stale `_seq` entry of an object that is not live keeps the invariant (same live list). -/
theorem inv_forget {p L} (inv : Inv p L) (o : PObj) (hdead : o.id ∉ p.objs) : Inv (Plane.forget p o) L where
  gs := inv.gs
  bx := inv.bx
  by' := inv.by'
  ids := inv.ids.sublist List.erase_sublist
  objs_nodup := inv.objs_nodup
  objs_sub := by
    intro i hi
    obtain ⟨o', ho', hid⟩ := inv.objs_sub i hi
    refine ⟨o', ?_, hid⟩
    show o' ∈ p.seq.erase o
    exact (List.mem_erase_of_ne (by rintro rfl; exact hdead (hid ▸ hi))).mpr ho'
  live := by
    show (p.seq.erase o).filter (fun o' => decide (o'.id ∈ p.objs)) = L
    rw [filter_erase_of_false _ _ (by simpa using hdead)]
    exact inv.live
  wf := fun o' ho' => inv.wf o' (List.mem_of_mem_erase ho')
  grid := by
    intro k o'
    rw [cells_forget, getrange_forget]
    exact inv.grid k o'
  big := by
    intro o'
    rw [cells_forget]
    exact inv.big o'

theorem inv_of_reach {p L} (h : Reach p L) : Inv p L := by
  induction h with
  | init bbox gs hgs hb =>
    obtain ⟨x0, y0, x1, y1⟩ := bbox
    exact { gs := hgs, bx := hb.1, by' := hb.2, ids := by simp [Plane.init],
            objs_nodup := by simp [Plane.init], objs_sub := by simp [Plane.init],
            live := by simp [Plane.init, Plane.iter], wf := by simp [Plane.init],
            grid := by simp [Plane.init], big := by simp [Plane.init] }
  | @add p L o _ hfresh hwf ih => exact inv_add ih o hfresh hwf
  | @remove p L o _ hmem ih =>
    have hlive : o ∈ Plane.iter p := ih.live ▸ hmem
    have hseq : o ∈ p.seq := by
      simp only [Plane.iter, List.mem_filter] at hlive; exact hlive.1
    have hobj : o.id ∈ p.objs := by
      simp only [Plane.iter, List.mem_filter, decide_eq_true_eq] at hlive; exact hlive.2
    have hL : L.Nodup := by
      rw [← ih.live]
      unfold Plane.iter
      apply List.Pairwise.filter
      exact ih.ids.imp (fun hne heq => hne (congrArg PObj.id heq))
    have hb := remove_bounds p o
    refine { gs := by rw [hb.1]; exact ih.gs, bx := by rw [hb.2.1, hb.2.2.2.1]; exact ih.bx,
             by' := by rw [hb.2.2.1, hb.2.2.2.2]; exact ih.by', ids := ?_, objs_nodup := ?_, objs_sub := ?_,
             live := ?_, wf := ?_, grid := ?_, big := ?_ }
    · rw [remove_seq]; exact ih.ids
    · rw [remove_objs]; exact ih.objs_nodup.erase _
    · intro i hi
      rw [remove_objs] at hi
      rw [remove_seq]
      exact ih.objs_sub i (List.mem_of_mem_erase hi)
    · rw [hL.erase_eq_filter, ← ih.live]
      simp only [Plane.iter, remove_seq, remove_objs, List.filter_filter]
      apply List.filter_congr
      intro a ha
      have hiff : a.id ∈ p.objs.erase o.id ↔ a.id ≠ o.id ∧ a.id ∈ p.objs :=
        ih.objs_nodup.mem_erase_iff
      by_cases hao : a = o
      · subst hao; simp [hiff]
      · have hid : a.id ≠ o.id := by
          intro heq
          have := eq_of_id_eq ih.ids ha hseq
          exact hao (this heq)
        simp [hiff, hid, hao]
    · rw [remove_seq]; exact ih.wf
    · intro k o'
      simp only [getrange_remove, cells_remove]
      have hiff : o' ∈ L.erase o ↔ o' ≠ o ∧ o' ∈ L := hL.mem_erase_iff
      cases hc : cells? p (bboxOf o) with
      | none =>
        rw [(remove_big p o hc).1, ih.grid]
        by_cases h : o' = o
        · subst h; simp [hiff, hc]
        · simp [h, hiff]
      | some ks =>
        have hks := (cells?_some hc).1
        rw [(remove_small p o ks hc).1, count_foldl_erase, count_map_pair, ih.grid, hks]
        by_cases h : o' = o
        · subst h; simp [hiff, hmem, hc]
        · simp [h, hiff]
    · intro o'
      simp only [cells_remove]
      have hiff : o' ∈ L.erase o ↔ o' ≠ o ∧ o' ∈ L := hL.mem_erase_iff
      cases hc : cells? p (bboxOf o) with
      | none =>
        rw [(remove_big p o hc).2, List.count_erase, ih.big]
        by_cases h : o' = o
        · subst h; simp [hiff, hmem, hc]
        · have : (o == o') = false := by simp [Ne.symm h]
          simp [h, hiff, this]
      | some ks =>
        rw [(remove_small p o ks hc).2, ih.big]
        by_cases h : o' = o
        · subst h; simp [hiff, hc]
        · simp [h, hiff]
  | @readd p L o _ hseq hdead ih =>
    rw [addPy_readd p o hdead hseq]
    have hnd : p.seq.Nodup := ih.ids.imp (fun hne heq => hne (congrArg PObj.id heq))
    refine inv_add (inv_forget ih o hdead) o ?_ (ih.wf o hseq)
    intro o' ho' hid
    have ho'' : o' ∈ p.seq.erase o := ho'
    rw [hnd.mem_erase_iff] at ho''
    exact ho''.1 (eq_of_id_eq ih.ids ho''.2 hseq hid)

/-- **find = brute force.**  After any sequence of insertions and removals - objects in the overflow list
included -, for every well-formed query box - also one that covers more than `MAXCELLS` cells -, `find`
returns exactly the live objects that properly overlap it, each once. -/
theorem plane_find {p L} (h : Reach p L) (q : Rect) (hq : WfRect q) :
    (∀ o, o ∈ Plane.find p q ↔ (o ∈ L ∧ overlaps o q = true)) ∧ (Plane.find p q).Nodup := by
  have inv := inv_of_reach h
  refine ⟨fun o => ?_, nodup_find_of_scan (List.Pairwise.filter _ (nodup_dedup _))⟩
  rw [mem_find]
  simp only [Plane.findScan, List.mem_filter, mem_dedup]
  cases hcq : cells? p q with
  | none =>
    simp only [inv.live]
  | some ks =>
    have hks := (cells?_some hcq).1
    simp only [List.mem_append, List.mem_flatMap, mem_cell]
    constructor
    · rintro ⟨(⟨k, _, hk⟩ | hbig), hov⟩
      · refine ⟨?_, hov⟩
        have hc : 0 < List.count (k, o) p.grid := List.count_pos_iff.mpr hk
        rw [inv.grid] at hc
        by_cases hoL : o ∈ L
        · exact hoL
        · simp [hoL] at hc
      · refine ⟨?_, hov⟩
        have hc : 0 < List.count o p.big := List.count_pos_iff.mpr hbig
        rw [inv.big] at hc
        by_cases hoL : o ∈ L
        · exact hoL
        · simp [hoL] at hc
    · rintro ⟨hoL, hov⟩
      refine ⟨?_, hov⟩
      have hseq : o ∈ p.seq := by
        have : o ∈ Plane.iter p := inv.live ▸ hoL
        simp only [Plane.iter, List.mem_filter] at this; exact this.1
      cases hco : cells? p (bboxOf o) with
      | none =>
        right
        apply List.count_pos_iff.mp
        rw [inv.big]
        simp [hoL, hco]
      | some kso =>
        left
        obtain ⟨k, hk1, hk2⟩ := overlap_share_cell inv.gs inv.bx inv.by' (inv.wf o hseq) hq hov
        refine ⟨k, by rw [hks]; exact hk2, ?_⟩
        apply List.count_pos_iff.mp
        rw [inv.grid]
        simp only [hoL, hco, ne_eq, reduceCtorEq, not_false_eq_true, and_self, if_true]
        exact List.count_pos_iff.mpr hk1

/-- **Bounded work per operation.**  `add`, `remove` and `find` enumerate at most `MAXCELLS` (= 1024) grid
cells, for every plane, every box and every query - however large the coordinates (a form scaled by 1e30,
a page box of astronomic size): the cell count is computed from the range bounds, and a box with more cells
goes to / is served from the overflow list.  What remains is work linear in the number of objects. -/
theorem plane_cells_bounded (p : Plane.Plane) (b : Rect) :
    cellsTouched p b ≤ PLANE_MAXCELLS ∧ (∀ ks, cells? p b = some ks → ks = getrange p b) ∧
      (getrange p b).length = cellCount p b :=
  ⟨cellsTouched_le p b, fun _ h => (cells?_some h).1, length_getrange p b⟩

/-- `findSpec` is the brute-force search over the live objects; `find` agrees with it. -/
theorem plane_find_eq_bruteforce {p L} (h : Reach p L) (q : Rect) (hq : WfRect q) (o : PObj) :
    o ∈ Plane.find p q ↔ o ∈ Plane.findSpec p q := by
  rw [(plane_find h q hq).1 o]
  simp only [Plane.findSpec, List.mem_filter, (inv_of_reach h).live]

/-- **find = brute force, as a LIST.**  After the repair of `Plane.find` (objects are reported in
insertion order, not in the scan order of the grid cells) the result of `find` is literally the
brute-force list: the live objects that properly overlap the query, in insertion order.  The result
therefore does not depend on the grid size or on where the grid falls. -/
theorem plane_find_order {p L} (h : Reach p L) (q : Rect) (hq : WfRect q) :
    Plane.find p q = Plane.findSpec p q := by
  have inv := inv_of_reach h
  have hseq : p.seq.Nodup := by
    refine inv.ids.imp ?_
    intro a b hab heq
    exact hab (by rw [heq])
  have hpf := plane_find h q hq
  have hspecNodup : (Plane.findSpec p q).Nodup := by
    unfold Plane.findSpec Plane.iter
    exact (hseq.filter _).filter _
  have hperm : (Plane.find p q).Perm (Plane.findSpec p q) :=
    (List.perm_ext_iff_of_nodup hpf.2 hspecNodup).mpr (fun o => plane_find_eq_bruteforce h q hq o)
  have hsub : ∀ o ∈ Plane.findSpec p q, o ∈ p.seq := by
    intro o ho
    simp only [Plane.findSpec, Plane.iter, List.mem_filter] at ho
    exact ho.1.1
  refine List.Perm.eq_of_pairwise ?_ (sortByKey_sorted _ _) ?_ hperm
  · intro a b ha hb h1 h2
    exact rank_inj hseq (hsub a (hperm.subset ha)) (hsub b hb) (Nat.le_antisymm h1 h2)
  · unfold Plane.findSpec Plane.iter
    exact ((seq_rank_sorted hseq).filter _).filter _

/-- **Iteration order.**  Iterating yields the live objects in insertion order. -/
theorem plane_iter {p L} (h : Reach p L) : Plane.iter p = L := (inv_of_reach h).live

/-! ### Non-vacuity: a concrete reachable state with a hit, a miss and a removed object. -/

def exA : PObj := ⟨1, -7/10, -7/10, -3/5, -3/5⟩       -- negative fractional box, outside the bounds
def exB : PObj := ⟨2, 60, 60, 70, 70⟩
def exP : Plane.Plane := (Plane.remove (Plane.add (Plane.add (Plane.init (0, 0, 100, 100) 50) exA) exB) exB).1

theorem exP_reach : Reach exP [exA] := by
  have h0 := Reach.init (0, 0, 100, 100) 50 (by decide) (by unfold WfRect; decide +kernel)
  have h1 := Reach.add exA h0 (by simp [Plane.init]) (by unfold WfRect bboxOf exA; decide +kernel)
  have h2 := Reach.add exB h1 (by simp [Plane.init, Plane.add, exA, exB]) (by unfold WfRect bboxOf exB; decide +kernel)
  have h3 := Reach.remove exB h2 (by simp)
  have : ([] ++ [exA] ++ [exB]).erase exB = [exA] := by decide +kernel
  rw [this] at h3
  exact h3

/-! ## Round 6: the whole public interface of `Plane`, for every history

`remove` of an object that is not in the index (removed before, or never added) raises `KeyError` and
leaves the index exactly as it was; `__contains__`, `__len__` and `extend` agree with the brute-force
list; `plane_history` lifts all of it (and, through `Reach`, every theorem above) to arbitrary
interleavings of `add` / `extend` / `remove` (live or absent). -/

/-- **Removing an absent object** is `KeyError` and changes NOTHING (the grid edits that `remove`
performs before `set.remove` raises find nothing to delete). -/
theorem plane_remove_absent {p L} (h : Reach p L) (o : PObj) (ho : o.id ∉ p.objs) :
    Plane.remove p o = (p, false) := by
  have inv := inv_of_reach h
  have hL : o ∉ L := by
    rw [← inv.live]
    simp only [Plane.iter, List.mem_filter, decide_eq_true_eq, not_and]
    exact fun _ => ho
  have hg : ∀ k, (k, o) ∉ p.grid := by
    intro k hk
    have := inv.grid k o
    simp only [hL, false_and, if_false] at this
    have hpos := List.count_pos_iff.mpr hk
    omega
  have hb : o ∉ p.big := by
    intro hk
    have := inv.big o
    simp only [hL, false_and, if_false] at this
    have hpos := List.count_pos_iff.mpr hk
    omega
  unfold Plane.remove
  simp only [ho, if_false]
  cases hc : cells? p (bboxOf o) with
  | none => simp only [List.erase_of_not_mem hb]
  | some ks => simp only [foldl_erase_absent ks o p.grid hg]

/-- `remove` succeeds exactly on the objects `__contains__` reports. -/
theorem plane_remove_ok_iff (p : Plane.Plane) (o : PObj) :
    (Plane.remove p o).2 = true ↔ Plane.contains p o = true := by
  unfold Plane.remove Plane.contains
  by_cases h : o.id ∈ p.objs <;> simp [h]

/-- **`__contains__`** = membership (by identity) in the brute-force list of live objects. -/
theorem plane_contains {p L} (h : Reach p L) (o : PObj) :
    Plane.contains p o = true ↔ ∃ o' ∈ L, o'.id = o.id := by
  have inv := inv_of_reach h
  simp only [Plane.contains, decide_eq_true_eq]
  constructor
  · intro ho
    obtain ⟨o', ho', hid⟩ := inv.objs_sub _ ho
    refine ⟨o', ?_, hid⟩
    rw [← inv.live]
    simp only [Plane.iter, List.mem_filter, decide_eq_true_eq]
    exact ⟨ho', hid ▸ ho⟩
  · rintro ⟨o', ho', hid⟩
    rw [← inv.live] at ho'
    simp only [Plane.iter, List.mem_filter, decide_eq_true_eq] at ho'
    exact hid ▸ ho'.2

/-- For an object that was handed to the index at some point (so that its id identifies it),
`obj in plane` is literally `obj ∈ L`. -/
theorem plane_contains_added {p L} (h : Reach p L) (o : PObj) (ho : o ∈ p.seq) :
    Plane.contains p o = true ↔ o ∈ L := by
  have inv := inv_of_reach h
  rw [plane_contains h o]
  constructor
  · rintro ⟨o', ho', hid⟩
    have hs : o' ∈ p.seq := by
      rw [← inv.live] at ho'
      exact (List.mem_filter.mp ho').1
    exact (eq_of_id_eq inv.ids hs ho hid) ▸ ho'
  · exact fun hL => ⟨o, hL, rfl⟩

/-- **`__len__`** = number of live objects. -/
theorem plane_len {p L} (h : Reach p L) : Plane.len p = L.length := by
  have inv := inv_of_reach h
  have hnd : ((Plane.iter p).map (fun o => o.id)).Nodup := by
    rw [List.Nodup, List.pairwise_map]
    exact inv.ids.filter _
  have hmem : ∀ i, i ∈ p.objs ↔ i ∈ (Plane.iter p).map (fun o => o.id) := by
    intro i
    simp only [List.mem_map, Plane.iter, List.mem_filter, decide_eq_true_eq]
    constructor
    · intro hi
      obtain ⟨o, ho, hid⟩ := inv.objs_sub i hi
      exact ⟨o, ⟨ho, hid ▸ hi⟩, hid⟩
    · rintro ⟨o, ⟨_, ho⟩, rfl⟩
      exact ho
  have := length_eq_of_nodup_of_mem_iff inv.objs_nodup hnd hmem
  rw [List.length_map, inv.live] at this
  exact this

/-- **`extend`** = appending the new objects, in order, to the brute-force list. -/
theorem plane_extend {p L} (h : Reach p L) (os : List PObj)
    (hfresh : ∀ o ∈ os, ∀ o' ∈ p.seq, o'.id ≠ o.id)
    (hd : os.Pairwise (fun a b => a.id ≠ b.id))
    (hwf : ∀ o ∈ os, WfRect (bboxOf o)) :
    Reach (Plane.extend p os) (L ++ os) := by
  induction os generalizing p L with
  | nil => simpa [extend_nil] using h
  | cons o os ih =>
    have hnotseq : o ∉ p.seq := fun hm => hfresh o (List.mem_cons_self ..) o hm rfl
    have hnot : o.id ∉ p.objs := fun hm => by
      obtain ⟨o', ho', hid⟩ := (inv_of_reach h).objs_sub _ hm
      exact hfresh o (List.mem_cons_self ..) o' ho' hid
    rw [extend_cons, addPy_fresh p o hnot hnotseq]
    rw [List.pairwise_cons] at hd
    have h1 := Reach.add o h (hfresh o (List.mem_cons_self ..)) (hwf o (List.mem_cons_self ..))
    have := ih h1 (by
        intro o2 ho2 o' ho'
        rw [add_seq, List.mem_append, List.mem_singleton] at ho'
        rcases ho' with ho' | rfl
        · exact hfresh o2 (List.mem_cons_of_mem _ ho2) o' ho'
        · exact hd.1 o2 ho2) hd.2 (fun o2 ho2 => hwf o2 (List.mem_cons_of_mem _ ho2))
    simpa [List.append_assoc] using this

/-- One state-changing call of the public interface. -/
inductive Op
  | add (o : PObj)
  | extend (os : List PObj)
  | remove (o : PObj)

/-- What the index does … -/
def Op.run (p : Plane.Plane) : Op → Plane.Plane
  | .add o => Plane.addPy p o
  | .extend os => Plane.extend p os
  | .remove o => (Plane.remove p o).1

/-- … and what the brute-force list does. -/
def Op.spec (L : List PObj) : Op → List PObj
  | .add o => if o ∈ L then L else L ++ [o]      -- set-like: an object that is there stays where it is
  | .extend os => L ++ os
  | .remove o => L.erase o

/-- The domain: `add` inserts a new well-formed object OR an object that was handed to the index before
(still live: duplicate `add`, a no-op; removed since: it is added again); a removal targets a live object OR an
object that is not in the index at all (removed before / never added). -/
def Op.Ok (p : Plane.Plane) : Op → Prop
  | .add o => ((∀ o' ∈ p.seq, o'.id ≠ o.id) ∧ WfRect (bboxOf o)) ∨ o ∈ p.seq
  | .extend os => (∀ o ∈ os, ∀ o' ∈ p.seq, o'.id ≠ o.id) ∧ os.Pairwise (fun a b => a.id ≠ b.id) ∧
      ∀ o ∈ os, WfRect (bboxOf o)
  | .remove o => o ∈ Plane.iter p ∨ o.id ∉ p.objs

def HistOk (p : Plane.Plane) : List Op → Prop
  | [] => True
  | op :: rest => op.Ok p ∧ HistOk (op.run p) rest

/-- **Arbitrary operation histories.**  Whatever interleaving of `add`, `extend`, `remove` of live objects and
`remove` of absent objects is applied, the index stays tied to the brute-force list (`Reach`), hence
`find` / iteration / `in` / `len` keep agreeing with it (`plane_history_bruteforce`). -/
theorem plane_history {p L} (h : Reach p L) (ops : List Op) (hok : HistOk p ops) :
    Reach (ops.foldl Op.run p) (ops.foldl Op.spec L) := by
  induction ops generalizing p L with
  | nil => exact h
  | cons op ops ih =>
    obtain ⟨h1, h2⟩ := hok
    simp only [List.foldl_cons]
    refine ih ?_ h2
    cases op with
    | add o =>
      have hLiff : o ∈ L ↔ o ∈ p.seq ∧ o.id ∈ p.objs := by
        rw [← plane_iter h]
        simp [Plane.iter]
      rcases h1 with ⟨hf, hw⟩ | hs
      · have hnotseq : o ∉ p.seq := fun hm => hf o hm rfl
        have hnot : o.id ∉ p.objs := fun hm => by
          obtain ⟨o', ho', hid⟩ := (inv_of_reach h).objs_sub _ hm
          exact hf o' ho' hid
        have hL : o ∉ L := fun hm => hnotseq (hLiff.mp hm).1
        simp only [Op.run, Op.spec, addPy_fresh p o hnot hnotseq, hL, if_false]
        exact Reach.add o h hf hw
      · by_cases hlive : o.id ∈ p.objs
        · have hL : o ∈ L := hLiff.mpr ⟨hs, hlive⟩
          simp only [Op.run, Op.spec, addPy_live p o hlive, hL, if_true]
          exact h
        · have hL : o ∉ L := fun hm => hlive (hLiff.mp hm).2
          simp only [Op.run, Op.spec, hL, if_false]
          exact Reach.readd o h hs hlive
    | extend os => exact plane_extend h os h1.1 h1.2.1 h1.2.2
    | remove o =>
      rcases h1 with h1 | h1
      · exact Reach.remove o h (by rw [← plane_iter h]; exact h1)
      · have hL : o ∉ L := by
          rw [← plane_iter h]
          simp only [Plane.iter, List.mem_filter, decide_eq_true_eq, not_and]
          exact fun _ => h1
        simp only [Op.run, Op.spec, plane_remove_absent h o h1, List.erase_of_not_mem hL]
        exact h

/-- Everything observable after an arbitrary history on a fresh index equals brute force on the list. -/
theorem plane_history_bruteforce (bbox : Rect) (gs : Int) (hgs : 0 < gs) (hb : WfRect bbox)
    (ops : List Op) (hok : HistOk (Plane.init bbox gs) ops) (q : Rect) (hq : WfRect q) :
    let p := ops.foldl Op.run (Plane.init bbox gs)
    let L := ops.foldl Op.spec []
    Plane.find p q = L.filter (fun o => overlaps o q) ∧ Plane.iter p = L ∧ Plane.len p = L.length ∧
      ∀ o, Plane.contains p o = true ↔ ∃ o' ∈ L, o'.id = o.id := by
  intro p L
  have h : Reach p L := plane_history (Reach.init bbox gs hgs hb) ops hok
  refine ⟨?_, plane_iter h, plane_len h, plane_contains h⟩
  rw [plane_find_order h q hq, Plane.findSpec, plane_iter h]

/-! ### Non-vacuity (round 6): a history with an `extend`, a live removal, an absent removal. -/

def exC : PObj := ⟨3, 10, 10, 10, 20⟩        -- zero-width object
/-- extend; remove (live); remove (absent: KeyError); add; remove (never added); add of a live object (no-op);
add of the removed object again (it becomes the last one). -/
def exOps : List Op :=
  [.extend [exA, exB], .remove exB, .remove exB, .add exC, .remove ⟨9, 0, 0, 1, 1⟩, .add exA, .add exB]

example : HistOk (Plane.init (0, 0, 100, 100) 50) exOps := by
  simp only [exOps, HistOk, Op.Ok, Op.run, and_true]
  refine ⟨⟨?_, ?_, ?_⟩, ?_, ?_, Or.inl ⟨?_, ?_⟩, ?_, Or.inr ?_, Or.inr ?_⟩
  · simp [Plane.init]
  · simp [exA, exB]
  · intro o ho
    simp only [List.mem_cons, List.not_mem_nil, or_false] at ho
    rcases ho with rfl | rfl <;> (unfold WfRect bboxOf; decide +kernel)
  · left; decide +kernel
  · right; decide +kernel
  · decide +kernel
  · unfold WfRect bboxOf; decide +kernel
  · right; decide +kernel
  · decide +kernel
  · decide +kernel

example : exOps.foldl Op.spec [] = [exA, exC, exB] := by decide +kernel
example : Plane.iter (exOps.foldl Op.run (Plane.init (0, 0, 100, 100) 50)) = [exA, exC, exB] := by decide +kernel
example : Plane.remove exP exB = (exP, false) := plane_remove_absent exP_reach exB (by decide +kernel)

/-- Adding an object that is live is a no-op (set-like). -/
theorem plane_add_live {p L} (h : Reach p L) (o : PObj) (ho : o ∈ L) : Plane.addPy p o = p := by
  rw [← plane_iter h] at ho
  simp only [Plane.iter, List.mem_filter, decide_eq_true_eq] at ho
  exact addPy_live p o ho.2

/-- Why `Plane.add` needs its guard (the behaviour before the repair, `Plane.add` = the unguarded insertion):
filing a live object a second time leaves, after `remove`, a stale grid entry - `find` reports an object that
is not in the index any more. -/
theorem plane_unguarded_double_add_cex :
    let p := (Plane.remove (Plane.add (Plane.add (Plane.init (0, 0, 100, 100) 50) exB) exB) exB).1
    Plane.find p (55, 55, 75, 75) = [exB] ∧ Plane.iter p = [] ∧ Plane.len p = 0 := by decide +kernel

/-- … and without dropping the stale `_seq` entry a re-added object is iterated twice. -/
theorem plane_unguarded_readd_cex :
    let p := Plane.add (Plane.remove (Plane.add (Plane.init (0, 0, 100, 100) 50) exB) exB).1 exB
    Plane.iter p = [exB, exB] ∧ Plane.len p = 1 := by decide +kernel

/-- The repaired `add` on the same histories. -/
example :
    let p := (Plane.remove (Plane.addPy (Plane.addPy (Plane.init (0, 0, 100, 100) 50) exB) exB) exB).1
    Plane.find p (55, 55, 75, 75) = [] ∧ Plane.iter p = [] := by decide +kernel
example :
    let p := Plane.addPy (Plane.remove (Plane.addPy (Plane.init (0, 0, 100, 100) 50) exB) exB).1 exB
    Plane.iter p = [exB] ∧ Plane.len p = 1 := by decide +kernel

/-! ## Round 6: list helpers of utils.py (`get_bound`, `uniq`, `fsplit`; regenerated definitions) -/

/-- `get_bound` of no points is the initial limit. -/
theorem get_bound_nil :
    get_bound [] = (((INF : Int) : Rat), ((INF : Int) : Rat), -((INF : Int) : Rat), -((INF : Int) : Rat)) := rfl

/-- `get_bound` covers every point - for ALL point lists … -/
theorem get_bound_contains (pts : List Point) (p : Point) (hp : p ∈ pts) :
    (get_bound pts).1 ≤ p.1 ∧ p.1 ≤ (get_bound pts).2.2.1 ∧
    (get_bound pts).2.1 ≤ p.2 ∧ p.2 ≤ (get_bound pts).2.2.2 := by
  unfold get_bound
  rw [foldl_get_bound_step]
  exact ⟨(foldl_min_le (fun p : Point => p.1) pts _).2 p hp, (foldl_max_le (fun p : Point => p.1) pts _).2 p hp,
    (foldl_min_le (fun p : Point => p.2) pts _).2 p hp, (foldl_max_le (fun p : Point => p.2) pts _).2 p hp⟩

/-- … each bound is either attained by a point or still the initial limit `±INF`, and never beyond it … -/
theorem get_bound_attained_or_limit (pts : List Point) :
    ((get_bound pts).1 = (INF : Int) ∨ ∃ p ∈ pts, p.1 = (get_bound pts).1) ∧
    ((get_bound pts).2.1 = (INF : Int) ∨ ∃ p ∈ pts, p.2 = (get_bound pts).2.1) ∧
    ((get_bound pts).2.2.1 = -((INF : Int) : Rat) ∨ ∃ p ∈ pts, p.1 = (get_bound pts).2.2.1) ∧
    ((get_bound pts).2.2.2 = -((INF : Int) : Rat) ∨ ∃ p ∈ pts, p.2 = (get_bound pts).2.2.2) := by
  unfold get_bound
  rw [foldl_get_bound_step]
  exact ⟨foldl_min_mem (fun p : Point => p.1) pts _, foldl_min_mem (fun p : Point => p.2) pts _,
    foldl_max_mem (fun p : Point => p.1) pts _, foldl_max_mem (fun p : Point => p.2) pts _⟩

/-- … so for a non-empty list of points inside `[-INF, INF]²` it is the TIGHT hull ("minimal rectangle that
covers all the points"): each of the four bounds is attained. -/
theorem get_bound_tight (pts : List Point) (hne : pts ≠ [])
    (hin : ∀ p ∈ pts, -((INF : Int) : Rat) ≤ p.1 ∧ p.1 ≤ (INF : Int) ∧ -((INF : Int) : Rat) ≤ p.2 ∧ p.2 ≤ (INF : Int)) :
    (∃ p ∈ pts, p.1 = (get_bound pts).1) ∧ (∃ p ∈ pts, p.2 = (get_bound pts).2.1) ∧
    (∃ p ∈ pts, p.1 = (get_bound pts).2.2.1) ∧ (∃ p ∈ pts, p.2 = (get_bound pts).2.2.2) := by
  obtain ⟨p0, hp0⟩ := List.exists_mem_of_ne_nil pts hne
  have hc := get_bound_contains pts p0 hp0
  have hb := hin p0 hp0
  obtain ⟨h1, h2, h3, h4⟩ := get_bound_attained_or_limit pts
  refine ⟨?_, ?_, ?_, ?_⟩
  · rcases h1 with h | h
    · exact ⟨p0, hp0, by rw [h] at hc ⊢; exact Rat.le_antisymm hb.2.1 hc.1⟩
    · exact h
  · rcases h2 with h | h
    · exact ⟨p0, hp0, by rw [h] at hc ⊢; exact Rat.le_antisymm hb.2.2.2 hc.2.2.1⟩
    · exact h
  · rcases h3 with h | h
    · exact ⟨p0, hp0, by rw [h] at hc ⊢; exact Rat.le_antisymm hc.2.1 hb.1⟩
    · exact h
  · rcases h4 with h | h
    · exact ⟨p0, hp0, by rw [h] at hc ⊢; exact Rat.le_antisymm hc.2.2.2 hb.2.2.1⟩
    · exact h

/-- The box of a transformed rectangle IS `get_bound` of the four transformed corners (whenever those lie
inside `get_bound`'s limit): the two "hull" helpers of utils.py agree. -/
theorem rect_eq_get_bound (m : Matrix) (r : Rect)
    (hin : ∀ c ∈ corners r, -((INF : Int) : Rat) ≤ (apply_matrix_pt m c).1 ∧ (apply_matrix_pt m c).1 ≤ (INF : Int) ∧
      -((INF : Int) : Rat) ≤ (apply_matrix_pt m c).2 ∧ (apply_matrix_pt m c).2 ≤ (INF : Int)) :
    apply_matrix_rect m r = get_bound ((corners r).map (apply_matrix_pt m)) := by
  obtain ⟨a1, a2, a3, a4, a5, a6⟩ := m
  obtain ⟨x0, y0, x1, y1⟩ := r
  simp only [corners, List.mem_cons, List.not_mem_nil, or_false, forall_eq_or_imp, forall_eq] at hin
  simp only [corners, List.map, get_bound, List.foldl, get_bound_step, apply_matrix_rect, apply_matrix_pt] at hin ⊢
  obtain ⟨⟨h1, h2, h3, h4⟩, ⟨h5, h6, h7, h8⟩, ⟨h9, h10, h11, h12⟩, ⟨h13, h14, h15, h16⟩⟩ := hin
  refine Prod.ext ?_ (Prod.ext ?_ (Prod.ext ?_ ?_)) <;> simp only [] <;> grind

/-- **`uniq`** yields exactly the first occurrences, in order (`firstOcc` is the specification) … -/
theorem uniq_spec (l : List Int) : uniq l = firstOcc l := by
  unfold uniq
  rw [uniqGo_eq]
  simp

/-- … i.e. the same elements, each once, as a sub-sequence of the input. -/
theorem uniq_props (l : List Int) :
    (∀ x, x ∈ uniq l ↔ x ∈ l) ∧ (uniq l).Nodup ∧ (uniq l).Sublist l := by
  rw [uniq_spec]
  exact ⟨fun _ => mem_firstOcc, nodup_firstOcc l, sublist_firstOcc l⟩

/-- `uniq` is idempotent. -/
theorem uniq_idem (l : List Int) : uniq (uniq l) = uniq l := by
  rw [uniq_spec, uniq_spec]
  have : ∀ l : List Int, l.Nodup → firstOcc l = l := by
    intro l
    induction l with
    | nil => intro _; rfl
    | cons x rest ih =>
      intro h
      rw [List.nodup_cons] at h
      simp only [firstOcc, ih h.2, List.cons.injEq, true_and]
      rw [List.filter_eq_self]
      intro y hy
      simp only [ne_eq, decide_eq_true_eq]
      rintro rfl
      exact h.1 hy
  exact this _ (nodup_firstOcc l)

/-- **`fsplit`** = (the elements satisfying the predicate, the others), both in input order. -/
theorem fsplit_spec (pred : Int → Bool) (l : List Int) :
    fsplit pred l = (l.filter pred, l.filter (fun x => !pred x)) := by
  unfold fsplit
  rw [fsplitGo_eq]
  simp

/-- Nothing is lost or invented by `fsplit`. -/
theorem fsplit_length (pred : Int → Bool) (l : List Int) :
    (fsplit pred l).1.length + (fsplit pred l).2.length = l.length := by
  simp only [fsplit_spec]
  induction l with
  | nil => rfl
  | cons x rest ih =>
    by_cases hx : pred x = true <;> simp only [List.filter_cons, hx, if_true, Bool.not_true, Bool.not_false,
      Bool.false_eq_true, if_false, List.length_cons] <;> omega

example : get_bound [((3 : Rat), (-7 : Rat) / 2), (-1, 4), (3, 4)] = (-1, (-7 : Rat) / 2, 3, 4) := by decide +kernel
example : uniq [3, 1, 3, 2, 1] = [3, 1, 2] := by decide +kernel
example : fsplit (fun x => decide (x < 2)) [3, 1, 0, 2] = ([1, 0], [3, 2]) := by decide +kernel
example : apply_matrix_rect (0, 1, -1, 0, 5, 0) (0, 0, 2, 1) =
    get_bound ((corners (0, 0, 2, 1)).map (apply_matrix_pt (0, 1, -1, 0, 5, 0))) := by decide +kernel

end PdfVerif.Props.C20
