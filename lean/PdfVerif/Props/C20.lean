/-
C20 — Geometry helpers obey affine algebra; spatial index equals brute-force search.

The matrix helpers and `drange` are `PdfVerif.Gen.Utils.*`, regenerated from
pdfminer/utils.py on every run; `Plane` is the hand model `PdfVerif.Model.Plane`
(correspondence-checked against the implementation by tools/harness/props/c20.py).

Only property theorems live here (helper lemmas: `Lemmas/Plane.lean`).
-/
import PdfVerif.Lemmas.Plane

namespace PdfVerif.Props.C20
open PdfVerif PdfVerif.Gen.Utils PdfVerif.Plane

/-! ## Affine algebra (all rationals) -/

/-- Composition is associative. -/
theorem mult_assoc (a b c : Matrix) :
    mult_matrix (mult_matrix a b) c = mult_matrix a (mult_matrix b c) := by
  obtain ⟨a1, a2, a3, a4, a5, a6⟩ := a
  obtain ⟨b1, b2, b3, b4, b5, b6⟩ := b
  obtain ⟨c1, c2, c3, c4, c5, c6⟩ := c
  simp only [mult_matrix, Prod.mk.injEq]
  refine ⟨?_, ?_, ?_, ?_, ?_, ?_⟩ <;> grind

/-- The identity is a left unit. -/
theorem mult_id_left (m : Matrix) : mult_matrix MATRIX_IDENTITY m = m := by
  obtain ⟨a1, a2, a3, a4, a5, a6⟩ := m
  simp only [mult_matrix, MATRIX_IDENTITY, Prod.mk.injEq]
  refine ⟨?_, ?_, ?_, ?_, ?_, ?_⟩ <;> grind

/-- The identity is a right unit. -/
theorem mult_id_right (m : Matrix) : mult_matrix m MATRIX_IDENTITY = m := by
  obtain ⟨a1, a2, a3, a4, a5, a6⟩ := m
  simp only [mult_matrix, MATRIX_IDENTITY, Prod.mk.injEq]
  refine ⟨?_, ?_, ?_, ?_, ?_, ?_⟩ <;> grind

/-- Applying a composed matrix equals applying its factors in turn (`m1` first, then `m0`). -/
theorem apply_mult (m1 m0 : Matrix) (v : Point) :
    apply_matrix_pt (mult_matrix m1 m0) v = apply_matrix_pt m0 (apply_matrix_pt m1 v) := by
  obtain ⟨a1, a2, a3, a4, a5, a6⟩ := m1
  obtain ⟨b1, b2, b3, b4, b5, b6⟩ := m0
  obtain ⟨x, y⟩ := v
  simp only [mult_matrix, apply_matrix_pt, Prod.mk.injEq]
  refine ⟨?_, ?_⟩ <;> grind

/-- Translation inside the projection: `translate_matrix m v` is the translation by `v`
followed by `m` (as the docstring says: the origin moves to `v` in `m`'s own coordinates). -/
theorem translate_spec (m : Matrix) (v : Point) :
    translate_matrix m v = mult_matrix (1, 0, 0, 1, v.1, v.2) m := by
  obtain ⟨a1, a2, a3, a4, a5, a6⟩ := m
  obtain ⟨x, y⟩ := v
  simp only [mult_matrix, translate_matrix, Prod.mk.injEq]
  refine ⟨?_, ?_, ?_, ?_, ?_, ?_⟩ <;> grind

/-- …and therefore maps a point `p` like `m` maps `p + v`. -/
theorem translate_apply (m : Matrix) (v p : Point) :
    apply_matrix_pt (translate_matrix m v) p = apply_matrix_pt m (p.1 + v.1, p.2 + v.2) := by
  obtain ⟨a1, a2, a3, a4, a5, a6⟩ := m
  obtain ⟨x, y⟩ := v
  obtain ⟨px, py⟩ := p
  simp only [translate_matrix, apply_matrix_pt, Prod.mk.injEq]
  refine ⟨?_, ?_⟩ <;> grind

/-- `apply_matrix_norm m v = apply_matrix_pt m v - apply_matrix_pt m (0,0)`. -/
theorem norm_spec (m : Matrix) (v : Point) :
    apply_matrix_norm m v =
      ((apply_matrix_pt m v).1 - (apply_matrix_pt m (0, 0)).1,
       (apply_matrix_pt m v).2 - (apply_matrix_pt m (0, 0)).2) := by
  obtain ⟨a1, a2, a3, a4, a5, a6⟩ := m
  obtain ⟨x, y⟩ := v
  simp only [apply_matrix_norm, apply_matrix_pt, Prod.mk.injEq]
  refine ⟨?_, ?_⟩ <;> grind

/-- The four corners of a rectangle. -/
def corners (r : Rect) : List Point :=
  [(r.1, r.2.1), (r.2.2.1, r.2.1), (r.2.2.1, r.2.2.2), (r.1, r.2.2.2)]

/-- The box of a transformed rectangle contains the image of every corner … -/
theorem rect_hull_contains (m : Matrix) (r : Rect) (c : Point) (hc : c ∈ corners r) :
    (apply_matrix_rect m r).1 ≤ (apply_matrix_pt m c).1 ∧
    (apply_matrix_pt m c).1 ≤ (apply_matrix_rect m r).2.2.1 ∧
    (apply_matrix_rect m r).2.1 ≤ (apply_matrix_pt m c).2 ∧
    (apply_matrix_pt m c).2 ≤ (apply_matrix_rect m r).2.2.2 := by
  obtain ⟨a1, a2, a3, a4, a5, a6⟩ := m
  obtain ⟨x0, y0, x1, y1⟩ := r
  simp only [corners, List.mem_cons, List.not_mem_nil, or_false] at hc
  rcases hc with rfl | rfl | rfl | rfl <;>
    simp only [apply_matrix_rect, apply_matrix_pt] <;>
    refine ⟨?_, ?_, ?_, ?_⟩ <;> grind

/-- … and is tight: each of its four bounds is attained by the image of some corner. -/
theorem rect_hull_tight (m : Matrix) (r : Rect) :
    (∃ c ∈ corners r, (apply_matrix_pt m c).1 = (apply_matrix_rect m r).1) ∧
    (∃ c ∈ corners r, (apply_matrix_pt m c).2 = (apply_matrix_rect m r).2.1) ∧
    (∃ c ∈ corners r, (apply_matrix_pt m c).1 = (apply_matrix_rect m r).2.2.1) ∧
    (∃ c ∈ corners r, (apply_matrix_pt m c).2 = (apply_matrix_rect m r).2.2.2) := by
  obtain ⟨a1, a2, a3, a4, a5, a6⟩ := m
  obtain ⟨x0, y0, x1, y1⟩ := r
  simp only [corners, List.mem_cons, List.not_mem_nil, or_false, exists_eq_or_imp, exists_eq_left,
    apply_matrix_rect, apply_matrix_pt]
  refine ⟨?_, ?_, ?_, ?_⟩ <;> grind

/-! ## Spatial index -/

/-- `Reach p L`: `p` is the state of a `Plane` after some sequence of insertions of fresh,
well-formed boxes and removals of live objects, and `L` is, by construction, the list of live
objects in insertion order (the brute-force bookkeeping of the same history). -/
inductive Reach : Plane.Plane → List PObj → Prop
  | init (bbox : Rect) (gs : Int) (hgs : 0 < gs) (hb : WfRect bbox) : Reach (Plane.init bbox gs) []
  | add {p L} (o : PObj) : Reach p L → (∀ o' ∈ p.seq, o'.id ≠ o.id) → WfRect (bboxOf o) →
      Reach (Plane.add p o) (L ++ [o])
  | remove {p L} (o : PObj) : Reach p L → o ∈ L → Reach (Plane.remove p o).1 (L.erase o)

/-- The representation invariant tying the fields of `Plane` to the live list: a live object is filed
either under every cell of its box (when those are at most `MAXCELLS`) or, once, in the overflow list. -/
structure Inv (p : Plane.Plane) (L : List PObj) : Prop where
  gs : 0 < p.gridsize
  bx : p.x0 ≤ p.x1
  by' : p.y0 ≤ p.y1
  ids : p.seq.Pairwise (fun a b => a.id ≠ b.id)
  objs_nodup : p.objs.Nodup
  objs_sub : ∀ i ∈ p.objs, ∃ o ∈ p.seq, o.id = i
  live : Plane.iter p = L
  wf : ∀ o ∈ p.seq, WfRect (bboxOf o)
  grid : ∀ k o, List.count (k, o) p.grid =
    if o ∈ L ∧ cells? p (bboxOf o) ≠ none then List.count k (getrange p (bboxOf o)) else 0
  big : ∀ o, List.count o p.big = if o ∈ L ∧ cells? p (bboxOf o) = none then 1 else 0

theorem getrange_add (p : Plane.Plane) (o : PObj) (b : Rect) :
    getrange (Plane.add p o) b = getrange p b := getrange_congr (add_bounds p o) b

theorem getrange_remove (p : Plane.Plane) (o : PObj) (b : Rect) :
    getrange (Plane.remove p o).1 b = getrange p b := getrange_congr (remove_bounds p o) b

theorem cells_add (p : Plane.Plane) (o : PObj) (b : Rect) :
    cells? (Plane.add p o) b = cells? p b := cells?_congr (add_bounds p o) b

theorem cells_remove (p : Plane.Plane) (o : PObj) (b : Rect) :
    cells? (Plane.remove p o).1 b = cells? p b := cells?_congr (remove_bounds p o) b

theorem inv_of_reach {p L} (h : Reach p L) : Inv p L := by
  induction h with
  | init bbox gs hgs hb =>
    obtain ⟨x0, y0, x1, y1⟩ := bbox
    exact { gs := hgs, bx := hb.1, by' := hb.2, ids := by simp [Plane.init],
            objs_nodup := by simp [Plane.init], objs_sub := by simp [Plane.init],
            live := by simp [Plane.init, Plane.iter], wf := by simp [Plane.init],
            grid := by simp [Plane.init], big := by simp [Plane.init] }
  | @add p L o _ hfresh hwf ih =>
    have hnot : o.id ∉ p.objs := fun hmem => by
      obtain ⟨o', ho', hid⟩ := ih.objs_sub _ hmem
      exact hfresh o' ho' hid
    have hoL : o ∉ L := fun hmem => by
      rw [← ih.live] at hmem
      simp only [Plane.iter, List.mem_filter] at hmem
      exact hfresh o hmem.1 rfl
    have hb := add_bounds p o
    refine { gs := by rw [hb.1]; exact ih.gs, bx := by rw [hb.2.1, hb.2.2.2.1]; exact ih.bx,
             by' := by rw [hb.2.2.1, hb.2.2.2.2]; exact ih.by', ids := ?_, objs_nodup := ?_, objs_sub := ?_,
             live := ?_, wf := ?_, grid := ?_, big := ?_ }
    · rw [add_seq]
      simp only [List.pairwise_append, List.pairwise_cons, List.not_mem_nil,
        List.Pairwise.nil, List.mem_cons, or_false]
      exact ⟨ih.ids, ⟨fun _ h => h.elim, trivial⟩, fun a ha b hb => hb ▸ hfresh a ha⟩
    · rw [add_objs]
      simp only [hnot, if_false]
      rw [List.nodup_append]
      exact ⟨ih.objs_nodup, by simp, fun a ha b hb => by
        simp only [List.mem_cons, List.not_mem_nil, or_false] at hb; subst hb
        exact fun h => hnot (h ▸ ha)⟩
    · intro i hi
      rw [add_objs] at hi
      rw [add_seq]
      simp only [hnot, if_false, List.mem_append, List.mem_cons, List.not_mem_nil,
        or_false] at hi ⊢
      rcases hi with hi | rfl
      · obtain ⟨o', ho', hid⟩ := ih.objs_sub i hi
        exact ⟨o', Or.inl ho', hid⟩
      · exact ⟨o, Or.inr rfl, rfl⟩
    · rw [← ih.live]
      simp only [Plane.iter, add_seq, add_objs, hnot, if_false, List.filter_append, List.mem_append,
        List.mem_cons, List.not_mem_nil, or_false]
      congr 1
      · apply List.filter_congr
        intro a ha
        have : a.id ≠ o.id := hfresh a ha
        simp [this]
      · simp
    · intro o' ho'
      rw [add_seq] at ho'
      simp only [List.mem_append, List.mem_cons, List.not_mem_nil, or_false] at ho'
      rcases ho' with h | rfl
      · exact ih.wf o' h
      · exact hwf
    · intro k o'
      simp only [getrange_add, cells_add, List.mem_append, List.mem_cons, List.not_mem_nil, or_false]
      cases hc : cells? p (bboxOf o) with
      | none =>
        rw [(add_big p o hc).1, ih.grid]
        by_cases h : o' = o
        · subst h; simp [hoL, hc]
        · simp [h]
      | some ks =>
        have hks := (cells?_some hc).1
        rw [(add_small p o ks hc).1, foldl_append_pairs, List.count_append, count_map_pair, ih.grid, hks]
        by_cases h : o' = o
        · subst h; simp [hoL, hc]
        · simp [h]
    · intro o'
      simp only [cells_add, List.mem_append, List.mem_cons, List.not_mem_nil, or_false]
      cases hc : cells? p (bboxOf o) with
      | none =>
        rw [(add_big p o hc).2, List.count_append, ih.big]
        by_cases h : o' = o
        · subst h; simp [hoL, hc]
        · have : (o == o') = false := by simp [Ne.symm h]
          simp [h, List.count_cons, this]
      | some ks =>
        rw [(add_small p o ks hc).2, ih.big]
        by_cases h : o' = o
        · subst h; simp [hoL, hc]
        · simp [h]
  | @remove p L o _ hmem ih =>
    have hlive : o ∈ Plane.iter p := ih.live ▸ hmem
    have hseq : o ∈ p.seq := by
      simp only [Plane.iter, List.mem_filter] at hlive; exact hlive.1
    have hobj : o.id ∈ p.objs := by
      simp only [Plane.iter, List.mem_filter, decide_eq_true_eq] at hlive; exact hlive.2
    have hL : L.Nodup := by
      rw [← ih.live]
      unfold Plane.iter
      apply List.Pairwise.filter
      exact ih.ids.imp (fun hne heq => hne (congrArg PObj.id heq))
    have hb := remove_bounds p o
    refine { gs := by rw [hb.1]; exact ih.gs, bx := by rw [hb.2.1, hb.2.2.2.1]; exact ih.bx,
             by' := by rw [hb.2.2.1, hb.2.2.2.2]; exact ih.by', ids := ?_, objs_nodup := ?_, objs_sub := ?_,
             live := ?_, wf := ?_, grid := ?_, big := ?_ }
    · rw [remove_seq]; exact ih.ids
    · rw [remove_objs]; exact ih.objs_nodup.erase _
    · intro i hi
      rw [remove_objs] at hi
      rw [remove_seq]
      exact ih.objs_sub i (List.mem_of_mem_erase hi)
    · rw [hL.erase_eq_filter, ← ih.live]
      simp only [Plane.iter, remove_seq, remove_objs, List.filter_filter]
      apply List.filter_congr
      intro a ha
      have hiff : a.id ∈ p.objs.erase o.id ↔ a.id ≠ o.id ∧ a.id ∈ p.objs :=
        ih.objs_nodup.mem_erase_iff
      by_cases hao : a = o
      · subst hao; simp [hiff]
      · have hid : a.id ≠ o.id := by
          intro heq
          have := eq_of_id_eq ih.ids ha hseq
          exact hao (this heq)
        simp [hiff, hid, hao]
    · rw [remove_seq]; exact ih.wf
    · intro k o'
      simp only [getrange_remove, cells_remove]
      have hiff : o' ∈ L.erase o ↔ o' ≠ o ∧ o' ∈ L := hL.mem_erase_iff
      cases hc : cells? p (bboxOf o) with
      | none =>
        rw [(remove_big p o hc).1, ih.grid]
        by_cases h : o' = o
        · subst h; simp [hiff, hc]
        · simp [h, hiff]
      | some ks =>
        have hks := (cells?_some hc).1
        rw [(remove_small p o ks hc).1, count_foldl_erase, count_map_pair, ih.grid, hks]
        by_cases h : o' = o
        · subst h; simp [hiff, hmem, hc]
        · simp [h, hiff]
    · intro o'
      simp only [cells_remove]
      have hiff : o' ∈ L.erase o ↔ o' ≠ o ∧ o' ∈ L := hL.mem_erase_iff
      cases hc : cells? p (bboxOf o) with
      | none =>
        rw [(remove_big p o hc).2, List.count_erase, ih.big]
        by_cases h : o' = o
        · subst h; simp [hiff, hmem, hc]
        · have : (o == o') = false := by simp [Ne.symm h]
          simp [h, hiff, this]
      | some ks =>
        rw [(remove_small p o ks hc).2, ih.big]
        by_cases h : o' = o
        · subst h; simp [hiff, hc]
        · simp [h, hiff]

/-- **find = brute force.**  After any sequence of insertions and removals - objects in the overflow list
included -, for every well-formed query box - also one that covers more than `MAXCELLS` cells -, `find`
returns exactly the live objects that properly overlap it, each once. -/
theorem plane_find {p L} (h : Reach p L) (q : Rect) (hq : WfRect q) :
    (∀ o, o ∈ Plane.find p q ↔ (o ∈ L ∧ overlaps o q = true)) ∧ (Plane.find p q).Nodup := by
  have inv := inv_of_reach h
  refine ⟨fun o => ?_, nodup_find_of_scan (List.Pairwise.filter _ (nodup_dedup _))⟩
  rw [mem_find]
  simp only [Plane.findScan, List.mem_filter, mem_dedup]
  cases hcq : cells? p q with
  | none =>
    simp only [inv.live]
  | some ks =>
    have hks := (cells?_some hcq).1
    simp only [List.mem_append, List.mem_flatMap, mem_cell]
    constructor
    · rintro ⟨(⟨k, _, hk⟩ | hbig), hov⟩
      · refine ⟨?_, hov⟩
        have hc : 0 < List.count (k, o) p.grid := List.count_pos_iff.mpr hk
        rw [inv.grid] at hc
        by_cases hoL : o ∈ L
        · exact hoL
        · simp [hoL] at hc
      · refine ⟨?_, hov⟩
        have hc : 0 < List.count o p.big := List.count_pos_iff.mpr hbig
        rw [inv.big] at hc
        by_cases hoL : o ∈ L
        · exact hoL
        · simp [hoL] at hc
    · rintro ⟨hoL, hov⟩
      refine ⟨?_, hov⟩
      have hseq : o ∈ p.seq := by
        have : o ∈ Plane.iter p := inv.live ▸ hoL
        simp only [Plane.iter, List.mem_filter] at this; exact this.1
      cases hco : cells? p (bboxOf o) with
      | none =>
        right
        apply List.count_pos_iff.mp
        rw [inv.big]
        simp [hoL, hco]
      | some kso =>
        left
        obtain ⟨k, hk1, hk2⟩ := overlap_share_cell inv.gs inv.bx inv.by' (inv.wf o hseq) hq hov
        refine ⟨k, by rw [hks]; exact hk2, ?_⟩
        apply List.count_pos_iff.mp
        rw [inv.grid]
        simp only [hoL, hco, ne_eq, reduceCtorEq, not_false_eq_true, and_self, if_true]
        exact List.count_pos_iff.mpr hk1

/-- **Bounded work per operation.**  `add`, `remove` and `find` enumerate at most `MAXCELLS` (= 1024) grid
cells, for every plane, every box and every query - however large the coordinates (a form scaled by 1e30,
a page box of astronomic size): the cell count is computed from the range bounds, and a box with more cells
goes to / is served from the overflow list.  What remains is work linear in the number of objects. -/
theorem plane_cells_bounded (p : Plane.Plane) (b : Rect) :
    cellsTouched p b ≤ PLANE_MAXCELLS ∧ (∀ ks, cells? p b = some ks → ks = getrange p b) ∧
      (getrange p b).length = cellCount p b :=
  ⟨cellsTouched_le p b, fun _ h => (cells?_some h).1, length_getrange p b⟩

/-- `findSpec` is the brute-force search over the live objects; `find` agrees with it. -/
theorem plane_find_eq_bruteforce {p L} (h : Reach p L) (q : Rect) (hq : WfRect q) (o : PObj) :
    o ∈ Plane.find p q ↔ o ∈ Plane.findSpec p q := by
  rw [(plane_find h q hq).1 o]
  simp only [Plane.findSpec, List.mem_filter, (inv_of_reach h).live]

/-- **find = brute force, as a LIST.**  After the repair of `Plane.find` (objects are reported in
insertion order, not in the scan order of the grid cells) the result of `find` is literally the
brute-force list: the live objects that properly overlap the query, in insertion order.  The result
therefore does not depend on the grid size or on where the grid falls. -/
theorem plane_find_order {p L} (h : Reach p L) (q : Rect) (hq : WfRect q) :
    Plane.find p q = Plane.findSpec p q := by
  have inv := inv_of_reach h
  have hseq : p.seq.Nodup := by
    refine inv.ids.imp ?_
    intro a b hab heq
    exact hab (by rw [heq])
  have hpf := plane_find h q hq
  have hspecNodup : (Plane.findSpec p q).Nodup := by
    unfold Plane.findSpec Plane.iter
    exact (hseq.filter _).filter _
  have hperm : (Plane.find p q).Perm (Plane.findSpec p q) :=
    (List.perm_ext_iff_of_nodup hpf.2 hspecNodup).mpr (fun o => plane_find_eq_bruteforce h q hq o)
  have hsub : ∀ o ∈ Plane.findSpec p q, o ∈ p.seq := by
    intro o ho
    simp only [Plane.findSpec, Plane.iter, List.mem_filter] at ho
    exact ho.1.1
  refine List.Perm.eq_of_pairwise ?_ (sortByKey_sorted _ _) ?_ hperm
  · intro a b ha hb h1 h2
    exact rank_inj hseq (hsub a (hperm.subset ha)) (hsub b hb) (Nat.le_antisymm h1 h2)
  · unfold Plane.findSpec Plane.iter
    exact ((seq_rank_sorted hseq).filter _).filter _

/-- **Iteration order.**  Iterating yields the live objects in insertion order. -/
theorem plane_iter {p L} (h : Reach p L) : Plane.iter p = L := (inv_of_reach h).live

/-! ### Non-vacuity: a concrete reachable state with a hit, a miss and a removed object. -/

def exA : PObj := ⟨1, -7/10, -7/10, -3/5, -3/5⟩       -- negative fractional box, outside the bounds
def exB : PObj := ⟨2, 60, 60, 70, 70⟩
def exP : Plane.Plane := (Plane.remove (Plane.add (Plane.add (Plane.init (0, 0, 100, 100) 50) exA) exB) exB).1

example : Reach exP [exA] := by
  have h0 := Reach.init (0, 0, 100, 100) 50 (by decide) (by unfold WfRect; decide +kernel)
  have h1 := Reach.add exA h0 (by simp [Plane.init]) (by unfold WfRect bboxOf exA; decide +kernel)
  have h2 := Reach.add exB h1 (by simp [Plane.init, Plane.add, exA, exB]) (by unfold WfRect bboxOf exB; decide +kernel)
  have h3 := Reach.remove exB h2 (by simp)
  have : ([] ++ [exA] ++ [exB]).erase exB = [exA] := by decide +kernel
  rw [this] at h3
  exact h3

end PdfVerif.Props.C20
