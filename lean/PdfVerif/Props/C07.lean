/-
C07 — Composite fonts: segmentation, CID, Unicode follow CMap, ToUnicode, W/DW.

Model: `PdfVerif.CIDFont` (hand model of cmapdb.py / pdffont.py / pdfdevice.py, tied to the
implementation by tools/harness/props/c07.py; literal tables regenerated into `Gen/CIDFont.lean`).
Spec: `PdfVerif.CIDFontSpec`.  Only property theorems live here (helper lemmas: `Lemmas/CIDFont.lean`).
-/
import PdfVerif.Lemmas.CMapLexBytes

namespace PdfVerif.Props.C07
open PdfVerif PdfVerif.CIDFont PdfVerif.CIDFontSpec PdfVerif.CIDFontLemmas
open PdfVerif.Lexer (SepItem sepOK renderSep)

/-! ## Segmentation: identity CMaps -/

/-- Identity-H/V (and DLIdent-H/V): every string, of even or odd length, is split into its complete
big-endian two-byte codes. -/
theorem identity_segment (s : Bytes) : identityDecode s = specIdentity 2 s :=
  identityDecode_eq_spec s.length s (Nat.le_refl _)

/-- Odd length: the trailing byte is ignored, nothing else changes (no internal error). -/
theorem identity_segment_odd (s : Bytes) (b : UInt8) (h : s.length % 2 = 0) :
    identityDecode (s ++ [b]) = identityDecode s :=
  identityDecode_snoc_odd s.length s b (Nat.le_refl _) h

/-- OneByteIdentityH/V: one code per byte. -/
theorem identity_byte_segment (s : Bytes) : identityDecodeByte s = specIdentity 1 s := by
  rw [specIdentity1]; rfl

/-- The names `CMapDB.get_cmap` special-cases, after `IDENTITY_ENCODER` (both tables regenerated from
the Python source): code width and writing mode are what the names say. -/
theorem identity_names :
    identityKind (cmapName "Identity-H") = some (2, 0) ∧ identityKind (cmapName "Identity-V") = some (2, 1) ∧
    identityKind (cmapName "DLIdent-H") = some (2, 0) ∧ identityKind (cmapName "DLIdent-V") = some (2, 1) ∧
    identityKind (cmapName "OneByteIdentityH") = some (1, 0) ∧
    identityKind (cmapName "OneByteIdentityV") = some (1, 1) := by
  decide

example : identityDecode [0x00, 0x41, 0x30, 0x42, 0x7F] = [0x41, 0x3042] := by decide
example : specIdentity 2 [0x00, 0x41, 0x30, 0x42, 0x7F] = [0x41, 0x3042] := by decide

/-! ## Which Unicode map: character collection × writing mode -/

/-- A font without ToUnicode whose collection is not served by an embedded TrueType cmap reads the
collection's CID → Unicode table **of the writing mode of its encoding CMap** (vertical CMaps have their own
CIDs for rotated punctuation and brackets).  `COLLECTION_MAP_USES_WMODE` and `TTF_CODINGS` are regenerated
from `PDFCIDFont.__init__`. -/
theorem collection_map_follows_wmode (ordering coding enc : String) (hasTTF vertical : Bool)
    (h : Gen.CIDFont.TTF_CODINGS.contains coding = false) :
    selectUnicodeMap .absent ordering coding enc hasTTF vertical true = .collection coding vertical := by
  unfold selectUnicodeMap
  simp only [h, Gen.CIDFont.COLLECTION_MAP_USES_WMODE, Bool.false_eq_true, if_false, if_true, Bool.true_and]

/-- A ToUnicode stream always wins; Adobe-Identity / Adobe-UCS use the embedded TrueType cmap. -/
theorem unicode_map_priority (ordering coding enc : String) (hasTTF v shipped : Bool) :
    selectUnicodeMap .stream ordering coding enc hasTTF v shipped = .file ∧
    selectUnicodeMap .absent "Identity" "Adobe-Identity" enc true v shipped = .ttf ∧
    selectUnicodeMap .absent "UCS" "Adobe-UCS" enc true v shipped = .ttf := by
  refine ⟨rfl, ?_, ?_⟩ <;> simp [selectUnicodeMap, Gen.CIDFont.TTF_CODINGS]

example : selectUnicodeMap .absent "Japan1" "Adobe-Japan1" "90ms-RKSJ-V" false true true
    = .collection "Adobe-Japan1" true := by decide

/-! ## Segmentation: table (trie) CMaps -/

/-- A string that is a concatenation of codes of the CMap, followed by an incomplete code (possibly
empty), decodes to exactly the CIDs of those codes.  "`c` is a code with CID `n`" and "`p` is an
incomplete code" are read off the trie by `walk`. -/
theorem trie_decode_spec (root : TDict) (cs : List (Bytes × Nat)) (p : Bytes) (d' : TDict)
    (hcs : ∀ e ∈ cs, walk root e.1 = some (.leaf e.2)) (hp : walk root p = some (.node d')) :
    trieDecode root ((cs.map (·.1)).flatten ++ p) = cs.map (·.2) :=
  decode_codes root p d' hp cs hcs

/-- Without a trailing incomplete code. -/
theorem trie_decode_codes (root : TDict) (cs : List (Bytes × Nat))
    (hcs : ∀ e ∈ cs, walk root e.1 = some (.leaf e.2)) :
    trieDecode root (cs.map (·.1)).flatten = cs.map (·.2) := by
  have := decode_codes root [] root (by simp [walk]) cs hcs
  simpa using this

/-- A trie built by `FileCMap.add_code2cid` from a prefix-free code table has exactly the table's codes:
every entry is a code with its CID … -/
theorem trie_build_codes (tab : List (Bytes × Nat)) (t : TDict) (hp : PrefixFree tab)
    (hb : buildTrie tab [] = .ok t) : ∀ e ∈ tab, walk t e.1 = some (.leaf e.2) :=
  (buildTrie_walk tab [] t hp hb).1

/-- … hence a string made of codes of the table decodes, with the trie built from the table, to their CIDs
(segmentation by the flat code table = `CMap.decode` on the built trie). -/
theorem trie_build_decode (tab : List (Bytes × Nat)) (t : TDict) (hp : PrefixFree tab)
    (hb : buildTrie tab [] = .ok t) (cs : List (Bytes × Nat)) (hcs : ∀ e ∈ cs, e ∈ tab) :
    trieDecode t (cs.map (·.1)).flatten = cs.map (·.2) :=
  trie_decode_codes t cs (fun e he => trie_build_codes tab t hp hb e (hcs e he))

/-- non-vacuity: a mixed one/two-byte CMap (0x41 ↦ 1, 0x81 0x40 ↦ 7), string `41 8140 41 81`. -/
example :
    let root : TDict := [(0x41, .leaf 1), (0x81, .node [(0x40, .leaf 7)])]
    trieDecode root [0x41, 0x81, 0x40, 0x41, 0x81] = [1, 7, 1] := by decide

/-! ## ToUnicode CMaps: parsed map = specified map -/

/-- Full statement for ToUnicode: for every program of bfchar / bfrange sections in the domain
(`inDomain`: start and end codes of a range have equal length, an incremented destination is
non-empty and its last `min 4 len` bytes do not overflow, no code is redefined from U+0020 to U+00A0),
running `CMapParser` on the CMap's tokens yields exactly the specified map: every bfchar pair, every
bfrange increment (carry form) and every bfrange array element, later definitions overriding
earlier ones. -/
theorem tounicode_parse_spec (secs : List Sec) (h : inDomain secs = true) :
    parseToUnicode (render secs) = .ok (specMap secs) := by
  simp only [inDomain, Bool.and_eq_true] at h
  rw [parse_render secs h.1, putAll_quirkFree _ _ h.2]
  simp [specMap]

/-- Without the U+00A0 hypothesis: the parsed map is the sequence of `add_cid2unichr` assignments of the
specified pairs (the assignment ignores U+00A0 for a code that currently maps to a space). -/
theorem tounicode_parse_assignments (secs : List Sec) (h : secs.all secOk = true) :
    parseToUnicode (render secs) = .ok (putAll (specPairs secs) []) :=
  parse_render secs h

/-- bfchar: each `<src> <dst>` pair of one section maps code `src` to the UTF-16BE text `dst`
(handler level, any prior map `m`). -/
theorem bfchar_map (es : List (Bytes × Bytes)) (m : UMap) :
    foldEntries bfcharEntry (chop2 (es.flatMap (fun e => [Tok.str e.1, Tok.str e.2]))) m
      = .ok (putAll (es.map (fun e => ((nunpack e.1 : Int), utf16Ignore e.2))) m) :=
  bfchar_fold es m

/-- bfrange, both forms (handler level): `<lo> <hi> <dst>` maps code `lo + i` to `dst` with its last
`min 4 len` bytes incremented by `i` as a big-endian number; `<lo> <hi> [d0 d1 …]` maps `lo + i` to `dᵢ`. -/
theorem bfrange_map (es : List REntry) (m : UMap) (h : es.all entryOk = true) :
    foldEntries bfrangeEntry (chop3 (es.flatMap renderREntry)) m = .ok (putAll (es.flatMap rangePairs) m) :=
  bfrange_fold es m h

/-- bfrange increment in ISO 32000-1 9.10.3 wording ("the last byte of the string shall be incremented"):
wherever that is defined (the last byte does not pass 0xFF), the carry form used by `specMap` — and by
`tounicode_parse_spec`, hence by the parser — is exactly that string. -/
theorem bfrange_inc (d x : Bytes) (k : Nat) (h : incLast d k = some x) : incBE d k = x :=
  incBE_eq_incLast d x k h

/-- … so for a range whose last byte never overflows, every code `lo + i` gets the destination with only its
last byte incremented by `i`. -/
theorem bfrange_inc_pairs (lo hi d : Bytes) (hov : ∀ i, i < nunpack hi + 1 - nunpack lo → (incLast d i).isSome) :
    rangePairs ⟨lo, hi, .inc d⟩ =
      (List.range (nunpack hi + 1 - nunpack lo)).map
        (fun i => (((nunpack lo + i : Nat) : Int), utf16Ignore ((incLast d i).getD []))) := by
  simp only [rangePairs]
  apply List.map_congr_left
  intro i hi'
  have hlt := List.mem_range.mp hi'
  obtain ⟨x, hx⟩ := Option.isSome_iff_exists.mp (hov i hlt)
  rw [bfrange_inc d x i hx, hx]
  rfl

example : incLast [0x30, 0x42] 3 = some [0x30, 0x45] ∧ incBE [0x30, 0x42] 3 = [0x30, 0x45] ∧
    incLast [0x00, 0xFE] 2 = none ∧ incBE [0x00, 0xFE] 2 = [0x01, 0x00] := by decide

/-- non-vacuity: a program with a bfchar section (1- and 2-byte sources, a surrogate pair target), a
bfrange increment that carries out of the low byte, and an array. -/
def exampleSecs : List Sec :=
  [.chars [([0x41], [0x00, 0x41]), ([0x00, 0x02], [0xD8, 0x3D, 0xDE, 0x00])],
   .ranges [⟨[0x00, 0x10], [0x00, 0x12], .inc [0x00, 0xFE]⟩,
            ⟨[0x00, 0x20], [0x00, 0x21], .arr [[0x30, 0x42], [0x00, 0x66, 0x00, 0x69]]⟩]]

example : inDomain exampleSecs = true := by decide
example : (parseToUnicode (render exampleSecs)).toOption = some
    [(0x21, [0x66, 0x69]), (0x20, [0x3042]), (0x12, [0x100]), (0x11, [0xFF]), (0x10, [0xFE]),
     (2, [0x1F600]), (0x41, [0x41])] := by decide

/-- code 1 is first given U+0020, then U+00A0. -/
def nbspSecs : List Sec := [.chars [([0x01], [0x00, 0x20]), ([0x01], [0x00, 0xA0])]]

/-- The U+00A0 rule of `add_cid2unichr` is real: outside `inDomain` the parsed map differs from the
specified one (the later definition is ignored). -/
theorem tounicode_nbsp_cex :
    inDomain nbspSecs = false ∧ (parseToUnicode (render nbspSecs)).toOption ≠ some (specMap nbspSecs) := by
  decide

/-! ## Widths: W / DW -/

/-- For any interleaving of the two `W` syntaxes (`c [w1 w2 …]` and `c1 c2 w`, integer cids, integer or
real widths, cid 0 included), `get_widths` builds exactly the specified dictionary. -/
theorem widths_map_spec (es : List WEntry) :
    getWidths (renderW es) = toWMap (specWidthPairs es).reverse := by
  unfold getWidths
  rw [widths_fold es []]
  simp

/-- … and the width used for a cid is the latest `W` entry covering it, else `DW`, else 1000
(the default is the constant regenerated from pdffont.py). -/
theorem widths_spec (es : List WEntry) (dw : Option Rat) (cid : Nat) :
    glyphWidth (getWidths (renderW es)) dw cid = specWidth es dw cid := by
  unfold glyphWidth specWidth
  rw [widths_map_spec, lookup_toWMap]
  cases (specWidthPairs es).reverse.lookup (cid : Int) with
  | none => simp [Gen.CIDFont.DW_DEFAULT]
  | some w => simp

/-- non-vacuity: `[1 [500 600] 10 12 700 0 [5] 1 1 250.5]`, cid 1 is redefined by the last entry. -/
def exampleW : List WEntry :=
  [.list 1 [(500, true), (600, true)], .range 10 12 (700, true), .list 0 [(5, true)], .range 1 1 (501 / 2, false)]

example : (List.range 14).map (specWidth exampleW none) =
    [5, 501 / 2, 600, 1000, 1000, 1000, 1000, 1000, 1000, 1000, 700, 700, 700, 1000] := by decide +kernel

/-! ## Vertical metrics: W2 / DW2 -/

/-- For any interleaving of the two `W2` syntaxes (`c [w1y vx vy …]` and `c1 c2 w1y vx vy`), `get_widths2`
succeeds and builds exactly the specified dictionary. -/
theorem widths2_map_spec (es : List W2Entry) :
    getWidths2 (renderW2 es) = .ok (toW2Map (specWidth2Pairs es).reverse) := by
  unfold getWidths2
  rw [widths2_fold es []]
  simp

/-- The vertical advance `w1y` used for a cid is the latest `W2` entry covering it, else `DW2[1]`, else
−1000 (default regenerated from pdffont.py). -/
theorem widths2_spec (es : List W2Entry) (dw2 : Option (Rat × Rat)) (cid : Nat) :
    (getWidths2 (renderW2 es)).toOption.map (fun m => glyphWidthV m dw2 cid) = some (specWidthV es dw2 cid) := by
  rw [widths2_map_spec]
  simp only [Except.toOption, Option.map_some, Option.some.injEq]
  unfold glyphWidthV specWidthV
  rw [lookup_toW2Map]
  cases (specWidth2Pairs es).reverse.lookup (cid : Int) with
  | none => simp [Gen.CIDFont.DW2_DEFAULT]
  | some w => simp

/-- Vertical placement: the position vector used for a cid is the one of the font's own latest `W2` entry
covering it, else the default `(none, DW2[0])` with 880 when `DW2` is absent (a function of this font's
arrays only). -/
theorem disp2_spec (es : List W2Entry) (dw2 : Option (Rat × Rat)) (cid : Nat) :
    (getWidths2 (renderW2 es)).toOption.map (fun m => glyphDispV m dw2 cid) = some (specDispV es dw2 cid) := by
  rw [widths2_map_spec]
  simp only [Except.toOption, Option.map_some, Option.some.injEq]
  unfold glyphDispV specDispV
  rw [lookup_toW2Map]
  cases (specWidth2Pairs es).reverse.lookup (cid : Int) with
  | none => simp [Gen.CIDFont.DW2_DEFAULT]
  | some w => simp

/-- non-vacuity: `[1 [-500 250 800 -600 300 810] 10 12 -700 500 880]`. -/
def exampleW2 : List W2Entry :=
  [.list 1 [((-500, true), (250, true), (800, true)), ((-600, true), (300, true), (810, true))],
   .range 10 12 ((-700, true), (500, true), (880, true))]

example : (List.range 13).map (specWidthV exampleW2 (some (880, -900))) =
    [-900, -500, -600, -900, -900, -900, -900, -900, -900, -900, -700, -700, -700] := by decide +kernel

example : specDispV exampleW2 none 2 = (some 300, 810) ∧ specDispV exampleW2 none 3 = (none, 880) ∧
    specDispV exampleW2 (some (800, -900)) 65535 = (none, 800) := by decide +kernel

/-! ## Advances (pen movement) -/

/-- Vertical writing: after showing the cids `cs` at pen `(x, y)` the pen is at
`(x, y + Σ w1y(c)/1000 · fs)` (`w1y` from W2/DW2, negative = downwards); x does not move. -/
theorem vertical_advance (fs : Rat) (w : Nat → Rat) (cs : List Nat) (x y : Rat) :
    (showCids true fs w cs (x, y)).2 = (x, y + advSum fs w cs) := by
  simpa using showCids_snd true fs w cs x y

/-- Horizontal writing: the pen moves by `Σ w(c)/1000 · fs` in x. -/
theorem horizontal_advance (fs : Rat) (w : Nat → Rat) (cs : List Nat) (x y : Rat) :
    (showCids false fs w cs (x, y)).2 = (x + advSum fs w cs, y) := by
  simpa using showCids_snd false fs w cs x y

/-- Every glyph is placed at the pen position reached after the glyphs before it, with advance
`w(c)/1000 · fs`: the glyphs of `a ++ c :: b` are those of `a`, then `c` at the pen after `a`. -/
theorem glyph_placement (v : Bool) (fs : Rat) (w : Nat → Rat) (a b : List Nat) (c : Nat) (p : Rat × Rat) :
    (showCids v fs w (a ++ c :: b) p).1 =
      (showCids v fs w a p).1 ++
        ⟨c, (showCids v fs w a p).2.1, (showCids v fs w a p).2.2, w c * (1 / 1000) * fs⟩ ::
          (showCids v fs w b (showCids v fs w [c] (showCids v fs w a p).2).2).1 := by
  rw [showCids_append]
  simp only
  congr 1

/-- The vertical width function of the model is the specified one for the default case: no `W2` entry
means `DW2[1]`, and without `DW2` the regenerated default −1000. -/
theorem vertical_default (cid : Nat) : glyphWidthV [] none cid = -1000 ∧ glyphWidthV [] (some (800, -900)) cid = -900 := by
  constructor <;> simp [glyphWidthV, Gen.CIDFont.DW2_DEFAULT]

/-! ## Round 6: ill-formed arrays, `PDFCIDFont.__init__` glue, cidchar / cidrange / codespace sections -/

/-- `get_widths2` is total: on EVERY element list (ill-formed arrays included: stray lists, non-numbers,
real-valued or reversed range ends, truncated groups) it returns a dictionary, never an exception.
(`get_widths` is total by its type: `getWidths : List WElem → WMap`.) -/
theorem widths2_total (seq : List WElem) : ∃ m, getWidths2 seq = .ok m :=
  getWidths2Aux_total seq _

/-- … hence every CID font has a width and a displacement for every cid, whatever `W`, `DW`, `W2`, `DW2` hold. -/
theorem cidfont_metrics_total (v : Bool) (w : List WElem) (dw : Option WVal) (w2 : List WElem)
    (dw2 : Option (List WVal)) (cid : Nat) :
    (∃ r, cidCharWidth v w dw w2 dw2 cid = .ok r) ∧ ∃ d, cidCharDisp v w2 dw2 cid = .ok d := by
  obtain ⟨m, hm⟩ := widths2_total w2
  cases v <;> simp [cidCharWidth, cidCharDisp, hm]

/-- The number a `DW` entry contributes: itself when it is a number, nothing otherwise. -/
def dwNumber : Option WVal → Option Rat
  | some (.num v) => some v
  | _ => none

/-- The pair a `DW2` entry contributes: a list of exactly two numbers, nothing otherwise. -/
def dw2Pair : Option (List WVal) → Option (Rat × Rat)
  | some [.num vy, .num w] => some (vy, w)
  | _ => none

theorem dw2Value_eq (d : Option (List WVal)) : dw2Value d = (dw2Pair d).getD Gen.CIDFont.DW2_DEFAULT := by
  unfold dw2Value dw2Pair
  split <;> simp

/-- `PDFCIDFont.char_width` of a horizontal font, from the font dictionary: the latest `W` entry covering the cid,
else `DW` when `DW` is a number, else 1000 — for every well-formed `W`, EVERY value of `DW` (absent, number, any other
object), and independently of `W2` / `DW2`. -/
theorem cidfont_width_spec (es : List WEntry) (dw : Option WVal) (w2 : List WElem) (dw2 : Option (List WVal))
    (cid : Nat) : cidCharWidth false (renderW es) dw w2 dw2 cid = .ok (specWidth es (dwNumber dw) cid) := by
  simp only [cidCharWidth, Bool.false_eq_true, if_false, widths_spec]
  congr 1
  unfold specWidth
  cases (specWidthPairs es).reverse.lookup (cid : Int) with
  | some w => rfl
  | none =>
    cases dw with
    | none => simp [dwValue, dwNumber, Gen.CIDFont.DW_DEFAULT]
    | some v => cases v <;> simp [dwValue, dwNumber, Gen.CIDFont.DW_DEFAULT]

/-- The same for a vertical font: advance `w1y` and position vector come from the latest `W2` entry, else from `DW2`
when that is a list of exactly two numbers, else from the regenerated default `[880 -1000]`; `W` / `DW` are not read. -/
theorem cidfont_width2_spec (es : List W2Entry) (w : List WElem) (dw : Option WVal) (dw2 : Option (List WVal))
    (cid : Nat) :
    cidCharWidth true w dw (renderW2 es) dw2 cid = .ok (specWidthV es (dw2Pair dw2) cid) ∧
    cidCharDisp true (renderW2 es) dw2 cid =
      .ok (.vec (specDispV es (dw2Pair dw2) cid).1 (specDispV es (dw2Pair dw2) cid).2) := by
  simp only [cidCharWidth, cidCharDisp, if_true, widths2_map_spec]
  unfold glyphWidthV glyphDispV specWidthV specDispV
  rw [lookup_toW2Map, dw2Value_eq]
  cases (specWidth2Pairs es).reverse.lookup (cid : Int) with
  | none => cases dw2Pair dw2 <;> simp [Gen.CIDFont.DW2_DEFAULT]
  | some t => simp

/-- The writing mode of the encoding CMap alone decides which arrays are read: a horizontal font ignores
`W2` / `DW2` and has displacement 0, a vertical font ignores `W` / `DW`. -/
theorem writing_mode_selects_arrays (w w' : List WElem) (dw dw' : Option WVal) (w2 w2' : List WElem)
    (dw2 dw2' : Option (List WVal)) (cid : Nat) :
    cidCharWidth false w dw w2 dw2 cid = cidCharWidth false w dw w2' dw2' cid ∧
    cidCharWidth true w dw w2 dw2 cid = cidCharWidth true w' dw' w2 dw2 cid ∧
    cidCharDisp false w2 dw2 cid = .ok .zero :=
  ⟨rfl, rfl, rfl⟩

/-- `cidcoding` (the key of the collection's CID → Unicode table): Registry and Ordering with surrounding white
space removed, joined by `-`. -/
theorem cidcoding_spec (a1 r b1 a2 o b2 : Bytes)
    (hs : ∀ c ∈ a1 ++ b1 ++ a2 ++ b2, isPySpace c = true)
    (hr : (∀ x, r.head? = some x → isPySpace x = false) ∧ ∀ x, r.getLast? = some x → isPySpace x = false)
    (ho : (∀ x, o.head? = some x → isPySpace x = false) ∧ ∀ x, o.getLast? = some x → isPySpace x = false) :
    cidCoding (some (a1 ++ r ++ b1)) (some (a2 ++ o ++ b2)) = r ++ [45] ++ o := by
  simp only [cidCoding, Option.getD_some, Gen.CIDFont.CIDCODING_SEP]
  rw [pyStrip_pad a1 r b1 (fun c hc => hs c (by simp [hc])) (fun c hc => hs c (by simp [hc])) hr.1 hr.2,
    pyStrip_pad a2 o b2 (fun c hc => hs c (by simp [hc])) (fun c hc => hs c (by simp [hc])) ho.1 ho.2]

/-- The keywords the model treats as "discard the operands" are exactly the `self.popall(); return` branches of
`CMapParser.do_keyword`, regenerated from cmapdb.py on every run (an edit there breaks this proof, and with it
`codespace_ignored`'s link to the code). -/
theorem popall_keywords_tied : popallKeywords = Gen.CIDFont.POPALL_KEYWORDS := by decide

/-- From the raw `CIDSystemInfo`: a font without ToUnicode whose Registry / Ordering — written with any surrounding
white space — name a collection that is not served by the TrueType cmap reads the table `Registry-Ordering` of the
writing mode of its encoding CMap. -/
theorem unicode_map_from_cidsysteminfo (a1 r b1 a2 o b2 : Bytes) (enc : String) (hasTTF v : Bool)
    (hs : ∀ c ∈ a1 ++ b1 ++ a2 ++ b2, isPySpace c = true)
    (hr : (∀ x, r.head? = some x → isPySpace x = false) ∧ ∀ x, r.getLast? = some x → isPySpace x = false)
    (ho : (∀ x, o.head? = some x → isPySpace x = false) ∧ ∀ x, o.getLast? = some x → isPySpace x = false)
    (hn : Gen.CIDFont.TTF_CODINGS.contains (latin1 (r ++ [45] ++ o)) = false) :
    fontUnicodeMap .absent (some (a1 ++ r ++ b1)) (some (a2 ++ o ++ b2)) enc hasTTF v true
      = .collection (latin1 (r ++ [45] ++ o)) v := by
  unfold fontUnicodeMap
  rw [cidcoding_spec a1 r b1 a2 o b2 hs hr ho]
  exact collection_map_follows_wmode _ _ _ _ _ hn

example : fontUnicodeMap .absent (some [32, 65, 100, 111, 98, 101]) (some [74, 97, 112, 97, 110, 49, 10]) "90ms-RKSJ-V"
    false true true = .collection "Adobe-Japan1" true := by decide

/-- A missing or ill-typed Registry / Ordering reads as `unknown`. -/
theorem cidcoding_unknown : cidCoding none none = unknownBytes ++ [45] ++ unknownBytes := by decide

/-- cidchar (handler level, any prior map): each `cid <code>` pair gives `cid ↦` the UTF-16BE text of the string. -/
theorem cidchar_map (es : List (Int × Bytes)) (m : UMap) :
    foldEntries cidcharEntry (chop2 (es.flatMap (fun e => [Tok.int e.1, Tok.str e.2]))) m
      = .ok (putAll (es.map (fun e => (e.1, utf16Ignore e.2))) m) :=
  cidchar_fold es m

/-- cidrange (handler level): `<lo> <hi> cid` with codes of equal length that agree before their last four bytes
gives `cid + i ↦` text of the code `lo + i` (carry form over the last `min 4 len` bytes), for every `i` up to
`hi − lo`; no exception for any such entry (codes of any length, negative cids included). -/
theorem cidrange_map (lo hi : Bytes) (cid : Int) (m : UMap) (hlen : lo.length = hi.length) (hne : lo ≠ [])
    (hpre : dropLast4 lo = dropLast4 hi) :
    cidrangeEntry m (Tok.str lo, Tok.str hi, Tok.int cid) = .ok (putAll
      ((List.range (nunpack (takeLast 4 hi) + 1 - nunpack (takeLast 4 lo))).map
        (fun i => (cid + ((i : Nat) : Int), utf16Ignore (incBE lo i)))) m) :=
  cidrangeEntry_ok lo hi cid m hlen hne hpre

/-- Codespace ranges — of one width or of several (`<00> <80> <8140> <9FFC> …`) — and notdef ranges have no effect
on the parsed map: whatever operands stand between the keywords, the section leaves the map as it was and the
operand stack empty. -/
theorem codespace_ignored (ops : List Tok) (hops : ops.all notKw = true) (st : PState) (hc : st.inCmap = true) :
    runToks (Tok.kw "begincodespacerange" :: ops ++ [Tok.kw "endcodespacerange"]) st = .ok { st with stack := [] } ∧
    runToks (Tok.kw "beginnotdefrange" :: ops ++ [Tok.kw "endnotdefrange"]) st = .ok { st with stack := [] } := by
  constructor
  · rw [runToks_discard _ _ (by decide) (by decide) (by decide) (by decide) ops hops st]; simp [hc]
  · rw [runToks_discard _ _ (by decide) (by decide) (by decide) (by decide) ops hops st]; simp [hc]

/-- `/Name usecmap` and `/Key value def` inside a ToUnicode CMap change neither the map nor (net) the operand stack:
the parser pops the operands and goes on (`use_cmap` / `set_attr` do not touch `cid2unichr`). -/
theorem usecmap_def_ignored (n k : Bytes) (v : Tok) (hv : notKw v = true) (st : PState) (hc : st.inCmap = true) :
    runToks [Tok.name n, Tok.kw "usecmap"] st = .ok st ∧ runToks [Tok.name k, v, Tok.kw "def"] st = .ok st := by
  obtain ⟨stack, inCmap, map⟩ := st
  simp only at hc
  subst hc
  constructor
  · simp [runToks, stepTok, doKeyword]
  · cases v <;> simp_all [runToks, stepTok, doKeyword, notKw]

example : (parseToUnicode [.name [72], .kw "usecmap", .name [87], .int 1, .kw "def", .str [0x41], .str [0, 0x42],
    .kw "endbfchar"]).toOption = some [(0x41, [0x42])] := by decide

/-- non-vacuity: an ill-formed W2 array (stray list, non-number, real range end, incomplete triple) still parses. -/
example : (getWidths2 [.list [.num 1], .other, .num 1 true, .list [.num (-5), .other, .num 2, .num 7],
    .num 3 true, .num (5 / 2) false, .num 1 true, .num 2 true, .num 3 true, .num 9 true]).toOption = some [] := by
  decide +kernel

/-- non-vacuity: ill-typed `DW` falls back to 1000, a numeric one is used, `W2`/`DW2` are irrelevant. -/
example : (cidCharWidth false (renderW exampleW) (some .other) [.other] (some []) 3).toOption = some 1000 ∧
    (cidCharWidth false (renderW exampleW) (some (.num 250)) [] none 3).toOption = some 250 ∧
    (cidCharWidth false (renderW exampleW) none [] none 2).toOption = some 600 := by decide +kernel

example : (cidCharWidth true [] none (renderW2 exampleW2) (some [.num 700, .num (-800), .num 1]) 3).toOption = some (-1000) ∧
    (cidCharWidth true [] none (renderW2 exampleW2) (some [.num 700, .num (-800)]) 3).toOption = some (-800) ∧
    (cidCharDisp true (renderW2 exampleW2) (some [.num 700, .other]) 3).toOption = some (.vec none 880) ∧
    (cidCharDisp true (renderW2 exampleW2) none 2).toOption = some (.vec (some 300) 810) := by decide +kernel

/-- non-vacuity: `" Adobe "` / `"\tJapan1\n"` ↦ `Adobe-Japan1`. -/
example : cidCoding (some ([32] ++ [65, 100, 111, 98, 101] ++ [32])) (some ([9] ++ [74, 97, 112, 97, 110, 49] ++ [10]))
    = [65, 100, 111, 98, 101, 45, 74, 97, 112, 97, 110, 49] := by decide

/-- non-vacuity: a cidrange that carries out of the low byte, a cidchar pair, a two-width codespace section. -/
example : (parseToUnicode [.kw "begincodespacerange", .str [0], .str [0x80], .str [0x81, 0x40], .str [0x9F, 0xFC],
      .kw "endcodespacerange", .str [0x30, 0xFF], .str [0x31, 0x01], .int 7, .kw "endcidrange",
      .int 3, .str [0x00, 0x41], .kw "endcidchar"]).toOption
    = some [(3, [0x41]), (9, [0x3101]), (8, [0x3100]), (7, [0x30FF])] := by decide

/-! ## Round 6: ToUnicode CMaps from the BYTES of the stream -/

/-- From bytes, not tokens: take any program of bfchar / bfrange sections in the domain, write each section's count
as ANY digit string (`cntOK`; the parser discards it), write the CMap file — header, sections, trailer — object by
object (hex strings in hexadecimal, integers in decimal, `/Name`s, keywords, arrays of hex strings) with ANY non-empty
separator `g` of white space and comments after every object; then the tokenizer (`Lexer.specLex`, the model proved
equal to the buffered `PSBaseParser` for every buffer size in C14), the object grouping of `PSStackParser.nextobject`
(`groupToks`) and `CMapParser` together yield exactly the specified map. -/
theorem tounicode_bytes_spec (g : List SepItem) (hg : sepOK g) (hne : g ≠ []) (ps : List CSec)
    (hc : ps.all (fun p => cntOK p.1) = true) (h : inDomain (ps.map (·.2)) = true) :
    parseToUnicodeBytes ((progS ps).flatMap (STok.spell (renderSep g))) = some (.ok (specMap (ps.map (·.2)))) := by
  simp only [inDomain, Bool.and_eq_true] at h
  unfold parseToUnicodeBytes
  rw [group_lex_prog g hg hne ps hc]
  simp only [Option.map_some]
  rw [parse_renderN ps h.1, putAll_quirkFree _ _ h.2]
  simp [specMap]

/-- The same without the U+00A0 hypothesis (result as the sequence of `add_cid2unichr` assignments). -/
theorem tounicode_bytes_assignments (g : List SepItem) (hg : sepOK g) (hne : g ≠ []) (ps : List CSec)
    (hc : ps.all (fun p => cntOK p.1) = true) (h : (ps.map (·.2)).all secOk = true) :
    parseToUnicodeBytes ((progS ps).flatMap (STok.spell (renderSep g)))
      = some (.ok (putAll (specPairs (ps.map (·.2))) [])) := by
  unfold parseToUnicodeBytes
  rw [group_lex_prog g hg hne ps hc]
  simp only [Option.map_some]
  rw [parse_renderN ps h]

/-- The grouping of `PSStackParser.nextobject` inverts the flattening of objects into tokens: for every sequence of
strings, integers, names, reals, non-bracket keywords and flat arrays. -/
theorem stackparser_groups_objects (bts : List BTok) (h : bts.all BTok.plain = true) :
    groupToks (bts.flatMap BTok.flat) = some (bts.map BTok.toTok) := by
  have := groupAux_flat bts [] [] h
  simpa [groupToks, groupAux] using this

/-- non-vacuity of the hypotheses: counts `2`, `007`; separator = a space, a comment, a newline. -/
def exampleCSecs : List CSec :=
  [([50], .chars [([0x41], [0x00, 0x41]), ([0x00, 0x02], [0xD8, 0x3D, 0xDE, 0x00])]),
   ([48, 48, 55], .ranges [⟨[0x00, 0x10], [0x00, 0x12], .inc [0x00, 0xFE]⟩,
                           ⟨[0x00, 0x20], [0x00, 0x21], .arr [[0x30, 0x42], [0x00, 0x66, 0x00, 0x69]]⟩])]

example : sepOK [.ws 32, .comment [99, 32, 60] 13, .ws 10] ∧ exampleCSecs.all (fun p => cntOK p.1) = true ∧
    inDomain (exampleCSecs.map (·.2)) = true := by
  refine ⟨?_, by decide +kernel, by decide +kernel⟩
  intro i hi
  simp only [List.mem_cons, List.not_mem_nil, or_false] at hi
  rcases hi with rfl | rfl | rfl
  · show Lexer.isGapByte 32 = true; decide
  · exact ⟨by intro x hx; simp only [List.mem_cons, List.not_mem_nil, or_false] at hx; rcases hx with rfl | rfl | rfl <;> decide +kernel, Or.inr rfl⟩
  · show Lexer.isGapByte 10 = true; decide

/-- … and the byte-level model computes on a stream in quite another spelling (minimal delimiters, upper-case hex
with inner white space, a literal string with octal escapes, comments, CR / LF):
`… 2 beginbfchar <41> <0041> <0002>(\330=\336\000) endbfchar 1 beginbfrange<0010><0012>[<3042><00660069>]endbfrange …`. -/
example : (parseToUnicodeBytes [47, 67, 73, 68, 73, 110, 105, 116, 32, 47, 80, 114, 111, 99, 83, 101, 116, 32, 102, 105, 110, 100, 114, 101, 115, 111, 117, 114, 99, 101, 32, 98, 101, 103, 105, 110, 32, 49, 50, 32, 100, 105, 99, 116, 32, 98, 101, 103, 105, 110, 32, 98, 101, 103, 105, 110, 99, 109, 97, 112, 32, 47, 67, 77, 97, 112, 78, 97, 109, 101, 47, 65, 100, 111, 98, 101, 45, 73, 100, 101, 110, 116, 105, 116, 121, 45, 85, 67, 83, 32, 100, 101, 102, 10, 49, 32, 98, 101, 103, 105, 110, 99, 111, 100, 101, 115, 112, 97, 99, 101, 114, 97, 110, 103, 101, 60, 48, 48, 48, 48, 62, 60, 70, 70, 32, 70, 70, 62, 101, 110, 100, 99, 111, 100, 101, 115, 112, 97, 99, 101, 114, 97, 110, 103, 101, 32, 37, 32, 116, 119, 111, 13, 50, 32, 98, 101, 103, 105, 110, 98, 102, 99, 104, 97, 114, 32, 60, 52, 49, 62, 32, 60, 48, 48, 52, 49, 62, 32, 60, 48, 48, 48, 50, 62, 40, 92, 51, 51, 48, 61, 92, 51, 51, 54, 92, 48, 48, 48, 41, 32, 101, 110, 100, 98, 102, 99, 104, 97, 114, 10, 49, 32, 98, 101, 103, 105, 110, 98, 102, 114, 97, 110, 103, 101, 60, 48, 48, 49, 48, 62, 60, 48, 48, 49, 50, 62, 91, 60, 51, 48, 52, 50, 62, 60, 48, 48, 54, 54, 48, 48, 54, 57, 62, 93, 101, 110, 100, 98, 102, 114, 97, 110, 103, 101, 32, 101, 110, 100, 99, 109, 97, 112, 32, 101, 110, 100, 32, 101, 110, 100]
    ).map Except.toOption = some (some [(0x11, [0x66, 0x69]), (0x10, [0x3042]), (2, [0x1F600]), (0x41, [0x41])]) := by
  decide +kernel

/-! ## Round 6: ToUnicode is consulted with the CID (open finding `tounicode-keyed-by-cid`) -/

/-- What ISO 32000-1 9.10.3 demands: the text of each character CODE of the string, looked up in the ToUnicode map
by the code. -/
def specText (codes : List Bytes) (m : UMap) : List (Option (List Nat)) := codes.map (fun c => m.lookup (nunpack c : Int))

/-- `_partial`: holds for the identity CMaps only (Identity-H/V, DLIdent-H/V), where the CID **is** the code: the
text of every shown string is the ToUnicode text of its two-byte codes.  Missing: every table CMap (the predefined
CJK CMaps) — see `tounicode_keyed_by_cid_cex`. -/
theorem tounicode_text_identity_partial (m : UMap) (s : Bytes) :
    shownText identityDecode m s = (specIdentity 2 s).map (fun (code : Nat) => m.lookup (code : Int)) := by
  simp [shownText, toUnichr, identity_segment]

def cexRoot : TDict := [(0x82, .node [(0xA2, .leaf 845)])]
def cexMap : UMap := [(0x82A2, [0x3044])]

/-- Proved counter-example for the full statement (pinned behaviour, finding `tounicode-keyed-by-cid`): with the
encoding 90ms-RKSJ-H (code `82A2` ↦ CID 845) and a ToUnicode CMap `<82A2> <3044>`, the shown string `82A2` gets no
text at all (`(cid:845)`), although its code is mapped to U+3044. -/
theorem tounicode_keyed_by_cid_cex :
    trieDecode cexRoot [0x82, 0xA2] = [845] ∧
    shownText (trieDecode cexRoot) cexMap [0x82, 0xA2] = [none] ∧ specText [[0x82, 0xA2]] cexMap = [some [0x3044]] := by
  decide

example : shownText identityDecode [(0x3042, [0x3042]), (0x41, [0x66, 0x69])] [0x00, 0x41, 0x30, 0x42, 0x00, 0x07]
    = [some [0x66, 0x69], some [0x3042], none] := by decide

/-! ## Word spacing never applies to a composite font's multi-byte codes -/

/-- Between glyph k and k+1 of a composite-font string the pen moves by `width(cid)·Tfs/1000 + Tc` (times Th when the
writing mode is horizontal) — for every cid, CID 32 included, and independently of the word spacing Tw
(ISO 32000-1 9.3.3: word spacing concerns the single-byte code 32 only).  Proved over the regenerated guard
`if font.is_multibyte(): wordspace = 0` of `render_string`. -/
theorem composite_advance_ignores_tw (v : Bool) (fs : Rat) (ts : TState) (w : Nat → Rat) (c : Nat) :
    penStep v true fs ts w c =
      if v then w c * (1 / 1000) * fs + ts.tc else (w c * (1 / 1000) * fs + ts.tc) * ts.th := by
  cases v <;> simp [penStep, wordspaceOf, Gen.CIDFont.MULTIBYTE_ZEROES_WORDSPACE] <;> grind

/-- … hence the pen after a whole string does not depend on Tw either. -/
theorem composite_pen_ignores_tw (v : Bool) (fs : Rat) (tc tw tw' th : Rat) (w : Nat → Rat) (cs : List Nat) (p : Rat) :
    penAfter v true fs ⟨tc, tw, th⟩ w cs p = penAfter v true fs ⟨tc, tw', th⟩ w cs p := by
  induction cs generalizing p with
  | nil => rfl
  | cons c cs ih =>
    simp only [penAfter]
    rw [composite_advance_ignores_tw, composite_advance_ignores_tw, ih]

/-- non-vacuity: `<0041 0020 0042>` in a vertical font, widths −1000, Tw = 3: the pen ends at −30, not −27. -/
example : penAfter true true 10 ⟨0, 3, 1⟩ (fun _ => -1000) [0x41, 32, 0x42] 0 = -30 := by decide +kernel

end PdfVerif.Props.C07
