/-
C07 — Composite fonts: segmentation, CID, Unicode follow CMap, ToUnicode, W/DW.

Model: `PdfVerif.CIDFont` (hand model of cmapdb.py / pdffont.py / pdfdevice.py, tied to the
implementation by tools/harness/props/c07.py; literal tables regenerated into `Gen/CIDFont.lean`).
Spec: `PdfVerif.CIDFontSpec`.  Only property theorems live here (helper lemmas: `Lemmas/CIDFont.lean`).
-/
import PdfVerif.Lemmas.CIDFont

namespace PdfVerif.Props.C07
open PdfVerif PdfVerif.CIDFont PdfVerif.CIDFontSpec PdfVerif.CIDFontLemmas

/-! ## Segmentation: identity CMaps -/

/-- Identity-H/V (and DLIdent-H/V): every string, of even or odd length, is split into its complete
big-endian two-byte codes. -/
theorem identity_segment (s : Bytes) : identityDecode s = specIdentity 2 s :=
  identityDecode_eq_spec s.length s (Nat.le_refl _)

/-- Odd length: the trailing byte is ignored, nothing else changes (no internal error). -/
theorem identity_segment_odd (s : Bytes) (b : UInt8) (h : s.length % 2 = 0) :
    identityDecode (s ++ [b]) = identityDecode s :=
  identityDecode_snoc_odd s.length s b (Nat.le_refl _) h

/-- OneByteIdentityH/V: one code per byte. -/
theorem identity_byte_segment (s : Bytes) : identityDecodeByte s = specIdentity 1 s := by
  rw [specIdentity1]; rfl

/-- The names `CMapDB.get_cmap` special-cases, after `IDENTITY_ENCODER` (both tables regenerated from
the Python source): code width and writing mode are what the names say. -/
theorem identity_names :
    identityKind (cmapName "Identity-H") = some (2, 0) ∧ identityKind (cmapName "Identity-V") = some (2, 1) ∧
    identityKind (cmapName "DLIdent-H") = some (2, 0) ∧ identityKind (cmapName "DLIdent-V") = some (2, 1) ∧
    identityKind (cmapName "OneByteIdentityH") = some (1, 0) ∧
    identityKind (cmapName "OneByteIdentityV") = some (1, 1) := by
  decide

example : identityDecode [0x00, 0x41, 0x30, 0x42, 0x7F] = [0x41, 0x3042] := by decide
example : specIdentity 2 [0x00, 0x41, 0x30, 0x42, 0x7F] = [0x41, 0x3042] := by decide

/-! ## Segmentation: table (trie) CMaps -/

/-- A string that is a concatenation of codes of the CMap, followed by an incomplete code (possibly
empty), decodes to exactly the CIDs of those codes.  "`c` is a code with CID `n`" and "`p` is an
incomplete code" are read off the trie by `walk`. -/
theorem trie_decode_spec (root : TDict) (cs : List (Bytes × Nat)) (p : Bytes) (d' : TDict)
    (hcs : ∀ e ∈ cs, walk root e.1 = some (.leaf e.2)) (hp : walk root p = some (.node d')) :
    trieDecode root ((cs.map (·.1)).flatten ++ p) = cs.map (·.2) :=
  decode_codes root p d' hp cs hcs

/-- Without a trailing incomplete code. -/
theorem trie_decode_codes (root : TDict) (cs : List (Bytes × Nat))
    (hcs : ∀ e ∈ cs, walk root e.1 = some (.leaf e.2)) :
    trieDecode root (cs.map (·.1)).flatten = cs.map (·.2) := by
  have := decode_codes root [] root (by simp [walk]) cs hcs
  simpa using this

/-- non-vacuity: a mixed one/two-byte CMap (0x41 ↦ 1, 0x81 0x40 ↦ 7), string `41 8140 41 81`. -/
example :
    let root : TDict := [(0x41, .leaf 1), (0x81, .node [(0x40, .leaf 7)])]
    trieDecode root [0x41, 0x81, 0x40, 0x41, 0x81] = [1, 7, 1] := by decide

end PdfVerif.Props.C07
