/-
C15 — Filesystem confinement: documents cannot steer file access outside the allowed directories.

Property theorems only.  Model: Model/Path.lean (posix join/normpath, CMapDB._load_data file
names, ImageWriter._create_unique_image_name) and Model/ImageName.lean (the naming loop).
"Directly inside directory d" is expressed on normalised paths: norm p = norm d / f for a plain
component f (no separator, not empty, not `.` or `..`).
-/
import PdfVerif.Lemmas.Path
import PdfVerif.Lemmas.ImageName
import PdfVerif.Model.Image

namespace PdfVerif.Props.C15
open PdfVerif PdfVerif.Path PdfVerif.ImageName PdfVerif.PathLemmas PdfVerif.ImageNameLemmas

/-- `p` denotes a file directly inside directory `d` (lexically, after normalisation). -/
def DirectlyIn (d p : Bytes) : Prop :=
  ∃ f, PlainComp f ∧ norm p = ((norm d).1, (norm d).2 ++ [f])

/-! ## CMap resources -/

/-- **cmap_confined.** Whatever name the document supplies (Encoding, CMapName, usecmap,
    Registry-Ordering), every path `_load_data` probes or opens is a file directly inside one of
    the resource directories. -/
theorem C15_cmap_confined (dirs : List Bytes) (name p : Bytes) (hp : p ∈ cmapProbes dirs name) :
    ∃ d ∈ dirs, DirectlyIn d p := by
  rw [cmapProbes_eq] at hp
  split at hp
  · rename_i hplain
    obtain ⟨d, hd, rfl⟩ := List.mem_map.mp hp
    exact ⟨d, hd, cmapFilename name, cmapFilename_plain name hplain, norm_join_plain d _ (cmapFilename_plain name hplain)⟩
  · simp at hp

/-- Benign names are still looked up: the guard removes nothing that has no separator. -/
theorem C15_cmap_lookup_kept (dirs : List Bytes) (name : Bytes) (h : ¬ 47 ∈ name) :
    cmapProbes dirs name = dirs.map (fun d => join d (cmapFilename name)) := by
  rw [cmapProbes_eq, if_pos]
  simp only [plainFile, cmapFilename, stripNul, List.contains_eq_mem, List.mem_append, List.mem_filter,
    Bool.not_eq_eq_eq_not, Bool.not_true, decide_eq_false_iff_not, not_or]
  refine ⟨⟨by decide, fun hh => h hh.1⟩, by decide⟩

/-- Non-vacuity: the name `H` with the two usual directories. -/
example : cmapProbes [[47, 117], [47, 118, 47]] [72] =
    [[47, 117, 47, 72, 46, 112, 105, 99, 107, 108, 101, 46, 103, 122],
     [47, 118, 47, 72, 46, 112, 105, 99, 107, 108, 101, 46, 103, 122]] := by decide

/-- The pinned code (no guard) breaks confinement: the name `../../e` probed from `/u/s/p`
    normalises to `/u/e.pickle.gz`, two levels above the resource directory. -/
theorem C15_cmap_pinned_cex :
    ¬ (∀ (dirs : List Bytes) (name p : Bytes), p ∈ cmapProbesPinned dirs name → ∃ d ∈ dirs, DirectlyIn d p) := by
  intro h
  obtain ⟨d, hd, f, _, hn⟩ := h [[47, 117, 47, 115, 47, 112]] [46, 46, 47, 46, 46, 47, 101]
    (join [47, 117, 47, 115, 47, 112] (cmapFilename [46, 46, 47, 46, 46, 47, 101])) (by simp [cmapProbesPinned])
  simp only [List.mem_singleton] at hd
  subst hd
  have hlen := congrArg (fun x => x.2.length) hn
  revert hlen
  have h1 : (norm (join [47, 117, 47, 115, 47, 112] (cmapFilename [46, 46, 47, 46, 46, 47, 101]))).2.length = 2 := by
    decide +kernel
  have h2 : (norm [47, 117, 47, 115, 47, 112]).2.length = 3 := by decide +kernel
  simp only [h1, List.length_append, h2, List.length_cons, List.length_nil]
  omega

/-! ## Image files -/

/-- **image_confined.** Whatever the XObject name (or inline image id), the file that
    `_create_unique_image_name` picks lies directly inside `outdir`. -/
theorem C15_image_confined (outdir name ext nm p : Bytes) (existing : List Bytes) (hext : ValidExt ext)
    (h : imagePath outdir name ext existing = some (nm, p)) : DirectlyIn outdir p := by
  unfold imagePath at h
  cases hu : uniqueName existing (safeName name) ext with
  | none => simp [hu] at h
  | some n =>
    simp only [hu, Option.map_some, Option.some.injEq, Prod.mk.injEq] at h
    obtain ⟨rfl, rfl⟩ := h
    obtain ⟨_, j, _, rfl⟩ := uniqueName_fresh existing (safeName name) ext n hu
    exact ⟨_, candidate_plain name ext hext j, norm_join_plain outdir _ (candidate_plain name ext hext j)⟩

/-- **no_overwrite.** The chosen file name is not one of the files already in `outdir`. -/
theorem C15_no_overwrite (outdir name ext nm p : Bytes) (existing : List Bytes)
    (h : imagePath outdir name ext existing = some (nm, p)) : nm ∉ existing := by
  unfold imagePath at h
  cases hu : uniqueName existing (safeName name) ext with
  | none => simp [hu] at h
  | some n =>
    simp only [hu, Option.map_some, Option.some.injEq, Prod.mk.injEq] at h
    rw [← h.1]
    exact (uniqueName_fresh existing (safeName name) ext n hu).1

/-- **unique_terminates.** The `while os.path.exists(path)` loop stops within
    `existing.length + 1` probes (the fuel of the model is never exhausted). -/
theorem C15_unique_terminates (outdir name ext : Bytes) (existing : List Bytes) :
    (imagePath outdir name ext existing).isSome = true := by
  unfold imagePath
  have := uniqueName_isSome existing (safeName name) ext
  obtain ⟨n, hn⟩ := Option.isSome_iff_exists.mp this
  simp [hn]

/-- The extensions of the image model are valid. -/
theorem C15_model_exts_valid : ValidExt Gen.ImageGen.extBmp ∧ ValidExt Gen.ImageGen.extJpeg ∧
    ValidExt Gen.ImageGen.extUndecoded ∧ ∀ bits w h, ValidExt (Image.rawExt bits w h) := by
  refine ⟨⟨by decide, by decide⟩, ⟨by decide, by decide⟩, ⟨by decide, by decide⟩, ?_⟩
  intro bits w h
  refine ⟨?_, by simp [Image.rawExt]; omega⟩
  simp only [Image.rawExt, List.mem_append, not_or, List.mem_singleton]
  exact ⟨⟨⟨⟨⟨⟨by decide, dec_no_slash bits⟩, by decide⟩, dec_no_slash w⟩, by decide⟩, dec_no_slash h⟩, by decide⟩

/-- Whatever integers the image dictionary gives for bits, width and height — negative ones included —
    the `.<bits>.<w>x<h>.img` suffix of a raw dump consists of digits, `-`, `.`, `x` and letters: it
    cannot add a path separator after the name has been sanitised. (Non-numbers make `%d` raise.) -/
theorem C15_raw_ext_valid (bits w h : Int) : ValidExt (Image.rawExtZ bits w h) := by
  have hd : ∀ z : Int, ¬ 47 ∈ Image.decInt z := by
    intro z
    unfold Image.decInt
    split
    · simp only [List.mem_cons, not_or]
      exact ⟨by decide, dec_no_slash _⟩
    · exact dec_no_slash _
  refine ⟨?_, by simp [Image.rawExtZ]; omega⟩
  simp only [Image.rawExtZ, List.mem_append, not_or, List.mem_singleton]
  exact ⟨⟨⟨⟨⟨⟨by decide, hd bits⟩, by decide⟩, hd w⟩, by decide⟩, hd h⟩, by decide⟩

example : Image.rawExtZ 4 (-3) 1 = [46, 52, 46, 45, 51, 120, 49, 46, 105, 109, 103] := by decide +kernel

/-- Non-vacuity: the hostile name `../x` with `.._x.bmp` already present. -/
example : imagePath [47, 111] [46, 46, 47, 120] [46, 98, 109, 112] [[46, 46, 95, 120, 46, 98, 109, 112]] =
    some ([46, 46, 95, 120, 46, 48, 46, 98, 109, 112], [47, 111, 47, 46, 46, 95, 120, 46, 48, 46, 98, 109, 112]) := by
  decide +kernel

/-- The pinned code joins the raw name: `../x` leaves `/o/d` (the file becomes `/o/x.bmp`), and an
    absolute name replaces the directory altogether. -/
theorem C15_image_pinned_cex :
    norm (imagePathPinned [47, 111, 47, 100] [46, 46, 47, 120] [46, 98, 109, 112]) =
      (true, [[111], [120, 46, 98, 109, 112]]) ∧
    norm (imagePathPinned [47, 111, 47, 100] [47, 120] [46, 98, 109, 112]) = (true, [[120, 46, 98, 109, 112]]) := by
  constructor <;> decide +kernel

/-- The Registry-Ordering route: `get_unicode_map` asks for `to-unicode-<cidcoding>`; whatever
    the CIDSystemInfo strings are, the probed files stay inside the resource directories. -/
theorem C15_unicode_map_confined (dirs : List Bytes) (cidcoding p : Bytes)
    (hp : p ∈ cmapProbes dirs (unicodeMapName cidcoding)) : ∃ d ∈ dirs, DirectlyIn d p :=
  C15_cmap_confined dirs _ p hp

example : cmapProbes [[47, 117]] (unicodeMapName [65, 45, 66]) =
    [[47, 117, 47, 116, 111, 45, 117, 110, 105, 99, 111, 100, 101, 45, 65, 45, 66, 46, 112, 105, 99, 107, 108, 101, 46, 103, 122]] := by
  decide

/-! ## Round 6 — the sanitiser for every byte string, the exact probe set, histories of exports -/

/-- **safe_name_algebra.** For EVERY byte string used as an image name (empty, `.`, `..`, absolute, drive or UNC
    forms, NULs, trailing dots or blanks, any length): the sanitised name has the same length, contains neither a
    separator nor a NUL, is a fixed point of the sanitiser, is given byte by byte by "NUL and `/` become the
    replacement character, everything else is kept", and names without those two bytes are not changed at all.
    (`imageReplacedChars` and `imageReplacement` are regenerated from `_create_unique_image_name`.) -/
theorem C15_safe_name_algebra (name : Bytes) :
    (safeName name).length = name.length ∧ ¬ 47 ∈ safeName name ∧ ¬ 0 ∈ safeName name ∧
    safeName (safeName name) = safeName name ∧
    (∀ i : Nat, (safeName name)[i]? = (name[i]?).map (fun c => if c = 0 ∨ c = 47 then Gen.PathGen.imageReplacement else c)) ∧
    ((¬ 47 ∈ name ∧ ¬ 0 ∈ name) → safeName name = name) := by
  refine ⟨safeName_length name, safeName_no_slash name, safeName_no_nul name, safeName_idem name,
    safeName_getElem name, ?_⟩
  rintro ⟨h1, h2⟩
  apply safeName_id
  intro c hc hr
  simp only [Gen.PathGen.imageReplacedChars, List.mem_cons, List.not_mem_nil, or_false] at hr
  rcases hr with rfl | rfl
  · exact h2 hc
  · exact h1 hc

/-- Non-vacuity: the forms the property's quantifier names, as byte strings on POSIX: empty, `.`, `..`, `/`,
    `//h/s` (UNC), `C:\x` (drive), `a. ` (trailing dot and blank), `a\0/b`. -/
example : safeName [] = [] ∧ safeName [46] = [46] ∧ safeName [46, 46] = [46, 46] ∧ safeName [47] = [95] ∧
    safeName [47, 47, 104, 47, 115] = [95, 95, 104, 95, 115] ∧ safeName [67, 58, 92, 120] = [67, 58, 92, 120] ∧
    safeName [97, 46, 32] = [97, 46, 32] ∧ safeName [97, 0, 47, 98] = [97, 95, 95, 98] := by decide

/-- ... and where each of them ends up below `/o` with extension `.bmp` (first candidate, nothing exists): always a
    plain file directly inside `/o`. -/
example : (imagePath [47, 111] [] [46, 98, 109, 112] []).map (·.2) = some [47, 111, 47, 46, 98, 109, 112] ∧
    (imagePath [47, 111] [46, 46] [46, 98, 109, 112] []).map (·.2) = some [47, 111, 47, 46, 46, 46, 98, 109, 112] ∧
    (imagePath [47, 111] [47, 47, 104, 47, 115] [46, 98, 109, 112] []).map (·.2) =
      some [47, 111, 47, 95, 95, 104, 95, 115, 46, 98, 109, 112] := by decide +kernel

/-- **cmap_probe_exact.** The CMap lookup hands to `os.path.exists` / `gzip.open` exactly the paths
    `<dir>/<name without NULs>.pickle.gz` for `dir` in the configured list, in the order of that list — and none at
    all when the name contains a separator.  The last component of every probed path (after normalisation) is that
    file name: nothing in the name can select another file. -/
theorem C15_cmap_probe_exact (dirs : List Bytes) (name : Bytes) :
    cmapProbes dirs name = (if 47 ∈ name then [] else dirs.map (fun d => join d (cmapFilename name))) ∧
    ∀ p ∈ cmapProbes dirs name, (norm p).2.getLast? = some (cmapFilename name) := by
  have hpl : plainFile (cmapFilename name) = !decide (47 ∈ name) := by
    have h1 : ¬ (47 : UInt8) ∈ Gen.PathGen.cmapPrefix := by decide
    have h2 : ¬ (47 : UInt8) ∈ Gen.PathGen.cmapSuffix := by decide
    simp [plainFile, cmapFilename, stripNul, h1, h2]
  constructor
  · rw [cmapProbes_eq, hpl]
    by_cases h : (47 : UInt8) ∈ name <;> simp [h]
  · intro p hp
    rw [cmapProbes_eq] at hp
    split at hp
    · rename_i hplain
      obtain ⟨d, _, rfl⟩ := List.mem_map.mp hp
      rw [norm_join_plain d _ (cmapFilename_plain name hplain)]
      simp
    · simp at hp

example : cmapProbes [[47, 117], [47, 118]] [72, 0, 47, 120] = [] ∧
    cmapProbes [[47, 117]] [72, 0, 120] = [[47, 117, 47, 72, 120, 46, 112, 105, 99, 107, 108, 101, 46, 103, 122]] := by
  decide

/-- **history.** For EVERY history of exports `(image name, extension)` into one output directory that already
    holds arbitrary files: every request gets a file (the naming loop never gives up), the file names are pairwise
    distinct, so are the paths, none of them is a file that was there before, each path is `outdir/<name>` and lies
    directly inside `outdir`. -/
theorem C15_history (outdir : Bytes) : ∀ (reqs : List (Bytes × Bytes)) (existing : List Bytes),
    (∀ r ∈ reqs, ValidExt r.2) →
    (exportHistory outdir reqs existing).length = reqs.length ∧
    ((exportHistory outdir reqs existing).map (·.1)).Nodup ∧
    ((exportHistory outdir reqs existing).map (·.2)).Nodup ∧
    ∀ r ∈ exportHistory outdir reqs existing,
      r.1 ∉ existing ∧ PlainComp r.1 ∧ r.2 = join outdir r.1 ∧ DirectlyIn outdir r.2
  | [], _, _ => by simp [exportHistory]
  | (name, ext) :: rest, existing, hv => by
    have hext : ValidExt ext := hv (name, ext) (by simp)
    have hrest : ∀ r ∈ rest, ValidExt r.2 := fun r hr => hv r (by simp [hr])
    unfold exportHistory
    have hsome := C15_unique_terminates outdir name ext existing
    cases h : imagePath outdir name ext existing with
    | none => simp [h] at hsome
    | some q =>
      obtain ⟨nm, p⟩ := q
      obtain ⟨ih1, ih2, ih3, ih4⟩ := C15_history outdir rest (nm :: existing) hrest
      have hfresh := C15_no_overwrite outdir name ext nm p existing h
      have hin := C15_image_confined outdir name ext nm p existing hext h
      have hshape : PlainComp nm ∧ p = join outdir nm := by
        unfold imagePath at h
        cases hu : uniqueName existing (safeName name) ext with
        | none => simp [hu] at h
        | some n =>
          simp only [hu, Option.map_some, Option.some.injEq, Prod.mk.injEq] at h
          obtain ⟨rfl, rfl⟩ := h
          obtain ⟨_, j, _, rfl⟩ := uniqueName_fresh existing (safeName name) ext n hu
          exact ⟨candidate_plain name ext hext j, rfl⟩
      simp only [List.length_cons, List.map_cons, List.nodup_cons, List.mem_cons, List.mem_map]
      refine ⟨by omega, ⟨?_, ih2⟩, ⟨?_, ih3⟩, ?_⟩
      · rintro ⟨r, hr, rfl⟩
        exact (ih4 r hr).1 (by simp)
      · rintro ⟨r, hr, hrp⟩
        obtain ⟨hr1, hr2, hr3, _⟩ := ih4 r hr
        have : r.1 = nm := by
          apply join_right_injective outdir _ _ (isAbs_plain _ hr2) (isAbs_plain _ hshape.1)
          rw [← hr3, hrp, hshape.2]
        exact hr1 (by simp [this])
      · intro r hr
        rcases hr with rfl | hr
        · exact ⟨hfresh, hshape.1, hshape.2, hin⟩
        · obtain ⟨a, b, c, d⟩ := ih4 r hr
          exact ⟨fun he => a (by simp [he]), b, c, d⟩

/-- Non-vacuity: the same hostile name `../x` three times (twice as `.bmp`, once as `.jpg`) into `/o`, which
    already holds `.._x.bmp` and `.._x.1.bmp`. -/
example : (exportHistory [47, 111] [([46, 46, 47, 120], [46, 98, 109, 112]), ([46, 46, 47, 120], [46, 98, 109, 112]),
      ([46, 46, 47, 120], [46, 106, 112, 103])]
      [[46, 46, 95, 120, 46, 98, 109, 112], [46, 46, 95, 120, 46, 49, 46, 98, 109, 112]]).map (·.1) =
    [[46, 46, 95, 120, 46, 48, 46, 98, 109, 112], [46, 46, 95, 120, 46, 50, 46, 98, 109, 112],
     [46, 46, 95, 120, 46, 106, 112, 103]] := by decide +kernel

/-- **cmap_dirs_absolute.** Where the CMap lookup searches when `CMAP_PATH` is not set: the regenerated default and
    `<package>/cmap` are absolute directories, so for a package installed at an absolute path every probed path is
    absolute — it cannot depend on the process's working directory — and lies directly inside one of these two. -/
theorem C15_cmap_dirs_absolute (pkgdir name p : Bytes) (hpkg : isAbs pkgdir = true)
    (hp : p ∈ cmapProbes (cmapDirs none pkgdir) name) :
    isAbs p = true ∧ (DirectlyIn Gen.PathGen.cmapPathDefault p ∨ DirectlyIn (join pkgdir Gen.PathGen.cmapPkgSubdir) p) := by
  have hdef : isAbs Gen.PathGen.cmapPathDefault = true := by decide
  have hsub : isAbs Gen.PathGen.cmapPkgSubdir = false := by decide
  have hne : pkgdir ≠ [] := by intro h; rw [h] at hpkg; simp [isAbs] at hpkg
  have hj : isAbs (join pkgdir Gen.PathGen.cmapPkgSubdir) = true := by
    unfold join
    simp only [hsub, Bool.false_eq_true, if_false]
    split
    · rw [isAbs_append _ _ hne]; exact hpkg
    · rw [isAbs_append _ _ hne]; exact hpkg
  obtain ⟨d, hd, hin⟩ := C15_cmap_confined _ name p hp
  have hdabs : isAbs d = true := by
    simp only [cmapDirs, Option.getD_none, List.mem_cons, List.not_mem_nil, or_false] at hd
    rcases hd with rfl | rfl
    · exact hdef
    · exact hj
  refine ⟨?_, ?_⟩
  · obtain ⟨f, _, hn⟩ := hin
    have h1 := congrArg Prod.fst hn
    simp only [norm] at h1
    rw [h1, hdabs]
  · simp only [cmapDirs, Option.getD_none, List.mem_cons, List.not_mem_nil, or_false] at hd
    rcases hd with rfl | rfl
    · exact Or.inl hin
    · exact Or.inr hin

/-- Non-vacuity: package at `/p`, name `H`, `CMAP_PATH` not set. -/
example : cmapProbes (cmapDirs none [47, 112]) [72] =
    [[47, 117, 115, 114, 47, 115, 104, 97, 114, 101, 47, 112, 100, 102, 109, 105, 110, 101, 114, 47, 72, 46, 112, 105, 99, 107,
      108, 101, 46, 103, 122],
     [47, 112, 47, 99, 109, 97, 112, 47, 72, 46, 112, 105, 99, 107, 108, 101, 46, 103, 122]] := by decide

/-- **norm_canonical.** `normpath` of EVERY byte string yields canonical components: none is empty or `.`, none
    contains a separator, and an absolute path keeps no `..` at all (a relative one only what could not be resolved). -/
theorem C15_norm_canonical (p : Bytes) : ∀ c ∈ (norm p).2,
    c ≠ [] ∧ c ≠ [46] ∧ (¬ 47 ∈ c) ∧ (isAbs p = true → c ≠ [46, 46]) :=
  norm_canon p

/-- What "directly inside" is worth: for an absolute directory `d`, the normal form of a path that is `DirectlyIn d`
    is the normal form of `d` followed by one plain file name, and contains no `..` anywhere — it denotes an entry of
    that directory and nothing else. -/
theorem C15_directly_in_no_dotdot (d p : Bytes) (hd : isAbs d = true) (h : DirectlyIn d p) :
    (norm p).1 = true ∧ ∀ c ∈ (norm p).2, c ≠ [46, 46] ∧ c ≠ [] ∧ ¬ 47 ∈ c := by
  obtain ⟨f, hf, hn⟩ := h
  rw [hn]
  refine ⟨by simp [norm, hd], ?_⟩
  intro c hc
  simp only [List.mem_append, List.mem_singleton] at hc
  rcases hc with hc | rfl
  · obtain ⟨h1, _, h3, h4⟩ := norm_canon d c hc
    exact ⟨h4 hd, h1, h3⟩
  · exact ⟨hf.2.2.2, hf.2.1, hf.1⟩

/-- Non-vacuity: `/a/./b//../c/` → `/a/c`; `../x/..` → `..`; `/../..` → `/`. -/
example : norm [47, 97, 47, 46, 47, 98, 47, 47, 46, 46, 47, 99, 47] = (true, [[97], [99]]) ∧
    norm [46, 46, 47, 120, 47, 46, 46] = (false, [[46, 46]]) ∧ norm [47, 46, 46, 47, 46, 46] = (true, []) := by
  decide +kernel

end PdfVerif.Props.C15
