/-
C09 — Layout grouping follows the documented margins; the result is scale-invariant.

The predicates are `PdfVerif.Gen.Layout.*`, REGENERATED from pdfminer/layout.py on every run
(halign / valign of group_objects, the word-space tests of LTTextLine*.add, the query and filter of
find_neighbors, the sort keys, dist); the documented predicates are `PdfVerif.Layout.Spec.*`
(lean/PdfVerif/Spec/Layout.lean, written from docs/source/topic/converting_pdf_to_text.rst and the
docstrings with interval overlap / gap notions).  Editing a `<` into a `<=`, a `min` into a `max`
or a margin's reference size in layout.py breaks these proofs at the next run.

Only property theorems live here; lemmas are in `Lemmas/LayoutSpec.lean`, `Lemmas/LayoutScale.lean`.
-/
import PdfVerif.Lemmas.LayoutOrder
import PdfVerif.Lemmas.LayoutColumns
import PdfVerif.Props.C08

namespace PdfVerif.Props.C09
open PdfVerif PdfVerif.Gen.Layout PdfVerif.Layout

/-! ### same line -/

/-- The coded overlap measure is the true length of the common part of the two y-intervals
(for nested boxes too: this is the repaired `voverlap`; the pinned code returned more). -/
theorem C09_voverlap_true (a b : BB) (h : is_voverlap a b = true) :
    voverlap a b = Spec.overlapLen a.y0 a.y1 b.y0 b.y1 := by
  simp only [voverlap, h, if_true, Spec.overlapLen]

theorem C09_hoverlap_true (a b : BB) (h : is_hoverlap a b = true) :
    hoverlap a b = Spec.overlapLen a.x0 a.x1 b.x0 b.x1 := by
  simp only [hoverlap, h, if_true, Spec.overlapLen]

/-- **Join (horizontal).**  For all well-formed glyph boxes and all parameters, consecutive glyphs
are put on one horizontal line by `group_objects` exactly when their y-intervals meet, overlap by MORE
than `line_overlap · min height`, and the horizontal gap is LESS than `char_margin · max width`. -/
theorem C09_join_iff (p : LAParams) (a b : BB) (ha : WfBB a) (hb : WfBB b) :
    halign p a b = Spec.joinH p.line_overlap p.char_margin a b :=
  halign_eq_joinH p a b ha hb

/-- **Join (vertical)**, only with `detect_vertical`. -/
theorem C09_join_iff_vertical (p : LAParams) (a b : BB) (ha : WfBB a) (hb : WfBB b) :
    valign p a b = (p.detect_vertical && Spec.joinV p.line_overlap p.char_margin a b) :=
  valign_eq_joinV p a b ha hb

/-- What `group_objects` does with two consecutive glyphs that are not yet on a line: one
horizontal line iff the horizontal predicate holds and the vertical one does not, one vertical line in
the opposite case, two separate lines otherwise. -/
theorem C09_pair (p : LAParams) (a b : Glyph) :
    groupObjects p [a, b] =
      if valign p a.bb b.bb && !halign p a.bb b.bb then [(newLine true a).add p.word_margin b]
      else if halign p a.bb b.bb && !valign p a.bb b.bb then [(newLine false a).add p.word_margin b]
      else [newLine false a, newLine false b] := by
  simp only [groupObjects, go]

/-! ### word space -/

/-- **Space.**  A space annotation is put before a glyph exactly when `word_margin ≠ 0` and the glyph
starts MORE than `word_margin · max(width, height)` (of the new glyph) after the end of the previous one. -/
theorem C09_space_iff (wm last : Rat) (b : BB) : need_space_h wm last b = Spec.spaceH wm last b :=
  need_space_h_eq wm last b

theorem C09_space_iff_vertical (wm last : Rat) (b : BB) : need_space_v wm last b = Spec.spaceV wm last b :=
  need_space_v_eq wm last b

/-- … and that is what `LTTextLine*.add` does with it. -/
theorem C09_add_space (wm : Rat) (l : Line) (g : Glyph) :
    (l.add wm g).elems = l.elems ++ (if needSpace wm l g then [Elem.anno 32] else []) ++ [Elem.ch g] := rfl

/-! ### neighbour lines -/

/-- **Neighbour relation (predicate).**  The filter of `find_neighbors` together with the strict
overlap test of `Plane.find` on the query rectangle is the documented relation: horizontally
overlapping, vertically closer than `line_margin · height`, same height and left/right/centre aligned
within that tolerance (all three `≤`, the two closeness tests `<`). -/
theorem C09_neighbour_pred (r : Rat) (s o : BB) (id : Nat) :
    (neighbor_filter_h s o true r && Plane.overlaps ⟨id, o.x0, o.y0, o.x1, o.y1⟩ (neighbor_query_h s r))
      = Spec.neighborH r s o :=
  neighbor_h_eq r s o id

theorem C09_neighbour_pred_vertical (r : Rat) (s o : BB) (id : Nat) :
    (neighbor_filter_v s o true r && Plane.overlaps ⟨id, o.x0, o.y0, o.x1, o.y1⟩ (neighbor_query_v s r))
      = Spec.neighborV r s o :=
  neighbor_v_eq r s o id

/-- **Neighbour relation (model).**  What `line.find_neighbors(plane, line_margin)` returns inside
`group_textlines` - through the grid index, for every set of non-empty lines on a well-formed page
and `line_margin ≥ 0` - is exactly the set of lines of the same class that satisfy the documented
relation (uses C20: `Plane.find` = brute force). -/
theorem C09_neighbour_iff (ratio : Rat) (hr : 0 ≤ ratio) (pageBB : BB) (hp : WfPage pageBB) (lines : List Line)
    (hne : ∀ l ∈ lines, l.isEmpty = false) (l : Line) (hl : l ∈ lines) (j : Nat) :
    j ∈ neighbors ratio (mkPlane pageBB (lines.zipIdx.map fun (x : Line × Nat) => x.1.pobj x.2)) lines l ↔
      ∃ m, lines[j]? = some m ∧ m.vertical = l.vertical ∧
        (if l.vertical then Spec.neighborV ratio l.bb m.bb else Spec.neighborH ratio l.bb m.bb) = true :=
  neighbors_iff ratio hr pageBB hp lines hne l hl j

/-- With a negative `line_margin` no line has a neighbour: every line is a box of its own. -/
theorem C09_no_neighbour_if_negative (ratio : Rat) (hr : ratio < 0) (plane : Plane.Plane) (lines : List Line)
    (l : Line) (hl : l.isEmpty = false) : neighbors ratio plane lines l = [] :=
  neighbors_nil_of_neg ratio hr plane lines l hl

/-! ### reading order -/

/-- **Column order (sort keys).**  Inside a left-to-right group (`LTTextGroupLRTB.analyze` sorts its two
members by `key_lrtb`, theorem `C08_hierarchy`): of two members with the same left edge the upper
one comes first for every `boxes_flow > -1`; of two members with the same vertical extent the left
one comes first for every `boxes_flow < 1`.  (`_partial`: this is the statement about the sort key;
that the members of one column are merged before the columns are is checked on generated column
layouts by the harness, not proved.) -/
theorem C09_column_order_partial (bf : Rat) (a b : BB) :
    (-1 < bf → a.x0 = b.x0 → b.y0 + b.y1 < a.y0 + a.y1 → key_lrtb bf a < key_lrtb bf b) ∧
    (bf < 1 → a.y0 + a.y1 = b.y0 + b.y1 → a.x0 < b.x0 → key_lrtb bf a < key_lrtb bf b) :=
  ⟨fun h1 h2 h3 => key_lrtb_column bf h1 a b h2 h3, fun h1 h2 h3 => key_lrtb_columns bf h1 a b h2 h3⟩

/-- **Reading order of a page with two text boxes, numeric `boxes_flow` - full statement.**  Whatever the page
(any items, any parameters, any heap tie-break): when the analysis ends with exactly two text boxes `a`, `b` (in
output order) then `a`'s sort key is not above `b`'s - the hierarchy is ONE group of these two boxes and its
members are sorted by `key_lrtb` (by `key_tbrl` when one of them is vertical).  Unlike `C09_column_order_partial`
this is about the OUTPUT of `analyze`, not about the key alone. -/
theorem C09_order_two_boxes {le : Cmp} (p : LAParams) (bf : Rat) (hbf : p.boxes_flow = some bf) (pageBB : BB)
    (hp : WfPage pageBB) (items : List Item) (a b : Box)
    (hout : boxesOf (analyze le p pageBB items) = [a, b]) :
    groupKey (a.vertical || b.vertical) bf a.bb ≤ groupKey (a.vertical || b.vertical) bf b.bb := by
  have hne : (items.filterMap Item.glyph?).isEmpty = false := by
    cases h : (items.filterMap Item.glyph?).isEmpty with
    | false => rfl
    | true =>
      exfalso
      have hc : (analyze le p pageBB items).children = items.map Item.toChild := by simp [analyze, h]
      have : boxesOf (analyze le p pageBB items) = [] := by
        simp only [boxesOf, hc, List.filterMap_map]
        apply List.filterMap_eq_nil_iff.mpr
        intro it _
        cases it <;> rfl
      rw [this] at hout
      exact absurd hout (by simp)
  have hh := C08.C08_hierarchy (le := le) p pageBB hp items hne
  have hroot := C08.C08_single_root (le := le) p pageBB items
  cases hg : (analyze le p pageBB items).groups with
  | none =>
    have := hh.1.mp hg
    rw [hbf] at this
    exact absurd this (by simp)
  | some gs =>
    obtain ⟨hleaves, hok⟩ := hh.2 gs hg
    have hlen := hroot gs hg
    rw [hout] at hleaves
    match gs, hleaves, hlen, hok with
    | [], hleaves, _, _ => simp at hleaves
    | [g], hleaves, _, hok =>
      simp only [List.flatMap_cons, List.flatMap_nil, List.append_nil] at hleaves
      exact root_of_two hleaves (hok bf hbf g (by simp))
    | _ :: _ :: _, _, hlen, _ => simp at hlen

/-- **A column of two boxes comes out top to bottom, two columns left to right.**  On a page that ends with two
horizontal text boxes, `boxes_flow = bf`: the lower of two boxes with the same left edge is never first
(`bf > -1`), and of two boxes with the same vertical extent the right one is never first (`bf < 1`). -/
theorem C09_column_order_two {le : Cmp} (p : LAParams) (bf : Rat) (hbf : p.boxes_flow = some bf) (pageBB : BB)
    (hp : WfPage pageBB) (items : List Item) (a b : Box) (hout : boxesOf (analyze le p pageBB items) = [a, b])
    (ha : a.vertical = false) (hb : b.vertical = false) :
    (-1 < bf → a.bb.x0 = b.bb.x0 → ¬ (a.bb.y0 + a.bb.y1 < b.bb.y0 + b.bb.y1)) ∧
    (bf < 1 → a.bb.y0 + a.bb.y1 = b.bb.y0 + b.bb.y1 → ¬ (b.bb.x0 < a.bb.x0)) := by
  have h := C09_order_two_boxes (le := le) p bf hbf pageBB hp items a b hout
  simp only [ha, hb, Bool.or_self, groupKey, Bool.false_eq_true, if_false] at h
  constructor
  · intro h1 h2 h3
    have := key_lrtb_column bf h1 b.bb a.bb h2.symm h3
    exact absurd h (not_le.mpr this)
  · intro h1 h2 h3
    have := key_lrtb_columns bf h1 b.bb a.bb h2.symm h3
    exact absurd h (not_le.mpr this)

/-- **A single column of ANY number of boxes comes out top to bottom** (`_partial`: one hypothesis is left to the
harness).  For every page, every parameter setting with `boxes_flow = bf > -1`, every heap comparison: when all text
boxes of the result are horizontal, share their left edge and have positive height, and every group of the hierarchy
joins two vertically SEPARATED runs of boxes (`Node.Separated`: all boxes of one member lie above all boxes of the
other), then the output order is top to bottom - each box lies above every later one.  Proved: the whole reading-order
argument over the hierarchy (hull of every node = hull of its leaves, the sort by `key_lrtb` of the hulls puts the
upper run first at EVERY level, depth-first order = output order by `C08_hierarchy`).  Missing for the full statement:
that `group_textboxes` only merges vertically adjacent runs of a column (the `isany` test defers every pair with a box
in between, and an adjacent pair is never deferred) - the merge-order argument over the heap loop; the harness checks
`Separated` on the implementation's group tree of every generated column (`column:separated`). -/
theorem C09_column_order_separated_partial {le : Cmp} (p : LAParams) (bf : Rat) (hbf : p.boxes_flow = some bf)
    (hpos : -1 < bf) (pageBB : BB) (hp : WfPage pageBB) (items : List Item) (c : Rat)
    (hcol : ∀ b ∈ boxesOf (analyze le p pageBB items), b.vertical = false ∧ b.bb.x0 = c ∧ b.bb.y0 < b.bb.y1)
    (hsep : ∀ gs, (analyze le p pageBB items).groups = some gs → ∀ g ∈ gs, g.Separated) :
    (boxesOf (analyze le p pageBB items)).Pairwise (fun a b => b.bb.y1 ≤ a.bb.y0) := by
  cases hne : (items.filterMap Item.glyph?).isEmpty with
  | true =>
    have hc : (analyze le p pageBB items).children = items.map Item.toChild := by simp [analyze, hne]
    have : boxesOf (analyze le p pageBB items) = [] := by
      simp only [boxesOf, hc, List.filterMap_map]
      apply List.filterMap_eq_nil_iff.mpr
      intro it _
      cases it <;> rfl
    rw [this]; exact List.Pairwise.nil
  | false =>
    have hh := C08.C08_hierarchy (le := le) p pageBB hp items hne
    have hroot := C08.C08_single_root (le := le) p pageBB items
    cases hg : (analyze le p pageBB items).groups with
    | none =>
      have := hh.1.mp hg
      rw [hbf] at this
      exact absurd this (by simp)
    | some gs =>
      obtain ⟨hleaves, hok⟩ := hh.2 gs hg
      have hlen := hroot gs hg
      match gs, hleaves, hlen, hok, hsep gs hg with
      | [], hleaves, _, _, _ =>
        simp only [List.flatMap_nil] at hleaves
        rw [← hleaves]; exact List.Pairwise.nil
      | [g], hleaves, _, hok, hs =>
        simp only [List.flatMap_cons, List.flatMap_nil, List.append_nil] at hleaves
        rw [← hleaves]
        exact column_top_to_bottom hpos c (hok bf hbf g (by simp)) (by rw [hleaves]; exact hcol) (hs g (by simp))
      | _ :: _ :: _, _, hlen, _, _ => simp at hlen

/-- The tree-level statement behind it, for any well-formed hierarchy (any number of leaves). -/
theorem C09_column_tree (bf : Rat) (hpos : -1 < bf) (c : Rat) (g : Node) (hok : GroupOK bf g)
    (hcol : ∀ a ∈ g.leaves, a.vertical = false ∧ a.bb.x0 = c ∧ a.bb.y0 < a.bb.y1) (hsep : g.Separated) :
    g.leaves.Pairwise (fun a b => b.bb.y1 ≤ a.bb.y0) :=
  column_top_to_bottom hpos c hok hcol hsep

/- non-vacuity: a column of three boxes of different widths, merged bottom pair first -/
def exB (y : Rat) (w : Rat) : Box := ⟨0, false, [], ⟨10, y, 10 + w, y + 10⟩, 0⟩
def exTree : Node :=
  .grp false ((exB 200 40).bb.union ((exB 100 30).bb.union (exB 0 50).bb)) (.leaf (exB 200 40))
    (.grp false ((exB 100 30).bb.union (exB 0 50).bb) (.leaf (exB 100 30)) (.leaf (exB 0 50)))

example : GroupOK (1/2) exTree :=
  GroupOK.grp _ _ _ _ (GroupOK.leaf _)
    (GroupOK.grp _ _ _ _ (GroupOK.leaf _) (GroupOK.leaf _) (isUnion_union (isUnion_singleton _) _) rfl (by decide +kernel))
    (isUnion_union (isUnion_singleton _) _) rfl (by decide +kernel)
example : exTree.Separated := (separatedB_iff exTree).mp (by decide +kernel)
example : (exTree.leaves.all fun a => !a.vertical && decide (a.bb.x0 = 10) && decide (a.bb.y0 < a.bb.y1)) = true := by
  decide +kernel
example : exTree.leaves.map (·.bb.y0) = [200, 100, 0] := by decide +kernel

/-- **Reading order without the hierarchy (`boxes_flow = None`), full statement.**  For every page the
text boxes come out sorted by the documented positional key: vertical boxes first (by descending right
edge, then descending bottom edge), then horizontal boxes by descending bottom edge - i.e. the boxes of a
column top to bottom - and, for equal bottom edges, from left to right. -/
theorem C09_order_none {le : Cmp} (p : LAParams) (hbf : p.boxes_flow = none) (pageBB : BB) (items : List Item) :
    (boxesOf (analyze le p pageBB items)).Pairwise (fun a b => tupleLe (getkey a) (getkey b) = true) := by
  by_cases h : (items.filterMap Item.glyph?).isEmpty = true
  · have : (analyze le p pageBB items).children = items.map Item.toChild := by simp [analyze, h]
    have hb : boxesOf (analyze le p pageBB items) = [] := by
      simp only [boxesOf, this, List.filterMap_map, List.filterMap_eq_nil_iff]
      intro it _
      cases it <;> rfl
    rw [hb]; exact List.Pairwise.nil
  · have st := stages le p pageBB items (by simpa using h)
    rw [boxesOf_stages st]
    exact finalBoxes_none_sorted p hbf pageBB st.boxes

/-- In particular two horizontal boxes `a` before `b` in the output satisfy `b.y0 ≤ a.y0`. -/
theorem C09_order_none_top_to_bottom (a b : Box) (ha : a.vertical = false) (hb : b.vertical = false)
    (h : tupleLe (getkey a) (getkey b) = true) : b.bb.y0 ≤ a.bb.y0 := by
  rw [tupleLe_iff] at h
  simp only [getkey, ha, hb, Bool.false_eq_true, if_false, getkey_h] at h
  rcases h with h | ⟨_, h | ⟨h, _⟩⟩
  · omega
  · linarith
  · linarith

/-! ### scale invariance -/

/-- **Every predicate and measure is homogeneous**: multiplying all coordinates by `s > 0` changes no
decision (degree 0), multiplies distances/keys by `s` and the area distance by `s²`. -/
theorem C09_scale_predicates {s : Rat} (hs : 0 < s) (p : LAParams) (a b : BB) (wm last r bf : Rat) (c : Bool) :
    halign p (scaleBB s a) (scaleBB s b) = halign p a b
    ∧ valign p (scaleBB s a) (scaleBB s b) = valign p a b
    ∧ need_space_h wm (s * last) (scaleBB s b) = need_space_h wm last b
    ∧ need_space_v wm (s * last) (scaleBB s b) = need_space_v wm last b
    ∧ neighbor_filter_h (scaleBB s a) (scaleBB s b) c r = neighbor_filter_h a b c r
    ∧ neighbor_filter_v (scaleBB s a) (scaleBB s b) c r = neighbor_filter_v a b c r
    ∧ is_empty (scaleBB s a) = is_empty a
    ∧ (scaleBB s a).union (scaleBB s b) = scaleBB s (a.union b)
    ∧ dist (scaleBB s a) (scaleBB s b) = s * s * dist a b
    ∧ key_lrtb bf (scaleBB s a) = s * key_lrtb bf a
    ∧ key_tbrl bf (scaleBB s a) = s * key_tbrl bf a :=
  ⟨halign_scale hs p a b, valign_scale hs p a b, need_space_h_scale hs wm last b, need_space_v_scale hs wm last b,
   neighbor_filter_h_scale hs a b c r, neighbor_filter_v_scale hs a b c r, is_empty_scale hs a, union_scale hs a b,
   dist_scale hs a b, key_lrtb_scale hs bf a, key_tbrl_scale hs bf a⟩

/-- **Scale invariance of the line stage.**  For every glyph list, every parameter setting and every
factor `s > 0` (not only powers of two): `group_objects` of the scaled glyphs is the scaled result -
same lines, same members, same word spaces, scaled boxes - and the same lines are set aside as empty. -/
theorem C09_scale_lines {s : Rat} (hs : 0 < s) (p : LAParams) (gs : List Glyph) :
    groupObjects p (gs.map (scaleGlyph s)) = (groupObjects p gs).map (scaleLine s)
    ∧ ∀ l, (scaleLine s l).isEmpty = l.isEmpty ∧ (scaleLine s l).text = l.text :=
  ⟨groupObjects_scale hs p gs, fun l => ⟨isEmpty_scale hs l, text_scale hs l⟩⟩

/-- **Scale invariance of the neighbour relation.**  Which lines `find_neighbors` returns for a line
(as a set of line numbers, through the grid index) is the same at every scale `s > 0`; only the ORDER in
which they are listed can change (`C09_scale_cex`). -/
theorem C09_scale_neighbours {s : Rat} (hs : 0 < s) (ratio : Rat) (hr : 0 ≤ ratio) (pageBB : BB) (hp : WfPage pageBB)
    (lines : List Line) (hne : ∀ l ∈ lines, l.isEmpty = false) (l : Line) (hl : l ∈ lines) (j : Nat) :
    j ∈ neighbors ratio (mkPlane (scaleBB s pageBB)
          (((lines.map (scaleLine s)).zipIdx).map fun (x : Line × Nat) => x.1.pobj x.2))
        (lines.map (scaleLine s)) (scaleLine s l)
    ↔ j ∈ neighbors ratio (mkPlane pageBB (lines.zipIdx.map fun (x : Line × Nat) => x.1.pobj x.2)) lines l :=
  neighbors_scale hs ratio hr pageBB hp lines hne l hl j

/-- **Order of the neighbours.**  After the repair of `Plane.find` (objects reported in insertion order,
C20 `plane_find_order`) `find_neighbors` lists the neighbouring lines in the order of the lines - not in
the scan order of the 50-unit grid, which depends on the scale. -/
theorem C09_find_neighbors_order (ratio : Rat) (hr : 0 ≤ ratio) (pageBB : BB) (hp : WfPage pageBB) (lines : List Line)
    (hne : ∀ l ∈ lines, l.isEmpty = false) (l : Line) (hl : l ∈ lines) :
    (neighbors ratio (mkPlane pageBB (lines.zipIdx.map fun (x : Line × Nat) => x.1.pobj x.2)) lines l).Pairwise (· < ·) :=
  neighbors_sorted ratio hr pageBB hp lines hne l hl

/-- **Scale invariance of the box stage.**  For every `s > 0`, all parameters, non-empty lines and a
well-formed page box: `group_textlines` of the scaled lines is the scaled result - the same boxes with
the same member lines in the same order.  (False for the pinned code - the order of equal-key lines
followed the grid; the counter-example of the previous round is `corpus/C09/scale-equal-key-line-order.json`,
now a regression test.) -/
theorem C09_scale_textlines {s : Rat} (hs : 0 < s) (p : LAParams) (pageBB : BB) (hp : WfPage pageBB)
    (lines : List Line) (hne : ∀ l ∈ lines, l.isEmpty = false) :
    groupTextlines p (scaleBB s pageBB) (lines.map (scaleLine s)) = (groupTextlines p pageBB lines).map (scaleBox s) :=
  groupTextlines_scale hs p pageBB hp lines hne

/-- **Scale invariance of the whole analysis, `boxes_flow = None`.**  For every item list, every other
parameter, every `s > 0` (not only powers of two) and a well-formed page box, the analysis of the scaled
page is the scaled analysis: same lines, spaces, boxes, line order, numbering and child order. -/
theorem C09_scale_analyze_none {le : Cmp} {s : Rat} (hs : 0 < s) (p : LAParams) (hbf : p.boxes_flow = none)
    (pageBB : BB) (hp : WfPage pageBB) (items : List Item) :
    analyze le p (scaleBB s pageBB) (items.map (scaleItem s)) = scaleResult s (analyze le p pageBB items) :=
  analyze_none_scale hs p hbf pageBB hp items

/-- **Scale invariance of the hierarchy stage.**  `group_textboxes` on the scaled boxes performs the same
merges in the same order (simulation of the heap loop: distances scale by `s²`, so the heap order is
unchanged; `isany` asks `Plane.find`, which is grid independent): same hierarchy, scaled; same flags. -/
theorem C09_scale_textboxes {s : Rat} (hs : 0 < s) (pageBB : BB) (hp : WfPage pageBB) (boxes : List Box)
    (hwf : ∀ b ∈ boxes, WfBB b.bb) :
    groupTextboxes HEntry.le (scaleBB s pageBB) (boxes.map (scaleBox s))
      = ((groupTextboxes HEntry.le pageBB boxes).1.map (scaleNode s), (groupTextboxes HEntry.le pageBB boxes).2) :=
  groupTextboxes_scale hs pageBB hp boxes hwf

/-- **Scale invariance of the whole outcome** (the last sentence of C09, for every `s > 0`, in particular
every power of two; every item list; every LAParams incl. numeric `boxes_flow`; well-formed page box):
`analyze` of the page with all coordinates multiplied by `s` is the result of `analyze` with all
coordinates multiplied by `s` - the same lines, word spaces, text boxes, order of lines, group hierarchy,
numbering and child order.  The heap of `group_textboxes` is ordered by `HEntry.le`, i.e. the
implementation's tuple order with creation numbers in place of `id()` (for inputs without distance ties
that is the implementation's order whatever `id()` returns). -/
theorem C09_scale {s : Rat} (hs : 0 < s) (p : LAParams) (pageBB : BB) (hp : WfPage pageBB) (items : List Item) :
    analyze HEntry.le p (scaleBB s pageBB) (items.map (scaleItem s)) = scaleResult s (analyze HEntry.le p pageBB items) :=
  analyze_scale hs p pageBB hp items

/-! ### non-vacuity -/

example : WfBB ⟨10, 100, 16, 110⟩ := by unfold WfBB; decide +kernel
-- a pair exactly ON the char_margin threshold is NOT joined (strict `<`), just below it is
example : halign ⟨1/2, 2, 1/2, 1/8, none, false⟩ ⟨10, 100, 16, 110⟩ ⟨28, 100, 34, 110⟩ = false := by decide +kernel
example : halign ⟨1/2, 2, 1/2, 1/8, none, false⟩ ⟨10, 100, 16, 110⟩ ⟨28 - 1/64, 100, 34, 110⟩ = true := by
  decide +kernel
-- exactly ON the line_overlap threshold: not joined (strict `>`)
example : halign ⟨1/2, 2, 1/2, 1/8, none, false⟩ ⟨10, 100, 16, 110⟩ ⟨17, 105, 23, 115⟩ = false := by decide +kernel
-- a gap exactly equal to word_margin · max(w, h) gives no space, 1/64 more does
example : need_space_h (1/8) 16 ⟨16 + 10/8, 100, 22 + 10/8, 110⟩ = false := by decide +kernel
example : need_space_h (1/8) 16 ⟨16 + 10/8 + 1/64, 100, 22 + 10/8 + 1/64, 110⟩ = true := by decide +kernel

end PdfVerif.Props.C09
