/-
C03 — Stream payloads and filter chains decode to exactly the original bytes.

Decoders/predictors/pipeline/stream delimitation: hand model `PdfVerif.Model.Filters`
(correspondence-checked against pdfminer by tools/harness/props/c03.py), with
`paeth_predictor` and the filter-name tuples regenerated from the Python source
(`PdfVerif.Gen.Filters`).  Encoders: `PdfVerif.Spec.FilterEnc` (twins of the Python reference
encoders).  Only property theorems live here; helper lemmas are in `Lemmas/Filters*.lean`.
-/
import PdfVerif.Lemmas.FiltersPred
import PdfVerif.Lemmas.FiltersCodec
import PdfVerif.Lemmas.FiltersChain
import PdfVerif.Lemmas.FiltersA85
import PdfVerif.Lemmas.FiltersLzw
import PdfVerif.Lemmas.FiltersFuel
import PdfVerif.Lemmas.FiltersGen
import PdfVerif.Lemmas.FiltersScan

namespace PdfVerif.Props.C03
open PdfVerif PdfVerif.Filters PdfVerif.FilterEnc PdfVerif.Gen.Filters

/-! ## Predictors -/

/-- PNG predictor: for every geometry with 8 or 1 bits per component, every list of rows of the
row length and EVERY assignment of the five filter types to the rows (first row included),
the repaired `apply_png_predictor` returns exactly the rows. -/
theorem png_rt (colors columns bpc : Nat) (hbpc : bpc = 8 ∨ bpc = 1) (rows : List Bytes) (fts : List Nat)
    (hrows : ∀ r ∈ rows, r.length = pngNbytes colors columns bpc) (hlen : fts.length = rows.length)
    (hfts : ∀ f ∈ fts, f ≤ 4) :
    apply_png_predictor colors columns bpc (pngEnc colors columns bpc fts rows) = .ok rows.flatten := by
  have hb : (bpc != 8 && bpc != 1) = false := by rcases hbpc with rfl | rfl <;> rfl
  rw [apply_png_predictor_lit]
  unfold pngEnc
  rw [hb]
  simp only [Bool.false_eq_true, if_false]
  exact pngRows_rt _ _ (by unfold pngBpp; omega) rows fts _ _ hrows hlen hfts (by simp) (Nat.le_refl _)

/-- Per row filter: a single row with filter type `ft` on the FIRST row (prior row all zero) —
the case the pinned code got wrong for `colors > 1` (Up/Average/Paeth) and for `bpc = 1`. -/
theorem png_first_row_rt (colors columns bpc ft : Nat) (hbpc : bpc = 8 ∨ bpc = 1) (hft : ft ≤ 4) (row : Bytes)
    (hrow : row.length = pngNbytes colors columns bpc) :
    apply_png_predictor colors columns bpc (pngEnc colors columns bpc [ft] [row]) = .ok row := by
  have h := png_rt colors columns bpc hbpc [row] [ft] (by simpa using hrow) rfl (by simpa using hft)
  simpa using h

/-- TIFF predictor 2 (8 bits per component): rows of `columns * colors` bytes. -/
theorem tiff_rt (colors columns : Nat) (hc : 0 < colors) (hw : 0 < columns) (rows : List Bytes)
    (hrows : ∀ r ∈ rows, r.length = columns * colors) :
    apply_tiff_predictor colors columns 8 (tiffEnc colors rows) = .ok rows.flatten := by
  have hn : 0 < columns * colors := Nat.mul_pos hw hc
  have h0 : (columns * colors == 0) = false := by simp; omega
  rw [apply_tiff_predictor_lit]
  simp only [h0]
  exact tiffRows_rt _ _ hc hn rows _ hrows (Nat.le_refl _)

/-- Non-vacuity: two colours, three columns, first row Paeth then Average. -/
example : apply_png_predictor 2 3 8 (pngEnc 2 3 8 [4, 3] [[1, 2, 3, 4, 5, 6], [9, 8, 7, 6, 5, 200]])
    = .ok [1, 2, 3, 4, 5, 6, 9, 8, 7, 6, 5, 200] := by decide
/-- Non-vacuity at one bit per component: 9 columns = 2 bytes per row. -/
example : apply_png_predictor 1 9 1 (pngEnc 1 9 1 [1, 2] [[0xff, 0x80], [0xaa, 0x00]])
    = .ok [0xff, 0x80, 0xaa, 0x00] := by decide

/-! ## Stream delimitation -/

/-- The payload is delimited exactly, whatever bytes it contains (`endstream`, EOLs, NULs, …) and
whatever precedes and follows it, for LF, CRLF (and a lone CR not followed by LF) after the keyword
line, when `Length` is the payload length.  `kw` is the keyword line without its end-of-line
(`stream`, possibly followed by blanks). -/
theorem stream_delim (pre kw eol d post : Bytes) (hkw : ∀ c ∈ kw, c ≠ 10 ∧ c ≠ 13)
    (heol : EolOk eol (d ++ post)) :
    streamPayload (pre ++ kw ++ eol ++ d ++ post) pre.length d.length = .ok d := by
  unfold streamPayload
  have h1 : (pre ++ kw ++ eol ++ d ++ post).drop pre.length = kw ++ eol ++ (d ++ post) := by
    simp only [List.append_assoc]; exact List.drop_left' rfl
  rw [h1, nextline_kw kw hkw eol (d ++ post) heol]
  have h2 : (pre ++ kw ++ eol ++ d ++ post).drop (pre.length + (kw ++ eol).length) = d ++ post := by
    have : pre ++ kw ++ eol ++ d ++ post = (pre ++ (kw ++ eol)) ++ (d ++ post) := by simp [List.append_assoc]
    rw [this]; exact List.drop_left' (by simp)
  simp only [h2]
  rw [List.take_left' rfl]

/-- The literal keyword: `stream` LF / `stream` CR LF. -/
theorem stream_delim_lf (pre d post : Bytes) :
    streamPayload (pre ++ [115, 116, 114, 101, 97, 109] ++ [10] ++ d ++ post) pre.length d.length = .ok d :=
  stream_delim pre _ [10] d post (by decide) (Or.inl rfl)

theorem stream_delim_crlf (pre d post : Bytes) :
    streamPayload (pre ++ [115, 116, 114, 101, 97, 109] ++ [13, 10] ++ d ++ post) pre.length d.length = .ok d :=
  stream_delim pre _ [13, 10] d post (by decide) (Or.inr (Or.inl rfl))

/-- Non-vacuity: a payload that contains `endstream` and a NUL, CRLF after the keyword. -/
example : streamPayload ([60, 60, 62, 62] ++ [115, 116, 114, 101, 97, 109] ++ [13, 10] ++
    [101, 110, 100, 115, 116, 114, 101, 97, 109, 0, 10] ++ [10, 101, 110, 100, 115, 116, 114, 101, 97, 109]) 4 11
    = .ok [101, 110, 100, 115, 116, 114, 101, 97, 109, 0, 10] := by decide

/-! ## RunLength -/

/-- RunLength: ANY segmentation of the data into literal runs (1–128 bytes) and repeat runs
(2–128 copies), with or without the EOD byte, decodes to the data. -/
theorem rl_rt (segs : List RlSeg) (eod : Bool) (hv : ∀ s ∈ segs, s.valid = true) :
    rldecode (rlEnc segs eod) = .ok (rlFlat segs) := by
  unfold rldecode rlEnc
  exact rlBody_rt _ (by cases eod <;> simp) segs _ hv (Nat.lt_succ_self _)

example : rldecode (rlEnc [.run 3 7, .lit [1, 2, 128], .run 128 0] true)
    = .ok ([7, 7, 7, 1, 2, 128] ++ List.replicate 128 0) := by decide

/-! ## ASCIIHex -/

/-- ASCIIHex: any mix of upper/lower-case digits, any white space between digits, with `>`,
without EOD marker, or with `>` after an odd number of digits (final `0` left out). -/
theorem ahx_rt (cs : List Nat) (tail : Nat) (x : Bytes) : asciihexdecode (ahxEnc cs tail x) = .ok x := by
  rw [asciihexdecode_lit]
  unfold ahxEnc
  have hno := ahxDigits_no_gt cs (tail == 2) x
  by_cases h1 : tail = 1
  · subst h1
    have ht2 : ((1 : Nat) == 2) = false := rfl
    simp only [List.filter_append, ahx_filter, ht2] at hno ⊢
    simp only [if_true, List.filter_nil, List.append_nil, beq_self_eq_true]
    rw [takeWhile_all _ _ hno]
    simp only [Nat.lt_irrefl, if_false]
    exact unhexlify_digits cs x
  · have ht : (tail == 1) = false := by simp [h1]
    simp only [List.filter_append, ahx_filter, ht, Bool.false_eq_true, if_false]
    have hf : List.filter (fun b => !isWs b) [62] = [62] := by decide
    rw [hf, takeWhile_append_stop _ _ 62 [] hno (by decide)]
    have hlt : (ahxDigits cs (tail == 2) x).length < (ahxDigits cs (tail == 2) x ++ [62]).length := by simp
    simp only [hlt, if_true]
    by_cases h2 : tail = 2
    · subst h2
      have ht2 : ((2 : Nat) == 2) = true := rfl
      simp only [ht2]
      rcases ahxDigits_dropped cs x with ⟨ha, hb⟩ | ⟨ha, hb⟩
      · have : ((ahxDigits cs true x).length % 2 == 1) = false := by simp [hb]
        simp only [this, Bool.false_eq_true, if_false, ha]
      · have : ((ahxDigits cs true x).length % 2 == 1) = true := by simp [hb]
        simp only [this, if_true, ha]
    · have ht2 : (tail == 2) = false := by simp [h2]
      simp only [ht2]
      have hb := ahxDigits_false_even cs x
      have : ((ahxDigits cs false x).length % 2 == 1) = false := by simp [hb]
      simp only [this, Bool.false_eq_true, if_false]
      exact unhexlify_digits cs x

example : asciihexdecode (ahxEnc [5, 30, 2] 2 [0xAB, 0x00, 0xF0]) = .ok [0xAB, 0x00, 0xF0] := by decide

/-! ## ASCII85 -/

/-- `base64.a85decode` (as called by `ascii85decode`) inverts the group encoder for every byte
string: full groups as five digits or `z` for zero groups, a final group of n < 4 bytes as n+1
digits, any white space between groups. -/
theorem a85_body_rt (cs : List Nat) (x : Bytes) : a85decode (a85Body cs x) = .ok x :=
  a85decode_body cs x

example : a85decode (a85Body [1, 5] [0, 0, 0, 0, 0xff, 0xfe]) = .ok [0, 0, 0, 0, 0xff, 0xfe] := by decide

/-- `ascii85decode` (strip regexes `^\\s*<?\\s*~\\s*` and `\\s*~\\s*>?\\s*$`, then `a85decode`) inverts the
framed encoder for every byte string: optional `<~` or `~` in front, `~>`, `~` or nothing at the
end, white space anywhere around the markers and between groups - including the empty payload,
where the start pattern consumes the `~` of a bare `~>`. -/
theorem a85_rt (cs : List Nat) (pre post : Nat × Nat × Nat × Nat) (x : Bytes) :
    ascii85decode (a85Enc cs pre post x) = .ok x :=
  ascii85decode_a85Enc cs pre post x

/-- Non-vacuity: data whose first digit is `<`, no `<~` marker, `~>` at the end. -/
example : ascii85decode (a85Enc [2] (0, 0, 0, 0) (2, 0, 0, 0) [0x54, 0x02, 0x00]) = .ok [0x54, 0x02, 0x00] := by decide
example : (a85Enc [2] (0, 0, 0, 0) (2, 0, 0, 0) [0x54, 0x02, 0x00]).head? = some 60 := by decide

/-! ## LZW -/

/-- LZW (early change, as `LZWDecoder` implements it): for EVERY byte string and EVERY placement
of additional Clear codes (`clr n` = a Clear after the n-th data code; a Clear is forced before a
13-bit code would be needed), the decoder returns the data.  Covers the code-width changes at
table sizes 511/1023/2047, table resets, the KwKwK case (a code for the entry the decoder is
about to create), the EOD code and the zero padding of the last byte. -/
theorem lzw_rt (clr : Nat → Bool) (x : Bytes) : lzwdecode (lzwEnc clr x) = .ok x :=
  lzwdecode_lzwEnc clr x

/-- The byte-level bit reader (`readbits` with `buff`/`bpos`, as in the Python code) reads exactly the
MSB-first bit sequence of the data: `LZWDecoder.run` on the reader state equals the loop on bits. -/
theorem lzw_bit_view (data : Bytes) : lzwdecode data = lzwRun (8 * data.length + 1) lzwInit (bitsOf data) :=
  lzwdecode_bits data

/-- Non-vacuity: `aaaaaaa` exercises KwKwK twice; a Clear is inserted after the 2nd data code. -/
example : lzwdecode (lzwEnc (fun n => n == 2) [97, 97, 97, 97, 97, 97, 97]) = .ok [97, 97, 97, 97, 97, 97, 97] := by
  decide +kernel
/-- … and the decoder reads the ISO 32000-1 7.4.4.2 example. -/
example : lzwdecode [0x80, 0x0B, 0x60, 0x50, 0x22, 0x0C, 0x0C, 0x85, 0x01]
    = .ok [45, 45, 45, 45, 45, 65, 45, 45, 45, 66] := by decide +kernel
/-- The encoder is the usual one: the example of ISO 32000-1 7.4.4.2 (`-----A---B`). -/
example : lzwEnc (fun _ => false) [45, 45, 45, 45, 45, 65, 45, 45, 45, 66]
    = [0x80, 0x0B, 0x60, 0x50, 0x22, 0x0C, 0x0C, 0x85, 0x01] := by decide

/-! ## Filter chains

A chain is a list of stages; a stage is a pipeline entry `(filter name, DecodeParms)` together
with a relation "`z` is an encoding of `y` for this entry" and the proof that ONE iteration of
`PDFStream.decode`'s loop inverts it.  `chain_rt` composes any number of stages; the
`stage_*` theorems below provide the stages (every filter name of the regenerated
`LITERALS_*` tuples, i.e. full and abbreviated names, with every predictor setting). -/

structure Stage (inflate : Bytes → Bytes) where
  filt : Bytes × Option Parms
  Encodes : Bytes → Bytes → Prop
  rt : ∀ y z, Encodes y z → decodeStep inflate filt z = .ok y

/-- `ChainEncodes stages x z`: `z` is what a stream holds when payload `x` is encoded for the
`Filter` array `stages` (innermost = last stage first). -/
inductive ChainEncodes {inflate : Bytes → Bytes} : List (Stage inflate) → Bytes → Bytes → Prop
  | nil (x : Bytes) : ChainEncodes [] x x
  | cons (s : Stage inflate) (ss : List (Stage inflate)) (x y z : Bytes) :
      ChainEncodes ss x y → s.Encodes y z → ChainEncodes (s :: ss) x z

/-- Chains of ANY length decode to the original payload. -/
theorem chain_rt {inflate : Bytes → Bytes} (stages : List (Stage inflate)) (x z : Bytes)
    (h : ChainEncodes stages x z) :
    decodeChain inflate (stages.map (·.filt)) z = .ok x := by
  induction h with
  | nil x => rfl
  | cons s ss x y z _ hs ih =>
    simp only [List.map_cons, decodeChain, s.rt y z hs, ih]

/-- … and so does `PDFStream.decode` for the `Filter` array and `DecodeParms` array of the chain. -/
theorem stream_chain_rt {inflate : Bytes → Bytes} (stages : List (Stage inflate)) (x z : Bytes)
    (h : ChainEncodes stages x z) :
    streamDecode inflate (.list (stages.map (·.filt.1))) (.list (stages.map (·.filt.2))) z = .ok x := by
  have hz : ∀ l : List (Stage inflate), List.zip (l.map (·.filt.1)) (l.map (·.filt.2)) = l.map (·.filt) := by
    intro l
    induction l with
    | nil => rfl
    | cons s ss ih => simp only [List.map_cons, List.zip_cons_cons, ih]
  unfold streamDecode streamDecodeRaw getFilters
  cases stages with
  | nil => cases h; rfl
  | cons s ss =>
    simp only [List.map_cons, List.isEmpty_cons, Bool.false_eq_true, if_false]
    have := chain_rt (s :: ss) x z h
    have hz' := hz (s :: ss)
    simp only [List.map_cons] at this hz'
    rw [hz', this]

/-- `PDFStream.decode`'s error handler (added upstream: decoder-internal errors give an empty
result instead of escaping) never changes a successful decode, so it cannot turn a correct round
trip into a wrong one; and it only ever substitutes the empty string. -/
theorem stream_decode_handler (inflate : Bytes → Bytes) (f : FilterVal) (p : ParmsVal) (raw d : Bytes) :
    (streamDecodeRaw inflate f p raw = .ok d → streamDecode inflate f p raw = .ok d) ∧
    (streamDecode inflate f p raw = .ok d → streamDecodeRaw inflate f p raw = .ok d ∨ d = []) := by
  unfold streamDecode
  constructor
  · intro h; rw [h]
  · intro h
    cases hr : streamDecodeRaw inflate f p raw with
    | ok d' => rw [hr] at h; left; exact h
    | error e =>
      rw [hr] at h
      right
      by_cases he : e.isDecodeError = true
      · simp only [he, if_true] at h; cases h; rfl
      · simp only [he] at h; cases h

/-- `z` encodes `y` under predictor parameters `pr`. -/
inductive PredEncodes : Option Parms → Bytes → Bytes → Prop
  | none (y : Bytes) : PredEncodes none y y
  | noPredictor (p : Parms) (y : Bytes) (h : p.predictor = none ∨ p.predictor = some 1) : PredEncodes (some p) y y
  | tiff (p : Parms) (rows : List Bytes) (hp : p.predictor = some 2) (hb : p.bpc.getD 8 = 8)
      (hc : 0 < p.colors.getD 1) (hw : 0 < p.columns.getD 1)
      (hrows : ∀ r ∈ rows, r.length = p.columns.getD 1 * p.colors.getD 1) :
      PredEncodes (some p) rows.flatten (tiffEnc (p.colors.getD 1) rows)
  | png (p : Parms) (pred : Nat) (rows : List Bytes) (fts : List Nat) (hp : p.predictor = some pred) (h10 : 10 ≤ pred)
      (hb : p.bpc.getD 8 = 8 ∨ p.bpc.getD 8 = 1)
      (hrows : ∀ r ∈ rows, r.length = pngNbytes (p.colors.getD 1) (p.columns.getD 1) (p.bpc.getD 8))
      (hlen : fts.length = rows.length) (hfts : ∀ f ∈ fts, f ≤ 4) :
      PredEncodes (some p) rows.flatten (pngEnc (p.colors.getD 1) (p.columns.getD 1) (p.bpc.getD 8) fts rows)

/-- Predictor dispatch of `PDFStream.decode`: absent, `Predictor 1`, TIFF (2) and PNG (>= 10) with
explicit or defaulted `Colors`/`Columns`/`BitsPerComponent`. -/
theorem predictor_rt (pr : Option Parms) (y z : Bytes) (h : PredEncodes pr y z) : applyPredictor pr z = .ok y := by
  cases h with
  | none => rfl
  | noPredictor p y h =>
    rcases h with h | h <;> simp [applyPredictor_lit, h]
  | tiff p rows hp hb hc hw hrows =>
    simp only [applyPredictor_lit, hp]
    have h1 : ((2 : Nat) == 1) = false := rfl
    have h2 : ((2 : Nat) == 2) = true := rfl
    simp only [h1, h2, Bool.false_eq_true, if_false, if_true, hb]
    exact tiff_rt _ _ hc hw rows hrows
  | png p pred rows fts hp h10 hb hrows hlen hfts =>
    simp only [applyPredictor_lit, hp]
    have h1 : (pred == 1) = false := by simp; omega
    have h2 : (pred == 2) = false := by simp; omega
    simp only [h1, h2, Bool.false_eq_true, if_false, ge_iff_le, h10, if_true]
    exact png_rt _ _ _ hb rows fts hrows hlen hfts

/-- The five supported filters are recognised under their full and their abbreviated names
(FlateDecode, Fl, LZWDecode, LZW, ASCII85Decode, A85, ASCIIHexDecode, AHx, RunLengthDecode, RL), as byte strings, in the tuples regenerated from pdftypes.py. -/
theorem filter_names :
    [70, 108, 97, 116, 101, 68, 101, 99, 111, 100, 101] ∈ LITERALS_FLATE_DECODE ∧
    [70, 108] ∈ LITERALS_FLATE_DECODE ∧
    [76, 90, 87, 68, 101, 99, 111, 100, 101] ∈ LITERALS_LZW_DECODE ∧
    [76, 90, 87] ∈ LITERALS_LZW_DECODE ∧
    [65, 83, 67, 73, 73, 56, 53, 68, 101, 99, 111, 100, 101] ∈ LITERALS_ASCII85_DECODE ∧
    [65, 56, 53] ∈ LITERALS_ASCII85_DECODE ∧
    [65, 83, 67, 73, 73, 72, 101, 120, 68, 101, 99, 111, 100, 101] ∈ LITERALS_ASCIIHEX_DECODE ∧
    [65, 72, 120] ∈ LITERALS_ASCIIHEX_DECODE ∧
    [82, 117, 110, 76, 101, 110, 103, 116, 104, 68, 101, 99, 111, 100, 101] ∈ LITERALS_RUNLENGTH_DECODE ∧
    [82, 76] ∈ LITERALS_RUNLENGTH_DECODE := by
  decide

/-- ASCIIHex stage (either name), any predictor setting. -/
def stageAhx (inflate : Bytes → Bytes) (name : Bytes) (hn : name ∈ LITERALS_ASCIIHEX_DECODE) (pr : Option Parms) :
    Stage inflate where
  filt := (name, pr)
  Encodes y z := ∃ u cs tail, PredEncodes pr y u ∧ z = ahxEnc cs tail u
  rt := by
    rintro y z ⟨u, cs, tail, hp, rfl⟩
    rw [decodeStep_ahx inflate name pr _ hn, ahx_rt]
    exact predictor_rt pr y u hp

/-- ASCII85 stage (either name): any framing / `z` / white-space choice. -/
def stageA85 (inflate : Bytes → Bytes) (name : Bytes) (hn : name ∈ LITERALS_ASCII85_DECODE) (pr : Option Parms) :
    Stage inflate where
  filt := (name, pr)
  Encodes y z := ∃ u cs pre post, PredEncodes pr y u ∧ z = a85Enc cs pre post u
  rt := by
    rintro y z ⟨u, cs, pre, post, hp, rfl⟩
    rw [decodeStep_a85 inflate name pr _ hn, a85_rt]
    exact predictor_rt pr y u hp

/-- RunLength stage (either name): any valid segmentation. -/
def stageRl (inflate : Bytes → Bytes) (name : Bytes) (hn : name ∈ LITERALS_RUNLENGTH_DECODE) (pr : Option Parms) :
    Stage inflate where
  filt := (name, pr)
  Encodes y z := ∃ segs eod, (∀ s ∈ segs, s.valid = true) ∧ PredEncodes pr y (rlFlat segs) ∧ z = rlEnc segs eod
  rt := by
    rintro y z ⟨segs, eod, hv, hp, rfl⟩
    rw [decodeStep_rl inflate name pr _ hn, rl_rt segs eod hv]
    exact predictor_rt pr y _ hp

/-- LZW stage (either name): any Clear placement. -/
def stageLzw (inflate : Bytes → Bytes) (name : Bytes) (hn : name ∈ LITERALS_LZW_DECODE) (pr : Option Parms) :
    Stage inflate where
  filt := (name, pr)
  Encodes y z := ∃ u clr, PredEncodes pr y u ∧ z = lzwEnc clr u
  rt := by
    rintro y z ⟨u, clr, hp, rfl⟩
    rw [decodeStep_lzw inflate name pr _ hn, lzw_rt]
    exact predictor_rt pr y u hp

/-- Flate stage (either name): zlib is an abstract pair with `inflate (deflate u) = u`. -/
def stageFl (inflate deflate : Bytes → Bytes) (hz : ∀ u, inflate (deflate u) = u) (name : Bytes)
    (hn : name ∈ LITERALS_FLATE_DECODE) (pr : Option Parms) : Stage inflate where
  filt := (name, pr)
  Encodes y z := ∃ u, PredEncodes pr y u ∧ z = deflate u
  rt := by
    rintro y z ⟨u, hp, rfl⟩
    rw [decodeStep_fl inflate name pr _ hn, hz]
    exact predictor_rt pr y u hp

/-- Non-vacuity: `[/AHx /Fl]` with a PNG predictor (2 colours, Paeth on the first row) on the Flate
stage, for the identity "compression". -/
example : streamDecode id (.list [[65, 72, 120], [70, 108]])
    (.list [none, some { predictor := some 12, colors := some 2, columns := some 2, bpc := none }])
    (ahxEnc [1, 2] 0 (pngEnc 2 2 8 [4] [[1, 2, 3, 4]])) = .ok [1, 2, 3, 4] := by decide

/-! ## Round 6: the single forms of `Filter` / `DecodeParms` -/

/-- `DecodeParms` as the stream dictionary writes it for a parameter value shared by all filters:
absent, or ONE dictionary (not an array). -/
def sharedParms : Option Parms → ParmsVal
  | none => .absent
  | some d => .dict d

/-- The `Filter` array with ONE `DecodeParms` dictionary (or none) for all filters - the single form
of `DecodeParms` - decodes to the payload, for chains of any length. -/
theorem stream_shared_parms_rt {inflate : Bytes → Bytes} (stages : List (Stage inflate)) (x z : Bytes)
    (h : ChainEncodes stages x z) (p : Option Parms) (hp : ∀ s ∈ stages, s.filt.2 = p) :
    streamDecode inflate (.list (stages.map (·.filt.1))) (sharedParms p) z = .ok x := by
  have hz : ∀ l : List (Stage inflate), (∀ s ∈ l, s.filt.2 = p) →
      List.zip (l.map (·.filt.1)) (List.replicate (l.map (·.filt.1)).length p) = l.map (·.filt) := by
    intro l hl
    induction l with
    | nil => rfl
    | cons s ss ih =>
      have h1 : s.filt.2 = p := hl s (by simp)
      have := ih (fun s hs => hl s (by simp [hs]))
      simp only [List.map_cons, List.length_cons, List.replicate_succ, List.zip_cons_cons, this]
      congr 1
      rw [← h1]
  unfold streamDecode streamDecodeRaw getFilters
  cases stages with
  | nil => cases h; cases p <;> rfl
  | cons s ss =>
    have hc := chain_rt (s :: ss) x z h
    have hz' := hz (s :: ss) hp
    cases p with
    | none =>
      simp only [sharedParms, List.map_cons, List.isEmpty_cons, Bool.false_eq_true, if_false] at hz' hc ⊢
      rw [hz', hc]
    | some d =>
      simp only [sharedParms, List.map_cons, List.isEmpty_cons, Bool.false_eq_true, if_false] at hz' hc ⊢
      rw [hz', hc]

/-- The single forms: `Filter` a name (not an array) and `DecodeParms` a dictionary or absent. -/
theorem stream_single_rt {inflate : Bytes → Bytes} (s : Stage inflate) (x z : Bytes) (h : s.Encodes x z) :
    streamDecode inflate (.name s.filt.1) (sharedParms s.filt.2) z = .ok x := by
  have := stream_shared_parms_rt [s] x z (ChainEncodes.cons s [] x x z (ChainEncodes.nil x) h) s.filt.2
    (by intro s' hs'; simp at hs'; rw [hs'])
  unfold streamDecode streamDecodeRaw getFilters at this ⊢
  simpa using this

example : streamDecode id (.name [65, 72, 120]) .absent [52, 49, 62] = .ok [0x41] := by decide
example : streamDecode id (.name [70, 108]) (.dict ⟨some 12, none, some 2, none⟩) [2, 1, 2, 2, 1, 1] = .ok [1, 2, 2, 3] := by decide
example : streamDecode id (.list [[65, 72, 120], [70, 108]]) (.dict ⟨some 1, none, none, none⟩) [52, 49, 62] = .ok [0x41] := by decide

/-! ## Bounded work: the fuel of every fuelled loop suffices

Each decoder loop of the model takes fuel that is a linear function of the input length; the
theorems say that any larger fuel gives the same result, i.e. the loops terminate within the
stated bound on EVERY input (valid or not). -/

theorem rldecode_fuel (data : Bytes) (k : Nat) : rldecodeAux (data.length + 1 + k) data = rldecode data :=
  rldecodeAux_fuel _ _ data (by omega) (by omega)

theorem lzwdecode_fuel (data : Bytes) (k : Nat) :
    lzwRunB (8 * data.length + 1 + k) lzwInit data 0 8 = lzwdecode data := by
  rw [lzwdecode_bits, lzwRunB_eq _ _ _ _ _ (Nat.le_refl 8)]
  have hv : viewBits data 0 8 = bitsOf data := by simp [viewBits, bitsOfNat]
  rw [hv]
  exact lzwRun_fuel _ _ lzwInit (bitsOf data) (by decide) (by rw [bitsOf_length]; omega) (by rw [bitsOf_length]; omega)

theorem png_fuel (nbytes bpp : Nat) (above data : Bytes) (k : Nat) :
    pngRows nbytes bpp (data.length + k) above data = pngRows nbytes bpp data.length above data :=
  pngRows_fuel nbytes bpp _ _ above data (by omega) (by omega)

theorem tiff_fuel (nbytes bpp : Nat) (hn : 0 < nbytes) (data : Bytes) (k : Nat) :
    tiffRows nbytes bpp (data.length + k) data = tiffRows nbytes bpp data.length data :=
  tiffRows_fuel nbytes bpp hn _ _ data (by omega) (by omega)

/-! ## Round 6: the model's constants and row arithmetic are the ones regenerated from the Python

`Gen.Filters` now also carries, regenerated on every run, the constants and straight-line
arithmetic of lzw.py (`LZWDecoder.__init__`/`feed`), runlength.py (`rldecode`) and utils.py
(`apply_png_predictor`, `apply_tiff_predictor`).  `nbitsAfter`, `pngNbytes`, `pngBpp` are used by
the model directly (so `lzw_rt`, `png_rt`, … are proofs about the translated code); the theorems
below state that every remaining hand-written constant / formula of the model equals the
translated one, for all inputs.  An edit of the Python (Clear code, width schedule, EOD byte,
`257 - length`, `& 255`, `(a + b) // 2`, `bpp`, `nbytes`, …) breaks one of these proofs. -/

/-- lzw.py: Clear/EOD codes, the initial table (`range(256)` + two `None`s), the reset width, the
width schedule on the table length, and the decoder's initial reader state.  Since round 6 the model
(`feed`, `tableLen`, `tableGet`, `feedGrow`, `lzwInit`, `lzwdecode`) uses the translated constants
directly - `lzw_rt` is a proof about them; `Lemmas/FiltersLit.lean` unfolds them to the literals. -/
theorem lzw_translated :
    (∀ st, feed st LZW_CLEAR = .ok { nbits := LZW_NBITS_RESET, init := true, ext := [], prev := some [] } []) ∧
    (∀ st, feed st LZW_EOD = .ok st []) ∧
    (∀ st, st.init = true → tableLen st = LZW_FIRST_FREE + st.ext.length) ∧
    (∀ st code, st.init = true → code < LZW_LITERALS → tableGet st code = some [UInt8.ofNat code]) ∧
    (∀ st code, LZW_LITERALS ≤ code → code < LZW_FIRST_FREE → tableGet st code = none) ∧
    (∀ st entry x, feedGrow st entry x =
      .ok { st with ext := st.ext ++ [entry],
                    nbits := nbitsAfter st.nbits (LZW_FIRST_FREE + (st.ext ++ [entry]).length),
                    prev := some x } x) ∧
    lzwInit.nbits = LZW_INIT_NBITS ∧
    (∀ data, lzwdecode data = lzwRunB (8 * data.length + 1) lzwInit data LZW_INIT_BUFF LZW_INIT_BPOS) := by
  refine ⟨fun _ => rfl, fun _ => rfl, ?_, ?_, ?_, fun _ _ _ => rfl, rfl, fun _ => rfl⟩
  · intro st h; simp [tableLen, h]
  · intro st code h hc; simp [tableGet, h, hc]
  · intro st code h1 h2
    have : ¬ code < LZW_LITERALS := by omega
    simp [tableGet, this, h2]

example : feed lzwInit LZW_CLEAR = .ok { nbits := 9, init := true, ext := [], prev := some [] } [] := rfl
example : nbitsAfter 9 511 = 10 ∧ nbitsAfter 10 1023 = 11 ∧ nbitsAfter 11 2047 = 12 ∧ nbitsAfter 12 4095 = 12 := by decide

/-- lzw.py, `LZWDecoder.readbits`: one iteration of the model's bit reader is the translated loop body
(`r = 8 - self.bpos`; `v = (v << bits) | ((self.buff >> (r - bits)) & ((1 << bits) - 1))` when the
bits fit, else `v = (v << r) | (self.buff & ((1 << r) - 1))` and the next byte is fetched) - the
shifts and masks as Python writes them, for every state. -/
theorem lzw_readbits_translated (rest : Bytes) (buff bpos bits v : Nat) :
    readbits rest buff bpos bits v =
      (if lzwFits bits (lzwAvail bpos) then
         some (lzwTakeAll v bits buff (lzwAvail bpos), buff, bpos + bits, rest)
       else match rest with
         | [] => none
         | x :: rest' => readbits rest' x.toNat 0 (bits - lzwAvail bpos) (lzwTakePart v (lzwAvail bpos) buff)) := by
  cases rest with
  | nil =>
    simp only [readbits, lzwFits, lzwAvail, lzwTakeAll_eq, lzwTakePart_eq, decide_eq_true_eq]
    by_cases h : bits ≤ 8 - bpos <;> simp [h]
  | cons x r =>
    simp only [readbits, lzwFits, lzwAvail, lzwTakeAll_eq, lzwTakePart_eq, decide_eq_true_eq]
    by_cases h : bits ≤ 8 - bpos <;> simp [h]

example : lzwTakeAll 5 3 0b10110100 6 = 0b101110 ∧ lzwTakePart 1 2 0b10110110 = 0b110 := by decide
example : readbits [0x0B] 0x80 0 9 0 = some (256, 0x0B, 1, []) := by decide

/-- runlength.py: one step of `rldecode` written with the translated EOD byte, literal / repeat
tests and counts (since round 6 the model `rldecodeAux` uses them directly, so this is its
unfolding and `rl_rt` is a proof about the translated constants); the two tests exhaust the non-EOD
length bytes (the model's final `else` is the `if length > 128` branch) and an exhausted iterator
reads as EOD. -/
theorem rl_translated (fuel : Nat) (l : UInt8) (rest : Bytes) :
    RL_EOF_DEFAULT = RL_EOD ∧
    rldecodeAux (fuel + 1) (l :: rest) =
      (if l.toNat = RL_EOD then .ok []
       else if rlIsLiteral l.toNat then
         (if rest.length < rlLiteralCount l.toNat then .error .runtimeError
          else match rldecodeAux fuel (rest.drop (rlLiteralCount l.toNat)) with
            | .ok r => .ok (rest.take (rlLiteralCount l.toNat) ++ r)
            | .error e => .error e)
       else match rest with
         | [] => .error .stopIteration
         | b :: rest' =>
           match rldecodeAux fuel rest' with
           | .ok r => .ok (List.replicate (rlRepeatCount l.toNat) b ++ r)
           | .error e => .error e) ∧
    (l.toNat ≠ RL_EOD → rlIsLiteral l.toNat = false → rlIsRepeat l.toNat = true) := by
  refine ⟨rfl, ?_, ?_⟩
  · simp only [rldecodeAux, RL_EOD, rlIsLiteral, rlLiteralCount, rlRepeatCount]
    by_cases h1 : l.toNat = 128
    · simp [h1]
    · by_cases h2 : l.toNat < 128 <;> simp [h1, h2]
      · by_cases h3 : List.length rest < l.toNat + 1
        · simp [h3]
        · simp only [h3, if_false]
          cases rldecodeAux fuel (List.drop (l.toNat + 1) rest) <;> rfl
      · cases rest with
        | nil => rfl
        | cons b r => simp only []; cases rldecodeAux fuel r <;> rfl
  · simp only [RL_EOD, rlIsLiteral, rlIsRepeat]
    intro h1 h2
    simp at h2 ⊢
    omega

example : rlIsLiteral 127 = true ∧ rlLiteralCount 127 = 128 ∧ rlIsRepeat 129 = true ∧ rlRepeatCount 129 = 128
    ∧ rlRepeatCount 255 = 2 ∧ rlIsLiteral 128 = false ∧ rlIsRepeat 128 = false := by decide

/-- utils.apply_png_predictor: the byte each filter type adds back, as the translated `raw_x`
formulas; the supported BitsPerComponent list; filter types outside the translated `if` chain raise. -/
theorem png_translated (x a b c : UInt8) (bpc bpp : Nat) (ft : UInt8) (above enc : Bytes) :
    (x + pngPred 1 a 0 0).toNat = pngRaw1 x.toNat a.toNat ∧
    (x + b).toNat = pngRaw2 x.toNat b.toNat ∧
    (x + pngPred 3 a b 0).toNat = pngRaw3 x.toNat a.toNat b.toNat ∧
    (x + pngPred 4 a b c).toNat = pngRaw4 x.toNat (paeth_predictor a.toNat b.toNat c.toNat).toNat ∧
    (bpc != 8 && bpc != 1) = !PNG_BPC.contains bpc ∧
    (ft.toNat ∉ PNG_FILTER_TYPES → pngRow ft bpp above enc = .error .pdfValue) := by
  have ha := a.toNat_lt; have hb := b.toNat_lt
  refine ⟨?_, ?_, ?_, ?_, ?_, ?_⟩
  · simp [pngPred, pngRaw1, u8_add_toNat]
  · simp [pngRaw2, u8_add_toNat]
  · have : pngPred 3 a b 0 = UInt8.ofNat ((a.toNat + b.toNat) / 2) := by simp [pngPred]
    rw [this, u8_add_toNat, toNat_ofNat_lt _ (by omega)]; rfl
  · have : pngPred 4 a b c = UInt8.ofNat (Int.toNat (paeth_predictor a.toNat b.toNat c.toNat % 256)) := by
      simp [pngPred]
    rw [this, u8_add_toNat, paeth_u8]; rfl
  · by_cases h8 : bpc = 8 <;> by_cases h1 : bpc = 1 <;> simp [PNG_BPC, h8, h1]
  · intro h
    simp only [PNG_FILTER_TYPES, List.mem_cons, List.not_mem_nil, or_false, not_or] at h
    have n0 : ft ≠ 0 := fun e => h.1 (by rw [e]; rfl)
    have n1 : ft ≠ 1 := fun e => h.2.1 (by rw [e]; rfl)
    have n2 : ft ≠ 2 := fun e => h.2.2.1 (by rw [e]; rfl)
    have n3 : ft ≠ 3 := fun e => h.2.2.2.1 (by rw [e]; rfl)
    have n4 : ft ≠ 4 := fun e => h.2.2.2.2 (by rw [e]; rfl)
    simp [pngRow, n0, n1, n2, n3, n4]

example : pngRaw3 200 255 255 = 199 ∧ pngRaw4 250 10 = 4 ∧ pngNbytes 3 5 1 = 2 ∧ pngBpp 3 1 = 1 ∧ pngBpp 4 8 = 4 := by decide
example : pngRow 5 1 [0] [7] = .error .pdfValue := by decide

/-- utils.apply_tiff_predictor: written with the translated `bpp`, `nbytes`, supported
BitsPerComponent, the `i >= bpp` test and the modulus. -/
theorem tiff_translated (colors columns bpc : Nat) (data : Bytes) (bpp : Nat) (raw : Bytes) (x : UInt8) (xs : Bytes) :
    apply_tiff_predictor colors columns bpc data =
      (if bpc != TIFF_BPC then .error .pdfValue
       else if tiffNbytes columns (tiffBpp colors bpc) == 0 then .error .valueError
       else tiffRows (tiffNbytes columns (tiffBpp colors bpc)) (tiffBpp colors bpc) data.length data) ∧
    tiffRow bpp raw (x :: xs) =
      tiffRow bpp (raw ++ [if tiffHasLeft raw.length bpp
        then UInt8.ofNat ((x.toNat + (raw.getD (raw.length - bpp) 0).toNat) % TIFF_MOD) else x]) xs := by
  constructor
  · by_cases h : bpc = 8
    · subst h; simp [apply_tiff_predictor]
    · simp [apply_tiff_predictor, h]
  · simp only [tiffRow, tiffHasLeft, TIFF_MOD]
    congr 2
    by_cases h : raw.length ≥ bpp <;> simp [h]
    apply UInt8.toNat_inj.mp
    rw [u8_add_toNat, toNat_ofNat_lt _ (Nat.mod_lt _ (by omega))]

example : apply_tiff_predictor 2 2 8 [1, 2, 3, 4] = .ok [1, 2, 4, 6] := by decide
example : tiffNbytes 3 (tiffBpp 2 8) = 6 ∧ tiffHasLeft 1 2 = false ∧ tiffHasLeft 2 2 = true := by decide

/-- ascii85.py: the regex sources are exactly the patterns `stripStart` / `stripEnd` / `isWs` implement
(`^\s*<?\s*~\s*`, `\s*~\s*>?\s*$`, `\s`), `base64.a85decode` is called with its default options, and
`asciihexdecode` is written with the translated EOD byte, pad digit and odd-length test. -/
theorem a85_ahx_translated (data : Bytes) :
    A85_START_RE = [94, 92, 115, 42, 60, 63, 92, 115, 42, 126, 92, 115, 42] ∧
    A85_END_RE = [92, 115, 42, 126, 92, 115, 42, 62, 63, 92, 115, 42, 36] ∧
    AHX_WS_RE = [92, 115] ∧
    A85DECODE_EXTRA_ARGS = 0 ∧
    asciihexdecode data =
      (let d := data.filter (fun b => !isWs b)
       let t := d.takeWhile (fun b => [b] != AHX_EOD)
       if t.length < d.length then unhexlify (if ahxNeedsPad t.length then t ++ AHX_PAD else t)
       else unhexlify d) := by
  exact ⟨by decide, by decide, by decide, rfl, rfl⟩

example : ahxNeedsPad 3 = true ∧ ahxNeedsPad 4 = false := by decide
example : asciihexdecode [52, 32, 49, 55, 62, 55] = .ok [0x41, 0x70] := by decide

/-- CPython's `base64.a85decode` (translated from the source of the running interpreter): it is called
with `foldspaces = adobe = False`; one iteration of the model's loop is the translated `if` chain
(digit range, group length, `85 * acc + (x - 33)`, the `z` group, `ignorechars`), and the model's
final step uses the translated padding bytes and `padding = 4 - len(curr)`. -/
theorem a85decode_translated (curr : List Nat) (x : UInt8) (rest b : Bytes) :
    A85_FOLDSPACES = false ∧ A85_ADOBE = false ∧
    a85loop curr (x :: rest) =
      (if a85IsDigit x.toNat then
         (if (curr ++ [x.toNat]).length == A85_GROUP then
            (if (curr ++ [x.toNat]).foldl a85Step 0 ≥ 4294967296 then .error .valueError
             else match a85loop [] rest with
               | .ok (out, c) => .ok (be32 ((curr ++ [x.toNat]).foldl a85Step 0) ++ out, c)
               | .error e => .error e)
          else a85loop (curr ++ [x.toNat]) rest)
       else if x.toNat == A85_Z then
         (if !curr.isEmpty then .error .valueError
          else match a85loop [] rest with
            | .ok (out, c) => .ok (A85_ZGROUP ++ out, c)
            | .error e => .error e)
       else if A85_IGNORECHARS.contains x then a85loop curr rest
       else .error .valueError) ∧
    a85decode b =
      (match a85loop [] (b ++ A85_PAD) with
       | .error e => .error e
       | .ok (res, curr) =>
         .ok (if a85Padding curr.length != 0 then res.take (res.length - a85Padding curr.length) else res)) := by
  refine ⟨rfl, rfl, ?_, ?_⟩
  · have hz : (x == 122) = decide (x.toNat = 122) := u8_beq_toNat x 122 (by omega)
    have hacc : ∀ l : List Nat, a85acc l = l.foldl a85Step 0 := fun l => rfl
    have hig : isA85Ignore x = A85_IGNORECHARS.contains x := by
      simp only [isA85Ignore, A85_IGNORECHARS, List.contains_cons, List.contains_nil, Bool.or_false, Bool.or_assoc]
    have hdig : a85IsDigit x.toNat = decide (33 ≤ x.toNat ∧ x.toNat ≤ 117) := by
      simp [a85IsDigit]
    simp only [a85loop, hz, hacc, hig, hdig, decide_eq_true_eq, beq_iff_eq, A85_GROUP, A85_Z, A85_ZGROUP]
    by_cases hd : 33 ≤ x.toNat ∧ x.toNat ≤ 117
    · simp only [hd, if_true, and_self]
      cases a85loop [] rest with
      | error e => rfl
      | ok p => rfl
    · simp only [hd, if_false]
      cases a85loop [] rest with
      | error e => rfl
      | ok p => rfl
  · simp only [a85decode, A85_PAD, a85Padding]
    cases a85loop [] (b ++ [117, 117, 117, 117]) with
    | error e => rfl
    | ok p => rfl

example : a85IsDigit 33 = true ∧ a85IsDigit 117 = true ∧ a85IsDigit 118 = false ∧ a85Step 1 34 = 86 ∧ a85Padding 2 = 2 := by decide

/-- pdftypes.py, `PDFStream._decode`: the predictor dispatch of the model is the translated
`if pred == 1 / elif pred == 2 / elif pred >= 10 / else` chain (0 = none, 1 = TIFF, 2 = PNG,
3 = `PDFNotImplementedError`) with the translated defaults of Colors / Columns / BitsPerComponent. -/
theorem predictor_translated (p : Parms) (pred : Nat) (data : Bytes) (hp : p.predictor = some pred) :
    applyPredictor (some p) data =
      (match predKind pred with
       | 0 => .ok data
       | 1 => apply_tiff_predictor (p.colors.getD PRED_TIFF_DEFAULTS.1) (p.columns.getD PRED_TIFF_DEFAULTS.2.1)
                (p.bpc.getD PRED_TIFF_DEFAULTS.2.2) data
       | 2 => apply_png_predictor (p.colors.getD PRED_PNG_DEFAULTS.1) (p.columns.getD PRED_PNG_DEFAULTS.2.1)
                (p.bpc.getD PRED_PNG_DEFAULTS.2.2) data
       | _ => .error .pdfNotImplemented) := by
  simp only [applyPredictor_lit, hp, predKind, PRED_TIFF_DEFAULTS, PRED_PNG_DEFAULTS]
  by_cases h1 : pred = 1
  · simp [h1]
  · by_cases h2 : pred = 2
    · simp [h2]
    · by_cases h3 : pred ≥ 10
      · simp [h1, h2, h3]
      · simp [h1, h2, h3]

example : predKind 1 = 0 ∧ predKind 2 = 1 ∧ predKind 10 = 2 ∧ predKind 15 = 2 ∧ predKind 3 = 3 ∧ predKind 0 = 3 := by decide
example : applyPredictor (some ⟨some 12, none, some 2, none⟩) [2, 1, 2, 2, 1, 1] = .ok [1, 2, 2, 3] := by decide

/-! ## Round 6: the whole `stream` branch — Length clamp, `endstream` scan, fallback mode

`streamRead` (tied to `PDFParser.do_keyword` on every run, fallback and non-fallback, any `Length`)
returns `rawdata` and the position the parser is left at.  `ENDSTREAM_MARK` and `streamClamp` are
regenerated from pdfparser.py. -/

/-- The `while 1` loop after the Length bytes passes over exactly `d` - for EVERY `d` in which the
first `endstream` of `d ++ endstream` is the final one (i.e. `d` does not contain the marker),
whatever line ends `d` contains, provided the marker's line is complete. -/
theorem stream_scan_delim (d q eol rest : Bytes) (k : Nat)
    (hd : findSub ENDSTREAM_MARK (d ++ ENDSTREAM_MARK) = some d.length)
    (hq : ∀ c ∈ q, c ≠ 10 ∧ c ≠ 13) (heol : EolOk eol rest) :
    scanEndstream (d.length + 1 + k) (d ++ ENDSTREAM_MARK ++ q ++ eol ++ rest) = d :=
  scan_delim _ d q eol rest (by omega) hd hq heol

/-- Non-fallback mode, `Length` = payload length: `rawdata` is exactly the payload - whatever bytes it
contains, `endstream` included - and the parser resumes exactly at the `endstream` keyword, whatever
(marker-free) bytes `tail` stand between the payload and the keyword (EOL, blanks, nothing). -/
theorem stream_read_exact (pre kw eol0 d tail q eol rest : Bytes)
    (hkw : ∀ c ∈ kw, c ≠ 10 ∧ c ≠ 13)
    (heol0 : EolOk eol0 (d ++ (tail ++ ENDSTREAM_MARK ++ q ++ eol ++ rest)))
    (htail : findSub ENDSTREAM_MARK (tail ++ ENDSTREAM_MARK) = some tail.length)
    (hq : ∀ c ∈ q, c ≠ 10 ∧ c ≠ 13) (heol : EolOk eol rest) :
    streamRead false (pre ++ kw ++ eol0 ++ (d ++ (tail ++ ENDSTREAM_MARK ++ q ++ eol ++ rest))) pre.length
        (some (d.length : Int))
      = .ok (d, pre.length + kw.length + eol0.length + d.length + tail.length) := by
  rw [streamRead_core false pre kw eol0 _ _ hkw heol0]
  have ho := objlen_exact d.length
    (pre ++ kw ++ eol0 ++ (d ++ (tail ++ ENDSTREAM_MARK ++ q ++ eol ++ rest))).length
    (pre.length + (kw ++ eol0).length) (by simp; omega)
  simp only [ho, List.take_left' rfl, List.drop_left' rfl, Bool.false_eq_true, if_false]
  rw [scan_delim _ tail q eol rest (by simp; omega) htail hq heol]
  simp [Nat.add_assoc]

example : streamRead false ([60, 60, 62, 62] ++ [115, 116, 114, 101, 97, 109] ++ [13, 10] ++
    ([101, 110, 100, 115, 116, 114, 101, 97, 109, 0, 10] ++ ([13, 10] ++ ENDSTREAM_MARK ++ [] ++ [10] ++ [101])))
    4 (some 11) = .ok ([101, 110, 100, 115, 116, 114, 101, 97, 109, 0, 10], 25) := by decide

/-- Fallback mode (the cross-reference table was rebuilt by scanning; `Length` is ignored, whatever
it is): `rawdata` is exactly the bytes between the keyword line and the first `endstream`, for every
marker-free `d`, and the parser resumes at the keyword. -/
theorem stream_fallback_delim (pre kw eol0 d q eol rest : Bytes) (len : Option Int)
    (hkw : ∀ c ∈ kw, c ≠ 10 ∧ c ≠ 13)
    (heol0 : EolOk eol0 (d ++ ENDSTREAM_MARK ++ q ++ eol ++ rest))
    (hd : findSub ENDSTREAM_MARK (d ++ ENDSTREAM_MARK) = some d.length)
    (hq : ∀ c ∈ q, c ≠ 10 ∧ c ≠ 13) (heol : EolOk eol rest) :
    streamRead true (pre ++ kw ++ eol0 ++ (d ++ ENDSTREAM_MARK ++ q ++ eol ++ rest)) pre.length len
      = .ok (d, pre.length + kw.length + eol0.length + d.length) := by
  rw [streamRead_core true pre kw eol0 _ _ hkw heol0]
  simp only [objlen_fallback, List.take_zero, List.drop_zero, if_true, List.nil_append]
  rw [scan_delim _ d q eol rest (by simp; omega) hd hq heol]
  simp [Nat.add_assoc]

example : streamRead true ([60, 60, 62, 62] ++ [115, 116, 114, 101, 97, 109] ++ [10] ++
    ([1, 13, 10, 13, 101, 110, 100, 10] ++ ENDSTREAM_MARK ++ [32] ++ [13, 10] ++ [])) 4 (some (-7))
    = .ok ([1, 13, 10, 13, 101, 110, 100, 10], 19) := by decide
example : findSub ENDSTREAM_MARK ([1, 13, 10, 13, 101, 110, 100, 10] ++ ENDSTREAM_MARK) = some 8 := by decide

/-- The hypothesis of the three theorems above in plain terms: it holds for EVERY byte string in
which `endstream` does not occur (at no offset `i` does the marker start) - `endstream` has no
border, so no occurrence can straddle the end of `d`. -/
theorem stream_marker_free (d : Bytes) (h : ∀ i, startsWith ENDSTREAM_MARK (d.drop i) = false) :
    findSub ENDSTREAM_MARK (d ++ ENDSTREAM_MARK) = some d.length :=
  findSub_of_free d h

example : ∀ i, i < 9 → startsWith ENDSTREAM_MARK (([101, 110, 100, 115, 116, 114, 101, 97] : Bytes).drop i) = false := by decide

/-- The scan's fuel (`file.length + 1` in `streamRead`) suffices: more fuel never changes the result. -/
theorem scan_fuel (s : Bytes) (k : Nat) : scanEndstream (s.length + 1 + k) s = scanEndstream (s.length + 1) s :=
  scan_fuel_aux _ _ s (by omega) (by omega)

example : scanEndstream 100 ([1, 10, 2] ++ ENDSTREAM_MARK ++ [10]) = [1, 10, 2] := by decide

/-- In non-fallback mode the payload of `streamRead` is the one of `streamPayload` (the function the
delimitation theorems `stream_delim*` are about), for every file, position and `Length`: the clamp
only ever cuts at the end of the file; a negative or missing `Length` reads nothing. -/
theorem stream_read_payload (file : Bytes) (pos : Nat) (len : Option Int) :
    (streamRead false file pos len).map Prod.fst = streamPayload file pos (len.getD 0).toNat := by
  unfold streamRead streamPayload
  cases nextline (file.drop pos) with
  | none => rfl
  | some line =>
    simp only [Except.map, Bool.false_eq_true, if_false, objlen_le]
    congr 1
    rw [List.take_eq_take_iff]
    simp

example : (streamRead false [115, 10, 1, 2, 3] 0 (some (-4))).map Prod.fst = .ok [] := by decide
example : (streamRead false [115, 10, 1, 2, 3] 0 (some 1000000)).map Prod.fst = .ok [1, 2, 3] := by decide
example : (streamRead false [115, 10, 1, 2, 3] 0 none).map Prod.fst = .ok [] := by decide

/-! ## Round 6: the keys of the stream dictionary -/

/-- The chain theorem through the stream dictionary: whichever of the keys `get_filters` reads
(`FILTER_KEYS` = `F`, `Filter`; `PARMS_KEYS` = `DP`, `DecodeParms`, `FDecodeParms` - regenerated from
pdftypes.py) carries the `Filter` array and the `DecodeParms` array of the chain, the stream decodes
to the payload. -/
theorem stream_keys_rt {inflate : Bytes → Bytes} (stages : List (Stage inflate)) (x z : Bytes)
    (h : ChainEncodes stages x z) (kf kp : Bytes) (hkf : kf ∈ FILTER_KEYS) (hkp : kp ∈ PARMS_KEYS) :
    streamDecodeDict inflate [(kf, .list (stages.map (·.filt.1)))] [(kp, .list (stages.map (·.filt.2)))] z = .ok x := by
  have hf : getAny FILTER_KEYS [(kf, FilterVal.list (stages.map (·.filt.1)))]
      = some (.list (stages.map (·.filt.1))) := by
    simp only [FILTER_KEYS, List.mem_cons, List.not_mem_nil, or_false] at hkf
    rcases hkf with rfl | rfl <;> rfl
  have hp : getAny PARMS_KEYS [(kp, ParmsVal.list (stages.map (·.filt.2)))]
      = some (.list (stages.map (·.filt.2))) := by
    simp only [PARMS_KEYS, List.mem_cons, List.not_mem_nil, or_false] at hkp
    rcases hkp with rfl | rfl | rfl <;> rfl
  simp only [streamDecodeDict, hf, hp, Option.getD_some]
  exact stream_chain_rt stages x z h

/-- `F` wins over `Filter`, `DP` over `DecodeParms` over `FDecodeParms`, unrelated keys are ignored. -/
example : streamFilters [([70, 105, 108, 116, 101, 114], .name [70, 108]), ([88], .name [1]), ([70], .name [65, 72, 120])]
    [([70, 68, 101, 99, 111, 100, 101, 80, 97, 114, 109, 115], .dict ⟨some 2, none, none, none⟩),
     ([68, 80], .dict ⟨some 12, none, none, none⟩)]
    = [([65, 72, 120], some ⟨some 12, none, none, none⟩)] := rfl

/-- Which key `get_filters` reads, for EVERY stream dictionary (any other keys, any order): `F` when
present, else `Filter`; `DP` when present, else `DecodeParms`, else `FDecodeParms`; else the default. -/
theorem dict_keys_priority {α β : Type} (fattrs : List (Bytes × α)) (pattrs : List (Bytes × β)) :
    getAny FILTER_KEYS fattrs =
      (match fattrs.find? (fun p => p.1 == [70]) with
       | some p => some p.2
       | none => match fattrs.find? (fun p => p.1 == [70, 105, 108, 116, 101, 114]) with
         | some p => some p.2
         | none => none) ∧
    getAny PARMS_KEYS pattrs =
      (match pattrs.find? (fun p => p.1 == [68, 80]) with
       | some p => some p.2
       | none => match pattrs.find? (fun p => p.1 == [68, 101, 99, 111, 100, 101, 80, 97, 114, 109, 115]) with
         | some p => some p.2
         | none => match pattrs.find? (fun p => p.1 == [70, 68, 101, 99, 111, 100, 101, 80, 97, 114, 109, 115]) with
           | some p => some p.2
           | none => none) := by
  constructor
  · simp only [FILTER_KEYS, getAny]
    cases fattrs.find? (fun p => p.1 == [70]) with
    | some p => rfl
    | none =>
      simp only []
      cases fattrs.find? (fun p => p.1 == [70, 105, 108, 116, 101, 114]) <;> rfl
  · simp only [PARMS_KEYS, getAny]
    cases pattrs.find? (fun p => p.1 == [68, 80]) with
    | some p => rfl
    | none =>
      simp only []
      cases pattrs.find? (fun p => p.1 == [68, 101, 99, 111, 100, 101, 80, 97, 114, 109, 115]) with
      | some p => rfl
      | none =>
        simp only []
        cases pattrs.find? (fun p => p.1 == [70, 68, 101, 99, 111, 100, 101, 80, 97, 114, 109, 115]) <;> rfl

/-- … hence the chain theorem for every stream dictionary whose winning keys carry the chain's arrays. -/
theorem stream_dict_rt {inflate : Bytes → Bytes} (stages : List (Stage inflate)) (x z : Bytes)
    (h : ChainEncodes stages x z) (fattrs : List (Bytes × FilterVal)) (pattrs : List (Bytes × ParmsVal))
    (hf : getAny FILTER_KEYS fattrs = some (.list (stages.map (·.filt.1))))
    (hp : getAny PARMS_KEYS pattrs = some (.list (stages.map (·.filt.2)))) :
    streamDecodeDict inflate fattrs pattrs z = .ok x := by
  simp only [streamDecodeDict, hf, hp, Option.getD_some]
  exact stream_chain_rt stages x z h

example : getAny FILTER_KEYS [([76], (1 : Nat)), ([70, 105, 108, 116, 101, 114], 2), ([70], 3)] = some 3 := by decide
example : getAny PARMS_KEYS [([70, 68, 101, 99, 111, 100, 101, 80, 97, 114, 109, 115], (1 : Nat)),
    ([68, 101, 99, 111, 100, 101, 80, 97, 114, 109, 115], 2)] = some 2 := by decide

/-! ## Round 6: `Length` direct or indirect -/

/-- `Length` direct or indirect: `int_value(dic["Length"])` gives the same value for the integer `n`
written in the dictionary and for a reference to an object that holds `n` (whatever else the file
defines); a reference to a missing object, to itself or to a non-integer gives 0 (non-strict). -/
theorem length_direct_indirect (objs : List (Nat × LenObj)) (id : Nat) (n : Int)
    (h : objs.find? (fun p => p.1 == id) = some (id, .int n)) :
    lengthValue objs (some (.ref id)) = lengthValue objs (some (.int n)) ∧
    lengthValue objs (some (.int n)) = some n ∧
    (∀ objs' id', objs'.find? (fun p => p.1 == id') = none → lengthValue objs' (some (.ref id')) = some 0) ∧
    lengthValue [(id, .ref id)] (some (.ref id)) = some 0 ∧
    lengthValue objs (some .other) = some 0 ∧ lengthValue objs none = none := by
  refine ⟨?_, ?_, fun o i hi => lengthValue_missing_obj o i hi, ?_, ?_, rfl⟩
  · rw [lengthValue_indirect objs id n h]; simp [lengthValue, resolveLen]
  · simp [lengthValue, resolveLen]
  · simp [lengthValue, resolveLen]
  · simp [lengthValue, resolveLen]

/-- The resolution loop's fuel suffices. -/
theorem length_resolve_fuel (objs : List (Nat × LenObj)) (x : LenObj) (k : Nat) :
    resolveLen (objs.length + 1 + k) objs x = resolveLen (objs.length + 1) objs x :=
  resolveLen_fuel _ _ objs x (by omega) (by omega)

/-- `stream_read_exact` with an indirect `Length`. -/
theorem stream_read_indirect (objs : List (Nat × LenObj)) (id : Nat)
    (pre kw eol0 d tail q eol rest : Bytes)
    (hlen : objs.find? (fun p => p.1 == id) = some (id, .int d.length))
    (hkw : ∀ c ∈ kw, c ≠ 10 ∧ c ≠ 13)
    (heol0 : EolOk eol0 (d ++ (tail ++ ENDSTREAM_MARK ++ q ++ eol ++ rest)))
    (htail : findSub ENDSTREAM_MARK (tail ++ ENDSTREAM_MARK) = some tail.length)
    (hq : ∀ c ∈ q, c ≠ 10 ∧ c ≠ 13) (heol : EolOk eol rest) :
    streamRead false (pre ++ kw ++ eol0 ++ (d ++ (tail ++ ENDSTREAM_MARK ++ q ++ eol ++ rest))) pre.length
        (lengthValue objs (some (.ref id)))
      = .ok (d, pre.length + kw.length + eol0.length + d.length + tail.length) := by
  rw [lengthValue_indirect objs id _ hlen]
  exact stream_read_exact pre kw eol0 d tail q eol rest hkw heol0 htail hq heol

example : lengthValue [(7, .ref 8), (8, .ref 9), (9, .int 5)] (some (.ref 7)) = some 5 := by decide
example : lengthValue [(7, .ref 8), (8, .ref 7)] (some (.ref 7)) = some 0 := by decide
example : lengthValue [(7, .int (-3)), (7, .int 4)] (some (.ref 7)) = some (-3) := by decide

/-! ## Round 6: from the file to the payload -/

/-- The property in one statement, from the bytes of the file to the payload: for every chain of
stages (any length, any of the five filters under full or abbreviated names, any predictor
setting), every payload `x` and every encoding `z` of it, a file that holds `z` between the keyword
line and `endstream` (any marker-free `tail` in between, `Length = |z|`) is read by the `stream`
branch as exactly `z`, which `PDFStream.decode` turns into exactly `x`. -/
theorem file_chain_rt {inflate : Bytes → Bytes} (stages : List (Stage inflate)) (x z : Bytes)
    (h : ChainEncodes stages x z) (pre kw eol0 tail q eol rest : Bytes)
    (hkw : ∀ c ∈ kw, c ≠ 10 ∧ c ≠ 13)
    (heol0 : EolOk eol0 (z ++ (tail ++ ENDSTREAM_MARK ++ q ++ eol ++ rest)))
    (htail : findSub ENDSTREAM_MARK (tail ++ ENDSTREAM_MARK) = some tail.length)
    (hq : ∀ c ∈ q, c ≠ 10 ∧ c ≠ 13) (heol : EolOk eol rest) :
    (streamRead false (pre ++ kw ++ eol0 ++ (z ++ (tail ++ ENDSTREAM_MARK ++ q ++ eol ++ rest))) pre.length
        (some (z.length : Int))).bind
      (fun r => streamDecode inflate (.list (stages.map (·.filt.1))) (.list (stages.map (·.filt.2))) r.1)
      = .ok x := by
  rw [stream_read_exact pre kw eol0 z tail q eol rest hkw heol0 htail hq heol]
  exact stream_chain_rt stages x z h

example : (streamRead false ([60, 60, 62, 62] ++ [115, 116, 114, 101, 97, 109] ++ [13, 10] ++
      (ahxEnc [1, 2] 0 (pngEnc 2 2 8 [4] [[1, 2, 3, 4]]) ++ ([10] ++ ENDSTREAM_MARK ++ [] ++ [10] ++ [101]))) 4
      (some ((ahxEnc [1, 2] 0 (pngEnc 2 2 8 [4] [[1, 2, 3, 4]])).length : Int))).bind
    (fun r => streamDecode id (.list [[65, 72, 120], [70, 108]])
      (.list [none, some { predictor := some 12, colors := some 2, columns := some 2, bpc := none }]) r.1)
    = .ok [1, 2, 3, 4] := by decide

/-! ## The pinned code (before the two `fix:` commits) violates the property

`apply_png_predictor` of the pinned tree started with `line_above = columns` zero bytes and used
`nbytes = colors*columns*bpc // 8`, `bpp = colors*bpc // 8`.  The model's row loop with those
parameters reproduces the two defects on the minimised corpus inputs. -/

/-- Pinned defect 1 (corpus/C03/png-first-row-up-colors2.json): 2 colours, 2 columns, first row
filter Up - the row comes back truncated to `columns` bytes. -/
theorem png_pinned_first_row_cex :
    pngRows 4 2 8 (List.replicate 2 0) (pngEnc 2 2 8 [2] [[1, 2, 3, 4]]) ≠ .ok [1, 2, 3, 4] := by decide

/-- … and Average/Paeth on the first row raise IndexError (corpus/C03/png-first-row-paeth-colors3.json). -/
theorem png_pinned_first_row_paeth_cex :
    pngRows 6 3 12 (List.replicate 2 0) (pngEnc 3 2 8 [4] [[10, 20, 30, 40, 50, 60]]) = .error .indexError := by decide

/-- Pinned defect 2 (corpus/C03/png-bpc1-rowlen.json): 9 columns of 1 bit are 2 bytes per row, the
pinned code used 9 // 8 = 1 and so split the data at the wrong offsets. -/
theorem png_pinned_bpc1_cex :
    pngRows 1 1 6 (List.replicate 1 0) (pngEnc 1 9 1 [0, 2] [[0xff, 0x80], [0xaa, 0x00]])
      ≠ .ok [0xff, 0x80, 0xaa, 0x00] := by decide

end PdfVerif.Props.C03
