/-
C03 — Stream payloads and filter chains decode to exactly the original bytes.

Decoders/predictors/pipeline/stream delimitation: hand model `PdfVerif.Model.Filters`
(correspondence-checked against pdfminer by tools/harness/props/c03.py), with
`paeth_predictor` and the filter-name tuples regenerated from the Python source
(`PdfVerif.Gen.Filters`).  Encoders: `PdfVerif.Spec.FilterEnc` (twins of the Python reference
encoders).  Only property theorems live here; helper lemmas are in `Lemmas/Filters*.lean`.
-/
import PdfVerif.Lemmas.FiltersPred

namespace PdfVerif.Props.C03
open PdfVerif PdfVerif.Filters PdfVerif.FilterEnc PdfVerif.Gen.Filters

/-! ## Predictors -/

/-- PNG predictor: for every geometry with 8 or 1 bits per component, every list of rows of the
row length and EVERY assignment of the five filter types to the rows (first row included),
the repaired `apply_png_predictor` returns exactly the rows. -/
theorem png_rt (colors columns bpc : Nat) (hbpc : bpc = 8 ∨ bpc = 1) (rows : List Bytes) (fts : List Nat)
    (hrows : ∀ r ∈ rows, r.length = pngNbytes colors columns bpc) (hlen : fts.length = rows.length)
    (hfts : ∀ f ∈ fts, f ≤ 4) :
    apply_png_predictor colors columns bpc (pngEnc colors columns bpc fts rows) = .ok rows.flatten := by
  have hb : (bpc != 8 && bpc != 1) = false := by rcases hbpc with rfl | rfl <;> rfl
  unfold apply_png_predictor pngEnc
  rw [hb]
  simp only [Bool.false_eq_true, if_false]
  exact pngRows_rt _ _ (by unfold pngBpp; omega) rows fts _ _ hrows hlen hfts (by simp) (Nat.le_refl _)

/-- Per row filter: a single row with filter type `ft` on the FIRST row (prior row all zero) —
the case the pinned code got wrong for `colors > 1` (Up/Average/Paeth) and for `bpc = 1`. -/
theorem png_first_row_rt (colors columns bpc ft : Nat) (hbpc : bpc = 8 ∨ bpc = 1) (hft : ft ≤ 4) (row : Bytes)
    (hrow : row.length = pngNbytes colors columns bpc) :
    apply_png_predictor colors columns bpc (pngEnc colors columns bpc [ft] [row]) = .ok row := by
  have h := png_rt colors columns bpc hbpc [row] [ft] (by simpa using hrow) rfl (by simpa using hft)
  simpa using h

/-- TIFF predictor 2 (8 bits per component): rows of `columns * colors` bytes. -/
theorem tiff_rt (colors columns : Nat) (hc : 0 < colors) (hw : 0 < columns) (rows : List Bytes)
    (hrows : ∀ r ∈ rows, r.length = columns * colors) :
    apply_tiff_predictor colors columns 8 (tiffEnc colors rows) = .ok rows.flatten := by
  have hn : 0 < columns * colors := Nat.mul_pos hw hc
  have h0 : (columns * colors == 0) = false := by simp; omega
  unfold apply_tiff_predictor
  simp only [h0]
  exact tiffRows_rt _ _ hc hn rows _ hrows (Nat.le_refl _)

/-- Non-vacuity: two colours, three columns, first row Paeth then Average. -/
example : apply_png_predictor 2 3 8 (pngEnc 2 3 8 [4, 3] [[1, 2, 3, 4, 5, 6], [9, 8, 7, 6, 5, 200]])
    = .ok [1, 2, 3, 4, 5, 6, 9, 8, 7, 6, 5, 200] := by decide
/-- Non-vacuity at one bit per component: 9 columns = 2 bytes per row. -/
example : apply_png_predictor 1 9 1 (pngEnc 1 9 1 [1, 2] [[0xff, 0x80], [0xaa, 0x00]])
    = .ok [0xff, 0x80, 0xaa, 0x00] := by decide

end PdfVerif.Props.C03
