/-
C11 — property theorems (model: Model/Convert.lean + regenerated Gen/ConvertXml.lean, Gen/ConvertCtl.lean;
spec: Spec/Xml.lean).
-/
import PdfVerif.Lemmas.XmlDoc
import PdfVerif.Lemmas.Format
import PdfVerif.Lemmas.XmlInj
import PdfVerif.Lemmas.ConvertCodec

namespace PdfVerif.Props.C11
open PdfVerif PdfVerif.Convert PdfVerif.Xml

/-! ## Text output = in-order text of the hierarchy -/

mutual
theorem text_item (i : Item) : (textWrites i).flatten = specTextItem i := by
  cases i <;> simp [textWrites, specTextItem, text_items, Gen.ConvertXml.t_text_box_end]
theorem text_items (is : List Item) : (textWritesL is).flatten = specTextL is := by
  cases is with
  | nil => simp [textWritesL, specTextL]
  | cons i is => simp [textWritesL, specTextL, text_item, text_items]
end

/-- What a text sink receives from `TextConverter` for a document = the in-order concatenation of the
text of the layout hierarchy, one line break after each text box, one form feed after each page. -/
theorem C11_text (ps : List Page) : sinkText (textDocWrites ps) = specText ps := by
  induction ps with
  | nil => rfl
  | cons p ps ih =>
    simp only [sinkText, textDocWrites, specText, List.flatMap_cons, List.flatten_append] at ih ⊢
    rw [ih]
    simp [textPageWrites, specTextPage, text_items, Gen.ConvertXml.t_text_page_end]


example : sinkText (textDocWrites
    [⟨['1'], [], ['0'], [.textbox ['0'] [] false [.textline [] [.char [] [] [] [] [] ['<', 'a'], .anno ['\n']]],
                        .figure ['"'] [] [.char [] [] [] [] [] ['&']]], none⟩])
    = ['<', 'a', '\n', '\n', '&', '\x0c'] := by decide

/-! ### every `showpageno` choice, and raw glyph mode (`laparams=None`) -/

/-- For every tree and BOTH `showpageno` choices: what a text sink receives from `TextConverter` = per page the
optional `Page <id>` header, the in-order text of the hierarchy, one form feed.  The header is the template
regenerated from `receive_layout`; the translator checks that it is written under `if self.showpageno:` before
`render(ltpage)`. -/
theorem C11_text_pageno (showpageno : Bool) (ps : List Page) :
    sinkText (textDocWritesPn showpageno ps) = specTextPn showpageno ps := by
  induction ps with
  | nil => rfl
  | cons p ps ih =>
    simp only [sinkText, textDocWritesPn, specTextPn, List.flatMap_cons, List.flatten_append] at ih ⊢
    rw [ih]
    cases showpageno <;>
      simp [textPageWritesPn, specTextPage, specPageHeader, text_items, Gen.ConvertXml.t_text_page_end,
        Gen.ConvertXml.t_text_page_no]

/-- without `showpageno` (every path of `high_level`) this is the output `C11_text` speaks about -/
theorem C11_text_pageno_off (ps : List Page) :
    textDocWritesPn false ps = textDocWrites ps ∧ specTextPn false ps = specText ps := by
  constructor
  · have h : textPageWritesPn false = textPageWrites := by
      funext p; simp [textPageWritesPn, textPageWrites]
    simp [textDocWritesPn, textDocWrites, h]
  · have h : (fun p => specPageHeader false p ++ specTextPage p) = specTextPage := by
      funext p; simp [specPageHeader]
    simp [specTextPn, specText, h]

mutual
theorem raw_item (i : Item) (h : noBox i = true) : specTextItem i = glyphText i := by
  cases i <;> simp_all [noBox, specTextItem, glyphText, raw_items]
theorem raw_items (is : List Item) (h : noBoxL is = true) : specTextL is = glyphTextL is := by
  cases is with
  | nil => rfl
  | cons i is =>
    simp only [noBoxL, Bool.and_eq_true] at h
    simp [specTextL, glyphTextL, raw_item i h.1, raw_items is h.2]
end

/-- Raw glyph mode (`laparams=None`: no layout analysis, so no text box anywhere in the tree): the output is the
glyph texts in order and the form feed per page (after the optional header) - no character is added. -/
theorem C11_text_raw (showpageno : Bool) (ps : List Page) (h : ∀ p ∈ ps, noBoxL p.kids = true) :
    sinkText (textDocWritesPn showpageno ps) =
      ps.flatMap (fun p => specPageHeader showpageno p ++ glyphTextL p.kids ++ ['\x0c']) := by
  rw [C11_text_pageno]
  induction ps with
  | nil => rfl
  | cons p ps ih =>
    simp only [specTextPn, List.flatMap_cons] at ih ⊢
    rw [ih (fun q hq => h q (by simp [hq]))]
    simp [specTextPage, raw_items p.kids (h p (by simp))]

example : sinkText (textDocWritesPn true
    [⟨['7'], [], ['0'], [.textbox ['0'] [] false [.textline [] [.char [] [] [] [] [] ['a'], .anno ['\n']]]], none⟩,
     ⟨['8'], [], ['0'], [.char [] [] [] [] [] ['b'], .figure [] [] [.char [] [] [] [] [] ['c']]], none⟩])
    = ['P', 'a', 'g', 'e', ' ', '7', '\n', 'a', '\n', '\n', '\x0c', 'P', 'a', 'g', 'e', ' ', '8', '\n', 'b', 'c', '\x0c'] := by
  decide

example : noBoxL [.char [] [] [] [] [] ['b'], .figure [] [] [.char [] [] [] [] [] ['c'], .image [] [] none]] = true ∧
    noBoxL [.figure [] [] [.textbox [] [] false []]] = false := by decide

/-! ## Sinks: a binary sink decoded with its codec = the characters a text sink receives -/

/-- For every codec (an incremental encoder as a state machine, with ANY decoder that inverts
whole-stream encoding) and every sequence of writes whose characters the codec can represent: the binary
sink receives bytes that decode to exactly the characters a text sink receives - whatever the error
policy (`ignore` = TextConverter, strict = XMLConverter) and however the output is cut into writes. -/
theorem C11_sink {σ : Type} (c : Codec σ) (decode : Bytes → Option Str)
    (hinv : ∀ s st bs, c.encodePiece false c.init s = some (st, bs) → decode bs = some s)
    (ignore : Bool) (writes : List Str)
    (hrep : (c.encodePiece false c.init writes.flatten).isSome) :
    ∃ bs, sinkBinary c ignore writes = some bs ∧ decode bs = some (sinkText writes) := by
  obtain ⟨⟨st, bs⟩, hr⟩ := Option.isSome_iff_exists.mp hrep
  refine ⟨bs, ?_, hinv _ st bs hr⟩
  rw [sinkBinary, sinkBinaryFrom_eq]
  cases ignore with
  | false => simp [hr]
  | true => simp [encodePiece_ignore c c.init _ _ hr]

/-- text output into a binary sink, decoded = the in-order text of the hierarchy -/
theorem C11_sink_text {σ : Type} (c : Codec σ) (decode : Bytes → Option Str)
    (hinv : ∀ s st bs, c.encodePiece false c.init s = some (st, bs) → decode bs = some s)
    (ps : List Page) (hrep : (c.encodePiece false c.init (specText ps)).isSome) :
    ∃ bs, sinkBinary c true (textDocWrites ps) = some bs ∧ decode bs = some (specText ps) := by
  have h := C11_sink c decode hinv true (textDocWrites ps)
    (by have := C11_text ps; simp only [sinkText] at this; rw [this]; exact hrep)
  rw [C11_text] at h
  exact h

/-- the same for a converter constructed with `showpageno` -/
theorem C11_sink_text_pageno {σ : Type} (c : Codec σ) (decode : Bytes → Option Str)
    (hinv : ∀ s st bs, c.encodePiece false c.init s = some (st, bs) → decode bs = some s)
    (showpageno : Bool) (ps : List Page) (hrep : (c.encodePiece false c.init (specTextPn showpageno ps)).isSome) :
    ∃ bs, sinkBinary c true (textDocWritesPn showpageno ps) = some bs ∧
      decode bs = some (specTextPn showpageno ps) := by
  have h := C11_sink c decode hinv true (textDocWritesPn showpageno ps)
    (by have := C11_text_pageno showpageno ps; simp only [sinkText] at this; rw [this]; exact hrep)
  rw [C11_text_pageno] at h
  exact h

/-- xml output into a binary sink, decoded = the characters a text sink receives for the same header -/
theorem C11_sink_xml {σ : Type} (c : Codec σ) (decode : Bytes → Option Str)
    (hinv : ∀ s st bs, c.encodePiece false c.init s = some (st, bs) → decode bs = some s)
    (strip : Bool) (codec : Option Str) (ps : List Page)
    (hrep : (c.encodePiece false c.init (xmlDocWrites strip codec ps).flatten).isSome) :
    ∃ bs, sinkBinary c false (xmlDocWrites strip codec ps) = some bs ∧
      decode bs = some (sinkText (xmlDocWrites strip codec ps)) :=
  C11_sink c decode hinv false _ hrep

/-- non-vacuity: a two-byte big-endian toy codec (stateless after a one-time byte-order mark) -/
def toyCodec : Codec Bool where
  init := false
  step := fun started ch =>
    if ch.toNat < 65536 then
      some (true, (if started then [] else [0xFE, 0xFF]) ++ [UInt8.ofNat (ch.toNat / 256), UInt8.ofNat (ch.toNat % 256)])
    else none

example : sinkBinary toyCodec false [['a'], ['<', 'b']] = some [0xFE, 0xFF, 0, 97, 0, 60, 0, 98] := by decide

/-! ### a concrete stateful encoder: `utf-32` (pending byte-order mark), no hypothesis left

`utf32Codec` (Model/ConvertCodec.lean) is the state machine of `codecs.getincrementalencoder("utf-32")`: the
byte-order mark before the first character, 4 little-endian bytes per character.  The driver op `textbin` /
`xmlbin` compares the model's sink with the real `BytesIO` contents byte by byte on every run, `utf32dec` runs
the decoder below on the implementation's bytes. -/

/-- For EVERY sequence of writes and both error policies the `utf-32` binary sink receives bytes that decode
(one byte-order mark, then the code points) to exactly the concatenation of the writes: concatenated writes
decode to concatenated text, however the output is cut into writes. -/
theorem C11_sink_utf32 (ignore : Bool) (writes : List Str) :
    ∃ bs, sinkBinary utf32Codec ignore writes = some bs ∧ utf32Decode bs = some (sinkText writes) :=
  C11_sink utf32Codec utf32Decode utf32_inv ignore writes
    (encodePiece_total utf32Codec (fun _ _ => rfl) false _ _)

/-- text output, `utf-32` binary sink, every tree and `showpageno` choice: decodes to the specified text -/
theorem C11_sink_utf32_text (showpageno : Bool) (ps : List Page) :
    ∃ bs, sinkBinary utf32Codec true (textDocWritesPn showpageno ps) = some bs ∧
      utf32Decode bs = some (specTextPn showpageno ps) := by
  have h := C11_sink_utf32 true (textDocWritesPn showpageno ps)
  rwa [C11_text_pageno] at h

/-- the same for `utf-16`: byte-order mark once, little-endian code units, surrogate pairs for astral
characters - a variable-length encoding whose pieces may be cut anywhere between characters -/
theorem C11_sink_utf16 (ignore : Bool) (writes : List Str) :
    ∃ bs, sinkBinary (utf16Codec true false) ignore writes = some bs ∧ utf16Decode bs = some (sinkText writes) :=
  C11_sink (utf16Codec true false) utf16Decode utf16_inv ignore writes
    (encodePiece_total (utf16Codec true false) (fun _ _ => rfl) false _ _)

theorem C11_sink_utf16_text (showpageno : Bool) (ps : List Page) :
    ∃ bs, sinkBinary (utf16Codec true false) true (textDocWritesPn showpageno ps) = some bs ∧
      utf16Decode bs = some (specTextPn showpageno ps) := by
  have h := C11_sink_utf16 true (textDocWritesPn showpageno ps)
  rwa [C11_text_pageno] at h

example : sinkBinary (utf16Codec true false) false [['a'], [], [Char.ofNat 0x1F600]] =
    some [0xFF, 0xFE, 97, 0, 0x3D, 0xD8, 0x00, 0xDE] := by decide

example : utf16Decode [0xFF, 0xFE, 0x3D, 0xD8, 0x00, 0xDE] = some [Char.ofNat 0x1F600] ∧
    utf16Decode [0xFF, 0xFE, 0x3D, 0xD8] = none ∧ utf16Decode [0xFF, 0xFE, 0x00, 0xDE] = none ∧
    utf16Decode [97, 0] = none := by decide

example : sinkBinary utf32Codec false [['a'], [], ['b']] =
    some [0xFF, 0xFE, 0, 0, 97, 0, 0, 0, 98, 0, 0, 0] := by decide

example : utf32Decode [0xFF, 0xFE, 0, 0, 0x00, 0xF6, 0x01, 0] = some [Char.ofNat 0x1F600] ∧
    utf32Decode [97, 0, 0, 0] = none ∧ utf32Decode [0xFF, 0xFE, 0, 0, 0, 0xD8, 0, 0] = none := by decide

/-! ## Escaping -/

/-- `enc` leaves none of `< > " '` raw (every `&` it writes starts a reference, see `esc_unesc`). -/
theorem esc_safe (s : Str) : ∀ c ∈ enc s, c ≠ '<' ∧ c ≠ '>' ∧ c ≠ '"' ∧ c ≠ '\'' := enc_safe s

/-- A conforming reader gets back exactly the string `enc` was given (character data position). -/
theorem esc_unesc (s : Str) (hs : ∀ c ∈ s, isXmlChar c = true ∧ c ≠ '\r') : unescape false (enc s) = some s := by
  have h1 : enc s = s.flatMap textChar := by
    simp only [enc]
    induction s with
    | nil => rfl
    | cons c s ih =>
      simp only [List.flatMap_cons, textChar_of_ne_cr c (hs c (by simp)).2]
      rw [ih (fun d hd => hs d (by simp [hd]))]
  have := unesc_flatMap_textChar s (fun c hc => (hs c hc).1) []
  simp only [List.append_nil] at this
  simp [unescape, h1, this, unescGo]

/-- Attribute position: what `XMLConverter.attr` writes reads back as the (optionally control-stripped)
name - including TAB, LF, CR, which a reader would otherwise normalise to spaces - and contains neither
`"` nor `<`. -/
theorem esc_unesc_attr (strip : Bool) (s : Str) (hs : ∀ c ∈ maybeStrip strip s, isXmlChar c = true) :
    unescape true (attr strip s) = some (maybeStrip strip s) ∧ ∀ c ∈ attr strip s, c ≠ '"' ∧ c ≠ '<' := by
  refine ⟨?_, fun c hc => ⟨(attr_safe strip s c hc).2.1, (attr_safe strip s c hc).1⟩⟩
  have := unesc_flatMap_attrChar (maybeStrip strip s) hs []
  simp only [List.append_nil] at this
  simp [unescape, attr_eq, this, unescGo]

/-- Character data position: what `XMLConverter.write_text` writes reads back as the (optionally
control-stripped) text - including CR - and contains no `<`. -/
theorem esc_unesc_text (strip : Bool) (s : Str) (hs : ∀ c ∈ maybeStrip strip s, isXmlChar c = true) :
    unescape false (writeText strip s) = some (maybeStrip strip s) ∧ ∀ c ∈ writeText strip s, c ≠ '<' := by
  refine ⟨?_, fun c hc => (writeText_safe strip s c hc).1⟩
  have := unesc_flatMap_textChar (maybeStrip strip s) hs []
  simp only [List.append_nil] at this
  simp [unescape, writeText_eq, this, unescGo]

/-! ### the escaping layer alone, for EVERY string

`unescAny` replaces references and does nothing else (no XML `Char` check, no normalisation).  For every string
of Unicode scalar values - C0 controls, U+FFFE/U+FFFF, astral characters included - what `enc`, `attr` and
`write_text` produce reads back as the (optionally stripped) string: escaping never loses or merges anything,
independently of whether XML 1.0 can carry the characters (that is what `esc_unesc_*` + `strip_legal` add).
(Python `str`s with lone surrogates are not sequences of scalar values; outside the alphabet, see docs.) -/

theorem esc_roundtrip_all (s : Str) : unescAny (enc s) = some s := by
  simpa [unescAny, enc] using unescAny_flatMap encChar unescAny_encChar s

theorem attr_roundtrip_all (strip : Bool) (s : Str) : unescAny (attr strip s) = some (maybeStrip strip s) := by
  simpa [unescAny, attr_eq] using unescAny_flatMap attrChar unescAny_attrChar (maybeStrip strip s)

theorem text_roundtrip_all (strip : Bool) (s : Str) : unescAny (writeText strip s) = some (maybeStrip strip s) := by
  simpa [unescAny, writeText_eq] using unescAny_flatMap textChar unescAny_textChar (maybeStrip strip s)

/-- hence escaping is injective: two names / texts with the same escaped form are the same after stripping -/
theorem esc_injective_all (strip : Bool) (s t : Str) :
    (attr strip s = attr strip t → maybeStrip strip s = maybeStrip strip t) ∧
    (writeText strip s = writeText strip t → maybeStrip strip s = maybeStrip strip t) ∧
    (enc s = enc t → s = t) := by
  refine ⟨fun h => ?_, fun h => ?_, fun h => ?_⟩
  · have := attr_roundtrip_all strip s; rw [h, attr_roundtrip_all] at this; exact (Option.some.inj this).symm
  · have := text_roundtrip_all strip s; rw [h, text_roundtrip_all] at this; exact (Option.some.inj this).symm
  · have := esc_roundtrip_all s; rw [h, esc_roundtrip_all] at this; exact (Option.some.inj this).symm

example : unescAny (attr false ['\x00', '&', 'a', 'm', 'p', ';', '\t', Char.ofNat 0xFFFE, Char.ofNat 0x1F600, '\x1b']) =
    some ['\x00', '&', 'a', 'm', 'p', ';', '\t', Char.ofNat 0xFFFE, Char.ofNat 0x1F600, '\x1b'] := by decide

example : unescape true (attr false ['\x00']) = none := by decide   -- XML itself cannot carry it: strip_control

/-- with strip_control every C0 control character other than TAB/LF/CR is gone, so the hypothesis of the
two theorems above holds for every string of XML characters and C0 controls -/
theorem strip_legal (s : Str) (hs : ∀ c ∈ s, isXmlChar c = true ∨ c.toNat < 32) :
    ∀ c ∈ maybeStrip true s, isXmlChar c = true := by
  intro c hc
  simp only [maybeStrip, if_true, stripControl, List.mem_filter] at hc
  obtain ⟨hm, hctl⟩ := hc
  rcases hs c hm with h | h
  · exact h
  · simp only [isControl, Gen.ConvertCtl.CONTROL, List.any_cons, List.any_nil, Bool.or_false, Bool.not_eq_true',
      Bool.or_eq_false_iff, Bool.and_eq_false_iff, decide_eq_false_iff_not] at hctl
    simp only [isXmlChar, Bool.or_eq_true, decide_eq_true_eq, Bool.and_eq_true]
    omega

example : unescape true (attr true ['a', '"', '<', '\x01', '\t', '&', '\'']) = some ['a', '"', '<', '\t', '&', '\''] := by
  decide

/-! ## XML output is well-formed and is the hierarchy

Domain (`PageOk strip p`, decidable per tree and checked by the harness on every generated tree): every
document-controlled string (font name, XObject name, glyph text) consists, after the optional CONTROL
stripping, of XML 1.0 `Char`s (`Legal (maybeStrip strip s)`; by `strip_legal` this holds with
strip_control for every string of XML characters and C0 controls); every formatted number / fixed name
(bbox, size, colour, ids) is `Plain` (XML characters other than `& < "` TAB LF CR), LTAnno text is
`TextPlain` (XML characters other than `& <` CR; pdfminer only creates " " and LF); the codec
name written into the declaration contains no `?`. -/

/-- The reader's lexer inverts the rendering of EVERY well-formed token sequence. -/
theorem C11_xml_lex (ts : List Tok) (h : ∀ t ∈ ts, TokOk t) :
    lexRaw (ts.flatMap renderTok) = some ts := lex_render ts h

/-- **Well-formed and faithful.** For every list of pages in the domain, every strip_control choice and
every declared codec: the characters `XMLConverter` writes (header, one `receive_layout` per page, footer -
built from the templates regenerated from converter.py) are accepted by the XML 1.0 reader, and what it
reads is exactly the skeleton of the hierarchy: the same elements in the same nesting and order, with the
tree's bounding boxes, fonts, sizes, colours, ids, names and character data (unescaped) as attribute
values / character data. -/
theorem C11_xml_wf (strip : Bool) (codec : Option Str) (ps : List Page) (hc : CodecNameOk codec)
    (h : ∀ p ∈ ps, PageOk strip p) :
    parseXML (sinkText (xmlDocWrites strip codec ps)) = some (docSkeleton strip ps) :=
  parseXML_doc strip codec ps hc h

/-- non-vacuity: a page with a figure whose name needs every kind of escape, a glyph whose font name and
text contain control characters (strip_control on), a vertical text box and a layout group -/
def demoPage : Page := ⟨['1'], ['0', ',', '0'], ['0'],
  [.figure ['a', '"', '<', '&', '\t', '\x01'] ['1'] [.image ['2'] ['3'] none, .image ['2'] ['3'] (some ['x', '\x02', '&', '.', 'b', 'm', 'p'])],
   .textbox ['0'] ['4'] true [.textline ['5'] [.char ['F', '\x0b', '\''] ['6'] ['G'] ['N'] ['7'] ['<', '\r', '\x00'],
                                             .anno ['\n']]],
   .curve ['0'] ['8'] ['9']],
  some [.group ['1'] [.box ['0'] ['4']]]⟩

example : parseXML (sinkText (xmlDocWrites true (some ['u', 't', 'f', '-', '8']) [demoPage]))
    = some (docSkeleton true [demoPage]) := by
  apply C11_xml_wf
  · intro c hc; revert c; decide
  · intro p hp
    simp only [List.mem_singleton] at hp
    subst hp
    simp only [PageOk, demoPage, ItemOk, ItemsOk, GroupsOk, GroupOk, Plain, Legal, TextPlain]
    decide

/-! ### The XML output determines the hierarchy (injectivity of the rendering)

`stripPage strip` is the tree with `CONTROL.sub` applied to the strings the converter strips (font name, glyph
text, figure name, exported image name) - the identity without strip_control.  Numbers are the formatted fields,
so "equal" is equality up to number formatting. -/

/-- the skeleton with strip_control is the skeleton of the stripped tree -/
theorem C11_skeleton_strip (strip : Bool) (ps : List Page) :
    docSkeleton strip ps = docSkeleton false (ps.map (stripPage strip)) := docSkeleton_strip strip ps

/-- Two hierarchies with the same skeleton are the same hierarchy (after the optional stripping): element
names, attributes, character data and nesting leave nothing of the tree undetermined. -/
theorem C11_skeleton_injective (strip : Bool) (ps qs : List Page)
    (h : docSkeleton strip ps = docSkeleton strip qs) :
    ps.map (stripPage strip) = qs.map (stripPage strip) := by
  rw [docSkeleton_strip strip ps, docSkeleton_strip strip qs] at h
  exact docSkeleton_inj _ _ h

/-- **Faithful = injective.** If `XMLConverter` writes the same characters for two hierarchies in the domain
(whatever the declared codecs), the hierarchies are equal after the optional CONTROL stripping; without
strip_control they are equal.  Together with `C11_xml_wf`: a reader recovers exactly one tree from the output. -/
theorem C11_xml_injective (strip : Bool) (codec codec' : Option Str) (ps qs : List Page)
    (hc : CodecNameOk codec) (hc' : CodecNameOk codec')
    (hp : ∀ p ∈ ps, PageOk strip p) (hq : ∀ p ∈ qs, PageOk strip p)
    (h : sinkText (xmlDocWrites strip codec ps) = sinkText (xmlDocWrites strip codec' qs)) :
    ps.map (stripPage strip) = qs.map (stripPage strip) := by
  have h1 := C11_xml_wf strip codec ps hc hp
  have h2 := C11_xml_wf strip codec' qs hc' hq
  rw [h, h2] at h1
  exact (C11_skeleton_injective strip qs ps (Option.some.inj h1)).symm

theorem C11_xml_injective_nostrip (codec codec' : Option Str) (ps qs : List Page)
    (hc : CodecNameOk codec) (hc' : CodecNameOk codec')
    (hp : ∀ p ∈ ps, PageOk false p) (hq : ∀ p ∈ qs, PageOk false p)
    (h : sinkText (xmlDocWrites false codec ps) = sinkText (xmlDocWrites false codec' qs)) : ps = qs := by
  have := C11_xml_injective false codec codec' ps qs hc hc' hp hq h
  have e : ∀ l : List Page, l.map (stripPage false) = l := fun l => by
    induction l with
    | nil => rfl
    | cons p l ih => simp [stripPage_false, ih]
  rwa [e, e] at this

/-- non-vacuity: two pages that differ in one LTAnno (space / line break) - both in the domain - cannot have the
same output; with strip_control two glyph texts that differ only in a stripped control character are identified -/
def pgA : Page := ⟨['1'], ['0'], ['0'], [.anno [' ']], none⟩
def pgB : Page := ⟨['1'], ['0'], ['0'], [.anno ['\n']], none⟩

example : sinkText (xmlDocWrites false none [pgA]) ≠ sinkText (xmlDocWrites false none [pgB]) := by
  intro h
  have := C11_xml_injective_nostrip none none [pgA] [pgB] trivial trivial
    (by intro p hp; simp only [List.mem_singleton] at hp; subst hp
        simp only [PageOk, pgA, ItemOk, ItemsOk, Plain, TextPlain]; decide)
    (by intro p hp; simp only [List.mem_singleton] at hp; subst hp
        simp only [PageOk, pgB, ItemOk, ItemsOk, Plain, TextPlain]; decide) h
  simp [pgA, pgB] at this

example : stripPage true ⟨['1'], ['0'], ['0'], [.char ['F'] [] [] [] [] ['a', '\x01']], none⟩ =
    stripPage true ⟨['1'], ['0'], ['0'], [.char ['F', '\x02'] [] [] [] [] ['a']], none⟩ := by
  simp [stripPage, stripItemL, stripItem]; decide

/-- end to end through a stateful binary sink: the bytes `XMLConverter` writes into a `utf-32` sink, decoded and
read by the XML reader, are the skeleton of the hierarchy -/
theorem C11_xml_wf_utf32 (strip : Bool) (codec : Option Str) (ps : List Page) (hc : CodecNameOk codec)
    (h : ∀ p ∈ ps, PageOk strip p) :
    ∃ bs, sinkBinary utf32Codec false (xmlDocWrites strip codec ps) = some bs ∧
      (utf32Decode bs).bind parseXML = some (docSkeleton strip ps) := by
  obtain ⟨bs, h1, h2⟩ := C11_sink_utf32 false (xmlDocWrites strip codec ps)
  exact ⟨bs, h1, by rw [h2]; exact C11_xml_wf strip codec ps hc h⟩

theorem C11_xml_wf_utf16 (strip : Bool) (codec : Option Str) (ps : List Page) (hc : CodecNameOk codec)
    (h : ∀ p ∈ ps, PageOk strip p) :
    ∃ bs, sinkBinary (utf16Codec true false) false (xmlDocWrites strip codec ps) = some bs ∧
      (utf16Decode bs).bind parseXML = some (docSkeleton strip ps) := by
  obtain ⟨bs, h1, h2⟩ := C11_sink_utf16 false (xmlDocWrites strip codec ps)
  exact ⟨bs, h1, by rw [h2]; exact C11_xml_wf strip codec ps hc h⟩

/-- the escapes matter: the same figure name written raw (the pinned behaviour) is rejected by the reader -/
example : parseXML (['<', 'f', ' ', 'n', '=', '"'] ++ ['a', '"', '<'] ++ ['"', '/', '>']) = none := by decide

/-! ## The formatted numbers are in the domain of `C11_xml_wf`

`fmtF3` / `fmtD` model `'%.3f' % x` / `'%d' % x` on exact values (tied to Python and to `utils.bbox2str` by the
driver ops `fmt.*` on every run); `bbox2str` is regenerated from utils.py.  Whatever the numbers are, the
strings consist of digits, `-`, `.`, `,` - hence are `Plain`, the hypothesis `C11_xml_wf` puts on bbox, size,
linewidth, ids, width/height. -/

theorem C11_fmt_f3_plain (x : SRat) : Plain (fmtF3 x) := (fmtF3_num x).plain

theorem C11_fmt_d_plain (x : SRat) : Plain (fmtD x) := (fmtD_num x).plain

theorem C11_bbox2str_plain (x0 y0 x1 y1 : SRat) : Plain (Gen.ConvertFmt.bbox2str x0 y0 x1 y1) :=
  (bbox2str_num x0 y0 x1 y1).plain

/-- `LTCurve.get_pts` (regenerated from layout.py: `",".join("%.3f,%.3f" % p for p in self.pts)`) is `Plain`
for every point list -/
theorem C11_get_pts_plain (pts : List (SRat × SRat)) : Plain (Gen.ConvertFmt.get_pts pts) :=
  (get_pts_num pts).plain

/-- every `<line>` / `<rect>` / `<curve>` element is in the domain of `C11_xml_wf`, whatever its numbers and points
are: no hypothesis left -/
theorem C11_path_items_ok (strip : Bool) (lw a b c d : SRat) (pts : List (SRat × SRat)) :
    ItemOk strip (.line (fmtD lw) (Gen.ConvertFmt.bbox2str a b c d)) ∧
    ItemOk strip (.rect (fmtD lw) (Gen.ConvertFmt.bbox2str a b c d)) ∧
    ItemOk strip (.curve (fmtD lw) (Gen.ConvertFmt.bbox2str a b c d) (Gen.ConvertFmt.get_pts pts)) :=
  ⟨⟨C11_fmt_d_plain lw, C11_bbox2str_plain a b c d⟩, ⟨C11_fmt_d_plain lw, C11_bbox2str_plain a b c d⟩,
   ⟨C11_fmt_d_plain lw, C11_bbox2str_plain a b c d, C11_get_pts_plain pts⟩⟩

example : Gen.ConvertFmt.get_pts [((false, 1), (true, 5/2)), ((false, 0), (false, 1/8))] =
    "1.000,-2.500,0.000,0.125".toList := by decide +kernel

/-- every name a `PDFColorSpace` can carry (table regenerated from pdfcolor.py / pdfinterp.get_colorspace; the
driver op `csname` checks every `ncs.name` met at run time against it) is `Plain` -/
theorem C11_colourspace_plain : ∀ n ∈ Gen.ConvertFmt.colourSpaceNames, Plain n := by
  have h : ∀ n ∈ Gen.ConvertFmt.colourSpaceNames, ∀ c ∈ n, plainChar c = true := by decide
  exact fun n hn c hc => h n hn c hc

/-- a glyph: with the numbers from the formatters and the colour-space name from the table, what remains to be
assumed is the colour value string (`str(ncolor)`: Python float repr, not modelled) and XML-legal document strings -/
theorem C11_char_item_ok (strip : Bool) (a b c d sz : SRat) (font cs nc text : Str)
    (hcs : cs ∈ Gen.ConvertFmt.colourSpaceNames) (hnc : Plain nc)
    (hf : Legal (maybeStrip strip font)) (ht : Legal (maybeStrip strip text)) :
    ItemOk strip (.char font (Gen.ConvertFmt.bbox2str a b c d) cs nc (fmtF3 sz) text) :=
  ⟨hf, C11_bbox2str_plain a b c d, C11_colourspace_plain cs hcs, hnc, C11_fmt_f3_plain sz, ht⟩

/-- the attributes of `<page>` (id and rotate are ints written with %s / %d) are `Plain` for all numbers -/
theorem C11_page_fields_plain (pageid rotate a b c d : SRat) :
    Plain (fmtD pageid) ∧ Plain (Gen.ConvertFmt.bbox2str a b c d) ∧ Plain (fmtD rotate) :=
  ⟨C11_fmt_d_plain pageid, C11_bbox2str_plain a b c d, C11_fmt_d_plain rotate⟩

example : ['D', 'e', 'v', 'i', 'c', 'e', 'R', 'G', 'B'] ∈ Gen.ConvertFmt.colourSpaceNames := by decide

/-- e.g. a curve and a glyph whose numeric fields come from the formatters are in the domain, for all numbers -/
theorem C11_numeric_items_ok (strip : Bool) (lw a b c d sz : SRat) (pts font cs nc text : Str)
    (hp : Plain pts) (hcs : Plain cs) (hnc : Plain nc)
    (hf : Legal (maybeStrip strip font)) (ht : Legal (maybeStrip strip text)) :
    ItemOk strip (.curve (fmtD lw) (Gen.ConvertFmt.bbox2str a b c d) pts) ∧
    ItemOk strip (.char font (Gen.ConvertFmt.bbox2str a b c d) cs nc (fmtF3 sz) text) :=
  ⟨⟨C11_fmt_d_plain lw, C11_bbox2str_plain a b c d, hp⟩,
   ⟨hf, C11_bbox2str_plain a b c d, hcs, hnc, C11_fmt_f3_plain sz, ht⟩⟩

end PdfVerif.Props.C11
