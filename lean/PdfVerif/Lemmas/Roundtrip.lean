/-
Units for every kind of token, spelled trees (`STree`), and the theorem that the bytes of a
spelled tree lex to the token sequence of its value — with minimal delimiters and comments.
-/
import PdfVerif.Lemmas.LexUnits
import PdfVerif.Lemmas.StackParser

namespace PdfVerif.Lexer
open PdfVerif PdfVerif.Gen.LexTables

theorem dw_end_number (g : UInt8) (hg : isDW g = true) : isEND_NUMBER g = true ∧ g ≠ 46 := by
  have hf := dw_facts g
  simp only [hg, Bool.not_true, Bool.false_or, Bool.and_eq_true, bne_iff_ne, ne_eq] at hf
  exact ⟨hf.1.1.1.1, hf.1.1.1.2⟩

theorem dw_end_literal (g : UInt8) (hg : isDW g = true) : isEND_LITERAL g = true ∧ g ≠ 35 := by
  have hf := dw_facts g
  simp only [hg, Bool.not_true, Bool.false_or, Bool.and_eq_true, bne_iff_ne, ne_eq] at hf
  exact ⟨hf.1.1.2, hf.1.2⟩

theorem dw_end_keyword (g : UInt8) (hg : isDW g = true) : isEND_KEYWORD g = true := by
  have hf := dw_facts g
  simp only [hg, Bool.not_true, Bool.false_or, Bool.and_eq_true, bne_iff_ne, ne_eq] at hf
  exact hf.2

/-- `of_main` for a unit given as a list whose first byte is not `>` -/
theorem LexUnit.of_main_list {s : Bytes} {ts : List Token} {reg : Bool} (h0 : s.headD 62 ≠ 62)
    (h : ∀ (st : St) (d : UInt8) (rest : Bytes) (pos : Nat), st.mode = .main → (reg = true → isDW d = true) →
      ∃ st', HO st' ∧ tokVals (foldBytes st (s ++ d :: rest) pos).2 =
        ts ++ tokVals (foldBytes st' (d :: rest) (pos + s.length)).2) :
    LexUnit s ts reg := by
  cases s with
  | nil => simp at h0
  | cons b tl => exact LexUnit.of_main (by simpa using h0) h

/-- a regular-run token described by "emits `t` at its position, continues in the main scanner at `d`" -/
theorem LexUnit.of_token {s : Bytes} {t : Token} (h0 : s.headD 62 ≠ 62)
    (h : ∀ (st : St) (d : UInt8) (rest : Bytes) (pos : Nat), st.mode = .main → isDW d = true →
      ∃ st', st'.mode = .main ∧
        (foldBytes st (s ++ d :: rest) pos).2 = (pos, t) :: (foldBytes st' (d :: rest) (pos + s.length)).2) :
    LexUnit s [t] true := by
  apply LexUnit.of_main_list h0
  intro st d rest pos hm hd
  obtain ⟨st', hm', e⟩ := h st d rest pos hm (hd rfl)
  exact ⟨st', Or.inl hm', by rw [e]; simp [tokVals]⟩

theorem digit_ne_62 (c : UInt8) (h : isDigit c = true) : c ≠ 62 := by
  intro e; subst e; revert h; decide

theorem head_sign_digits (sign ds : Bytes) (tail : Bytes) (hs : sign = [] ∨ sign = [43] ∨ sign = [45])
    (hd : ∀ c ∈ ds, isDigit c = true) (ht : tail.headD 0 ≠ 62) (htn : tail ≠ []) :
    (sign ++ ds ++ tail).headD 62 ≠ 62 := by
  rcases hs with rfl | rfl | rfl
  · cases ds with
    | nil => cases tail with
      | nil => exact absurd rfl htn
      | cons b t => simpa using ht
    | cons c t => simpa using digit_ne_62 c (hd c (by simp))
  · simp
  · simp

theorem unit_int (sign ds : Bytes)
    (hs : sign = [] ∨ sign = [43] ∨ sign = [45]) (hne : ds ≠ []) (hd : ∀ c ∈ ds, isDigit c = true)
    (hlen : ds.length ≤ 4300) : LexUnit (sign ++ ds) [Token.int (intValue sign ds)] true := by
  have h0 : (sign ++ ds).headD 62 ≠ 62 := by
    cases ds with
    | nil => exact absurd rfl hne
    | cons c t =>
      have := head_sign_digits sign [] (c :: t) hs (by simp) (by simpa using digit_ne_62 c (hd c (by simp))) (by simp)
      simpa using this
  apply LexUnit.of_token h0
  intro st d rest pos hm hdw
  refine ⟨{ st with tpos := pos, cur := sign ++ ds, mode := .main }, rfl, ?_⟩
  have he := dw_end_number d hdw
  rw [foldBytes_append, int_spelling_pending st hm sign ds pos hs hne hd]
  simp only [foldBytes, List.nil_append]
  rw [number_end _ d _ (intValue sign ds) rfl he.1 he.2 (pyInt_spelling sign ds hs hne hd hlen)]
  simp

theorem unit_real (sign ip fp : Bytes)
    (hs : sign = [] ∨ sign = [43] ∨ sign = [45]) (hip : ∀ c ∈ ip, isDigit c = true)
    (hfp : ∀ c ∈ fp, isDigit c = true) (hne : ¬ (ip = [] ∧ fp = [])) :
    LexUnit (sign ++ ip ++ 46 :: fp) [Token.real (sign ++ ip ++ 46 :: fp)] true := by
  have h0 : (sign ++ ip ++ 46 :: fp).headD 62 ≠ 62 :=
    head_sign_digits sign ip (46 :: fp) hs hip (by simp) (by simp)
  apply LexUnit.of_token h0
  intro st d rest pos hm hdw
  refine ⟨{ st with tpos := pos, cur := sign ++ ip ++ 46 :: fp, mode := .main }, rfl, ?_⟩
  have he := dw_end_number d hdw
  rw [foldBytes_append, real_spelling_pending st hm sign ip fp pos hs hip hfp]
  simp only [foldBytes, List.nil_append]
  rw [float_end _ d _ rfl he.1 (pyFloatOk_spelling sign ip fp hs hip hfp hne)]
  simp

theorem unit_name (items : List NameItem) (hok : ∀ i ∈ items, i.ok) :
    LexUnit (47 :: renderName items) [Token.lit (nameValue items)] true := by
  apply LexUnit.of_token (by simp)
  intro st d rest pos hm hdw
  have he := dw_end_literal d hdw
  obtain ⟨s1, hp1, hs1⟩ := main_name_start st pos hm
  obtain ⟨s2, hp2, hs2⟩ := name_items_fold items [] pos s1 (pos + 1) hp1 hok
  obtain ⟨s3, hm3, hs3⟩ := name_end _ pos s2 d (pos + 1 + (renderName items).length) hp2 he.1 he.2
  refine ⟨s3, hm3, ?_⟩
  simp only [List.cons_append, foldBytes, hs1, List.nil_append]
  rw [foldBytes_append, hs2]
  simp only [foldBytes, List.nil_append, hs3, List.length_cons]
  have e : pos + 1 + (renderName items).length = pos + ((renderName items).length + 1) := by omega
  simp [e]

theorem alpha_ne_62 (c : UInt8) (h : isAlpha c = true) : c ≠ 62 := by
  intro e; subst e; revert h; decide

/-- a keyword word: letters only -/
theorem unit_keyword (c : UInt8) (w : Bytes) (hc : isAlpha c = true) (hw : ∀ x ∈ w, isAlpha x = true) :
    LexUnit (c :: w)
      [if (c :: w) == kwTrue then Token.bool true else if (c :: w) == kwFalse then Token.bool false
       else Token.kwd (c :: w)] true := by
  apply LexUnit.of_token (by simpa using alpha_ne_62 c hc)
  intro st d rest pos hm hdw
  have he := dw_end_keyword d hdw
  have hk := keyword_spelling st hm c w d pos hc hw he
  refine ⟨{ st with tpos := pos, cur := c :: w, mode := .main }, rfl, ?_⟩
  rw [foldBytes_append]
  obtain ⟨hk1, hk2⟩ := hk
  generalize foldBytes st (c :: w) pos = F at hk1 hk2 ⊢
  simp only [foldBytes, hk2, List.nil_append, hk1]
  simp

theorem unit_string (items : List StrItem) (hok : ∀ i ∈ items, i.ok) (hch : chainOK items)
    (hbal : depthAfter 0 items = some 0) :
    LexUnit (40 :: (renderStr items ++ [41])) [Token.str (strValue items)] false := by
  apply LexUnit.of_fold (by decide)
  intro st pos hm
  obtain ⟨s1, hs1, hf1⟩ := main_string_start st pos hm
  have hn1 : NextOK s1 ((renderStr items ++ [41]).headD 41) := nextOK_string _ _ hs1.1
  obtain ⟨s2, hp2, hn2, hf2⟩ := str_items_fold items [] 0 pos s1 (pos + 1) 0 (settled_pending hs1) hn1 hok hch hbal
  obtain ⟨s3, hm3, hf3⟩ := str_end _ pos s2 (pos + 1 + (renderStr items).length) hp2 hn2
  refine ⟨s3, Or.inl hm3, ?_, ?_⟩
  · simp only [foldBytes, hf1]
    rw [foldBytes_append, hf2]
    simp [foldBytes, hf3]
  · simp only [foldBytes, hf1, List.nil_append]
    rw [foldBytes_append, hf2]
    simp [foldBytes, hf3, tokVals]

def hexDigitsOf (body : Bytes) : Bytes := body.filter (fun c => !isSPC c)

/-- ends in `_parse_wclose` (a hand-over state) -/
theorem unit_hex (body : Bytes) (n : Nat)
    (hb : ∀ c ∈ body, isHEX c = true ∨ isSPC c = true) (heven : (hexDigitsOf body).length = 2 * n) :
    LexUnit (60 :: (body ++ [62])) [Token.str (pairUp (hexDigitsOf body))] false := by
  apply LexUnit.of_fold (by decide)
  intro st pos hm
  have h := hex_spelling st hm body pos n hb heven
  simp only [List.cons_append] at h
  exact ⟨_, Or.inr rfl, by rw [h], by rw [h]; simp [tokVals, hexDigitsOf]⟩

end PdfVerif.Lexer

namespace PdfVerif.Roundtrip
open PdfVerif PdfVerif.Lexer PdfVerif.StackParser PdfVerif.Gen.LexTables

/-- A tree together with ONE conformant way of writing it: every token carries its spelling choice
    and the separator (white space and comments, possibly none) that follows it. -/
inductive STree where
  | null (g : List SepItem)
  | bool (b : Bool) (g : List SepItem)
  | int (sign ds : Bytes) (g : List SepItem)
  | real (sign ip fp : Bytes) (g : List SepItem)
  | name (items : List NameItem) (g : List SepItem)
  | str (items : List StrItem) (g : List SepItem)
  | hex (body : Bytes) (g : List SepItem)
  | ref (ds : Bytes) (g1 : List SepItem) (gs : Bytes) (g2 g3 : List SepItem)      -- `ds g1 gs g2 R g3`
  | arr (g0 : List SepItem) (items : List STree) (g1 : List SepItem)
  | dict (g0 : List SepItem) (entries : List (List NameItem × List SepItem × STree)) (g1 : List SepItem)

def wNull : Bytes := [110, 117, 108, 108]

mutual
def bytesOf : STree → Bytes
  | .null g => wNull ++ renderSep g
  | .bool b g => (if b then kwTrue else kwFalse) ++ renderSep g
  | .int sign ds g => (sign ++ ds) ++ renderSep g
  | .real sign ip fp g => (sign ++ ip ++ 46 :: fp) ++ renderSep g
  | .name items g => (47 :: renderName items) ++ renderSep g
  | .str items g => (40 :: (renderStr items ++ [41])) ++ renderSep g
  | .hex body g => (60 :: (body ++ [62])) ++ renderSep g
  | .ref ds g1 gs g2 g3 => (ds ++ renderSep g1) ++ ((gs ++ renderSep g2) ++ ([82] ++ renderSep g3))
  | .arr g0 items g1 => ([91] ++ renderSep g0) ++ (bytesList items ++ ([93] ++ renderSep g1))
  | .dict g0 es g1 => ([60, 60] ++ renderSep g0) ++ (bytesEntries es ++ ([62, 62] ++ renderSep g1))
def bytesList : List STree → Bytes
  | [] => []
  | t :: r => bytesOf t ++ bytesList r
def bytesEntries : List (List NameItem × List SepItem × STree) → Bytes
  | [] => []
  | (k, g, v) :: r => ((47 :: renderName k) ++ renderSep g) ++ (bytesOf v ++ bytesEntries r)
end

mutual
def valueOf : STree → PObj
  | .null _ => .null
  | .bool b _ => .bool b
  | .int sign ds _ => .int (intValue sign ds)
  | .real sign ip fp _ => .real (sign ++ ip ++ 46 :: fp)
  | .name items _ => .lit (nameValue items)
  | .str items _ => .str (strValue items)
  | .hex body _ => .str (pairUp (hexDigitsOf body))
  | .ref ds _ gs _ _ => .ref (intValue [] ds) (intValue [] gs)
  | .arr _ items _ => .arr (valueList items)
  | .dict _ es _ => .dict (valueEntries es)
def valueList : List STree → List PObj
  | [] => []
  | t :: r => valueOf t :: valueList r
def valueEntries : List (List NameItem × List SepItem × STree) → List (Bytes × PObj)
  | [] => []
  | (k, _, v) :: r => (nameValue k, valueOf v) :: valueEntries r
end

/-- does the spelling end in a run of regular characters with nothing after it (so that the next byte
    must be white space or a delimiter)? -/
def endsReg : STree → Bool
  | .null g => g.isEmpty
  | .bool _ g => g.isEmpty
  | .int _ _ g => g.isEmpty
  | .real _ _ _ g => g.isEmpty
  | .name _ g => g.isEmpty
  | .ref _ _ _ _ g3 => g3.isEmpty
  | _ => false

def digitsOK (ds : Bytes) : Prop := ds ≠ [] ∧ (∀ c ∈ ds, isDigit c = true) ∧ ds.length ≤ 4300
def signOK (sign : Bytes) : Prop := sign = [] ∨ sign = [43] ∨ sign = [45]

theorem gap_spc : ∀ c : UInt8, (!isGapByte c || isSPC c) = true := forall_byte _ (by decide +kernel)

/-- `#00` is not allowed in a name (7.3.5) -/
def NameItem.nonzero : NameItem → Prop
  | .raw _ => True
  | .esc h l => hexCharVal h * 16 + hexCharVal l ≠ 0

def nameOK (items : List NameItem) : Prop := ∀ i ∈ items, i.ok ∧ NameItem.nonzero i

mutual
/-- the spelling choices are conformant (ISO 32000-1 7.2–7.3): separators are white space / comments;
    where a separator is empty after a regular-character token, a delimiter follows (checked between
    neighbours); names without `#00`; hex strings of hex digits and white space; distinct UTF-8 keys.
    `even = true` adds: even hex digit count (the domain of the tokenizer theorems, open finding). -/
def wfE (even : Bool) : STree → Prop
  | .null g => sepOK g
  | .bool _ g => sepOK g
  | .int sign ds g => signOK sign ∧ digitsOK ds ∧ sepOK g
  | .real sign ip fp g => signOK sign ∧ (∀ c ∈ ip, isDigit c = true) ∧ (∀ c ∈ fp, isDigit c = true) ∧
      ¬ (ip = [] ∧ fp = []) ∧ sepOK g
  | .name items g => nameOK items ∧ sepOK g
  | .str items g => (∀ i ∈ items, i.ok) ∧ chainOK items ∧ depthAfter 0 items = some 0 ∧ sepOK g
  | .hex body g => (∀ c ∈ body, isHEX c = true ∨ isGapByte c = true) ∧
      (even = true → ∃ n, (hexDigitsOf body).length = 2 * n) ∧ sepOK g
  | .ref ds g1 gs g2 g3 => digitsOK ds ∧ sepOK g1 ∧ g1 ≠ [] ∧ digitsOK gs ∧ sepOK g2 ∧ g2 ≠ [] ∧ sepOK g3
  | .arr g0 items g1 => sepOK g0 ∧ wfListE even items ∧ sepOK g1
  | .dict g0 es g1 => sepOK g0 ∧ wfEntriesE even es ∧ sepOK g1 ∧
      (keysOf (valueEntries es)).Nodup ∧ ∀ k ∈ keysOf (valueEntries es), utf8Valid k = true
def wfListE (even : Bool) : List STree → Prop
  | [] => True
  | t :: r => wfE even t ∧ wfListE even r ∧
      (endsReg t = true → r ≠ [] → ∀ rest, isDW ((bytesList r ++ rest).headD 0) = true)
def wfEntriesE (even : Bool) : List (List NameItem × List SepItem × STree) → Prop
  | [] => True
  | (k, g, v) :: r => nameOK k ∧ sepOK g ∧ (g = [] → ∀ rest, isDW ((bytesOf v ++ rest).headD 0) = true) ∧
      wfE even v ∧ wfEntriesE even r
end

/-- conformant and inside the domain of the tokenizer theorems -/
abbrev wf := wfE true
abbrev wfList := wfListE true
abbrev wfEntries := wfEntriesE true

/-- a regular-run token followed by its separator -/
theorem tok_sep {s : Bytes} {ts : List Token} (h : LexUnit s ts true) (g : List SepItem) (hg : sepOK g) :
    LexUnit (s ++ renderSep g) ts g.isEmpty := by
  cases g with
  | nil => simpa [renderSep] using h
  | cons i r =>
    have h2 := LexUnit.sep (i :: r) hg
    have := LexUnit.append h h2 (fun _ d _ => sep_head_dw (i :: r) hg (by simp) [d])
    simpa using this

/-- a self-delimiting token followed by its separator -/
theorem free_sep {s : Bytes} {ts : List Token} (h : LexUnit s ts false) (g : List SepItem) (hg : sepOK g) :
    LexUnit (s ++ renderSep g) ts false := by
  simpa using LexUnit.append_free h (LexUnit.sep g hg)

theorem alpha_null : isAlpha 110 = true ∧ ∀ x ∈ ([117, 108, 108] : Bytes), isAlpha x = true := by
  refine ⟨by decide, ?_⟩; intro x hx; simp at hx; rcases hx with rfl | rfl | rfl <;> decide
theorem alpha_true : isAlpha 116 = true ∧ ∀ x ∈ ([114, 117, 101] : Bytes), isAlpha x = true := by
  refine ⟨by decide, ?_⟩; intro x hx; simp at hx; rcases hx with rfl | rfl | rfl <;> decide
theorem alpha_false : isAlpha 102 = true ∧ ∀ x ∈ ([97, 108, 115, 101] : Bytes), isAlpha x = true := by
  refine ⟨by decide, ?_⟩; intro x hx; simp at hx; rcases hx with rfl | rfl | rfl | rfl <;> decide

theorem unit_R : LexUnit [82] [Token.kwd kwR] true := by
  have := unit_keyword 82 [] (by decide) (by simp)
  simpa [kwTrue, kwFalse, kwR] using this

theorem isEmpty_false {α} {l : List α} (h : l ≠ []) : l.isEmpty = false := by
  cases l with
  | nil => exact absurd rfl h
  | cons _ _ => rfl

mutual
/-- The bytes of a well-formed spelled tree lex (from any hand-over state, whatever follows) to the
    token sequence of its value. -/
theorem lex_tree : ∀ (t : STree), wf t → LexUnit (bytesOf t) (ser (valueOf t)) (endsReg t)
  | .null g, h => by
    simp only [wf, wfE] at h
    simp only [bytesOf, valueOf, ser, endsReg]
    have := unit_keyword 110 [117, 108, 108] alpha_null.1 alpha_null.2
    have u : LexUnit wNull [Token.kwd StackParser.kwNull] true := by
      simpa [kwTrue, kwFalse, wNull, StackParser.kwNull] using this
    exact tok_sep u g h
  | .bool b g, h => by
    simp only [wf, wfE] at h
    simp only [bytesOf, valueOf, ser, endsReg]
    cases b with
    | true =>
      have := unit_keyword 116 [114, 117, 101] alpha_true.1 alpha_true.2
      have u : LexUnit kwTrue [Token.bool true] true := by simpa [kwTrue, kwFalse] using this
      simpa using tok_sep u g h
    | false =>
      have := unit_keyword 102 [97, 108, 115, 101] alpha_false.1 alpha_false.2
      have u : LexUnit kwFalse [Token.bool false] true := by simpa [kwTrue, kwFalse] using this
      simpa using tok_sep u g h
  | .int sign ds g, h => by
    simp only [wf, wfE] at h
    obtain ⟨hs, ⟨hne, hd, hlen⟩, hg⟩ := h
    simp only [bytesOf, valueOf, ser, endsReg]
    exact tok_sep (unit_int sign ds hs hne hd hlen) g hg
  | .real sign ip fp g, h => by
    simp only [wf, wfE] at h
    obtain ⟨hs, hip, hfp, hne, hg⟩ := h
    simp only [bytesOf, valueOf, ser, endsReg]
    exact tok_sep (unit_real sign ip fp hs hip hfp hne) g hg
  | .name items g, h => by
    simp only [wf, wfE] at h
    simp only [bytesOf, valueOf, ser, endsReg]
    exact tok_sep (unit_name items (fun i hi => (h.1 i hi).1)) g h.2
  | .str items g, h => by
    simp only [wf, wfE] at h
    obtain ⟨hok, hch, hbal, hg⟩ := h
    simp only [bytesOf, valueOf, ser, endsReg]
    exact free_sep (unit_string items hok hch hbal) g hg
  | .hex body g, h => by
    simp only [wf, wfE] at h
    obtain ⟨hb, hev, hg⟩ := h
    obtain ⟨n, hn⟩ := hev trivial
    simp only [bytesOf, valueOf, ser, endsReg]
    have hb' : ∀ c ∈ body, isHEX c = true ∨ isSPC c = true := by
      intro c hc
      rcases hb c hc with h | h
      · exact Or.inl h
      · have := gap_spc c; simp [h] at this; exact Or.inr this
    exact free_sep (unit_hex body n hb' hn) g hg
  | .ref ds g1 gs g2 g3, h => by
    simp only [wf, wfE] at h
    obtain ⟨⟨hne1, hd1, hl1⟩, hg1, hg1n, ⟨hne2, hd2, hl2⟩, hg2, hg2n, hg3⟩ := h
    simp only [bytesOf, valueOf, ser, endsReg]
    have u1 : LexUnit (ds ++ renderSep g1) [Token.int (intValue [] ds)] false := by
      have := tok_sep (unit_int [] ds (Or.inl rfl) hne1 hd1 hl1) g1 hg1
      rw [isEmpty_false hg1n] at this
      simpa using this
    have u2 : LexUnit (gs ++ renderSep g2) [Token.int (intValue [] gs)] false := by
      have := tok_sep (unit_int [] gs (Or.inl rfl) hne2 hd2 hl2) g2 hg2
      rw [isEmpty_false hg2n] at this
      simpa using this
    have u3 := tok_sep unit_R g3 hg3
    have := LexUnit.append_free u1 (LexUnit.append_free u2 u3)
    simpa using this
  | .arr g0 items g1, h => by
    simp only [wf, wfE] at h
    obtain ⟨hg0, hitems, hg1⟩ := h
    simp only [bytesOf, valueOf, ser, endsReg]
    have u0 := free_sep LexUnit.open_bracket g0 hg0
    have u1 := lex_list items g1 hitems hg1
    have := LexUnit.append_free u0 u1
    simpa using this
  | .dict g0 es g1, h => by
    simp only [wf, wfE] at h
    obtain ⟨hg0, hes, hg1, _, _⟩ := h
    simp only [bytesOf, valueOf, ser, endsReg]
    have u0 := free_sep LexUnit.dict_open g0 hg0
    have u1 := lex_entries es g1 hes hg1
    have := LexUnit.append_free u0 u1
    simpa using this
/-- array items up to and including `]` and its separator -/
theorem lex_list : ∀ (ts : List STree) (g1 : List SepItem), wfList ts → sepOK g1 →
    LexUnit (bytesList ts ++ ([93] ++ renderSep g1)) (serList (valueList ts) ++ [Token.kwd [93]]) false
  | [], g1, _, hg1 => by
    simpa [bytesList, valueList, serList] using free_sep LexUnit.close_bracket g1 hg1
  | t :: r, g1, h, hg1 => by
    simp only [wfList, wfListE] at h
    obtain ⟨ht, hr, hadj⟩ := h
    simp only [bytesList, valueList, serList]
    have u1 := lex_tree t ht
    have u2 := lex_list r g1 hr hg1
    have := LexUnit.append u1 u2 (fun hreg d _ => by
      cases r with
      | nil => simp [bytesList, isDW]
      | cons t2 r2 =>
        have := hadj hreg (by simp) (([93] ++ renderSep g1) ++ [d])
        simpa [List.append_assoc] using this)
    simpa [List.append_assoc] using this
/-- dictionary entries up to and including `>>` and its separator -/
theorem lex_entries : ∀ (es : List (List NameItem × List SepItem × STree)) (g1 : List SepItem),
    wfEntries es → sepOK g1 →
    LexUnit (bytesEntries es ++ ([62, 62] ++ renderSep g1)) (serEntries (valueEntries es) ++ [Token.kwd [62, 62]]) false
  | [], g1, _, hg1 => by
    simpa [bytesEntries, valueEntries, serEntries] using free_sep LexUnit.dict_close g1 hg1
  | (k, g, v) :: r, g1, h, hg1 => by
    simp only [wfEntries, wfEntriesE] at h
    obtain ⟨hk, hg, hgv, hv, hr⟩ := h
    simp only [bytesEntries, valueEntries, serEntries]
    have uk := tok_sep (unit_name k (fun i hi => (hk i hi).1)) g hg
    have uv := lex_tree v hv
    have ur := lex_entries r g1 hr hg1
    -- what follows the value begins with `/` (next key) or `>` (end of the dictionary)
    have uvr := LexUnit.append uv ur (fun _ d _ => by
      cases r with
      | nil => simp [bytesEntries, isDW]
      | cons e r2 => obtain ⟨k2, g2, v2⟩ := e; simp [bytesEntries, isDW])
    have := LexUnit.append uk uvr (fun hreg d _ => by
      have hge : g = [] := by cases g <;> simp_all
      have := hgv hge ((bytesEntries r ++ ([62, 62] ++ renderSep g1)) ++ [d])
      simpa [List.append_assoc] using this)
    simpa [List.append_assoc] using this
end

mutual
theorem clean_tree {e : Bool} : ∀ (t : STree), wfE e t → clean (valueOf t)
  | .null _, _ => by simp [valueOf, clean]
  | .bool _ _, _ => by simp [valueOf, clean]
  | .int _ _ _, _ => by simp [valueOf, clean]
  | .real _ _ _ _, _ => by simp [valueOf, clean]
  | .name _ _, _ => by simp [valueOf, clean]
  | .str _ _, _ => by simp [valueOf, clean]
  | .hex _ _, _ => by simp [valueOf, clean]
  | .ref _ _ _ _ _, _ => by simp [valueOf, clean]
  | .arr _ items _, h => by
    simp only [wf, wfE] at h
    simp only [valueOf, clean]
    exact clean_list items h.2.1
  | .dict _ es _, h => by
    simp only [wf, wfE] at h
    simp only [valueOf, clean]
    exact ⟨clean_entries es h.2.1, h.2.2.2.1, h.2.2.2.2⟩
theorem clean_list {e : Bool} : ∀ (ts : List STree), wfListE e ts → cleanList (valueList ts)
  | [], _ => by simp [valueList, cleanList]
  | t :: r, h => by
    simp only [wfList, wfListE] at h
    simp only [valueList, cleanList]
    exact ⟨clean_tree t h.1, clean_list r h.2.1⟩
theorem clean_entries {e : Bool} : ∀ (es : List (List NameItem × List SepItem × STree)), wfEntriesE e es → cleanEntries (valueEntries es)
  | [], _ => by simp [valueEntries, cleanEntries]
  | (k, g, v) :: r, h => by
    simp only [wfEntries, wfEntriesE] at h
    simp only [valueEntries, cleanEntries]
    exact ⟨clean_tree v h.2.2.2.1, clean_entries r h.2.2.2.2⟩
end

/-- several top-level spelled trees in a row (a content / object stream without operators): their
    bytes lex to the concatenated token sequences; whatever follows must be white space or a delimiter -/
theorem lex_seq : ∀ (ts : List STree), wfList ts → LexUnit (bytesList ts) (serList (valueList ts)) true
  | [], _ => by simpa [bytesList, valueList, serList] using LexUnit.nil.weaken true
  | t :: r, h => by
    simp only [wfList, wfListE] at h
    obtain ⟨ht, hr, hadj⟩ := h
    simp only [bytesList, valueList, serList]
    have u1 := lex_tree t ht
    have u2 := lex_seq r hr
    exact LexUnit.append u1 u2 (fun hreg d hd => by
      cases r with
      | nil => simpa [bytesList] using hd rfl
      | cons t2 r2 =>
        have := hadj hreg (by simp) [d]
        simpa using this)

/-! ### an indirect object `n g obj … endobj` -/

/-- the spelling of an indirect object around a spelled tree -/
structure ObjSpelling where
  ds : Bytes
  g1 : List SepItem
  gs : Bytes
  g2 : List SepItem
  g3 : List SepItem
  body : STree
  g4 : List SepItem

def ObjSpelling.bytes (o : ObjSpelling) : Bytes :=
  (o.ds ++ renderSep o.g1) ++ ((o.gs ++ renderSep o.g2) ++ ((kwObj ++ renderSep o.g3) ++
    (bytesOf o.body ++ (kwEndobj ++ renderSep o.g4))))

def ObjSpelling.wf (o : ObjSpelling) : Prop :=
  digitsOK o.ds ∧ sepOK o.g1 ∧ o.g1 ≠ [] ∧ digitsOK o.gs ∧ sepOK o.g2 ∧ o.g2 ≠ [] ∧ sepOK o.g3 ∧
    (o.g3 = [] → ∀ rest, isDW ((bytesOf o.body ++ rest).headD 0) = true) ∧
    Roundtrip.wf o.body ∧ endsReg o.body = false ∧ sepOK o.g4

theorem alpha_obj : isAlpha 111 = true ∧ ∀ x ∈ ([98, 106] : Bytes), isAlpha x = true := by
  refine ⟨by decide, ?_⟩; intro x hx; simp at hx; rcases hx with rfl | rfl <;> decide
theorem alpha_endobj : isAlpha 101 = true ∧ ∀ x ∈ ([110, 100, 111, 98, 106] : Bytes), isAlpha x = true := by
  refine ⟨by decide, ?_⟩; intro x hx; simp at hx; rcases hx with rfl | rfl | rfl | rfl | rfl <;> decide

theorem lex_obj (o : ObjSpelling) (h : o.wf) :
    LexUnit o.bytes
      ([Token.int (intValue [] o.ds), Token.int (intValue [] o.gs), Token.kwd kwObj] ++
        (ser (valueOf o.body) ++ [Token.kwd kwEndobj])) o.g4.isEmpty := by
  obtain ⟨⟨hne1, hd1, hl1⟩, hg1, hg1n, ⟨hne2, hd2, hl2⟩, hg2, hg2n, hg3, hg3d, hwf, hreg, hg4⟩ := h
  have u1 : LexUnit (o.ds ++ renderSep o.g1) [Token.int (intValue [] o.ds)] false := by
    have := tok_sep (unit_int [] o.ds (Or.inl rfl) hne1 hd1 hl1) o.g1 hg1
    rw [isEmpty_false hg1n] at this
    simpa using this
  have u2 : LexUnit (o.gs ++ renderSep o.g2) [Token.int (intValue [] o.gs)] false := by
    have := tok_sep (unit_int [] o.gs (Or.inl rfl) hne2 hd2 hl2) o.g2 hg2
    rw [isEmpty_false hg2n] at this
    simpa using this
  have u3 : LexUnit (kwObj ++ renderSep o.g3) [Token.kwd kwObj] o.g3.isEmpty := by
    have := unit_keyword 111 [98, 106] alpha_obj.1 alpha_obj.2
    have u : LexUnit kwObj [Token.kwd kwObj] true := by simpa [kwTrue, kwFalse, kwObj] using this
    exact tok_sep u o.g3 hg3
  have u4 : LexUnit (bytesOf o.body) (ser (valueOf o.body)) false := by
    have := lex_tree o.body hwf
    rwa [hreg] at this
  have u5 : LexUnit (kwEndobj ++ renderSep o.g4) [Token.kwd kwEndobj] o.g4.isEmpty := by
    have := unit_keyword 101 [110, 100, 111, 98, 106] alpha_endobj.1 alpha_endobj.2
    have u : LexUnit kwEndobj [Token.kwd kwEndobj] true := by simpa [kwTrue, kwFalse, kwEndobj] using this
    exact tok_sep u o.g4 hg4
  have u45 := LexUnit.append_free u4 u5
  have u345 := LexUnit.append u3 u45 (fun hreg3 d _ => by
    have hge : o.g3 = [] := by
      cases hg : o.g3 with
      | nil => rfl
      | cons _ _ => rw [hg] at hreg3; simp at hreg3
    have := hg3d hge ((kwEndobj ++ renderSep o.g4) ++ [d])
    simpa [List.append_assoc] using this)
  have := LexUnit.append_free u1 (LexUnit.append_free u2 u345)
  simpa [ObjSpelling.bytes, List.append_assoc] using this

end PdfVerif.Roundtrip
