/-
Units for every kind of token, spelled trees (`STree`), and the theorem that the bytes of a
spelled tree lex to the token sequence of its value.
-/
import PdfVerif.Lemmas.LexUnits
import PdfVerif.Lemmas.StackParser

namespace PdfVerif.Lexer
open PdfVerif PdfVerif.Gen.LexTables

theorem gap_end_number (g : UInt8) (hg : isGapByte g = true) : isEND_NUMBER g = true ∧ g ≠ 46 := by
  have hf := gap_facts g
  simp only [hg, Bool.not_true, Bool.false_or, Bool.and_eq_true, bne_iff_ne, ne_eq] at hf
  exact ⟨hf.1.1.1.1.1.2, hf.1.1.1.1.2⟩

theorem gap_end_literal (g : UInt8) (hg : isGapByte g = true) : isEND_LITERAL g = true ∧ g ≠ 35 := by
  have hf := gap_facts g
  simp only [hg, Bool.not_true, Bool.false_or, Bool.and_eq_true, bne_iff_ne, ne_eq] at hf
  exact ⟨hf.1.1.1.2, hf.1.1.2⟩

theorem gap_end_keyword (g : UInt8) (hg : isGapByte g = true) : isEND_KEYWORD g = true ∧ g ≠ 62 := by
  have hf := gap_facts g
  simp only [hg, Bool.not_true, Bool.false_or, Bool.and_eq_true, bne_iff_ne, ne_eq] at hf
  exact ⟨hf.1.2, hf.2⟩

theorem unit_int (sign ds : Bytes) (g : UInt8) (hg : isGapByte g = true)
    (hs : sign = [] ∨ sign = [43] ∨ sign = [45]) (hne : ds ≠ []) (hd : ∀ c ∈ ds, isDigit c = true)
    (hlen : ds.length ≤ 4300) : LexUnit (sign ++ ds ++ [g]) [Token.int (intValue sign ds)] := by
  apply LexUnit.of_token g hg
  intro st rest pos hm
  refine ⟨{ st with tpos := pos, cur := sign ++ ds, mode := .main }, rfl, ?_⟩
  have he := gap_end_number g hg
  rw [foldBytes_append, int_spelling_pending st hm sign ds pos hs hne hd]
  simp only [foldBytes, List.nil_append]
  rw [number_end _ g _ (intValue sign ds) rfl he.1 he.2 (pyInt_spelling sign ds hs hne hd hlen)]
  simp

theorem unit_real (sign ip fp : Bytes) (g : UInt8) (hg : isGapByte g = true)
    (hs : sign = [] ∨ sign = [43] ∨ sign = [45]) (hip : ∀ c ∈ ip, isDigit c = true)
    (hfp : ∀ c ∈ fp, isDigit c = true) (hne : ¬ (ip = [] ∧ fp = [])) :
    LexUnit ((sign ++ ip ++ 46 :: fp) ++ [g]) [Token.real (sign ++ ip ++ 46 :: fp)] := by
  apply LexUnit.of_token g hg
  intro st rest pos hm
  refine ⟨{ st with tpos := pos, cur := sign ++ ip ++ 46 :: fp, mode := .main }, rfl, ?_⟩
  have he := gap_end_number g hg
  rw [foldBytes_append, real_spelling_pending st hm sign ip fp pos hs hip hfp]
  simp only [foldBytes, List.nil_append]
  rw [float_end _ g _ rfl he.1 (pyFloatOk_spelling sign ip fp hs hip hfp hne)]
  simp

theorem unit_name (items : List NameItem) (g : UInt8) (hg : isGapByte g = true) (hok : ∀ i ∈ items, i.ok) :
    LexUnit ((47 :: renderName items) ++ [g]) [Token.lit (nameValue items)] := by
  apply LexUnit.of_token g hg
  intro st rest pos hm
  have he := gap_end_literal g hg
  obtain ⟨s1, hp1, hs1⟩ := main_name_start st pos hm
  obtain ⟨s2, hp2, hs2⟩ := name_items_fold items [] pos s1 (pos + 1) hp1 hok
  obtain ⟨s3, hm3, hs3⟩ := name_end _ pos s2 g (pos + 1 + (renderName items).length) hp2 he.1 he.2
  refine ⟨s3, hm3, ?_⟩
  simp only [List.cons_append, foldBytes, hs1, List.nil_append]
  rw [foldBytes_append, hs2]
  simp only [foldBytes, List.nil_append, hs3, List.length_cons]
  have e : pos + 1 + (renderName items).length = pos + ((renderName items).length + 1) := by omega
  simp [e]

/-- a keyword word: letters only -/
theorem unit_keyword (c : UInt8) (w : Bytes) (g : UInt8) (hg : isGapByte g = true)
    (hc : isAlpha c = true) (hw : ∀ x ∈ w, isAlpha x = true) :
    LexUnit ((c :: w) ++ [g])
      [if (c :: w) == kwTrue then Token.bool true else if (c :: w) == kwFalse then Token.bool false
       else Token.kwd (c :: w)] := by
  apply LexUnit.of_token g hg
  intro st rest pos hm
  have he := gap_end_keyword g hg
  have hk := keyword_spelling st hm c w g pos hc hw he.1
  refine ⟨{ st with tpos := pos, cur := c :: w, mode := .main }, rfl, ?_⟩
  rw [foldBytes_append]
  obtain ⟨hk1, hk2⟩ := hk
  generalize foldBytes st (c :: w) pos = F at hk1 hk2 ⊢
  simp only [foldBytes, hk2, List.nil_append, hk1]
  simp

theorem unit_string (items : List StrItem) (hok : ∀ i ∈ items, i.ok) (hch : chainOK items)
    (hbal : depthAfter 0 items = some 0) :
    LexUnit (40 :: renderStr items ++ [41]) [Token.str (strValue items)] := by
  apply LexUnit.of_fold
  intro st pos hm
  obtain ⟨s1, hs1, hf1⟩ := main_string_start st pos hm
  have hn1 : NextOK s1 ((renderStr items ++ [41]).headD 41) := nextOK_string _ _ hs1.1
  obtain ⟨s2, hp2, hn2, hf2⟩ := str_items_fold items [] 0 pos s1 (pos + 1) 0 (settled_pending hs1) hn1 hok hch hbal
  obtain ⟨s3, hm3, hf3⟩ := str_end _ pos s2 (pos + 1 + (renderStr items).length) hp2 hn2
  refine ⟨s3, hm3, ?_, ?_⟩
  · simp only [List.cons_append, foldBytes, hf1]
    rw [foldBytes_append, hf2]
    simp [foldBytes, hf3]
  · simp only [List.cons_append, foldBytes, hf1, List.nil_append]
    rw [foldBytes_append, hf2]
    simp [foldBytes, hf3, tokVals]

def hexDigitsOf (body : Bytes) : Bytes := body.filter (fun c => !isSPC c)

theorem unit_hex (body : Bytes) (n : Nat) (g : UInt8) (hg : isGapByte g = true)
    (hb : ∀ c ∈ body, isHEX c = true ∨ isSPC c = true) (heven : (hexDigitsOf body).length = 2 * n) :
    LexUnit ((60 :: body ++ [62]) ++ [g]) [Token.str (pairUp (hexDigitsOf body))] := by
  apply LexUnit.of_token g hg
  intro st rest pos hm
  have he := gap_end_keyword g hg
  have hg62 : (g == 62) = false := by simpa using he.2
  refine ⟨{ st with tpos := pos + 1 + body.length, cur := [], mode := .main }, rfl, ?_⟩
  rw [foldBytes_append, hex_spelling st hm body pos n hb heven]
  simp only [foldBytes]
  rw [step_hit _ g _ (Or.inl (by simp [searchClass]))]
  simp [atHit, parseWcloseHit, hg62, hexDigitsOf]

end PdfVerif.Lexer

namespace PdfVerif.Roundtrip
open PdfVerif PdfVerif.Lexer PdfVerif.StackParser PdfVerif.Gen.LexTables

/-- A tree together with ONE conformant way of writing it: every token carries its spelling choice
    and the white space that follows it. -/
inductive STree where
  | null (g : Bytes)
  | bool (b : Bool) (g : Bytes)
  | int (sign ds : Bytes) (g : Bytes)
  | real (sign ip fp : Bytes) (g : Bytes)
  | name (items : List NameItem) (g : Bytes)
  | str (items : List StrItem) (g : Bytes)
  | hex (body : Bytes) (g : Bytes)
  | ref (ds g1 zs g2 g3 : Bytes)                       -- `ds g1 zs g2 R g3`, `zs` spells generation 0
  | arr (g0 : Bytes) (items : List STree) (g1 : Bytes)
  | dict (g0 : Bytes) (entries : List (List NameItem × Bytes × STree)) (g1 : Bytes)

def wNull : Bytes := [110, 117, 108, 108]

mutual
def bytesOf : STree → Bytes
  | .null g => wNull ++ g
  | .bool b g => (if b then kwTrue else kwFalse) ++ g
  | .int sign ds g => sign ++ ds ++ g
  | .real sign ip fp g => (sign ++ ip ++ 46 :: fp) ++ g
  | .name items g => (47 :: renderName items) ++ g
  | .str items g => (40 :: renderStr items ++ [41]) ++ g
  | .hex body g => (60 :: body ++ [62]) ++ g
  | .ref ds g1 zs g2 g3 => (ds ++ g1) ++ ((zs ++ g2) ++ ([82] ++ g3))
  | .arr g0 items g1 => ([91] ++ g0) ++ (bytesList items ++ ([93] ++ g1))
  | .dict g0 es g1 => ([60, 60] ++ g0) ++ (bytesEntries es ++ ([62, 62] ++ g1))
def bytesList : List STree → Bytes
  | [] => []
  | t :: r => bytesOf t ++ bytesList r
def bytesEntries : List (List NameItem × Bytes × STree) → Bytes
  | [] => []
  | (k, g, v) :: r => ((47 :: renderName k) ++ g) ++ (bytesOf v ++ bytesEntries r)
end

mutual
def valueOf : STree → SObj
  | .null _ => .null
  | .bool b _ => .bool b
  | .int sign ds _ => .int (intValue sign ds)
  | .real sign ip fp _ => .real (sign ++ ip ++ 46 :: fp)
  | .name items _ => .lit (nameValue items)
  | .str items _ => .str (strValue items)
  | .hex body _ => .str (pairUp (hexDigitsOf body))
  | .ref ds _ _ _ _ => .ref (intValue [] ds)
  | .arr _ items _ => .arr (valueList items)
  | .dict _ es _ => .dict (valueEntries es)
def valueList : List STree → List SObj
  | [] => []
  | t :: r => valueOf t :: valueList r
def valueEntries : List (List NameItem × Bytes × STree) → List (Bytes × SObj)
  | [] => []
  | (k, _, v) :: r => (nameValue k, valueOf v) :: valueEntries r
end

def gapAny (g : Bytes) : Prop := ∀ c ∈ g, isGapByte c = true
def gapNE (g : Bytes) : Prop := g ≠ [] ∧ gapAny g
def digitsOK (ds : Bytes) : Prop := ds ≠ [] ∧ (∀ c ∈ ds, isDigit c = true) ∧ ds.length ≤ 4300
def signOK (sign : Bytes) : Prop := sign = [] ∨ sign = [43] ∨ sign = [45]

mutual
/-- the spelling choices are conformant (and inside the proved domain: at least one white-space byte
    after every token that is not self-delimiting, even hex digit count, distinct UTF-8 keys) -/
def wf : STree → Prop
  | .null g => gapNE g
  | .bool _ g => gapNE g
  | .int sign ds g => signOK sign ∧ digitsOK ds ∧ gapNE g
  | .real sign ip fp g => signOK sign ∧ (∀ c ∈ ip, isDigit c = true) ∧ (∀ c ∈ fp, isDigit c = true) ∧
      ¬ (ip = [] ∧ fp = []) ∧ gapNE g
  | .name items g => (∀ i ∈ items, i.ok) ∧ gapNE g
  | .str items g => (∀ i ∈ items, i.ok) ∧ chainOK items ∧ depthAfter 0 items = some 0 ∧ gapAny g
  | .hex body g => (∀ c ∈ body, isHEX c = true ∨ isSPC c = true) ∧ (∃ n, (hexDigitsOf body).length = 2 * n) ∧ gapNE g
  | .ref ds g1 zs g2 g3 => digitsOK ds ∧ gapNE g1 ∧ digitsOK zs ∧ intValue [] zs = 0 ∧ gapNE g2 ∧ gapNE g3
  | .arr g0 items g1 => gapAny g0 ∧ wfList items ∧ gapAny g1
  | .dict g0 es g1 => gapAny g0 ∧ wfEntries es ∧ gapAny g1 ∧
      (keysOf (valueEntries es)).Nodup ∧ ∀ k ∈ keysOf (valueEntries es), utf8Valid k = true
def wfList : List STree → Prop
  | [] => True
  | t :: r => wf t ∧ wfList r
def wfEntries : List (List NameItem × Bytes × STree) → Prop
  | [] => True
  | (k, g, v) :: r => (∀ i ∈ k, i.ok) ∧ gapNE g ∧ wf v ∧ wfEntries r
end

theorem unit_with_gap {s : Bytes} {ts : List Token}
    (h : ∀ g0, isGapByte g0 = true → LexUnit (s ++ [g0]) ts) (g : Bytes) (hg : gapNE g) : LexUnit (s ++ g) ts := by
  obtain ⟨hne, hall⟩ := hg
  cases g with
  | nil => exact absurd rfl hne
  | cons g0 gt =>
    have h1 := h g0 (hall g0 (by simp))
    have h2 := LexUnit.gap gt (fun x hx => hall x (by simp [hx]))
    have := LexUnit.append h1 h2
    simpa using this

theorem alpha_null : isAlpha 110 = true ∧ ∀ x ∈ ([117, 108, 108] : Bytes), isAlpha x = true := by
  refine ⟨by decide, ?_⟩; intro x hx; simp at hx; rcases hx with rfl | rfl | rfl <;> decide
theorem alpha_true : isAlpha 116 = true ∧ ∀ x ∈ ([114, 117, 101] : Bytes), isAlpha x = true := by
  refine ⟨by decide, ?_⟩; intro x hx; simp at hx; rcases hx with rfl | rfl | rfl <;> decide
theorem alpha_false : isAlpha 102 = true ∧ ∀ x ∈ ([97, 108, 115, 101] : Bytes), isAlpha x = true := by
  refine ⟨by decide, ?_⟩; intro x hx; simp at hx; rcases hx with rfl | rfl | rfl | rfl <;> decide

theorem unit_R (g0 : UInt8) (hg : isGapByte g0 = true) : LexUnit ([82] ++ [g0]) [Token.kwd kwR] := by
  have := unit_keyword 82 [] g0 hg (by decide) (by simp)
  simpa [kwTrue, kwFalse, kwR] using this

mutual
/-- The bytes of a well-formed spelled tree lex (from the main scanner, whatever follows) to the
    token sequence of its value. -/
theorem lex_tree : ∀ (t : STree), wf t → LexUnit (bytesOf t) (ser (valueOf t))
  | .null g, h => by
    simp only [wf] at h
    simp only [bytesOf, valueOf, ser]
    refine unit_with_gap (fun g0 hg0 => ?_) g h
    have := unit_keyword 110 [117, 108, 108] g0 hg0 alpha_null.1 alpha_null.2
    simpa [kwTrue, kwFalse, wNull, StackParser.kwNull] using this
  | .bool b g, h => by
    simp only [wf] at h
    simp only [bytesOf, valueOf, ser]
    refine unit_with_gap (fun g0 hg0 => ?_) g h
    cases b with
    | true =>
      have := unit_keyword 116 [114, 117, 101] g0 hg0 alpha_true.1 alpha_true.2
      simpa [kwTrue, kwFalse] using this
    | false =>
      have := unit_keyword 102 [97, 108, 115, 101] g0 hg0 alpha_false.1 alpha_false.2
      simpa [kwTrue, kwFalse] using this
  | .int sign ds g, h => by
    simp only [wf] at h
    obtain ⟨hs, ⟨hne, hd, hlen⟩, hg⟩ := h
    simp only [bytesOf, valueOf, ser]
    exact unit_with_gap (fun g0 hg0 => unit_int sign ds g0 hg0 hs hne hd hlen) g hg
  | .real sign ip fp g, h => by
    simp only [wf] at h
    obtain ⟨hs, hip, hfp, hne, hg⟩ := h
    simp only [bytesOf, valueOf, ser]
    exact unit_with_gap (fun g0 hg0 => unit_real sign ip fp g0 hg0 hs hip hfp hne) g hg
  | .name items g, h => by
    simp only [wf] at h
    simp only [bytesOf, valueOf, ser]
    exact unit_with_gap (fun g0 hg0 => unit_name items g0 hg0 h.1) g h.2
  | .str items g, h => by
    simp only [wf] at h
    obtain ⟨hok, hch, hbal, hg⟩ := h
    simp only [bytesOf, valueOf, ser]
    have := LexUnit.append (unit_string items hok hch hbal) (LexUnit.gap g hg)
    simpa using this
  | .hex body g, h => by
    simp only [wf] at h
    obtain ⟨hb, ⟨n, hn⟩, hg⟩ := h
    simp only [bytesOf, valueOf, ser]
    exact unit_with_gap (fun g0 hg0 => unit_hex body n g0 hg0 hb hn) g hg
  | .ref ds g1 zs g2 g3, h => by
    simp only [wf] at h
    obtain ⟨⟨hne1, hd1, hl1⟩, hg1, ⟨hne2, hd2, hl2⟩, hz, hg2, hg3⟩ := h
    simp only [bytesOf, valueOf, ser]
    have u1 : LexUnit (ds ++ g1) [Token.int (intValue [] ds)] := by
      have := unit_with_gap (fun g0 hg0 => unit_int [] ds g0 hg0 (Or.inl rfl) hne1 hd1 hl1) g1 hg1
      simpa using this
    have u2 : LexUnit (zs ++ g2) [Token.int 0] := by
      have := unit_with_gap (fun g0 hg0 => unit_int [] zs g0 hg0 (Or.inl rfl) hne2 hd2 hl2) g2 hg2
      rw [hz] at this
      simpa using this
    have u3 : LexUnit ([82] ++ g3) [Token.kwd kwR] := unit_with_gap (fun g0 hg0 => unit_R g0 hg0) g3 hg3
    have := LexUnit.append u1 (LexUnit.append u2 u3)
    simpa using this
  | .arr g0 items g1, h => by
    simp only [wf] at h
    obtain ⟨hg0, hitems, hg1⟩ := h
    simp only [bytesOf, valueOf, ser]
    have u0 := LexUnit.append LexUnit.open_bracket (LexUnit.gap g0 hg0)
    have u1 := lex_list items hitems
    have u2 := LexUnit.append LexUnit.close_bracket (LexUnit.gap g1 hg1)
    have := LexUnit.append u0 (LexUnit.append u1 u2)
    simpa using this
  | .dict g0 es g1, h => by
    simp only [wf] at h
    obtain ⟨hg0, hes, hg1, _, _⟩ := h
    simp only [bytesOf, valueOf, ser]
    have u0 := LexUnit.append LexUnit.dict_open (LexUnit.gap g0 hg0)
    have u1 := lex_entries es hes
    have u2 := LexUnit.append LexUnit.dict_close (LexUnit.gap g1 hg1)
    have := LexUnit.append u0 (LexUnit.append u1 u2)
    simpa using this
theorem lex_list : ∀ (ts : List STree), wfList ts → LexUnit (bytesList ts) (serList (valueList ts))
  | [], _ => by simpa [bytesList, valueList, serList] using LexUnit.nil
  | t :: r, h => by
    simp only [wfList] at h
    simp only [bytesList, valueList, serList]
    exact LexUnit.append (lex_tree t h.1) (lex_list r h.2)
theorem lex_entries : ∀ (es : List (List NameItem × Bytes × STree)), wfEntries es →
    LexUnit (bytesEntries es) (serEntries (valueEntries es))
  | [], _ => by simpa [bytesEntries, valueEntries, serEntries] using LexUnit.nil
  | (k, g, v) :: r, h => by
    simp only [wfEntries] at h
    obtain ⟨hk, hg, hv, hr⟩ := h
    simp only [bytesEntries, valueEntries, serEntries]
    have uk : LexUnit ((47 :: renderName k) ++ g) [Token.lit (nameValue k)] :=
      unit_with_gap (fun g0 hg0 => unit_name k g0 hg0 hk) g hg
    have := LexUnit.append uk (LexUnit.append (lex_tree v hv) (lex_entries r hr))
    simpa using this
end

mutual
theorem clean_tree : ∀ (t : STree), wf t → clean (valueOf t)
  | .null _, _ => by simp [valueOf, clean]
  | .bool _ _, _ => by simp [valueOf, clean]
  | .int _ _ _, _ => by simp [valueOf, clean]
  | .real _ _ _ _, _ => by simp [valueOf, clean]
  | .name _ _, _ => by simp [valueOf, clean]
  | .str _ _, _ => by simp [valueOf, clean]
  | .hex _ _, _ => by simp [valueOf, clean]
  | .ref _ _ _ _ _, _ => by simp [valueOf, clean]
  | .arr _ items _, h => by
    simp only [wf] at h
    simp only [valueOf, clean]
    exact clean_list items h.2.1
  | .dict _ es _, h => by
    simp only [wf] at h
    simp only [valueOf, clean]
    exact ⟨clean_entries es h.2.1, h.2.2.2.1, h.2.2.2.2⟩
theorem clean_list : ∀ (ts : List STree), wfList ts → cleanList (valueList ts)
  | [], _ => by simp [valueList, cleanList]
  | t :: r, h => by
    simp only [wfList] at h
    simp only [valueList, cleanList]
    exact ⟨clean_tree t h.1, clean_list r h.2⟩
theorem clean_entries : ∀ (es : List (List NameItem × Bytes × STree)), wfEntries es → cleanEntries (valueEntries es)
  | [], _ => by simp [valueEntries, cleanEntries]
  | (k, g, v) :: r, h => by
    simp only [wfEntries] at h
    simp only [valueEntries, cleanEntries]
    exact ⟨clean_tree v h.2.2.1, clean_entries r h.2.2.2⟩
end

end PdfVerif.Roundtrip
