/-
Lemmas about the inline-image scanner (Model/Inline.lean) for the target `EI`.
-/
import PdfVerif.Model.Inline

namespace PdfVerif.InlineLemmas
open PdfVerif PdfVerif.Inline

/-- `EI`. -/
def EI : Bytes := [69, 73]

/-- `EI` followed by a white-space byte does not occur in `l`. -/
def NoMarker (l : Bytes) : Prop :=
  ∀ (pre post : Bytes) (c : UInt8), isSpace c = true → l ≠ pre ++ 69 :: 73 :: c :: post

/-- State after feeding `l` to the automaton (ignoring the stop condition). -/
def run (i : Nat) (l : Bytes) : Nat := l.foldl (step EI) i

theorem EI_length : EI.length = 2 := rfl

theorem step_zero (c : UInt8) : step EI 0 c = if c = 69 then 1 else 0 := by
  simp only [step, EI, List.head?_cons, if_true, Option.some.injEq]
  by_cases h : c = 69
  · simp [h]
  · have : ¬ (69 : UInt8) = c := fun e => h e.symm
    simp [h, this]

theorem step_one (c : UInt8) : step EI 1 c = if c = 73 then 2 else 0 := by
  simp only [step, EI]
  by_cases h : c = 73
  · subst h; decide
  · have : ¬ (73 : UInt8) = c := fun e => h e.symm
    simp [h, this]

theorem step_two (c : UInt8) : step EI 2 c = if isSpace c then 3 else 0 := by
  simp only [step, EI]
  by_cases h : isSpace c = true
  · simp [h]
  · simp [h]

/-- What the state says about the bytes consumed so far. -/
def StateInv (i : Nat) (hist : Bytes) : Prop :=
  (i = 2 → ∃ pre, hist = pre ++ [69, 73]) ∧ (i = 1 → ∃ pre, hist = pre ++ [69])

theorem scan_prefix : ∀ (l : Bytes) (i : Nat) (hist tail : Bytes) (n : Nat), i ≤ 2 → StateInv i hist →
    NoMarker (hist ++ l) →
    scan EI i (l ++ tail) n = scan EI (run i l) tail (n + l.length) ∧ StateInv (run i l) (hist ++ l) ∧ run i l ≤ 2
  | [], i, hist, tail, n, hi, hinv, _ => by simp [run, hi, hinv]
  | c :: cs, i, hist, tail, n, hi, hinv, hno => by
    have hstep : step EI i c ≤ 2 ∧ StateInv (step EI i c) (hist ++ [c]) := by
      have h012 : i = 0 ∨ i = 1 ∨ i = 2 := by omega
      rcases h012 with rfl | rfl | rfl
      · rw [step_zero]
        by_cases h : c = 69
        · subst h
          exact ⟨by decide, ⟨(fun h => absurd h (by decide)), fun _ => ⟨hist, rfl⟩⟩⟩
        · simp only [h, if_false]
          exact ⟨by decide, ⟨(fun h => absurd h (by decide)), (fun h => absurd h (by decide))⟩⟩
      · rw [step_one]
        by_cases h : c = 73
        · subst h
          obtain ⟨pre, hpre⟩ := hinv.2 rfl
          exact ⟨by decide, ⟨fun _ => ⟨pre, by simp [hpre]⟩, (fun h => absurd h (by decide))⟩⟩
        · simp only [h, if_false]
          exact ⟨by decide, ⟨(fun h => absurd h (by decide)), (fun h => absurd h (by decide))⟩⟩
      · rw [step_two]
        by_cases h : isSpace c = true
        · exfalso
          obtain ⟨pre, hpre⟩ := hinv.1 rfl
          exact hno pre cs c h (by simp [hpre])
        · simp only [h]
          exact ⟨by decide, ⟨(fun h => absurd h (by decide)), (fun h => absurd h (by decide))⟩⟩
    have ih := scan_prefix cs (step EI i c) (hist ++ [c]) tail (n + 1) hstep.1 hstep.2
      (by simpa using hno)
    refine ⟨?_, ?_, ?_⟩
    · simp only [List.cons_append, scan]
      rw [if_neg (by rw [EI_length]; omega), ih.1]
      simp only [run, List.foldl_cons, List.length_cons]
      congr 1
      omega
    · have := ih.2.1
      simpa [run] using this
    · simpa [run] using ih.2.2

theorem run_snoc (i : Nat) (l : Bytes) (c : UInt8) : run i (l ++ [c]) = step EI (run i l) c := by
  simp [run]

/-- After an end-of-line byte the automaton is in state 0 (or has stopped). -/
theorem step_eol (i : Nat) (c : UInt8) (hi : i ≤ 2) (hc : c = 10 ∨ c = 13) (h : step EI i c ≤ 2) : step EI i c = 0 := by
  have h012 : i = 0 ∨ i = 1 ∨ i = 2 := by omega
  rcases h012 with rfl | rfl | rfl
  · rw [step_zero]; rcases hc with rfl | rfl <;> decide
  · rw [step_one]; rcases hc with rfl | rfl <;> decide
  · rw [step_two] at h ⊢
    rcases hc with rfl | rfl <;> simp [isSpace] at h ⊢

theorem scan_marker (c : UInt8) (rest : Bytes) (n : Nat) (hc : isSpace c = true) :
    scan EI 0 (69 :: 73 :: c :: rest) n = some (n + 3, false) := by
  simp only [scan, step_zero, step_one, step_two, hc, if_true, EI_length]
  simp

theorem scan_marker_eof (n : Nat) : scan EI 0 [69, 73] n = some (n + 2, true) := by
  simp only [scan, step_zero, step_one, if_true, EI_length]
  simp

/-- Removing one end-of-line from `data ++ eol`. -/
theorem stripEol_lf (d : Bytes) (h : d.getLast? ≠ some 13) : stripEol (d ++ [10]) = d := by
  unfold stripEol
  simp only [List.reverse_append, List.reverse_cons, List.reverse_nil, List.nil_append, List.cons_append]
  cases hd : d.reverse with
  | nil => simp [stripEolRev, List.reverse_eq_nil_iff.mp hd]
  | cons x xs =>
    have hx : x ≠ 13 := by
      intro hx
      apply h
      rw [List.getLast?_eq_head?_reverse, hd, hx]; rfl
    have : d = (x :: xs).reverse := by rw [← hd, List.reverse_reverse]
    unfold stripEolRev
    split
    · rename_i heq; simp at heq; exact (hx heq.1).elim
    · rename_i heq; simp at heq; rw [this, ← heq]; 
    · rename_i heq; simp at heq
    · rename_i h1 h2 h3; exact absurd rfl (h2 _)

theorem stripEol_crlf (d : Bytes) : stripEol (d ++ [13, 10]) = d := by
  unfold stripEol
  simp [stripEolRev]

theorem stripEol_cr (d : Bytes) : stripEol (d ++ [13]) = d := by
  unfold stripEol
  simp only [List.reverse_append, List.reverse_cons, List.reverse_nil, List.nil_append, List.cons_append]
  unfold stripEolRev
  split
  · rename_i heq; simp at heq
  · rename_i heq; simp at heq
  · rename_i heq; simp at heq; rw [← heq]; simp
  · rename_i h1 h2 h3; exact absurd rfl (h3 _)


/-- The end-of-line forms a writer puts between the data and `EI`. -/
def IsEol (sep : Bytes) : Prop := sep = [10] ∨ sep = [13, 10] ∨ sep = [13]

/-- What `get_inline_data` returns once the raw body (everything before the end marker) is known. -/
def finish (L : Option Nat) (body : Bytes) (n : Nat) : Option (Bytes × Nat) :=
  match L with
  | some len =>
    if body.drop len = [10] ∨ body.drop len = [13, 10] ∨ body.drop len = [13] then some (body.take len, n)
    else some (stripEol body, n)
  | none => some (stripEol body, n)

theorem run_eol_zero (data sep : Bytes) (hsep : IsEol sep) (hno : NoMarker (data ++ sep))
    (hle : run 0 (data ++ sep) ≤ 2) : run 0 (data ++ sep) = 0 := by
  have hlast : ∃ init c, data ++ sep = init ++ [c] ∧ (c = 10 ∨ c = 13) := by
    rcases hsep with rfl | rfl | rfl
    · exact ⟨data, 10, rfl, Or.inl rfl⟩
    · exact ⟨data ++ [13], 10, by simp, Or.inl rfl⟩
    · exact ⟨data, 13, rfl, Or.inr rfl⟩
  obtain ⟨init, c, hinit, hc⟩ := hlast
  have hp2 := scan_prefix init 0 [] [] 0 (by decide)
    ⟨fun h => absurd h (by decide), fun h => absurd h (by decide)⟩
    (by
      intro pre post c' hc' heq
      apply hno pre (post ++ [c]) c' hc'
      rw [hinit]
      simp only [List.nil_append] at heq
      rw [heq]; simp)
  rw [hinit, run_snoc] at hle ⊢
  exact step_eol _ c hp2.2.2 hc hle

/-- The scanner on `data EOL EI ws rest`, for any size hint. -/
theorem getInlineDataLen_marker (L : Option Nat) (data sep rest : Bytes) (ws : UInt8) (hsep : IsEol sep)
    (hws : isSpace ws = true) (hno : NoMarker (data ++ sep)) :
    getInlineDataLen EI L (data ++ sep ++ EI ++ ws :: rest) = finish L (data ++ sep) ((data ++ sep).length + 3) := by
  have hp := scan_prefix (data ++ sep) 0 [] (EI ++ ws :: rest) 0 (by decide)
    ⟨fun h => absurd h (by decide), fun h => absurd h (by decide)⟩ (by simpa using hno)
  obtain ⟨hscan, _, hle⟩ := hp
  have hzero := run_eol_zero data sep hsep hno hle
  unfold getInlineDataLen
  have hinput : data ++ sep ++ EI ++ ws :: rest = (data ++ sep) ++ (EI ++ ws :: rest) := by simp
  rw [hinput, hscan, hzero]
  have : EI ++ ws :: rest = 69 :: 73 :: ws :: rest := rfl
  rw [this, scan_marker ws rest _ hws]
  simp only [Nat.zero_add, EI_length, Bool.false_eq_true, if_false]
  have htake : List.take ((data ++ sep).length + 3) (data ++ sep ++ 69 :: 73 :: ws :: rest) =
      (data ++ sep) ++ [69, 73, ws] := by
    have : data ++ sep ++ 69 :: 73 :: ws :: rest = ((data ++ sep) ++ [69, 73, ws]) ++ rest := by simp
    rw [this]
    have hl : (data ++ sep).length + 3 = ((data ++ sep) ++ [69, 73, ws]).length := by simp <;> omega
    rw [hl, List.take_left]
  rw [htake]
  have : ((data ++ sep) ++ [69, 73, ws]).length - (2 + 1) = (data ++ sep).length := by simp <;> omega
  rw [this, List.take_left]
  cases L <;> rfl

/-- The same when `EI` is the last token of the content stream. -/
theorem getInlineDataLen_marker_eof (L : Option Nat) (data sep : Bytes) (hsep : IsEol sep)
    (hno : NoMarker (data ++ sep)) :
    getInlineDataLen EI L (data ++ sep ++ EI) = finish L (data ++ sep) ((data ++ sep).length + 2) := by
  have hp := scan_prefix (data ++ sep) 0 [] EI 0 (by decide)
    ⟨fun h => absurd h (by decide), fun h => absurd h (by decide)⟩ (by simpa using hno)
  obtain ⟨hscan, _, hle⟩ := hp
  have hzero := run_eol_zero data sep hsep hno hle
  unfold getInlineDataLen
  rw [hscan, hzero]
  have hm : scan EI 0 EI (0 + (data ++ sep).length) = some (0 + (data ++ sep).length + 2, true) :=
    scan_marker_eof _
  rw [hm]
  simp only [Nat.zero_add, if_true, EI_length, Nat.add_zero]
  have hl : (data ++ sep).length + 2 = ((data ++ sep) ++ EI).length := by simp [EI_length] <;> omega
  rw [hl, List.take_length]
  have h2 : ((data ++ sep) ++ EI).length - 2 = (data ++ sep).length := by simp [EI_length] <;> omega
  rw [h2, List.take_left]
  cases L <;> rfl

/-- With the right size hint the data comes back exactly, whatever its last bytes are. -/
theorem finish_exact (data sep : Bytes) (n : Nat) (hsep : IsEol sep) :
    finish (some data.length) (data ++ sep) n = some (data, n) := by
  unfold finish
  simp only [List.drop_left, List.take_left]
  exact if_pos hsep

theorem finish_none_strip (data sep : Bytes) (n : Nat) (hsep : IsEol sep)
    (hcr : ¬ (sep = [10] ∧ data.getLast? = some 13)) : finish none (data ++ sep) n = some (data, n) := by
  unfold finish
  simp only []
  congr 2
  rcases hsep with rfl | rfl | rfl
  · exact stripEol_lf data (fun h => hcr ⟨rfl, h⟩)
  · exact stripEol_crlf data
  · exact stripEol_cr data

end PdfVerif.InlineLemmas

