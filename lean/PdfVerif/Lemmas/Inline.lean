/-
Lemmas about the inline-image scanner (Model/Inline.lean) for the target `EI`.
-/
import PdfVerif.Model.Inline

namespace PdfVerif.InlineLemmas
open PdfVerif PdfVerif.Inline

/-- `EI`. -/
def EI : Bytes := [69, 73]

/-- `EI` followed by a white-space byte does not occur in `l`. -/
def NoMarker (l : Bytes) : Prop :=
  ∀ (pre post : Bytes) (c : UInt8), isSpace c = true → l ≠ pre ++ 69 :: 73 :: c :: post

/-- State after feeding `l` to the automaton (ignoring the stop condition). -/
def run (i : Nat) (l : Bytes) : Nat := l.foldl (step EI) i

theorem EI_length : EI.length = 2 := rfl

theorem step_zero (c : UInt8) : step EI 0 c = if c = 69 then 1 else 0 := by
  simp only [step, EI, List.head?_cons, if_true, Option.some.injEq]
  by_cases h : c = 69
  · simp [h]
  · have : ¬ (69 : UInt8) = c := fun e => h e.symm
    simp [h, this]

theorem step_one (c : UInt8) : step EI 1 c = if c = 73 then 2 else 0 := by
  simp only [step, EI]
  by_cases h : c = 73
  · subst h; decide
  · have : ¬ (73 : UInt8) = c := fun e => h e.symm
    simp [h, this]

theorem step_two (c : UInt8) : step EI 2 c = if isSpace c then 3 else 0 := by
  simp only [step, EI]
  by_cases h : isSpace c = true
  · simp [h]
  · simp [h]

/-- What the state says about the bytes consumed so far. -/
def StateInv (i : Nat) (hist : Bytes) : Prop :=
  (i = 2 → ∃ pre, hist = pre ++ [69, 73]) ∧ (i = 1 → ∃ pre, hist = pre ++ [69])

theorem scan_prefix : ∀ (l : Bytes) (i : Nat) (hist tail : Bytes) (n : Nat), i ≤ 2 → StateInv i hist →
    NoMarker (hist ++ l) →
    scan EI i (l ++ tail) n = scan EI (run i l) tail (n + l.length) ∧ StateInv (run i l) (hist ++ l) ∧ run i l ≤ 2
  | [], i, hist, tail, n, hi, hinv, _ => by simp [run, hi, hinv]
  | c :: cs, i, hist, tail, n, hi, hinv, hno => by
    have hstep : step EI i c ≤ 2 ∧ StateInv (step EI i c) (hist ++ [c]) := by
      have h012 : i = 0 ∨ i = 1 ∨ i = 2 := by omega
      rcases h012 with rfl | rfl | rfl
      · rw [step_zero]
        by_cases h : c = 69
        · subst h
          exact ⟨by decide, ⟨(fun h => absurd h (by decide)), fun _ => ⟨hist, rfl⟩⟩⟩
        · simp only [h, if_false]
          exact ⟨by decide, ⟨(fun h => absurd h (by decide)), (fun h => absurd h (by decide))⟩⟩
      · rw [step_one]
        by_cases h : c = 73
        · subst h
          obtain ⟨pre, hpre⟩ := hinv.2 rfl
          exact ⟨by decide, ⟨fun _ => ⟨pre, by simp [hpre]⟩, (fun h => absurd h (by decide))⟩⟩
        · simp only [h, if_false]
          exact ⟨by decide, ⟨(fun h => absurd h (by decide)), (fun h => absurd h (by decide))⟩⟩
      · rw [step_two]
        by_cases h : isSpace c = true
        · exfalso
          obtain ⟨pre, hpre⟩ := hinv.1 rfl
          exact hno pre cs c h (by simp [hpre])
        · simp only [h]
          exact ⟨by decide, ⟨(fun h => absurd h (by decide)), (fun h => absurd h (by decide))⟩⟩
    have ih := scan_prefix cs (step EI i c) (hist ++ [c]) tail (n + 1) hstep.1 hstep.2
      (by simpa using hno)
    refine ⟨?_, ?_, ?_⟩
    · simp only [List.cons_append, scan]
      rw [if_neg (by rw [EI_length]; omega), ih.1]
      simp only [run, List.foldl_cons, List.length_cons]
      congr 1
      omega
    · have := ih.2.1
      simpa [run] using this
    · simpa [run] using ih.2.2

theorem run_snoc (i : Nat) (l : Bytes) (c : UInt8) : run i (l ++ [c]) = step EI (run i l) c := by
  simp [run]

/-- After an end-of-line byte the automaton is in state 0 (or has stopped). -/
theorem step_eol (i : Nat) (c : UInt8) (hi : i ≤ 2) (hc : c = 10 ∨ c = 13) (h : step EI i c ≤ 2) : step EI i c = 0 := by
  have h012 : i = 0 ∨ i = 1 ∨ i = 2 := by omega
  rcases h012 with rfl | rfl | rfl
  · rw [step_zero]; rcases hc with rfl | rfl <;> decide
  · rw [step_one]; rcases hc with rfl | rfl <;> decide
  · rw [step_two] at h ⊢
    rcases hc with rfl | rfl <;> simp [isSpace] at h ⊢

theorem scan_marker (c : UInt8) (rest : Bytes) (n : Nat) (hc : isSpace c = true) :
    scan EI 0 (69 :: 73 :: c :: rest) n = some (n + 3, false) := by
  simp only [scan, step_zero, step_one, step_two, hc, if_true, EI_length]
  simp

theorem scan_marker_eof (n : Nat) : scan EI 0 [69, 73] n = some (n + 2, true) := by
  simp only [scan, step_zero, step_one, if_true, EI_length]
  simp

/-- Removing one end-of-line from `data ++ eol`. -/
theorem stripEol_lf (d : Bytes) (h : d.getLast? ≠ some 13) : stripEol (d ++ [10]) = d := by
  unfold stripEol
  simp only [List.reverse_append, List.reverse_cons, List.reverse_nil, List.nil_append, List.cons_append]
  cases hd : d.reverse with
  | nil => simp [stripEolRev, List.reverse_eq_nil_iff.mp hd]
  | cons x xs =>
    have hx : x ≠ 13 := by
      intro hx
      apply h
      rw [List.getLast?_eq_head?_reverse, hd, hx]; rfl
    have : d = (x :: xs).reverse := by rw [← hd, List.reverse_reverse]
    unfold stripEolRev
    split
    · rename_i heq; simp at heq; exact (hx heq.1).elim
    · rename_i heq; simp at heq; rw [this, ← heq]; 
    · rename_i heq; simp at heq
    · rename_i h1 h2 h3; exact absurd rfl (h2 _)

theorem stripEol_crlf (d : Bytes) : stripEol (d ++ [13, 10]) = d := by
  unfold stripEol
  simp [stripEolRev]

theorem stripEol_cr (d : Bytes) : stripEol (d ++ [13]) = d := by
  unfold stripEol
  simp only [List.reverse_append, List.reverse_cons, List.reverse_nil, List.nil_append, List.cons_append]
  unfold stripEolRev
  split
  · rename_i heq; simp at heq
  · rename_i heq; simp at heq
  · rename_i heq; simp at heq; rw [← heq]; simp
  · rename_i h1 h2 h3; exact absurd rfl (h3 _)

end PdfVerif.InlineLemmas
